(** Proofs about Model/EventLogAlign.v (property C13). *)
From CSS Require Import Lib.Base Model.EventLog Model.EventLogAlign Proofs.EventLog.

(** * Small facts *)

Lemma bind_ok : forall A B (o : outcome A) (f : A -> outcome B) b,
  bind o f = Ok b -> exists a, o = Ok a /\ f a = Ok b.
Proof. intros A B [a| | |] f b E; cbn [bind] in E; try discriminate. exists a. split; [reflexivity|exact E]. Qed.

Lemma bind_not_panic : forall A B (o : outcome A) (f : A -> outcome B),
  o <> Panic -> (forall a, o = Ok a -> f a <> Panic) -> bind o f <> Panic.
Proof. intros A B [a| | |] f Ho Hf; cbn [bind]; try discriminate; [apply Hf; reflexivity|congruence]. Qed.

Lemma somes_app : forall A (a b : list (option A)), somes (a ++ b) = somes a ++ somes b.
Proof. induction a as [|[x|] a IH]; intro b; cbn [somes app]; [reflexivity|rewrite IH; reflexivity|apply IH]. Qed.

Lemma somes_map_some : forall A (l : list A), somes (map Some l) = l.
Proof. induction l as [|x l IH]; cbn [somes map]; [reflexivity|rewrite IH; reflexivity]. Qed.

Lemma count_true_le : forall l, (count_true l <= length l)%nat.
Proof.
  unfold count_true. induction l as [|[|] l IH]; cbn [filter length]; lia.
Qed.

Lemma count_true_cons : forall b l, count_true (b :: l) = ((if b then 1 else 0) + count_true l)%nat.
Proof. intros [|] l; reflexivity. Qed.

Lemma count_true_all_false : forall A (l : list A), count_true (all_false l) = O.
Proof. intros A l. unfold all_false, count_true. induction (length l) as [|n IH]; [reflexivity|exact IH]. Qed.

Lemma all_false_length : forall A (l : list A), length (all_false l) = length l.
Proof. intros. unfold all_false. apply repeat_length. Qed.

Lemma flag_all_false : forall A (l : list A), flag (all_false l) l = map (fun x => (false, x)) l.
Proof. intros A l. unfold flag, all_false. induction l as [|x l IH]; [reflexivity|]. cbn [length repeat combine map]. rewrite IH. reflexivity. Qed.

Lemma map_snd_flag : forall A (bm : list bool) (l : list A), length bm = length l -> map snd (flag bm l) = l.
Proof.
  intros A bm l. unfold flag. revert l. induction bm as [|b bm IH]; intros [|x l] H; cbn in H; try discriminate; [reflexivity|].
  cbn [combine map snd]. rewrite IH by lia. reflexivity.
Qed.

Lemma map_fst_flag : forall A (bm : list bool) (l : list A), length bm = length l -> map fst (flag bm l) = bm.
Proof.
  intros A bm l. unfold flag. revert l. induction bm as [|b bm IH]; intros [|x l] H; cbn in H; try discriminate; [reflexivity|].
  cbn [combine map fst]. rewrite IH by lia. reflexivity.
Qed.

(** * The two merge loops: unfolding *)

Lemma distance_unfold : forall cs es acc,
  distance cs es acc =
    match cs with
    | (true, _) :: cs' => distance cs' es (wrap64 (acc + BIGN))
    | (false, c) :: cs' =>
        match es with
        | (true, _) :: es' => distance cs es' (wrap64 (acc + BIGN))
        | (false, e) :: es' =>
            if negb (length (ev_digest_bytes e) =? length (s_digest c))%nat then Panic
            else distance cs' es' (wrap64 (acc + pair_cost c e))
        | [] => Panic
        end
    | [] =>
        match es with
        | (true, _) :: es' => distance [] es' (wrap64 (acc + BIGN))
        | (false, _) :: _ => Panic
        | [] => Ok acc
        end
    end.
Proof.
  intros cs es acc. destruct cs as [|[[|] c] cs]; destruct es as [|[[|] e] es]; reflexivity.
Qed.

Lemma interleave_unfold : forall es cs,
  interleave es cs =
    match es with
    | (true, e) :: es' => bind (interleave es' cs) (fun r => Ok ((None, Some e) :: r))
    | (false, e) :: es' =>
        match cs with
        | (true, c) :: cs' => bind (interleave es cs') (fun r => Ok ((Some c, None) :: r))
        | (false, c) :: cs' => bind (interleave es' cs') (fun r => Ok ((Some c, Some e) :: r))
        | [] => Panic
        end
    | [] =>
        match cs with
        | (true, c) :: cs' => bind (interleave [] cs') (fun r => Ok ((Some c, None) :: r))
        | (false, _) :: _ => Panic
        | [] => Ok []
        end
    end.
Proof.
  intros es cs. destruct es as [|[[|] e] es]; destruct cs as [|[[|] c] cs]; reflexivity.
Qed.

(** * Conservation *)

Definition pairs_exp (ps : list apair) : list event := somes (map snd ps).
Definition pairs_calc (ps : list apair) : list sim_ev := somes (map fst ps).

(** Whatever the flags are: when the interleaving loop returns, both sides are conserved. *)
Lemma interleave_conserves : forall n es cs ps,
  (length es + length cs <= n)%nat ->
  interleave es cs = Ok ps ->
  pairs_exp ps = map snd es /\ pairs_calc ps = map snd cs.
Proof.
  unfold pairs_exp, pairs_calc.
  induction n as [|n IH]; intros es cs ps Hn E; rewrite interleave_unfold in E.
  - destruct es; destruct cs; cbn in Hn; try lia. inversion E. split; reflexivity.
  - destruct es as [|[[|] e] es'].
    + destruct cs as [|[[|] c] cs']; try discriminate.
      * inversion E. split; reflexivity.
      * apply bind_ok in E. destruct E as [r [E1 E2]]. inversion E2; subst.
        apply IH in E1; [|cbn in *; lia]. destruct E1 as [A B]. cbn [map snd fst somes]. rewrite A, B. split; reflexivity.
    + apply bind_ok in E. destruct E as [r [E1 E2]]. inversion E2; subst.
      apply IH in E1; [|cbn in *; lia]. destruct E1 as [A B]. cbn [map snd fst somes]. rewrite A, B. split; reflexivity.
    + destruct cs as [|[[|] c] cs']; try discriminate.
      * apply bind_ok in E. destruct E as [r [E1 E2]]. inversion E2; subst.
        apply IH in E1; [|cbn in *; lia]. destruct E1 as [A B]. cbn [map snd fst somes] in *. rewrite A, B. split; reflexivity.
      * apply bind_ok in E. destruct E as [r [E1 E2]]. inversion E2; subst.
        apply IH in E1; [|cbn in *; lia]. destruct E1 as [A B]. cbn [map snd fst somes]. rewrite A, B. split; reflexivity.
Qed.

(** Balanced flags: the interleaving loop returns (no index panic). *)
Lemma count_true_fst_le : forall A (l : list (bool * A)), (count_true (map fst l) <= length l)%nat.
Proof. intros A l. pose proof (count_true_le (map fst l)) as H. rewrite map_length in H. exact H. Qed.

Lemma interleave_total : forall n es cs,
  (length es + length cs <= n)%nat ->
  (length es - count_true (map fst es) = length cs - count_true (map fst cs))%nat ->
  exists ps, interleave es cs = Ok ps.
Proof.
  induction n as [|n IH]; intros es cs Hn Hb; rewrite interleave_unfold.
  - destruct es; destruct cs; cbn in Hn; try lia. eexists; reflexivity.
  - destruct es as [|[[|] e] es']; destruct cs as [|[[|] c] cs'];
      try pose proof (count_true_fst_le _ es') as Le; try pose proof (count_true_fst_le _ cs') as Lc;
      cbn [map fst] in Hb; rewrite ?count_true_cons in Hb; cbn [length] in Hb, Hn;
      try (exfalso; cbn [count_true filter length] in Hb; lia).
    + eexists; reflexivity.
    + destruct (IH [] cs') as [ps E]; [cbn [length]; lia|cbn [map length]; lia|rewrite E; eexists; reflexivity].
    + destruct (IH es' []) as [ps E]; [cbn [length]; lia|cbn [map length] in *; lia|rewrite E; eexists; reflexivity].
    + destruct (IH es' ((true, c) :: cs')) as [ps E]; [cbn [length]; lia|cbn [map fst length]; rewrite count_true_cons; lia|rewrite E; eexists; reflexivity].
    + destruct (IH es' ((false, c) :: cs')) as [ps E]; [cbn [length]; lia|cbn [map fst length]; rewrite count_true_cons; lia|rewrite E; eexists; reflexivity].
    + destruct (IH ((false, e) :: es') cs') as [ps E]; [cbn [length]; lia|cbn [map fst length]; rewrite count_true_cons; lia|rewrite E; eexists; reflexivity].
    + destruct (IH es' cs') as [ps E]; [cbn [length]; lia|lia|rewrite E; eexists; reflexivity].
Qed.

Lemma zip_pairs_conserves : forall es cs, length es = length cs ->
  pairs_exp (zip_pairs es cs) = es /\ pairs_calc (zip_pairs es cs) = cs.
Proof.
  unfold pairs_exp, pairs_calc, zip_pairs.
  induction es as [|e es IH]; intros [|c cs] H; cbn in H; try discriminate; [split; reflexivity|].
  cbn [combine map fst snd somes]. destruct (IH cs ltac:(lia)) as [A B]. rewrite A, B. split; reflexivity.
Qed.

Lemma align_logs_conserves : forall es cs oracle ps,
  align_logs es cs oracle = Ok ps -> pairs_exp ps = es /\ pairs_calc ps = cs.
Proof.
  intros es cs oracle ps E. unfold align_logs in E.
  apply bind_ok in E. destruct E as [[[de dc] dist] [_ E]].
  assert (K : (if negb (length de =? length es)%nat || negb (length dc =? length cs)%nat then Panic
               else if negb (length es - count_true de =? length cs - count_true dc)%nat
                    then Err E_COUNTS else interleave (flag de es) (flag dc cs)) = Ok ps ->
              pairs_exp ps = es /\ pairs_calc ps = cs).
  { intro K.
    destruct (length de =? length es)%nat eqn:L1; cbn [negb orb] in K; [|discriminate].
    destruct (length dc =? length cs)%nat eqn:L2; cbn [negb orb] in K; [|discriminate].
    apply Nat.eqb_eq in L1. apply Nat.eqb_eq in L2.
    destruct (negb (length es - count_true de =? length cs - count_true dc)%nat); [discriminate|].
    apply (interleave_conserves _ _ _ _ (le_n _)) in K.
    rewrite !map_snd_flag in K by assumption. exact K. }
  destruct dist as [[|p|p]|]; try (apply K; exact E).
  destruct (negb (length es =? length cs)%nat) eqn:L; [discriminate|].
  inversion E; subst. apply zip_pairs_conserves. apply Nat.eqb_eq. destruct (length es =? length cs)%nat; [reflexivity|discriminate].
Qed.

Lemma walk_meas_length : forall al un, length (walk_meas al un) = length al.
Proof.
  induction al as [|a al IH]; intro un; [reflexivity|].
  cbn [walk_meas]. destruct un as [|[m u] us]; [cbn [length]; rewrite IH; reflexivity|].
  destruct (same_ev a u); cbn [length]; rewrite IH; reflexivity.
Qed.

(** The pointer walk re-attaches every measurement to its own event, whenever the
    aligned column, gaps dropped, is the unaligned event list: the i-th non-gap entry of
    [al] gets the measurement of the i-th element of [un]. *)
Fixpoint attach_spec (al : list (option sim_ev)) (un : list (option meas * sim_ev)) : list (option meas) :=
  match al with
  | [] => []
  | None :: t => None :: attach_spec t un
  | Some _ :: t => match un with
                   | [] => None :: attach_spec t []
                   | (m, _) :: us => m :: attach_spec t us
                   end
  end.

Lemma walk_meas_spec : forall al un, somes al = map snd un -> walk_meas al un = attach_spec al un.
Proof.
  induction al as [|[s|] al IH]; intros un H; [reflexivity| |].
  - cbn [somes] in H. destruct un as [|[m u] us]; [discriminate|].
    cbn [map snd] in H. inversion H; subst.
    cbn [walk_meas attach_spec same_ev]. rewrite Z.eqb_refl. f_equal. apply IH. assumption.
  - cbn [somes] in H. cbn [walk_meas attach_spec]. destruct un as [|[m u] us].
    + f_equal. apply IH. exact H.
    + cbn [same_ev]. f_equal. apply IH. exact H.
Qed.

Lemma attach_columns : forall sims ps,
  pairs_calc ps = map snd sims ->
  map a_calc (attach sims ps) = map fst ps /\ map a_exp (attach sims ps) = map snd ps.
Proof.
  intros sims ps Hc. unfold attach.
  set (ms := if (length sims =? length ps)%nat then map fst sims else walk_meas (map fst ps) sims).
  assert (L : length ms = length ps).
  { unfold ms. destruct (length sims =? length ps)%nat eqn:E.
    - apply Nat.eqb_eq in E. rewrite map_length. exact E.
    - rewrite walk_meas_length, map_length. reflexivity. }
  clearbody ms. revert ms L. clear Hc. induction ps as [|[c e] ps IH]; intros [|m ms] L; cbn in L; try discriminate; [split; reflexivity|].
  cbn [combine map a_calc a_exp fst snd]. destruct (IH ms ltac:(lia)) as [A B]. rewrite A, B. split; reflexivity.
Qed.

(** * The result loop *)

Section WithHp.
Variable Hp : meas -> Z -> list Z.

Lemma repair_sound : forall P st m digest v,
  repair Hp P st m digest = Some v -> Hp m v = digest.
Proof.
  intros P st m digest v. unfold repair, linear_search, comb_search.
  destruct (find _ (lin_cands P (st_lin_limit st))) as [d|] eqn:F; cbn [option_map].
  - intro E. inversion E; subst. apply find_some in F. apply zlist_eqb_eq. apply F.
  - destruct (st_comb_enabled st); [|discriminate].
    destruct (find _ (comb_cands (st_comb_limit st))) as [x|] eqn:G; cbn [option_map]; [|discriminate].
    intro E. inversion E; subst. apply find_some in G. apply zlist_eqb_eq. apply G.
Qed.

(** What the loop does with one aligned entry, read off a result entry: the register
    found for it (if it is a PCR0_DATA entry with a differing digest that could be
    repaired), and its status. *)
Definition r_repaired (P : Z) (regs : bool) (st : settings) (r : rentry) : option Z :=
  match re_calc r, re_exp r, re_meas r with
  | Some c, Some e, Some m =>
      if digests_equal c e then None
      else if regs && is_pcr0_meas m then repair Hp P st m (ev_digest_bytes e) else None
  | _, _, _ => None
  end.

Definition status_of (P : Z) (regs : bool) (st : settings) (r : rentry) : option status :=
  match re_calc r, re_exp r with
  | None, Some _ => Some StUnexpected
  | Some _, None => Some StMissing
  | None, None => None
  | Some c, Some e =>
      if digests_equal c e then Some StMatch
      else match r_repaired P regs st r with Some _ => Some StMatch | None => Some StMismatch end
  end.

Definition issues_of (P : Z) (regs : bool) (st : settings) (idx : Z) (r : rentry) : list issue :=
  match re_calc r, re_exp r with
  | None, Some _ => [IUnexpected idx]
  | Some _, None => [IMissing]
  | None, None => []
  | Some c, Some e =>
      if digests_equal c e then []
      else match r_repaired P regs st r with
           | Some _ => [IRepaired]
           | None => match re_meas r with
                     | Some m => if regs && is_pcr0_meas m then [IRepairFail] else [IMismatch idx]
                     | None => [IMismatch idx]
                     end
           end
  end.

Fixpoint issues_from (P : Z) (regs : bool) (st : settings) (idx : Z) (rs : list rentry) : list issue :=
  match rs with
  | [] => []
  | r :: t => issues_of P regs st idx r ++ issues_from P regs st (idx + 1) t
  end.

Definition last_some (l : list (option Z)) (init : option Z) : option Z :=
  fold_left (fun acc o => match o with Some r => Some r | None => acc end) l init.

Definition entry_of (a : aentry) (r : rentry) : Prop :=
  re_calc r = a_calc a /\ re_exp r = a_exp a /\
  (re_meas r = match a_calc a with Some _ => a_meas a | None => None end).

Lemma push_ok : forall r is o rs iss u,
  push r is o = Ok (rs, iss, u) ->
  exists rs' iss', o = Ok (rs', iss', u) /\ rs = r :: rs' /\ iss = is ++ iss'.
Proof.
  intros r is o rs iss u E. unfold push in E. apply bind_ok in E.
  destruct E as [[[rs' iss'] u'] [E1 E2]]. inversion E2; subst. eexists. eexists. split; [reflexivity|split; reflexivity].
Qed.

Lemma result_loop_spec : forall P isz regs st l idx upd0 rs iss upd,
  result_loop Hp P isz regs st idx l upd0 = Ok (rs, iss, upd) ->
  Forall2 entry_of l rs /\
  Forall (fun r => Some (re_status r) = status_of P regs st r) rs /\
  iss = issues_from P regs st idx rs /\
  upd = last_some (map (r_repaired P regs st) rs) upd0.
Proof.
  induction l as [|a l IH]; intros idx upd0 rs iss upd E; cbn [result_loop] in E.
  - inversion E; subst. repeat split; constructor.
  - destruct (a_calc a) as [c|] eqn:Ec; destruct (a_exp a) as [e|] eqn:Ee.
    + destruct (zlist_eqb (ev_digest_bytes e) (s_digest c)) eqn:Ed.
      * apply push_ok in E. destruct E as [rs' [iss' [E [? ?]]]]; subst.
        apply IH in E. destruct E as [A [B [C D]]]. repeat split.
        -- constructor; [|exact A]. unfold entry_of. cbn [re_calc re_exp re_meas]. rewrite Ec, Ee. auto.
        -- constructor; [|exact B]. unfold status_of, digests_equal. cbn [re_calc re_exp re_status]. rewrite Ed. reflexivity.
        -- cbn [issues_from]. unfold issues_of at 1, digests_equal. cbn [re_calc re_exp]. rewrite Ed. cbn [app]. exact C.
        -- cbn [map]. unfold last_some. cbn [fold_left]. unfold r_repaired at 2, digests_equal. cbn [re_calc re_exp re_meas].
           destruct (a_meas a); rewrite ?Ed; exact D.
      * assert (Hp0 : is_pcrx regs (a_meas a) = match a_meas a with Some m => regs && is_pcr0_meas m | None => false end).
        { unfold is_pcrx. destruct (a_meas a); [reflexivity|apply andb_false_r]. }
        rewrite Hp0 in E. clear Hp0. revert E.
        destruct (a_meas a) as [m|] eqn:Em; intro E.
        -- destruct (regs && is_pcr0_meas m) eqn:Ep.
           ++ destruct (repair Hp P st m (ev_digest_bytes e)) as [v|] eqn:Er.
              ** apply push_ok in E. destruct E as [rs' [iss' [E [? ?]]]]; subst rs iss.
                 apply IH in E. destruct E as [A [B [C D]]]. repeat split.
                 --- constructor; [|exact A]. unfold entry_of. cbn [re_calc re_exp re_meas]. rewrite Ec, Ee. auto.
                 --- constructor; [|exact B]. unfold status_of, r_repaired, digests_equal. cbn [re_calc re_exp re_meas re_status].
                     rewrite Ed, Ep, Er. reflexivity.
                 --- cbn [issues_from]. unfold issues_of at 1, r_repaired, digests_equal. cbn [re_calc re_exp re_meas].
                     rewrite Ed, Ep, Er. cbn [app]. f_equal. exact C.
                 --- cbn [map]. unfold last_some. cbn [fold_left]. unfold r_repaired at 2, digests_equal. cbn [re_calc re_exp re_meas].
                     rewrite Ed, Ep, Er. exact D.
              ** apply push_ok in E. destruct E as [rs' [iss' [E [? ?]]]]; subst rs iss.
                 apply IH in E. destruct E as [A [B [C D]]]. repeat split.
                 --- constructor; [|exact A]. unfold entry_of. cbn [re_calc re_exp re_meas]. rewrite Ec, Ee. auto.
                 --- constructor; [|exact B]. unfold status_of, r_repaired, digests_equal. cbn [re_calc re_exp re_meas re_status].
                     rewrite Ed, Ep, Er. reflexivity.
                 --- cbn [issues_from]. unfold issues_of at 1, r_repaired, digests_equal. cbn [re_calc re_exp re_meas].
                     rewrite Ed, Ep, Er. cbn [app]. f_equal. exact C.
                 --- cbn [map]. unfold last_some. cbn [fold_left]. unfold r_repaired at 2, digests_equal. cbn [re_calc re_exp re_meas].
                     rewrite Ed, Ep, Er. exact D.
           ++ apply bind_ok in E. destruct E as [[] [_ E]].
              apply push_ok in E. destruct E as [rs' [iss' [E [? ?]]]]; subst rs iss.
              apply IH in E. destruct E as [A [B [C D]]]. repeat split.
              ** constructor; [|exact A]. unfold entry_of. cbn [re_calc re_exp re_meas]. rewrite Ec, Ee. auto.
              ** constructor; [|exact B]. unfold status_of, r_repaired, digests_equal. cbn [re_calc re_exp re_meas re_status].
                 rewrite Ed, Ep. reflexivity.
              ** cbn [issues_from]. unfold issues_of at 1, r_repaired, digests_equal. cbn [re_calc re_exp re_meas].
                 rewrite Ed, Ep. cbn [app]. f_equal. exact C.
              ** cbn [map]. unfold last_some. cbn [fold_left]. unfold r_repaired at 2, digests_equal. cbn [re_calc re_exp re_meas].
                 rewrite Ed, Ep. exact D.
        -- apply bind_ok in E. destruct E as [[] [_ E]].
           apply push_ok in E. destruct E as [rs' [iss' [E [? ?]]]]; subst rs iss.
           apply IH in E. destruct E as [A [B [C D]]]. repeat split.
           ++ constructor; [|exact A]. unfold entry_of. cbn [re_calc re_exp re_meas]. rewrite Ec, Ee. auto.
           ++ constructor; [|exact B]. unfold status_of, r_repaired, digests_equal. cbn [re_calc re_exp re_meas re_status].
              rewrite Ed. reflexivity.
           ++ cbn [issues_from]. unfold issues_of at 1, r_repaired, digests_equal. cbn [re_calc re_exp re_meas].
              rewrite Ed. cbn [app]. f_equal. exact C.
           ++ cbn [map]. unfold last_some. cbn [fold_left]. unfold r_repaired at 2. cbn [re_calc re_exp re_meas]. exact D.
    + apply push_ok in E. destruct E as [rs' [iss' [E [? ?]]]]; subst rs iss.
      apply IH in E. destruct E as [A [B [C D]]]. repeat split.
      * constructor; [|exact A]. unfold entry_of. cbn [re_calc re_exp re_meas]. rewrite Ec, Ee. auto.
      * constructor; [|exact B]. reflexivity.
      * cbn [issues_from]. unfold issues_of at 1. cbn [re_calc re_exp app]. f_equal. exact C.
      * cbn [map]. unfold last_some. cbn [fold_left]. unfold r_repaired at 2. cbn [re_calc re_exp re_meas]. exact D.
    + apply bind_ok in E. destruct E as [[] [_ E]].
      apply push_ok in E. destruct E as [rs' [iss' [E [? ?]]]]; subst rs iss.
      apply IH in E. destruct E as [A [B [C D]]]. repeat split.
      * constructor; [|exact A]. unfold entry_of. cbn [re_calc re_exp re_meas]. rewrite Ec, Ee. auto.
      * constructor; [|exact B]. reflexivity.
      * cbn [issues_from]. unfold issues_of at 1. cbn [re_calc re_exp app]. f_equal. exact C.
      * cbn [map]. unfold last_some. cbn [fold_left]. unfold r_repaired at 2. cbn [re_calc re_exp re_meas]. exact D.
    + discriminate.
Qed.

End WithHp.

(** * ReproduceEventLog: shape of a successful run *)

Section Top.
Variable Hp : meas -> Z -> list Z.

Lemma reproduce_ok_inv : forall P isz regs cmds evlog recorded alg st oracle rs iss upd,
  reproduce Hp P isz regs cmds evlog recorded alg st oracle = Ok (rs, iss, upd) ->
  exists log es sims ps,
    recorded = Some log /\
    filterEvents log 0 alg = Ok es /\
    sim_align cmds evlog 0 alg = Ok sims /\
    align_logs es (map snd sims) oracle = Ok ps /\
    result_loop Hp P isz regs st 0 (attach sims ps) None = Ok (rs, iss, upd).
Proof.
  intros P isz regs cmds evlog recorded alg st oracle rs iss upd E. unfold reproduce in E.
  destruct recorded as [log|]; [|discriminate].
  apply bind_ok in E. destruct E as [sims [E1 E]].
  apply bind_ok in E. destruct E as [es [E2 E]].
  apply bind_ok in E. destruct E as [ps [E3 E]].
  exists log, es, sims, ps. repeat split; assumption.
Qed.

Lemma entry_of_columns : forall l rs, Forall2 entry_of l rs ->
  map re_calc rs = map a_calc l /\ map re_exp rs = map a_exp l.
Proof.
  induction 1 as [|a r l rs [A [B _]] _ [IH1 IH2]]; [split; reflexivity|].
  cbn [map]. rewrite A, B, IH1, IH2. split; reflexivity.
Qed.

(** Conservation: projecting the result to either side, gaps dropped, gives back
    exactly the PCR0 events of the bank — the recorded ones as FilterEvents selects
    them, the simulated ones as alignLogAndMeasurements lists them — whatever bitmaps
    the search produced. *)
Theorem conservation : forall P isz regs cmds evlog recorded alg st oracle rs iss upd,
  reproduce Hp P isz regs cmds evlog recorded alg st oracle = Ok (rs, iss, upd) ->
  exists log sims,
    recorded = Some log /\
    sim_align cmds evlog 0 alg = Ok sims /\
    rec_side rs = selected log 0 alg /\
    sim_side rs = map snd sims.
Proof.
  intros P isz regs cmds evlog recorded alg st oracle rs iss upd E.
  apply reproduce_ok_inv in E. destruct E as [log [es [sims [ps [R [F [S [A L]]]]]]]].
  exists log, sims. split; [exact R|]. split; [exact S|].
  apply filterEvents_spec in F. destruct F as [F _].
  apply align_logs_conserves in A. destruct A as [A1 A2].
  apply result_loop_spec in L. destruct L as [L _]. apply entry_of_columns in L. destruct L as [L1 L2].
  destruct (attach_columns sims ps A2) as [C1 C2].
  unfold rec_side, sim_side. rewrite L1, L2, C1, C2.
  unfold pairs_exp, pairs_calc in *. rewrite A1, A2, F. split; reflexivity.
Qed.

(** Any balanced bitmaps are accepted by the interleaving loop: it returns, and both
    sides are conserved (this is the statement about alignLogs alone). *)
Theorem interleave_balanced : forall es cs oracle,
  balanced es cs oracle ->
  exists ps, interleave (flag (fst oracle) es) (flag (snd oracle) cs) = Ok ps /\
             pairs_exp ps = es /\ pairs_calc ps = cs.
Proof.
  intros es cs [de dc] [L1 [L2 B]]. cbn [fst snd] in *.
  destruct (interleave_total _ (flag de es) (flag dc cs) (le_n _)) as [ps E].
  - rewrite !map_fst_flag by assumption. unfold flag. rewrite !combine_length, L1, L2, !Nat.min_id. exact B.
  - exists ps. split; [exact E|].
    apply (interleave_conserves _ _ _ _ (le_n _)) in E. rewrite !map_snd_flag in E by assumption. exact E.
Qed.

(** Truthful statuses *)
Theorem statuses : forall P isz regs cmds evlog recorded alg st oracle rs iss upd,
  reproduce Hp P isz regs cmds evlog recorded alg st oracle = Ok (rs, iss, upd) ->
  Forall (fun r => Some (re_status r) = status_of Hp P regs st r) rs /\
  iss = issues_from Hp P regs st 0 rs /\
  upd = last_some (map (r_repaired Hp P regs st) rs) None.
Proof.
  intros P isz regs cmds evlog recorded alg st oracle rs iss upd E.
  apply reproduce_ok_inv in E. destruct E as [log [es [sims [ps [_ [_ [_ [_ L]]]]]]]].
  apply result_loop_spec in L. destruct L as [_ [B [C D]]]. repeat split; assumption.
Qed.

Lemma r_repaired_sound : forall P regs st r v,
  r_repaired Hp P regs st r = Some v ->
  exists c e m, re_calc r = Some c /\ re_exp r = Some e /\ re_meas r = Some m /\
    digests_equal c e = false /\ regs = true /\ is_pcr0_meas m = true /\
    Hp m v = ev_digest_bytes e.
Proof.
  intros P regs st r v. unfold r_repaired.
  destruct (re_calc r) as [c|]; [|discriminate]. destruct (re_exp r) as [e|]; [|discriminate].
  destruct (re_meas r) as [m|]; [|discriminate].
  destruct (digests_equal c e) eqn:D; [discriminate|].
  destruct regs; cbn [andb]; [|discriminate]. destruct (is_pcr0_meas m) eqn:I; [|discriminate].
  intro E. apply repair_sound in E. exists c, e, m. repeat split; assumption.
Qed.

(** the four verdicts, as equivalences *)
Theorem status_truthful : forall P isz regs cmds evlog recorded alg st oracle rs iss upd,
  reproduce Hp P isz regs cmds evlog recorded alg st oracle = Ok (rs, iss, upd) ->
  forall r, In r rs ->
    (re_status r = StUnexpected <-> re_calc r = None /\ re_exp r <> None) /\
    (re_status r = StMissing <-> re_calc r <> None /\ re_exp r = None) /\
    (re_status r = StMismatch <->
       exists c e, re_calc r = Some c /\ re_exp r = Some e /\ digests_equal c e = false /\
                   r_repaired Hp P regs st r = None) /\
    (re_status r = StMatch <->
       exists c e, re_calc r = Some c /\ re_exp r = Some e /\
         (digests_equal c e = true \/
          exists m v, re_meas r = Some m /\ is_pcr0_meas m = true /\
                      r_repaired Hp P regs st r = Some v /\ Hp m v = ev_digest_bytes e)).
Proof.
  intros P isz regs cmds evlog recorded alg st oracle rs iss upd E r Hin.
  apply statuses in E. destruct E as [F _]. rewrite Forall_forall in F. specialize (F r Hin).
  unfold status_of in F.
  destruct (re_calc r) as [c|] eqn:Ec; destruct (re_exp r) as [e|] eqn:Ee.
  - destruct (digests_equal c e) eqn:D.
    + inversion F as [S]. split; [|split; [|split]].
      * split; [congruence|intros [K _]; discriminate].
      * split; [congruence|intros [_ K]; discriminate].
      * split; [congruence|]. intros [c' [e' [A1 [A2 [A3 _]]]]]. inversion A1; inversion A2; subst. congruence.
      * split; [|congruence]. intros _. exists c, e. split; [reflexivity|]. split; [reflexivity|]. left. exact D.
    + destruct (r_repaired Hp P regs st r) as [v|] eqn:R.
      * inversion F as [S]. split; [|split; [|split]].
        -- split; [congruence|intros [K _]; discriminate].
        -- split; [congruence|intros [_ K]; discriminate].
        -- split; [congruence|]. intros [c' [e' [_ [_ [_ K]]]]]. discriminate.
        -- split; [|congruence]. intros _. exists c, e. split; [reflexivity|]. split; [reflexivity|]. right.
           destruct (r_repaired_sound _ _ _ _ _ R) as [c' [e' [m [A1 [A2 [A3 [_ [_ [A6 A7]]]]]]]]].
           rewrite Ee in A2. inversion A2; subst e'. exists m, v. repeat split; assumption.
      * inversion F as [S]. split; [|split; [|split]].
        -- split; [congruence|intros [K _]; discriminate].
        -- split; [congruence|intros [_ K]; discriminate].
        -- split; [|congruence]. intros _. exists c, e. repeat split. exact D.
        -- split; [congruence|]. intros [c' [e' [A1 [A2 [K|[m [v [_ [_ [K _]]]]]]]]]].
           ++ inversion A1; inversion A2; subst. congruence.
           ++ discriminate.
  - inversion F as [S]. split; [|split; [|split]].
    + split; [congruence|intros [K _]; discriminate].
    + split; [|congruence]. intros _. split; [discriminate|reflexivity].
    + split; [congruence|]. intros [c' [e' [_ [K _]]]]. discriminate.
    + split; [congruence|]. intros [c' [e' [_ [K _]]]]. discriminate.
  - inversion F as [S]. split; [|split; [|split]].
    + split; [|congruence]. intros _. split; [reflexivity|discriminate].
    + split; [congruence|intros [K _]; congruence].
    + split; [congruence|]. intros [c' [e' [K _]]]. discriminate.
    + split; [congruence|]. intros [c' [e' [K _]]]. discriminate.
  - discriminate.
Qed.

(** The returned register is the one found for the last repaired entry ... *)
Lemma last_some_app : forall a b init, last_some (a ++ b) init = last_some b (last_some a init).
Proof. intros. unfold last_some. apply fold_left_app. Qed.

Lemma last_some_none : forall l init, Forall (fun o => o = None) l -> last_some l init = init.
Proof.
  induction l as [|o l IH]; intros init F; [reflexivity|]. inversion F; subst. cbn. apply IH. assumption.
Qed.

(** ... so when at most one entry was repaired (a boot has one PCR0_DATA measurement per
    bank), it is the register that justifies that entry's Match. *)
Theorem corrected_register_justifies : forall P isz regs cmds evlog recorded alg st oracle rs iss upd,
  reproduce Hp P isz regs cmds evlog recorded alg st oracle = Ok (rs, iss, upd) ->
  (length (filter (fun r => match r_repaired Hp P regs st r with Some _ => true | None => false end) rs) <= 1)%nat ->
  forall r v, In r rs -> r_repaired Hp P regs st r = Some v -> upd = Some v.
Proof.
  intros P isz regs cmds evlog recorded alg st oracle rs iss upd E Hone r v Hin Hr.
  apply statuses in E. destruct E as [_ [_ U]]. subst upd.
  apply in_split in Hin. destruct Hin as [l1 [l2 ?]]; subst rs.
  rewrite filter_app in Hone. cbn [filter] in Hone. rewrite Hr in Hone. rewrite app_length in Hone. cbn [length] in Hone.
  assert (N : forall l, length (filter (fun r => match r_repaired Hp P regs st r with Some _ => true | None => false end) l) = O ->
                        Forall (fun o => o = None) (map (r_repaired Hp P regs st) l)).
  { induction l as [|x l IH]; intro K; [constructor|]. cbn [filter] in K.
    destruct (r_repaired Hp P regs st x) eqn:X; [cbn in K; lia|]. cbn [map]. constructor; [exact X|apply IH; exact K]. }
  rewrite map_app, last_some_app. cbn [map]. unfold last_some at 1. cbn [fold_left]. rewrite Hr.
  apply last_some_none. apply N. lia.
Qed.

(** no register is returned unless some entry was repaired with it *)
Theorem corrected_register_sound : forall P isz regs cmds evlog recorded alg st oracle rs iss upd v,
  reproduce Hp P isz regs cmds evlog recorded alg st oracle = Ok (rs, iss, upd) ->
  upd = Some v ->
  exists r, In r rs /\ re_status r = StMatch /\ r_repaired Hp P regs st r = Some v.
Proof.
  intros P isz regs cmds evlog recorded alg st oracle rs iss upd v E Hu.
  pose proof (statuses _ _ _ _ _ _ _ _ _ _ _ _ E) as [F [_ U]]. subst upd.
  assert (G : forall l init, last_some (map (r_repaired Hp P regs st) l) init = Some v ->
              init = Some v \/ exists r, In r l /\ r_repaired Hp P regs st r = Some v).
  { induction l as [|x l IH]; intros init K; [left; exact K|].
    cbn [map] in K. unfold last_some in K. cbn [fold_left] in K.
    apply IH in K. destruct K as [K|[r [I R]]].
    - destruct (r_repaired Hp P regs st x) eqn:X.
      + right. exists x. split; [left; reflexivity|]. rewrite X. exact K.
      + left. exact K.
    - right. exists r. split; [right; exact I|exact R]. }
  symmetry in U. apply G in U. destruct U as [U|[r [I R]]]; [discriminate|].
  exists r. split; [exact I|]. split; [|exact R].
  rewrite Forall_forall in F. specialize (F r I). unfold status_of in F.
  destruct (r_repaired_sound _ _ _ _ _ R) as [c [e [m [A1 [A2 [A3 [A4 _]]]]]]].
  rewrite A1, A2, A4, R in F. inversion F. reflexivity.
Qed.

End Top.

(** * eventAndMeasurementsDistance *)

Lemma identical_length : forall es cs, identical es cs = true -> length es = length cs.
Proof.
  induction es as [|e es IH]; intros [|c cs] H; cbn [identical] in H; try discriminate; [reflexivity|].
  apply andb_prop in H. destruct H as [_ H]. cbn [length]. f_equal. apply IH. exact H.
Qed.

Lemma pair_cost_nonneg : forall c e, 0 <= pair_cost c e <= 2 * BIGN + 1.
Proof.
  intros c e. unfold pair_cost, BIGN.
  destruct (zlist_eqb (ev_digest_bytes e) (s_digest c)); destruct (ev_type e =? s_type c); lia.
Qed.

Lemma pair_cost_zero : forall c e, pair_cost c e = 0 <-> digests_equal c e = true /\ (ev_type e =? s_type c) = true.
Proof.
  intros c e. unfold pair_cost, digests_equal, BIGN.
  destruct (zlist_eqb (ev_digest_bytes e) (s_digest c)); destruct (ev_type e =? s_type c); split; intro H;
    try lia; try (destruct H; discriminate); split; reflexivity.
Qed.

Lemma distance_identical : forall es cs,
  identical es cs = true ->
  distance (map (fun x => (false, x)) cs) (map (fun x => (false, x)) es) 0 = Ok 0.
Proof.
  induction es as [|e es IH]; intros [|c cs] H; cbn [identical] in H; try discriminate.
  - reflexivity.
  - apply andb_prop in H. destruct H as [H H3]. apply andb_prop in H. destruct H as [H1 H2].
    cbn [map]. rewrite distance_unfold.
    assert (L : (length (ev_digest_bytes e) =? length (s_digest c))%nat = true).
    { apply Nat.eqb_eq. unfold digests_equal in H1. apply zlist_eqb_eq in H1. rewrite H1. reflexivity. }
    rewrite L. cbn [negb].
    assert (Z0 : pair_cost c e = 0) by (apply pair_cost_zero; split; assumption).
    rewrite Z0. change (wrap64 (0 + 0)) with 0. apply IH. exact H3.
Qed.

Theorem distance_zero_if : forall es cs,
  identical es cs = true ->
  distance (flag (all_false cs) cs) (flag (all_false es) es) 0 = Ok 0.
Proof. intros es cs H. rewrite !flag_all_false. apply distance_identical. exact H. Qed.

Lemma wrap64_small : forall z, 0 <= z < W64 -> wrap64 z = z.
Proof. intros z H. rewrite wrap64_mod. apply Z.mod_small. exact H. Qed.

Definition no_flags {A} (l : list (bool * A)) : Prop := Forall (fun x => fst x = false) l.

Lemma distance_lower : forall n cs es acc d,
  (length cs + length es <= n)%nat ->
  0 <= acc -> acc + Z.of_nat n * (2 * BIGN + 2) < W64 ->
  distance cs es acc = Ok d ->
  acc <= d /\ (d = acc -> no_flags cs /\ no_flags es /\ identical (map snd es) (map snd cs) = true).
Proof.
  induction n as [|n IH]; intros cs es acc d Hn H0 Hb E; rewrite distance_unfold in E.
  - destruct cs; destruct es; cbn in Hn; try lia. inversion E; subst. split; [lia|]. intros _. repeat split; constructor.
  - assert (SK : wrap64 (acc + BIGN) = acc + BIGN) by (apply wrap64_small; unfold BIGN, W64 in *; lia).
    destruct cs as [|[[|] c] cs'].
    + destruct es as [|[[|] e] es']; try discriminate.
      * inversion E; subst. split; [lia|]. intros _. repeat split; constructor.
      * rewrite SK in E. apply IH in E; [|cbn in *; lia|unfold BIGN in *; lia|unfold BIGN, W64 in *; lia].
        destruct E as [E _]. unfold BIGN in *. split; [lia|]. intro K. lia.
    + rewrite SK in E. apply IH in E; [|cbn in *; lia|unfold BIGN in *; lia|unfold BIGN, W64 in *; lia].
      destruct E as [E _]. unfold BIGN in *. split; [lia|]. intro K. lia.
    + destruct es as [|[[|] e] es']; try discriminate.
      * rewrite SK in E. apply IH in E; [|cbn in *; lia|unfold BIGN in *; lia|unfold BIGN, W64 in *; lia].
        destruct E as [E _]. unfold BIGN in *. split; [lia|]. intro K. lia.
      * destruct (negb (length (ev_digest_bytes e) =? length (s_digest c))%nat); [discriminate|].
        pose proof (pair_cost_nonneg c e) as PC.
        assert (SP : wrap64 (acc + pair_cost c e) = acc + pair_cost c e) by (apply wrap64_small; unfold BIGN, W64 in *; lia).
        rewrite SP in E. apply IH in E; [|cbn in *; lia|lia|unfold BIGN, W64 in *; lia].
        destruct E as [E1 E2]. split; [lia|]. intro K.
        assert (Z0 : pair_cost c e = 0) by lia.
        destruct (E2 ltac:(lia)) as [F1 [F2 F3]].
        apply pair_cost_zero in Z0. destruct Z0 as [Z1 Z2].
        repeat split; try (constructor; [reflexivity|assumption]).
        cbn [map snd identical]. rewrite Z1, Z2, F3. reflexivity.
Qed.

Lemma no_flags_map : forall A (l : list (bool * A)), no_flags l -> l = map (fun x => (false, x)) (map snd l).
Proof.
  induction 1 as [|[b x] l H _ IH]; [reflexivity|]. cbn in H. subst b. cbn [map snd]. f_equal. exact IH.
Qed.

(** distance 0 <=> nothing skipped and the two lists agree pairwise in type and digest;
    needs the lists to be short enough for the uint64 sum not to wrap *)
Theorem distance_zero_iff : forall cs es,
  Z.of_nat (length cs + length es) < 2 ^ 30 ->
  (distance cs es 0 = Ok 0 <->
   no_flags cs /\ no_flags es /\ identical (map snd es) (map snd cs) = true).
Proof.
  intros cs es Hb. split.
  - intro E. apply (distance_lower _ _ _ _ _ (le_n _)) in E; [|lia|unfold BIGN, W64; lia].
    destruct E as [_ E]. apply E. reflexivity.
  - intros [F1 [F2 I]]. rewrite (no_flags_map _ cs F1), (no_flags_map _ es F2). apply distance_identical. exact I.
Qed.

(** * A recorded log identical to the simulated one *)

Section Identical.
Variable Hp : meas -> Z -> list Z.

Lemma result_loop_all_equal : forall P isz regs st l idx upd0,
  Forall (fun a => exists c e, a_calc a = Some c /\ a_exp a = Some e /\ digests_equal c e = true) l ->
  result_loop Hp P isz regs st idx l upd0 =
    Ok (map (fun a => mkR (a_meas a) (a_calc a) (a_exp a) StMatch) l, [], upd0).
Proof.
  induction l as [|a l IH]; intros idx upd0 F; [reflexivity|].
  inversion F as [|? ? [c [e [A1 [A2 A3]]]] F']; subst.
  cbn [result_loop]. rewrite A1, A2. unfold digests_equal in A3. rewrite A3.
  rewrite IH by exact F'. cbn [push bind map app]. rewrite A1, A2. reflexivity.
Qed.

Lemma identical_zip : forall es cs, identical es cs = true ->
  Forall (fun p => exists c e, fst p = Some c /\ snd p = Some e /\ digests_equal c e = true) (zip_pairs es cs).
Proof.
  unfold zip_pairs.
  induction es as [|e es IH]; intros [|c cs] H; cbn [identical] in H; try discriminate; [constructor|].
  apply andb_prop in H. destruct H as [H H3]. apply andb_prop in H. destruct H as [H1 _].
  cbn [combine map]. constructor; [|apply IH; exact H3]. exists c, e. repeat split. exact H1.
Qed.

Theorem identical_no_issues : forall P isz regs cmds evlog log alg st oracle sims es,
  sim_align cmds evlog 0 alg = Ok sims ->
  filterEvents log 0 alg = Ok es ->
  identical es (map snd sims) = true ->
  exists rs,
    reproduce Hp P isz regs cmds evlog (Some log) alg st oracle = Ok (rs, [], None) /\
    Forall (fun r => re_status r = StMatch) rs /\
    length rs = length es.
Proof.
  intros P isz regs cmds evlog log alg st oracle sims es S F I.
  unfold reproduce. rewrite S, F. cbn [bind].
  pose proof (identical_length _ _ I) as L.
  unfold align_logs, choose_bitmaps.
  assert (Lb : (length es =? length (map snd sims))%nat = true) by (apply Nat.eqb_eq; exact L).
  rewrite Lb. rewrite (distance_zero_if _ _ I). cbn [bind Z.eqb negb].
  set (ps := zip_pairs es (map snd sims)).
  assert (Lp : length ps = length sims).
  { unfold ps, zip_pairs. rewrite map_length, combine_length, map_length. rewrite map_length in L. lia. }
  unfold attach. assert (Ls : (length sims =? length ps)%nat = true) by (apply Nat.eqb_eq; lia). rewrite Ls.
  assert (G : Forall (fun a => exists c e, a_calc a = Some c /\ a_exp a = Some e /\ digests_equal c e = true)
                (map (fun '(m, (c, e)) => mkA m c e) (combine (map fst sims) ps))).
  { pose proof (identical_zip _ _ I) as Z. fold ps in Z. clearbody ps.
    assert (Lm : length (map fst sims) = length ps) by (rewrite map_length; lia).
    revert Z Lm. generalize (map fst sims) as ms. clear.
    induction ps as [|[c e] ps IH]; intros [|m ms] Z Lm; cbn in Lm; try discriminate; [constructor|].
    inversion Z as [|? ? [c' [e' [A1 [A2 A3]]]] Z']; subst. cbn [fst snd] in A1, A2. subst.
    cbn [combine map]. constructor; [|apply IH; [exact Z'|lia]].
    exists c', e'. repeat split. exact A3. }
  rewrite (result_loop_all_equal _ _ _ _ _ _ _ G).
  eexists. split; [reflexivity|]. split.
  - apply Forall_forall. intros r Hin. apply in_map_iff in Hin. destruct Hin as [a [E _]]. subst r. reflexivity.
  - rewrite !map_length, combine_length, map_length. rewrite map_length in L. lia.
Qed.

End Identical.

(** * No panic *)

Lemma distance_noflags_ok : forall size es cs acc,
  length es = length cs ->
  Forall (fun e => Z.of_nat (length (ev_digest_bytes e)) = size) es ->
  Forall (fun c => Z.of_nat (length (s_digest c)) = size) cs ->
  exists d, distance (map (fun x => (false, x)) cs) (map (fun x => (false, x)) es) acc = Ok d.
Proof.
  intros size. induction es as [|e es IH]; intros [|c cs] acc L Fe Fc; cbn in L; try discriminate.
  - eexists. reflexivity.
  - inversion Fe; inversion Fc; subst. cbn [map]. rewrite distance_unfold.
    assert (E : (length (ev_digest_bytes e) =? length (s_digest c))%nat = true) by (apply Nat.eqb_eq; lia).
    rewrite E. cbn [negb]. apply IH; [lia|assumption|assumption].
Qed.

(** ** The explainer after the repairs e99f02a / dbffb11: total, and every chunk it makes
    can be read *)

(** a recorded range that can be read from the image *)
Definition range_readable (isz : Z) (r : Z * Z) : Prop :=
  chunk_readable isz (ChImage (is_phys_addr (fst r) isz) (fst r) (snd r)) = true.

(** a (offset, length) pair with a length *)
Definition nonempty (r : Z * Z) : bool := 0 <? snd r.

Definition has_raw (refs : list ref) : bool := existsb (fun rf => rf_kind rf =? REF_RAW) refs.

Lemma has_raw_of_nth : forall refs k rf,
  nth_error refs k = Some rf -> (rf_kind rf =? REF_RAW) = true -> has_raw refs = true.
Proof.
  intros refs k rf N K. unfold has_raw. apply existsb_exists. exists rf.
  split; [eapply nth_error_In; exact N|exact K].
Qed.

(** the offset rangesToChunks tests is the offset RawBytes reads at (both uint64) *)
Lemma fits_offset : forall isz (phys : bool) off,
  (if phys then wrap64 (off - wrap64 (PHYS_ADDR_BASE - isz)) else off) = image_offset isz phys off.
Proof.
  intros isz phys off. unfold image_offset. destruct phys; [|reflexivity].
  rewrite !wrap64_mod. rewrite Zminus_mod_idemp_r. f_equal. lia.
Qed.

(** the test of rangesToChunks is sufficient: a range it keeps can be read ... *)
Lemma range_fits_readable : forall isz phys off len,
  range_fits isz phys off len = true -> chunk_readable isz (ChImage phys off len) = true.
Proof.
  intros isz phys off len F. unfold range_fits in F. rewrite fits_offset in F.
  apply andb_prop in F. destruct F as [F1 F2]. apply Z.leb_le in F1. apply Z.leb_le in F2.
  cbn [chunk_readable]. apply Z.leb_le. lia.
Qed.

(** ... and exact: a range (of a non-negative length) that can be read is kept *)
Lemma range_fits_iff_readable : forall isz phys off len,
  0 <= len -> 0 <= image_offset isz phys off ->
  (range_fits isz phys off len = true <-> chunk_readable isz (ChImage phys off len) = true).
Proof.
  intros isz phys off len L O. split; [apply range_fits_readable|].
  cbn [chunk_readable]. intro R. apply Z.leb_le in R.
  unfold range_fits. rewrite fits_offset. apply andb_true_intro. split; apply Z.leb_le; lia.
Qed.

Lemma ranges_to_chunks_readable : forall isz m ranges chunks,
  forallb (chunk_readable isz) chunks = true ->
  forallb (chunk_readable isz) (ranges_to_chunks isz m ranges chunks) = true.
Proof.
  intros isz m. induction ranges as [|[off len] t IH]; intros chunks Fc; cbn [ranges_to_chunks]; [exact Fc|].
  destruct (0 <? len).
  - destruct (range_fits isz (is_phys_addr off isz) off len) eqn:Ff.
    + apply IH. rewrite forallb_app, Fc. cbn [forallb andb]. rewrite (range_fits_readable _ _ _ _ Ff). reflexivity.
    + apply IH. exact Fc.
  - match goal with |- context [if ?r then _ else _] => destruct r end.
    + apply IH. rewrite forallb_app, Fc. reflexivity.
    + apply IH. exact Fc.
Qed.

(** newLogEntryExplainer's analysis of a recorded entry never panics: for every image
    size, every measurement (or none) and every event *)
Theorem explain_no_panic : forall isz m e, explain isz m e <> Panic.
Proof.
  intros isz m e. unfold explain.
  destruct (parse_event_data_total e isz) as [T1 T2].
  destruct (parse_event_data e isz) as [p| | |] eqn:Ep; try discriminate; try congruence.
  rewrite (ranges_to_chunks_readable isz m (pr_ranges p) [] eq_refl). discriminate.
Qed.

(** What the chunks are, for a measurement without hard-coded references (image ranges
    only, as the firmware-volume measurements are) or no measurement at all: one image
    chunk per range that has a length and fits the image, in order - whatever the number
    of ranges and of references. *)
Definition kept (isz : Z) (r : Z * Z) : bool :=
  nonempty r && range_fits isz (is_phys_addr (fst r) isz) (fst r) (snd r).

Definition image_chunk (isz : Z) (r : Z * Z) : chunk := ChImage (is_phys_addr (fst r) isz) (fst r) (snd r).

Lemma ranges_to_chunks_image_only_gen : forall isz m,
  match m with Some mm => has_raw (m_refs mm) = false | None => True end ->
  forall ranges chunks,
  ranges_to_chunks isz m ranges chunks = chunks ++ map (image_chunk isz) (filter (kept isz) ranges).
Proof.
  intros isz m NR. induction ranges as [|[off len] t IH]; intro chunks; cbn [ranges_to_chunks filter map].
  - rewrite app_nil_r. reflexivity.
  - assert (Hraw : match m with
                   | None => false
                   | Some mm => match nth_error (m_refs mm) (length chunks) with
                                | None => false
                                | Some r => rf_kind r =? REF_RAW
                                end
                   end = false).
    { destruct m as [mm|]; [|reflexivity].
      destruct (nth_error (m_refs mm) (length chunks)) as [rf|] eqn:N; [|reflexivity].
      destruct (rf_kind rf =? REF_RAW) eqn:K; [|reflexivity].
      rewrite (has_raw_of_nth _ _ _ N K) in NR. discriminate. }
    rewrite Hraw. unfold kept at 1, nonempty. cbn [fst snd].
    destruct (0 <? len); cbn [andb].
    + destruct (range_fits isz (is_phys_addr off isz) off len); cbn [map].
      * rewrite IH, <- app_assoc. reflexivity.
      * apply IH.
    + apply IH.
Qed.

Theorem ranges_to_chunks_image_only : forall isz m ranges,
  match m with Some mm => has_raw (m_refs mm) = false | None => True end ->
  ranges_to_chunks isz m ranges [] = map (image_chunk isz) (filter (kept isz) ranges).
Proof. intros isz m ranges NR. apply (ranges_to_chunks_image_only_gen isz m NR ranges []). Qed.

Section NoPanic.
Variable Hp : meas -> Z -> list Z.

Lemma push_not_panic : forall r is o, o <> Panic -> push r is o <> Panic.
Proof. intros r is [[[rs iss] u]| | |] H; cbn [push bind]; try discriminate. congruence. Qed.

(** the loop of ReproduceEventLog cannot panic, whatever the aligned entries are *)
Lemma result_loop_no_panic : forall P isz regs st l idx upd0,
  result_loop Hp P isz regs st idx l upd0 <> Panic.
Proof.
  induction l as [|a l IH]; intros idx upd0; cbn [result_loop]; [discriminate|].
  destruct (a_calc a) as [c|]; destruct (a_exp a) as [e|].
  - destruct (zlist_eqb (ev_digest_bytes e) (s_digest c)).
    + apply push_not_panic. apply IH.
    + assert (G : bind (explain isz (a_meas a) e) (fun _ =>
                    push (mkR (a_meas a) (Some c) (Some e) StMismatch) [IMismatch idx]
                         (result_loop Hp P isz regs st (idx + 1) l upd0)) <> Panic).
      { apply bind_not_panic; [apply explain_no_panic|]. intros _ _. apply push_not_panic. apply IH. }
      destruct (is_pcrx regs (a_meas a)); [|exact G].
      destruct (a_meas a) as [m|]; [|exact G].
      destruct (repair Hp P st m (ev_digest_bytes e)); apply push_not_panic; apply IH.
  - apply push_not_panic. apply IH.
  - apply bind_not_panic; [apply explain_no_panic|]. intros _ _. apply push_not_panic. apply IH.
  - discriminate.
Qed.

Lemma choose_bitmaps_cases : forall es cs oracle size,
  Forall (fun e => Z.of_nat (length (ev_digest_bytes e)) = size) es ->
  Forall (fun c => Z.of_nat (length (s_digest c)) = size) cs ->
  exists dist,
    choose_bitmaps es cs oracle = Ok (all_false es, all_false cs, Some 0) \/
    choose_bitmaps es cs oracle = Ok (fst oracle, snd oracle, dist).
Proof.
  intros es cs [de dc] size Fe Fc. unfold choose_bitmaps. cbn [fst snd].
  destruct (length es =? length cs)%nat eqn:L.
  - apply Nat.eqb_eq in L. rewrite !flag_all_false.
    destruct (distance_noflags_ok size es cs 0 L Fe Fc) as [d E]. rewrite E. cbn [bind].
    destruct (d =? 0); [exists None; left; reflexivity|eexists; right; reflexivity].
  - eexists. right. reflexivity.
Qed.

Lemma align_logs_no_panic : forall es cs oracle size,
  Forall (fun e => Z.of_nat (length (ev_digest_bytes e)) = size) es ->
  Forall (fun c => Z.of_nat (length (s_digest c)) = size) cs ->
  length (fst oracle) = length es -> length (snd oracle) = length cs ->
  align_logs es cs oracle <> Panic.
Proof.
  intros es cs oracle size Fe Fc L1 L2. unfold align_logs.
  destruct (choose_bitmaps_cases es cs oracle size Fe Fc) as [dist [E|E]]; rewrite E; cbn [bind].
  - destruct (negb (length es =? length cs)%nat); discriminate.
  - assert (K : (if negb (length (fst oracle) =? length es)%nat || negb (length (snd oracle) =? length cs)%nat then Panic
                 else if negb (length es - count_true (fst oracle) =? length cs - count_true (snd oracle))%nat
                      then Err E_COUNTS else interleave (flag (fst oracle) es) (flag (snd oracle) cs)) <> Panic).
    { rewrite L1, L2, !Nat.eqb_refl. cbn [negb orb].
      destruct (length es - count_true (fst oracle) =? length cs - count_true (snd oracle))%nat eqn:B; cbn [negb]; [|discriminate].
      apply Nat.eqb_eq in B.
      destruct (interleave_total _ (flag (fst oracle) es) (flag (snd oracle) cs) (le_n _)) as [ps Ei].
      - rewrite !map_fst_flag by assumption. unfold flag. rewrite !combine_length, L1, L2, !Nat.min_id. exact B.
      - rewrite Ei. discriminate. }
    destruct dist as [[|p|p]|]; try exact K.
    destruct (negb (length es =? length cs)%nat); discriminate.
Qed.

Theorem no_panic : forall P isz regs cmds evlog recorded alg st oracle sims,
  (* a simulated boot alignLogAndMeasurements accepts, with digests of the bank's size *)
  sim_align cmds evlog 0 alg = Ok sims ->
  (forall size, hash_size alg = Some size ->
     Forall (fun c => Z.of_nat (length (s_digest c)) = size) (map snd sims)) ->
  (* bitmaps of the lengths of the two lists (one [make] in the Go code) *)
  (forall log es, recorded = Some log -> filterEvents log 0 alg = Ok es ->
     length (fst oracle) = length es /\ length (snd oracle) = length sims) ->
  reproduce Hp P isz regs cmds evlog recorded alg st oracle <> Panic.
Proof.
  intros P isz regs cmds evlog recorded alg st oracle sims S Hd Hl.
  unfold reproduce. destruct recorded as [log|]; [|discriminate].
  rewrite S. cbn [bind].
  destruct (filterEvents_total log 0 alg) as [T _].
  apply bind_not_panic; [exact T|]. intros es F.
  destruct (filterEvents_spec _ _ _ _ F) as [_ [size [Hsz Fr]]].
  destruct (Hl log es eq_refl F) as [L1 L2].
  apply bind_not_panic.
  - apply (align_logs_no_panic es (map snd sims) oracle size); [exact Fr|apply Hd; exact Hsz|exact L1|rewrite map_length; exact L2].
  - intros ps A. apply result_loop_no_panic.
Qed.

End NoPanic.

(** * Completeness of the linear search inside its window *)

Lemma In_seqZ_iff : forall n a x, In x (seqZ a n) <-> a <= x < a + Z.of_nat n.
Proof.
  induction n as [|n IH]; intros a x; cbn [seqZ In].
  - lia.
  - rewrite IH. lia.
Qed.

Lemma lin_cands_window : forall P limit d, 1 <= P -> 0 <= d < limit -> In d (lin_cands P limit).
Proof.
  intros P limit d HP Hd. unfold lin_cands. apply in_flat_map.
  set (bs := Z.max 1 (Z.quot limit P)).
  assert (Hbs : 1 <= bs) by (unfold bs; lia).
  destruct (Z_lt_ge_dec d ((P - 1) * bs)) as [Lo|Hi].
  - (* an inner block: it ends at (i+1)*bs or, clamped, at limit; d lies below both *)
    set (i := d / bs).
    assert (Hi0 : 0 <= i) by (unfold i; apply Z.div_pos; lia).
    assert (Hi1 : i * bs <= d < (i + 1) * bs).
    { unfold i. pose proof (Z.mul_div_le d bs ltac:(lia)). pose proof (Z.mul_succ_div_gt d bs ltac:(lia)). nia. }
    assert (Hi2 : i < P - 1) by nia.
    exists (i * bs, if limit <? (i + 1) * bs then limit else (i + 1) * bs). split.
    + unfold lin_blocks. fold bs. apply in_map_iff. exists i. split.
      * assert (E : (i =? P - 1) = false) by (apply Z.eqb_neq; lia). rewrite E. reflexivity.
      * apply In_seqZ_iff. rewrite Z2Nat.id by lia. lia.
    + unfold block_cands. cbn [fst snd]. apply In_seqZ_iff.
      destruct (limit <? (i + 1) * bs); rewrite Z2Nat.id by lia; lia.
  - (* the last block *)
    exists ((P - 1) * bs, limit). split.
    + unfold lin_blocks. fold bs. apply in_map_iff. exists (P - 1). split.
      * rewrite Z.eqb_refl. reflexivity.
      * apply In_seqZ_iff. rewrite Z2Nat.id by lia. lia.
    + unfold block_cands. cbn [fst snd]. apply In_seqZ_iff. rewrite Z2Nat.id by lia. lia.
Qed.

(** No decrement at or beyond the limit is ever tried, whatever the number of
    goroutines is (the statement that was false before the repair 92fa0d4). *)
Lemma lin_cands_below_limit : forall P limit d, In d (lin_cands P limit) -> 0 <= d < limit.
Proof.
  intros P limit d H. unfold lin_cands in H. apply in_flat_map in H as ((a, b) & Hb & Hd).
  unfold lin_blocks in Hb. set (bs := Z.max 1 (Z.quot limit P)) in *.
  assert (Hbs : 1 <= bs) by (unfold bs; lia).
  apply in_map_iff in Hb as (i & E & Hi). apply In_seqZ_iff in Hi.
  inversion E; subst a b; clear E.
  unfold block_cands in Hd. cbn [fst snd] in Hd. apply In_seqZ_iff in Hd.
  destruct ((i =? P - 1) || (limit <? (i + 1) * bs)) eqn:C.
  - assert (0 <= i * bs) by nia.
    destruct (Z_le_gt_dec (limit - i * bs) 0) as [Le|Gt].
    + replace (Z.to_nat (limit - i * bs)) with O in Hd by lia. lia.
    + rewrite Z2Nat.id in Hd by lia. lia.
  - apply orb_false_iff in C as [_ C]. apply Z.ltb_ge in C.
    assert (0 <= i * bs) by nia.
    rewrite Z2Nat.id in Hd by nia. nia.
Qed.

Theorem repair_complete : forall (Hp : meas -> Z -> list Z) P st m digest d,
  1 <= P -> 0 <= d < st_lin_limit st ->
  Hp m (wrap64 (m_first8 m - d)) = digest ->
  exists v, repair Hp P st m digest = Some v /\ Hp m v = digest.
Proof.
  intros Hp P st m digest d HP Hd Hh.
  destruct (repair Hp P st m digest) as [v|] eqn:R.
  - exists v. split; [reflexivity|]. eapply repair_sound. exact R.
  - exfalso. unfold repair, linear_search in R.
    destruct (find _ (lin_cands P (st_lin_limit st))) as [x|] eqn:F; cbn [option_map] in R; [discriminate|].
    pose proof (find_none _ _ F d (lin_cands_window _ _ _ HP Hd)) as N. cbn beta in N.
    rewrite Hh in N. assert (zlist_eqb digest digest = true) by (apply zlist_eqb_eq; reflexivity). congruence.
Qed.

(** * Completeness of the combinatorial search inside its distance, and its confinement
      to the 64 bits of the register *)

(** the value with exactly the bits of [bs] set *)
Fixpoint mask_of (bs : list Z) : Z :=
  match bs with
  | [] => 0
  | b :: t => Z.lor (Z.shiftl 1 b) (mask_of t)
  end.

(** [picks bs bits]: [bs] is some of the positions [bits], in their order (so without
    repetition when [bits] has none) *)
Inductive picks : list Z -> list Z -> Prop :=
| picks_nil : forall bits, picks [] bits
| picks_take : forall b bs bits, picks bs bits -> picks (b :: bs) (b :: bits)
| picks_skip : forall b bs bits, picks bs bits -> picks bs (b :: bits).

Lemma masks_zero : forall bits, masks bits 0 = [0].
Proof. destruct bits; reflexivity. Qed.

Lemma masks_picks : forall bs bits, picks bs bits -> In (mask_of bs) (masks bits (length bs)).
Proof.
  intros bs bits H. induction H as [bits|b bs bits H IH|b bs bits H IH].
  - cbn [length mask_of]. rewrite masks_zero. left. reflexivity.
  - cbn [length mask_of masks]. apply in_or_app. left. apply in_map. exact IH.
  - destruct bs as [|c bs].
    + cbn [length mask_of]. rewrite masks_zero. left. reflexivity.
    + cbn [length] in *. cbn [masks]. apply in_or_app. right. exact IH.
Qed.

Lemma comb_cands_complete : forall limit bs,
  picks bs (seqZ 0 64) -> (length bs <= comb_limit limit)%nat -> In (mask_of bs) (comb_cands limit).
Proof.
  intros limit bs Hp Hl. unfold comb_cands. apply in_flat_map. exists (length bs). split.
  - apply in_seq. lia.
  - apply masks_picks. exact Hp.
Qed.

Lemma comb_search_complete : forall (Hp : meas -> Z -> list Z) limit m digest bs,
  picks bs (seqZ 0 64) -> (length bs <= comb_limit limit)%nat ->
  Hp m (Z.lxor (m_first8 m) (mask_of bs)) = digest ->
  comb_search Hp limit m digest <> None.
Proof.
  intros Hp limit m digest bs Hb Hl Hh. unfold comb_search.
  pose proof (comb_cands_complete limit bs Hb Hl) as I.
  generalize dependent (comb_cands limit). intros cands I.
  destruct (find _ cands) as [x|] eqn:F; cbn [option_map]; [discriminate|].
  exfalso. pose proof (find_none _ _ F (mask_of bs) I) as N. cbn beta in N.
  rewrite Hh in N. assert (zlist_eqb digest digest = true) by (apply zlist_eqb_eq; reflexivity). congruence.
Qed.

Theorem repair_complete_comb : forall (Hp : meas -> Z -> list Z) P st m digest bs,
  st_comb_enabled st = true ->
  picks bs (seqZ 0 64) -> (length bs <= comb_limit (st_comb_limit st))%nat ->
  Hp m (Z.lxor (m_first8 m) (mask_of bs)) = digest ->
  exists v, repair Hp P st m digest = Some v /\ Hp m v = digest.
Proof.
  intros Hp P st m digest bs En Hb Hl Hh.
  destruct (repair Hp P st m digest) as [v|] eqn:R.
  - exists v. split; [reflexivity|]. eapply repair_sound. exact R.
  - exfalso. unfold repair in R.
    destruct (linear_search Hp P (st_lin_limit st) m digest); [discriminate|].
    rewrite En in R. exact (comb_search_complete Hp _ m digest bs Hb Hl Hh R).
Qed.

(** a digest that no value of the register explains (PCR0_DATA differing behind its
    first 8 bytes, say) is never repaired, whatever the settings are *)
Theorem repair_none_if_no_register : forall (Hp : meas -> Z -> list Z) P st m digest,
  (forall v, Hp m v <> digest) -> repair Hp P st m digest = None.
Proof.
  intros Hp P st m digest H. destruct (repair Hp P st m digest) as [v|] eqn:R; [|reflexivity].
  exfalso. apply (H v). eapply repair_sound. exact R.
Qed.

Lemma lor_lt_64 : forall a b, 0 <= a < 2 ^ 64 -> 0 <= b < 2 ^ 64 -> 0 <= Z.lor a b < 2 ^ 64.
Proof.
  intros a b Ha Hb. assert (N : 0 <= Z.lor a b) by (apply Z.lor_nonneg; lia). split; [exact N|].
  destruct (Z.eq_dec (Z.lor a b) 0) as [E|E]; [rewrite E; reflexivity|].
  apply Z.log2_lt_pow2; [lia|]. rewrite Z.log2_lor by lia. apply Z.max_lub_lt.
  - destruct (Z.eq_dec a 0) as [A|A]; [subst a; reflexivity|]. apply Z.log2_lt_pow2; lia.
  - destruct (Z.eq_dec b 0) as [B|B]; [subst b; reflexivity|]. apply Z.log2_lt_pow2; lia.
Qed.

Lemma lxor_lt_64 : forall a b, 0 <= a < 2 ^ 64 -> 0 <= b < 2 ^ 64 -> 0 <= Z.lxor a b < 2 ^ 64.
Proof.
  intros a b Ha Hb. assert (N : 0 <= Z.lxor a b) by (apply Z.lxor_nonneg; lia). split; [exact N|].
  destruct (Z.eq_dec (Z.lxor a b) 0) as [E|E]; [rewrite E; reflexivity|].
  apply Z.log2_lt_pow2; [lia|]. eapply Z.le_lt_trans; [apply Z.log2_lxor; lia|]. apply Z.max_lub_lt.
  - destruct (Z.eq_dec a 0) as [A|A]; [subst a; reflexivity|]. apply Z.log2_lt_pow2; lia.
  - destruct (Z.eq_dec b 0) as [B|B]; [subst b; reflexivity|]. apply Z.log2_lt_pow2; lia.
Qed.

Lemma masks_range : forall bits k x,
  Forall (fun b => 0 <= b < 64) bits -> In x (masks bits k) -> 0 <= x < 2 ^ 64.
Proof.
  induction bits as [|b t IH]; intros k x Hb Hx.
  - destruct k; cbn [masks In] in Hx; [destruct Hx as [<-|[]]; lia|contradiction].
  - inversion Hb as [|? ? Hb1 Hb2]; subst. destruct k as [|k]; cbn [masks] in Hx.
    + destruct Hx as [<-|[]]. lia.
    + apply in_app_or in Hx. destruct Hx as [Hx|Hx].
      * apply in_map_iff in Hx. destruct Hx as (y & <- & Hy). apply lor_lt_64; [|eapply IH; eassumption].
        rewrite Z.shiftl_1_l. split; [apply Z.pow_nonneg; lia|apply Z.pow_lt_mono_r; lia].
      * eapply IH; eassumption.
Qed.

Lemma comb_cands_range : forall limit x, In x (comb_cands limit) -> 0 <= x < 2 ^ 64.
Proof.
  (* (unfold in the goal, not in the hypothesis: the kernel re-checks the latter by evaluating the candidates) *)
  intros limit x. unfold comb_cands. intro H. apply in_flat_map in H. destruct H as (k & _ & H).
  refine (masks_range (seqZ 0 64) k x _ H). apply Forall_forall. intros b Hb. apply In_seqZ_iff in Hb. lia.
Qed.

(** whatever is returned as the corrected register is a 64-bit value: the search varies
    the 8 bytes of the register and nothing else of the measurement *)
Theorem repair_register_range : forall (Hp : meas -> Z -> list Z) P st m digest v,
  0 <= m_first8 m < 2 ^ 64 ->
  repair Hp P st m digest = Some v -> 0 <= v < 2 ^ 64.
Proof.
  intros Hp P st m digest v Hm. unfold repair, linear_search, comb_search.
  destruct (find _ (lin_cands P (st_lin_limit st))) as [d|] eqn:F; cbn [option_map].
  - intro E. inversion E; subst. rewrite wrap64_mod. unfold W64. change 18446744073709551616 with (2 ^ 64). apply Z.mod_pos_bound. lia.
  - destruct (st_comb_enabled st); [|discriminate].
    destruct (find _ (comb_cands (st_comb_limit st))) as [x|] eqn:G; cbn [option_map]; [|discriminate].
    intro E. inversion E; subst. apply find_some in G. destruct G as [G _].
    apply lxor_lt_64; [exact Hm|]. eapply comb_cands_range. exact G.
Qed.

(** * Readable ranges, in plain arithmetic *)

Lemma range_readable_iff : forall isz off len,
  0 < isz <= PHYS_ADDR_BASE -> is_phys_addr off isz = true ->
  (range_readable isz (off, len) <-> off + len <= PHYS_ADDR_BASE).
Proof.
  intros isz off len Hi Hp. unfold range_readable. cbn [fst snd]. rewrite Hp. cbn [chunk_readable image_offset].
  unfold is_phys_addr in Hp. apply andb_prop in Hp. destruct Hp as [H1 H2].
  apply Z.leb_le in H1. apply Z.ltb_lt in H2.
  assert (W : wrap64 (PHYS_ADDR_BASE - isz) = PHYS_ADDR_BASE - isz).
  { apply wrap64_small. unfold PHYS_ADDR_BASE, W64 in *. lia. }
  rewrite W in H1.
  assert (W2 : wrap64 (off - PHYS_ADDR_BASE + isz) = off - PHYS_ADDR_BASE + isz).
  { apply wrap64_small. unfold PHYS_ADDR_BASE, W64 in *. lia. }
  rewrite W2. rewrite Z.leb_le. lia.
Qed.

(** * Records whose two fields are arbitrary 64-bit numbers

    Event data is attacker-controlled: the two fields of a 16-byte record may be any numbers
    below 2^64 - lengths near 2^64 with which "offset + length" wraps around to a small
    value included.  What the analysis reads is nevertheless always a non-empty range that
    lies wholly inside the window the image is mapped to, in plain (unbounded) arithmetic. *)

(** a chunk made over the image: a physical address range, not empty, inside the window
    [4 GiB - image size, 4 GiB) - no sum taken modulo 2^64 *)
Definition chunk_inside (isz : Z) (c : chunk) : Prop :=
  match c with
  | ChRaw => True
  | ChImage phys off len =>
      phys = true /\ PHYS_ADDR_BASE - isz <= off /\ 0 < len <= isz /\ off + len <= PHYS_ADDR_BASE
  end.

Lemma valid_pair_bounds : forall isz len off,
  0 < isz <= PHYS_ADDR_BASE -> valid_pair isz len off = true ->
  len <= isz /\ PHYS_ADDR_BASE - isz <= off < PHYS_ADDR_BASE /\ is_phys_addr off isz = true.
Proof.
  intros isz len off Hi V. unfold valid_pair in V. apply andb_prop in V. destruct V as [V1 V2].
  split; [apply Z.leb_le; exact V1|]. split; [|exact V2].
  unfold is_phys_addr in V2. apply andb_prop in V2. destruct V2 as [H1 H2].
  apply Z.leb_le in H1. apply Z.ltb_lt in H2.
  rewrite wrap64_small in H1; [lia|]. unfold PHYS_ADDR_BASE, W64 in *. lia.
Qed.

(** the fit test alone, for ANY length (not only one the parser lets through - 2^64 - 1
    included): a kept range at a physical address is no longer than the image and ends at
    or below 4 GiB; in particular [image offset + length] did not wrap *)
Lemma range_fits_inside : forall isz off len,
  0 < isz <= PHYS_ADDR_BASE -> is_phys_addr off isz = true ->
  range_fits isz true off len = true -> len <= isz /\ off + len <= PHYS_ADDR_BASE.
Proof.
  intros isz off len Hi Hp F.
  pose proof (range_fits_readable _ _ _ _ F) as R.
  assert (R' : range_readable isz (off, len)).
  { unfold range_readable. cbn [fst snd]. rewrite Hp. exact R. }
  apply (range_readable_iff isz off len Hi Hp) in R'.
  unfold is_phys_addr in Hp. apply andb_prop in Hp. destruct Hp as [H1 H2].
  apply Z.leb_le in H1. apply Z.ltb_lt in H2.
  rewrite wrap64_small in H1; [|unfold PHYS_ADDR_BASE, W64 in *; lia].
  split; lia.
Qed.

Lemma ranges_to_chunks_inside : forall isz m,
  0 < isz <= PHYS_ADDR_BASE ->
  forall ranges chunks,
  Forall (fun '(off, len) => 0 < len -> is_phys_addr off isz = true) ranges ->
  Forall (chunk_inside isz) chunks ->
  Forall (chunk_inside isz) (ranges_to_chunks isz m ranges chunks).
Proof.
  intros isz m Hi. induction ranges as [|[off len] t IH]; intros chunks Hr Hc; cbn [ranges_to_chunks]; [exact Hc|].
  inversion Hr as [|x l P Ht]; subst.
  destruct (0 <? len) eqn:E0.
  - apply Z.ltb_lt in E0. specialize (P E0). rewrite P.
    destruct (range_fits isz true off len) eqn:Ff.
    + apply IH; [exact Ht|]. apply Forall_app. split; [exact Hc|]. constructor; [|constructor].
      destruct (range_fits_inside isz off len Hi P Ff) as [B1 B2].
      unfold is_phys_addr in P. apply andb_prop in P. destruct P as [H1 H2].
      apply Z.leb_le in H1. rewrite wrap64_small in H1; [|unfold PHYS_ADDR_BASE, W64 in *; lia].
      cbn [chunk_inside]. repeat split; lia.
    + apply IH; assumption.
  - match goal with |- context [if ?r then _ else _] => destruct r end.
    + apply IH; [exact Ht|]. apply Forall_app. split; [exact Hc|]. constructor; [exact I|constructor].
    + apply IH; assumption.
Qed.

(** every chunk the analysis of an entry makes - for every event data whatsoever, every
    measurement or none - lies inside the window (parser and fit test together) *)
Theorem explain_chunks_inside : forall e isz m p,
  0 < isz <= PHYS_ADDR_BASE ->
  parse_event_data e isz = Ok p ->
  Forall (chunk_inside isz) (ranges_to_chunks isz m (pr_ranges p) []).
Proof.
  intros e isz m p Hi E. apply ranges_to_chunks_inside; [exact Hi| |constructor].
  pose proof (parse_event_data_ranges_valid e isz p E) as V.
  eapply Forall_impl; [|exact V]. intros [off len] Vp _.
  destruct (valid_pair_bounds isz len off Hi Vp) as [_ [_ B3]]. exact B3.
Qed.

(** ... and the fit test does not lean on the parser: fed with ANY list of (offset, length)
    numbers - what a parser that checked nothing would hand over - every image chunk over
    a physical address still lies inside the window *)
Theorem ranges_to_chunks_inside_any : forall isz m ranges,
  0 < isz <= PHYS_ADDR_BASE ->
  Forall (fun c => match c with ChImage true _ _ => chunk_inside isz c | _ => True end)
         (ranges_to_chunks isz m ranges []).
Proof.
  intros isz m ranges Hi.
  assert (G : forall chunks,
    Forall (fun c => match c with ChImage true _ _ => chunk_inside isz c | _ => True end) chunks ->
    Forall (fun c => match c with ChImage true _ _ => chunk_inside isz c | _ => True end)
           (ranges_to_chunks isz m ranges chunks)).
  { induction ranges as [|[off len] t IH]; intros chunks Hc; cbn [ranges_to_chunks]; [exact Hc|].
    destruct (0 <? len) eqn:E0.
    - destruct (range_fits isz (is_phys_addr off isz) off len) eqn:Ff; [|apply IH; exact Hc].
      apply IH. apply Forall_app. split; [exact Hc|]. constructor; [|constructor].
      destruct (is_phys_addr off isz) eqn:P; [|exact I].
      apply Z.ltb_lt in E0.
      destruct (range_fits_inside isz off len Hi P Ff) as [B1 B2].
      unfold is_phys_addr in P. apply andb_prop in P. destruct P as [H1 H2].
      apply Z.leb_le in H1. rewrite wrap64_small in H1; [|unfold PHYS_ADDR_BASE, W64 in *; lia].
      cbn [chunk_inside]. repeat split; lia.
    - match goal with |- context [if ?r then _ else _] => destruct r end; apply IH; [|exact Hc].
      apply Forall_app. split; [exact Hc|]. constructor; [exact I|constructor]. }
  apply G. constructor.
Qed.

(** * CombineAsEventLog *)

Definition csims (l : list centry) : list sim_ev :=
  flat_map (fun c => match c with CSim s => [s] | CRec _ => [] end) l.
Definition crecs (l : list centry) : list event :=
  flat_map (fun c => match c with CSim _ => [] | CRec e => [e] end) l.

(** recorded events of the entries that are not plain/repaired matches *)
Definition unmatched_recorded (rs : list rentry) : list event :=
  somes (map (fun r => match re_status r with StMatch => None | _ => re_exp r end) rs).

Section Combine.
Variable Hp : meas -> Z -> list Z.

Lemma csims_app : forall a b, csims (a ++ b) = csims a ++ csims b.
Proof. intros. unfold csims. apply flat_map_app. Qed.
Lemma crecs_app : forall a b, crecs (a ++ b) = crecs a ++ crecs b.
Proof. intros. unfold crecs. apply flat_map_app. Qed.

Lemma combine_log_spec : forall P regs st rs,
  Forall (fun r => Some (re_status r) = status_of Hp P regs st r) rs ->
  exists cl, combine_log rs = Ok cl /\ csims cl = sim_side rs /\ crecs cl = unmatched_recorded rs.
Proof.
  intros P regs st. induction rs as [|r rs IH]; intro F.
  - exists []. repeat split.
  - inversion F as [|? ? S F']; subst. destruct (IH F') as [cl [E [A B]]].
    cbn [combine_log]. unfold status_of in S. unfold sim_side, unmatched_recorded in *. cbn [map].
    destruct (re_calc r) as [c|] eqn:Ec; destruct (re_exp r) as [e|] eqn:Ee; try discriminate.
    + destruct (digests_equal c e).
      * inversion S as [S']. rewrite S'. rewrite E. cbn [bind]. eexists. split; [reflexivity|].
        rewrite csims_app, crecs_app, A, B. split; reflexivity.
      * destruct (r_repaired Hp P regs st r); inversion S as [S']; rewrite S'; rewrite E; cbn [bind];
          (eexists; split; [reflexivity|]); rewrite csims_app, crecs_app, A, B; split; reflexivity.
    + inversion S as [S']. rewrite S'. rewrite E. cbn [bind]. eexists. split; [reflexivity|].
      rewrite csims_app, crecs_app, A, B. split; reflexivity.
    + inversion S as [S']. rewrite S'. rewrite E. cbn [bind]. eexists. split; [reflexivity|].
      rewrite csims_app, crecs_app, A, B. split; reflexivity.
Qed.

(** CombineAsEventLog on a result of ReproduceEventLog does not panic; it lists every
    simulated PCR0 event of the bank exactly once and in order, and in between exactly
    the recorded events that were not matched, in order. *)
Theorem combine_roundtrip : forall P isz regs cmds evlog recorded alg st oracle rs iss upd,
  reproduce Hp P isz regs cmds evlog recorded alg st oracle = Ok (rs, iss, upd) ->
  exists cl sims,
    combine_log rs = Ok cl /\
    sim_align cmds evlog 0 alg = Ok sims /\
    csims cl = map snd sims /\
    crecs cl = unmatched_recorded rs.
Proof.
  intros P isz regs cmds evlog recorded alg st oracle rs iss upd E.
  pose proof (statuses Hp _ _ _ _ _ _ _ _ _ _ _ _ E) as [F _].
  destruct (combine_log_spec _ _ _ _ F) as [cl [C [A B]]].
  destruct (conservation Hp _ _ _ _ _ _ _ _ _ _ _ _ E) as [log [sims [_ [S [_ K]]]]].
  exists cl, sims. repeat split; try assumption. rewrite A. exact K.
Qed.

End Combine.

(** * The inputs of the repaired defects (closed computations on the model): each one
    made ReproduceEventLog panic before the repair and is reported as a plain mismatch /
    unexpected entry now *)

Definition w_dg (b : Z) : list Z := repeat b 20.
Definition w_st : settings := mkSt false 0 8 2 10.
Definition w_hp : meas -> Z -> list Z := fun _ _ => [].
Definition w_isz : Z := 65536.

(** D20 (repaired by e99f02a): one simulated EV_POST_CODE event measured from ONE image
    range; the recorded entry has the same type, another digest, and event data with TWO
    (length, offset) pairs (16 bytes at 0xFFFF0000 and at 0xFFFF1000), both inside the
    image.  The look-up References[1] of 1 is no longer made; both ranges become chunks. *)
Definition w_meas : meas := mkMeas 0 0 [mkRef REF_IMAGE [(4294901760, 16)]].
Definition w_cmds : list (bool * scmd) := [(true, SExtend 0 4 (Some w_meas)); (false, SLogAdd 0 4)].
Definition w_evlog : list sim_ev := [mkSim 0 EV_POST_CODE (w_dg 1)].
Definition w_two_pairs : list Z :=
  [16;0;0;0;0;0;0;0; 0;0;255;255;0;0;0;0;  16;0;0;0;0;0;0;0; 0;16;255;255;0;0;0;0].
Definition w_log_d20 : list event := [mkEv 0 EV_POST_CODE w_two_pairs (Some (mkDg 4 (w_dg 2)))].

Lemma witness_d20 :
  exists rs, reproduce w_hp 4 w_isz false w_cmds w_evlog (Some w_log_d20) 4 w_st ([false], [false])
             = Ok (rs, [IMismatch 0], None) /\ map re_status rs = [StMismatch].
Proof. eexists. vm_compute. split; reflexivity. Qed.

Lemma witness_d20_chunks :
  forall p, parse_event_data (mkEv 0 EV_POST_CODE w_two_pairs (Some (mkDg 4 (w_dg 2)))) w_isz = Ok p ->
    (length (pr_ranges p) > length (m_refs w_meas))%nat /\
    ranges_to_chunks w_isz (Some w_meas) (pr_ranges p) [] =
      [ChImage true 4294905856 16; ChImage true 4294901760 16].
Proof. intros p E. vm_compute in E. inversion E; subst p; clear E. split; [cbn; lia|reflexivity]. Qed.

(** the same boot and entry with ONE pair: a mismatch is reported *)
Definition w_one_pair : list Z := [16;0;0;0;0;0;0;0; 0;0;255;255;0;0;0;0].
Definition w_log_one : list event := [mkEv 0 EV_POST_CODE w_one_pair (Some (mkDg 4 (w_dg 2)))].
Lemma witness_one_pair_ok :
  exists rs, reproduce w_hp 4 w_isz false w_cmds w_evlog (Some w_log_one) 4 w_st ([false], [false])
             = Ok (rs, [IMismatch 0], None) /\ map re_status rs = [StMismatch].
Proof. eexists. vm_compute. split; reflexivity. Qed.

(** EMPTY pairs (length 0) make no chunk over an image reference: the same entry with the
    data [16 bytes at 0xFFFF0000][0 bytes at 0xFFFF1000][0 bytes at 0xFFFF1000] - THREE
    pairs for ONE reference, the empty ones read first ... *)
Definition w_empty_pair : list Z := [0;0;0;0;0;0;0;0; 0;16;255;255;0;0;0;0].
Definition w_log_real_empty_empty : list event :=
  [mkEv 0 EV_POST_CODE (w_one_pair ++ w_empty_pair ++ w_empty_pair) (Some (mkDg 4 (w_dg 2)))].
Lemma witness_empty_pairs_ok :
  exists rs, reproduce w_hp 4 w_isz false w_cmds w_evlog (Some w_log_real_empty_empty) 4 w_st ([false], [false])
             = Ok (rs, [IMismatch 0], None) /\ map re_status rs = [StMismatch].
Proof. eexists. vm_compute. split; reflexivity. Qed.

(** ... and with the empty pair stored FIRST, so that it is read after the real one (the
    second D20 input: the look-up for it was References[1] of 1) *)
Definition w_log_empty_real : list event :=
  [mkEv 0 EV_POST_CODE (w_empty_pair ++ w_one_pair) (Some (mkDg 4 (w_dg 2)))].
Lemma witness_empty_after_real :
  exists rs, reproduce w_hp 4 w_isz false w_cmds w_evlog (Some w_log_empty_real) 4 w_st ([false], [false])
             = Ok (rs, [IMismatch 0], None) /\ map re_status rs = [StMismatch].
Proof. eexists. vm_compute. split; reflexivity. Qed.

(** nil measurement (repaired by 60718db): a startup-locality entry (EventLogAdd without
    Extend) whose recorded digest differs, TXT registers present: a mismatch without a
    measurement, the same as without registers *)
Definition w_cmds_loc : list (bool * scmd) := [(true, SLogAdd 0 4)].
Definition w_evlog_loc : list sim_ev := [mkSim 0 EV_NO_ACTION (w_dg 0)].
Definition w_log_loc : list event := [mkEv 0 EV_NO_ACTION (startup_data 3) (Some (mkDg 4 (w_dg 1)))].

Lemma witness_nil_measurement :
  exists rs, (forall regs, reproduce w_hp 4 w_isz regs w_cmds_loc w_evlog_loc (Some w_log_loc) 4 w_st ([false], [false])
                           = Ok (rs, [IMismatch 0], None)) /\
             map re_status rs = [StMismatch] /\ map re_meas rs = [None].
Proof. eexists. split; [intros [|]; vm_compute; reflexivity|split; reflexivity]. Qed.

(** range past the image end (repaired by dbffb11): one pair, 0x20 bytes at 0xFFFFFFF0 of
    a 64 KiB image: the range is skipped, no chunk is made *)
Definition w_past_end : list Z := [32;0;0;0;0;0;0;0; 240;255;255;255;0;0;0;0].
Definition w_log_range : list event := [mkEv 0 EV_POST_CODE w_past_end (Some (mkDg 4 (w_dg 2)))].

Lemma witness_range :
  exists rs, reproduce w_hp 4 w_isz false w_cmds w_evlog (Some w_log_range) 4 w_st ([false], [false])
             = Ok (rs, [IMismatch 0], None) /\ map re_status rs = [StMismatch].
Proof. eexists. vm_compute. split; reflexivity. Qed.

Lemma witness_range_skipped :
  forall p, parse_event_data (mkEv 0 EV_POST_CODE w_past_end (Some (mkDg 4 (w_dg 2)))) w_isz = Ok p ->
    pr_ranges p = [(4294967280, 32)] /\
    ~ range_readable w_isz (4294967280, 32) /\
    ranges_to_chunks w_isz (Some w_meas) (pr_ranges p) [] = [].
Proof.
  intros p E. vm_compute in E. inversion E; subst p; clear E. cbn [pr_ranges].
  split; [reflexivity|split; [|reflexivity]]. unfold range_readable. vm_compute. discriminate.
Qed.

(** an inserted (unexpected) entry with such a pair: no measurement is involved *)
Definition w_log_range_ins : list event :=
  [mkEv 0 EV_POST_CODE w_past_end (Some (mkDg 4 (w_dg 2))); mkEv 0 EV_POST_CODE [] (Some (mkDg 4 (w_dg 1)))].
Lemma witness_range_unexpected :
  exists rs, reproduce w_hp 4 w_isz false w_cmds w_evlog (Some w_log_range_ins) 4 w_st ([true; false], [false])
             = Ok (rs, [IUnexpected 0], None) /\ map re_status rs = [StUnexpected; StMatch].
Proof. eexists. vm_compute. split; reflexivity. Qed.

(** Two PCR0_DATA measurements in one bank, both recorded with a decremented register
    (by 1 and by 2): both entries are marked matching, ONE register is returned (the
    second), and it does not justify the first entry.  [w_hp2 m v] = twenty bytes [v mod 256]. *)
Definition w_hp2 : meas -> Z -> list Z := fun _ v => repeat (v mod 256) 20.
Definition w_m1 : meas := mkMeas 0 6 [mkRef REF_TXT [(888, 8)]].
Definition w_m2 : meas := mkMeas 1 6 [mkRef REF_TXT [(888, 8)]].
Definition w_cmds2 : list (bool * scmd) :=
  [(true, SExtend 0 4 (Some w_m1)); (false, SLogAdd 0 4); (true, SExtend 0 4 (Some w_m2)); (false, SLogAdd 0 4)].
Definition w_evlog2 : list sim_ev := [mkSim 0 7 (w_dg 6); mkSim 1 7 (w_dg 6)].
Definition w_log2 : list event := [mkEv 0 7 [] (Some (mkDg 4 (w_dg 5))); mkEv 0 7 [] (Some (mkDg 4 (w_dg 4)))].

Lemma witness_two_repairs :
  exists rs r1 r2,
    reproduce w_hp2 4 w_isz true w_cmds2 w_evlog2 (Some w_log2) 4 w_st ([false; false], [false; false])
      = Ok (rs, [IRepaired; IRepaired], Some 4) /\
    rs = [r1; r2] /\ re_status r1 = StMatch /\ re_status r2 = StMatch /\
    re_meas r1 = Some w_m1 /\ re_exp r1 = Some (mkEv 0 7 [] (Some (mkDg 4 (w_dg 5)))) /\
    w_hp2 w_m1 4 <> w_dg 5 /\ w_hp2 w_m1 5 = w_dg 5.
Proof.
  eexists. eexists. eexists. vm_compute. repeat split; try reflexivity. discriminate.
Qed.

(** Records with a 64-bit length (the class of inputs with which "offset + length" wraps
    around): [0xFFFF1000] (inside the window of the 64 KiB image, image offset 0x1000) next
    to the number [2^64 - 0x1000 + 0x10] - image offset + length = 2^64 + 0x10, which is
    0x10 modulo 2^64 - stored offset first and length first, and the same address next to
    [2^64 - 1].  None is a (length, offset) pair of the format: no range is parsed, the
    entry is reported (paired: mismatch; inserted: unexpected).  And even a parser that let
    the record through would not get it past the fit test, although the wrapped sum "fits". *)
Definition w_wide_off : Z := 4294905856.                 (* 0xFFFF1000 *)
Definition w_wide_len : Z := 18446744073709547536.       (* 2^64 - 0x1000 + 0x10 *)
Definition w_wide_off_first : list Z := [0;16;255;255;0;0;0;0; 16;240;255;255;255;255;255;255].
Definition w_wide_len_first : list Z := [16;240;255;255;255;255;255;255; 0;16;255;255;0;0;0;0].
Definition w_wide_max : list Z := [0;16;255;255;0;0;0;0; 255;255;255;255;255;255;255;255].
Definition w_log_wide (d : list Z) : list event := [mkEv 0 EV_POST_CODE d (Some (mkDg 4 (w_dg 2)))].
Definition w_log_wide_ins (d : list Z) : list event :=
  [mkEv 0 EV_EFI_PLATFORM_FIRMWARE_BLOB2 d (Some (mkDg 4 (w_dg 2))); mkEv 0 EV_POST_CODE [] (Some (mkDg 4 (w_dg 1)))].

Lemma witness_wide_fields :
  le64 (firstn 8 w_wide_off_first) = w_wide_off /\ le64 (skipn 8 w_wide_off_first) = w_wide_len /\
  le64 (skipn 8 w_wide_max) = 2 ^ 64 - 1 /\
  is_phys_addr w_wide_off w_isz = true /\
  wrap64 (image_offset w_isz true w_wide_off + w_wide_len) = 16.
Proof. vm_compute. repeat split; reflexivity. Qed.

Lemma witness_wide_paired :
  forall d, In d [w_wide_off_first; w_wide_len_first; w_wide_max] ->
  exists rs, reproduce w_hp 4 w_isz false w_cmds w_evlog (Some (w_log_wide d)) 4 w_st ([false], [false])
             = Ok (rs, [IMismatch 0], None) /\ map re_status rs = [StMismatch].
Proof.
  intros d [H|[H|[H|[]]]]; subst d; eexists; vm_compute; split; reflexivity.
Qed.

Lemma witness_wide_unexpected :
  forall d, In d [w_wide_off_first; w_wide_len_first; w_wide_max] ->
  exists rs, reproduce w_hp 4 w_isz false w_cmds w_evlog (Some (w_log_wide_ins d)) 4 w_st ([true; false], [false])
             = Ok (rs, [IUnexpected 0], None) /\ map re_status rs = [StUnexpected; StMatch].
Proof.
  intros d [H|[H|[H|[]]]]; subst d; eexists; vm_compute; split; reflexivity.
Qed.

Lemma witness_wide_not_a_pair :
  forall d p, In d [w_wide_off_first; w_wide_len_first; w_wide_max] ->
  parse_event_data (mkEv 0 EV_POST_CODE d (Some (mkDg 4 (w_dg 2)))) w_isz = Ok p -> pr_ranges p = [].
Proof.
  intros d p [H|[H|[H|[]]]] E; subst d; vm_compute in E; inversion E; reflexivity.
Qed.

Lemma witness_wide_dropped_by_fit_test :
  ranges_to_chunks w_isz (Some w_meas) [(w_wide_off, w_wide_len); (w_wide_off, 2 ^ 64 - 1)] [] = [] /\
  ranges_to_chunks w_isz None [(w_wide_off, w_wide_len); (w_wide_off, 2 ^ 64 - 1)] [] = [].
Proof. vm_compute. split; reflexivity. Qed.

(** * The set-level search: its results are minimal in the space the phases enumerate *)

Lemma fold_min_le : forall t x, fold_left Z.min t x <= x /\ Forall (fun y => fold_left Z.min t x <= y) t.
Proof.
  induction t as [|a t IH]; intro x; cbn [fold_left].
  - split; [lia|constructor].
  - destruct (IH (Z.min x a)) as [H1 H2]. split; [lia|].
    constructor; [lia|exact H2].
Qed.

Lemma min_of_le : forall l m, min_of l = Some m -> Forall (fun y => m <= y) l.
Proof.
  intros [|x t] m H; [discriminate|]. cbn [min_of] in H. injection H as <-.
  destruct (fold_min_le t x) as [H1 H2]. constructor; assumption.
Qed.

Lemma argmins_spec : forall X (l : list (Z * X)) d x,
  In (d, x) (argmins l) -> In (d, x) l /\ forall d' x', In (d', x') l -> d <= d'.
Proof.
  intros X l d x H. unfold argmins in H.
  destruct (min_of (map fst l)) as [m|] eqn:E; [|contradiction].
  apply filter_In in H. destruct H as [Hin Hm]. cbn [fst] in Hm. apply Z.eqb_eq in Hm. subst m.
  split; [exact Hin|]. intros d' x' H'.
  pose proof (min_of_le _ _ E) as F. rewrite Forall_forall in F.
  apply (F d'). apply (in_map fst) in H'. exact H'.
Qed.

Lemma scored_In : forall es cs l d p,
  In (d, p) (scored es cs l) <-> In p l /\ bm_dist es cs p = Some d.
Proof.
  intros es cs l d p. unfold scored. rewrite in_flat_map. split.
  - intros [q [Hq H]]. destruct (bm_dist es cs q) as [dq|] eqn:E; [|contradiction].
    destruct H as [H|[]]. injection H as <- <-. split; assumption.
  - intros [Hp E]. exists p. split; [exact Hp|]. rewrite E. left. reflexivity.
Qed.

(** Every result of the search lies in the second-phase space around a first-phase optimum,
    its reported distance is the distance of its bitmaps, and no candidate of that space has
    a smaller one. *)
Theorem search_result_optimal : forall es cs maxdist d p,
  In (d, p) (search_results es cs maxdist) ->
  exists d1 p1,
    In (d1, p1) (argmins (scored es cs (phase1_cands es cs))) /\
    In p (phase2_space es cs maxdist p1) /\
    bm_dist es cs p = Some d /\
    forall p' d', In p' (phase2_space es cs maxdist p1) -> bm_dist es cs p' = Some d' -> d <= d'.
Proof.
  intros es cs maxdist d p H. unfold search_results in H. apply in_flat_map in H.
  destruct H as [[d1 p1] [H1 H2]]. cbn [snd] in H2.
  apply argmins_spec in H2. destruct H2 as [Hin Hmin]. apply scored_In in Hin. destruct Hin as [Hs Hd].
  exists d1, p1. split; [exact H1|]. split; [exact Hs|]. split; [exact Hd|].
  intros p' d' Hp' Hd'. apply (Hmin d' p'). apply scored_In. split; assumption.
Qed.

(** the first phase alone: a first-phase optimum is a candidate of minimal distance *)
Theorem search_phase1_optimal : forall es cs d1 p1,
  In (d1, p1) (argmins (scored es cs (phase1_cands es cs))) ->
  In p1 (phase1_cands es cs) /\ bm_dist es cs p1 = Some d1 /\
  forall p' d', In p' (phase1_cands es cs) -> bm_dist es cs p' = Some d' -> d1 <= d'.
Proof.
  intros es cs d1 p1 H. apply argmins_spec in H. destruct H as [Hin Hmin].
  apply scored_In in Hin. destruct Hin as [Hs Hd]. split; [exact Hs|]. split; [exact Hd|].
  intros p' d' Hp' Hd'. apply (Hmin d' p'). apply scored_In. split; assumption.
Qed.

Lemma flips_length : forall base k x, In x (flips k base) -> length x = length base.
Proof.
  induction base as [|b t IH]; intros k x H; cbn [flips] in H.
  - destruct k; [destruct H as [<-|[]]; reflexivity|contradiction].
  - apply in_app_or in H. destruct H as [H|H].
    + apply in_map_iff in H. destruct H as [y [<- Hy]]. cbn [length]. f_equal. exact (IH _ _ Hy).
    + destruct k as [|k']; [contradiction|]. apply in_map_iff in H. destruct H as [y [<- Hy]].
      cbn [length]. f_equal. exact (IH _ _ Hy).
Qed.

Lemma phase1_cands_lengths : forall es cs p,
  In p (phase1_cands es cs) -> length (fst p) = length es /\ length (snd p) = length cs.
Proof.
  intros es cs p H. unfold phase1_cands in H.
  destruct (amount_diff es cs =? 0).
  - destruct H as [<-|[]]. cbn [fst snd]. split; apply all_false_length.
  - destruct (amount_diff es cs <? 0).
    + apply in_map_iff in H. destruct H as [m [<- Hm]]. cbn [fst snd]. split; [apply all_false_length|].
      rewrite (flips_length _ _ _ Hm). apply all_false_length.
    + apply in_map_iff in H. destruct H as [e [<- He]]. cbn [fst snd]. split; [|apply all_false_length].
      rewrite (flips_length _ _ _ He). apply all_false_length.
Qed.

(** ... and every result is a pair of bitmaps of the right lengths that leaves equally many
    events on both sides: what alignLogs needs (C13_conservation_any_balanced_bitmaps) *)
Theorem search_result_balanced : forall es cs maxdist d p,
  In (d, p) (search_results es cs maxdist) -> balanced es cs p.
Proof.
  intros es cs maxdist d p H. apply search_result_optimal in H.
  destruct H as [d1 [p1 [H1 [H2 _]]]].
  apply search_phase1_optimal in H1. destruct H1 as [H1 _].
  apply phase1_cands_lengths in H1. destruct H1 as [L1 L2].
  unfold phase2_space in H2. apply in_flat_map in H2. destruct H2 as [e [He H2]].
  unfold flips_upto in He. apply in_flat_map in He. destruct He as [k [_ He]].
  apply flips_length in He.
  destruct (Z.of_nat (count_true e) - Z.of_nat (count_true (snd p1)) - amount_diff es cs <? 0); [contradiction|].
  apply filter_In in H2. destruct H2 as [H2 Hb].
  apply in_map_iff in H2. destruct H2 as [m [<- Hm]]. apply flips_length in Hm.
  unfold balanced. cbn [fst snd] in *. split; [congruence|]. split; [congruence|].
  unfold bm_balanced, amount_diff in Hb. cbn [fst snd] in Hb. apply Z.eqb_eq in Hb.
  pose proof (count_true_le e). pose proof (count_true_le m). lia.
Qed.

(** the rule the metric implements: exactly the pairs that agree in neither type nor digest
    cost more than leaving both events unpaired (two disabled entries, [2 * BIGN]) *)
Theorem unrelated_pair_costs_more : forall c e, unrelated c e = true <-> 2 * BIGN < pair_cost c e.
Proof.
  intros c e. unfold unrelated, pair_cost, digests_equal, BIGN.
  destruct (zlist_eqb (ev_digest_bytes e) (s_digest c)); destruct (ev_type e =? s_type c); cbn; split; intro; try lia; try discriminate; reflexivity.
Qed.

(** witnesses: the scripts of the shape "one entry deleted, another one replaced" on a boot
    of three events - the first phase leaves out one simulated event, the second one adds the
    replaced entry on both sides *)
Definition w_s3 : list sim_ev := [mkSim 0 1 (w_dg 1); mkSim 1 2 (w_dg 2); mkSim 2 3 (w_dg 3)].
Definition w_e3 : list event := [mkEv 0 1 [] (Some (mkDg 4 (w_dg 1))); mkEv 0 9 [] (Some (mkDg 4 (w_dg 7)))].

Lemma witness_search_deleted_and_replaced :
  search_results w_e3 w_s3 1 = [(3 * BIGN, ([false; true], [false; true; true])); (3 * BIGN, ([false; true], [false; true; true]))] /\
  search_results w_e3 w_s3 0 = [(3 * BIGN + 1, ([false; false], [false; false; true])); (3 * BIGN + 1, ([false; false], [false; true; false]))].
Proof. split; vm_compute; reflexivity. Qed.
