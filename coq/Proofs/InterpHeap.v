(** Proofs about Model/InterpHeap.v: [Step.Actions] and the interpreter never
    write an action array that existed before the call (the heap is only
    extended), for every growth policy of [append], and reading the slices
    gives the value-level model of Model/Interp.v on the family as defined
    before the run. *)
From CSS Require Import Lib.Base Model.Interp Model.InterpHeap Proofs.Interp.
From Coq Require Import Lia.

(** * Heaps *)

Definition ext (h h' : heap) : Prop := exists extra, h' = h ++ extra.

Lemma ext_refl h : ext h h.
Proof. exists []. rewrite app_nil_r. reflexivity. Qed.

Lemma ext_trans h1 h2 h3 : ext h1 h2 -> ext h2 h3 -> ext h1 h3.
Proof. intros [e1 ->] [e2 ->]. exists (e1 ++ e2). rewrite app_assoc. reflexivity. Qed.

Lemma ext_length h h' : ext h h' -> (length h <= length h')%nat.
Proof. intros [e ->]. rewrite app_length. lia. Qed.

Lemma ext_firstn h h' : ext h h' -> firstn (length h) h' = h.
Proof.
  intros [e ->]. rewrite firstn_app, Nat.sub_diag, firstn_all. cbn. apply app_nil_r.
Qed.

Lemma sl_in_mono n m sl : (n <= m)%nat -> sl_in n sl = true -> sl_in m sl = true.
Proof.
  destruct sl as [s|]; cbn; [|reflexivity]. intros Hle H.
  apply Nat.ltb_lt in H. apply Nat.ltb_lt. lia.
Qed.

Lemma read_ext h extra sl : sl_in (length h) sl = true -> read (h ++ extra) sl = read h sl.
Proof.
  destruct sl as [s|]; [|reflexivity]. cbn. intros H. apply Nat.ltb_lt in H.
  unfold read_sl. rewrite app_nth1 by exact H. reflexivity.
Qed.

Lemma alloc_read h xs k : read (h ++ [xs]) (Some (mkSl (length h) 0 (length xs) k)) = xs.
Proof.
  cbn. unfold read_sl. cbn [sl_arr sl_off sl_len].
  rewrite app_nth2 by lia. rewrite Nat.sub_diag. cbn. apply firstn_all.
Qed.

Lemma upd_length {A} : forall (l : list A) i v, length (upd l i v) = length l.
Proof. induction l as [|x l IH]; intros [|i] v; cbn; auto. Qed.

Lemma upd_app_r {A} : forall (h0 e : list A) i v,
  (length h0 <= i)%nat -> upd (h0 ++ e) i v = h0 ++ upd e (i - length h0) v.
Proof.
  induction h0 as [|x h0 IH]; intros e i v H; cbn.
  - rewrite Nat.sub_0_r. reflexivity.
  - destruct i as [|i]; [cbn in H; lia|]. cbn in H. cbn. rewrite IH by lia. reflexivity.
Qed.

Lemma nth_upd_same {A} : forall (l : list A) i v d, (i < length l)%nat -> nth i (upd l i v) d = v.
Proof.
  induction l as [|x l IH]; intros [|i] v d H; cbn in *; try lia; auto. apply IH. lia.
Qed.

(** * Steps *)

Lemma wf_step_mono : forall s n m, (n <= m)%nat -> wf_step n s = true -> wf_step m s = true.
Proof.
  fix IH 1. intros s n m Hle. destruct s; cbn; auto.
  - apply sl_in_mono. exact Hle.
  - intros H. apply andb_true_iff in H. destruct H as [H1 H2]. apply andb_true_iff. split.
    + destruct t as [s'|]; [eapply IH; eauto|reflexivity].
    + destruct e as [s'|]; [eapply IH; eauto|reflexivity].
  - induction ss as [|[s'|] t IHt]; cbn [forallb]; auto.
    + intros H; apply andb_true_iff in H; destruct H as [H1 H2].
      apply andb_true_iff. split; [eapply IH; eauto|auto].
  - apply sl_in_mono. exact Hle.
Qed.

Lemma resolve_ext : forall s h extra,
  wf_step (length h) s = true -> resolve (h ++ extra) s = resolve h s.
Proof.
  fix IH 1. intros s h extra. destruct s; cbn; auto.
  - intros H. f_equal. apply read_ext. exact H.
  - intros H. apply andb_true_iff in H. destruct H as [H1 H2]. f_equal.
    + destruct t as [s'|]; cbn; [f_equal; apply IH; exact H1|reflexivity].
    + destruct e as [s'|]; cbn; [f_equal; apply IH; exact H2|reflexivity].
  - intros H. f_equal. induction ss as [|[s'|] t IHt]; cbn in *; auto.
    + apply andb_true_iff in H. destruct H as [H1 H2]. f_equal; [f_equal; apply IH; exact H1|auto].
    + f_equal. auto.
  - intros H. f_equal. apply read_ext. exact H.
Qed.

Lemma wf_family_mono fam n m : (n <= m)%nat -> wf_family n fam = true -> wf_family m fam = true.
Proof.
  intros Hle. unfold wf_family. intros H. rewrite forallb_forall in *. intros p Hp.
  specialize (H p Hp). rewrite forallb_forall in *. intros ts Hts. eapply wf_step_mono; eauto.
Qed.

Lemma resolve_family_ext fam h extra :
  wf_family (length h) fam = true -> resolve_family (h ++ extra) fam = resolve_family h fam.
Proof.
  unfold wf_family, resolve_family. intros H. apply map_ext_in. intros [n steps] Hp.
  rewrite forallb_forall in H. specialize (H _ Hp). cbn [fst snd] in *. f_equal.
  apply map_ext_in. intros [sid body] Hts. rewrite forallb_forall in H. specialize (H _ Hts).
  unfold resolve_tstep. cbn [fst snd] in *. f_equal. apply resolve_ext. exact H.
Qed.

(** [actions_of] of a merged step, as a fold over the outcomes of the parts *)
Fixpoint merge_outs (l : list (option (outcome (list action)))) : outcome (list action) :=
  match l with
  | [] => Ok []
  | None :: _ => Panic
  | Some o :: t =>
      match o with
      | Ok a => match merge_outs t with Ok b => Ok (a ++ b) | o' => o' end
      | o' => o'
      end
  end.

Lemma actions_of_merge ss c :
  actions_of (SMerge ss) c = merge_outs (map (omap (fun s => actions_of s c)) ss).
Proof.
  cbn. induction ss as [|[s'|] t IH]; cbn; auto.
  destruct (actions_of s' c); auto. rewrite IH. reflexivity.
Qed.

(** * [append] onto a slice that is private to the running call *)

Section Grow.
Variable grow : nat -> nat -> nat.

(** [acc] is nil, or the whole of an array allocated after [h0] *)
Definition fresh_acc (h0 h : heap) (acc : option slice) (vals : list action) : Prop :=
  match acc with
  | None => vals = []
  | Some s => sl_off s = 0%nat /\ sl_len s = length vals /\
              (length h0 <= sl_arr s < length h)%nat /\ nth (sl_arr s) h [] = vals
  end.

Lemma fresh_read h0 h acc vals : fresh_acc h0 h acc vals -> read h acc = vals.
Proof.
  destruct acc as [s|]; cbn; [|auto]. intros (H1 & H2 & _ & H4).
  unfold read_sl. rewrite H1, H2, H4. cbn. apply firstn_all.
Qed.

Lemma fresh_in h0 h acc vals : fresh_acc h0 h acc vals -> sl_in (length h) acc = true.
Proof.
  destruct acc as [s|]; cbn; [|auto]. intros (_ & _ & H3 & _). apply Nat.ltb_lt. lia.
Qed.

Lemma fresh_acc_ext h0 h e acc vals : fresh_acc h0 h acc vals -> fresh_acc h0 (h ++ e) acc vals.
Proof.
  destruct acc as [s|]; cbn; [|auto]. intros (H1 & H2 & H3 & H4).
  repeat split; auto; try lia.
  - rewrite app_length. lia.
  - rewrite app_nth1 by lia. exact H4.
Qed.

Lemma append_fresh h0 extra acc vals xs h' acc' :
  fresh_acc h0 (h0 ++ extra) acc vals ->
  append_h grow (h0 ++ extra) acc xs = (h', acc') ->
  (exists extra', h' = h0 ++ extra') /\ fresh_acc h0 h' acc' (vals ++ xs).
Proof.
  intros Hf H. unfold append_h in H. destruct xs as [|x xs'].
  - inversion H; subst. rewrite app_nil_r. split; [eauto|exact Hf].
  - remember (x :: xs') as xs eqn:Exs. destruct acc as [s|].
    + destruct Hf as (H1 & H2 & H3 & H4).
      destruct (Nat.leb (sl_len s + length xs) (sl_cap s)).
      * inversion H; subst h' acc'. clear H.
        rewrite H4, H1, H2. cbn [Nat.add].
        assert (Hw : write_at vals (length vals) xs = vals ++ xs).
        { unfold write_at. rewrite firstn_all, skipn_all2 by lia. rewrite app_nil_r. reflexivity. }
        rewrite Hw. rewrite upd_app_r by lia. split; [eauto|].
        cbn. repeat split; auto.
        -- rewrite app_length. lia.
        -- lia.
        -- rewrite app_length, upd_length. rewrite app_length in H3. lia.
        -- rewrite <- upd_app_r by lia. apply nth_upd_same. lia.
      * inversion H; subst h' acc'. clear H. split.
        -- exists (extra ++ [read_sl (h0 ++ extra) s ++ xs]). rewrite app_assoc. reflexivity.
        -- cbn. repeat split; auto.
           ++ rewrite app_length. lia.
           ++ rewrite app_length. lia.
           ++ repeat rewrite app_length. cbn [length]. lia.
           ++ rewrite app_nth2 by lia. rewrite Nat.sub_diag. cbn.
              change (read_sl (h0 ++ extra) s) with (read (h0 ++ extra) (Some s)).
              rewrite (fresh_read h0 (h0 ++ extra) (Some s) vals); [reflexivity|]. cbn. auto.
    + cbn in Hf. subst vals. inversion H; subst h' acc'. clear H. split.
      * exists (extra ++ [xs]). rewrite app_assoc. reflexivity.
      * cbn. repeat split; auto.
        -- rewrite app_length. lia.
        -- repeat rewrite app_length. cbn [length]. lia.
        -- rewrite app_nth2 by lia. rewrite Nat.sub_diag. reflexivity.
Qed.

(** * [Step.Actions] at slice level *)

(** what is shown about one call of [Actions()] on heap [h]: the heap is
    only extended, the returned slice lies in the new heap, and it reads as
    the value-level action list of the step AS DEFINED in [h]; a panic is a
    panic of the value-level step. *)
Definition actions_ok (s : hstep) (c : core) (h : heap) : Prop :=
  match actions_h grow s c h with
  | Ok (sl, h') =>
      ext h h' /\ sl_in (length h') sl = true /\ actions_of (resolve h s) c = Ok (read h' sl)
  | Panic => actions_of (resolve h s) c = Panic
  | _ => False
  end.

Lemma merge_loop_sound c l :
  Forall (fun o => match o with
                   | Some s' => forall h, wf_step (length h) s' = true -> actions_ok s' c h
                   | None => True end) l ->
  forall h0, forallb (fun o => match o with Some s' => wf_step (length h0) s' | None => true end) l = true ->
  forall extra acc vals, fresh_acc h0 (h0 ++ extra) acc vals ->
  match merge_loop grow (fun s' h' => actions_h grow s' c h') l acc (h0 ++ extra) with
  | Ok (sl, h') =>
      ext h0 h' /\ sl_in (length h') sl = true /\
      exists rest, merge_outs (map (omap (fun s => actions_of (resolve h0 s) c)) l) = Ok rest /\
                   read h' sl = vals ++ rest
  | Panic => merge_outs (map (omap (fun s => actions_of (resolve h0 s) c)) l) = Panic
  | _ => False
  end.
Proof.
  intros HF h0. induction HF as [|o t Ho HF IH]; intros Hwf extra acc vals Hacc.
  - cbn. split; [eexists; reflexivity|]. split; [eapply fresh_in; eauto|].
    exists []. split; [reflexivity|]. rewrite app_nil_r. eapply fresh_read; eauto.
  - cbn [forallb] in Hwf. apply andb_true_iff in Hwf. destruct Hwf as [Hw1 Hw2].
    destruct o as [s'|]; [|reflexivity].
    cbn [merge_loop map omap merge_outs].
    assert (Hw1' : wf_step (length (h0 ++ extra)) s' = true).
    { eapply wf_step_mono; [|exact Hw1]. rewrite app_length. lia. }
    specialize (Ho (h0 ++ extra) Hw1'). unfold actions_ok in Ho.
    rewrite (resolve_ext s' h0 extra Hw1) in Ho.
    destruct (actions_h grow s' c (h0 ++ extra)) as [[sl h1]| | |]; try contradiction.
    + destruct Ho as ([e1 ->] & Hin & Hval). rewrite Hval.
      destruct (append_h grow ((h0 ++ extra) ++ e1) acc (read ((h0 ++ extra) ++ e1) sl)) as [h2 acc'] eqn:Ea.
      rewrite <- app_assoc in Ea.
      assert (Hacc1 : fresh_acc h0 (h0 ++ extra ++ e1) acc vals).
      { rewrite app_assoc. apply fresh_acc_ext. exact Hacc. }
      destruct (append_fresh _ _ _ _ _ _ _ Hacc1 Ea) as ([extra2 ->] & Hacc2).
      specialize (IH Hw2 extra2 acc' _ Hacc2).
      destruct (merge_loop grow (fun s'0 h' => actions_h grow s'0 c h') t acc' (h0 ++ extra2)) as [[sl2 h3]| | |];
        try contradiction.
      * destruct IH as (He & Hin2 & rest & Hm & Hr). split; [exact He|]. split; [exact Hin2|].
        rewrite Hm. eexists. split; [reflexivity|].
        rewrite Hr, <- (app_assoc vals), (app_assoc h0). reflexivity.
      * rewrite IH. reflexivity.
    + rewrite Ho. reflexivity.
Qed.

Lemma resolve_merge h ss : resolve h (HMerge ss) = SMerge (map (omap (resolve h)) ss).
Proof. reflexivity. Qed.

Lemma alloc_ok h xs (v : step) c :
  actions_of v c = Ok xs ->
  ext h (h ++ [xs]) /\ sl_in (length (h ++ [xs])) (Some (mkSl (length h) 0 (length xs) (length xs))) = true /\
  actions_of v c = Ok (read (h ++ [xs]) (Some (mkSl (length h) 0 (length xs) (length xs)))).
Proof.
  intros H. split; [eexists; reflexivity|]. split.
  - cbn. apply Nat.ltb_lt. rewrite app_length. cbn. lia.
  - rewrite alloc_read. exact H.
Qed.

Lemma actions_h_sound : forall s c h, wf_step (length h) s = true -> actions_ok s c h.
Proof.
  fix IH 1. intros s c h Hwf. unfold actions_ok. destruct s.
  - cbn. split; [apply ext_refl|]. split; [exact Hwf|reflexivity].
  - cbn [actions_h resolve actions_of]. cbn [wf_step] in Hwf.
    apply andb_true_iff in Hwf. destruct Hwf as [H1 H2].
    destruct (eval_cond c0 c) as [[|]| | |]; try reflexivity.
    + destruct t as [s'|]; cbn [omap].
      * exact (IH s' c h H1).
      * split; [apply ext_refl|]. split; reflexivity.
    + destruct e as [s'|]; cbn [omap].
      * exact (IH s' c h H2).
      * split; [apply ext_refl|]. split; reflexivity.
  - cbn [actions_h]. rewrite resolve_merge, actions_of_merge, map_map.
    assert (HF : Forall (fun o => match o with
                   | Some s' => forall h, wf_step (length h) s' = true -> actions_ok s' c h
                   | None => True end) ss).
    { clear Hwf. induction ss as [|[s'|] t IHt];
        [constructor
        |constructor; [intros h' Hw; exact (IH s' c h' Hw)|exact IHt]
        |constructor; [exact I|exact IHt]]. }
    cbn [wf_step] in Hwf.
    pose proof (merge_loop_sound c ss HF h Hwf [] None [] eq_refl) as Hm.
    rewrite app_nil_r in Hm.
    assert (Hmap : map (fun x => omap (fun s => actions_of s c) (omap (resolve h) x)) ss =
                   map (omap (fun s => actions_of (resolve h s) c)) ss).
    { apply map_ext. intros [x|]; reflexivity. }
    rewrite Hmap.
    destruct (merge_loop grow (fun s' h' => actions_h grow s' c h') ss None h) as [[sl h']| | |]; auto.
    destruct Hm as (He & Hin & rest & Hm & Hr). cbn in Hr. subst rest. auto.
  - cbn [actions_h alloc]. apply (alloc_ok h [ASetFlow g] (SSetFlow g) c). reflexivity.
  - cbn [actions_h alloc]. apply (alloc_ok h [ASetActor a] (SSetActor a) c). reflexivity.
  - cbn [actions_h alloc]. apply (alloc_ok h [APanic] SPanic c). reflexivity.
  - cbn [actions_h alloc]. apply (alloc_ok h _ (SInitTPM withLog) c). reflexivity.
  - cbn [actions_h resolve actions_of]. destruct panics; [reflexivity|].
    split; [apply ext_refl|]. split; [exact Hwf|reflexivity].
  - cbn [actions_h alloc]. apply (alloc_ok h [ASetFlowFunc id fn] (SSetFlowFunc id fn) c). reflexivity.
  - cbn [actions_h alloc]. apply (alloc_ok h _ SLogInit c). reflexivity.
  - reflexivity.
Qed.

(** * The interpreter *)

Definition wf_log (h : heap) (log : list hentry) : Prop :=
  Forall (fun e => sl_in (length h) (he_actions e) = true) log.

Lemma wf_log_ext h h' log : ext h h' -> wf_log h log -> wf_log h' log.
Proof.
  intros He H. apply ext_length in He. unfold wf_log in *. rewrite Forall_forall in *.
  intros e Hin. eapply sl_in_mono; eauto.
Qed.

Lemma read_log_ext h h' log : ext h h' -> wf_log h log -> map (read_entry h') log = map (read_entry h) log.
Proof.
  intros [e ->] H. apply map_ext_in. intros x Hin. unfold wf_log in H. rewrite Forall_forall in H.
  unfold read_entry. rewrite read_ext by auto. reflexivity.
Qed.

Lemma hlookup_resolve h fam g :
  lookup (resolve_family h fam) g = omap (map (resolve_tstep h)) (hlookup fam g).
Proof.
  induction fam as [|[n steps] fam IH]; cbn; [reflexivity|]. destruct (n =? g); auto.
Qed.

Lemma wf_hlookup n fam g steps :
  wf_family n fam = true -> hlookup fam g = Some steps ->
  forall ts, In ts steps -> wf_step n (snd ts) = true.
Proof.
  induction fam as [|[m st] fam IH]; cbn; [discriminate|]. intros H Hl.
  apply andb_true_iff in H. destruct H as [H1 H2]. destruct (m =? g).
  - inversion Hl; subst. intros ts Hin. rewrite forallb_forall in H1. auto.
  - eauto.
Qed.

Lemma state_next_step_sim fam st h :
  wf_family (length h) fam = true ->
  match state_next_step_h grow fam st h with
  | Ok (st', h', None) =>
      h' = h /\ state_next_step (resolve_family h fam) st = Ok (st', None)
  | Ok (st', h', Some (sid, sl, iss, code)) =>
      ext h h' /\ sl_in (length h') sl = true /\
      state_next_step (resolve_family h fam) st = Ok (st', Some (sid, read h' sl, iss, code))
  | Panic => state_next_step (resolve_family h fam) st = Panic
  | _ => False
  end.
Proof.
  intros Hwf. unfold state_next_step_h, state_next_step. rewrite hlookup_resolve.
  destruct (hlookup fam (ms_flow st)) as [steps|] eqn:El; cbn [omap]; [|auto].
  rewrite map_length. cbn [ms_step].
  destruct (wrap64 (ms_step st + 1) >=? Z.of_nat (length steps)); [auto|].
  rewrite nth_error_map.
  destruct (nth_error steps (Z.to_nat (wrap64 (ms_step st + 1)))) as [[sid body]|] eqn:En; cbn [option_map]; [|reflexivity].
  unfold resolve_tstep. cbn [fst snd ms_core].
  assert (Hb : wf_step (length h) body = true).
  { apply (wf_hlookup _ _ _ _ Hwf El (sid, body)). eapply nth_error_In; eauto. }
  pose proof (actions_h_sound body (ms_core st) h Hb) as Ha. unfold actions_ok in Ha.
  destruct (actions_h grow body (ms_core st) h) as [[sl h1]| | |]; try contradiction.
  - destruct Ha as (He & Hin & Hv). rewrite Hv.
    destruct (loop_actions (read h1 sl) 0 _ []) as [st2 iss1].
    destruct (actor_part (ms_core st2)) as [code iss2]. auto.
  - rewrite Ha. cbn [read].
    destruct (loop_actions [] 0 _ [ICActions]) as [st2 iss1].
    destruct (actor_part (ms_core st2)) as [code iss2].
    split; [apply ext_refl|]. split; reflexivity.
Qed.

Lemma next_step_sim fam st h log :
  wf_family (length h) fam = true -> wf_log h log ->
  match next_step_h grow fam st h log with
  | Ok (st', h', log', d) =>
      ext h h' /\ wf_log h' log' /\ (exists new, log' = log ++ new) /\
      next_step (resolve_family h fam) st (map (read_entry h) log) = Ok (st', map (read_entry h') log', d)
  | Panic => next_step (resolve_family h fam) st (map (read_entry h) log) = Panic
  | _ => False
  end.
Proof.
  intros Hwf Hlog. unfold next_step_h, next_step.
  pose proof (state_next_step_sim fam st h Hwf) as Hs.
  destruct (state_next_step_h grow fam st h) as [[[st' h'] [[[[sid sl] iss] code]|]]| | |]; try contradiction.
  - destruct Hs as (He & Hin & Hv). rewrite Hv. split; [exact He|]. split; [|split].
    + apply Forall_app. split; [eapply wf_log_ext; eauto|]. constructor; [exact Hin|constructor].
    + eexists. reflexivity.
    + rewrite map_app. rewrite (read_log_ext h h' log He Hlog). reflexivity.
  - destruct Hs as (-> & Hv). rewrite Hv. split; [apply ext_refl|]. split; [exact Hlog|]. split.
    + exists []. rewrite app_nil_r. reflexivity.
    + reflexivity.
  - rewrite Hs. reflexivity.
Qed.

Lemma run_sim fam : forall fuel st h log,
  wf_family (length h) fam = true -> wf_log h log ->
  match run_h grow fuel fam st h log with
  | Ok (st', h', log', d) =>
      ext h h' /\ wf_log h' log' /\ (exists new, log' = log ++ new) /\
      run fuel (resolve_family h fam) st (map (read_entry h) log) = Ok (st', map (read_entry h') log', d)
  | Panic => run fuel (resolve_family h fam) st (map (read_entry h) log) = Panic
  | _ => False
  end.
Proof.
  induction fuel as [|f IH]; intros st h log Hwf Hlog.
  - cbn. split; [apply ext_refl|]. split; [exact Hlog|]. split; [exists []; rewrite app_nil_r|]; reflexivity.
  - cbn [run_h run]. pose proof (next_step_sim fam st h log Hwf Hlog) as Hn.
    destruct (next_step_h grow fam st h log) as [[[[st1 h1] log1] d1]| | |]; try contradiction.
    + destruct Hn as (He & Hl1 & [new1 ->] & Hv). rewrite Hv. destruct d1.
      * assert (Hwf1 : wf_family (length h1) fam = true).
        { eapply wf_family_mono; [|exact Hwf]. apply ext_length. exact He. }
        specialize (IH st1 h1 (log ++ new1) Hwf1 Hl1).
        assert (Hfam : resolve_family h1 fam = resolve_family h fam).
        { destruct He as [e ->]. apply resolve_family_ext. exact Hwf. }
        rewrite Hfam in IH.
        destruct (run_h grow f fam st1 h1 (log ++ new1)) as [[[[st2 h2] log2] d2]| | |]; try contradiction.
        -- destruct IH as (He2 & Hl2 & [new2 ->] & Hv2). split; [eapply ext_trans; eauto|].
           split; [exact Hl2|]. split; [exists (new1 ++ new2); rewrite app_assoc; reflexivity|exact Hv2].
        -- exact IH.
      * split; [exact He|]. split; [exact Hl1|]. split; [eauto|reflexivity].
    + rewrite Hn. reflexivity.
Qed.

(** * Statements used by Props/C09.v *)

Lemma step_actions_owned s c h :
  wf_step (length h) s = true ->
  match actions_h grow s c h with
  | Ok (sl, h') =>
      (exists extra, h' = h ++ extra) /\ firstn (length h) h' = h /\
      resolve h' s = resolve h s /\
      actions_of (resolve h s) c = Ok (read h' sl)
  | Panic => actions_of (resolve h s) c = Panic
  | _ => False
  end.
Proof.
  intros Hwf. pose proof (actions_h_sound s c h Hwf) as H. unfold actions_ok in H.
  destruct (actions_h grow s c h) as [[sl h']| | |]; auto.
  destruct H as (He & _ & Hv). split; [exact He|]. split; [apply ext_firstn; exact He|].
  split; [|exact Hv]. destruct He as [e ->]. apply resolve_ext. exact Hwf.
Qed.

Lemma run_keeps_family fam h root c fuel :
  wf_family (length h) fam = true -> sized (resolve_family h fam) ->
  exists st h' log d,
    run_h grow fuel fam (init_state root c) h [] = Ok (st, h', log, d) /\
    (exists extra, h' = h ++ extra) /\ firstn (length h) h' = h /\
    resolve_family h' fam = resolve_family h fam /\
    run fuel (resolve_family h fam) (init_state root c) [] = Ok (st, map (read_entry h') log, d).
Proof.
  intros Hwf Hsz.
  pose proof (run_sim fam fuel (init_state root c) h [] Hwf (Forall_nil _)) as H. cbn [map] in H.
  destruct (run_h grow fuel fam (init_state root c) h []) as [[[[st h'] log] d]| | |]; try contradiction.
  - destruct H as (He & _ & _ & Hv). exists st, h', log, d. split; [reflexivity|].
    split; [exact He|]. split; [apply ext_firstn; exact He|]. split; [|exact Hv].
    destruct He as [e ->]. apply resolve_family_ext. exact Hwf.
  - exfalso. exact (never_panics _ root c fuel Hsz H).
Qed.

Lemma log_entries_stable fam fuel st h log st' h' log' d :
  wf_family (length h) fam = true -> wf_log h log ->
  run_h grow fuel fam st h log = Ok (st', h', log', d) ->
  exists new, log' = log ++ new /\ map (read_entry h') log = map (read_entry h) log /\
              firstn (length h) h' = h.
Proof.
  intros Hwf Hlog Hr. pose proof (run_sim fam fuel st h log Hwf Hlog) as H. rewrite Hr in H.
  destruct H as (He & _ & [new ->] & _). exists new. split; [reflexivity|].
  split; [apply read_log_ext; assumption|apply ext_firstn; exact He].
Qed.

End Grow.
