(** C18 — proofs about Model/ManifestRead.v (what the constructors hand to the codec). *)
From CSS Require Import Lib.Base Model.Manifest Model.ManifestRead Proofs.Manifest.
From Coq Require Import ZifyBool ZifyNat.

(** the code: the whole file *)
Lemma verify_file_via_id E d file : verify_file_via E (fun f => f) d file = verify_file E d file.
Proof. reflexivity. Qed.

(** the verdict is the codec's and the signature's verdict on exactly the bytes handed over *)
Lemma verify_file_via_ok_iff E pre d file :
  verify_file_via E pre d file = Ok tt <->
  exists g m, detect file = Some g /\ parse E g d (pre file) = Some m /\ verify_manifest E g d m = true.
Proof.
  unfold verify_file_via. split.
  - destruct (detect file) as [g|]; [|discriminate].
    destruct (parse E g d (pre file)) as [m|] eqn:Hp; [|discriminate].
    destruct (verify_manifest E g d m) eqn:Hv; [|discriminate].
    intros _. exists g, m. auto.
  - intros (g & m & Hd & Hp & Hv). rewrite Hd, Hp, Hv. reflexivity.
Qed.

Lemma verify_file_ok_iff E d file :
  verify_file E d file = Ok tt <->
  exists g m, detect file = Some g /\ parse E g d file = Some m /\ verify_manifest E g d m = true.
Proof. rewrite <- verify_file_via_id. apply verify_file_via_ok_iff. Qed.

(** Two constructors that hand over the same bytes give the same verdict; so the
    verdict of the code on a file depends on nothing but the bytes of the file. *)
Lemma verify_file_via_ext E pre1 pre2 d file :
  pre1 file = pre2 file -> verify_file_via E pre1 d file = verify_file_via E pre2 d file.
Proof. unfold verify_file_via. intros ->. reflexivity. Qed.

(** A codec is PREFIX-TIGHT at a file when no proper prefix of the file parses to
    a structure that verifies (fiano at a signed file: a cut inside the key or
    the signature value is an unexpected EOF, a cut at an element boundary leaves
    a manifest without signature, a cut inside the signed portion loses signed
    bytes).  A fact about the third-party codec and scheme: hypothesis. *)
Definition prefix_tight (E : env) (g : gen) (d : doc) (file : bytes) : Prop :=
  forall n, (n < length file)%nat ->
    match parse E g d (firstn n file) with
    | Some m => verify_manifest E g d m = false
    | None => True
    end.

Theorem shortening_refuses E pre d file g n :
  detect file = Some g ->
  pre file = firstn n file -> (n < length file)%nat ->
  prefix_tight E g d file ->
  verify_file_via E pre d file <> Ok tt.
Proof.
  intros Hd Hpre Hn Ht Hv. apply verify_file_via_ok_iff in Hv.
  destruct Hv as (g' & m & Hd' & Hp & Hvm). rewrite Hd in Hd'. inversion Hd'; subst g'.
  specialize (Ht n Hn). rewrite Hpre in Hp. rewrite Hp in Ht. congruence.
Qed.

(** trimming is a shortening: what is left is a prefix ... *)
Lemma trim_trailing_firstn x f : trim_trailing x f = firstn (length (trim_trailing x f)) f.
Proof.
  induction f as [|b r IH]; [reflexivity|].
  cbn [trim_trailing]. destruct (trim_trailing x r) as [|z l] eqn:Ht.
  - destruct (b =? x); reflexivity.
  - cbn [length firstn]. f_equal. exact IH.
Qed.

(** ... and a PROPER prefix of every file that ends with the filler byte *)
Lemma trim_trailing_shorter x f :
  f <> [] -> last f 0 = x -> (length (trim_trailing x f) < length f)%nat.
Proof.
  induction f as [|b r IH]; [congruence|]. intros _ Hl.
  destruct r as [|c r2].
  - cbn [last] in Hl. subst x. cbn [trim_trailing]. rewrite Z.eqb_refl. cbn [length]. lia.
  - assert (Hr : (length (trim_trailing x (c :: r2)) < length (c :: r2))%nat).
    { apply IH; [discriminate|exact Hl]. }
    change (trim_trailing x (b :: c :: r2)) with
      (match trim_trailing x (c :: r2) with [] => if b =? x then [] else [b] | z :: l => b :: z :: l end).
    clear IH Hl. destruct (trim_trailing x (c :: r2)) as [|z l].
    + destruct (b =? x); cbn [length]; lia.
    + cbn [length] in *. lia.
Qed.

Theorem trim_is_shortening x f :
  f <> [] -> last f 0 = x ->
  exists n, (n < length f)%nat /\ trim_trailing x f = firstn n f.
Proof.
  intros Hne Hl. exists (length (trim_trailing x f)). split.
  - apply trim_trailing_shorter; assumption.
  - apply trim_trailing_firstn.
Qed.

(** a file that does not end with the filler byte is handed over whole *)
Lemma trim_trailing_id x f : last f (x + 1) <> x -> trim_trailing x f = f.
Proof.
  induction f as [|b r IH]; [reflexivity|]. intros Hl.
  destruct r as [|c r2].
  - cbn in Hl. cbn. destruct (b =? x) eqn:Hb; [lia|reflexivity].
  - assert (Hr : trim_trailing x (c :: r2) = c :: r2) by (apply IH; exact Hl).
    change (trim_trailing x (b :: c :: r2)) with
      (match trim_trailing x (c :: r2) with [] => if b =? x then [] else [b] | z :: l => b :: z :: l end).
    rewrite Hr. reflexivity.
Qed.

(** Both cautious constructors refuse files the real one accepts. *)
Theorem limit_refuses E d file g n :
  detect file = Some g -> (n < length file)%nat -> prefix_tight E g d file ->
  verify_file_via E (firstn n) d file <> Ok tt.
Proof. intros Hd Hn Ht. eapply shortening_refuses; eauto. Qed.

Theorem trim_refuses E d file g x :
  detect file = Some g -> file <> [] -> last file 0 = x -> prefix_tight E g d file ->
  verify_file_via E (trim_trailing x) d file <> Ok tt.
Proof.
  intros Hd Hne Hl Ht. destruct (trim_is_shortening x file Hne Hl) as (n & Hn & He).
  eapply shortening_refuses; eauto.
Qed.

(** * The toy codec: a file signed by the suite, accepted by the code, refused by
      every length limit below its length and -- it ends with 255 -- by a
      constructor that cuts off trailing 0xFF bytes. *)
Definition toy_ff_file : bytes :=
  ser Toy (signed_struct Toy V10 KM (mk_toy 16 11 1 255 0 (mk_sig 0 0 [])) AlgRSASSA 0 5
             (5 :: AlgRSASSA :: signed_message Toy V10 KM (mk_toy 16 11 1 255 0 (mk_sig 0 0 [])))).

Lemma toy_ff_signed :
  sign_manifest Toy V10 KM (mk_toy 16 11 1 255 0 (mk_sig 0 0 [])) AlgRSASSA 0 5 = Ok toy_ff_file.
Proof. reflexivity. Qed.

Lemma toy_ff_last : last toy_ff_file 0 = 255.
Proof. reflexivity. Qed.

Lemma toy_ff_accepted : verify_file Toy KM toy_ff_file = Ok tt.
Proof. vm_compute. reflexivity. Qed.

Lemma toy_ff_tight : prefix_tight Toy V10 KM toy_ff_file.
Proof.
  intros n Hn. change (length toy_ff_file) with 31%nat in Hn.
  do 31 (destruct n as [|n]; [vm_compute; auto|]). lia.
Qed.

Theorem toy_cautious_constructors_break_sign_verify :
  exists (E : env) d m sch req sk file,
    sign_manifest E V10 d m sch req sk = Ok file /\
    verify_file E d file = Ok tt /\
    last file 0 = 255 /\
    (forall n, (n < length file)%nat -> verify_file_via E (firstn n) d file <> Ok tt) /\
    verify_file_via E (trim_trailing 255) d file <> Ok tt.
Proof.
  exists Toy, KM, (mk_toy 16 11 1 255 0 (mk_sig 0 0 [])), AlgRSASSA, 0, 5, toy_ff_file.
  split; [exact toy_ff_signed|]. split; [exact toy_ff_accepted|]. split; [exact toy_ff_last|]. split.
  - intros n Hn. apply (limit_refuses Toy KM toy_ff_file V10 n); [reflexivity|exact Hn|exact toy_ff_tight].
  - apply (trim_refuses Toy KM toy_ff_file V10 255); [reflexivity|discriminate|exact toy_ff_last|exact toy_ff_tight].
Qed.
