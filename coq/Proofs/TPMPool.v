(** Proofs about Model/TPMPool.v: TPM objects that share the pool of hashers.

    Main result ([pool_independent]): if every hasher lying in the pool is in the
    reset state and every hasher in use is held by exactly one object (the
    invariant [Inv], which holds initially and is preserved by the code as it
    is), then under EVERY interleaving of the micro-steps of the objects each
    object goes through exactly the states of the value model (Model/TPM.v) run
    on its own history.  With the two statements of releaseHasher swapped the
    statement is false ([put_first_breaks]). *)
From CSS Require Import Lib.Base Model.TPM Proofs.TPM Model.TPMPool.
From Coq Require Import ZifyBool ZifyNat.

(** * 1. Small facts *)

Lemma upd_same {A} (f : nat -> A) i x : upd f i x i = x.
Proof. unfold upd. rewrite Nat.eqb_refl. reflexivity. Qed.

Lemma upd_other {A} (f : nat -> A) i j x : j <> i -> upd f i x j = f j.
Proof. intros Hn. unfold upd. destruct (Nat.eqb j i) eqn:E; [apply Nat.eqb_eq in E; congruence|reflexivity]. Qed.

Lemma memn_In x l : memn x l = true <-> In x l.
Proof.
  induction l as [|y t IH]; cbn [memn In]; [split; [discriminate|tauto]|].
  rewrite orb_true_iff, IH, Nat.eqb_eq. split; intros [E|E]; auto.
Qed.

Lemma rmn_In x y l : In y (rmn x l) -> In y l.
Proof.
  induction l as [|z t IH]; cbn [rmn In]; [tauto|].
  destruct (Nat.eqb x z); cbn [In]; [auto|]. intros [E|E]; auto.
Qed.

Lemma rmn_NoDup x l : NoDup l -> NoDup (rmn x l).
Proof.
  induction 1 as [|z t Hz Ht IH]; cbn [rmn]; [constructor|].
  destruct (Nat.eqb x z); [assumption|]. constructor; [|assumption].
  intros Hin. apply Hz. eapply rmn_In; eassumption.
Qed.

Lemma rmn_notin x l : NoDup l -> ~ In x (rmn x l).
Proof.
  induction 1 as [|z t Hz Ht IH]; cbn [rmn]; [auto|].
  destruct (Nat.eqb x z) eqn:E.
  - apply Nat.eqb_eq in E. subst. assumption.
  - apply Nat.eqb_neq in E. cbn [In]. intros [F|F]; [congruence|auto].
Qed.

(** * 2. The invariant *)

(** the hasher an object holds *)
Definition holds (a : actor) : option nat :=
  match a_ph a with
  | Idle => None
  | Got h | WOld h | WDig h | Fin h _ | Rel h _ => Some h
  end.

(** object in the middle of an executable extend: its hasher holds [buf old d] *)
Definition ext_ok (heap : nat -> hasher) (a : actor) (hid : nat)
           (buf : list Z -> list Z -> list Z) : Prop :=
  exists p al d t old,
    a_todo a = Extend p al d :: t /\ acquires (Extend p al d) = true /\
    get (pcrs (a_obj a)) p al = Ok old /\ heap hid = mkHs al (buf old d).

Definition actor_ok (heap : nat -> hasher) (a : actor) : Prop :=
  match a_ph a with
  | Idle => True
  | Got hid => ext_ok heap a hid (fun _ _ => [])
  | WOld hid => ext_ok heap a hid (fun old _ => old)
  | WDig hid => ext_ok heap a hid (fun old d => old ++ d)
  | Fin hid _ => a_todo a <> []
  | Rel hid _ => a_todo a <> [] /\ h_buf (heap hid) = []
  end.

Record Inv (w : world) : Prop := mkInv {
  (* the pool holds a hasher at most once; pooled hashers exist and are RESET *)
  inv_nodup : NoDup (w_pool w);
  inv_pool : forall hid, In hid (w_pool w) -> (hid < w_next w)%nat /\ h_buf (w_heap w hid) = [];
  (* a hasher in use holds what its owner wrote, and nothing else *)
  inv_act : forall i, actor_ok (w_heap w) (w_act w i);
  (* a hasher in use is not in the pool ... *)
  inv_held : forall i hid, holds (w_act w i) = Some hid -> (hid < w_next w)%nat /\ ~ In hid (w_pool w);
  (* ... and has one owner *)
  inv_uniq : forall i j hid, holds (w_act w i) = Some hid -> holds (w_act w j) = Some hid -> i = j }.

Lemma actor_ok_frame heap heap' a :
  actor_ok heap a -> (forall hid, holds a = Some hid -> heap' hid = heap hid) -> actor_ok heap' a.
Proof.
  unfold actor_ok, holds, ext_ok. destruct (a_ph a) as [|h|h|h|h r|h r]; intros Hok Hf; auto;
    try (destruct Hok as (p & al & d & t & old & H1 & H2 & H3 & H4);
         exists p, al, d, t, old; rewrite (Hf h eq_refl); auto).
  destruct Hok as [H1 H2]. rewrite (Hf h eq_refl). auto.
Qed.

(** the shape of every micro-step: object [i] becomes [a'], the heap, the
    counter and the pool change in a way that respects the other objects *)
Lemma inv_update w i a' heap' next' pool' :
  Inv w ->
  NoDup pool' ->
  (forall hid, In hid pool' -> (hid < next')%nat /\ h_buf (heap' hid) = []) ->
  actor_ok heap' a' ->
  (forall hid, holds a' = Some hid ->
     (hid < next')%nat /\ ~ In hid pool' /\ forall j, j <> i -> holds (w_act w j) <> Some hid) ->
  (forall j hid, j <> i -> holds (w_act w j) = Some hid -> heap' hid = w_heap w hid /\ ~ In hid pool') ->
  (w_next w <= next')%nat ->
  Inv (mkWorld (upd (w_act w) i a') heap' next' pool').
Proof.
  intros [Hnd Hpool Hact Hheld Huniq] Hnd' Hpool' Hok' Hh' Hothers Hnext.
  constructor; cbn [w_act w_heap w_next w_pool]; auto.
  - intros j. destruct (Nat.eq_dec j i) as [->|Hn]; [rewrite upd_same; assumption|].
    rewrite upd_other by assumption. eapply actor_ok_frame; [apply Hact|].
    intros hid Hj. apply (Hothers j hid Hn Hj).
  - intros j hid. destruct (Nat.eq_dec j i) as [->|Hn].
    + rewrite upd_same. intros Hj. destruct (Hh' hid Hj) as (A & B & _). auto.
    + rewrite upd_other by assumption. intros Hj. split.
      * destruct (Hheld j hid Hj). lia.
      * apply (Hothers j hid Hn Hj).
  - intros j k hid. destruct (Nat.eq_dec j i) as [->|Hj], (Nat.eq_dec k i) as [->|Hk];
      rewrite ?upd_same, ?upd_other by assumption; auto.
    + intros A B. destruct (Hh' hid A) as (_ & _ & C). exfalso. apply (C k Hk B).
    + intros A B. destruct (Hh' hid B) as (_ & _ & C). exfalso. apply (C j Hj A).
    + apply Huniq.
Qed.

(** an object that keeps its hasher, whose buffer becomes [b] *)
Lemma inv_same_hasher w i a' hid b :
  Inv w ->
  holds (w_act w i) = Some hid ->
  holds a' = Some hid ->
  actor_ok (upd (w_heap w) hid (mkHs (h_alg (w_heap w hid)) b)) a' ->
  Inv (set_act (set_buf w hid b) i a').
Proof.
  intros HI Hi Ha Hok. unfold set_act, set_buf. cbn [w_act w_heap w_next w_pool].
  destruct (HI) as [Hnd Hpool Hact Hheld Huniq].
  apply inv_update; auto.
  - intros h Hin. destruct (Hpool h Hin) as [A B]. split; [assumption|].
    rewrite upd_other; [assumption|]. intros ->. apply (proj2 (Hheld i hid Hi)). assumption.
  - intros h Hh. rewrite Ha in Hh. inversion Hh; subst h. destruct (Hheld i hid Hi) as [A B].
    repeat split; auto. intros j Hn Hj. apply Hn. eapply Huniq; eassumption.
  - intros j h Hn Hj. split; [|apply (Hheld j h Hj)].
    apply upd_other. intros ->. apply Hn. eapply Huniq; eassumption.
Qed.

(** an object that keeps its hasher and does not touch it *)
Lemma inv_same_heap w i a' hid :
  Inv w ->
  holds (w_act w i) = Some hid ->
  holds a' = Some hid ->
  actor_ok (w_heap w) a' ->
  Inv (set_act w i a').
Proof.
  intros HI Hi Ha Hok. unfold set_act.
  destruct (HI) as [Hnd Hpool Hact Hheld Huniq].
  apply inv_update; auto.
  - intros h Hh. rewrite Ha in Hh. inversion Hh; subst h. destruct (Hheld i hid Hi) as [A B].
    repeat split; auto. intros j Hn Hj. apply Hn. eapply Huniq; eassumption.
  - intros j h Hn Hj. split; [reflexivity|apply (Hheld j h Hj)].
Qed.

Lemma hasher_eta h : h = mkHs (h_alg h) (h_buf h).
Proof. destruct h; reflexivity. Qed.

Section WithHash.
Variable H : Z -> list Z -> list Z.

Lemma mstep_other rf w i pk w' j :
  mstep H rf w i pk = Some w' -> j <> i -> w_act w' j = w_act w j.
Proof.
  intros Hs Hn. unfold mstep in Hs.
  destruct (a_ph (w_act w i)) as [|h|h|h|h r|h r]; destruct (a_todo (w_act w i)) as [|c t];
    try discriminate.
  - destruct (acquires c).
    + destruct c as [l|p al d|p al d ty data| |]; try discriminate.
      destruct (acquire w al pk) as [[hid w1]|] eqn:Ha; [|discriminate].
      inversion Hs; subst w'. cbn [set_act w_act]. rewrite upd_other by assumption.
      unfold acquire in Ha. destruct pk as [| |q]; try discriminate.
      * inversion Ha; reflexivity.
      * destruct (memn q (w_pool w) && (h_alg (w_heap w q) =? al)); inversion Ha; reflexivity.
    + destruct pk; try discriminate. destruct (step H (a_obj (w_act w i)) c) as [obj r].
      inversion Hs; subst w'. cbn [set_act w_act]. apply upd_other; assumption.
  - destruct c as [l|p al d|p al d ty data| |]; try discriminate.
    destruct (get (pcrs (a_obj (w_act w i))) p al); try discriminate.
    inversion Hs; subst w'. cbn [set_act set_buf w_act]. apply upd_other; assumption.
  - destruct c as [l|p al d|p al d ty data| |]; try discriminate.
    inversion Hs; subst w'. cbn [set_act set_buf w_act]. apply upd_other; assumption.
  - destruct c as [l|p al d|p al d ty data| |]; try discriminate.
    destruct (get (pcrs (a_obj (w_act w i))) p al) as [old|e| |]; try discriminate.
    destruct (Nat.eqb (length old) (hsize al)); inversion Hs; subst w';
      cbn [set_act w_act]; apply upd_other; assumption.
  - inversion Hs; subst w'. destruct rf; cbn [set_act set_buf put w_act]; apply upd_other; assumption.
  - inversion Hs; subst w'. destruct rf; cbn [set_act set_buf put w_act]; apply upd_other; assumption.
Qed.

(** * 3. The code as it is (Reset, then Put) preserves the invariant *)

Lemma inv_mstep w i pk w' :
  Inv w -> mstep H true w i pk = Some w' -> Inv w'.
Proof.
  intros HI Hs. pose proof HI as [Hnd Hpool Hact Hheld Huniq].
  pose proof (Hact i) as Hoki. pose proof (Hheld i) as Hheldi.
  unfold mstep in Hs. unfold actor_ok, ext_ok in Hoki. unfold holds in Hheldi.
  destruct (a_ph (w_act w i)) as [|h|h|h|h r|h r] eqn:Hph;
    destruct (a_todo (w_act w i)) as [|c t] eqn:Htodo; try discriminate.
  - (* Idle *)
    destruct (acquires c) eqn:Hacq.
    + destruct c as [l|p al d|p al d ty data| |]; try discriminate.
      destruct (acquire w al pk) as [[hid w1]|] eqn:Ha; [|discriminate].
      inversion Hs; subst w'; clear Hs.
      set (obj := log_cmd (a_obj (w_act w i)) (Extend p al d)).
      assert (Hholds_i : forall j, j <> i -> forall q, holds (w_act w j) = Some q -> (q < w_next w)%nat /\ ~ In q (w_pool w))
        by (intros j _ q Hq; apply (Hheld j q Hq)).
      (* what the acquired hasher looks like *)
      assert (Hacqd : exists heap' next' pool',
                 w1 = mkWorld (w_act w) heap' next' pool' /\
                 heap' hid = mkHs al [] /\ (hid < next')%nat /\ ~ In hid pool' /\ NoDup pool' /\
                 (w_next w <= next')%nat /\
                 (forall q, In q pool' -> (q < next')%nat /\ h_buf (heap' q) = []) /\
                 (forall j q, holds (w_act w j) = Some q -> q <> hid /\ heap' q = w_heap w q /\ ~ In q pool')).
      { unfold acquire in Ha. destruct pk as [| |q]; [discriminate| |].
        - inversion Ha; subst hid w1; clear Ha.
          exists (upd (w_heap w) (w_next w) (mkHs al [])), (S (w_next w)), (w_pool w).
          repeat split; auto.
          + apply upd_same.
          + intros Hin. destruct (Hpool _ Hin). lia.
          + destruct (Hpool q H0). lia.
          + rewrite upd_other; [apply (Hpool q H0)|]. destruct (Hpool q H0). lia.
          + destruct (Hheld j q H0). lia.
          + apply upd_other. destruct (Hheld j q H0). lia.
          + apply (Hheld j q H0).
        - destruct (memn q (w_pool w)) eqn:Hm; cbn [andb] in Ha; [|discriminate].
          destruct (h_alg (w_heap w q) =? al) eqn:Hal; [|discriminate].
          inversion Ha; subst hid w1; clear Ha.
          apply memn_In in Hm. destruct (Hpool q Hm) as [Hlt Hbuf].
          exists (w_heap w), (w_next w), (rmn q (w_pool w)).
          repeat split; auto.
          + rewrite (hasher_eta (w_heap w q)), Hbuf. f_equal. lia.
          + apply rmn_notin; assumption.
          + apply rmn_NoDup; assumption.
          + apply Hpool. eapply rmn_In; eassumption.
          + apply Hpool. eapply rmn_In; eassumption.
          + intros ->. apply (proj2 (Hheld j q H0)). assumption.
          + intros Hin. apply (proj2 (Hheld j q0 H0)). eapply rmn_In; eassumption. }
      destruct Hacqd as (heap' & next' & pool' & -> & Hh & Hlt & Hnin & Hnd' & Hle & Hpool' & Hoth).
      unfold set_act. cbn [w_act w_heap w_next w_pool].
      apply inv_update; auto.
      * (* the new phase is fine *)
        unfold actor_ok. cbn [a_ph a_todo a_obj].
        destruct (get (pcrs (a_obj (w_act w i))) p al) as [old|e| |] eqn:Hg; cbn [a_ph a_todo]; try discriminate.
        unfold ext_ok. cbn [a_todo a_obj]. exists p, al, d, t, old. repeat split; auto.
      * intros q Hq.
        assert (q = hid) as ->.
        { unfold holds in Hq. cbn [a_ph] in Hq.
          destruct (get (pcrs (a_obj (w_act w i))) p al); inversion Hq; reflexivity. }
        repeat split; auto. intros j _ Hj. destruct (Hoth j hid Hj) as [A _]. congruence.
      * intros j q _ Hj. destruct (Hoth j q Hj) as (_ & A & B). auto.
    + destruct pk; try discriminate. destruct (step H (a_obj (w_act w i)) c) as [obj r].
      inversion Hs; subst w'; clear Hs. unfold set_act.
      apply inv_update; auto.
      * intros q Hq. discriminate.
      * intros j q _ Hj. split; [reflexivity|apply (Hheld j q Hj)].
  - (* Got: write the old value *)
    destruct c as [l|p al d|p al d ty data| |]; try discriminate.
    destruct Hoki as (p0 & al0 & d0 & t0 & old & E1 & E2 & E3 & E4).
    inversion E1; subst p0 al0 d0 t0; clear E1. rewrite E3 in Hs.
    inversion Hs; subst w'; clear Hs.
    apply (inv_same_hasher w i _ h); auto.
    + unfold holds; rewrite Hph; reflexivity.
    + unfold actor_ok. cbn [a_ph]. exists p, al, d, t, old. cbn [a_todo a_obj].
      repeat split; auto. rewrite upd_same, E4. reflexivity.
  - (* WOld: write the digest *)
    destruct c as [l|p al d|p al d ty data| |]; try discriminate.
    destruct Hoki as (p0 & al0 & d0 & t0 & old & E1 & E2 & E3 & E4).
    inversion E1; subst p0 al0 d0 t0; clear E1.
    inversion Hs; subst w'; clear Hs.
    apply (inv_same_hasher w i _ h); auto.
    + unfold holds; rewrite Hph; reflexivity.
    + unfold actor_ok. cbn [a_ph]. exists p, al, d, t, old. cbn [a_todo a_obj].
      repeat split; auto. rewrite upd_same, E4. reflexivity.
  - (* WDig: sum *)
    destruct c as [l|p al d|p al d ty data| |]; try discriminate.
    destruct (get (pcrs (a_obj (w_act w i))) p al) as [old|e| |]; try discriminate.
    destruct (Nat.eqb (length old) (hsize al)); inversion Hs; subst w'; clear Hs;
      apply (inv_same_heap w i _ h); auto;
      try (unfold holds; rewrite Hph; reflexivity);
      unfold actor_ok; cbn [a_ph a_todo]; try rewrite Htodo; discriminate.
  - (* Fin: Reset *)
    inversion Hs; subst w'; clear Hs.
    apply (inv_same_hasher w i _ h); auto.
    + unfold holds; rewrite Hph; reflexivity.
    + unfold actor_ok. cbn [a_ph a_todo]. rewrite ?Htodo, upd_same. split; [discriminate|reflexivity].
  - (* Rel: Put *)
    inversion Hs; subst w'; clear Hs. unfold set_act, put. cbn [w_act w_heap w_next w_pool].
    destruct Hoki as [_ Hbuf]. destruct (Hheldi h eq_refl) as [Hlt Hnin].
    apply inv_update; auto.
    + constructor; assumption.
    + intros q [<-|Hin]; [auto|apply Hpool; assumption].
    + exact I.
    + intros q Hq. discriminate.
    + intros j q Hn Hj. split; [reflexivity|].
      intros [<-|Hin]; [|apply (proj2 (Hheld j q Hj)); assumption].
      apply Hn. apply (Huniq j i h); [assumption|]. unfold holds; rewrite Hph; reflexivity.
Qed.

(** * 4. Every object follows the value model on its own history *)

(** [a0]: the object when it was last seen between two commands; [a]: the
    object now.  It has completed a prefix [done] of its history, and its state
    is the value model's after [done] (in the middle of a command: the command
    is logged, and once Apply has returned also applied). *)
Definition prog (a0 a : actor) : Prop :=
  exists done,
    a_todo a0 = done ++ a_todo a /\
    a_res a = a_res a0 ++ results H (a_obj a0) done /\
    let st := run H (a_obj a0) done in
    match a_ph a with
    | Idle => a_obj a = st
    | Got _ | WOld _ | WDig _ => exists c t, a_todo a = c :: t /\ a_obj a = log_cmd st c
    | Fin _ r | Rel _ r => exists c t, a_todo a = c :: t /\ step H st c = (a_obj a, r)
    end.

Lemma prog_refl a : a_ph a = Idle -> prog a a.
Proof.
  intros Hi. exists []. cbn [app results run]. rewrite app_nil_r, Hi. auto.
Qed.

Lemma step_acquiring_fail st p al d r :
  acquires (Extend p al d) = true ->
  match get (pcrs st) p al with
  | Ok _ => False
  | Err e => r = Err e
  | Panic => r = Panic
  | OutOfFuel => r = OutOfFuel
  end ->
  step H st (Extend p al d) = (log_cmd st (Extend p al d), r).
Proof.
  unfold acquires. intros Ha Hg. cbn [step apply log_cmd pcrs].
  apply andb_true_iff in Ha. destruct Ha as [Ha Hh]. apply andb_true_iff in Ha. destruct Ha as [A B].
  replace ((al <? 0) || (POOL_SIZE <=? al)) with false by lia.
  rewrite Hh. cbn [negb].
  destruct (get (pcrs st) p al); [contradiction|subst; reflexivity..].
Qed.

Lemma step_acquiring_ok st p al d old :
  acquires (Extend p al d) = true ->
  get (pcrs st) p al = Ok old ->
  step H st (Extend p al d) =
  if Nat.eqb (length old) (hsize al)
  then (set_pcrs (log_cmd st (Extend p al d)) (set_bank (pcrs st) p al (H al (old ++ d))), Ok tt)
  else (log_cmd st (Extend p al d), Err ERR_BANK_LEN).
Proof.
  unfold acquires. intros Ha Hg. cbn [step apply log_cmd pcrs].
  apply andb_true_iff in Ha. destruct Ha as [Ha Hh]. apply andb_true_iff in Ha. destruct Ha as [A B].
  replace ((al <? 0) || (POOL_SIZE <=? al)) with false by lia.
  rewrite Hh. cbn [negb]. rewrite Hg. reflexivity.
Qed.

Lemma prog_mstep w i pk w' a0 :
  Inv w -> mstep H true w i pk = Some w' -> prog a0 (w_act w i) -> prog a0 (w_act w' i).
Proof.
  intros HI Hs (done & Htd & Hres & Hst).
  pose proof (inv_act w HI i) as Hoki. unfold actor_ok, ext_ok in Hoki.
  unfold mstep in Hs.
  destruct (a_ph (w_act w i)) as [|h|h|h|h r|h r] eqn:Hph;
    destruct (a_todo (w_act w i)) as [|c t] eqn:Htodo; try discriminate.
  - (* Idle *)
    destruct (acquires c) eqn:Hacq.
    + destruct c as [l|p al d|p al d ty data| |]; try discriminate.
      destruct (acquire w al pk) as [[hid w1]|] eqn:Ha; [|discriminate].
      inversion Hs; subst w'; clear Hs. cbn [set_act w_act]. rewrite upd_same.
      exists done. cbn [a_todo a_res a_ph a_obj]. repeat split; auto.
      rewrite Hst.
      destruct (get (pcrs (run H (a_obj a0) done)) p al) as [old|e| |] eqn:Hg.
      * exists (Extend p al d), t. auto.
      * exists (Extend p al d), t. split; [reflexivity|].
        apply step_acquiring_fail; [assumption|]. rewrite Hg. reflexivity.
      * exists (Extend p al d), t. split; [reflexivity|].
        apply step_acquiring_fail; [assumption|]. rewrite Hg. reflexivity.
      * exists (Extend p al d), t. split; [reflexivity|].
        apply step_acquiring_fail; [assumption|]. rewrite Hg. reflexivity.
    + destruct pk; try discriminate.
      destruct (step H (a_obj (w_act w i)) c) as [obj r] eqn:Hstep.
      inversion Hs; subst w'; clear Hs. cbn [set_act w_act]. rewrite upd_same.
      exists (done ++ [c]). cbn [a_todo a_res a_ph a_obj].
      rewrite <- app_assoc. cbn [app]. rewrite run_app, results_app. cbn [run results].
      rewrite <- Hst, Hstep. cbn [fst snd]. rewrite Hres, <- app_assoc. auto.
  - (* Got *)
    destruct c as [l|p al d|p al d ty data| |]; try discriminate.
    destruct (get (pcrs (a_obj (w_act w i))) p al); try discriminate.
    inversion Hs; subst w'; clear Hs. cbn [set_act set_buf w_act]. rewrite upd_same.
    exists done. cbn [a_todo a_res a_ph a_obj]. rewrite ?Htodo. auto.
  - (* WOld *)
    destruct c as [l|p al d|p al d ty data| |]; try discriminate.
    inversion Hs; subst w'; clear Hs. cbn [set_act set_buf w_act]. rewrite upd_same.
    exists done. cbn [a_todo a_res a_ph a_obj]. rewrite ?Htodo. auto.
  - (* WDig *)
    destruct c as [l|p al d|p al d ty data| |]; try discriminate.
    destruct Hoki as (p0 & al0 & d0 & t0 & old & E1 & E2 & E3 & E4).
    inversion E1; subst p0 al0 d0 t0; clear E1. rewrite E3 in Hs.
    destruct Hst as (c' & t' & E5 & E6). inversion E5; subst c' t'; clear E5.
    assert (Hg : get (pcrs (run H (a_obj a0) done)) p al = Ok old)
      by (rewrite E6 in E3; exact E3).
    pose proof (step_acquiring_ok (run H (a_obj a0) done) p al d old E2 Hg) as Hstep.
    destruct (Nat.eqb (length old) (hsize al)); inversion Hs; subst w'; clear Hs;
      cbn [set_act w_act]; rewrite upd_same; exists done; cbn [a_todo a_res a_ph a_obj];
      rewrite ?Htodo; repeat split; auto; exists (Extend p al d), t; split; auto.
    all: rewrite Hstep, ?E4, E6; reflexivity.
  - (* Fin *)
    inversion Hs; subst w'; clear Hs. cbn [set_act set_buf w_act]. rewrite upd_same.
    exists done. cbn [a_todo a_res a_ph a_obj]. rewrite ?Htodo. auto.
  - (* Rel *)
    inversion Hs; subst w'; clear Hs. cbn [set_act put w_act]. rewrite upd_same.
    destruct Hst as (c' & t' & E5 & E6). inversion E5; subst c' t'; clear E5.
    exists (done ++ [c]). cbn [a_todo a_res a_ph a_obj].
    rewrite <- app_assoc. cbn [app]. rewrite run_app, results_app. cbn [run results].
    rewrite E6. cbn [fst snd]. rewrite Hres, <- app_assoc. auto.
Qed.

(** under every schedule: the invariant is kept, and every object that was
    between two commands at the beginning follows its own history *)
Theorem pool_run w sched w' :
  Inv w -> mrun H true w sched = Some w' ->
  Inv w' /\ forall j, a_ph (w_act w j) = Idle -> prog (w_act w j) (w_act w' j).
Proof.
  revert w. induction sched as [|[i pk] t IH]; intros w HI Hr; cbn [mrun] in Hr.
  - inversion Hr; subst w'. split; [assumption|]. intros j Hj. apply prog_refl; assumption.
  - destruct (mstep H true w i pk) as [w1|] eqn:Hs; [|discriminate].
    assert (Hgen : forall w0, Inv w0 -> mrun H true w0 t = Some w' ->
                   forall a0 j, prog a0 (w_act w0 j) -> prog a0 (w_act w' j)).
    { clear -H. revert w'. induction t as [|[i pk] t IH]; intros w' w0 HI Hr a0 j Hp; cbn [mrun] in Hr.
      - inversion Hr; subst; assumption.
      - destruct (mstep H true w0 i pk) as [w1|] eqn:Hs; [|discriminate].
        apply (IH w' w1); [eapply inv_mstep; eassumption|assumption|].
        destruct (Nat.eq_dec j i) as [->|Hn].
        + eapply prog_mstep; eassumption.
        + rewrite (mstep_other _ _ _ _ _ j Hs Hn). assumption. }
    pose proof (inv_mstep w i pk w1 HI Hs) as HI1.
    destruct (IH w1 HI1 Hr) as [HI' _]. split; [assumption|].
    intros j Hj. apply (Hgen w1 HI1 Hr).
    destruct (Nat.eq_dec j i) as [->|Hn].
    + apply (prog_mstep w i pk w1 _ HI Hs). apply prog_refl; assumption.
    + rewrite (mstep_other _ _ _ _ _ j Hs Hn). apply prog_refl; assumption.
Qed.

(** the statement in plain words: whenever object [j] is between two commands,
    it has completed a prefix of its history, and its state and the results it
    returned are those of the value model run on that prefix alone *)
Theorem pool_independent w sched w' j :
  Inv w -> mrun H true w sched = Some w' ->
  a_ph (w_act w j) = Idle -> a_ph (w_act w' j) = Idle ->
  exists done,
    a_todo (w_act w j) = done ++ a_todo (w_act w' j) /\
    a_obj (w_act w' j) = run H (a_obj (w_act w j)) done /\
    a_res (w_act w' j) = a_res (w_act w j) ++ results H (a_obj (w_act w j)) done.
Proof.
  intros HI Hr Hj Hj'. destruct (pool_run w sched w' HI Hr) as [_ Hp].
  destruct (Hp j Hj) as (done & A & B & C). rewrite Hj' in C. exists done. auto.
Qed.

(** ... in particular when it has run its whole history *)
Corollary pool_independent_done w sched w' j :
  Inv w -> mrun H true w sched = Some w' ->
  a_ph (w_act w j) = Idle -> a_ph (w_act w' j) = Idle -> a_todo (w_act w' j) = [] ->
  a_obj (w_act w' j) = run H (a_obj (w_act w j)) (a_todo (w_act w j)) /\
  a_res (w_act w' j) = a_res (w_act w j) ++ results H (a_obj (w_act w j)) (a_todo (w_act w j)).
Proof.
  intros HI Hr Hj Hj' Ht. destruct (pool_independent w sched w' j HI Hr Hj Hj') as (done & A & B & C).
  rewrite Ht, app_nil_r in A. subst done. auto.
Qed.

(** a trace accepted by [replay] is a schedule of [mrun] *)
Lemma replay_mrun w tr w' :
  replay H w tr = Some w' ->
  mrun H true w (map (fun e => (ev_actor e, ev_pick e)) tr) = Some w'.
Proof.
  revert w. induction tr as [|e t IH]; intros w Hr; cbn [replay map mrun] in *; [assumption|].
  destruct (tag_ok (a_ph (w_act w (ev_actor e))) e); [|discriminate].
  destruct (mstep H true w (ev_actor e) (ev_pick e)) as [w1|]; [|discriminate].
  apply IH; assumption.
Qed.

End WithHash.

(** * 5. Initial worlds satisfy the invariant *)

Lemma inv_init acts hs :
  Forall (fun a => a_ph a = Idle) acts -> pool_reset hs = true -> Inv (init_world acts hs).
Proof.
  intros Hacts Hhs. unfold init_world.
  assert (Hidle : forall i, a_ph (nth i acts (idle_actor fresh [])) = Idle).
  { intros i. destruct (nth_in_or_default i acts (idle_actor fresh [])) as [Hin| ->]; [|reflexivity].
    rewrite Forall_forall in Hacts. apply Hacts; assumption. }
  constructor; cbn [w_act w_heap w_next w_pool].
  - apply seq_NoDup.
  - intros hid Hin. apply in_seq in Hin. split; [lia|].
    unfold pool_reset in Hhs. rewrite forallb_forall in Hhs.
    assert (Hn : In (nth hid hs (mkHs 0 [])) hs) by (apply nth_In; lia).
    specialize (Hhs _ Hn). destruct (h_buf (nth hid hs (mkHs 0 []))); [reflexivity|discriminate].
  - intros i. unfold actor_ok. rewrite Hidle. exact I.
  - intros i hid. unfold holds. rewrite Hidle. discriminate.
  - intros i j hid. unfold holds. rewrite Hidle. discriminate.
Qed.

(** * 6. The order of the two statements of releaseHasher matters *)

(** a "hash" that shows the length of its input *)
Definition Hlen : Z -> list Z -> list Z := fun a x => repeat (Z.of_nat (length x)) (hsize a).

Definition two_objects : list actor :=
  [idle_actor fresh [Startup 0; Extend 0 4 [1]]; idle_actor fresh [Startup 0; Extend 0 4 [2]]].

(** object 0 extends completely up to the Put of its hasher; object 1 is handed
    that hasher and writes its old PCR value; object 0 executes the late Reset;
    object 1 writes the digest and sums *)
Definition late_reset_schedule : list (nat * pick) :=
  [(0, PNone); (1, PNone);
   (0, PFresh); (0, PNone); (0, PNone); (0, PNone); (0, PNone);
   (1, PPooled 0); (1, PNone);
   (0, PNone);
   (1, PNone); (1, PNone); (1, PNone); (1, PNone)]%nat.

Lemma put_first_breaks :
  exists w',
    mrun Hlen false (init_world two_objects []) late_reset_schedule = Some w' /\
    a_ph (w_act w' 1%nat) = Idle /\ a_todo (w_act w' 1%nat) = [] /\
    a_res (w_act w' 1%nat) = [Ok tt; Ok tt] /\
    get (pcrs (a_obj (w_act w' 1%nat))) 0 4 = Ok (repeat 1 20) /\
    get (pcrs (run Hlen fresh [Startup 0; Extend 0 4 [2]])) 0 4 = Ok (repeat 21 20).
Proof.
  destruct (mrun Hlen false (init_world two_objects []) late_reset_schedule) as [w'|] eqn:E;
    [|vm_compute in E; discriminate].
  exists w'. split; [reflexivity|].
  vm_compute in E. inversion E; subst w'. vm_compute. repeat split; reflexivity.
Qed.

(** the same schedule prefix is not even possible with the code as it is: the
    hasher is not in the pool before it was reset *)
Lemma reset_first_no_early_get :
  mrun Hlen true (init_world two_objects []) (firstn 8 late_reset_schedule) = None.
Proof. vm_compute. reflexivity. Qed.
