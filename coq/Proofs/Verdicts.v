(** Proofs about Model/Verdicts.v (property C05). *)
From CSS Require Import Lib.Base Model.Verdicts.
From Coq Require Import ZifyBool.

Local Open Scope Z_scope.

(** * Arithmetic helpers *)

Lemma wrap32_small z : 0 <= z < W32 -> wrap32 z = z.
Proof. intros. rewrite wrap32_mod. apply Z.mod_small. assumption. Qed.

Lemma wrap32_over z : W32 <= z < 2 * W32 -> wrap32 z = z - W32.
Proof.
  intros. rewrite wrap32_mod. unfold W32 in *.
  replace z with ((z - 4294967296) + 1 * 4294967296) at 1 by lia.
  rewrite Z.mod_add by lia. apply Z.mod_small. lia.
Qed.

Lemma wrap32_under z : - W32 <= z < 0 -> wrap32 z = z + W32.
Proof.
  intros. rewrite wrap32_mod. unfold W32 in *.
  replace z with ((z + 4294967296) + (-1) * 4294967296) at 1 by lia.
  rewrite Z.mod_add by lia. apply Z.mod_small. lia.
Qed.

Lemma wrap64_small z : 0 <= z < W64 -> wrap64 z = z.
Proof. intros. rewrite wrap64_mod. apply Z.mod_small. assumption. Qed.

Lemma wrap16_small z : 0 <= z < W16 -> wrap16 z = z.
Proof. intros. rewrite wrap16_mod. apply Z.mod_small. assumption. Qed.

Lemma wrap32_range z : 0 <= wrap32 z < W32.
Proof. rewrite wrap32_mod. apply Z.mod_pos_bound. reflexivity. Qed.

Lemma bits_ones_range w lo k : 0 <= k -> 0 <= bits w lo (Z.ones k) < 2 ^ k.
Proof.
  intros. unfold bits. rewrite Z.land_ones by assumption. apply Z.mod_pos_bound.
  apply Z.pow_pos_nonneg; lia.
Qed.

Lemma wrap64_over z : W64 <= z < 2 * W64 -> wrap64 z = z - W64.
Proof.
  intros. rewrite wrap64_mod. unfold W64 in *.
  replace z with ((z - 18446744073709551616) + 1 * 18446744073709551616) at 1 by lia.
  rewrite Z.mod_add by lia. apply Z.mod_small. lia.
Qed.

(** * 1. FIT *)

(** half-open intervals [a, a+s) on unbounded integers *)
Definition overlapZ (a1 s1 a2 s2 : Z) : Prop :=
  exists x, a1 <= x < a1 + s1 /\ a2 <= x < a2 + s2.
Definition containsZ (a s lo hi : Z) : Prop := a <= lo /\ hi <= a + s.

(** fields in the range of their Go types: uint64 address, 24-bit size *)
Definition fent_typed (e : fent) : Prop := 0 <= fa e < W64 /\ 0 <= fs e < 16777216.
(** the range of a BIOS startup module stays inside the 64-bit address space *)
Definition ibb_iv_ok (e : fent) : Prop := 0 <= fa e /\ 0 <= fs e /\ fa e + fs e * 16 < W64.
Definition all_iv_ok (l : list fent) : Prop := forall e, In e l -> ibb_iv_ok e.

(** ** getFITDataSize *)

Lemma acm_raw_size_range mem e s : acm_raw_size mem e = Ok s -> 0 <= s < W32.
Proof.
  unfold acm_raw_size. destruct (_ || _); [discriminate|].
  destruct (mem_lookup _ mem); [|discriminate]. intros [= <-]. apply wrap32_range.
Qed.

(** a size that [getFITDataSize] hands out is non-negative and keeps the range below 2^64 *)
Lemma dsz_ok_inv mem e s : fent_typed e -> dsz mem e = Ok s ->
  0 <= s /\ fa e + s < W64 /\ (ft e <> T_SACM -> s = fs e * 16).
Proof.
  intros (A & S) H. unfold dsz in H.
  assert (K : forall r, 0 <= r < W64 ->
            (if wrap64 (fa e + r) <? fa e then Err 3 else Ok r) = Ok s -> 0 <= s /\ fa e + s < W64 /\ r = s).
  { intros r Hr H1. destruct (Z_lt_le_dec (fa e + r) W64) as [L|L].
    - rewrite wrap64_small in H1 by lia. destruct (fa e + r <? fa e); [discriminate|]. injection H1 as <-. lia.
    - rewrite wrap64_over in H1 by (unfold W64 in *; lia).
      replace (fa e + r - W64 <? fa e) with true in H1 by (unfold W64 in *; lia). discriminate. }
  destruct (ft e =? T_SACM) eqn:Et.
  - destruct (acm_raw_size mem e) as [r| | |] eqn:Er; cbn [bind] in H; try discriminate.
    apply acm_raw_size_range in Er.
    destruct (K r ltac:(unfold W32, W64 in *; lia) H) as (K1 & K2 & _). repeat split; try assumption. intros; lia.
  - cbn [bind] in H. destruct (K (fs e * 16) ltac:(unfold W64; lia) H) as (K1 & K2 & K3).
    repeat split; try assumption. intros _. lia.
Qed.

Lemma dsz_ibb mem e : ft e = T_IBB -> fent_typed e ->
  (fa e + fs e * 16 < W64 -> dsz mem e = Ok (fs e * 16)) /\
  (W64 <= fa e + fs e * 16 -> dsz mem e = Err 3).
Proof.
  intros T (A & S). unfold dsz. rewrite T. change (T_IBB =? T_SACM) with false. cbn [bind]. split; intros H.
  - rewrite wrap64_small by lia. replace (fa e + fs e * 16 <? fa e) with false by lia. reflexivity.
  - rewrite wrap64_over by (unfold W64 in *; lia).
    replace (fa e + fs e * 16 - W64 <? fa e) with true by (unfold W64 in *; lia). reflexivity.
Qed.

(** neither a panic nor an endless loop: every outcome is a value or an error *)
Definition benign {A} (o : outcome A) : Prop :=
  match o with Ok _ | Err _ => True | _ => False end.

Lemma dsz_benign mem e : benign (dsz mem e).
Proof.
  unfold dsz, acm_raw_size.
  destruct (ft e =? T_SACM); cbn [bind].
  - destruct (_ || _); cbn [bind]; [exact I|].
    destruct (mem_lookup _ mem); cbn [bind]; [|exact I].
    destruct (_ <? _); exact I.
  - destruct (_ <? _); exact I.
Qed.

Section FITProofs.
Variable dsz0 : fent -> outcome Z.
Variable t2 : Z.
Hypothesis dsz0_benign : forall e, benign (dsz0 e).
(** what an [Ok] of the size function guarantees (instantiated with [dsz_ok_inv]) *)
Hypothesis dsz0_inv : forall e s, fent_typed e -> dsz0 e = Ok s -> 0 <= s /\ fa e + s < W64.

Lemma overlap_test_benign e1 e2 : benign (overlap_test dsz0 e1 e2).
Proof.
  unfold overlap_test. pose proof (dsz0_benign e1) as B1. pose proof (dsz0_benign e2) as B2.
  destruct (dsz0 e1); cbn [bind benign] in *; try exact B1.
  destruct (dsz0 e2); cbn [bind benign] in *; try exact B2; try exact I.
Qed.

Lemma overlap_test_false e1 e2 : fent_typed e1 -> fent_typed e2 ->
  overlap_test dsz0 e1 e2 = Ok false ->
  exists s1 s2, dsz0 e1 = Ok s1 /\ dsz0 e2 = Ok s2 /\ ~ overlapZ (fa e1) s1 (fa e2) s2.
Proof.
  unfold overlap_test. intros T1 T2 H.
  destruct (dsz0 e1) as [s1| | |] eqn:E1; cbn [bind] in H; try discriminate.
  destruct (dsz0 e2) as [s2| | |] eqn:E2; cbn [bind] in H; try discriminate.
  exists s1, s2. split; [reflexivity|]. split; [reflexivity|].
  destruct (dsz0_inv _ _ T1 E1) as (S1 & W1). destruct (dsz0_inv _ _ T2 E2) as (S2 & W2).
  destruct T1 as ((A1 & _) & _). destruct T2 as ((A2 & _) & _).
  unfold end64 in H. rewrite !wrap64_small in H by lia. injection H as H.
  intros (x & Hx1 & Hx2).
  destruct (fa e1 >=? fa e2 + s2) eqn:Ea; destruct (fa e2 >=? fa e1 + s1) eqn:Eb; cbn in H; try discriminate; lia.
Qed.

(** conversely, for non-empty ranges (an empty range strictly inside another one is reported) *)
Lemma overlap_test_complete e1 e2 s1 s2 : fent_typed e1 -> fent_typed e2 ->
  dsz0 e1 = Ok s1 -> dsz0 e2 = Ok s2 -> 0 < s1 -> 0 < s2 ->
  ~ overlapZ (fa e1) s1 (fa e2) s2 -> overlap_test dsz0 e1 e2 = Ok false.
Proof.
  intros T1 T2 E1 E2 P1 P2 H. unfold overlap_test. rewrite E1, E2. cbn [bind].
  destruct (dsz0_inv _ _ T1 E1) as (S1 & W1). destruct (dsz0_inv _ _ T2 E2) as (S2 & W2).
  destruct T1 as ((A1 & _) & _). destruct T2 as ((A2 & _) & _).
  unfold end64. rewrite !wrap64_small by lia. f_equal.
  destruct (fa e1 >=? fa e2 + s2) eqn:Ea; [reflexivity|].
  destruct (fa e2 >=? fa e1 + s1) eqn:Eb; [reflexivity|].
  exfalso. apply H. unfold overlapZ.
  destruct (Z_le_gt_dec (fa e1) (fa e2)).
  - exists (fa e2). lia.
  - exists (fa e1). lia.
Qed.

Lemma inner_benign h tl : benign (inner dsz0 t2 h tl).
Proof.
  induction tl as [|x tl IH]; cbn [inner]; [exact I|].
  destruct (ft x =? t2); [|exact IH].
  pose proof (overlap_test_benign h x) as B.
  destruct (overlap_test dsz0 h x) as [[|]| | |]; cbn [bind benign] in *; try exact B; try exact I. exact IH.
Qed.

Lemma inner_sound h tl : inner dsz0 t2 h tl = Ok false ->
  forall e, In e tl -> ft e = t2 -> overlap_test dsz0 h e = Ok false.
Proof.
  induction tl as [|x tl IH]; intros H e He Te; [destruct He|].
  cbn [inner] in H. destruct (ft x =? t2) eqn:Ex.
  - destruct (overlap_test dsz0 h x) as [[|]| | |] eqn:Ho; cbn [bind] in H; try discriminate.
    destruct He as [<-|He]; [assumption|]. apply IH; assumption.
  - destruct He as [<-|He]; [lia|]. apply IH; assumption.
Qed.

Lemma inner_complete h tl :
  (forall e, In e tl -> ft e = t2 -> overlap_test dsz0 h e = Ok false) ->
  inner dsz0 t2 h tl = Ok false.
Proof.
  induction tl as [|x tl IH]; intros H; cbn [inner]; [reflexivity|].
  destruct (ft x =? t2) eqn:Ex.
  - apply Z.eqb_eq in Ex. rewrite (H x (or_introl eq_refl) Ex). cbn [bind].
    apply IH. intros e He. apply H. right. exact He.
  - apply IH. intros e He. apply H. right. exact He.
Qed.

Lemma pairs_benign l : benign (pairs_check dsz0 t2 l).
Proof.
  induction l as [|h tl IH]; cbn [pairs_check]; [exact I|].
  destruct (ft h =? T_IBB); [|exact IH].
  pose proof (inner_benign h tl) as B.
  destruct (inner dsz0 t2 h tl) as [[|]| | |]; cbn [bind benign] in *; try exact B; try exact I. exact IH.
Qed.

Lemma pairs_sound l : pairs_check dsz0 t2 l = Ok false ->
  forall l1 e1 l2 e2 l3, l = l1 ++ e1 :: l2 ++ e2 :: l3 ->
    ft e1 = T_IBB -> ft e2 = t2 -> overlap_test dsz0 e1 e2 = Ok false.
Proof.
  induction l as [|h tl IH]; intros H l1 e1 l2 e2 l3 E T1 T2.
  - destruct l1; discriminate.
  - cbn [pairs_check] in H. destruct l1 as [|y l1]; cbn [app] in E; injection E as -> ->.
    + rewrite (proj2 (Z.eqb_eq _ _) T1) in H.
      destruct (inner dsz0 t2 e1 (l2 ++ e2 :: l3)) as [[|]| | |] eqn:Hi; cbn [bind] in H; try discriminate.
      eapply inner_sound; eauto. apply in_or_app. right. left. reflexivity.
    + destruct (ft y =? T_IBB) eqn:Ey.
      * destruct (inner dsz0 t2 y (l1 ++ e1 :: l2 ++ e2 :: l3)) as [[|]| | |] eqn:Hi; cbn [bind] in H; try discriminate.
        eapply IH; eauto.
      * eapply IH; eauto.
Qed.

Lemma pairs_complete l :
  (forall l1 e1 l2 e2 l3, l = l1 ++ e1 :: l2 ++ e2 :: l3 ->
     ft e1 = T_IBB -> ft e2 = t2 -> overlap_test dsz0 e1 e2 = Ok false) ->
  pairs_check dsz0 t2 l = Ok false.
Proof.
  induction l as [|h tl IH]; intros H; cbn [pairs_check]; [reflexivity|].
  assert (Htl : pairs_check dsz0 t2 tl = Ok false).
  { apply IH. intros l1 e1 l2 e2 l3 E. apply (H (h :: l1) e1 l2 e2 l3). cbn [app]. rewrite E. reflexivity. }
  destruct (ft h =? T_IBB) eqn:Eh; [|exact Htl].
  apply Z.eqb_eq in Eh. rewrite (inner_complete h tl).
  - cbn [bind]. exact Htl.
  - intros e He Te. destruct (in_split _ _ He) as (l2 & l3 & ->).
    apply (H [] h l2 e l3); [reflexivity|assumption|assumption].
Qed.

Lemma pairs_all_benign full l : benign (pairs_all dsz0 t2 full l).
Proof.
  induction l as [|h tl IH]; cbn [pairs_all]; [exact I|].
  destruct (ft h =? T_IBB); [|exact IH].
  pose proof (inner_benign h full) as B.
  destruct (inner dsz0 t2 h full) as [[|]| | |]; cbn [bind benign] in *; try exact B; try exact I. exact IH.
Qed.

Lemma pairs_all_sound full l : pairs_all dsz0 t2 full l = Ok false ->
  forall h e, In h l -> In e full -> ft h = T_IBB -> ft e = t2 -> overlap_test dsz0 h e = Ok false.
Proof.
  induction l as [|x tl IH]; intros H h e Hh He Th Te; [destruct Hh|].
  cbn [pairs_all] in H. destruct (ft x =? T_IBB) eqn:Ex.
  - destruct (inner dsz0 t2 x full) as [[|]| | |] eqn:Hi; cbn [bind] in H; try discriminate.
    destruct Hh as [<-|Hh].
    + eapply inner_sound; eauto.
    + eapply IH; eauto.
  - destruct Hh as [<-|Hh]; [lia|]. eapply IH; eauto.
Qed.

Lemma pairs_all_complete full l :
  (forall h e, In h l -> In e full -> ft h = T_IBB -> ft e = t2 -> overlap_test dsz0 h e = Ok false) ->
  pairs_all dsz0 t2 full l = Ok false.
Proof.
  induction l as [|x tl IH]; intros H; cbn [pairs_all]; [reflexivity|].
  assert (Htl : pairs_all dsz0 t2 full tl = Ok false).
  { apply IH. intros h e Hh. apply H. right. exact Hh. }
  destruct (ft x =? T_IBB) eqn:Ex; [|exact Htl].
  apply Z.eqb_eq in Ex. rewrite (inner_complete x full).
  - cbn [bind]. exact Htl.
  - intros e He Te. apply H; try assumption. left. reflexivity.
Qed.

Lemma covers_benign lo hi l : benign (covers dsz0 lo hi l).
Proof.
  induction l as [|e tl IH]; cbn [covers]; [exact I|].
  destruct (ft e =? T_IBB); [|exact IH].
  pose proof (dsz0_benign e) as B.
  destruct (dsz0 e); cbn [bind benign] in *; try exact B.
  destruct (_ && _); [exact I|exact IH].
Qed.

Lemma acm_above_benign l : benign (acm_above_4g dsz0 l).
Proof.
  induction l as [|e tl IH]; cbn [acm_above_4g]; [exact I|].
  destruct (ft e =? T_SACM); [|exact IH].
  pose proof (dsz0_benign e) as B.
  destruct (dsz0 e); cbn [bind benign] in *; try exact B.
  destruct (_ >? _); [exact I|exact IH].
Qed.
End FITProofs.

Lemma verd_of_found_pass o : verd_of_found o = pass <-> o = Ok false.
Proof. unfold verd_of_found, pass, fail, ierr; destruct o as [[|]| | |]; split; intros; congruence. Qed.

Lemma verd_of_found_benign o : benign o -> verd_of_found o <> VPanic.
Proof. unfold verd_of_found, pass, fail, ierr; destruct o as [[|]| | |]; cbn; intros; try congruence; contradiction. Qed.

Lemma verd_of_covers_pass o : verd_of_covers o = pass <-> o = Ok true.
Proof. unfold verd_of_covers, pass, fail, ierr; destruct o as [[|]| | |]; split; intros; congruence. Qed.

Lemma verd_of_covers_benign o : benign o -> verd_of_covers o <> VPanic.
Proof. unfold verd_of_covers, pass, fail, ierr; destruct o as [[|]| | |]; cbn; intros; try congruence; contradiction. Qed.

(** the instance used throughout: the size function of the code over typed entries *)
Definition typed_table (l : list fent) : Prop := forall e, In e l -> fent_typed e.

Lemma dsz_inv2 mem : forall e s, fent_typed e -> dsz mem e = Ok s -> 0 <= s /\ fa e + s < W64.
Proof. intros e s T H. destruct (dsz_ok_inv mem e s T H) as (A & B & _). split; assumption. Qed.

(** ** NoIBBOverlap *)

(** never a panic; a verdict (pass / fail) whenever no range leaves the address space *)
Theorem NoIBBOverlap_total : forall mem l,
  no_ibb_overlap (dsz mem) l <> VPanic.
Proof.
  intros. apply verd_of_found_benign. apply pairs_benign. apply dsz_benign.
Qed.

(** SOUND for every table: a pass means that no two BIOS startup modules share a byte. *)
Theorem NoIBBOverlap_sound : forall mem l, typed_table l ->
  no_ibb_overlap (dsz mem) l = pass ->
  forall l1 e1 l2 e2 l3, l = l1 ++ e1 :: l2 ++ e2 :: l3 ->
    ft e1 = T_IBB -> ft e2 = T_IBB ->
    ~ overlapZ (fa e1) (fs e1 * 16) (fa e2) (fs e2 * 16).
Proof.
  intros mem l Hty H l1 e1 l2 e2 l3 E T1 T2.
  apply verd_of_found_pass in H.
  assert (I1 : In e1 l) by (subst l; apply in_or_app; right; left; reflexivity).
  assert (I2 : In e2 l) by (subst l; apply in_or_app; right; right; apply in_or_app; right; left; reflexivity).
  pose proof (pairs_sound (dsz mem) T_IBB l H l1 e1 l2 e2 l3 E T1 T2) as Ho.
  destruct (overlap_test_false (dsz mem) (dsz_inv2 mem) e1 e2 (Hty _ I1) (Hty _ I2) Ho) as (s1 & s2 & D1 & D2 & N).
  destruct (dsz_ok_inv mem e1 s1 (Hty _ I1) D1) as (_ & _ & K1).
  destruct (dsz_ok_inv mem e2 s2 (Hty _ I2) D2) as (_ & _ & K2).
  rewrite <- K1, <- K2; [exact N| |]; rewrite ?T1, ?T2; unfold T_IBB, T_SACM; lia.
Qed.

(** EXACT on every table whose BIOS startup modules are non-empty and stay inside the
    address space: touching modules (end of one = start of the next) are disjoint. *)
Theorem NoIBBOverlap_exact_partial : forall mem l, typed_table l ->
  (forall e, In e l -> ft e = T_IBB -> 0 < fs e /\ fa e + fs e * 16 < W64) ->
  (no_ibb_overlap (dsz mem) l = pass <->
   forall l1 e1 l2 e2 l3, l = l1 ++ e1 :: l2 ++ e2 :: l3 -> ft e1 = T_IBB -> ft e2 = T_IBB ->
     ~ overlapZ (fa e1) (fs e1 * 16) (fa e2) (fs e2 * 16)).
Proof.
  intros mem l Hty Hne. split.
  - intros H. exact (NoIBBOverlap_sound mem l Hty H).
  - intros H. apply verd_of_found_pass. apply pairs_complete.
    intros l1 e1 l2 e2 l3 E T1 T2.
    assert (I1 : In e1 l) by (subst l; apply in_or_app; right; left; reflexivity).
    assert (I2 : In e2 l) by (subst l; apply in_or_app; right; right; apply in_or_app; right; left; reflexivity).
    destruct (Hne _ I1 T1) as (P1 & W1). destruct (Hne _ I2 T2) as (P2 & W2).
    apply (overlap_test_complete (dsz mem) (dsz_inv2 mem) e1 e2 (fs e1 * 16) (fs e2 * 16));
      [exact (Hty _ I1)|exact (Hty _ I2)|apply (dsz_ibb mem e1 T1 (Hty _ I1)); exact W1|
       apply (dsz_ibb mem e2 T2 (Hty _ I2)); exact W2|lia|lia|exact (H l1 e1 l2 e2 l3 E T1 T2)].
Qed.

(** the usual FIT layout: two modules back to back, [FFF00000,FFF80000) and [FFF80000,4G) *)
Definition fit_adjacent : list fent :=
  [(7, 4293918720, 32768, 256); (7, 4294443008, 32768, 256)].

Theorem NoIBBOverlap_adjacent_accepted : forall mem, no_ibb_overlap (dsz mem) fit_adjacent = pass.
Proof. intros. vm_compute. reflexivity. Qed.

(** nested modules whose ranges leave the 64-bit address space: no pass *)
Theorem NoIBBOverlap_wrap64_rejected : forall mem,
  no_ibb_overlap (dsz mem) [(7, 18446744073709551584, 4, 256); (7, 18446744073709551600, 1, 256)] = ierr.
Proof. intros. vm_compute. reflexivity. Qed.

(** ** NoBIOSACMOverlap *)

Theorem NoBIOSACMOverlap_total : forall mem l, no_acm_overlap (dsz mem) l <> VPanic.
Proof.
  intros. apply verd_of_found_benign. apply pairs_all_benign. apply dsz_benign.
Qed.

(** SOUND for every table and every order of the entries: a pass means that the size of every
    startup ACM could be read and no ACM shares a byte with a BIOS startup module (there must be
    a BIOS startup module for the ACM sizes to be looked at). *)
Theorem NoBIOSACMOverlap_sound : forall mem l, typed_table l ->
  no_acm_overlap (dsz mem) l = pass ->
  forall ibb acm, In ibb l -> In acm l -> ft ibb = T_IBB -> ft acm = T_SACM ->
    exists s, dsz mem acm = Ok s /\ ~ overlapZ (fa ibb) (fs ibb * 16) (fa acm) s.
Proof.
  intros mem l Hty H ibb acm I1 I2 T1 T2.
  apply verd_of_found_pass in H.
  pose proof (pairs_all_sound (dsz mem) T_SACM l l H ibb acm I1 I2 T1 T2) as Ho.
  destruct (overlap_test_false (dsz mem) (dsz_inv2 mem) ibb acm (Hty _ I1) (Hty _ I2) Ho) as (s1 & s2 & D1 & D2 & N).
  destruct (dsz_ok_inv mem ibb s1 (Hty _ I1) D1) as (_ & _ & K1).
  exists s2. split; [exact D2|]. rewrite <- K1; [exact N|]. rewrite T1. unfold T_IBB, T_SACM. lia.
Qed.

(** EXACT when the ranges are non-empty, inside the address space and every ACM header is readable *)
Theorem NoBIOSACMOverlap_exact_partial : forall mem l, typed_table l ->
  (forall e, In e l -> ft e = T_IBB -> 0 < fs e /\ fa e + fs e * 16 < W64) ->
  (forall e, In e l -> ft e = T_SACM -> exists s, dsz mem e = Ok s /\ 0 < s) ->
  (no_acm_overlap (dsz mem) l = pass <->
   forall ibb acm s, In ibb l -> In acm l -> ft ibb = T_IBB -> ft acm = T_SACM -> dsz mem acm = Ok s ->
     ~ overlapZ (fa ibb) (fs ibb * 16) (fa acm) s).
Proof.
  intros mem l Hty Hne Hrd. split.
  - intros H ibb acm s I1 I2 T1 T2 D.
    destruct (NoBIOSACMOverlap_sound mem l Hty H ibb acm I1 I2 T1 T2) as (s' & D' & N).
    rewrite D in D'. injection D' as <-. exact N.
  - intros H. apply verd_of_found_pass. apply pairs_all_complete.
    intros h e I1 I2 T1 T2.
    destruct (Hne _ I1 T1) as (P1 & W1). destruct (Hrd _ I2 T2) as (s & D & P2).
    apply (overlap_test_complete (dsz mem) (dsz_inv2 mem) h e (fs h * 16) s);
      [exact (Hty _ I1)|exact (Hty _ I2)|apply (dsz_ibb mem h T1 (Hty _ I1)); exact W1|exact D|lia|exact P2|
       exact (H h e s I1 I2 T1 T2 D)].
Qed.

(** the ACM listed BEFORE the module that contains it is found *)
Theorem NoBIOSACMOverlap_order_rejected :
  no_acm_overlap (dsz [(4293984280, 16384)]) [(2, 4293984256, 0, 256); (7, 4293918720, 65536, 256)] = fail.
Proof. vm_compute. reflexivity. Qed.

(** the healthy FIT (an IBB, a disjoint ACM below 4 GiB) is accepted by both ACM checks *)
Theorem ACMChecks_healthy_accepted :
  let mem := [(4292870168, 16384)] in
  let l := [(7, 4293918720, 65536, 256); (2, 4292870144, 0, 256)] in
  no_acm_overlap (dsz mem) l = pass /\ acm_below_4g (dsz mem) l = pass /\
  dsz mem (2, 4292870144, 0, 256) = Ok 65536.
Proof. vm_compute. repeat split; reflexivity. Qed.

(** ** BIOSACMIsBelow4G: exact for every table *)
Theorem BIOSACMIsBelow4G_exact : forall mem l, typed_table l ->
  (acm_below_4g (dsz mem) l = pass <->
   forall e, In e l -> ft e = T_SACM -> exists s, dsz mem e = Ok s /\ fa e + s <= FOUR_GIB).
Proof.
  intros mem l. unfold acm_below_4g. induction l as [|e tl IH]; intros Hty.
  - cbn. split; [intros _ e []|reflexivity].
  - assert (IH' := IH (fun x Hx => Hty x (or_intror Hx))). clear IH.
    cbn [acm_above_4g]. destruct (ft e =? T_SACM) eqn:Ee.
    + destruct (dsz mem e) as [s| | |] eqn:D; cbn [bind].
      * destruct (dsz_ok_inv mem e s (Hty e (or_introl eq_refl)) D) as (S & W & _).
        destruct (Hty e (or_introl eq_refl)) as ((A & _) & _).
        unfold end64. rewrite wrap64_small by lia.
        destruct (fa e + s >? FOUR_GIB) eqn:Eg.
        -- cbn [verd_of_found]. unfold pass, fail. split; [discriminate|]. intros H.
           apply Z.eqb_eq in Ee. destruct (H e (or_introl eq_refl) Ee) as (s' & D' & L).
           rewrite D in D'. injection D' as <-. lia.
        -- rewrite IH'. split.
           ++ intros H x [<-|Hx] Tx; [exists s; split; [assumption|lia]|auto].
           ++ intros H x Hx Tx. apply H; [right; assumption|assumption].
      * cbn [verd_of_found]. unfold pass, ierr. split; [discriminate|]. intros H.
        apply Z.eqb_eq in Ee. destruct (H e (or_introl eq_refl) Ee) as (s' & D' & _). rewrite D in D'. discriminate.
      * cbn [verd_of_found]. unfold pass. split; [discriminate|]. intros H.
        apply Z.eqb_eq in Ee. destruct (H e (or_introl eq_refl) Ee) as (s' & D' & _). rewrite D in D'. discriminate.
      * cbn [verd_of_found]. unfold pass. split; [discriminate|]. intros H.
        apply Z.eqb_eq in Ee. destruct (H e (or_introl eq_refl) Ee) as (s' & D' & _). rewrite D in D'. discriminate.
    + rewrite IH'. split.
      * intros H x [<-|Hx] Tx; [lia|auto].
      * intros H x Hx Tx. apply H; [right; assumption|assumption].
Qed.

Theorem BIOSACMIsBelow4G_total : forall mem l, acm_below_4g (dsz mem) l <> VPanic.
Proof. intros. apply verd_of_found_benign. apply acm_above_benign. apply dsz_benign. Qed.

(** ** IBBCovers* *)

(** SOUND for every table: [covers] finds a module only if one contains [lo, hi) *)
Lemma covers_sound : forall mem lo hi l, typed_table l ->
  covers (dsz mem) lo hi l = Ok true ->
  exists e, In e l /\ ft e = T_IBB /\ containsZ (fa e) (fs e * 16) lo hi.
Proof.
  intros mem lo hi l. induction l as [|e tl IH]; intros Hty H; [discriminate|].
  assert (Hty' : typed_table tl) by (intros x Hx; apply Hty; right; assumption).
  cbn [covers] in H. destruct (ft e =? T_IBB) eqn:Et.
  - destruct (dsz mem e) as [s| | |] eqn:D; cbn [bind] in H; try discriminate.
    apply Z.eqb_eq in Et.
    destruct (dsz_ok_inv mem e s (Hty e (or_introl eq_refl)) D) as (S & W & K).
    destruct (Hty e (or_introl eq_refl)) as ((A & _) & _).
    assert (Es : s = fs e * 16) by (apply K; rewrite Et; unfold T_IBB, T_SACM; lia). subst s.
    unfold end64 in H. rewrite wrap64_small in H by lia.
    destruct ((fa e <=? lo) && (fa e + fs e * 16 >=? hi)) eqn:C.
    + exists e. split; [left; reflexivity|]. split; [assumption|]. unfold containsZ. lia.
    + destruct (IH Hty' H) as (x & Hx & R). exists x. split; [right; assumption|assumption].
  - destruct (IH Hty' H) as (x & Hx & R). exists x. split; [right; assumption|assumption].
Qed.

(** EXACT when every BIOS startup module stays inside the address space *)
Lemma covers_exact : forall mem lo hi l, typed_table l ->
  (forall e, In e l -> ft e = T_IBB -> fa e + fs e * 16 < W64) ->
  (covers (dsz mem) lo hi l = Ok true <->
   exists e, In e l /\ ft e = T_IBB /\ containsZ (fa e) (fs e * 16) lo hi) /\
  (exists b, covers (dsz mem) lo hi l = Ok b).
Proof.
  intros mem lo hi l. induction l as [|e tl IH]; intros Hty Hw.
  - cbn. split; [|eauto]. split; [discriminate|]. intros (e & [] & _).
  - destruct IH as [IH [b IHb]]; [intros x Hx; apply Hty; right; assumption|intros x Hx; apply Hw; right; assumption|].
    cbn [covers]. destruct (ft e =? T_IBB) eqn:Et.
    + apply Z.eqb_eq in Et.
      rewrite (proj1 (dsz_ibb mem e Et (Hty e (or_introl eq_refl))) (Hw e (or_introl eq_refl) Et)). cbn [bind].
      destruct (Hty e (or_introl eq_refl)) as ((A & _) & S).
      pose proof (Hw e (or_introl eq_refl) Et) as W.
      unfold end64. rewrite wrap64_small by lia.
      destruct ((fa e <=? lo) && (fa e + fs e * 16 >=? hi)) eqn:C.
      * split; [|eauto]. split; [|reflexivity]. intros _. exists e. split; [left; reflexivity|].
        split; [assumption|]. unfold containsZ. lia.
      * split; [|eauto]. rewrite IH. split.
        -- intros (x & Hx & R). exists x. split; [right; assumption|assumption].
        -- intros (x & [<-|Hx] & Tx & C'); [unfold containsZ in C'; lia|]. exists x. auto.
    + split; [|eauto]. rewrite IH. split.
      * intros (x & Hx & R). exists x. split; [right; assumption|assumption].
      * intros (x & [<-|Hx] & Tx & C'); [lia|]. exists x. auto.
Qed.

Definition ibbs_in_space (l : list fent) : Prop := forall e, In e l -> ft e = T_IBB -> fa e + fs e * 16 < W64.

Theorem IBBCovers_total : forall mem fitptr l,
  ibb_covers_rv (dsz mem) l <> VPanic /\ ibb_covers_fv (dsz mem) l <> VPanic /\ ibb_covers_fit (dsz mem) fitptr l <> VPanic.
Proof.
  intros. repeat split; apply verd_of_covers_benign; apply covers_benign; apply dsz_benign.
Qed.

Theorem IBBCovers_sound : forall mem fitptr l, typed_table l ->
  (ibb_covers_rv (dsz mem) l = pass ->
     exists e, In e l /\ ft e = T_IBB /\ containsZ (fa e) (fs e * 16) RESET_VECTOR (RESET_VECTOR + 4)) /\
  (ibb_covers_fv (dsz mem) l = pass ->
     exists e, In e l /\ ft e = T_IBB /\ containsZ (fa e) (fs e * 16) FIT_VECTOR (FIT_VECTOR + 4)) /\
  (ibb_covers_fit (dsz mem) fitptr l = pass ->
     exists e, In e l /\ ft e = T_IBB /\ containsZ (fa e) (fs e * 16) fitptr (fitptr + Z.of_nat (length l) * 16)).
Proof.
  intros mem p l Hty. unfold ibb_covers_rv, ibb_covers_fv, ibb_covers_fit, fit_end.
  repeat split; intros H; apply verd_of_covers_pass in H; eapply covers_sound; eauto.
Qed.

Theorem IBBCoversResetVector_exact_partial : forall mem l, typed_table l -> ibbs_in_space l ->
  (ibb_covers_rv (dsz mem) l = pass <->
   exists e, In e l /\ ft e = T_IBB /\ containsZ (fa e) (fs e * 16) RESET_VECTOR (RESET_VECTOR + 4)).
Proof.
  intros mem l H W. unfold ibb_covers_rv. rewrite verd_of_covers_pass. apply covers_exact; assumption.
Qed.

Theorem IBBCoversFITVector_exact_partial : forall mem l, typed_table l -> ibbs_in_space l ->
  (ibb_covers_fv (dsz mem) l = pass <->
   exists e, In e l /\ ft e = T_IBB /\ containsZ (fa e) (fs e * 16) FIT_VECTOR (FIT_VECTOR + 4)).
Proof.
  intros mem l H W. unfold ibb_covers_fv. rewrite verd_of_covers_pass. apply covers_exact; assumption.
Qed.

(** IBBCoversFIT: exact also for a table that reaches or crosses 4 GiB *)
Theorem IBBCoversFIT_exact_partial : forall mem fitptr l, typed_table l -> ibbs_in_space l ->
  (ibb_covers_fit (dsz mem) fitptr l = pass <->
   exists e, In e l /\ ft e = T_IBB /\
     containsZ (fa e) (fs e * 16) fitptr (fitptr + Z.of_nat (length l) * 16)).
Proof.
  intros mem p l Hty W. unfold ibb_covers_fit, fit_end. rewrite verd_of_covers_pass.
  apply covers_exact; assumption.
Qed.

(** the former witness of the 32-bit wrap: FIT pointer 0xFFFFFFF0, two entries *)
Theorem IBBCoversFIT_wrap32_rejected : forall mem,
  ibb_covers_fit (dsz mem) 4294967280 [(0, 2314885530818453087, 2, 256); (7, 4294901760, 16, 256)] = fail.
Proof. intros. vm_compute. reflexivity. Qed.

(** * 2. TXT memory *)

Definition u32 (z : Z) : Prop := 0 <= z < W32.

(** what TXTHeapSpaceValid is meant to decide (its own error texts), on unbounded integers *)
Definition heap_spec (hb hs sb ss : Z) : Prop :=
  hb + hs < W32 /\ LEGACY_MIN_HEAP <= hs /\ sb mod 4096 = 0 /\ sb + ss < W32 /\ MIN_SINIT <= ss /\
  sb < hb /\ (0 < sb -> sb + ss = hb).

Lemma land_4095 z : 0 <= z -> Z.land z 4095 = z mod 4096.
Proof. intros. change 4095 with (Z.ones 12). rewrite Z.land_ones by lia. reflexivity. Qed.

Ltac brk :=
  repeat match goal with
         | |- context [if ?c then _ else _] => destruct c eqn:?
         | H : context [if ?c then _ else _] |- _ => destruct c eqn:?
         end.

(** exact for every register image *)
Theorem HeapValid_exact : forall hb hs sb ss mj,
  u32 hb -> u32 hs -> u32 sb -> u32 ss -> u32 mj ->
  (heap_valid hb hs sb ss mj = pass <-> heap_spec hb hs sb ss).
Proof.
  unfold u32, heap_spec, heap_valid, W32, FOUR_GIB, LEGACY_MIN_HEAP, MIN_SINIT.
  intros hb hs sb ss mj Hhb Hhs Hsb Hss Hmj.
  rewrite land_4095 by lia.
  pose proof (Z.mod_pos_bound sb 4096 ltac:(lia)) as Hm.
  pose proof (wrap32_range (sb + ss)) as Hr. unfold W32 in Hr.
  unfold pass, fail.
  destruct (Z_lt_le_dec (sb + ss) 4294967296) as [L|L].
  - rewrite (wrap32_small (sb + ss)) by (unfold W32; lia).
    brk; split; intros; try discriminate; try reflexivity; try lia.
  - brk; split; intros; try discriminate; try reflexivity; try lia.
Qed.

(** the former witness: heap [0xFFF00000, 4 GiB + 1 MiB) *)
Theorem HeapValid_wrap32_rejected : heap_valid 4293918720 2097152 0 65536 0 = fail.
Proof. vm_compute. reflexivity. Qed.

Lemma wrap64_under z : - W64 <= z < 0 -> wrap64 z = z + W64.
Proof.
  intros. rewrite wrap64_mod. unfold W64 in *.
  replace z with ((z + 18446744073709551616) + (-1) * 18446744073709551616) at 1 by lia.
  rewrite Z.mod_add by lia. apply Z.mod_small. lia.
Qed.

(** TXTMemoryIsDPR: the DPR is the region [L - S, L) (S its size, L its top; the base is an
    address, i.e. S <= L), at least 3 MiB; heap and SINIT start inside it, the heap ends at its
    top, SINIT ends inside it, and 2 MiB + heap + SINIT fit into it *)
Definition dpr_spec (S L hb hs sb ss : Z) : Prop :=
  3 * MiB <= S /\ S <= L /\ L - S <= hb /\ (0 < sb -> L - S <= sb) /\ hb + hs = L /\
  (0 < sb -> sb + ss <= L) /\ 2 * MiB + hs + ss <= S.

(** exact for every register image *)
Theorem DPR_exact : forall dpr hb hs sb ss,
  u32 hb -> u32 hs -> u32 sb -> u32 ss ->
  (memory_is_dpr dpr hb hs sb ss = pass <->
   dpr_spec (bits dpr 4 255 * MiB) ((bits dpr 20 4095 + 1) * MiB) hb hs sb ss).
Proof.
  intros dpr hb hs sb ss Hhb Hhs Hsb Hss.
  pose proof (bits_ones_range dpr 4 8 ltac:(lia)) as R1. change (Z.ones 8) with 255 in R1.
  pose proof (bits_ones_range dpr 20 12 ltac:(lia)) as R2. change (Z.ones 12) with 4095 in R2.
  change (2 ^ 8) with 256 in R1. change (2 ^ 12) with 4096 in R2.
  unfold memory_is_dpr, dpr_base, dpr_limit, dpr_size, dpr_spec.
  set (S := bits dpr 4 255 * MiB). set (L := (bits dpr 20 4095 + 1) * MiB).
  assert (HS : 0 <= S < 256 * 1048576) by (unfold S, MiB; lia).
  assert (HL : 1048576 <= L <= 4096 * 1048576) by (unfold L, MiB; lia).
  unfold u32, W32, MiB in *. unfold pass, fail.
  destruct (Z_le_gt_dec S L) as [G|G].
  - rewrite (wrap64_small (L - S)) by (unfold W64; lia).
    brk; split; intros; try discriminate; try reflexivity; try lia.
  - rewrite (wrap64_under (L - S)) by (unfold W64; lia). unfold W64.
    brk; split; intros; try discriminate; try reflexivity; try lia.
Qed.

(** the former witness: DPR [0x7FD00000, 0x80000000), a heap that fills it, SinitSize 0xF0000000 *)
Theorem DPR_underflow_rejected : memory_is_dpr 2146435121 2144337920 3145728 0 4026531840 = fail.
Proof. vm_compute. reflexivity. Qed.

(** 2 MiB + heap + SINIT size = exactly 2^32 (a 32-bit sum would be 0): rejected; one
    register value lower the sum is 2^32 - 1 and still rejected; the same layout with an
    ordinary SINIT size passes *)
Theorem DPR_sum_at_4G_rejected :
  memory_is_dpr 2066743361 2066874368 917504 0 4291952640 = fail /\
  memory_is_dpr 2066743361 2066874368 917504 0 4291952639 = fail /\
  memory_is_dpr 2066743361 2066874368 917504 0 4294967295 = fail /\
  memory_is_dpr 2066743361 2066874368 917504 0 131072 = pass.
Proof. vm_compute. repeat split; reflexivity. Qed.


(** ValidSMRR: what a pass guarantees (read off the register values) *)
Theorem ValidSMRR_failclosed : forall pbm pmm tb tl,
  valid_smrr pbm pmm tb tl = pass ->
  let pb := bits pbm 12 1048575 in
  let pm := bits pmm 12 1048575 in
  pm <> 0 /\ pb <> 0 /\ tb <> 0 /\ tb <> U32MAX /\ tl <> 0 /\ tl <> U32MAX /\
  tb = wrap32 (pb * 4096) /\
  Z.land tb (U32MAX - wrap32 (pm * 4096)) = 0 /\
  Z.land tl (U32MAX - wrap32 (pm * 4096)) = 0 /\
  Z.land (wrap32 (tl - 1)) (wrap32 (pm * 4096)) = wrap32 (pb * 4096).
Proof.
  intros pbm pmm tb tl H. cbv zeta. unfold valid_smrr, pass, fail in H.
  brk; try discriminate. repeat split; lia.
Qed.

(** on every non-Broadwell-DE host bridge the library hands back limit 0:
    no SMRR/TSEG configuration is accepted there *)
Theorem ValidSMRR_sandy_never_passes : forall pbm pmm tb raw,
  valid_smrr pbm pmm tb (tseg_limit false raw) <> pass.
Proof.
  intros. unfold tseg_limit, valid_smrr, pass, fail. brk; discriminate.
Qed.

(** * 1b. FIT: presence checks, FIT pointer/table bounds *)

Theorem HasType_exact : forall t l,
  has_type t l = pass <-> exists e, In e l /\ ft e = t.
Proof.
  intros t l. unfold has_type, count_type.
  induction l as [|e tl IH]; cbn [filter length].
  - cbn. unfold pass, fail. split; [discriminate|intros (e & [] & _)].
  - destruct (ft e =? t) eqn:Ee.
    + cbn [length]. replace (0 <? Z.of_nat (S (length (filter (fun e0 => ft e0 =? t) tl)))) with true by lia.
      split; [|reflexivity]. intros _. exists e. split; [left; reflexivity|lia].
    + rewrite IH. split.
      * intros (x & Hx & Tx). exists x. split; [right; assumption|assumption].
      * intros (x & [<-|Hx] & Tx); [lia|]. exists x. auto.
Qed.

Theorem HasBIOSPolicy_exact : forall mode l,
  has_bios_policy mode l = pass <-> mode = 0 \/ count_type T_BIOSPOLICY l = 1.
Proof. intros. unfold has_bios_policy, pass, fail. brk; split; intros; try discriminate; try reflexivity; lia. Qed.

Theorem FITVectorIsSet_exact : forall p,
  fit_vector_is_set p = pass <-> exists v, p = Some v /\ VALID_FIT_RANGE <= v < FIT_VECTOR.
Proof.
  intros [v|]; unfold fit_vector_is_set, pass, fail, ierr.
  - destruct (v <? VALID_FIT_RANGE) eqn:E1; [|destruct (v >=? FIT_VECTOR) eqn:E2].
    + split; [discriminate|]. intros (w & E & Hw). injection E as E. lia.
    + split; [discriminate|]. intros (w & E & Hw). injection E as E. lia.
    + split; [|reflexivity]. intros _. exists v. split; [reflexivity|lia].
  - split; [discriminate|]. intros (v & E & _). discriminate E.
Qed.

Theorem HasFIT_exact : forall fitptr n rd1 rd2, 0 <= fitptr -> 0 <= n ->
  (has_fit fitptr n rd1 rd2 = pass <->
   rd1 = true /\ rd2 = true /\ 0 < n /\ fitptr + n * 16 <= FIT_VECTOR).
Proof.
  intros p n rd1 rd2 Hp Hn. unfold has_fit, pass, fail, ierr, FOUR_GIB, FIT_VECTOR.
  destruct rd1, rd2; cbn [negb]; brk; split; intros; try discriminate; try reflexivity; try lia.
Qed.

Theorem PolicyAllowsTXT_exact : forall rd l,
  policy_allows_txt rd l = pass <->
  (forall e, In e l -> ft e <> T_TXTPOLICY) \/
  (exists l1 e l2 b, l = l1 ++ e :: l2 /\ (forall x, In x l1 -> ft x <> T_TXTPOLICY) /\
     ft e = T_TXTPOLICY /\ fv e = 1 /\ rd = Some b /\ Z.odd b = true).
Proof.
  intros rd l. induction l as [|e tl IH]; cbn [policy_allows_txt].
  - split; [intros _; left; intros e []|reflexivity].
  - destruct (ft e =? T_TXTPOLICY) eqn:Ee.
    + apply Z.eqb_eq in Ee. split.
      * intros H. right. exists [], e, tl.
        destruct (fv e =? 0) eqn:E0; [unfold pass, ierr in H; discriminate|].
        destruct (fv e =? 1) eqn:E1; [|unfold pass, fail in H; discriminate].
        destruct rd as [b|]; [|unfold pass, ierr in H; discriminate].
        exists b. unfold pass in H. injection H as H.
        repeat split; try assumption; try reflexivity; try lia. intros x [].
      * intros [H|(l1 & x & l2 & b & E & Hl1 & Tx & Vx & -> & Hb)].
        -- exfalso. apply (H e); [left; reflexivity|assumption].
        -- destruct l1 as [|y l1]; cbn [app] in E; injection E as -> ->.
           ++ replace (fv x =? 0) with false by lia. replace (fv x =? 1) with true by lia.
              rewrite Hb. reflexivity.
           ++ exfalso. apply (Hl1 y); [left; reflexivity|assumption].
    + rewrite IH. split.
      * intros [H|(l1 & x & l2 & b & -> & Hl1 & Tx & Vx & -> & Hb)].
        -- left. intros y [<-|Hy]; [lia|auto].
        -- right. exists (e :: l1), x, l2, b. repeat split; try assumption; try reflexivity.
           intros y [<-|Hy]; [lia|auto].
      * intros [H|(l1 & x & l2 & b & E & Hl1 & Tx & Vx & -> & Hb)].
        -- left. intros y Hy. apply H. right. assumption.
        -- destruct l1 as [|y l1]; cbn [app] in E; injection E as -> ->; [lia|].
           right. exists l1, x, l2, b. repeat split; try assumption; try reflexivity.
           intros z Hz. apply Hl1. right. assumption.
Qed.

(** * 2b. ValidSMRR against the interval reading of the SMRR pair *)

Lemma land_lowmask x k : 0 <= k -> Z.land x (2 ^ k - 1) = x mod 2 ^ k.
Proof.
  intros. replace (2 ^ k - 1) with (Z.ones k) by (rewrite Z.ones_equiv; lia).
  apply Z.land_ones. assumption.
Qed.

Lemma himask_shape k : 0 <= k <= 32 -> W32 - 2 ^ k = Z.shiftl (Z.ones (32 - k)) k.
Proof.
  intros. rewrite Z.shiftl_mul_pow2 by lia. rewrite Z.ones_equiv.
  replace (Z.pred (2 ^ (32 - k))) with (2 ^ (32 - k) - 1) by lia.
  rewrite Z.mul_sub_distr_r. rewrite <- Z.pow_add_r by lia.
  replace (32 - k + k) with 32 by lia. unfold W32. lia.
Qed.

Lemma testbit_above32 x n : 0 <= x < W32 -> 32 <= n -> Z.testbit x n = false.
Proof.
  intros Hx Hn. destruct (Z.eq_dec x 0) as [->|Hne]; [apply Z.bits_0|].
  apply Z.bits_above_log2; [lia|].
  assert (Z.log2 x < 32); [|lia].
  apply Z.log2_lt_pow2; [lia|]. unfold W32 in Hx. lia.
Qed.

Lemma land_himask x k : 0 <= k <= 32 -> 0 <= x < W32 ->
  Z.land x (W32 - 2 ^ k) = x - x mod 2 ^ k.
Proof.
  intros Hk Hx.
  assert (P : 0 < 2 ^ k) by (apply Z.pow_pos_nonneg; lia).
  transitivity (Z.shiftl (Z.shiftr x k) k).
  - rewrite himask_shape by assumption.
    apply Z.bits_inj'. intros n Hn. rewrite Z.land_spec.
    destruct (Z_lt_le_dec n k) as [L|L].
    + rewrite !Z.shiftl_spec_low by assumption. apply Bool.andb_false_r.
    + rewrite !Z.shiftl_spec by assumption. rewrite Z.shiftr_spec by lia.
      replace (n - k + k) with n by lia.
      destruct (Z_lt_le_dec n 32) as [L2|L2].
      * rewrite Z.ones_spec_low by lia. apply Bool.andb_true_r.
      * rewrite Z.ones_spec_high by lia. rewrite (testbit_above32 x n) by assumption. reflexivity.
  - rewrite Z.shiftr_div_pow2, Z.shiftl_mul_pow2 by lia.
    pose proof (Z.div_mod x (2 ^ k) ltac:(lia)). lia.
Qed.

Lemma mod_pred_of_multiple t g : 0 < g -> 0 < t -> t mod g = 0 -> (t - 1) mod g = g - 1.
Proof.
  intros Hg Ht Hm.
  assert (E : t = g * (t / g)) by (pose proof (Z.div_mod t g ltac:(lia)); lia).
  assert (Q : 0 < t / g) by nia.
  symmetry. apply (Z.mod_unique _ _ (t / g - 1)); [lia|]. lia.
Qed.

(** SMRR with a contiguous mask of granularity [2^k] describes the interval
    [[PB, PB + 2^k)]; TSEG is [[tb, tl)].  A pass says exactly: the SMRR base is
    non-zero and aligned, and TSEG IS that interval. *)
Theorem ValidSMRR_interval_partial : forall pbm pmm tb tl k,
  12 <= k < 32 -> u32 tb -> u32 tl ->
  let PB := bits pbm 12 1048575 * 4096 in
  bits pmm 12 1048575 * 4096 = W32 - 2 ^ k ->     (* contiguous mask *)
  (valid_smrr pbm pmm tb tl = pass <->
   PB <> 0 /\ PB mod 2 ^ k = 0 /\ tb = PB /\ tl = PB + 2 ^ k /\ tl <> U32MAX).
Proof.
  intros pbm pmm tb tl k Hk Htb Htl PB Hm.
  pose proof (bits_ones_range pbm 12 20 ltac:(lia)) as R1. change (Z.ones 20) with 1048575 in R1.
  pose proof (bits_ones_range pmm 12 20 ltac:(lia)) as R2. change (Z.ones 20) with 1048575 in R2.
  change (2 ^ 20) with 1048576 in R1, R2.
  assert (P : 0 < 2 ^ k) by (apply Z.pow_pos_nonneg; lia).
  assert (P12 : 4096 <= 2 ^ k) by (change 4096 with (2 ^ 12); apply Z.pow_le_mono_r; lia).
  assert (P32 : 2 ^ k < W32) by (unfold W32; change 4294967296 with (2 ^ 32); apply Z.pow_lt_mono_r; lia).
  unfold valid_smrr. fold PB.
  set (pm := bits pmm 12 1048575) in *. set (pb := bits pbm 12 1048575) in *.
  unfold u32 in *.
  rewrite (wrap32_small (pm * 4096)) by (unfold W32; lia).
  rewrite (wrap32_small PB) by (unfold W32, PB; lia).
  rewrite Hm. replace (U32MAX - (W32 - 2 ^ k)) with (2 ^ k - 1) by (unfold U32MAX, W32; lia).
  rewrite !land_lowmask by lia.
  assert (Hpm : (pm =? 0) = false) by (unfold W32 in *; lia). rewrite Hpm.
  destruct (pb =? 0) eqn:Epb.
  { unfold pass, fail. split; [discriminate|]. intros (H & _). exfalso. apply H. unfold PB. lia. }
  destruct ((tb =? 0) || (tb =? U32MAX)) eqn:Etb.
  { unfold pass, fail. split; [discriminate|]. intros (H0 & H1 & H2 & H3 & H4). exfalso.
    unfold PB, U32MAX in *. lia. }
  destruct ((tl =? 0) || (tl =? U32MAX)) eqn:Etl.
  { unfold pass, fail. split; [discriminate|]. intros (H0 & H1 & H2 & H3 & H4). exfalso. unfold PB in *. lia. }
  destruct (tb mod 2 ^ k =? 0) eqn:Eal; cbn [negb].
  2:{ unfold pass, fail. split; [discriminate|]. intros (H0 & H1 & H2 & H3 & H4). exfalso. subst tb. lia. }
  destruct (tb =? PB) eqn:Eb; cbn [negb].
  2:{ unfold pass, fail. split; [discriminate|]. intros (H0 & H1 & H2 & H3 & H4). exfalso. lia. }
  destruct (tl mod 2 ^ k =? 0) eqn:Etlal; cbn [negb].
  2:{ unfold pass, fail. split; [discriminate|]. intros (H0 & H1 & H2 & H3 & H4). exfalso.
      subst tl. replace (PB + 2 ^ k) with (PB + 1 * 2 ^ k) in Etlal by lia. rewrite Z.mod_add in Etlal by lia. lia. }
  rewrite (wrap32_small (tl - 1)) by (unfold W32 in *; lia).
  rewrite land_himask by (unfold W32 in *; lia).
  rewrite (mod_pred_of_multiple tl (2 ^ k)) by lia.
  destruct (tl - 1 - (2 ^ k - 1) =? PB) eqn:Eend; cbn [negb]; unfold pass, fail.
  - split; [|reflexivity]. intros _. apply Z.eqb_eq in Eb. rewrite Eb in Eal. unfold PB in *. repeat split; lia.
  - split; [discriminate|]. intros (H0 & H1 & H2 & H3 & H4). lia.
Qed.

(** * 3. Attribute and capability checks *)

(** what [checkTPM2NVAttr] is meant to decide: the attribute word equals the
    wanted one up to the optional bits *)
Definition nvattr_spec (mask want opt : Z) : Prop := Z.lor mask opt = Z.lor want opt.

(** exact *)
Theorem NVAttr_exact : forall mask want opt,
  nvattr mask want opt = true <-> nvattr_spec mask want opt.
Proof. intros. unfold nvattr, nvattr_spec. apply Z.eqb_eq. Qed.

(** TPM 2.0 digest sizes by TPM_ALG_ID (TCG algorithm registry): SHA1, SHA256,
    SHA384, SHA512, SM3-256 *)
Definition tpm_digest (alg : Z) : option Z :=
  if alg =? 4 then Some 20 else if alg =? 11 then Some 32 else if alg =? 12 then Some 48
  else if alg =? 13 then Some 64 else if alg =? 18 then Some 32 else None.

(** Table J-2 as the code cites it: required attributes up to Written, data
    size = base + digest size of the name algorithm (AUX: base + 2 digests) *)
Definition nv20_spec (which namealg attrs ds : Z) : Prop :=
  nvattr_spec attrs (idx_want which) ATTR_WRITTEN /\
  exists d, tpm_digest namealg = Some d /\
    ds = (if which =? 1 then 2 * d + 40 else d + 38).

Lemma tpm_hash_digest alg : alg <> 18 -> tpm_hash_size alg = tpm_digest alg.
Proof. intros. unfold tpm_hash_size, tpm_digest. replace (alg =? 18) with false by lia. reflexivity. Qed.

Lemma idx_size_small which d : tpm_hash_size 4 = Some d \/ tpm_hash_size 11 = Some d \/ tpm_hash_size 12 = Some d \/ tpm_hash_size 13 = Some d ->
  idx_size which d = (if which =? 1 then 2 * d + 40 else d + 38).
Proof.
  intros [H|[H|[H|H]]]; vm_compute in H; injection H as <-; unfold idx_size; destruct (which =? 1); reflexivity.
Qed.

(** PSIndexConfig / AUXIndexConfig / POIndexConfig, TPM 2.0: never a panic *)
Theorem NVIndex20_total : forall which blob, nv_index_config20 which blob <> VPanic.
Proof.
  intros. unfold nv_index_config20, ierr, fail, pass.
  destruct (parse_nvpub blob) as [[[[namealg attrs] h] ds]|]; [|discriminate].
  destruct (negb _); [discriminate|]. destruct (tpm_hash_size namealg); [|discriminate].
  destruct (negb _); discriminate.
Qed.

(** EXACT for all three indices and every name algorithm but SM3-256 (go-tpm's
    Algorithm.Hash() does not know it: finding C05-NVIndex-SM3-lib) *)
Theorem NVIndex20_exact_partial : forall which blob namealg attrs h ds,
  parse_nvpub blob = Some (namealg, attrs, h, ds) -> namealg <> 18 ->
  (nv_index_config20 which blob = pass <-> nv20_spec which namealg attrs ds).
Proof.
  intros which blob namealg attrs h ds Hp Hn. unfold nv_index_config20, nv20_spec. rewrite Hp.
  rewrite <- (tpm_hash_digest namealg Hn).
  destruct (nvattr attrs (idx_want which) ATTR_WRITTEN) eqn:Ea; cbn [negb].
  - apply NVAttr_exact in Ea.
    destruct (tpm_hash_size namealg) as [d|] eqn:Eh.
    + assert (Hs : idx_size which d = (if which =? 1 then 2 * d + 40 else d + 38)).
      { apply idx_size_small. unfold tpm_hash_size in Eh.
        destruct (namealg =? 4) eqn:E4; [left; exact Eh|].
        destruct (namealg =? 11) eqn:E11; [right; left; exact Eh|].
        destruct (namealg =? 12) eqn:E12; [right; right; left; exact Eh|].
        destruct (namealg =? 13) eqn:E13; [right; right; right; exact Eh|discriminate]. }
      rewrite Hs. destruct (ds =? _) eqn:Ed; cbn [negb].
      * split; [|reflexivity]. intros _. split; [assumption|]. exists d. split; [reflexivity|lia].
      * unfold pass, fail. split; [discriminate|]. intros (_ & d' & [= <-] & Hd). lia.
    + unfold pass, fail. split; [discriminate|]. intros (_ & d' & Hd & _). discriminate.
  - unfold pass, fail. split; [discriminate|]. intros (Hx & _). apply NVAttr_exact in Hx. congruence.
Qed.

(** whatever the name algorithm: a pass means the specified pattern (fail closed) *)
Theorem NVIndex20_sound : forall which blob,
  nv_index_config20 which blob = pass ->
  exists namealg attrs h ds, parse_nvpub blob = Some (namealg, attrs, h, ds) /\ nv20_spec which namealg attrs ds.
Proof.
  intros which blob H. unfold nv_index_config20 in H.
  destruct (parse_nvpub blob) as [[[[namealg attrs] h] ds]|] eqn:Hp; [|discriminate].
  exists namealg, attrs, h, ds. split; [reflexivity|].
  destruct (Z.eq_dec namealg 18) as [->|Hn].
  - destruct (negb _); [discriminate|]. vm_compute in H. discriminate.
  - apply (NVIndex20_exact_partial which blob namealg attrs h ds Hp Hn). unfold nv_index_config20. rewrite Hp. exact H.
Qed.

(** a PS index: index 0x01C10103, the given name algorithm and attributes, 32-byte policy *)
Definition ps_blob (attrs : list Z) (namealg ds : Z) : list Z :=
  [1; 193; 1; 3; 0; namealg] ++ attrs ++ [0; 32] ++ repeat 0 32 ++ [0; ds].

(** the former witnesses: attributes with only PPWRITE set are rejected, a correct SHA1 index
    is accepted, name algorithm 0x27 gives a verdict, a correct PO index is accepted *)
Theorem NVIndex20_former_witnesses :
  nv_index_config20 0 (ps_blob [0; 0; 0; 1] 11 70) = fail /\
  nv_index_config20 0 (ps_blob [98; 4; 4; 8] 4 58) = pass /\
  nv_index_config20 0 (ps_blob [98; 4; 4; 8] 39 70) = fail /\
  nv_index_config20 2 (ps_blob [2; 4; 0; 10] 11 70) = pass.
Proof. vm_compute. repeat split; reflexivity. Qed.

(** finding C05-NVIndex-SM3-lib: a correctly configured index named by SM3-256 is rejected *)
Theorem NVIndex20_sm3_refuted :
  exists blob namealg attrs h ds, parse_nvpub blob = Some (namealg, attrs, h, ds) /\
    nv20_spec 0 namealg attrs ds /\ nv_index_config20 0 blob = fail.
Proof.
  exists (ps_blob [98; 4; 4; 8] 18 70), 18, PS20_ATTR, (repeat 0 32), 70.
  split; [vm_compute; reflexivity|]. split; [|vm_compute; reflexivity].
  split; [reflexivity|]. exists 32. split; reflexivity.
Qed.

(** TPM 1.2 (Table J-1): exact *)
Theorem NVIndex12_exact : forall which p1 p2 size attrs rst wst wd,
  (nv_index_config12 0 p1 p2 size attrs rst wst wd = pass <->
     p1 = 0 /\ p2 = 0 /\ size = 54 /\ attrs = NVPER_WRITESTCLEAR /\ rst = false /\ wst = false /\ wd = true) /\
  (nv_index_config12 1 p1 p2 size attrs rst wst wd = pass <->
     p1 = 0 /\ p2 = 0 /\ size = 64 /\ attrs = 0 /\ rst = false /\ wst = false /\ wd = false) /\
  (nv_index_config12 2 p1 p2 size attrs rst wst wd = pass <-> size = 54 /\ attrs = 0) /\
  (nv_index_config12 which p1 p2 size attrs rst wst wd = warn ->
     (which = 0 \/ which = 1) /\ p1 = 0 /\ p2 = 0 /\ rst = false /\ wst = false).
Proof.
  intros. unfold nv_index_config12, pass, fail, warn, NVPER_WRITESTCLEAR.
  split; [|split; [|split]].
  - cbn [Z.eqb]. destruct rst, wst, wd; cbn [negb]; brk; split; intros; try discriminate; try reflexivity; lia.
  - cbn [Z.eqb]. destruct rst, wst, wd; cbn [negb]; brk; split; intros; try discriminate; try reflexivity; lia.
  - cbn [Z.eqb]. brk; split; intros; try discriminate; try reflexivity; lia.
  - destruct rst, wst, wd; cbn [negb]; brk; intros; try discriminate; lia.
Qed.

Lemma zlist_eqb_true a : forall b, zlist_eqb a b = true <-> a = b.
Proof.
  induction a as [|x a IH]; intros [|y b]; cbn [zlist_eqb]; split; intros H; try reflexivity; try discriminate.
  - apply andb_prop in H. destruct H as [H1 H2]. apply Z.eqb_eq in H1. apply IH in H2. congruence.
  - injection H as -> ->. rewrite Z.eqb_refl. cbn. apply IH. reflexivity.
Qed.

Theorem AUXIndexHash_exact : forall blob,
  aux_index_hash blob = pass <->
  exists namealg attrs ds, parse_nvpub blob = Some (namealg, attrs, AUX_HASH, ds).
Proof.
  intros blob. unfold aux_index_hash.
  destruct (parse_nvpub blob) as [[[[namealg attrs] h] ds]|].
  - destruct (zlist_eqb h AUX_HASH) eqn:E.
    + apply zlist_eqb_true in E. subst h. split; [|reflexivity]. intros _. exists namealg, attrs, ds. reflexivity.
    + unfold pass, fail. split; [discriminate|]. intros (a & b & d & [= <- <- Hh <-]).
      subst h. rewrite (proj2 (zlist_eqb_true AUX_HASH AUX_HASH) eq_refl) in E. discriminate.
  - unfold pass, ierr. split; [discriminate|]. intros (a & b & d & H). discriminate H.
Qed.

(** LCP validity *)
Theorem LCP1_exact : forall version hashalg ptype sinitmin polctrl maxsinit hashzero,
  lcp_valid1 version hashalg ptype sinitmin polctrl maxsinit hashzero = pass <->
  version < LCP_V2 /\ hashalg = 0 /\ (ptype = 0 \/ ptype = 1) /\ sinitmin <> 0 /\
  ~ (ptype = 0 /\ polctrl = 0) /\ maxsinit = 0 /\ hashzero = false.
Proof.
  intros. unfold lcp_valid1, pass, fail, LCP_V2.
  destruct hashzero; brk; split; intros; try discriminate; try reflexivity; lia.
Qed.

(** the specified LCP_POLICY2 pattern: PolicyType LIST (0) or ANY (1) *)
Definition lcp2_spec (preset version hashalg ptype hmask smask : Z) : Prop :=
  LCP_V3 <= version /\ hashalg = preset /\ (ptype = 0 \/ ptype = 1) /\ hmask <> 0 /\ smask <> 0.

Theorem LCP2_exact : forall preset version hashalg ptype hmask smask,
  (lcp_valid2 preset version hashalg ptype hmask smask = pass <->
   lcp2_spec preset version hashalg ptype hmask smask) /\
  lcp_valid2 preset version hashalg ptype hmask smask <> VPanic.
Proof.
  intros. unfold lcp_valid2, lcp2_spec, pass, fail, LCP_V3.
  split; brk; try split; intros; try discriminate; try reflexivity; lia.
Qed.

(** the former witness: a v3.0 SHA256 LIST policy *)
Theorem LCP2_list_accepted : lcp_valid2 11 768 11 0 8 8 = pass.
Proof. reflexivity. Qed.

(** SINIT ACM / TPM family *)
Definition sinit_spec (caps tpm : Z) (present : bool) : Prop :=
  present = true /\ ((tpm = 1 /\ Z.land caps FAM_DTPM12 <> 0) \/ (tpm = 2 /\ Z.land caps FAM_DTPM20 <> 0)).

(** what the check decides: the SINIT ACM (the first module of the region) alone, accepted iff
    its capabilities word is non-zero (finding C05-SINITTPMSpec-precedence) *)
Theorem SINITTPMSpec_real : forall caps1 caps2 tpm present,
  sinit_tpm_spec caps1 caps2 tpm present = pass <->
  caps1 <> 0 /\ present = true /\ (tpm = 1 \/ tpm = 2).
Proof.
  intros c caps2 tpm present; unfold sinit_tpm_spec.
  destruct (c =? 0) eqn:Ec.
  - change (Z.land 1 (Z.lor FAM_DTPM12 FAM_BOTH) =? 0) with false.
    change (Z.land 1 (Z.lor FAM_DTPM20 FAM_BOTH) =? 0) with false. cbn [andb].
    unfold pass, fail. split; [discriminate|]. intros (H & _). lia.
  - rewrite !Z.land_0_l. cbn [Z.eqb andb].
    destruct present; rewrite ?Bool.andb_true_r, ?Bool.andb_false_r.
    + destruct (tpm =? 1) eqn:E1; [|destruct (tpm =? 2) eqn:E2].
      * split; [|reflexivity]. intros _. repeat split; lia.
      * split; [|reflexivity]. intros _. repeat split; lia.
      * unfold pass, fail. split; [discriminate|]. intros (_ & _ & H). lia.
    + unfold pass, fail. split; [discriminate|]. intros (_ & H & _). discriminate H.
Qed.

(** a SINIT ACM that lists the family of the TPM in use IS accepted, whatever follows it in the region *)
Theorem SINITTPMSpec_accepts : forall caps1 caps2 tpm present,
  sinit_spec caps1 tpm present -> sinit_tpm_spec caps1 caps2 tpm present = pass.
Proof.
  intros caps1 caps2 tpm present (Hp & H). apply SINITTPMSpec_real.
  split; [|split; [assumption|]].
  - intros ->. destruct H as [(_ & H)|(_ & H)]; apply H; reflexivity.
  - destruct H as [(H & _)|(H & _)]; [left|right]; assumption.
Qed.

(** the module behind the SINIT ACM is not looked at *)
Theorem SINITTPMSpec_first_module : forall caps1 caps2 caps2' tpm present,
  sinit_tpm_spec caps1 caps2 tpm present = sinit_tpm_spec caps1 caps2' tpm present.
Proof. reflexivity. Qed.

(** ... but the capability test accepts an ACM that lists only the other family *)
Theorem SINITTPMSpec_refuted :
  exists caps tpm, sinit_tpm_spec caps None tpm true = pass /\ ~ sinit_spec caps tpm true.
Proof.
  exists 16, 1. split; [reflexivity|]. intros (_ & [(_ & H)|(H & _)]); [apply H; reflexivity|discriminate].
Qed.

(** * 4. Boot Guard provisioning and manifest-security verdicts: fail closed *)

(** the disqualifying conditions SaneMEBootGuardProvisioning names *)
Definition me_disqualified (v : Z) (f : fws6) (b : bginfo) : Prop :=
  f_bypass f = true \/ f_invalid f = true \/ f_fpf_lock f = false \/
  f_eep f = 0 \/ f_eep f = 2 \/ f_protect_bios f = false \/
  (v = 2 /\ b_force_anchor b = false) \/ b_verified b = false \/ b_revoked b = true \/
  f_bg_disable f = true \/ b_capability b = false.

Theorem SaneME_exact : forall v f b,
  (sane_me v f b = good <-> ~ me_disqualified v f b) /\
  (sane_me v f b = good \/ sane_me v f b = bad).
Proof.
  intros v [pb by_ inv eep bsvn ksvn kid dis lock] [fa_ ver rev cap].
  unfold sane_me, me_disqualified, good, bad. cbn [f_bypass f_invalid f_fpf_lock f_eep f_protect_bios
    f_bg_disable b_force_anchor b_verified b_revoked b_capability].
  destruct pb, by_, inv, dis, lock, fa_, ver, rev, cap; cbn [negb andb];
    rewrite ?Bool.andb_true_r, ?Bool.andb_false_r;
    brk; (split; [split; [first [discriminate | intros _ H; lia] | first [reflexivity | intros H; exfalso; apply H; lia]] | auto]).
Qed.

Theorem SaneME_failclosed : forall v f b, me_disqualified v f b -> sane_me v f b <> good.
Proof. intros v f b H E. apply (proj1 (SaneME_exact v f b)) in E. contradiction. Qed.

Theorem StrictSaneME_exact : forall v f b,
  strict_sane_me v f b = good <-> f_eep f = 3 /\ ~ me_disqualified v f b.
Proof.
  intros v f b. unfold strict_sane_me. destruct (f_eep f =? 3) eqn:E; cbn [negb].
  - rewrite (proj1 (SaneME_exact v f b)). split; [intros H; split; [lia|exact H]|intros [_ H]; exact H].
  - unfold bad, good. split; [discriminate|]. intros [H _]. lia.
Qed.

(** ... read off the raw registers: HFSTS6 and MSR 13Ah *)
Theorem SaneME_raw_failclosed : forall strict v hfsts6 msr,
  sane_me_raw strict v hfsts6 msr = good ->
  bit hfsts6 4 = false /\ bit hfsts6 5 = false /\ bit hfsts6 30 = true /\
  (bits hfsts6 6 3 <> 0 /\ bits hfsts6 6 3 <> 2) /\ (strict = true -> bits hfsts6 6 3 = 3) /\
  bit hfsts6 3 = true /\ (v = 2 -> bit msr 4 = true) /\ bit msr 6 = true /\ bit msr 7 = false /\
  bit hfsts6 28 = false /\ bit msr 32 = true.
Proof.
  intros strict v h m H. unfold sane_me_raw in H.
  assert (N : ~ me_disqualified v (decode_hfsts6 h) (decode_bgmsr m) /\ (strict = true -> bits h 6 3 = 3)).
  { destruct strict.
    - apply StrictSaneME_exact in H. destruct H as [H1 H2]. split; [exact H2|intros _; exact H1].
    - apply (proj1 (SaneME_exact _ _ _)) in H. split; [exact H|discriminate]. }
  destruct N as [N S]. unfold me_disqualified in N.
  cbn [decode_hfsts6 decode_bgmsr f_bypass f_invalid f_fpf_lock f_eep f_protect_bios
    f_bg_disable b_force_anchor b_verified b_revoked b_capability] in N.
  assert (T : forall x, (x = true -> False) -> x = false) by (intros [|] Hx; [exfalso; apply Hx; reflexivity|reflexivity]).
  assert (F : forall x, (x = false -> False) -> x = true) by (intros [|] Hx; [reflexivity|exfalso; apply Hx; reflexivity]).
  split; [apply T; intros E; apply N; tauto|].
  split; [apply T; intros E; apply N; tauto|].
  split; [apply F; intros E; apply N; tauto|].
  split; [split; intros E; apply N; tauto|].
  split; [exact S|].
  split; [apply F; intros E; apply N; tauto|].
  split; [intros Ev; apply F; intros E; apply N; tauto|].
  split; [apply F; intros E; apply N; tauto|].
  split; [apply T; intros E; apply N; tauto|].
  split; [apply T; intros E; apply N; tauto|].
  apply F; intros E; apply N; tauto.
Qed.

(** ValidateMEAgainstManifests *)
Theorem ValidateME_exact : forall v f bpmsvn kmsvn kmid,
  (v = 1 -> (validate_me v f bpmsvn kmsvn kmid = good <->
             f_bpmsvn f = bpmsvn /\ f_kmsvn f = kmsvn /\ f_kmid f = kmid)) /\
  (v = 2 -> (validate_me v f bpmsvn kmsvn kmid = good <->
             f_bpmsvn f <= bpmsvn /\ f_kmsvn f = kmsvn /\ f_kmid f = kmid)).
Proof.
  intros. unfold validate_me, good, bad. split; intros ->; cbn [Z.eqb];
    brk; split; intros; try discriminate; try reflexivity; lia.
Qed.

(** no verdict that switches on the Boot Guard version reports success for a version that is
    neither 1.0 nor 2.0 *)
Theorem BG_unknown_version_failclosed : forall v, v <> 1 -> v <> 2 ->
  (forall f a b c, validate_me v f a b c = bad) /\
  (forall nse algs lsize sig, bpm_crypto v nse algs lsize sig = bad) /\
  (forall a1 algs, km_crypto v a1 algs = bad) /\
  (forall nse flags pbet base0 vtdbar txte nseg, sane_bpm v nse flags pbet base0 vtdbar txte nseg = bad) /\
  (forall nse flags pbet base0 vtdbar txte nseg, strict_sane_bpm v nse flags pbet base0 vtdbar txte nseg = bad).
Proof.
  intros v H1 H2.
  assert (E1 : (v =? 1) = false) by lia. assert (E2 : (v =? 2) = false) by lia.
  unfold validate_me, bpm_crypto, km_crypto, strict_sane_bpm, sane_bpm. rewrite E1, E2.
  repeat split.
Qed.

(** BPMCryptoSecure / KMCryptoSecure *)
Theorem BPMCrypto_v1_exact : forall nse algs lsize sig,
  (bpm_crypto 1 nse algs lsize sig = good <->
   nse <> 0 /\ insecure_alg (hd 0 algs) = false /\ insecure_alg sig = false).
Proof.
  intros nse algs lsize sig. unfold bpm_crypto, good, bad. cbn [Z.eqb].
  destruct (nse =? 0) eqn:En.
  - split; [discriminate|]. intros (H & _). lia.
  - destruct (insecure_alg (hd 0 algs)), (insecure_alg sig); split; intros; try discriminate; try reflexivity;
      try (repeat split; (lia || reflexivity)); decompose [and] H; discriminate.
Qed.

(** CBnT: the BPM signature must not use SHA1/Null, and a SHA1/Null IBB digest is tolerated
    only next to another digest (never as the only one); DigestList.Size plays no role *)
Theorem BPMCrypto_v2_exact : forall nse algs lsize sig,
  (bpm_crypto 2 nse algs lsize sig = good <->
   nse <> 0 /\ insecure_alg sig = false /\ (forall a, algs = [a] -> insecure_alg a = false)).
Proof.
  intros nse algs lsize sig. unfold bpm_crypto, good, bad. cbn [Z.eqb].
  destruct (nse =? 0) eqn:En.
  { split; [discriminate|]. intros (H & _). lia. }
  destruct (existsb (fun a => insecure_alg a && (Z.of_nat (length algs) <? 2)) algs) eqn:Ex.
  - split; [discriminate|]. intros (_ & _ & H). apply existsb_exists in Ex. destruct Ex as (a & Ha & Hb).
    apply andb_prop in Hb. destruct Hb as [Hb1 Hb2].
    destruct algs as [|x [|y t]]; [destruct Ha| |cbn [length] in Hb2; lia].
    destruct Ha as [<-|[]]. rewrite (H x eq_refl) in Hb1. discriminate.
  - destruct (insecure_alg sig); [split; [discriminate|intros (_ & H & _); discriminate]|].
    split; [|reflexivity]. intros _. split; [lia|]. split; [reflexivity|]. intros a ->.
    cbn in Ex. destruct (insecure_alg a); [discriminate|reflexivity].
Qed.

(** the former witness: a single SHA1 digest, DigestList.Size 28 *)
Theorem BPMCrypto_v2_sha1_rejected : bpm_crypto 2 1 [4] 28 11 = bad.
Proof. reflexivity. Qed.

Theorem KMCrypto_exact : forall a1 algs,
  (km_crypto 1 a1 algs = good <-> insecure_alg a1 = false /\ insecure_alg (hd 0 algs) = false) /\
  (km_crypto 2 a1 algs = good <-> insecure_alg a1 = false /\ forall a, In a algs -> insecure_alg a = false).
Proof.
  intros a1 algs. unfold km_crypto, good, bad. cbn [Z.eqb]. split.
  - destruct (insecure_alg a1), (insecure_alg (hd 0 algs)); split; intros; try discriminate; try reflexivity; try tauto;
      destruct H; discriminate.
  - destruct (insecure_alg a1); [split; [discriminate|intros [H _]; discriminate]|].
    destruct (existsb insecure_alg algs) eqn:Ex.
    + split; [discriminate|]. intros [_ H]. apply existsb_exists in Ex. destruct Ex as (a & Ha & Hb).
      rewrite (H a Ha) in Hb. discriminate.
    + split; [|reflexivity]. intros _. split; [reflexivity|]. intros a Ha.
      destruct (insecure_alg a) eqn:Ea; [|reflexivity].
      assert (existsb insecure_alg algs = true) by (apply existsb_exists; exists a; auto). congruence.
Qed.

(** SaneBPMSecurityProps: none of the named disqualifying conditions holds
    (DMA protection off, PCR-7 authority measurement off, PBET 0, no IBB
    segment, S-ACM not extending static PCRs - which needs a TXT element) *)
Definition bpm_ok (v flags pbet base0 vtdbar : Z) (txte : option Z) (nseg : Z) : Prop :=
  (v = 1 -> bit flags 0 = true) /\
  (v = 2 -> bit flags 0 = true \/ base0 <> 0 \/ vtdbar <> 0) /\
  bit flags 2 = true /\ Z.land pbet 15 <> 0 /\ 1 <= nseg /\
  (v = 2 -> exists cf, txte = Some cf /\ bit cf 9 = false).

Lemma sane_bpm_v1 nse flags pbet base0 vtdbar txte nseg :
  (sane_bpm 1 nse flags pbet base0 vtdbar txte nseg = good <->
   nse <> 0 /\ bit flags 0 = true /\ bit flags 2 = true /\ Z.land pbet 15 <> 0 /\ 1 <= nseg).
Proof.
  unfold sane_bpm, good, bad. cbn [Z.eqb].
  destruct (nse =? 0) eqn:En; [split; [discriminate|intros (H & _); lia]|].
  destruct (bit flags 0), (bit flags 2); cbn [negb];
    destruct (Z.land pbet 15 =? 0) eqn:Ep; destruct (nseg <? 1) eqn:Es;
    split; intros H; try discriminate H; try reflexivity;
    try (decompose [and] H; first [discriminate | lia]);
    repeat split; lia.
Qed.

Lemma sane_bpm_v2 nse flags pbet base0 vtdbar txte nseg :
  (sane_bpm 2 nse flags pbet base0 vtdbar txte nseg = good <->
   nse <> 0 /\ exists cf, txte = Some cf /\
   (bit flags 0 = true \/ base0 <> 0 \/ vtdbar <> 0) /\ bit flags 2 = true /\ Z.land pbet 15 <> 0 /\
   bit cf 9 = false /\ 1 <= nseg).
Proof.
  unfold sane_bpm, good, bad. cbn [Z.eqb].
  destruct (nse =? 0) eqn:En; [split; [discriminate|intros (H & _); lia]|].
  destruct txte as [cf|]; [|split; [discriminate|intros (_ & cf & H & _); discriminate]].
  destruct (bit flags 0), (bit flags 2), (bit cf 9) eqn:E9; cbn [negb andb];
    destruct (base0 =? 0) eqn:Eb; destruct (vtdbar =? 0) eqn:Ev; cbn [andb];
    destruct (Z.land pbet 15 =? 0) eqn:Ep; destruct (nseg <? 1) eqn:Es;
    split; intros H; try discriminate H; try reflexivity;
    try (destruct H as (_ & cf' & [= <-] & H); rewrite ?E9 in H; decompose [and or] H; first [discriminate | lia]);
    (split; [lia|]; exists cf; split; [reflexivity|]; rewrite ?E9;
     repeat split; try lia; try (left; reflexivity); try (right; left; lia); try (right; right; lia)).
Qed.

(** never a panic: a verdict for every manifest (empty SE list, no TXT element included) *)
Theorem SaneBPM_total : forall (strict : bool) v nse flags pbet base0 vtdbar txte nseg,
  let r := (if strict then strict_sane_bpm else sane_bpm) v nse flags pbet base0 vtdbar txte nseg in
  r = good \/ r = bad.
Proof.
  intros strict v nse flags pbet base0 vtdbar txte nseg. cbv zeta.
  assert (S : sane_bpm v nse flags pbet base0 vtdbar txte nseg = good \/ sane_bpm v nse flags pbet base0 vtdbar txte nseg = bad).
  { unfold sane_bpm, good, bad. destruct txte; brk; auto. }
  destruct strict; [|exact S].
  unfold strict_sane_bpm. destruct txte; brk; auto.
Qed.

Theorem SaneBPM_failclosed : forall v nse flags pbet base0 vtdbar txte nseg,
  sane_bpm v nse flags pbet base0 vtdbar txte nseg = good ->
  (v = 1 \/ v = 2) /\ nse <> 0 /\ bpm_ok v flags pbet base0 vtdbar txte nseg.
Proof.
  intros v nse flags pbet base0 vtdbar txte nseg H.
  assert (Hv : v = 1 \/ v = 2).
  { destruct (Z.eq_dec v 1); [auto|]. destruct (Z.eq_dec v 2); [auto|].
    rewrite (proj1 (proj2 (proj2 (proj2 (BG_unknown_version_failclosed v n n0))))) in H. discriminate. }
  split; [exact Hv|]. destruct Hv as [-> | ->].
  - apply sane_bpm_v1 in H. destruct H as (Hn & H0 & H2 & Hp & Hs).
    split; [assumption|]. unfold bpm_ok. repeat split; try assumption; intros; lia.
  - apply sane_bpm_v2 in H. destruct H as (Hn & cf & -> & H0 & H2 & Hp & H9 & Hs).
    split; [assumption|]. unfold bpm_ok. repeat split; try assumption; try (intros; lia).
    intros _. exists cf. split; [reflexivity|assumption].
Qed.

Theorem SaneBPM_accepts : forall v nse flags pbet base0 vtdbar txte nseg,
  v = 1 \/ v = 2 -> nse <> 0 ->
  bpm_ok v flags pbet base0 vtdbar txte nseg ->
  sane_bpm v nse flags pbet base0 vtdbar txte nseg = good.
Proof.
  intros v nse flags pbet base0 vtdbar txte nseg [-> | ->] Hn (K1 & K2 & K3 & K4 & K5 & K6).
  - apply sane_bpm_v1. repeat split; try assumption. apply K1. reflexivity.
  - destruct (K6 eq_refl) as (cf & -> & H9). apply sane_bpm_v2. split; [assumption|].
    exists cf. repeat split; try assumption. apply K2. reflexivity.
Qed.

Theorem StrictSaneBPM_failclosed : forall v nse flags pbet base0 vtdbar txte nseg,
  strict_sane_bpm v nse flags pbet base0 vtdbar txte nseg = good ->
  (v = 1 \/ v = 2) /\ nse <> 0 /\
  bpm_ok v flags pbet base0 vtdbar txte nseg /\ bit flags 3 = true /\
  (v = 2 -> exists cf, txte = Some cf /\ bits cf 5 3 = 2).
Proof.
  intros v nse flags pbet base0 vtdbar txte nseg H.
  assert (S : sane_bpm v nse flags pbet base0 vtdbar txte nseg = good /\ bit flags 3 = true /\
              (v = 2 -> exists cf, txte = Some cf /\ bits cf 5 3 = 2)).
  { unfold strict_sane_bpm in H.
    destruct (v =? 1) eqn:E1; [|destruct (v =? 2) eqn:E2].
    - destruct (nse =? 0); [discriminate|].
      destruct (bit flags 2); cbn [negb] in H; [|discriminate].
      destruct (bit flags 3); cbn [negb] in H; [|discriminate].
      split; [exact H|]. split; [reflexivity|]. intros; lia.
    - destruct (nse =? 0); [discriminate|].
      destruct txte as [cf|]; [|discriminate].
      destruct (bit flags 2); cbn [negb] in H; [|discriminate].
      destruct (bit flags 3); cbn [negb] in H; [|discriminate].
      destruct (bits cf 5 3 =? 2) eqn:Ec; cbn [negb] in H; [|discriminate].
      split; [exact H|]. split; [reflexivity|]. intros _. exists cf. split; [reflexivity|lia].
    - exfalso. rewrite (proj1 (proj2 (proj2 (proj2 (BG_unknown_version_failclosed v ltac:(lia) ltac:(lia)))))) in H. discriminate. }
  destruct S as (S1 & S2 & S3).
  destruct (SaneBPM_failclosed v nse flags pbet base0 vtdbar txte nseg S1) as (A & B & C).
  split; [exact A|split; [exact B|split; [exact C|split; [exact S2|exact S3]]]].
Qed.

(** the former witnesses: empty SE list, CBnT BPM without TXT element - rejected, no panic *)
Theorem SaneBPM_former_witnesses :
  (forall v flags pbet base0 vtdbar txte nseg, sane_bpm v 0 flags pbet base0 vtdbar txte nseg = bad) /\
  sane_bpm 2 1 13 15 0 0 None 1 = bad /\ strict_sane_bpm 2 1 13 15 0 0 None 1 = bad.
Proof.
  split; [|split; reflexivity].
  intros v flags pbet base0 vtdbar txte nseg. unfold sane_bpm, bad. change (0 =? 0) with true.
  destruct (v =? 1), (v =? 2); reflexivity.
Qed.

(** * 5. Single-register verdicts: exact bit patterns *)

Theorem IBBMeasured_exact : forall w, ibb_measured w = pass <-> bit w 63 = true /\ bit w 62 = false.
Proof. intros. unfold ibb_measured, pass, fail. destruct (bit w 62), (bit w 63); cbn; split; intros; try discriminate; try reflexivity; try tauto; destruct H; discriminate. Qed.

Theorem IBBIsTrusted_exact : forall w, ibb_trusted w = pass <-> bit w 63 = true /\ bit w 59 = true.
Proof. intros. unfold ibb_trusted, pass, fail. destruct (bit w 59), (bit w 63); cbn; split; intros; try discriminate; try reflexivity; try tauto; destruct H; discriminate. Qed.

Theorem ValidTXTRegister_exact : forall a p b,
  valid_txt_register a p b = good <-> bit a 31 = true /\ bit a 15 = true /\ bit p 6 = false /\ bit b 31 = true.
Proof.
  intros. unfold valid_txt_register, good, bad.
  destruct (bit a 31), (bit a 15), (bit p 6), (bit b 31); cbn; split; intros; try discriminate; try reflexivity; try tauto;
    decompose [and] H; discriminate.
Qed.

(** SDM: CPUID.1:ECX[11] = 1 says IA32_DEBUG_INTERFACE exists; the interface is
    safe when the MSR does not exist or is locked, disabled and not strapped *)
Definition debug_spec (ecx msr : Z) : Prop :=
  bit ecx 11 = false \/ (bit msr 31 = false /\ bit msr 30 = true /\ bit msr 0 = false).

Theorem DebugInterface_exact : forall ecx msr,
  debug_locked ecx msr = pass <-> debug_spec ecx msr.
Proof.
  intros. unfold debug_locked, debug_spec, pass, fail.
  destruct (bit ecx 11), (bit msr 31), (bit msr 30), (bit msr 0); cbn; split; intros; try discriminate; try reflexivity; try tauto;
    decompose [or and] H; discriminate.
Qed.

(** the former witness: interface present (ECX[11] = 1), enabled and unlocked *)
Theorem DebugInterface_enabled_rejected : debug_locked 2048 1 = fail.
Proof. reflexivity. Qed.

Theorem SmallChecks_exact :
  (forall e, no_sinit_errors e = pass <-> e = 3221225473) /\
  (forall d, dpr_locked d = pass <-> bit d 0 = true) /\
  (forall ver size nproc, biosdata_valid ver size nproc = pass <-> 2 <= ver /\ 8 <= size /\ nproc <> 0) /\
  (forall sig, weybridge_or_later sig = pass <-> bits sig 8 15 = 6) /\
  (forall fc, txt_not_disabled fc = pass <->
     Z.land (bits fc 8 511) 255 = 255 \/ Z.land (bits fc 8 511) 256 = 256) /\
  (forall fc, ia32_feature_ctrl fc = pass <-> bit fc 0 = true).
Proof.
  unfold no_sinit_errors, dpr_locked, biosdata_valid, weybridge_or_later, txt_not_disabled, ia32_feature_ctrl, pass, fail.
  repeat split; intros; brk; try discriminate; try reflexivity; try lia; try assumption.
Qed.
