(** Proofs about Model/Verdicts.v (property C05). *)
From CSS Require Import Lib.Base Model.Verdicts.
From Coq Require Import ZifyBool.

Local Open Scope Z_scope.

(** * Arithmetic helpers *)

Lemma wrap32_small z : 0 <= z < W32 -> wrap32 z = z.
Proof. intros. rewrite wrap32_mod. apply Z.mod_small. assumption. Qed.

Lemma wrap32_over z : W32 <= z < 2 * W32 -> wrap32 z = z - W32.
Proof.
  intros. rewrite wrap32_mod. unfold W32 in *.
  replace z with ((z - 4294967296) + 1 * 4294967296) at 1 by lia.
  rewrite Z.mod_add by lia. apply Z.mod_small. lia.
Qed.

Lemma wrap32_under z : - W32 <= z < 0 -> wrap32 z = z + W32.
Proof.
  intros. rewrite wrap32_mod. unfold W32 in *.
  replace z with ((z + 4294967296) + (-1) * 4294967296) at 1 by lia.
  rewrite Z.mod_add by lia. apply Z.mod_small. lia.
Qed.

Lemma wrap64_small z : 0 <= z < W64 -> wrap64 z = z.
Proof. intros. rewrite wrap64_mod. apply Z.mod_small. assumption. Qed.

Lemma wrap16_small z : 0 <= z < W16 -> wrap16 z = z.
Proof. intros. rewrite wrap16_mod. apply Z.mod_small. assumption. Qed.

Lemma wrap32_range z : 0 <= wrap32 z < W32.
Proof. rewrite wrap32_mod. apply Z.mod_pos_bound. reflexivity. Qed.

Lemma bits_ones_range w lo k : 0 <= k -> 0 <= bits w lo (Z.ones k) < 2 ^ k.
Proof.
  intros. unfold bits. rewrite Z.land_ones by assumption. apply Z.mod_pos_bound.
  apply Z.pow_pos_nonneg; lia.
Qed.

Lemma wrap64_over z : W64 <= z < 2 * W64 -> wrap64 z = z - W64.
Proof.
  intros. rewrite wrap64_mod. unfold W64 in *.
  replace z with ((z - 18446744073709551616) + 1 * 18446744073709551616) at 1 by lia.
  rewrite Z.mod_add by lia. apply Z.mod_small. lia.
Qed.

(** * 1. FIT *)

(** half-open intervals [a, a+s) on unbounded integers *)
Definition overlapZ (a1 s1 a2 s2 : Z) : Prop :=
  exists x, a1 <= x < a1 + s1 /\ a2 <= x < a2 + s2.
Definition containsZ (a s lo hi : Z) : Prop := a <= lo /\ hi <= a + s.

(** fields in the range of their Go types: uint64 address, 24-bit size *)
Definition fent_typed (e : fent) : Prop := 0 <= fa e < W64 /\ 0 <= fs e < 16777216.
(** the range of a BIOS startup module stays inside the 64-bit address space *)
Definition ibb_iv_ok (e : fent) : Prop := 0 <= fa e /\ 0 <= fs e /\ fa e + fs e * 16 < W64.
Definition all_iv_ok (l : list fent) : Prop := forall e, In e l -> ibb_iv_ok e.

(** ** getFITDataSize *)

Lemma acm_raw_size_range mem e s : acm_raw_size mem e = Ok s -> 0 <= s < W32.
Proof.
  unfold acm_raw_size. destruct (_ || _); [discriminate|].
  destruct (mem_lookup _ mem); [|discriminate]. intros [= <-]. apply wrap32_range.
Qed.

(** a size that [getFITDataSize] hands out is non-negative and keeps the range below 2^64 *)
Lemma dsz_ok_inv mem e s : fent_typed e -> dsz mem e = Ok s ->
  0 <= s /\ fa e + s < W64 /\ (ft e <> T_SACM -> s = fs e * 16).
Proof.
  intros (A & S) H. unfold dsz in H.
  assert (K : forall r, 0 <= r < W64 ->
            (if wrap64 (fa e + r) <? fa e then Err 3 else Ok r) = Ok s -> 0 <= s /\ fa e + s < W64 /\ r = s).
  { intros r Hr H1. destruct (Z_lt_le_dec (fa e + r) W64) as [L|L].
    - rewrite wrap64_small in H1 by lia. destruct (fa e + r <? fa e); [discriminate|]. injection H1 as <-. lia.
    - rewrite wrap64_over in H1 by (unfold W64 in *; lia).
      replace (fa e + r - W64 <? fa e) with true in H1 by (unfold W64 in *; lia). discriminate. }
  destruct (ft e =? T_SACM) eqn:Et.
  - destruct (acm_raw_size mem e) as [r| | |] eqn:Er; cbn [bind] in H; try discriminate.
    apply acm_raw_size_range in Er.
    destruct (K r ltac:(unfold W32, W64 in *; lia) H) as (K1 & K2 & _). repeat split; try assumption. intros; lia.
  - cbn [bind] in H. destruct (K (fs e * 16) ltac:(unfold W64; lia) H) as (K1 & K2 & K3).
    repeat split; try assumption. intros _. lia.
Qed.

Lemma dsz_ibb mem e : ft e = T_IBB -> fent_typed e ->
  (fa e + fs e * 16 < W64 -> dsz mem e = Ok (fs e * 16)) /\
  (W64 <= fa e + fs e * 16 -> dsz mem e = Err 3).
Proof.
  intros T (A & S). unfold dsz. rewrite T. change (T_IBB =? T_SACM) with false. cbn [bind]. split; intros H.
  - rewrite wrap64_small by lia. replace (fa e + fs e * 16 <? fa e) with false by lia. reflexivity.
  - rewrite wrap64_over by (unfold W64 in *; lia).
    replace (fa e + fs e * 16 - W64 <? fa e) with true by (unfold W64 in *; lia). reflexivity.
Qed.

(** neither a panic nor an endless loop: every outcome is a value or an error *)
Definition benign {A} (o : outcome A) : Prop :=
  match o with Ok _ | Err _ => True | _ => False end.

Lemma dsz_benign mem e : benign (dsz mem e).
Proof.
  unfold dsz, acm_raw_size.
  destruct (ft e =? T_SACM); cbn [bind].
  - destruct (_ || _); cbn [bind]; [exact I|].
    destruct (mem_lookup _ mem); cbn [bind]; [|exact I].
    destruct (_ <? _); exact I.
  - destruct (_ <? _); exact I.
Qed.

Section FITProofs.
Variable dsz0 : fent -> outcome Z.
Variable t2 : Z.
Hypothesis dsz0_benign : forall e, benign (dsz0 e).
(** what an [Ok] of the size function guarantees (instantiated with [dsz_ok_inv]) *)
Hypothesis dsz0_inv : forall e s, fent_typed e -> dsz0 e = Ok s -> 0 <= s /\ fa e + s < W64.

Lemma overlap_test_benign e1 e2 : benign (overlap_test dsz0 e1 e2).
Proof.
  unfold overlap_test. pose proof (dsz0_benign e1) as B1. pose proof (dsz0_benign e2) as B2.
  destruct (dsz0 e1); cbn [bind benign] in *; try exact B1.
  destruct (dsz0 e2); cbn [bind benign] in *; try exact B2. exact I.
Qed.

Lemma overlap_test_false e1 e2 : fent_typed e1 -> fent_typed e2 -> overlap_test dsz0 e1 e2 = Ok false ->
  exists s1 s2, dsz0 e1 = Ok s1 /\ dsz0 e2 = Ok s2 /\ ~ overlapZ (fa e1) s1 (fa e2) s2.
Proof.
  unfold overlap_test. intros (A1 & _) (A2 & _) H.
  destruct (dsz0 e1) as [s1| | |] eqn:E1; cbn [bind] in H; try discriminate.
  destruct (dsz0 e2) as [s2| | |] eqn:E2; cbn [bind] in H; try discriminate.
  exists s1, s2. split; [reflexivity|]. split; [reflexivity|].
  destruct (dsz0_inv _ _ ltac:(split; eassumption || lia) E1) as (S1 & W1) || idtac.
  unfold end64 in H. rewrite !wrap64_small in H by lia. injection H as H.
  intros (x & Hx1 & Hx2).
  destruct (fa e1 >=? fa e2 + s2) eqn:Ea; destruct (fa e2 >=? fa e1 + s1) eqn:Eb; cbn in H; try discriminate; lia.
Qed.

(** conversely, for non-empty ranges (an empty range strictly inside another one is reported) *)
Lemma overlap_test_complete e1 e2 s1 s2 :
  dsz0 e1 = Ok s1 -> dsz0 e2 = Ok s2 -> 0 < s1 -> 0 < s2 ->
  ~ overlapZ (fa e1) s1 (fa e2) s2 -> overlap_test dsz0 e1 e2 = Ok false.
Proof.
  intros E1 E2 P1 P2 H. unfold overlap_test. rewrite E1, E2. cbn [bind].
  destruct (dsz0_inv _ _ E1) as (A1 & S1 & W1). destruct (dsz0_inv _ _ E2) as (A2 & S2 & W2).
  unfold end64. rewrite !wrap64_small by lia. f_equal.
  destruct (fa e1 >=? fa e2 + s2) eqn:Ea; [reflexivity|].
  destruct (fa e2 >=? fa e1 + s1) eqn:Eb; [reflexivity|].
  exfalso. apply H. unfold overlapZ.
  destruct (Z_le_gt_dec (fa e1) (fa e2)).
  - exists (fa e2). lia.
  - exists (fa e1). lia.
Qed.

Lemma inner_benign h tl : benign (inner dsz0 t2 h tl).
Proof.
  induction tl as [|x tl IH]; cbn [inner]; [exact I|].
  destruct (ft x =? t2); [|exact IH].
  pose proof (overlap_test_benign h x) as B.
  destruct (overlap_test dsz0 h x) as [[|]| | |]; cbn [bind benign] in *; try exact B; try exact I. exact IH.
Qed.

Lemma inner_sound h tl : inner dsz0 t2 h tl = Ok false ->
  forall e, In e tl -> ft e = t2 -> overlap_test dsz0 h e = Ok false.
Proof.
  induction tl as [|x tl IH]; intros H e He Te; [destruct He|].
  cbn [inner] in H. destruct (ft x =? t2) eqn:Ex.
  - destruct (overlap_test dsz0 h x) as [[|]| | |] eqn:Ho; cbn [bind] in H; try discriminate.
    destruct He as [<-|He]; [assumption|]. apply IH; assumption.
  - destruct He as [<-|He]; [lia|]. apply IH; assumption.
Qed.

Lemma inner_complete h tl :
  (forall e, In e tl -> ft e = t2 -> overlap_test dsz0 h e = Ok false) ->
  inner dsz0 t2 h tl = Ok false.
Proof.
  induction tl as [|x tl IH]; intros H; cbn [inner]; [reflexivity|].
  destruct (ft x =? t2) eqn:Ex.
  - apply Z.eqb_eq in Ex. rewrite (H x (or_introl eq_refl) Ex). cbn [bind].
    apply IH. intros e He. apply H. right. exact He.
  - apply IH. intros e He. apply H. right. exact He.
Qed.

Lemma pairs_benign l : benign (pairs_check dsz0 t2 l).
Proof.
  induction l as [|h tl IH]; cbn [pairs_check]; [exact I|].
  destruct (ft h =? T_IBB); [|exact IH].
  pose proof (inner_benign h tl) as B.
  destruct (inner dsz0 t2 h tl) as [[|]| | |]; cbn [bind benign] in *; try exact B; try exact I. exact IH.
Qed.

Lemma pairs_sound l : pairs_check dsz0 t2 l = Ok false ->
  forall l1 e1 l2 e2 l3, l = l1 ++ e1 :: l2 ++ e2 :: l3 ->
    ft e1 = T_IBB -> ft e2 = t2 -> overlap_test dsz0 e1 e2 = Ok false.
Proof.
  induction l as [|h tl IH]; intros H l1 e1 l2 e2 l3 E T1 T2.
  - destruct l1; discriminate.
  - cbn [pairs_check] in H. destruct l1 as [|y l1]; cbn [app] in E; injection E as -> ->.
    + rewrite (proj2 (Z.eqb_eq _ _) T1) in H.
      destruct (inner dsz0 t2 e1 (l2 ++ e2 :: l3)) as [[|]| | |] eqn:Hi; cbn [bind] in H; try discriminate.
      eapply inner_sound; eauto. apply in_or_app. right. left. reflexivity.
    + destruct (ft y =? T_IBB) eqn:Ey.
      * destruct (inner dsz0 t2 y (l1 ++ e1 :: l2 ++ e2 :: l3)) as [[|]| | |] eqn:Hi; cbn [bind] in H; try discriminate.
        eapply IH; eauto.
      * eapply IH; eauto.
Qed.

Lemma pairs_complete l :
  (forall l1 e1 l2 e2 l3, l = l1 ++ e1 :: l2 ++ e2 :: l3 ->
     ft e1 = T_IBB -> ft e2 = t2 -> overlap_test dsz0 e1 e2 = Ok false) ->
  pairs_check dsz0 t2 l = Ok false.
Proof.
  induction l as [|h tl IH]; intros H; cbn [pairs_check]; [reflexivity|].
  assert (Htl : pairs_check dsz0 t2 tl = Ok false).
  { apply IH. intros l1 e1 l2 e2 l3 E. apply (H (h :: l1) e1 l2 e2 l3). cbn [app]. rewrite E. reflexivity. }
  destruct (ft h =? T_IBB) eqn:Eh; [|exact Htl].
  apply Z.eqb_eq in Eh. rewrite (inner_complete h tl).
  - cbn [bind]. exact Htl.
  - intros e He Te. destruct (in_split _ _ He) as (l2 & l3 & ->).
    apply (H [] h l2 e l3); [reflexivity|assumption|assumption].
Qed.

Lemma pairs_all_benign full l : benign (pairs_all dsz0 t2 full l).
Proof.
  induction l as [|h tl IH]; cbn [pairs_all]; [exact I|].
  destruct (ft h =? T_IBB); [|exact IH].
  pose proof (inner_benign h full) as B.
  destruct (inner dsz0 t2 h full) as [[|]| | |]; cbn [bind benign] in *; try exact B; try exact I. exact IH.
Qed.

Lemma pairs_all_sound full l : pairs_all dsz0 t2 full l = Ok false ->
  forall h e, In h l -> In e full -> ft h = T_IBB -> ft e = t2 -> overlap_test dsz0 h e = Ok false.
Proof.
  induction l as [|x tl IH]; intros H h e Hh He Th Te; [destruct Hh|].
  cbn [pairs_all] in H. destruct (ft x =? T_IBB) eqn:Ex.
  - destruct (inner dsz0 t2 x full) as [[|]| | |] eqn:Hi; cbn [bind] in H; try discriminate.
    destruct Hh as [<-|Hh].
    + eapply inner_sound; eauto.
    + eapply IH; eauto.
  - destruct Hh as [<-|Hh]; [lia|]. eapply IH; eauto.
Qed.

Lemma pairs_all_complete full l :
  (forall h e, In h l -> In e full -> ft h = T_IBB -> ft e = t2 -> overlap_test dsz0 h e = Ok false) ->
  pairs_all dsz0 t2 full l = Ok false.
Proof.
  induction l as [|x tl IH]; intros H; cbn [pairs_all]; [reflexivity|].
  assert (Htl : pairs_all dsz0 t2 full tl = Ok false).
  { apply IH. intros h e Hh. apply H. right. exact Hh. }
  destruct (ft x =? T_IBB) eqn:Ex; [|exact Htl].
  apply Z.eqb_eq in Ex. rewrite (inner_complete x full).
  - cbn [bind]. exact Htl.
  - intros e He Te. apply H; try assumption. left. reflexivity.
Qed.

Lemma covers_benign lo hi l : benign (covers dsz0 lo hi l).
Proof.
  induction l as [|e tl IH]; cbn [covers]; [exact I|].
  destruct (ft e =? T_IBB); [|exact IH].
  pose proof (dsz0_benign e) as B.
  destruct (dsz0 e); cbn [bind benign] in *; try exact B.
  destruct (_ && _); [exact I|exact IH].
Qed.

Lemma acm_above_benign l : benign (acm_above_4g dsz0 l).
Proof.
  induction l as [|e tl IH]; cbn [acm_above_4g]; [exact I|].
  destruct (ft e =? T_SACM); [|exact IH].
  pose proof (dsz0_benign e) as B.
  destruct (dsz0 e); cbn [bind benign] in *; try exact B.
  destruct (_ >? _); [exact I|exact IH].
Qed.
End FITProofs.

Lemma verd_of_found_pass o : verd_of_found o = pass <-> o = Ok false.
Proof. unfold verd_of_found, pass, fail, ierr; destruct o as [[|]| | |]; split; intros; congruence. Qed.

Lemma verd_of_found_benign o : benign o -> verd_of_found o <> VPanic.
Proof. unfold verd_of_found, pass, fail, ierr; destruct o as [[|]| | |]; cbn; intros; try congruence; contradiction. Qed.

Lemma verd_of_covers_pass o : verd_of_covers o = pass <-> o = Ok true.
Proof. unfold verd_of_covers, pass, fail, ierr; destruct o as [[|]| | |]; split; intros; congruence. Qed.

Lemma verd_of_covers_benign o : benign o -> verd_of_covers o <> VPanic.
Proof. unfold verd_of_covers, pass, fail, ierr; destruct o as [[|]| | |]; cbn; intros; try congruence; contradiction. Qed.

(** the instance used throughout: the size function of the code over typed entries *)
Definition typed_table (l : list fent) : Prop := forall e, In e l -> fent_typed e.

(** [dsz mem] restricted to the entries of a typed table satisfies the section hypotheses;
    entries outside the table never matter, so the restriction is harmless *)
Definition dszT (mem : physmem) (l : list fent) (e : fent) : outcome Z := dsz mem e.

Lemma dsz_inv_in mem l : typed_table l -> forall e s, In e l -> dsz mem e = Ok s ->
  0 <= fa e /\ 0 <= s /\ fa e + s < W64.
Proof.
  intros Hty e s He H. destruct (dsz_ok_inv mem e s (Hty e He) H) as (S & W & _).
  destruct (Hty e He) as (A & _). lia.
Qed.

(** * 2. TXT memory *)

Definition u32 (z : Z) : Prop := 0 <= z < W32.

(** what TXTHeapSpaceValid is meant to decide (its own error texts), on unbounded integers *)
Definition heap_spec (hb hs sb ss : Z) : Prop :=
  hb + hs < W32 /\ LEGACY_MIN_HEAP <= hs /\ sb mod 4096 = 0 /\ sb + ss < W32 /\ MIN_SINIT <= ss /\
  sb < hb /\ (0 < sb -> sb + ss = hb).

Lemma land_4095 z : 0 <= z -> Z.land z 4095 = z mod 4096.
Proof. intros. change 4095 with (Z.ones 12). rewrite Z.land_ones by lia. reflexivity. Qed.

Ltac brk :=
  repeat match goal with
         | |- context [if ?c then _ else _] => destruct c eqn:?
         | H : context [if ?c then _ else _] |- _ => destruct c eqn:?
         end.

Theorem HeapValid_partial : forall hb hs sb ss mj,
  u32 hb -> u32 hs -> u32 sb -> u32 ss -> u32 mj ->
  hb + hs < W32 ->                                   (* no 32-bit wrap of the heap end *)
  (heap_valid hb hs sb ss mj = pass <-> heap_spec hb hs sb ss).
Proof.
  unfold u32, heap_spec, heap_valid, W32, FOUR_GIB, LEGACY_MIN_HEAP, MIN_SINIT.
  intros hb hs sb ss mj Hhb Hhs Hsb Hss Hmj Hnw.
  rewrite land_4095 by lia.
  rewrite (wrap32_small (hb + hs)) by (unfold W32; lia).
  pose proof (Z.mod_pos_bound sb 4096 ltac:(lia)) as Hm.
  assert (Hw : sb + ss < 4294967296 -> wrap32 (sb + ss) = sb + ss) by (intros; apply wrap32_small; unfold W32; lia).
  assert (Hv : 4294967296 <= sb + ss -> wrap32 (sb + ss) = sb + ss - 4294967296) by (intros; rewrite wrap32_over; unfold W32; lia).
  pose proof (wrap32_range (sb + ss)) as Hr. unfold W32 in Hr.
  unfold pass, fail.
  destruct (Z_lt_le_dec (sb + ss) 4294967296) as [L|L]; [rewrite (Hw L) in *|rewrite (Hv L) in *];
    brk; split; intros; try discriminate; try reflexivity; try lia.
Qed.

Theorem HeapValid_wrap32_refuted :
  exists hb hs sb ss mj, u32 hb /\ u32 hs /\ u32 sb /\ u32 ss /\ u32 mj /\
    heap_valid hb hs sb ss mj = pass /\ ~ heap_spec hb hs sb ss.
Proof.
  exists 4293918720, 2097152, 0, 65536, 0. unfold u32, W32.
  repeat split; try lia; try (vm_compute; congruence).
  unfold heap_spec, W32. lia.
Qed.

(** the vacuous guards: uint64(a+b) >= 4 GiB never fires *)
Theorem HeapValid_guards_vacuous : forall a b, (wrap32 (a + b) >=? FOUR_GIB) = false.
Proof. intros. pose proof (wrap32_range (a + b)). unfold W32, FOUR_GIB in *. lia. Qed.

(** TXTMemoryIsDPR *)
Definition dpr_spec (S L hb hs sb ss : Z) : Prop :=
  3 * MiB <= S /\ L - S <= hb /\ (0 < sb -> L - S <= sb) /\ hb + hs = L /\
  (0 < sb -> sb + ss <= L) /\ 2 * MiB + hs + ss <= S.

Theorem DPR_partial : forall dpr hb hs sb ss,
  u32 hb -> u32 hs -> u32 sb -> u32 ss ->
  let S := bits dpr 4 255 * MiB in
  let L := (bits dpr 20 4095 + 1) * MiB in
  bits dpr 20 4095 < 4095 ->          (* DPR top below 4 GiB: (top+1)<<20 fits in uint32 *)
  S <= L ->                           (* base does not underflow *)
  hb + hs < W32 -> sb + ss < W32 ->   (* no 32-bit wrap of the region ends *)
  2 * MiB + hs + ss <= L ->           (* limit - 2 MiB - heap - sinit does not underflow *)
  (memory_is_dpr dpr hb hs sb ss = pass <-> dpr_spec S L hb hs sb ss).
Proof.
  intros dpr hb hs sb ss Hhb Hhs Hsb Hss S L Htop HSL Hh Hs Hm.
  pose proof (bits_ones_range dpr 4 8 ltac:(lia)) as R1. change (Z.ones 8) with 255 in R1.
  pose proof (bits_ones_range dpr 20 12 ltac:(lia)) as R2. change (Z.ones 12) with 4095 in R2.
  unfold memory_is_dpr, dpr_base, dpr_limit, dpr_size, dpr_spec. fold S.
  unfold u32, W32, MiB in *.
  rewrite (wrap16_small (bits dpr 20 4095 + 1)) by (unfold W16; lia).
  change ((bits dpr 20 4095 + 1) * 1048576) with L. unfold MiB in S, L.
  rewrite (wrap32_small S) by (unfold W32; subst S; lia).
  rewrite (wrap32_small L) by (unfold W32; subst L; lia).
  rewrite (wrap32_small (L - S)) by (unfold W32; subst S L; lia).
  rewrite (wrap32_small (hb + hs)) by (unfold W32; lia).
  rewrite (wrap32_small (sb + ss)) by (unfold W32; lia).
  assert (HL : L < 4294967296) by (subst L; lia).
  rewrite (wrap32_small (L - 2 * 1048576)) by (unfold W32; lia).
  rewrite (wrap32_small (L - 2 * 1048576 - hs)) by (unfold W32; lia).
  rewrite (wrap32_small (L - 2 * 1048576 - hs - ss)) by (unfold W32; lia).
  unfold pass, fail. brk; split; intros; try discriminate; try reflexivity; try lia.
Qed.

Theorem DPR_underflow_refuted :
  exists dpr hb hs sb ss, u32 hb /\ u32 hs /\ u32 sb /\ u32 ss /\
    memory_is_dpr dpr hb hs sb ss = pass /\
    ~ dpr_spec (bits dpr 4 255 * MiB) ((bits dpr 20 4095 + 1) * MiB) hb hs sb ss.
Proof.
  exists 2146435121, 2144337920, 3145728, 0, 4026531840. unfold u32, W32.
  repeat split; try lia; try (vm_compute; congruence).
  intros (_ & _ & _ & _ & _ & H). vm_compute in H. apply H. reflexivity.
Qed.

(** ValidSMRR: what a pass guarantees (read off the register values) *)
Theorem ValidSMRR_failclosed : forall pbm pmm tb tl,
  valid_smrr pbm pmm tb tl = pass ->
  let pb := bits pbm 12 1048575 in
  let pm := bits pmm 12 1048575 in
  pm <> 0 /\ pb <> 0 /\ tb <> 0 /\ tb <> U32MAX /\ tl <> 0 /\ tl <> U32MAX /\
  tb = wrap32 (pb * 4096) /\
  Z.land tb (U32MAX - wrap32 (pm * 4096)) = 0 /\
  Z.land tl (U32MAX - wrap32 (pm * 4096)) = 0 /\
  Z.land (wrap32 (tl - 1)) (wrap32 (pm * 4096)) = wrap32 (pb * 4096).
Proof.
  intros pbm pmm tb tl H. cbv zeta. unfold valid_smrr, pass, fail in H.
  brk; try discriminate. repeat split; lia.
Qed.

(** on every non-Broadwell-DE host bridge the library hands back limit 0:
    no SMRR/TSEG configuration is accepted there *)
Theorem ValidSMRR_sandy_never_passes : forall pbm pmm tb raw,
  valid_smrr pbm pmm tb (tseg_limit false raw) <> pass.
Proof.
  intros. unfold tseg_limit, valid_smrr, pass, fail. brk; discriminate.
Qed.

(** * 1b. FIT: completeness of the overlap scan, presence checks, FIT pointer/table bounds *)

Section FITComplete.
Variable dsz : fent -> outcome Z.
Variable t2 : Z.
Hypothesis dsz_ok : forall e, ft e = T_IBB \/ ft e = t2 -> dsz e = Ok (fs e * 16).

Lemma inner_complete h tl : ft h = T_IBB ->
  (forall e, In e tl -> ft e = t2 -> overlap_test dsz h e = Ok false) ->
  inner dsz t2 h tl = Ok false.
Proof.
  intros Th. induction tl as [|x tl IH]; intros H; cbn [inner]; [reflexivity|].
  destruct (ft x =? t2) eqn:Ex.
  - apply Z.eqb_eq in Ex. rewrite (H x (or_introl eq_refl) Ex). cbn [bind].
    apply IH. intros e He. apply H. right. exact He.
  - apply IH. intros e He. apply H. right. exact He.
Qed.

Lemma pairs_complete l :
  (forall l1 e1 l2 e2 l3, l = l1 ++ e1 :: l2 ++ e2 :: l3 ->
     ft e1 = T_IBB -> ft e2 = t2 -> overlap_test dsz e1 e2 = Ok false) ->
  pairs_check dsz t2 l = Ok false.
Proof.
  induction l as [|h tl IH]; intros H; cbn [pairs_check]; [reflexivity|].
  assert (Htl : pairs_check dsz t2 tl = Ok false).
  { apply IH. intros l1 e1 l2 e2 l3 E. apply (H (h :: l1) e1 l2 e2 l3). cbn [app]. rewrite E. reflexivity. }
  destruct (ft h =? T_IBB) eqn:Eh; [|exact Htl].
  apply Z.eqb_eq in Eh. rewrite (inner_complete h tl Eh).
  - cbn [bind]. exact Htl.
  - intros e He Te. destruct (in_split _ _ He) as (l2 & l3 & ->).
    apply (H [] h l2 e l3); [reflexivity|assumption|assumption].
Qed.

Lemma overlap_test_complete e1 e2 :
  ft e1 = T_IBB -> ft e2 = t2 -> ibb_iv_ok e1 -> ibb_iv_ok e2 ->
  0 < fs e1 -> 0 < fs e2 ->
  fa e1 <> fa e2 + fs e2 * 16 -> fa e2 <> fa e1 + fs e1 * 16 ->
  ~ overlapZ (fa e1) (fs e1 * 16) (fa e2) (fs e2 * 16) ->
  overlap_test dsz e1 e2 = Ok false.
Proof.
  intros T1 T2 (A1 & S1 & W1) (A2 & S2 & W2) P1 P2 N1 N2 H.
  unfold overlap_test. rewrite (dsz_ok e2), (dsz_ok e1) by auto.
  cbn [bind]. unfold end64. rewrite !wrap64_small by lia. f_equal.
  destruct (fa e1 >? fa e2 + fs e2 * 16) eqn:Ea; [reflexivity|].
  destruct (fa e2 >? fa e1 + fs e1 * 16) eqn:Eb; [reflexivity|].
  exfalso. apply H. unfold overlapZ.
  destruct (Z_le_gt_dec (fa e1) (fa e2)).
  - exists (fa e2). lia.
  - exists (fa e1). lia.
Qed.
End FITComplete.

(** two entries neither empty nor touching: there the closed-interval test of
    the code and the half-open reading of a range coincide *)
Definition apart (e1 e2 : fent) : Prop :=
  0 < fs e1 /\ 0 < fs e2 /\ fa e1 <> fa e2 + fs e2 * 16 /\ fa e2 <> fa e1 + fs e1 * 16.

Lemma dsz_real_ibb : forall e, ft e = T_IBB \/ ft e = T_IBB -> dsz_real e = Ok (fs e * 16).
Proof. intros e [He|He]; unfold dsz_real; rewrite He; reflexivity. Qed.

Lemma pairs_real_ibb_total l : exists b, pairs_check dsz_real T_IBB l = Ok b.
Proof.
  induction l as [|h tl [b IH]]; cbn [pairs_check]; [eauto|].
  destruct (ft h =? T_IBB) eqn:Eh; [|eauto].
  apply Z.eqb_eq in Eh. destruct (inner_ok dsz_real T_IBB dsz_real_ibb h tl Eh) as [c Hc].
  rewrite Hc. cbn [bind]. destruct c; eauto.
Qed.

Theorem NoIBBOverlap_total : forall l,
  no_ibb_overlap dsz_real l = pass \/ no_ibb_overlap dsz_real l = fail.
Proof.
  intros l. unfold no_ibb_overlap. destruct (pairs_real_ibb_total l) as [[|] ->]; cbn; auto.
Qed.

(** exact on every table without 64-bit wrap whose BIOS startup modules are
    pairwise [apart] (not empty, not merely touching) *)
Theorem NoIBBOverlap_exact_partial : forall l, all_iv_ok l ->
  (forall l1 e1 l2 e2 l3, l = l1 ++ e1 :: l2 ++ e2 :: l3 -> ft e1 = T_IBB -> ft e2 = T_IBB -> apart e1 e2) ->
  (no_ibb_overlap dsz_real l = pass <->
   forall l1 e1 l2 e2 l3, l = l1 ++ e1 :: l2 ++ e2 :: l3 -> ft e1 = T_IBB -> ft e2 = T_IBB ->
     ~ overlapZ (fa e1) (fs e1 * 16) (fa e2) (fs e2 * 16)).
Proof.
  intros l Hok Hap. split.
  - intros H. exact (NoIBBOverlap_sound_partial l Hok H).
  - intros H. unfold no_ibb_overlap.
    rewrite (pairs_complete dsz_real T_IBB l); [reflexivity|].
    intros l1 e1 l2 e2 l3 E T1 T2.
    destruct (Hap l1 e1 l2 e2 l3 E T1 T2) as (P1 & P2 & N1 & N2).
    apply (overlap_test_complete dsz_real T_IBB dsz_real_ibb); try assumption.
    + apply Hok. subst l. apply in_or_app. right. left. reflexivity.
    + apply Hok. subst l. apply in_or_app. right. right. apply in_or_app. right. left. reflexivity.
    + exact (H l1 e1 l2 e2 l3 E T1 T2).
Qed.

(** the healthy FIT (an IBB, then a disjoint ACM below 4 GiB) gets no verdict at all *)
Theorem NoBIOSACMOverlap_healthy_refuted :
  exists ibb acm, ft ibb = T_IBB /\ ft acm = T_SACM /\
    ~ overlapZ (fa ibb) (fs ibb * 16) (fa acm) (fs acm * 16) /\
    no_acm_overlap dsz_real [ibb; acm] = VPanic /\ acm_below_4g dsz_real [ibb; acm] = VPanic.
Proof.
  exists (7, 4293918720, 65536, 256), (2, 4292870144, 4096, 256).
  split; [reflexivity|]. split; [reflexivity|]. split; [|split].
  - intros (x & H1 & H2). unfold fa, fs in *. lia.
  - vm_compute. reflexivity.
  - vm_compute. reflexivity.
Qed.

Theorem HasType_exact : forall t l,
  has_type t l = pass <-> exists e, In e l /\ ft e = t.
Proof.
  intros t l. unfold has_type, count_type.
  induction l as [|e tl IH]; cbn [filter length].
  - cbn. unfold pass, fail. split; [discriminate|intros (e & [] & _)].
  - destruct (ft e =? t) eqn:Ee.
    + cbn [length]. replace (0 <? Z.of_nat (S (length (filter (fun e0 => ft e0 =? t) tl)))) with true by lia.
      split; [|reflexivity]. intros _. exists e. split; [left; reflexivity|lia].
    + rewrite IH. split.
      * intros (x & Hx & Tx). exists x. split; [right; assumption|assumption].
      * intros (x & [<-|Hx] & Tx); [lia|]. exists x. auto.
Qed.

Theorem HasBIOSPolicy_exact : forall mode l,
  has_bios_policy mode l = pass <-> mode = 0 \/ count_type T_BIOSPOLICY l = 1.
Proof. intros. unfold has_bios_policy, pass, fail. brk; split; intros; try discriminate; try reflexivity; lia. Qed.

Theorem FITVectorIsSet_exact : forall p,
  fit_vector_is_set p = pass <-> exists v, p = Some v /\ VALID_FIT_RANGE <= v < FIT_VECTOR.
Proof.
  intros [v|]; unfold fit_vector_is_set, pass, fail, ierr.
  - destruct (v <? VALID_FIT_RANGE) eqn:E1; [|destruct (v >=? FIT_VECTOR) eqn:E2].
    + split; [discriminate|]. intros (w & E & Hw). injection E as E. lia.
    + split; [discriminate|]. intros (w & E & Hw). injection E as E. lia.
    + split; [|reflexivity]. intros _. exists v. split; [reflexivity|lia].
  - split; [discriminate|]. intros (v & E & _). discriminate E.
Qed.

Theorem HasFIT_exact : forall fitptr n rd1 rd2, 0 <= fitptr -> 0 <= n ->
  (has_fit fitptr n rd1 rd2 = pass <->
   rd1 = true /\ rd2 = true /\ 0 < n /\ fitptr + n * 16 <= FIT_VECTOR).
Proof.
  intros p n rd1 rd2 Hp Hn. unfold has_fit, pass, fail, ierr, FOUR_GIB, FIT_VECTOR.
  destruct rd1, rd2; cbn [negb]; brk; split; intros; try discriminate; try reflexivity; try lia.
Qed.

Theorem PolicyAllowsTXT_exact : forall rd l,
  policy_allows_txt rd l = pass <->
  (forall e, In e l -> ft e <> T_TXTPOLICY) \/
  (exists l1 e l2 b, l = l1 ++ e :: l2 /\ (forall x, In x l1 -> ft x <> T_TXTPOLICY) /\
     ft e = T_TXTPOLICY /\ fv e = 1 /\ rd = Some b /\ Z.odd b = true).
Proof.
  intros rd l. induction l as [|e tl IH]; cbn [policy_allows_txt].
  - split; [intros _; left; intros e []|reflexivity].
  - destruct (ft e =? T_TXTPOLICY) eqn:Ee.
    + apply Z.eqb_eq in Ee. split.
      * intros H. right. exists [], e, tl.
        destruct (fv e =? 0) eqn:E0; [unfold pass, ierr in H; discriminate|].
        destruct (fv e =? 1) eqn:E1; [|unfold pass, fail in H; discriminate].
        destruct rd as [b|]; [|unfold pass, ierr in H; discriminate].
        exists b. unfold pass in H. injection H as H.
        repeat split; try assumption; try reflexivity; try lia. intros x [].
      * intros [H|(l1 & x & l2 & b & E & Hl1 & Tx & Vx & -> & Hb)].
        -- exfalso. apply (H e); [left; reflexivity|assumption].
        -- destruct l1 as [|y l1]; cbn [app] in E; injection E as -> ->.
           ++ replace (fv x =? 0) with false by lia. replace (fv x =? 1) with true by lia.
              rewrite Hb. reflexivity.
           ++ exfalso. apply (Hl1 y); [left; reflexivity|assumption].
    + rewrite IH. split.
      * intros [H|(l1 & x & l2 & b & -> & Hl1 & Tx & Vx & -> & Hb)].
        -- left. intros y [<-|Hy]; [lia|auto].
        -- right. exists (e :: l1), x, l2, b. repeat split; try assumption; try reflexivity.
           intros y [<-|Hy]; [lia|auto].
      * intros [H|(l1 & x & l2 & b & E & Hl1 & Tx & Vx & -> & Hb)].
        -- left. intros y Hy. apply H. right. assumption.
        -- destruct l1 as [|y l1]; cbn [app] in E; injection E as -> ->; [lia|].
           right. exists l1, x, l2, b. repeat split; try assumption; try reflexivity.
           intros z Hz. apply Hl1. right. assumption.
Qed.

(** * 2b. ValidSMRR against the interval reading of the SMRR pair *)

Lemma land_lowmask x k : 0 <= k -> Z.land x (2 ^ k - 1) = x mod 2 ^ k.
Proof.
  intros. replace (2 ^ k - 1) with (Z.ones k) by (rewrite Z.ones_equiv; lia).
  apply Z.land_ones. assumption.
Qed.

Lemma himask_shape k : 0 <= k <= 32 -> W32 - 2 ^ k = Z.shiftl (Z.ones (32 - k)) k.
Proof.
  intros. rewrite Z.shiftl_mul_pow2 by lia. rewrite Z.ones_equiv.
  replace (Z.pred (2 ^ (32 - k))) with (2 ^ (32 - k) - 1) by lia.
  rewrite Z.mul_sub_distr_r. rewrite <- Z.pow_add_r by lia.
  replace (32 - k + k) with 32 by lia. unfold W32. lia.
Qed.

Lemma testbit_above32 x n : 0 <= x < W32 -> 32 <= n -> Z.testbit x n = false.
Proof.
  intros Hx Hn. destruct (Z.eq_dec x 0) as [->|Hne]; [apply Z.bits_0|].
  apply Z.bits_above_log2; [lia|].
  assert (Z.log2 x < 32); [|lia].
  apply Z.log2_lt_pow2; [lia|]. unfold W32 in Hx. lia.
Qed.

Lemma land_himask x k : 0 <= k <= 32 -> 0 <= x < W32 ->
  Z.land x (W32 - 2 ^ k) = x - x mod 2 ^ k.
Proof.
  intros Hk Hx.
  assert (P : 0 < 2 ^ k) by (apply Z.pow_pos_nonneg; lia).
  transitivity (Z.shiftl (Z.shiftr x k) k).
  - rewrite himask_shape by assumption.
    apply Z.bits_inj'. intros n Hn. rewrite Z.land_spec.
    destruct (Z_lt_le_dec n k) as [L|L].
    + rewrite !Z.shiftl_spec_low by assumption. apply Bool.andb_false_r.
    + rewrite !Z.shiftl_spec by assumption. rewrite Z.shiftr_spec by lia.
      replace (n - k + k) with n by lia.
      destruct (Z_lt_le_dec n 32) as [L2|L2].
      * rewrite Z.ones_spec_low by lia. apply Bool.andb_true_r.
      * rewrite Z.ones_spec_high by lia. rewrite (testbit_above32 x n) by assumption. reflexivity.
  - rewrite Z.shiftr_div_pow2, Z.shiftl_mul_pow2 by lia.
    pose proof (Z.div_mod x (2 ^ k) ltac:(lia)). lia.
Qed.

Lemma mod_pred_of_multiple t g : 0 < g -> 0 < t -> t mod g = 0 -> (t - 1) mod g = g - 1.
Proof.
  intros Hg Ht Hm.
  assert (E : t = g * (t / g)) by (pose proof (Z.div_mod t g ltac:(lia)); lia).
  assert (Q : 0 < t / g) by nia.
  symmetry. apply (Z.mod_unique _ _ (t / g - 1)); [lia|]. lia.
Qed.

(** SMRR with a contiguous mask of granularity [2^k] describes the interval
    [[PB, PB + 2^k)]; TSEG is [[tb, tl)].  A pass says exactly: the SMRR base is
    non-zero and aligned, and TSEG IS that interval. *)
Theorem ValidSMRR_interval_partial : forall pbm pmm tb tl k,
  12 <= k < 32 -> u32 tb -> u32 tl ->
  let PB := bits pbm 12 1048575 * 4096 in
  bits pmm 12 1048575 * 4096 = W32 - 2 ^ k ->     (* contiguous mask *)
  (valid_smrr pbm pmm tb tl = pass <->
   PB <> 0 /\ PB mod 2 ^ k = 0 /\ tb = PB /\ tl = PB + 2 ^ k /\ tl <> U32MAX).
Proof.
  intros pbm pmm tb tl k Hk Htb Htl PB Hm.
  pose proof (bits_ones_range pbm 12 20 ltac:(lia)) as R1. change (Z.ones 20) with 1048575 in R1.
  pose proof (bits_ones_range pmm 12 20 ltac:(lia)) as R2. change (Z.ones 20) with 1048575 in R2.
  change (2 ^ 20) with 1048576 in R1, R2.
  assert (P : 0 < 2 ^ k) by (apply Z.pow_pos_nonneg; lia).
  assert (P12 : 4096 <= 2 ^ k) by (change 4096 with (2 ^ 12); apply Z.pow_le_mono_r; lia).
  assert (P32 : 2 ^ k < W32) by (unfold W32; change 4294967296 with (2 ^ 32); apply Z.pow_lt_mono_r; lia).
  unfold valid_smrr. fold PB.
  set (pm := bits pmm 12 1048575) in *. set (pb := bits pbm 12 1048575) in *.
  unfold u32 in *.
  rewrite (wrap32_small (pm * 4096)) by (unfold W32; lia).
  rewrite (wrap32_small PB) by (unfold W32, PB; lia).
  rewrite Hm. replace (U32MAX - (W32 - 2 ^ k)) with (2 ^ k - 1) by (unfold U32MAX, W32; lia).
  rewrite !land_lowmask by lia.
  assert (Hpm : (pm =? 0) = false) by (unfold W32 in *; lia). rewrite Hpm.
  destruct (pb =? 0) eqn:Epb.
  { unfold pass, fail. split; [discriminate|]. intros (H & _). exfalso. apply H. unfold PB. lia. }
  destruct ((tb =? 0) || (tb =? U32MAX)) eqn:Etb.
  { unfold pass, fail. split; [discriminate|]. intros (H0 & H1 & H2 & H3 & H4). exfalso.
    unfold PB, U32MAX in *. lia. }
  destruct ((tl =? 0) || (tl =? U32MAX)) eqn:Etl.
  { unfold pass, fail. split; [discriminate|]. intros (H0 & H1 & H2 & H3 & H4). exfalso. unfold PB in *. lia. }
  destruct (tb mod 2 ^ k =? 0) eqn:Eal; cbn [negb].
  2:{ unfold pass, fail. split; [discriminate|]. intros (H0 & H1 & H2 & H3 & H4). exfalso. subst tb. lia. }
  destruct (tb =? PB) eqn:Eb; cbn [negb].
  2:{ unfold pass, fail. split; [discriminate|]. intros (H0 & H1 & H2 & H3 & H4). exfalso. lia. }
  destruct (tl mod 2 ^ k =? 0) eqn:Etlal; cbn [negb].
  2:{ unfold pass, fail. split; [discriminate|]. intros (H0 & H1 & H2 & H3 & H4). exfalso.
      subst tl. replace (PB + 2 ^ k) with (PB + 1 * 2 ^ k) in Etlal by lia. rewrite Z.mod_add in Etlal by lia. lia. }
  rewrite (wrap32_small (tl - 1)) by (unfold W32 in *; lia).
  rewrite land_himask by (unfold W32 in *; lia).
  rewrite (mod_pred_of_multiple tl (2 ^ k)) by lia.
  destruct (tl - 1 - (2 ^ k - 1) =? PB) eqn:Eend; cbn [negb]; unfold pass, fail.
  - split; [|reflexivity]. intros _. apply Z.eqb_eq in Eb. rewrite Eb in Eal. unfold PB in *. repeat split; lia.
  - split; [discriminate|]. intros (H0 & H1 & H2 & H3 & H4). lia.
Qed.

(** * 3. Attribute and capability checks *)

(** what [checkTPM2NVAttr] is meant to decide: the attribute word equals the
    wanted one up to the optional bits *)
Definition nvattr_spec (mask want opt : Z) : Prop := Z.lor mask opt = Z.lor want opt.

(** what it decides *)
Theorem NVAttr_real : forall mask want opt,
  nvattr mask want opt = true <-> mask <> 0 \/ Z.odd (Z.lor want opt) = false.
Proof.
  intros mask want opt. unfold nvattr. destruct (mask =? 0) eqn:E.
  - change 1 with (Z.ones 1). rewrite Z.land_comm, Z.land_ones by lia.
    change (2 ^ 1) with 2. rewrite Zmod_odd.
    destruct (Z.odd (Z.lor want opt)); cbn; split; intros; try lia.
  - rewrite Z.land_0_l. cbn. split; intros; [left; lia|reflexivity].
Qed.

Theorem NVAttr_exact_refuted :
  (exists mask want opt, 0 <= mask /\ nvattr mask want opt = true /\ ~ nvattr_spec mask want opt) /\
  (exists mask want opt, 0 <= mask /\ nvattr mask want opt = false /\ nvattr_spec mask want opt).
Proof.
  split.
  - exists 1, PS20_ATTR, ATTR_WRITTEN. split; [lia|]. split; [reflexivity|]. unfold nvattr_spec. vm_compute. discriminate.
  - exists 0, 0, 1. split; [lia|]. split; reflexivity.
Qed.

(** TPM 2.0 digest sizes by TPM_ALG_ID (TCG algorithm registry): SHA1, SHA256,
    SHA384, SHA512, SM3-256 *)
Definition tpm_digest (alg : Z) : option Z :=
  if alg =? 4 then Some 20 else if alg =? 11 then Some 32 else if alg =? 12 then Some 48
  else if alg =? 13 then Some 64 else if alg =? 18 then Some 32 else None.

(** Table J-2 as the code cites it: required attributes up to Written, data
    size = base + digest size of the name algorithm (AUX: base + 2 digests) *)
Definition nv20_spec (which namealg attrs ds : Z) : Prop :=
  nvattr_spec attrs (idx_want which) ATTR_WRITTEN /\
  exists d, tpm_digest namealg = Some d /\
    ds = (if which =? 1 then 2 * d + 40 else d + 38).

Theorem NVIndex20_real : forall which blob, which = 0 \/ which = 1 ->
  (nv_index_config20 which blob = pass <->
   exists namealg attrs h ds hsz, parse_nvpub blob = Some (namealg, attrs, h, ds) /\
     nvattr attrs (idx_want which) ATTR_WRITTEN = true /\
     go_hash_size' namealg = Some hsz /\ ds = idx_size which hsz).
Proof.
  intros which blob Hw. unfold nv_index_config20.
  destruct (parse_nvpub blob) as [[[[namealg attrs] h] ds]|].
  - destruct (nvattr attrs (idx_want which) ATTR_WRITTEN) eqn:Ea; cbn [negb].
    + destruct (go_hash_size' namealg) as [hsz|] eqn:Eh.
      * destruct (ds =? idx_size which hsz) eqn:Ed; cbn [negb].
        -- replace (which =? 2) with false by lia. split; [|reflexivity]. intros _.
           exists namealg, attrs, h, ds, hsz. repeat split; try assumption; lia.
        -- unfold pass, fail. split; [discriminate|].
           intros (a & b & c & d & e & Hp & _ & Hh & Hd). injection Hp as <- <- <- <-.
           rewrite Eh in Hh. injection Hh as <-. lia.
      * unfold pass. split; [discriminate|].
        intros (a & b & c & d & e & Hp & _ & Hh & _). injection Hp as <- <- <- <-.
        rewrite Eh in Hh. discriminate Hh.
    + unfold pass, fail. split; [discriminate|].
      intros (a & b & c & d & e & Hp & Hx & _). injection Hp as <- <- <- <-.
      rewrite Ea in Hx. discriminate Hx.
  - unfold pass, ierr. split; [discriminate|]. intros (a & b & c & d & e & Hx & _). discriminate Hx.
Qed.

(** a correctly configured PS / AUX index with a SHA-2 name algorithm IS accepted *)
Theorem NVIndex20_accepts_partial : forall which blob namealg attrs h ds,
  which = 0 \/ which = 1 ->
  parse_nvpub blob = Some (namealg, attrs, h, ds) ->
  namealg = 11 \/ namealg = 12 \/ namealg = 13 ->        (* not SHA1, not SM3 *)
  0 <= attrs -> nv20_spec which namealg attrs ds ->
  nv_index_config20 which blob = pass.
Proof.
  intros which blob namealg attrs h ds Hw Hp Ha Hat (Hattr & d & Hd & Hds).
  apply NVIndex20_real; [assumption|].
  assert (Hne : attrs <> 0).
  { intros ->. unfold nvattr_spec in Hattr. destruct Hw as [-> | ->]; vm_compute in Hattr; discriminate. }
  assert (Hnv : nvattr attrs (idx_want which) ATTR_WRITTEN = true) by (apply NVAttr_real; left; assumption).
  destruct Ha as [-> | [-> | ->]]; vm_compute in Hd; injection Hd as <-;
    destruct Hw as [-> | ->]; cbn in Hds; subst ds.
  - exists 11, attrs, h, 70, 32. repeat split; assumption || reflexivity.
  - exists 11, attrs, h, 104, 32. repeat split; assumption || reflexivity.
  - exists 12, attrs, h, 86, 48. repeat split; assumption || reflexivity.
  - exists 12, attrs, h, 136, 48. repeat split; assumption || reflexivity.
  - exists 13, attrs, h, 102, 64. repeat split; assumption || reflexivity.
  - exists 13, attrs, h, 168, 64. repeat split; assumption || reflexivity.
Qed.

(** a PS index: index 0x01C10103, SHA256, the given attributes, 32-byte policy, data size 70 *)
Definition ps_blob (attrs : list Z) (namealg ds : Z) : list Z :=
  [1; 193; 1; 3; 0; namealg] ++ attrs ++ [0; 32] ++ repeat 0 32 ++ [0; ds].

Theorem NVIndex20_refuted :
  (* attributes that differ from the required ones (only PPWRITE set) are accepted *)
  (exists blob namealg attrs h ds, parse_nvpub blob = Some (namealg, attrs, h, ds) /\
     nv_index_config20 0 blob = pass /\ ~ nv20_spec 0 namealg attrs ds) /\
  (* a correct SHA1 index is rejected, one sized for SHA-224 is accepted *)
  (exists blob namealg attrs h ds, parse_nvpub blob = Some (namealg, attrs, h, ds) /\
     nv20_spec 0 namealg attrs ds /\ nv_index_config20 0 blob = fail) /\
  (* name algorithm 0x27 (SHA3-256): no verdict *)
  (exists blob, nv_index_config20 0 blob = VPanic).
Proof.
  split; [|split].
  - exists (ps_blob [0; 0; 0; 1] 11 70), 11, 1, (repeat 0 32), 70.
    split; [vm_compute; reflexivity|]. split; [vm_compute; reflexivity|].
    intros (H & _). unfold nvattr_spec in H. vm_compute in H. discriminate.
  - exists (ps_blob [98; 4; 4; 8] 4 58), 4, PS20_ATTR, (repeat 0 32), 58.
    split; [vm_compute; reflexivity|]. split; [|vm_compute; reflexivity].
    split; [reflexivity|]. exists 20. split; reflexivity.
  - exists (ps_blob [98; 4; 4; 8] 39 70). vm_compute. reflexivity.
Qed.

(** POIndexConfig never accepts anything (falls out of the switch) *)
Theorem POIndexConfig_never_passes_refuted :
  (forall blob, nv_index_config20 2 blob <> pass) /\
  (forall p1 p2 size attrs rst wst wd, nv_index_config12 2 p1 p2 size attrs rst wst wd <> pass) /\
  (exists blob namealg attrs h ds, parse_nvpub blob = Some (namealg, attrs, h, ds) /\
     nv20_spec 2 namealg attrs ds).
Proof.
  split; [|split].
  - intros blob. unfold nv_index_config20.
    destruct (parse_nvpub blob) as [[[[namealg attrs] h] ds]|]; [|unfold ierr, pass; discriminate].
    destruct (negb (nvattr attrs (idx_want 2) ATTR_WRITTEN)); [unfold fail, pass; discriminate|].
    destruct (go_hash_size' namealg); [|discriminate].
    destruct (negb (ds =? idx_size 2 z)); unfold fail, pass; cbn; discriminate.
  - intros. cbn. unfold fail, pass. discriminate.
  - exists (ps_blob [2; 4; 0; 10] 11 70), 11, PO20_ATTR, (repeat 0 32), 70.
    split; [vm_compute; reflexivity|]. split; [reflexivity|]. exists 32. split; reflexivity.
Qed.

(** TPM 1.2 (Table J-1): exact *)
Theorem NVIndex12_exact : forall which p1 p2 size attrs rst wst wd,
  (nv_index_config12 0 p1 p2 size attrs rst wst wd = pass <->
     p1 = 0 /\ p2 = 0 /\ size = 54 /\ attrs = NVPER_WRITESTCLEAR /\ rst = false /\ wst = false /\ wd = true) /\
  (nv_index_config12 1 p1 p2 size attrs rst wst wd = pass <->
     p1 = 0 /\ p2 = 0 /\ size = 64 /\ attrs = 0 /\ rst = false /\ wst = false /\ wd = false) /\
  (nv_index_config12 which p1 p2 size attrs rst wst wd = warn ->
     (which = 0 \/ which = 1) /\ p1 = 0 /\ p2 = 0 /\ rst = false /\ wst = false).
Proof.
  intros. unfold nv_index_config12, pass, fail, warn, NVPER_WRITESTCLEAR.
  split; [|split].
  - cbn [Z.eqb]. destruct rst, wst, wd; cbn [negb]; brk; split; intros; try discriminate; try reflexivity; lia.
  - cbn [Z.eqb]. destruct rst, wst, wd; cbn [negb]; brk; split; intros; try discriminate; try reflexivity; lia.
  - destruct rst, wst, wd; cbn [negb]; brk; intros; try discriminate; lia.
Qed.

Lemma zlist_eqb_true a : forall b, zlist_eqb a b = true <-> a = b.
Proof.
  induction a as [|x a IH]; intros [|y b]; cbn [zlist_eqb]; split; intros H; try reflexivity; try discriminate.
  - apply andb_prop in H. destruct H as [H1 H2]. apply Z.eqb_eq in H1. apply IH in H2. congruence.
  - injection H as -> ->. rewrite Z.eqb_refl. cbn. apply IH. reflexivity.
Qed.

Theorem AUXIndexHash_exact : forall blob,
  aux_index_hash blob = pass <->
  exists namealg attrs ds, parse_nvpub blob = Some (namealg, attrs, AUX_HASH, ds).
Proof.
  intros blob. unfold aux_index_hash.
  destruct (parse_nvpub blob) as [[[[namealg attrs] h] ds]|].
  - destruct (zlist_eqb h AUX_HASH) eqn:E.
    + apply zlist_eqb_true in E. subst h. split; [|reflexivity]. intros _. exists namealg, attrs, ds. reflexivity.
    + unfold pass, fail. split; [discriminate|]. intros (a & b & d & [= <- <- Hh <-]).
      subst h. rewrite (proj2 (zlist_eqb_true AUX_HASH AUX_HASH) eq_refl) in E. discriminate.
  - unfold pass, ierr. split; [discriminate|]. intros (a & b & d & H). discriminate H.
Qed.

(** LCP validity *)
Theorem LCP1_exact : forall version hashalg ptype sinitmin polctrl maxsinit hashzero,
  lcp_valid1 version hashalg ptype sinitmin polctrl maxsinit hashzero = pass <->
  version < LCP_V2 /\ hashalg = 0 /\ (ptype = 0 \/ ptype = 1) /\ sinitmin <> 0 /\
  ~ (ptype = 0 /\ polctrl = 0) /\ maxsinit = 0 /\ hashzero = false.
Proof.
  intros. unfold lcp_valid1, pass, fail, LCP_V2.
  destruct hashzero; brk; split; intros; try discriminate; try reflexivity; lia.
Qed.

(** the specified LCP_POLICY2 pattern: PolicyType LIST (0) or ANY (1) *)
Definition lcp2_spec (preset version hashalg ptype hmask smask : Z) : Prop :=
  LCP_V3 <= version /\ hashalg = preset /\ (ptype = 0 \/ ptype = 1) /\ hmask <> 0 /\ smask <> 0.

Theorem LCP2_real : forall preset version hashalg ptype hmask smask,
  (lcp_valid2 preset version hashalg ptype hmask smask = pass <->
   lcp2_spec preset version hashalg ptype hmask smask /\ ptype = 1) /\
  (lcp_valid2 preset version hashalg ptype hmask smask = VPanic <->
   LCP_V3 <= version /\ hashalg = preset /\ ptype <> 1).
Proof.
  intros. unfold lcp_valid2, lcp2_spec, pass, fail, LCP_V3.
  split; brk; split; intros; try discriminate; try reflexivity; lia.
Qed.

Theorem LCP2_list_refuted :
  exists preset version hashalg ptype hmask smask,
    lcp2_spec preset version hashalg ptype hmask smask /\
    lcp_valid2 preset version hashalg ptype hmask smask = VPanic.
Proof.
  exists 11, 768, 11, 0, 8, 8. split; [unfold lcp2_spec, LCP_V3; lia|reflexivity].
Qed.

(** SINIT ACM / TPM family *)
Definition sinit_spec (caps tpm : Z) (present : bool) : Prop :=
  present = true /\ ((tpm = 1 /\ Z.land caps FAM_DTPM12 <> 0) \/ (tpm = 2 /\ Z.land caps FAM_DTPM20 <> 0)).

Theorem SINITTPMSpec_real : forall caps1 caps2 tpm present,
  sinit_tpm_spec caps1 caps2 tpm present = pass <->
  exists c, caps2 = Some c /\ c <> 0 /\ present = true /\ (tpm = 1 \/ tpm = 2).
Proof.
  intros caps1 [c|] tpm present; unfold sinit_tpm_spec.
  - destruct (c =? 0) eqn:Ec.
    + change (Z.land 1 (Z.lor FAM_DTPM12 FAM_BOTH) =? 0) with false.
      change (Z.land 1 (Z.lor FAM_DTPM20 FAM_BOTH) =? 0) with false. cbn [andb].
      unfold pass, fail. split; [discriminate|]. intros (x & [= <-] & H & _). lia.
    + rewrite !Z.land_0_l. cbn [Z.eqb andb].
      destruct present; rewrite ?Bool.andb_true_r, ?Bool.andb_false_r.
      * destruct (tpm =? 1) eqn:E1; [|destruct (tpm =? 2) eqn:E2].
        -- split; [|reflexivity]. intros _. exists c. repeat split; lia.
        -- split; [|reflexivity]. intros _. exists c. repeat split; lia.
        -- unfold pass, fail. split; [discriminate|]. intros (x & _ & _ & _ & H). lia.
      * unfold pass, fail. split; [discriminate|]. intros (x & _ & _ & H & _). discriminate H.
  - unfold pass, fail. split; [discriminate|]. intros (x & H & _). discriminate H.
Qed.

Theorem SINITTPMSpec_refuted :
  (* the real layout (nothing parseable behind the ACM): a supporting ACM is rejected *)
  (forall caps tpm present, sinit_tpm_spec caps None tpm present = fail) /\
  (exists caps tpm, sinit_spec caps tpm true) /\
  (* the capability test accepts an ACM that lists only the other family ... *)
  (exists caps tpm, sinit_tpm_spec caps (Some caps) tpm true = pass /\ ~ sinit_spec caps tpm true) /\
  (* ... and judges the module behind the SINIT ACM, not the SINIT ACM *)
  (exists caps1 caps2 tpm, sinit_spec caps1 tpm true /\ sinit_tpm_spec caps1 (Some caps2) tpm true = fail).
Proof.
  split; [|split; [|split]].
  - reflexivity.
  - exists 17, 2. split; [reflexivity|]. right. split; [reflexivity|]. vm_compute. discriminate.
  - exists 16, 1. split; [reflexivity|]. intros (_ & [(_ & H)|(H & _)]); [apply H; reflexivity|discriminate].
  - exists 17, 0, 2. split; [|reflexivity]. split; [reflexivity|]. right. split; [reflexivity|]. vm_compute. discriminate.
Qed.

(** * 4. Boot Guard provisioning and manifest-security verdicts: fail closed *)

(** the disqualifying conditions SaneMEBootGuardProvisioning names *)
Definition me_disqualified (v : Z) (f : fws6) (b : bginfo) : Prop :=
  f_bypass f = true \/ f_invalid f = true \/ f_fpf_lock f = false \/
  f_eep f = 0 \/ f_eep f = 2 \/ f_protect_bios f = false \/
  (v = 2 /\ b_force_anchor b = false) \/ b_verified b = false \/ b_revoked b = true \/
  f_bg_disable f = true \/ b_capability b = false.

Theorem SaneME_exact : forall v f b,
  (sane_me v f b = good <-> ~ me_disqualified v f b) /\
  (sane_me v f b = good \/ sane_me v f b = bad).
Proof.
  intros v [pb by_ inv eep bsvn ksvn kid dis lock] [fa_ ver rev cap].
  unfold sane_me, me_disqualified, good, bad. cbn [f_bypass f_invalid f_fpf_lock f_eep f_protect_bios
    f_bg_disable b_force_anchor b_verified b_revoked b_capability].
  destruct pb, by_, inv, dis, lock, fa_, ver, rev, cap; cbn [negb andb];
    rewrite ?Bool.andb_true_r, ?Bool.andb_false_r;
    brk; (split; [split; [first [discriminate | intros _ H; lia] | first [reflexivity | intros H; exfalso; apply H; lia]] | auto]).
Qed.

Theorem SaneME_failclosed : forall v f b, me_disqualified v f b -> sane_me v f b <> good.
Proof. intros v f b H E. apply (proj1 (SaneME_exact v f b)) in E. contradiction. Qed.

Theorem StrictSaneME_exact : forall v f b,
  strict_sane_me v f b = good <-> f_eep f = 3 /\ ~ me_disqualified v f b.
Proof.
  intros v f b. unfold strict_sane_me. destruct (f_eep f =? 3) eqn:E; cbn [negb].
  - rewrite (proj1 (SaneME_exact v f b)). split; [intros H; split; [lia|exact H]|intros [_ H]; exact H].
  - unfold bad, good. split; [discriminate|]. intros [H _]. lia.
Qed.

(** ... read off the raw registers: HFSTS6 and MSR 13Ah *)
Theorem SaneME_raw_failclosed : forall strict v hfsts6 msr,
  sane_me_raw strict v hfsts6 msr = good ->
  bit hfsts6 4 = false /\ bit hfsts6 5 = false /\ bit hfsts6 30 = true /\
  (bits hfsts6 6 3 <> 0 /\ bits hfsts6 6 3 <> 2) /\ (strict = true -> bits hfsts6 6 3 = 3) /\
  bit hfsts6 3 = true /\ (v = 2 -> bit msr 4 = true) /\ bit msr 6 = true /\ bit msr 7 = false /\
  bit hfsts6 28 = false /\ bit msr 32 = true.
Proof.
  intros strict v h m H. unfold sane_me_raw in H.
  assert (N : ~ me_disqualified v (decode_hfsts6 h) (decode_bgmsr m) /\ (strict = true -> bits h 6 3 = 3)).
  { destruct strict.
    - apply StrictSaneME_exact in H. destruct H as [H1 H2]. split; [exact H2|intros _; exact H1].
    - apply (proj1 (SaneME_exact _ _ _)) in H. split; [exact H|discriminate]. }
  destruct N as [N S]. unfold me_disqualified in N.
  cbn [decode_hfsts6 decode_bgmsr f_bypass f_invalid f_fpf_lock f_eep f_protect_bios
    f_bg_disable b_force_anchor b_verified b_revoked b_capability] in N.
  assert (T : forall x, (x = true -> False) -> x = false) by (intros [|] Hx; [exfalso; apply Hx; reflexivity|reflexivity]).
  assert (F : forall x, (x = false -> False) -> x = true) by (intros [|] Hx; [reflexivity|exfalso; apply Hx; reflexivity]).
  split; [apply T; intros E; apply N; tauto|].
  split; [apply T; intros E; apply N; tauto|].
  split; [apply F; intros E; apply N; tauto|].
  split; [split; intros E; apply N; tauto|].
  split; [exact S|].
  split; [apply F; intros E; apply N; tauto|].
  split; [intros Ev; apply F; intros E; apply N; tauto|].
  split; [apply F; intros E; apply N; tauto|].
  split; [apply T; intros E; apply N; tauto|].
  split; [apply T; intros E; apply N; tauto|].
  apply F; intros E; apply N; tauto.
Qed.

(** ValidateMEAgainstManifests *)
Theorem ValidateME_exact : forall v f bpmsvn kmsvn kmid,
  (v = 1 -> (validate_me v f bpmsvn kmsvn kmid = good <->
             f_bpmsvn f = bpmsvn /\ f_kmsvn f = kmsvn /\ f_kmid f = kmid)) /\
  (v = 2 -> (validate_me v f bpmsvn kmsvn kmid = good <->
             f_bpmsvn f <= bpmsvn /\ f_kmsvn f = kmsvn /\ f_kmid f = kmid)).
Proof.
  intros. unfold validate_me, good, bad. split; intros ->; cbn [Z.eqb];
    brk; split; intros; try discriminate; try reflexivity; lia.
Qed.

(** every verdict that switches on the Boot Guard version reports success for
    a version that is neither 1.0 nor 2.0, whatever the manifests say *)
Theorem BG_unknown_version_failopen_refuted : forall v, v <> 1 -> v <> 2 ->
  (forall f a b c, validate_me v f a b c = good) /\
  (forall nse algs lsize sig, bpm_crypto v nse algs lsize sig = good) /\
  (forall a1 algs, km_crypto v a1 algs = good) /\
  (forall nse flags pbet base0 vtdbar txte nseg, sane_bpm v nse flags pbet base0 vtdbar txte nseg = good) /\
  (forall nse flags pbet base0 vtdbar txte nseg, strict_sane_bpm v nse flags pbet base0 vtdbar txte nseg = good).
Proof.
  intros v H1 H2.
  assert (E1 : (v =? 1) = false) by lia. assert (E2 : (v =? 2) = false) by lia.
  unfold validate_me, bpm_crypto, km_crypto, strict_sane_bpm, sane_bpm. rewrite E1, E2.
  repeat split.
Qed.

(** BPMCryptoSecure / KMCryptoSecure *)
Theorem BPMCrypto_v1_exact : forall nse algs lsize sig, nse <> 0 ->
  (bpm_crypto 1 nse algs lsize sig = good <-> insecure_alg (hd 0 algs) = false /\ insecure_alg sig = false).
Proof.
  intros nse algs lsize sig Hn. unfold bpm_crypto, good, bad. cbn [Z.eqb].
  replace (nse =? 0) with false by lia.
  destruct (insecure_alg (hd 0 algs)), (insecure_alg sig); split; intros; try discriminate; try reflexivity; try tauto;
    destruct H; discriminate.
Qed.

Theorem BPMCrypto_v2_real : forall nse algs lsize sig, nse <> 0 ->
  (bpm_crypto 2 nse algs lsize sig = good <->
   insecure_alg sig = false /\ (lsize < 2 -> forall a, In a algs -> insecure_alg a = false)).
Proof.
  intros nse algs lsize sig Hn. unfold bpm_crypto, good, bad. cbn [Z.eqb].
  replace (nse =? 0) with false by lia.
  destruct (existsb (fun a => insecure_alg a && (lsize <? 2)) algs) eqn:Ex.
  - split; [discriminate|]. intros [_ H]. apply existsb_exists in Ex. destruct Ex as (a & Ha & Hb).
    apply andb_prop in Hb. destruct Hb as [Hb1 Hb2]. rewrite (H ltac:(lia) a Ha) in Hb1. discriminate.
  - destruct (insecure_alg sig); [split; [discriminate|intros [H _]; discriminate]|].
    split; [|reflexivity]. intros _. split; [reflexivity|]. intros Hl a Ha.
    destruct (insecure_alg a) eqn:Ea; [|reflexivity].
    assert (existsb (fun a => insecure_alg a && (lsize <? 2)) algs = true).
    { apply existsb_exists. exists a. split; [assumption|]. rewrite Ea. cbn. lia. }
    congruence.
Qed.

(** DigestList.Size is the byte size of the list (>= 4): the guard never fires *)
Theorem BPMCrypto_v2_sha1_refuted :
  exists algs lsize sig, 4 <= lsize /\ insecure_alg (hd 0 algs) = true /\
    bpm_crypto 2 1 algs lsize sig = good.
Proof. exists [4], 28, 11. split; [lia|]. split; reflexivity. Qed.

Theorem KMCrypto_exact : forall a1 algs,
  (km_crypto 1 a1 algs = good <-> insecure_alg a1 = false /\ insecure_alg (hd 0 algs) = false) /\
  (km_crypto 2 a1 algs = good <-> insecure_alg a1 = false /\ forall a, In a algs -> insecure_alg a = false).
Proof.
  intros a1 algs. unfold km_crypto, good, bad. cbn [Z.eqb]. split.
  - destruct (insecure_alg a1), (insecure_alg (hd 0 algs)); split; intros; try discriminate; try reflexivity; try tauto;
      destruct H; discriminate.
  - destruct (insecure_alg a1); [split; [discriminate|intros [H _]; discriminate]|].
    destruct (existsb insecure_alg algs) eqn:Ex.
    + split; [discriminate|]. intros [_ H]. apply existsb_exists in Ex. destruct Ex as (a & Ha & Hb).
      rewrite (H a Ha) in Hb. discriminate.
    + split; [|reflexivity]. intros _. split; [reflexivity|]. intros a Ha.
      destruct (insecure_alg a) eqn:Ea; [|reflexivity].
      assert (existsb insecure_alg algs = true) by (apply existsb_exists; exists a; auto). congruence.
Qed.

(** SaneBPMSecurityProps: none of the named disqualifying conditions holds
    (DMA protection off, PCR-7 authority measurement off, PBET 0, no IBB
    segment, S-ACM not extending static PCRs) *)
Definition bpm_ok (v flags pbet base0 vtdbar : Z) (txte : option Z) (nseg : Z) : Prop :=
  (v = 1 -> bit flags 0 = true) /\
  (v = 2 -> bit flags 0 = true \/ base0 <> 0 \/ vtdbar <> 0) /\
  bit flags 2 = true /\ Z.land pbet 15 <> 0 /\ 1 <= nseg /\
  (v = 2 -> exists cf, txte = Some cf /\ bit cf 9 = false).

Lemma sane_bpm_v1 nse flags pbet base0 vtdbar txte nseg : nse <> 0 ->
  (sane_bpm 1 nse flags pbet base0 vtdbar txte nseg = good <->
   bit flags 0 = true /\ bit flags 2 = true /\ Z.land pbet 15 <> 0 /\ 1 <= nseg).
Proof.
  intros Hn. unfold sane_bpm, good, bad. cbn [Z.eqb]. replace (nse =? 0) with false by lia.
  destruct (bit flags 0), (bit flags 2); cbn [negb];
    destruct (Z.land pbet 15 =? 0) eqn:Ep; destruct (nseg <? 1) eqn:Es;
    split; intros H; try discriminate H; try reflexivity;
    try (decompose [and] H; first [discriminate | lia]).
Qed.

Lemma sane_bpm_v2 nse flags pbet base0 vtdbar cf nseg : nse <> 0 ->
  (sane_bpm 2 nse flags pbet base0 vtdbar (Some cf) nseg = good <->
   (bit flags 0 = true \/ base0 <> 0 \/ vtdbar <> 0) /\ bit flags 2 = true /\ Z.land pbet 15 <> 0 /\
   bit cf 9 = false /\ 1 <= nseg).
Proof.
  intros Hn. unfold sane_bpm, good, bad. cbn [Z.eqb]. replace (nse =? 0) with false by lia.
  destruct (bit flags 0), (bit flags 2), (bit cf 9); cbn [negb andb];
    destruct (base0 =? 0) eqn:Eb; destruct (vtdbar =? 0) eqn:Ev; cbn [andb];
    destruct (Z.land pbet 15 =? 0) eqn:Ep; destruct (nseg <? 1) eqn:Es;
    split; intros H; try discriminate H; try reflexivity;
    try (decompose [and or] H; first [discriminate | lia]);
    repeat split; try lia; try (left; reflexivity); try (right; left; lia); try (right; right; lia).
Qed.

Theorem SaneBPM_failclosed : forall v nse flags pbet base0 vtdbar txte nseg,
  v = 1 \/ v = 2 ->
  sane_bpm v nse flags pbet base0 vtdbar txte nseg = good ->
  bpm_ok v flags pbet base0 vtdbar txte nseg.
Proof.
  intros v nse flags pbet base0 vtdbar txte nseg [-> | ->] H.
  - assert (Hn : nse <> 0) by (intros ->; discriminate H).
    apply sane_bpm_v1 in H; [|assumption]. destruct H as (H0 & H2 & Hp & Hs).
    unfold bpm_ok. repeat split; try assumption; intros; lia.
  - assert (Hn : nse <> 0) by (intros ->; discriminate H).
    destruct txte as [cf|].
    + apply sane_bpm_v2 in H; [|assumption]. destruct H as (H0 & H2 & Hp & H9 & Hs).
      unfold bpm_ok. repeat split; try assumption; try (intros; lia).
      intros _. exists cf. split; [reflexivity|assumption].
    + exfalso. unfold sane_bpm, good, bad in H. change (2 =? 1) with false in H. change (2 =? 2) with true in H.
      cbv beta iota in H. replace (nse =? 0) with false in H by lia.
      brk; discriminate H.
Qed.

Theorem SaneBPM_accepts : forall v nse flags pbet base0 vtdbar txte nseg,
  v = 1 \/ v = 2 -> nse <> 0 ->
  bpm_ok v flags pbet base0 vtdbar txte nseg ->
  sane_bpm v nse flags pbet base0 vtdbar txte nseg = good.
Proof.
  intros v nse flags pbet base0 vtdbar txte nseg [-> | ->] Hn (K1 & K2 & K3 & K4 & K5 & K6).
  - apply sane_bpm_v1; [assumption|]. repeat split; try assumption. apply K1. reflexivity.
  - destruct (K6 eq_refl) as (cf & -> & H9). apply sane_bpm_v2; [assumption|].
    repeat split; try assumption. apply K2. reflexivity.
Qed.

Theorem StrictSaneBPM_failclosed : forall v nse flags pbet base0 vtdbar txte nseg,
  v = 1 \/ v = 2 ->
  strict_sane_bpm v nse flags pbet base0 vtdbar txte nseg = good ->
  bpm_ok v flags pbet base0 vtdbar txte nseg /\ bit flags 3 = true /\
  (v = 2 -> exists cf, txte = Some cf /\ bits cf 5 3 = 2).
Proof.
  intros v nse flags pbet base0 vtdbar txte nseg Hv H.
  assert (S : sane_bpm v nse flags pbet base0 vtdbar txte nseg = good /\ bit flags 3 = true /\
              (v = 2 -> exists cf, txte = Some cf /\ bits cf 5 3 = 2)).
  { unfold strict_sane_bpm in H. destruct Hv as [-> | ->]; cbn [Z.eqb] in H.
    - destruct (nse =? 0); [discriminate|].
      destruct (bit flags 2); cbn [negb] in H; [|discriminate].
      destruct (bit flags 3); cbn [negb] in H; [|discriminate].
      split; [exact H|]. split; [reflexivity|]. intros; lia.
    - destruct (nse =? 0); [discriminate|].
      destruct (bit flags 2); cbn [negb] in H; [|discriminate].
      destruct (bit flags 3); cbn [negb] in H; [|discriminate].
      destruct txte as [cf|]; [|discriminate].
      destruct (bits cf 5 3 =? 2) eqn:Ec; cbn [negb] in H; [|discriminate].
      split; [exact H|]. split; [reflexivity|]. intros _. exists cf. split; [reflexivity|lia]. }
  destruct S as (S1 & S2 & S3). split; [|split; assumption].
  exact (SaneBPM_failclosed v nse flags pbet base0 vtdbar txte nseg Hv S1).
Qed.

(** no verdict at all: empty SE list, CBnT BPM without TXT element *)
Theorem SaneBPM_panics_refuted :
  (forall v flags pbet base0 vtdbar txte nseg, v = 1 \/ v = 2 ->
     sane_bpm v 0 flags pbet base0 vtdbar txte nseg = VPanic) /\
  (exists flags pbet nseg, bit flags 0 = true /\ bit flags 2 = true /\ Z.land pbet 15 <> 0 /\ 1 <= nseg /\
     sane_bpm 2 1 flags pbet 0 0 None nseg = VPanic).
Proof.
  split.
  - intros v flags pbet base0 vtdbar txte nseg [-> | ->]; reflexivity.
  - exists 13, 15, 1. repeat split; try reflexivity; try lia. vm_compute. discriminate.
Qed.

(** * 5. Single-register verdicts: exact bit patterns *)

Theorem IBBMeasured_exact : forall w, ibb_measured w = pass <-> bit w 63 = true /\ bit w 62 = false.
Proof. intros. unfold ibb_measured, pass, fail. destruct (bit w 62), (bit w 63); cbn; split; intros; try discriminate; try reflexivity; try tauto; destruct H; discriminate. Qed.

Theorem IBBIsTrusted_exact : forall w, ibb_trusted w = pass <-> bit w 63 = true /\ bit w 59 = true.
Proof. intros. unfold ibb_trusted, pass, fail. destruct (bit w 59), (bit w 63); cbn; split; intros; try discriminate; try reflexivity; try tauto; destruct H; discriminate. Qed.

Theorem ValidTXTRegister_exact : forall a p b,
  valid_txt_register a p b = good <-> bit a 31 = true /\ bit a 15 = true /\ bit p 6 = false /\ bit b 31 = true.
Proof.
  intros. unfold valid_txt_register, good, bad.
  destruct (bit a 31), (bit a 15), (bit p 6), (bit b 31); cbn; split; intros; try discriminate; try reflexivity; try tauto;
    decompose [and] H; discriminate.
Qed.

(** SDM: CPUID.1:ECX[11] = 1 says IA32_DEBUG_INTERFACE exists; the interface is
    safe when the MSR does not exist or is locked, disabled and not strapped *)
Definition debug_spec (ecx msr : Z) : Prop :=
  bit ecx 11 = false \/ (bit msr 31 = false /\ bit msr 30 = true /\ bit msr 0 = false).

Theorem DebugInterface_real : forall ecx msr,
  debug_locked ecx msr = pass <->
  bit ecx 11 = true \/ (bit msr 31 = false /\ bit msr 30 = true /\ bit msr 0 = false).
Proof.
  intros. unfold debug_locked, pass, fail.
  destruct (bit ecx 11), (bit msr 31), (bit msr 30), (bit msr 0); cbn; split; intros; try discriminate; try reflexivity; try tauto;
    decompose [or and] H; discriminate.
Qed.

Theorem DebugInterface_inverted_refuted :
  exists ecx msr, debug_locked ecx msr = pass /\ ~ debug_spec ecx msr.
Proof.
  exists 2048, 1. split; [reflexivity|]. unfold debug_spec. intros [H|(_ & H & _)]; vm_compute in H; discriminate.
Qed.

Theorem SmallChecks_exact :
  (forall e, no_sinit_errors e = pass <-> e = 3221225473) /\
  (forall d, dpr_locked d = pass <-> bit d 0 = true) /\
  (forall ver size nproc, biosdata_valid ver size nproc = pass <-> 2 <= ver /\ 8 <= size /\ nproc <> 0) /\
  (forall sig, weybridge_or_later sig = pass <-> bits sig 8 15 = 6) /\
  (forall fc, txt_not_disabled fc = pass <->
     Z.land (bits fc 8 511) 255 = 255 \/ Z.land (bits fc 8 511) 256 = 256) /\
  (forall fc, ia32_feature_ctrl fc = pass <-> bit fc 0 = true).
Proof.
  unfold no_sinit_errors, dpr_locked, biosdata_valid, weybridge_or_later, txt_not_disabled, ia32_feature_ctrl, pass, fail.
  repeat split; intros; brk; try discriminate; try reflexivity; try lia; try assumption.
Qed.
