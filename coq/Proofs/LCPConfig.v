(** Proofs about Model/LCPConfig.v (txt-prov loadConfig): the policy generated from a config
    file carries the parameters the file states, for every spelling of the hex values and
    every order of the listed names. *)
From CSS Require Import Lib.Base Model.LCP Model.LCPConfig Proofs.LCP.
From Coq Require Import String Ascii Permutation ZifyBool ZifyNat.

(** * byte-string equality *)
Lemma zlist_eqb_eq a : forall b, zlist_eqb a b = true <-> a = b.
Proof.
  induction a as [|x a IH]; intros [|y b]; cbn [zlist_eqb]; split; intros H; try reflexivity; try discriminate.
  - apply andb_true_iff in H. destruct H as [H1 H2]. apply Z.eqb_eq in H1. apply IH in H2. congruence.
  - injection H as -> ->. rewrite Z.eqb_refl. cbn [andb]. now apply IH.
Qed.
Lemma zlist_eqb_refl a : zlist_eqb a a = true.
Proof. now apply zlist_eqb_eq. Qed.

(** * reading a hexadecimal string: a definition that does not mention the model *)
Inductive hexchar : Z -> Z -> Prop :=
| HC_dec c : 48 <= c <= 57 -> hexchar c (c - 48)     (* '0'..'9' *)
| HC_low c : 97 <= c <= 102 -> hexchar c (c - 87)    (* 'a'..'f' *)
| HC_up c : 65 <= c <= 70 -> hexchar c (c - 55).     (* 'A'..'F' *)

(** [hex_denotes l v]: [l] is a non-empty string of hex digits (either case, leading zeros
    allowed) and [v] is the number it denotes *)
Inductive hex_denotes : list Z -> Z -> Prop :=
| HD_one c d : hexchar c d -> hex_denotes [c] d
| HD_snoc l v c d : hex_denotes l v -> hexchar c d -> hex_denotes (l ++ [c]) (16 * v + d).

Lemma hexchar_digit c d : hexchar c d -> hex_digit c = Some d /\ 0 <= d < 16.
Proof.
  intros H. unfold hex_digit. destruct H.
  - replace ((48 <=? c) && (c <=? 57)) with true by lia. split; [reflexivity | lia].
  - replace ((48 <=? c) && (c <=? 57)) with false by lia.
    replace ((97 <=? c) && (c <=? 102)) with true by lia. split; [reflexivity | lia].
  - replace ((48 <=? c) && (c <=? 57)) with false by lia.
    replace ((97 <=? c) && (c <=? 102)) with false by lia.
    replace ((65 <=? c) && (c <=? 70)) with true by lia. split; [reflexivity | lia].
Qed.

Lemma hex_fold_app l t : forall acc,
  hex_fold acc (l ++ t) = match hex_fold acc l with Some a => hex_fold a t | None => None end.
Proof.
  induction l as [|c l IH]; intros acc; cbn [hex_fold app]; [reflexivity|].
  destruct (hex_digit c); [apply IH | reflexivity].
Qed.

Lemma hex_denotes_fold l v : hex_denotes l v -> hex_fold 0 l = Some v /\ 0 <= v /\ l <> [].
Proof.
  induction 1 as [c d Hc | l v c d _ IH Hc].
  - apply hexchar_digit in Hc. destruct Hc as [Hd Hr]. cbn [hex_fold]. rewrite Hd.
    repeat split; try (f_equal; lia); try lia; try discriminate.
  - destruct IH as (IH & Hv & _). apply hexchar_digit in Hc. destruct Hc as [Hd Hr].
    rewrite hex_fold_app, IH. cbn [hex_fold]. rewrite Hd.
    repeat split; try (f_equal; lia); try lia.
    intros E; apply app_eq_nil in E; destruct E; discriminate.
Qed.

Lemma parse_hex_denotes l v : hex_denotes l v -> v < W64 -> parse_hex l = Some v.
Proof.
  intros H Hv. apply hex_denotes_fold in H. destruct H as (Hf & H0 & Hn).
  unfold parse_hex. destruct l; [congruence|]. rewrite Hf.
  replace (v <? W64) with true by lia. reflexivity.
Qed.

Lemma hex_digit_char c d : hex_digit c = Some d -> hexchar c d.
Proof.
  unfold hex_digit.
  destruct ((48 <=? c) && (c <=? 57)) eqn:E1; [intros [= <-]; apply HC_dec; lia|].
  destruct ((97 <=? c) && (c <=? 102)) eqn:E2; [intros [= <-]; apply HC_low; lia|].
  destruct ((65 <=? c) && (c <=? 70)) eqn:E3; [intros [= <-]; apply HC_up; lia | discriminate].
Qed.

(** the relation is exactly what the model's digit loop computes on non-empty strings *)
Lemma hex_denotes_of_fold l : forall v, l <> [] -> hex_fold 0 l = Some v -> hex_denotes l v.
Proof.
  induction l as [|c l IH] using rev_ind; intros v Hn Hf; [congruence|].
  rewrite hex_fold_app in Hf. destruct (hex_fold 0 l) as [a|] eqn:Ea; [|discriminate].
  cbn [hex_fold] in Hf. destruct (hex_digit c) as [d|] eqn:Ed; [|discriminate].
  injection Hf as <-. apply hex_digit_char in Ed.
  destruct l as [|c0 l0].
  - cbn [hex_fold] in Ea. injection Ea as <-. cbn [app]. replace (0 * 16 + d) with d by lia. apply HD_one; assumption.
  - replace (a * 16 + d) with (16 * a + d) by lia. apply HD_snoc; [apply IH; [discriminate | reflexivity] | assumption].
Qed.

(** a version string that begins with "0x" / "0X" (or any string whose second character is
    not a hex digit) is a syntax error *)
Lemma parse_hex_0x c t : hex_digit c = None -> parse_hex (48 :: c :: t) = None.
Proof. intros H. unfold parse_hex. cbn [hex_fold hex_digit]. cbn. rewrite H. reflexivity. Qed.

(** * lists of names *)
Fixpoint join_comma (l : list (list Z)) : list Z :=
  match l with
  | [] => []
  | a :: t => match t with [] => a | _ => a ++ COMMA :: join_comma t end
  end.

Definition comma_free (n : list Z) : Prop := ~ In COMMA n.
Definition comma_freeb (n : list Z) : bool := negb (existsb (Z.eqb COMMA) n).
Lemma comma_freeb_ok n : comma_freeb n = true -> comma_free n.
Proof.
  unfold comma_freeb, comma_free. intros H Hin. apply negb_true_iff in H.
  assert (existsb (Z.eqb COMMA) n = true) by (apply existsb_exists; exists COMMA; split; [assumption | apply Z.eqb_refl]).
  congruence.
Qed.

Lemma split_comma_free a : comma_free a -> split_comma a = [a].
Proof.
  induction a as [|c a IH]; intros H; cbn [split_comma]; [reflexivity|].
  assert (c <> COMMA) by (intros ->; apply H; left; reflexivity).
  replace (c =? COMMA) with false by lia.
  rewrite IH; [reflexivity | intros Hin; apply H; right; assumption].
Qed.

Lemma split_comma_app a t : comma_free a -> split_comma (a ++ COMMA :: t) = a :: split_comma t.
Proof.
  induction a as [|c a IH]; intros H; cbn [split_comma app].
  - rewrite Z.eqb_refl. reflexivity.
  - assert (c <> COMMA) by (intros ->; apply H; left; reflexivity).
    replace (c =? COMMA) with false by lia.
    rewrite IH; [reflexivity | intros Hin; apply H; right; assumption].
Qed.

Lemma split_join l : l <> [] -> Forall comma_free l -> split_comma (join_comma l) = l.
Proof.
  induction l as [|a l IH]; intros Hn Hf; [congruence|].
  inversion Hf as [|? ? Ha Hl]; subst. cbn [join_comma]. destruct l as [|b l].
  - apply split_comma_free; assumption.
  - rewrite split_comma_app by assumption. f_equal. apply IH; [discriminate | assumption].
Qed.

(** * [val += Map[item]] over a list *)
Definition sumZ (l : list Z) : Z := fold_right Z.add 0 l.

Lemma fold_wrap (wrap : Z -> Z) (M : Z) (f : list Z -> Z) :
  (forall z, wrap z = z mod M) -> forall items a,
  fold_left (fun acc it => wrap (acc + f it)) items (a mod M) = (a + sumZ (map f items)) mod M.
Proof.
  intros Hw. induction items as [|x items IH]; intros a; cbn [fold_left map sumZ fold_right].
  - f_equal. lia.
  - rewrite Hw, Zplus_mod_idemp_l, IH. fold (sumZ (map f items)). f_equal. lia.
Qed.

Lemma sum_names_mod wrap M tbl items : (forall z, wrap z = z mod M) ->
  sum_names wrap tbl items = sumZ (map (lookup tbl) items) mod M.
Proof.
  intros Hw. unfold sum_names. change 0 with (0 mod M) at 1.
  rewrite (fold_wrap wrap M (lookup tbl) Hw). reflexivity.
Qed.

Lemma sumZ_perm (f : list Z -> Z) l l' : Permutation l l' -> sumZ (map f l) = sumZ (map f l').
Proof.
  induction 1; cbn [map sumZ fold_right] in *; try fold (sumZ (map f l)) in *; try fold (sumZ (map f l')) in *; lia.
Qed.

(** membership of a name in the user's list *)
Definition memb (n : list Z) (l : list (list Z)) : bool := existsb (zlist_eqb n) l.
Lemma memb_In n l : memb n l = true <-> In n l.
Proof.
  unfold memb. rewrite existsb_exists. split.
  - intros (x & Hx & He). apply zlist_eqb_eq in He. congruence.
  - intros H. exists n. split; [assumption | apply zlist_eqb_refl].
Qed.

(** a list without repetitions over [names] is, up to order, the sub-list of [names] it selects *)
Lemma perm_filter names l : NoDup names -> NoDup l -> incl l names ->
  Permutation l (filter (fun n => memb n l) names).
Proof.
  intros Hn Hl Hi. apply NoDup_Permutation; [assumption | apply NoDup_filter; assumption |].
  intros x. rewrite filter_In, memb_In. split; [intros H; split; [apply Hi|]; assumption | tauto].
Qed.

(** [name_list names l str]: the config string [str] lists the names [l], each one a name the
    documentation offers, none twice, in any order, separated by commas (empty string: none) *)
Definition name_list (names l : list (list Z)) (str : list Z) : Prop :=
  NoDup l /\ incl l names /\ str = join_comma l.

Definition cfg_pc_names : list (list Z) := [bs "NPW"; bs "OwnerEnforced"; bs "AuxDelete"; bs "SinitCaps"].
Definition cfg_ah_names : list (list Z) := [bs "SHA1"; bs "SHA256"; bs "SHA384"].
Definition cfg_as_names : list (list Z) :=
  [bs "RSA2048SHA1"; bs "RSA2048SHA256"; bs "RSA3072SHA256"; bs "RSA3072SHA384"; bs "ECDSAP256SHA256"; bs "ECDSAP384SHA384"].

(** the flags a list of names stands for *)
Definition pc_flags (l : list (list Z)) : pctrl :=
  MkPC (memb (bs "NPW") l) (memb (bs "OwnerEnforced") l) (memb (bs "AuxDelete") l) (memb (bs "SinitCaps") l).
Definition ah_flags (l : list (list Z)) : ahash :=
  MkAH (memb (bs "SHA1") l) (memb (bs "SHA256") l) (memb (bs "SHA384") l) false.
Definition as_flags (l : list (list Z)) : asig :=
  MkAS (memb (bs "RSA2048SHA1") l) (memb (bs "RSA2048SHA256") l) (memb (bs "RSA3072SHA256") l)
       (memb (bs "RSA3072SHA384") l) (memb (bs "ECDSAP256SHA256") l) (memb (bs "ECDSAP384SHA384") l) false.

Ltac nodup_names :=
  repeat (constructor; [cbn [In]; intros H; repeat (destruct H as [H|H]; [discriminate H|]); exact H|]); constructor.
Lemma cfg_pc_names_nodup : NoDup cfg_pc_names. Proof. unfold cfg_pc_names. nodup_names. Qed.
Lemma cfg_ah_names_nodup : NoDup cfg_ah_names. Proof. unfold cfg_ah_names. nodup_names. Qed.
Lemma cfg_as_names_nodup : NoDup cfg_as_names. Proof. unfold cfg_as_names. nodup_names. Qed.

Lemma names_comma_free names l : forallb comma_freeb names = true -> incl l names -> Forall comma_free l.
Proof.
  intros Hf Hi. apply Forall_forall. intros x Hx. apply comma_freeb_ok.
  rewrite forallb_forall in Hf. apply Hf, Hi, Hx.
Qed.

(** the word of a list of names, by the sub-list of the documented names it selects *)
Lemma list_word wrap M tbl names l str : (forall z, wrap z = z mod M) ->
  NoDup names -> forallb comma_freeb names = true -> lookup tbl [] = 0 -> 0 mod M = 0 ->
  name_list names l str ->
  sum_names wrap tbl (split_comma str) = sumZ (map (lookup tbl) (filter (fun n => memb n l) names)) mod M.
Proof.
  intros Hw Hn Hc Hl0 HM (Hd & Hi & ->).
  rewrite (sum_names_mod wrap M tbl _ Hw).
  destruct l as [|a l].
  - cbn [join_comma split_comma map sumZ fold_right]. rewrite Hl0.
    replace (filter (fun n => memb n []) names) with (@nil (list Z)); [reflexivity|].
    symmetry. clear. induction names; [reflexivity | cbn [filter memb existsb]; assumption].
  - rewrite split_join; [| discriminate | eapply names_comma_free; eassumption].
    f_equal. apply sumZ_perm, perm_filter; assumption.
Qed.

Lemma pc_word l str : name_list cfg_pc_names l str ->
  sum_names wrap32 pc_map (split_comma str) = decon_pc (pc_flags l).
Proof.
  intros H. rewrite (list_word wrap32 W32 pc_map cfg_pc_names l str wrap32_mod cfg_pc_names_nodup); try reflexivity; [| assumption].
  unfold cfg_pc_names, pc_flags. cbn [filter].
  destruct (memb (bs "NPW") l), (memb (bs "OwnerEnforced") l), (memb (bs "AuxDelete") l), (memb (bs "SinitCaps") l); reflexivity.
Qed.

Lemma ah_word l str : name_list cfg_ah_names l str ->
  sum_names wrap16 hmask_map (split_comma str) = decon_ah (ah_flags l).
Proof.
  intros H. rewrite (list_word wrap16 W16 hmask_map cfg_ah_names l str wrap16_mod cfg_ah_names_nodup); try reflexivity; [| assumption].
  unfold cfg_ah_names, ah_flags. cbn [filter].
  destruct (memb (bs "SHA1") l), (memb (bs "SHA256") l), (memb (bs "SHA384") l); reflexivity.
Qed.

Lemma as_word l str : name_list cfg_as_names l str ->
  sum_names wrap32 smask_map (split_comma str) = decon_as (as_flags l).
Proof.
  intros H. rewrite (list_word wrap32 W32 smask_map cfg_as_names l str wrap32_mod cfg_as_names_nodup); try reflexivity; [| assumption].
  unfold cfg_as_names, as_flags. cbn [filter].
  destruct (memb (bs "RSA2048SHA1") l), (memb (bs "RSA2048SHA256") l), (memb (bs "RSA3072SHA256") l),
           (memb (bs "RSA3072SHA384") l), (memb (bs "ECDSAP256SHA256") l), (memb (bs "ECDSAP384SHA384") l); reflexivity.
Qed.

(** * the documented forms of a hex value *)
(** [hex_form l v]: [l] is a hex string for [v] (any case, leading zeros), bare or with one
    "0x" / "0X" in front (the form of the shipped lcp.json and of README.md) *)
Definition hex_form (l : list Z) (v : Z) : Prop :=
  exists d, hex_denotes d v /\ (l = d \/ l = bs "0x" ++ d \/ l = bs "0X" ++ d).

(* a string of hex digits does not begin with "0x" / "0X" *)
Lemma hex_denotes_no_prefix d v x : hex_denotes d v -> hex_digit x = None -> has_prefix [48; x] d = false.
Proof.
  intros H Hx. apply hex_denotes_fold in H. destruct H as (Hf & _ & _).
  destruct d as [|a [|b t]]; cbn [has_prefix]; try reflexivity; [apply andb_false_r|].
  destruct (48 =? a) eqn:Ea; [|reflexivity]. destruct (x =? b) eqn:Eb; [|reflexivity].
  apply Z.eqb_eq in Ea. apply Z.eqb_eq in Eb. subst a b.
  cbn [hex_fold] in Hf. change (hex_digit 48) with (Some 0) in Hf. cbn beta iota in Hf. rewrite Hx in Hf. discriminate.
Qed.

Lemma trim_none d v : hex_denotes d v ->
  trim_prefix (bs "0X") (trim_prefix (bs "0x") d) = d.
Proof.
  intros H. unfold trim_prefix. change (bs "0x") with [48; 120]. change (bs "0X") with [48; 88].
  rewrite (hex_denotes_no_prefix d v 120 H eq_refl), (hex_denotes_no_prefix d v 88 H eq_refl). reflexivity.
Qed.

Lemma cfg_hex_form l v : hex_form l v -> v < W64 -> cfg_hex l = Some v.
Proof.
  intros (d & Hd & [-> | [-> | ->]]) Hv; unfold cfg_hex.
  - rewrite (trim_none d v Hd). apply parse_hex_denotes; assumption.
  - replace (trim_prefix (bs "0x") (bs "0x" ++ d)) with d.
    + unfold trim_prefix. change (bs "0X") with [48; 88].
      rewrite (hex_denotes_no_prefix d v 88 Hd eq_refl). apply parse_hex_denotes; assumption.
    + unfold trim_prefix. change (bs "0x") with [48; 120]. cbn [has_prefix app]. rewrite !Z.eqb_refl. reflexivity.
  - replace (trim_prefix (bs "0x") (bs "0X" ++ d)) with (bs "0X" ++ d) by reflexivity.
    unfold trim_prefix. change (bs "0X") with [48; 88]. cbn [has_prefix app]. rewrite !Z.eqb_refl.
    cbn [andb Datatypes.length skipn]. apply parse_hex_denotes; assumption.
Qed.

Lemma hex_form_nonempty l v : hex_form l v -> l <> [].
Proof.
  intros (d & Hd & H). apply hex_denotes_fold in Hd. destruct Hd as (_ & _ & Hn).
  destruct H as [-> | [-> | ->]]; [assumption | discriminate | discriminate].
Qed.

(** * the generated policy *)
(** an optional hex parameter: not set (the documented default) or a hex form within [lo, hi] *)
Definition hex_given (dflt lo hi : Z) (str : list Z) (v : Z) : Prop :=
  (str = [] /\ v = dflt) \/ (hex_form str v /\ lo <= v <= hi).

Lemma opt_hex_given dflt lo hi str v : hi < W64 -> hex_given dflt lo hi str v -> opt_hex dflt str = Some v.
Proof.
  intros Hhi [[-> ->] | [H Hr]]; [reflexivity|].
  pose proof (hex_form_nonempty _ _ H) as Hn.
  unfold opt_hex. destruct str; [congruence|]. apply cfg_hex_form; [assumption | lia].
Qed.

Lemma hex_given_range dflt lo hi str v : lo <= dflt <= hi -> hex_given dflt lo hi str v -> lo <= v <= hi.
Proof. intros Hd [[_ ->] | [_ H]]; assumption. Qed.

Definition cfg_hash_names : list (list Z * Z) := [(bs "SHA1", AlgSHA1); (bs "SHA256", AlgSHA256); (bs "SHA384", AlgSHA384)].
Definition cfg_ptype_names : list (list Z * Z) := [(bs "Any", 1); (bs "List", 0)].

(** the placeholder digest: 00 01 .. for the length of a digest of the algorithm, zero padded
    (SHA384: the 32 bytes the field holds) *)
Definition cfg_spec_hash (alg : Z) : list Z :=
  if alg =? AlgSHA1 then seqZ 0 20 ++ repeat 0 12%nat else seqZ 0 32.

(** the policy the documentation of the config promises for these parameters *)
Definition config_spec_policy (ver alg pt sinit maxsinit : Z) (lpc lah las : list (list Z)) : policy2 :=
  MkP2 ver alg pt sinit (repeat 0 8%nat) (decon_pc (pc_flags lpc)) maxsinit 255
       (decon_ah (ah_flags lah)) (decon_as (as_flags las)) 8 (cfg_spec_hash alg).

Definition config_states (c : config) (ver alg pt sinit maxsinit : Z) (lpc lah las : list (list Z)) : Prop :=
  hex_given 768 768 774 (c_version c) ver /\
  In (c_hashalg c, alg) cfg_hash_names /\ In (c_ptype c, pt) cfg_ptype_names /\
  hex_given 0 0 255 (c_sinit c) sinit /\ hex_given 255 0 255 (c_maxsinit c) maxsinit /\
  name_list cfg_pc_names lpc (c_pc c) /\ name_list cfg_ah_names lah (c_hmask c) /\
  name_list cfg_as_names las (c_smask c).

Lemma wrap8_small v : 0 <= v <= 255 -> wrap8 v = v.
Proof. intros H. rewrite wrap8_mod. apply Z.mod_small. unfold W8. lia. Qed.

Ltac cfg_fields := cbn [c_version c_hashalg c_ptype c_sinit c_maxsinit c_pc c_hmask c_smask].

Lemma config_characterised c ver alg pt sinit maxsinit lpc lah las :
  config_states c ver alg pt sinit maxsinit lpc lah las ->
  load_config c = Ok (config_spec_policy ver alg pt sinit maxsinit lpc lah las).
Proof.
  destruct c as [sv sh st ss sm spc shm ssm]. unfold config_states. cfg_fields.
  intros (Hv & Hh & Ht & Hs & Hm & Hpc & Hah & Has).
  unfold load_config. cfg_fields. unfold LCPPolicyVersion3.
  assert (H64 : forall hi, hi <= 774 -> hi < W64) by (unfold W64; lia).
  rewrite (opt_hex_given 768 768 774 sv ver (H64 774 ltac:(lia)) Hv).
  apply hex_given_range in Hv; [| lia].
  assert (Hw : wrap16 ver = ver) by (rewrite wrap16_mod; apply Z.mod_small; unfold W16; lia).
  rewrite Hw. replace ((ver <? 768) || (774 <? ver)) with false by lia.
  assert (Hha : cfg_hash_alg sh = Some alg /\ cfg_hash alg = cfg_spec_hash alg).
  { unfold cfg_hash_names in Hh. cbn [In] in Hh.
    destruct Hh as [E | [E | [E | []]]]; injection E as <- <-; split; reflexivity. }
  destruct Hha as [Hha Hhash]. rewrite Hha.
  assert (Hpt : cfg_ptype st = Some pt).
  { unfold cfg_ptype_names in Ht. cbn [In] in Ht. destruct Ht as [E | [E | []]]; injection E as <- <-; reflexivity. }
  rewrite Hpt.
  rewrite (opt_hex_given 0 0 255 ss sinit (H64 255 ltac:(lia)) Hs), (opt_hex_given 255 0 255 sm maxsinit (H64 255 ltac:(lia)) Hm).
  rewrite (pc_word _ _ Hpc), (ah_word _ _ Hah), (as_word _ _ Has), Hhash.
  rewrite !wrap8_small by (eapply hex_given_range; [| eassumption]; lia).
  reflexivity.
Qed.

(** what the generated policy carries, parameter by parameter (decoded with the Parse* decoders) *)
Lemma config_carries_params c ver alg pt sinit maxsinit lpc lah las :
  config_states c ver alg pt sinit maxsinit lpc lah las ->
  exists p, load_config c = Ok p /\
    p2_version p = ver /\ p2_hashalg p = alg /\ p2_ptype p = pt /\ p2_sinit p = sinit /\ p2_maxsinit p = maxsinit /\
    parse_pc (p2_pc p) = pc_flags lpc /\ parse_ah (p2_hmask p) = ah_flags lah /\ parse_as (p2_smask p) = as_flags las.
Proof.
  intros H. eexists. split; [apply config_characterised; eassumption|].
  unfold config_spec_policy; p2_fields. rewrite flags_pc, flags_ah, flags_as. repeat split; reflexivity.
Qed.

(** * the documented forms of the version *)
Definition set_version (c : config) (v : list Z) : config :=
  MkCfg v (c_hashalg c) (c_ptype c) (c_sinit c) (c_maxsinit c) (c_pc c) (c_hmask c) (c_smask c).

(** whatever else the config says (also outside the documentation): a version written as the
    hex digits [d], as "0x"+[d] or as "0X"+[d] gives the same result, and a version that is not
    set gives the same result as "300" *)
Lemma config_version_forms c d v : hex_denotes d v -> v < W64 ->
  load_config (set_version c (bs "0x" ++ d)) = load_config (set_version c d) /\
  load_config (set_version c (bs "0X" ++ d)) = load_config (set_version c d) /\
  load_config (set_version c []) = load_config (set_version c (bs "300")).
Proof.
  intros Hd Hv.
  assert (E : forall l, hex_form l v -> opt_hex LCPPolicyVersion3 l = Some v).
  { intros l Hl. pose proof (hex_form_nonempty _ _ Hl). unfold opt_hex. destruct l; [congruence|]. apply cfg_hex_form; assumption. }
  unfold load_config, set_version. cfg_fields.
  rewrite (E d), (E (bs "0x" ++ d)), (E (bs "0X" ++ d)) by (exists d; tauto).
  repeat split; reflexivity.
Qed.

(** what is not a hex value stays refused *)
Lemma config_version_malformed_refused c :
  In (c_version c) [bs "0x"; bs "0X"; bs "0x0x302"; bs "0X0x302"; bs "x302"; bs "0x3g2"; bs "302h"; bs "-302"; bs "+302"; bs " 302"; bs "3_02"] ->
  load_config c = Err E_STRCONV.
Proof.
  intros H. unfold load_config. cbn [In] in H.
  repeat (destruct H as [<- | H]; [reflexivity|]). destruct H.
Qed.

(** * serialise and parse back the generated policy *)
Lemma config_spec_in_range c ver alg pt sinit maxsinit lpc lah las :
  config_states c ver alg pt sinit maxsinit lpc lah las ->
  in_range2 (config_spec_policy ver alg pt sinit maxsinit lpc lah las) /\ LCPPolicyVersion3 <= ver /\
  (alg = AlgSHA1 \/ alg = AlgSHA256 \/ alg = AlgSHA384).
Proof.
  intros (Hv & Hh & Ht & Hs & Hm & _).
  assert (Ha : alg = AlgSHA1 \/ alg = AlgSHA256 \/ alg = AlgSHA384).
  { unfold cfg_hash_names in Hh. cbn [In] in Hh. destruct Hh as [E | [E | [E | []]]]; injection E as _ <-; tauto. }
  assert (Hp : pt = 1 \/ pt = 0).
  { unfold cfg_ptype_names in Ht. cbn [In] in Ht. destruct Ht as [E | [E | []]]; injection E as _ <-; tauto. }
  apply hex_given_range in Hv; [| lia]. apply hex_given_range in Hs; [| lia]. apply hex_given_range in Hm; [| lia].
  split; [| split; [unfold LCPPolicyVersion3; lia | assumption]].
  unfold in_range2, config_spec_policy; p2_fields.
  repeat split; try (unfold u16, u32, byte; lia);
    try apply decon_pc_range; try apply decon_ah_range; try apply decon_as_range.
  - unfold u16, AlgSHA1, AlgSHA256, AlgSHA384 in *; lia.
  - unfold u16, AlgSHA1, AlgSHA256, AlgSHA384 in *; lia.
  - repeat constructor; unfold u16; lia.
  - apply forallb_byteb. destruct Ha as [-> | [-> | ->]]; reflexivity.
  - destruct Ha as [-> | [-> | ->]]; reflexivity.
Qed.

(** SHA1 and SHA256: the policy read back is the generated one *)
Lemma config_roundtrip sha3 c ver alg pt sinit maxsinit lpc lah las :
  config_states c ver alg pt sinit maxsinit lpc lah las -> alg <> AlgSHA384 ->
  exists p, load_config c = Ok p /\ parse sha3 (encode2 p) = Ok (inr p).
Proof.
  intros H Hne. eexists. split; [apply config_characterised; eassumption|].
  apply config_spec_in_range in H. destruct H as (Hr & Hv & Ha).
  apply parse_encode2. split; [exact Hr | split; [exact Hv|]].
  unfold config_spec_policy; p2_fields.
  destruct Ha as [-> | [-> | ->]]; [right; split; reflexivity | left; reflexivity | congruence].
Qed.

Lemma config_roundtrip_sha384 sha3 c ver pt sinit maxsinit lpc lah las :
  config_states c ver AlgSHA384 pt sinit maxsinit lpc lah las ->
  exists p, load_config c = Ok p /\ parse sha3 (encode2 p) = Err E_UEOF.
Proof.
  intros H. eexists. split; [apply config_characterised; eassumption|].
  apply config_spec_in_range in H. destruct H as (Hr & Hv & _).
  apply parse_encode2_sha384. repeat split; try apply Hr; [exact Hv].
Qed.

(** * examples: the hypotheses are satisfiable *)
(* the lcp.json shipped in cmd/core/txt-prov (README.md shows the same with "0x300") *)
Definition shipped_config : config :=
  MkCfg (bs "0x302") (bs "SHA256") (bs "Any") (bs "0") (bs "ff") [] (bs "SHA256") (bs "RSA2048SHA256").

Ltac hexd := apply hex_denotes_of_fold; [discriminate | reflexivity].
Ltac incl_names := intros x Hx; unfold cfg_pc_names, cfg_ah_names, cfg_as_names; cbn [In] in Hx |- *; tauto.
Ltac states_auto :=
  repeat match goal with |- _ /\ _ => split end; try lia; try reflexivity;
  try match goal with
      | |- hex_denotes _ _ => hexd
      | |- NoDup _ => nodup_names
      | |- incl _ _ => incl_names
      end.

Lemma shipped_states :
  config_states shipped_config 770 AlgSHA256 1 0 255 [] [bs "SHA256"] [bs "RSA2048SHA256"].
Proof.
  unfold config_states, shipped_config, name_list. cfg_fields. states_auto.
  - right. split; [| lia]. exists (bs "302"). split; [hexd | right; left; reflexivity].
  - right. left. reflexivity.
  - left. reflexivity.
  - right. split; [| lia]. exists (bs "0"). split; [hexd | left; reflexivity].
  - right. split; [| lia]. exists (bs "ff"). split; [hexd | left; reflexivity].
Qed.

(** names in an order that is not the documented one, upper-case hex with leading zeros and an
    upper-case prefix, keys that are not set (version: default 0x300), SHA1 *)
Definition ex_config : config :=
  MkCfg [] (bs "SHA1") (bs "List") (bs "0X007F") [] (bs "AuxDelete,NPW") (bs "SHA384,SHA1")
        (bs "ECDSAP384SHA384,RSA2048SHA1,RSA3072SHA256").

Lemma ex_config_states :
  config_states ex_config 768 AlgSHA1 0 127 255 [bs "AuxDelete"; bs "NPW"] [bs "SHA384"; bs "SHA1"]
                [bs "ECDSAP384SHA384"; bs "RSA2048SHA1"; bs "RSA3072SHA256"].
Proof.
  unfold config_states, ex_config, name_list. cfg_fields. states_auto.
  - left. split; reflexivity.
  - left. reflexivity.
  - right. left. reflexivity.
  - right. split; [| lia]. exists (bs "007F"). split; [hexd | right; right; reflexivity].
  - left. split; reflexivity.
Qed.

(** * the hypotheses on the lists are needed *)
(* a name twice: [+=] adds it twice, "NPW,NPW" sets SinitCaps and clears NPW *)
Definition dup_config : config :=
  MkCfg (bs "302") (bs "SHA256") (bs "Any") [] [] (bs "NPW,NPW") [] [].
(* a blank after the comma: " OwnerEnforced" is not a key of the map and adds 0, without an error *)
Definition blank_config : config :=
  MkCfg (bs "302") (bs "SHA256") (bs "Any") [] [] (bs "NPW, OwnerEnforced") [] [].

Lemma config_list_hypotheses_needed :
  (exists p, load_config dup_config = Ok p /\ parse_pc (p2_pc p) = MkPC false false false true) /\
  (exists p, load_config blank_config = Ok p /\ parse_pc (p2_pc p) = MkPC true false false false).
Proof. split; eexists; split; reflexivity. Qed.
