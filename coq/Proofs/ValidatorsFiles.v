(** (a) Totality of the value-level validators on the property's universe: with
    artifacts the comparator can tell apart ([ArtsDist]) and a well-formed log the
    validators return (no panic of compareReferenceType, no order sort.Slice could
    not have produced).
    (b) The data source of the final-coverage validator,
    datasources.UEFIFiles(PE32|PIC|TE).Data ([uefi_files]): its result satisfies
    the hypotheses the final-coverage theorem makes about [files], and covers
    exactly the bytes of the files that have a PE32, PIC or TE section. *)
From Coq Require Import Permutation.
From CSS Require Import Lib.Base Model.Ranges Model.Refs Model.Validators
  Proofs.Ranges Proofs.Refs Proofs.Validators.

(** * (a) Totality *)

Section Total.
  Variable sz : Z -> Z.
  Variable A : list art.
  Hypothesis AD : ArtsDist A.

  (** the comparator on artifacts of [A]: the type-name order, never a panic *)
  Lemma cmp_ref_A a b : In (rart a) A -> In (rart b) A ->
    (cmp_ref a b = CEq /\ tn a = tn b) \/ (cmp_ref a b = CLt /\ tn a < tn b) \/ (cmp_ref a b = CGt /\ tn b < tn a).
  Proof.
    intros Ia Ib. pose proof (AD _ _ Ia Ib) as E. unfold cmp_ref, art_eqb, tn.
    destruct (aid (rart a) =? aid (rart b)) eqn:E1; [apply Z.eqb_eq in E1 | apply Z.eqb_neq in E1].
    - left. split; [reflexivity | tauto].
    - destruct (tname (rart a) =? tname (rart b)) eqn:E2; [apply Z.eqb_eq in E2; tauto | apply Z.eqb_neq in E2].
      destruct (tname (rart a) <? tname (rart b)) eqn:E3; [apply Z.ltb_lt in E3 | apply Z.ltb_ge in E3].
      + right. left. split; [reflexivity | exact E3].
      + right. right. split; [reflexivity | lia].
  Qed.

  Lemma no_conflict_A s : arts_in A s -> has_conflict s = false.
  Proof.
    intros F. destruct (has_conflict s) eqn:C; [|reflexivity].
    destruct (has_conflict_in s C) as (a & b & Ia & Ib & P).
    unfold arts_in in F. rewrite Forall_forall in F.
    destruct (cmp_ref_A a b (F a Ia) (F b Ib)) as [(E & _) | [(E & _) | (E & _)]]; rewrite E in P; discriminate.
  Qed.

  Lemma is_lt_A a b : In (rart a) A -> In (rart b) A -> is_lt (cmp_ref a b) = true <-> tn a < tn b.
  Proof.
    intros Ia Ib. destruct (cmp_ref_A a b Ia Ib) as [(E & T) | [(E & T) | (E & T)]]; rewrite E; cbn [is_lt];
      split; intros H; try discriminate; try lia; reflexivity.
  Qed.

  (** non-decreasing type names = what [sorted_cmp] tests *)
  Lemma sorted_cmp_A : forall s, arts_in A s ->
    match s with [] => True | a :: t => tn_sorted_lb (tn a) t end -> sorted_cmp s = true.
  Proof.
    induction s as [|a t IH]; intros F S; [reflexivity|]. destruct t as [|b u]; [reflexivity|].
    inversion F as [|? ? Ia Ft]; subst. inversion Ft as [|? ? Ib Fu]; subst.
    cbn [tn_sorted_lb] in S. destruct S as (S1 & S2).
    change (sorted_cmp (a :: b :: u)) with (negb (is_lt (cmp_ref b a)) && sorted_cmp (b :: u)).
    rewrite (IH Ft S2), Bool.andb_true_r.
    destruct (is_lt (cmp_ref b a)) eqn:L; [|reflexivity].
    apply (is_lt_A b a Ib Ia) in L. lia.
  Qed.

  Lemma ins_ref_sorted x : In (rart x) A -> forall l lb, arts_in A l -> tn_sorted_lb lb l -> lb <= tn x ->
    tn_sorted_lb lb (ins_ref x l).
  Proof.
    intros Ix. induction l as [|y t IH]; intros lb F S Lx; cbn [ins_ref].
    - cbn [tn_sorted_lb]. split; [exact Lx | exact Logic.I].
    - inversion F as [|? ? Iy Ft]; subst. cbn [tn_sorted_lb] in S. destruct S as (S1 & S2).
      destruct (is_lt (cmp_ref y x)) eqn:L.
      + apply (is_lt_A y x Iy Ix) in L. cbn [tn_sorted_lb]. split; [exact S1|]. apply IH; [exact Ft | exact S2 | lia].
      + assert (T : ~ tn y < tn x) by (intros H; apply (is_lt_A y x Iy Ix) in H; congruence).
        cbn [tn_sorted_lb]. split; [exact Lx|]. split; [lia | exact S2].
  Qed.

  Lemma ins_ref_arts x l : In (rart x) A -> arts_in A l -> arts_in A (ins_ref x l).
  Proof.
    intros Ix F. eapply Permutation_Forall; [apply ins_ref_perm|]. constructor; assumption.
  Qed.

  Lemma sort_refs_sorted : forall s, arts_in A s ->
    arts_in A (sort_refs s) /\ forall lb, (forall r, In r s -> lb <= tn r) -> tn_sorted_lb lb (sort_refs s).
  Proof.
    induction s as [|x t IH]; intros F; cbn [sort_refs fold_right].
    - split; [constructor | intros; exact Logic.I].
    - inversion F as [|? ? Ix Ft]; subst. destruct (IH Ft) as (Fa & S).
      change (fold_right ins_ref [] t) with (sort_refs t).
      split; [apply ins_ref_arts; assumption|]. intros lb H.
      apply ins_ref_sorted; [exact Ix | exact Fa | | apply H; left; reflexivity].
      apply S. intros r Ir. apply H. right. exact Ir.
  Qed.

  Lemma tn_sorted_head lb l : tn_sorted_lb lb l -> match l with [] => True | a :: t => tn_sorted_lb (tn a) t end.
  Proof. destruct l; [trivial|]. cbn [tn_sorted_lb]. tauto. Qed.

  (** the minimum of the type names (any lower bound will do: take one below all) *)
  Lemma lower_bound (s : list ref) : exists lb, forall r, In r s -> lb <= tn r.
  Proof.
    induction s as [|x t (lb & H)]; [exists 0; intros r []|].
    exists (Z.min lb (tn x)). intros r [<- | Ir]; [lia|]. specialize (H r Ir). lia.
  Qed.

  Lemma sm_total s : arts_in A s -> exists out, sm s = Ok out.
  Proof.
    intros F. unfold sm. destruct s as [|a t]; [eexists; reflexivity|].
    rewrite (no_conflict_A _ F).
    destruct (sort_refs_sorted _ F) as (Fa & S). destruct (lower_bound (a :: t)) as (lb & H).
    rewrite (sorted_cmp_A _ Fa (tn_sorted_head lb _ (S lb H))). eexists. reflexivity.
  Qed.

  Lemma excl_walk_total : forall s0 s1, arts_in A s0 -> arts_in A s1 -> exists out, excl_walk s0 s1 = Ok out.
  Proof.
    induction s0 as [|r0 t0 IH0]; intros s1 F0 F1; [destruct s1; eexists; reflexivity|].
    inversion F0 as [|? ? I0 Ft0]; subst.
    induction s1 as [|r1 t1 IH1]; [eexists; reflexivity|].
    inversion F1 as [|? ? I1 Ft1]; subst. rewrite excl_walk_cons.
    destruct (cmp_ref_A r0 r1 I0 I1) as [(E & _) | [(E & _) | (E & _)]]; rewrite E.
    - destruct (IH0 t1 Ft0 Ft1) as (rest & ->). cbn [bind].
      destruct (exclude_ranges (rranges r0) (rranges r1)); eexists; reflexivity.
    - destruct (IH0 (r1 :: t1) Ft0 F1) as (rest & ->). cbn [bind]. eexists. reflexivity.
    - apply IH1. exact Ft1.
  Qed.

  Lemma exclude_total_A s e : arts_in A s -> arts_in A e -> exists out, exclude s e = Ok out.
  Proof.
    intros Fs Fe. unfold exclude. destruct s as [|a t]; [eexists; reflexivity|].
    destruct (sm_total _ Fs) as (s0 & E0). destruct (sm_total _ Fe) as (s1 & E1). rewrite E0, E1. cbn [bind].
    apply excl_walk_total.
    - exact (sortmerge_arts_in A _ _ Fs (sm_rel _ _ E0)).
    - exact (sortmerge_arts_in A _ _ Fe (sm_rel _ _ E1)).
  Qed.

  Lemma resolved_arts s : arts_in A s -> arts_in A (map (res_ref sz) s).
  Proof.
    intros F. apply Forall_forall. intros y I. apply in_map_iff in I. destruct I as (r & <- & I).
    unfold arts_in in F. rewrite Forall_forall in F. destruct (res_ref_key sz r) as (K & _). rewrite K. apply F. exact I.
  Qed.

  Lemma vap_actor_total idx prev cur pa st : wf_step sz A st -> arts_in A prev ->
    exists r, vap_actor idx prev cur pa st = Ok r.
  Proof.
    intros (_ & _ & Wc) Fp. unfold vap_actor.
    destruct (s_actor st) as [a|]; [|eexists; reflexivity].
    destruct (opt_eqb (Some a) pa); [eexists; reflexivity|].
    destruct (s_code st) as [code|]; [|eexists; reflexivity]. destruct Wc as (Sc & Ic).
    destruct (exclude_total_A code [] Ic (Forall_nil _)) as (arefs0 & E0). rewrite E0. cbn [bind].
    pose proof (exclude_nil _ _ E0) as R0.
    pose proof (sortmerge_std sz _ _ Sc R0) as S0.
    pose proof (sortmerge_arts_in A _ _ Ic R0) as I0.
    rewrite (resolve_std sz _ S0). cbn [fst snd].
    destruct (exclude_total_A (map (res_ref sz) arefs0) prev (resolved_arts _ I0) Fp) as (nm & E1). rewrite E1. cbn [bind].
    destruct (has_bytes nm); eexists; reflexivity.
  Qed.

  Lemma vap_go_total : forall l idx measured pa, WFlog sz A l -> arts_in A measured ->
    exists out, vap_go idx measured pa l = Ok out.
  Proof.
    induction l as [|st t IH]; intros idx measured pa Wl Fm; [eexists; reflexivity|].
    inversion Wl as [|? ? Wst Wt]; subst. cbn [vap_go]. cbv zeta.
    pose proof Wst as (Sm & Im & _). rewrite (resolve_std sz _ Sm). cbn [fst snd].
    assert (Fc : arts_in A (measured ++ map (res_ref sz) (s_meas st))).
    { apply Forall_app. split; [exact Fm | apply resolved_arts; exact Im]. }
    destruct (sm_total _ Fc) as (cur & Ec). rewrite Ec. cbn [bind].
    destruct (vap_actor_total idx measured cur pa st Wst Fm) as ((iss & pa') & Ea). rewrite Ea. cbn [bind].
    destruct (IH (idx + 1) cur pa' Wt (sortmerge_arts_in A _ _ Fc (sm_rel _ _ Ec))) as (rest & Er). rewrite Er. cbn [bind].
    eexists. reflexivity.
  Qed.

  Theorem vap_total l : WFlog sz A l -> exists out, vap l = Ok out.
  Proof. intros Wl. unfold vap. apply vap_go_total; [exact Wl | constructor]. Qed.

  Lemma vfc_measured_total : forall l measured, WFlog sz A l -> arts_in A measured ->
    exists m, vfc_measured measured l = Ok m /\ arts_in A m.
  Proof.
    induction l as [|st t IH]; intros measured Wl Fm; [eexists; split; [reflexivity | exact Fm]|].
    inversion Wl as [|? ? (Sm & Im & _) Wt]; subst. cbn [vfc_measured]. unfold resolved.
    rewrite (resolve_std sz _ Sm). cbn [fst].
    assert (Fc : arts_in A (measured ++ map (res_ref sz) (s_meas st))).
    { apply Forall_app. split; [exact Fm | apply resolved_arts; exact Im]. }
    destruct (sm_total _ Fc) as (cur & Ec). rewrite Ec. cbn [bind].
    apply IH; [exact Wt | exact (sortmerge_arts_in A _ _ Fc (sm_rel _ _ Ec))].
  Qed.

  Theorem vfc_total files l : WFlog sz A l ->
    match files with Ok f => std_refs sz f /\ arts_in A f | _ => True end ->
    exists out, vfc files l = Ok out.
  Proof.
    intros Wl Hf. unfold vfc. destruct l as [|st0 t0]; [eexists; reflexivity|].
    destruct (vfc_measured_total (st0 :: t0) [] Wl (Forall_nil _)) as (m & Em & Fm). rewrite Em. cbn [bind].
    destruct files as [f| | |]; try (eexists; reflexivity). destruct Hf as (Sf & If).
    unfold resolved. rewrite (resolve_std sz _ Sf). cbn [fst].
    destruct (exclude_total_A (map (res_ref sz) f) m (resolved_arts _ If) Fm) as (nm & En). rewrite En. cbn [bind].
    destruct nm; eexists; reflexivity.
  Qed.
End Total.

(** * (b) datasources.UEFIFiles(PE32|PIC|TE).Data *)

(** merging ranges that have bytes gives ranges that have bytes *)
Lemma merge_go_pos : forall l e, 0 < rlen e -> okr e -> Forall (fun y => 0 < rlen y) l -> Forall okr l -> sorted_lb (roff e) l ->
  Forall (fun y => 0 < rlen y) (merge_go e l).
Proof.
  induction l as [|n t IH]; intros e Pe Oe Pl Ol Sl; cbn [merge_go]; [constructor; [exact Pe | constructor]|].
  inversion Pl as [|? ? Pn Pt]; subst. inversion Ol as [|? ? On Ot]; subst.
  cbn [sorted_lb] in Sl. destruct Sl as (L1 & L2).
  rewrite (rend_ok e Oe), (rend_ok n On).
  destruct (roff n <=? roff e + rlen e) eqn:C.
  - apply Z.leb_le in C. destruct Oe as (e0 & e1 & e2). destruct On as (n0 & n1 & n2).
    assert (Wm : wrap64 (Z.max (roff n + rlen n) (roff e + rlen e) - roff e) = Z.max (roff n + rlen n) (roff e + rlen e) - roff e)
      by (apply wrap64_small; lia).
    apply IH; cbn [roff rlen]; try assumption; try (rewrite Wm; lia).
    + unfold okr. cbn [roff rlen]. rewrite Wm. lia.
    + eapply sorted_lb_weaken; [|exact L2]. exact L1.
  - constructor; [exact Pe|]. apply IH; assumption.
Qed.
Lemma ranges_sm_pos rs : Forall okr rs -> Forall (fun y => 0 < rlen y) rs -> Forall (fun y => 0 < rlen y) (ranges_sm rs).
Proof.
  intros O P. unfold ranges_sm, merge_ranges.
  assert (Pos : Forall (fun y => 0 < rlen y) (sort_off rs)) by (eapply Permutation_Forall; [apply Permutation_sym, sort_off_perm | exact P]).
  assert (Oks : Forall okr (sort_off rs)) by (eapply Permutation_Forall; [apply Permutation_sym, sort_off_perm | exact O]).
  pose proof (sort_off_sorted rs) as Ss.
  destruct (sort_off rs) as [|e t]; [constructor|].
  inversion Pos; subst. inversion Oks; subst. cbn [sorted_off] in Ss. apply merge_go_pos; assumption.
Qed.

Section Files.
  Variable sz : Z -> Z.
  Variable img : art.
  Hypothesis Hsz : zlen (acontent img) = sz (aid img).
  Hypothesis Hle : sz (aid img) <= W32.

  (** a file node that lies inside the image and has at least one byte (every
      FFS file has its 24-byte header) *)
  Definition node_ok (n : fnode) : Prop := 0 <= fn_off n /\ 0 < fn_len n /\ fn_off n + fn_len n <= sz (aid img).

  Definition urange (n : fnode) : range := unresolve_full (zlen (acontent img)) (mkR (fn_off n) (fn_len n)).

  Lemma urange_ok n : node_ok n -> urange n = mkR (fn_off n + base sz (aid img)) (fn_len n).
  Proof.
    intros (H0 & H1 & H2). unfold urange, unresolve_full, base. cbn [roff rlen]. rewrite Hsz. f_equal.
    pose proof (zlen_nonneg (acontent img)) as Z0. rewrite Hsz in Z0.
    rewrite (wrap64_small (fn_off n + W32)) by (unfold W32, W64 in *; lia).
    rewrite wrap64_small by (unfold W32, W64 in *; lia). lia.
  Qed.

  (** the bytes of the executable files *)
  Definition in_exec_file (nodes : list fnode) (j : Z) : Prop :=
    exists n, In n nodes /\ file_matches n = true /\ fn_off n <= j < fn_off n + fn_len n.

  Lemma found_ranges nodes : Forall node_ok nodes ->
    let rs := map urange (filter file_matches nodes) in
    Forall okr rs /\ Forall (fun x => base sz (aid img) <= roff x) rs /\ Forall (fun y => 0 < rlen y) rs /\
    forall k, in_ranges rs k <-> in_exec_file nodes (k - base sz (aid img)).
  Proof.
    intros F. cbv zeta. pose proof (zlen_nonneg (acontent img)) as Z0. rewrite Hsz in Z0.
    assert (B0 : 0 <= base sz (aid img)) by (unfold base; lia).
    split; [|split; [|split]].
    - apply Forall_forall. intros y Hy. apply in_map_iff in Hy. destruct Hy as (n & <- & Hn).
      apply filter_In in Hn. destruct Hn as (Hn & _). rewrite Forall_forall in F. pose proof (F n Hn) as Ok.
      rewrite (urange_ok n Ok). destruct Ok as (H0 & H1 & H2). unfold okr, base in *. cbn [roff rlen].
      unfold W32, W64 in *. lia.
    - apply Forall_forall. intros y Hy. apply in_map_iff in Hy. destruct Hy as (n & <- & Hn).
      apply filter_In in Hn. destruct Hn as (Hn & _). rewrite Forall_forall in F. pose proof (F n Hn) as Ok.
      rewrite (urange_ok n Ok). destruct Ok as (H0 & _). cbn [roff]. lia.
    - apply Forall_forall. intros y Hy. apply in_map_iff in Hy. destruct Hy as (n & <- & Hn).
      apply filter_In in Hn. destruct Hn as (Hn & _). rewrite Forall_forall in F. pose proof (F n Hn) as Ok.
      rewrite (urange_ok n Ok). cbn [rlen]. apply Ok.
    - intros k. unfold in_ranges, in_exec_file. rewrite Exists_exists. split.
      + intros (y & Hy & Hk). apply in_map_iff in Hy. destruct Hy as (n & <- & Hn).
        apply filter_In in Hn. destruct Hn as (Hn & Hm). rewrite Forall_forall in F.
        rewrite (urange_ok n (F n Hn)) in Hk. unfold inr in Hk. cbn [roff rlen] in Hk.
        exists n. split; [exact Hn|]. split; [exact Hm | lia].
      + intros (n & Hn & Hm & Hk). exists (urange n). split; [apply in_map; apply filter_In; tauto|].
        rewrite Forall_forall in F. rewrite (urange_ok n (F n Hn)). unfold inr. cbn [roff rlen]. lia.
  Qed.

  Lemma no_maxu64 nodes : Forall node_ok nodes -> existsb (fun n => fn_off n =? MAXU64) (filter file_matches nodes) = false.
  Proof.
    intros F. destruct (existsb _ _) eqn:E; [|reflexivity]. apply existsb_exists in E. destruct E as (n & Hn & Hk).
    apply filter_In in Hn. destruct Hn as (Hn & _). rewrite Forall_forall in F. destruct (F n Hn) as (H0 & H1 & H2).
    apply Z.eqb_eq in Hk. unfold MAXU64, W32 in *. lia.
  Qed.

  (** what the data source returns for a parsed image: no error; references the
      final-coverage theorem accepts ([std_refs], [arts_in], [pointed]); exactly the
      bytes of the files that have a PE32, PIC or TE section *)
  Theorem uefi_files_spec nodes : Forall node_ok nodes ->
    exists files, uefi_files img nodes = Ok files /\
      std_refs sz files /\ arts_in [img] files /\ Forall pointed files /\
      forall a j, covers sz files a j <-> a = aid img /\ in_exec_file nodes j.
  Proof.
    intros F. unfold uefi_files. rewrite (no_maxu64 nodes F).
    destruct (found_ranges nodes F) as (O & B & Pp & D). fold urange in *.
    set (rs := map urange (filter file_matches nodes)) in *.
    pose proof (ranges_sm_sep rs O) as (_ & Os).
    pose proof (ranges_sm_roff (fun o => base sz (aid img) <= o) rs B) as Bs.
    assert (Ds : forall k, in_ranges (ranges_sm rs) k <-> in_exec_file nodes (k - base sz (aid img))).
    { intros k. rewrite (ranges_sm_den rs k O). apply D. }
    destruct (ranges_sm rs) as [|x xs] eqn:Ers.
    - exists []. split; [reflexivity|]. split; [constructor|]. split; [constructor|]. split; [constructor|].
      intros a j. split; [intros C; exfalso; exact (covers_nil sz a j C)|].
      intros (_ & Hj). exfalso. specialize (Ds (j + base sz (aid img))).
      replace (j + base sz (aid img) - base sz (aid img)) with j in Ds by lia.
      apply Ds in Hj. apply in_ranges_nil in Hj. exact Hj.
    - exists [mkRef img MPhys (x :: xs)]. split; [reflexivity|].
      assert (Sr : std_ref sz (mkRef img MPhys (x :: xs))).
      { unfold std_ref, okref, ai. cbn [rart rmap rranges]. split; [exact Os|]. split; [exact Hsz|]. split; [exact Hle|].
        right. split; [reflexivity | exact Bs]. }
      split; [constructor; [exact Sr | constructor]|].
      split; [constructor; [left; reflexivity | constructor]|].
      split.
      + constructor; [|constructor]. unfold pointed. cbn [rranges].
        pose proof (ranges_sm_pos rs O Pp) as Ps. rewrite Ers in Ps. inversion Ps as [|? ? Px _]; subst.
        exists (roff x). apply in_ranges_cons. left. unfold inr. lia.
      + intros a j. unfold covers. split.
        * intros (m & k & Dk & ->). apply den_cons in Dk. destruct Dk as [Hk | Dk]; [|apply den_nil in Dk; destruct Dk].
          destruct Hk as (Ea & Em & Hk). cbn [rart rmap rranges] in *. subst a m. unfold ai. cbn [rart off_of].
          split; [reflexivity|]. apply Ds. exact Hk.
        * intros (-> & Hj). exists MPhys, (j + base sz (aid img)). split; [|cbn [off_of]; lia].
          apply den_cons. left. unfold hit, ai. cbn [rart rmap rranges]. split; [reflexivity|]. split; [reflexivity|].
          apply Ds. replace (j + base sz (aid img) - base sz (aid img)) with j by lia. exact Hj.
  Qed.

  (** the filter, spelled out: a file is selected iff SOME section of it (not only
      the first) has one of the three executable types *)
  Lemma file_matches_iff n : file_matches n = true <-> exists t, In t (fn_secs n) /\ (t = SEC_PE32 \/ t = SEC_PIC \/ t = SEC_TE).
  Proof.
    unfold file_matches. rewrite existsb_exists. split; intros (t & I & H); exists t; (split; [exact I|]).
    - unfold is_exec_sec in H. apply Bool.orb_true_iff in H. destruct H as [H | H]; [apply Bool.orb_true_iff in H; destruct H as [H | H]|];
        apply Z.eqb_eq in H; tauto.
    - unfold is_exec_sec. destruct H as [-> | [-> | ->]]; reflexivity.
  Qed.
End Files.
