(** Soundness of the reflective bit-field decision procedure [Lib.SymBits].

    Main results (all for an arbitrary raw width [W] and every raw value
    [x < 2^W]):
    - [bound_sound]      bits at or above [bound W e] are zero;
    - [sym_sound] / [bsym_sound]  the symbolic bit / boolean, when it is not
      [Top]/[STop], is the concrete one;
    - [check_sound]      [check W v s = true] implies [agrees W v s x = true],
      with one readable corollary per specification form;
    - [witness_sound]    a reported witness really is a disagreement. *)
From CSS Require Import Lib.SymBits.
From Coq Require Import NArith List Lia Bool ZifyN ZifyBool.
Import ListNotations.
Open Scope N_scope.

(** * Bit-level facts about [N] *)

Lemma ones_bit w j : N.testbit (N.ones w) j = (j <? w).
Proof.
  destruct (N.ltb_spec j w) as [H|H].
  - apply N.ones_spec_low; lia.
  - apply N.ones_spec_high; lia.
Qed.

Lemma testbit_high W x j : x < 2 ^ W -> W <= j -> N.testbit x j = false.
Proof.
  intros Hx Hj. destruct (N.eq_dec x 0) as [->|Hnz]; [apply N.bits_0|].
  apply N.bits_above_log2.
  assert (Hl : N.log2 x < W) by (apply N.log2_lt_pow2; lia). lia.
Qed.

Lemma size_high c j : N.size c <= j -> N.testbit c j = false.
Proof.
  intros H. destruct (N.eq_dec c 0) as [->|Hnz]; [apply N.bits_0|].
  apply N.bits_above_log2. rewrite (N.size_log2 c Hnz) in H. lia.
Qed.

Lemma bits_bit lo w x j : N.testbit (bits lo w x) j = N.testbit x (j + lo) && (j <? w).
Proof. unfold bits. rewrite N.land_spec, N.shiftr_spec', ones_bit. reflexivity. Qed.

Lemma b2n_bit_high (b : bool) j : j <> 0 -> N.testbit (N.b2n b) j = false.
Proof.
  intros Hj. destruct b; cbn [N.b2n]; [|apply N.bits_0].
  apply N.bits_above_log2. change (N.log2 1) with 0. lia.
Qed.

Lemma nonzero_has_bit n : n <> 0 <-> exists j, N.testbit n j = true.
Proof.
  split.
  - intros H. exists (N.log2 n). apply N.bit_log2; exact H.
  - intros [j Hj] ->. rewrite N.bits_0 in Hj. discriminate.
Qed.

(** * Enumerations *)

Lemma In_upto n j : In j (upto n) <-> j < N.of_nat n.
Proof.
  induction n as [|n IH]; cbn [upto].
  - split; [intros []|lia].
  - rewrite in_app_iff, IH. cbn [In]. lia.
Qed.

Lemma In_positions j : In j positions <-> j < 64.
Proof. unfold positions. rewrite In_upto. change (N.of_nat 64) with 64. reflexivity. Qed.

Lemma positions_cons : positions = 0 :: tl positions.
Proof. reflexivity. Qed.

Lemma In_range n : forall lo j, In j (range lo n) <-> lo <= j < lo + N.of_nat n.
Proof.
  induction n as [|n IH]; intros lo j; cbn [range In].
  - lia.
  - rewrite IH. lia.
Qed.

Lemma mem_In i l : mem i l = true <-> In i l.
Proof.
  induction l as [|h t IH]; cbn [mem In].
  - split; [discriminate|intros []].
  - rewrite orb_true_iff, IH, N.eqb_eq. split; intros [H|H]; auto.
Qed.

Lemma subset_incl a b : subset a b = true -> incl a b.
Proof.
  unfold subset. rewrite forallb_forall. intros H i Hi. apply mem_In, H, Hi.
Qed.

Lemma any_set_true l x : any_set l x = true <-> exists i, In i l /\ N.testbit x i = true.
Proof. unfold any_set. apply existsb_exists. Qed.

Lemma any_set_incl a b x : incl a b -> any_set a x = true -> any_set b x = true.
Proof.
  intros Hi. rewrite !any_set_true. intros [i [Hin Hb]]. exists i. split; [apply Hi, Hin|exact Hb].
Qed.

Lemma same_set_any a b x : same_set a b = true -> any_set a x = any_set b x.
Proof.
  unfold same_set. rewrite andb_true_iff. intros [Hab Hba].
  apply subset_incl in Hab. apply subset_incl in Hba.
  apply eq_iff_eq_true. split; apply any_set_incl; assumption.
Qed.

Lemma any_set_app l1 l2 x : any_set (l1 ++ l2) x = any_set l1 x || any_set l2 x.
Proof. unfold any_set. apply existsb_app. Qed.

Lemma any_set_single i x : any_set [i] x = N.testbit x i.
Proof. unfold any_set. cbn [existsb]. apply orb_false_r. Qed.

(** [bits lo w x] is non-zero exactly when one of the raw bits [lo .. lo+w-1] is set. *)
Lemma bits_nonzero_range lo w x :
  negb (bits lo w x =? 0) = any_set (range lo (N.to_nat w)) x.
Proof.
  apply eq_iff_eq_true. rewrite negb_true_iff, N.eqb_neq, nonzero_has_bit, any_set_true.
  split.
  - intros [j Hj]. rewrite bits_bit, andb_true_iff, N.ltb_lt in Hj. destruct Hj as [Hb Hw].
    exists (j + lo). split; [|exact Hb]. apply In_range. lia.
  - intros [i [Hin Hb]]. apply In_range in Hin. exists (i - lo).
    rewrite bits_bit, andb_true_iff, N.ltb_lt. split; [|lia].
    replace (i - lo + lo) with i by lia. exact Hb.
Qed.

(** A number whose bits from 64 upwards vanish is non-zero iff one of [positions] is set. *)
Lemma nonzero_positions n :
  (forall j, 64 <= j -> N.testbit n j = false) ->
  negb (n =? 0) = existsb (N.testbit n) positions.
Proof.
  intros Hhi. apply eq_iff_eq_true.
  rewrite negb_true_iff, N.eqb_neq, nonzero_has_bit, existsb_exists. split.
  - intros [j Hj]. exists j. split; [|exact Hj]. apply In_positions.
    destruct (N.lt_ge_cases j 64) as [Hlt|Hge]; [exact Hlt|].
    rewrite (Hhi j Hge) in Hj. discriminate.
  - intros [j [_ Hj]]. exists j. exact Hj.
Qed.

(** * [bound] *)

Theorem bound_sound : forall W e x j,
  x < 2 ^ W -> bound W e <= j -> N.testbit (eval e x) j = false.
Proof.
  intros W e x j Hx. revert j.
  induction e as [ | c | e IHe n | e IHe n w | a IHa b IHb | a IHa b IHb | a IHa b IHb
                 | e IHe w | c a IHa b IHb ];
    intros j Hj; cbn [bound eval] in *.
  - apply (testbit_high W); assumption.
  - apply size_high; assumption.
  - rewrite N.shiftr_spec'. apply IHe. lia.
  - rewrite N.land_spec, ones_bit. destruct (N.ltb_spec j w) as [Hlt|Hge]; [lia|]. apply andb_false_r.
  - rewrite N.land_spec.
    assert (Hor : bound W a <= j \/ bound W b <= j) by lia. destruct Hor as [H|H].
    + rewrite (IHa j H). reflexivity.
    + rewrite (IHb j H). apply andb_false_r.
  - rewrite N.lor_spec, (IHa j), (IHb j) by lia. reflexivity.
  - rewrite N.lxor_spec, (IHa j), (IHb j) by lia. reflexivity.
  - rewrite N.land_spec, ones_bit.
    assert (Hor : bound W e <= j \/ w <= j) by lia. destruct Hor as [H|H].
    + rewrite (IHe j H). reflexivity.
    + destruct (N.ltb_spec j w) as [Hlt|Hge]; [lia|]. apply andb_false_r.
  - destruct (beval c x); [apply IHa|apply IHb]; lia.
Qed.

(** * Symbolic bits *)

(** [sb_ok s x b]: if the symbolic bit [s] has a value on [x], that value is [b]. *)
Definition sb_ok (s : sbit) (x : N) (b : bool) : Prop :=
  forall v, interp s x = Some v -> b = v.

Lemma sb_ok_B0 x b : b = false -> sb_ok B0 x b.
Proof. intros -> v H. cbn [interp] in H. injection H as <-. reflexivity. Qed.

Lemma sb_ok_B1 x b : b = true -> sb_ok B1 x b.
Proof. intros -> v H. cbn [interp] in H. injection H as <-. reflexivity. Qed.

Lemma sb_ok_Inp x i b : b = N.testbit x i -> sb_ok (Inp i) x b.
Proof. intros -> v H. cbn [interp] in H. injection H as <-. reflexivity. Qed.

Definition sb_merge (a b : sbit) : sbit :=
  match a, b with
  | B0, B0 => B0
  | B1, B1 => B1
  | Inp i, Inp k => if N.eqb i k then Inp i else Top
  | _, _ => Top
  end.

Ltac sb_crush Ha Hb H :=
  cbn [interp sb_and sb_or sb_xor sb_merge] in Ha, Hb, H;
  try match type of H with
      | context [N.eqb ?i ?k] => destruct (N.eqb_spec i k) as [?|?]; [subst|]
      end;
  cbn [interp] in H;
  try discriminate H;
  try (specialize (Ha _ eq_refl)); try (specialize (Hb _ eq_refl));
  injection H as <-; subst.

Lemma sb_and_ok a b x va vb :
  sb_ok a x va -> sb_ok b x vb -> sb_ok (sb_and a b) x (va && vb).
Proof.
  unfold sb_ok. intros Ha Hb v H.
  destruct a as [ | | i | ], b as [ | | k | ]; sb_crush Ha Hb H;
    rewrite ?andb_true_r, ?andb_false_r, ?andb_diag; reflexivity.
Qed.

Lemma sb_or_ok a b x va vb :
  sb_ok a x va -> sb_ok b x vb -> sb_ok (sb_or a b) x (va || vb).
Proof.
  unfold sb_ok. intros Ha Hb v H.
  destruct a as [ | | i | ], b as [ | | k | ]; sb_crush Ha Hb H;
    rewrite ?orb_true_r, ?orb_false_r, ?orb_diag; reflexivity.
Qed.

Lemma sb_xor_ok a b x va vb :
  sb_ok a x va -> sb_ok b x vb -> sb_ok (sb_xor a b) x (xorb va vb).
Proof.
  unfold sb_ok. intros Ha Hb v H.
  destruct a as [ | | i | ], b as [ | | k | ]; sb_crush Ha Hb H;
    rewrite ?xorb_false_r, ?xorb_false_l, ?xorb_nilpotent; reflexivity.
Qed.

Lemma sb_merge_ok a b x (c : bool) va vb :
  sb_ok a x va -> sb_ok b x vb -> sb_ok (sb_merge a b) x (if c then va else vb).
Proof.
  unfold sb_ok. intros Ha Hb v H.
  destruct a as [ | | i | ], b as [ | | k | ]; sb_crush Ha Hb H;
    destruct c; reflexivity.
Qed.

Lemma sbit_eqb_eq a b : sbit_eqb a b = true -> a = b.
Proof.
  destruct a as [ | | i | ], b as [ | | k | ]; cbn [sbit_eqb]; intros H;
    try discriminate H; try reflexivity.
  apply N.eqb_eq in H. subst. reflexivity.
Qed.

(** * [summarize] *)

Lemma summarize_sem (f : N -> sbit) (g : N -> bool) x :
  (forall p, sb_ok (f p) x (g p)) ->
  forall ps one l, summarize f ps = Some (one, l) -> existsb g ps = one || any_set l x.
Proof.
  intros Hf. induction ps as [|p t IH]; intros one l H; cbn [summarize] in H.
  - injection H as <- <-. reflexivity.
  - destruct (summarize f t) as [[one' l']|]; [|discriminate H].
    specialize (IH _ _ eq_refl). cbn [existsb]. rewrite IH.
    pose proof (Hf p) as Hp. unfold sb_ok in Hp.
    destruct (f p) as [ | | i | ]; cbn [interp] in Hp; try discriminate H;
      injection H as <- <-; rewrite (Hp _ eq_refl); unfold any_set; cbn [existsb].
    + reflexivity.
    + reflexivity.
    + destruct (N.testbit x i), one'; reflexivity.
Qed.

(** * Unfolding equations for the compiled pattern matches of [sym]/[bsym] *)

Lemma sym_Ite W c a b j :
  sym W (Ite c a b) j =
  match bsym W c with
  | SConst true => sym W a j
  | SConst false => sym W b j
  | _ => sb_merge (sym W a j) (sym W b j)
  end.
Proof. reflexivity. Qed.

Lemma bsym_BNe0 W a :
  bsym W (BNe a (Const 0)) =
  if bound W a <=? 64 then
    match summarize (sym W a) positions with
    | None => STop
    | Some (true, _) => SConst true
    | Some (false, []) => SConst false
    | Some (false, l) => SAny l
    end
  else STop.
Proof. reflexivity. Qed.

Lemma bsym_BEq0 W a :
  bsym W (BEq a (Const 0)) =
  if bound W a <=? 64 then
    match summarize (sym W a) positions with
    | None => STop
    | Some (true, _) => SConst false
    | Some (false, []) => SConst true
    | Some (false, l) => SNone l
    end
  else STop.
Proof. reflexivity. Qed.

Lemma bsym_BEqP W a p :
  bsym W (BEq a (Const (Npos p))) =
  if (bound W a <=? 64) && (Npos p =? 1) then
    match sym W a 0, summarize (sym W a) positions with
    | Inp i, Some (false, [i']) => if N.eqb i i' then SAny [i] else STop
    | _, _ => STop
    end
  else STop.
Proof. reflexivity. Qed.

Lemma bsym_BNeP W a p :
  bsym W (BNe a (Const (Npos p))) =
  if (bound W a <=? 64) && (Npos p =? 1) then
    match sym W a 0, summarize (sym W a) positions with
    | Inp i, Some (false, [i']) => if N.eqb i i' then SNone [i] else STop
    | _, _ => STop
    end
  else STop.
Proof. reflexivity. Qed.

(** * Comparisons against 0 and 1, given soundness of the compared expression *)

Section Cmp.
  Variables (W : N) (a : expr).
  Hypothesis IHa : forall j x, x < 2 ^ W -> sb_ok (sym W a j) x (N.testbit (eval a x) j).

  Lemma cmp0 x one l :
    x < 2 ^ W -> bound W a <= 64 ->
    summarize (sym W a) positions = Some (one, l) ->
    negb (eval a x =? 0) = one || any_set l x.
  Proof.
    intros Hx Hb Hs.
    rewrite nonzero_positions.
    - apply (summarize_sem (sym W a) (N.testbit (eval a x)) x); [|exact Hs].
      intros p. apply IHa, Hx.
    - intros j Hj. apply (bound_sound W); [exact Hx|lia].
  Qed.

  Lemma cmp1 x i i' :
    x < 2 ^ W -> bound W a <= 64 ->
    sym W a 0 = Inp i ->
    summarize (sym W a) positions = Some (false, [i']) ->
    (eval a x =? 1) = N.testbit x i.
  Proof.
    intros Hx Hb E0 Hs.
    rewrite positions_cons in Hs. cbn [summarize] in Hs.
    destruct (summarize (sym W a) (tl positions)) as [[one l]|] eqn:Et; [|discriminate Hs].
    rewrite E0 in Hs. injection Hs as -> _ ->.
    assert (Ht : existsb (N.testbit (eval a x)) (tl positions) = false).
    { rewrite (summarize_sem (sym W a) (N.testbit (eval a x)) x (fun p => IHa p x Hx) _ _ _ Et).
      reflexivity. }
    assert (H0 : N.testbit (eval a x) 0 = N.testbit x i).
    { pose proof (IHa 0 x Hx) as H. rewrite E0 in H. exact (H _ eq_refl). }
    assert (Hv : eval a x = N.b2n (N.testbit x i)).
    { apply N.bits_inj. intros j. destruct (N.eq_dec j 0) as [->|Hj].
      - rewrite N.b2n_bit0. exact H0.
      - rewrite (b2n_bit_high _ j Hj).
        destruct (N.lt_ge_cases j 64) as [Hlt|Hge].
        + apply In_positions in Hlt. rewrite positions_cons in Hlt.
          destruct Hlt as [Heq|Hin]; [congruence|].
          destruct (N.testbit (eval a x) j) eqn:Ej; [|reflexivity].
          assert (Hex : existsb (N.testbit (eval a x)) (tl positions) = true)
            by (apply existsb_exists; exists j; split; assumption).
          congruence.
        + apply (bound_sound W); [exact Hx|lia]. }
    rewrite Hv. destruct (N.testbit x i); reflexivity.
  Qed.
End Cmp.

(** * [sym] and [bsym] *)

Scheme expr_mut := Induction for expr Sort Prop
  with bexpr_mut := Induction for bexpr Sort Prop.
Combined Scheme expr_bexpr_mutind from expr_mut, bexpr_mut.

Lemma sym_bsym_ok W :
  (forall e j x, x < 2 ^ W -> sb_ok (sym W e j) x (N.testbit (eval e x) j)) /\
  (forall b x, x < 2 ^ W -> forall v, binterp (bsym W b) x = Some v -> beval b x = v).
Proof.
  apply expr_bexpr_mutind.
  - (* Raw *)
    intros j x Hx. cbn [sym eval]. destruct (N.ltb_spec j W) as [Hlt|Hge].
    + apply sb_ok_Inp. reflexivity.
    + apply sb_ok_B0. apply (testbit_high W); assumption.
  - (* Const *)
    intros c j x Hx. cbn [sym eval]. destruct (N.testbit c j) eqn:E.
    + apply sb_ok_B1. reflexivity.
    + apply sb_ok_B0. reflexivity.
  - (* Shr *)
    intros e IHe n j x Hx. cbn [sym eval]. rewrite N.shiftr_spec'. apply IHe, Hx.
  - (* Shl *)
    intros e IHe n w j x Hx. cbn [sym eval]. rewrite N.land_spec, ones_bit.
    destruct (N.ltb_spec j w) as [Hlt|Hge].
    + rewrite andb_true_r. destruct (N.ltb_spec j n) as [Hjn|Hjn].
      * apply sb_ok_B0. apply N.shiftl_spec_low. exact Hjn.
      * rewrite N.shiftl_spec_high' by lia. apply IHe, Hx.
    + apply sb_ok_B0. apply andb_false_r.
  - (* And *)
    intros a IHa b IHb j x Hx. cbn [sym eval]. rewrite N.land_spec.
    apply sb_and_ok; [apply IHa|apply IHb]; exact Hx.
  - (* Or *)
    intros a IHa b IHb j x Hx. cbn [sym eval]. rewrite N.lor_spec.
    apply sb_or_ok; [apply IHa|apply IHb]; exact Hx.
  - (* Xor *)
    intros a IHa b IHb j x Hx. cbn [sym eval]. rewrite N.lxor_spec.
    apply sb_xor_ok; [apply IHa|apply IHb]; exact Hx.
  - (* Trunc *)
    intros e IHe w j x Hx. cbn [sym eval]. rewrite N.land_spec, ones_bit.
    destruct (N.ltb_spec j w) as [Hlt|Hge].
    + rewrite andb_true_r. apply IHe, Hx.
    + apply sb_ok_B0. apply andb_false_r.
  - (* Ite *)
    intros c IHc a IHa b IHb j x Hx. rewrite sym_Ite. cbn [eval].
    specialize (IHc x Hx). specialize (IHa j x Hx). specialize (IHb j x Hx).
    replace (N.testbit (if beval c x then eval a x else eval b x) j)
      with (if beval c x then N.testbit (eval a x) j else N.testbit (eval b x) j)
      by (destruct (beval c x); reflexivity).
    destruct (bsym W c) as [[|]|l|l|]; cbn [binterp] in IHc.
    + rewrite (IHc _ eq_refl). exact IHa.
    + rewrite (IHc _ eq_refl). exact IHb.
    + apply sb_merge_ok; assumption.
    + apply sb_merge_ok; assumption.
    + apply sb_merge_ok; assumption.
  - (* BConst *)
    intros c x Hx v H. cbn [bsym binterp beval] in *. injection H as <-. reflexivity.
  - (* BEq *)
    intros a IHa b _ x Hx v H.
    destruct b as [ | c | e n | e n w | b1 b2 | b1 b2 | b1 b2 | e w | c b1 b2 ];
      try discriminate H.
    destruct c as [|p].
    + rewrite bsym_BEq0 in H.
      destruct (N.leb_spec (bound W a) 64) as [Hb|Hb]; [|discriminate H].
      destruct (summarize (sym W a) positions) as [[one l]|] eqn:Es; [|discriminate H].
      pose proof (cmp0 W a IHa x one l Hx Hb Es) as Hc.
      assert (Hc' : (eval a x =? 0) = negb (one || any_set l x))
        by (rewrite <- Hc; symmetry; apply negb_involutive).
      cbn [beval eval]. rewrite Hc'.
      destruct one; [|destruct l as [|i l]]; cbn [binterp] in H; injection H as <-;
        cbn [orb]; reflexivity.
    + rewrite bsym_BEqP in H.
      destruct (N.leb_spec (bound W a) 64) as [Hb|Hb]; [|discriminate H].
      destruct (N.eqb_spec (N.pos p) 1) as [Hp|Hp]; [|discriminate H].
      cbn [andb] in H.
      destruct (sym W a 0) as [ | | i | ] eqn:E0; try discriminate H.
      destruct (summarize (sym W a) positions) as [[[|] [|i' [|i'' l]]]|] eqn:Es;
        try discriminate H.
      destruct (N.eqb_spec i i') as [Hi|Hi]; [|discriminate H].
      cbn [binterp] in H. injection H as <-.
      cbn [beval eval]. rewrite Hp. unfold any_set. cbn [existsb]. rewrite orb_false_r.
      apply (cmp1 W a IHa x i i' Hx Hb E0 Es).
  - (* BNe *)
    intros a IHa b _ x Hx v H.
    destruct b as [ | c | e n | e n w | b1 b2 | b1 b2 | b1 b2 | e w | c b1 b2 ];
      try discriminate H.
    destruct c as [|p].
    + rewrite bsym_BNe0 in H.
      destruct (N.leb_spec (bound W a) 64) as [Hb|Hb]; [|discriminate H].
      destruct (summarize (sym W a) positions) as [[one l]|] eqn:Es; [|discriminate H].
      pose proof (cmp0 W a IHa x one l Hx Hb Es) as Hc.
      cbn [beval eval]. rewrite Hc.
      destruct one; [|destruct l as [|i l]]; cbn [binterp] in H; injection H as <-;
        cbn [orb]; reflexivity.
    + rewrite bsym_BNeP in H.
      destruct (N.leb_spec (bound W a) 64) as [Hb|Hb]; [|discriminate H].
      destruct (N.eqb_spec (N.pos p) 1) as [Hp|Hp]; [|discriminate H].
      cbn [andb] in H.
      destruct (sym W a 0) as [ | | i | ] eqn:E0; try discriminate H.
      destruct (summarize (sym W a) positions) as [[[|] [|i' [|i'' l]]]|] eqn:Es;
        try discriminate H.
      destruct (N.eqb_spec i i') as [Hi|Hi]; [|discriminate H].
      cbn [binterp] in H. injection H as <-.
      cbn [beval eval]. rewrite Hp. unfold any_set. cbn [existsb]. rewrite orb_false_r.
      f_equal. apply (cmp1 W a IHa x i i' Hx Hb E0 Es).
  - (* BNot *)
    intros b IHb x Hx v H. specialize (IHb x Hx). cbn [bsym beval] in *.
    destruct (bsym W b) as [c|l|l|]; cbn [sneg binterp] in *; try discriminate H;
      injection H as <-; rewrite (IHb _ eq_refl); try reflexivity.
    apply negb_involutive.
  - (* BAnd *)
    intros a IHa b IHb x Hx v H. specialize (IHa x Hx). specialize (IHb x Hx).
    cbn [bsym beval] in *.
    destruct (bsym W a) as [[|]|la|la|], (bsym W b) as [[|]|lb|lb|];
      cbn [binterp] in *; try discriminate H;
      try rewrite (IHa _ eq_refl); try rewrite (IHb _ eq_refl);
      injection H as <-; rewrite ?andb_true_r, ?andb_false_r; reflexivity.
  - (* BOr *)
    intros a IHa b IHb x Hx v H. specialize (IHa x Hx). specialize (IHb x Hx).
    cbn [bsym beval] in *.
    destruct (bsym W a) as [[|]|la|la|], (bsym W b) as [[|]|lb|lb|];
      cbn [binterp] in *; try discriminate H;
      try rewrite (IHa _ eq_refl); try rewrite (IHb _ eq_refl);
      injection H as <-; rewrite ?orb_true_r, ?orb_false_r, ?any_set_app; reflexivity.
Qed.

Theorem sym_sound : forall W e j x v,
  x < 2 ^ W -> interp (sym W e j) x = Some v -> N.testbit (eval e x) j = v.
Proof. intros W e j x v Hx H. exact (proj1 (sym_bsym_ok W) e j x Hx v H). Qed.

Theorem bsym_sound : forall W b x v,
  x < 2 ^ W -> binterp (bsym W b) x = Some v -> beval b x = v.
Proof. intros W b x v Hx H. exact (proj2 (sym_bsym_ok W) b x Hx v H). Qed.

(** * The individual checks *)

Lemma check_bits_ok W e lo w :
  check_bits W e lo w = true -> forall x, x < 2 ^ W -> eval e x = bits lo w x.
Proof.
  unfold check_bits. rewrite !andb_true_iff, !N.leb_le, forallb_forall.
  intros [[[Hb Hw] Hlw] Hall] x Hx.
  apply N.bits_inj. intros j. rewrite bits_bit.
  destruct (N.lt_ge_cases j 64) as [Hlt|Hge].
  - specialize (Hall j (proj2 (In_positions j) Hlt)). apply sbit_eqb_eq in Hall.
    unfold spec_bit in Hall. destruct (N.ltb_spec j w) as [Hjw|Hjw].
    + rewrite andb_true_r. apply (sym_sound W); [exact Hx|]. rewrite Hall. reflexivity.
    + rewrite andb_false_r. apply (sym_sound W); [exact Hx|]. rewrite Hall. reflexivity.
  - rewrite (bound_sound W e x j Hx) by lia.
    destruct (N.ltb_spec j w) as [Hjw|Hjw]; [lia|]. symmetry. apply andb_false_r.
Qed.

Lemma is_const_expr_ok W e v :
  is_const_expr W e v = true -> forall x, x < 2 ^ W -> eval e x = v.
Proof.
  unfold is_const_expr. rewrite !andb_true_iff, !N.leb_le, forallb_forall.
  intros [[Hb Hv] Hall] x Hx.
  apply N.bits_inj. intros j.
  destruct (N.lt_ge_cases j 64) as [Hlt|Hge].
  - specialize (Hall j (proj2 (In_positions j) Hlt)). apply sbit_eqb_eq in Hall.
    apply (sym_sound W); [exact Hx|]. rewrite Hall.
    destruct (N.testbit v j); reflexivity.
  - rewrite (bound_sound W e x j Hx) by lia. symmetry. apply size_high. lia.
Qed.

Lemma check_nonzero_ok W b lo w :
  check_nonzero W b lo w = true ->
  forall x, x < 2 ^ W -> beval b x = negb (bits lo w x =? 0).
Proof.
  unfold check_nonzero. rewrite !andb_true_iff. intros [_ H] x Hx.
  destruct (bsym W b) as [c|l|l|] eqn:Eb; try discriminate H.
  rewrite bits_nonzero_range, <- (same_set_any _ _ x H).
  apply (bsym_sound W); [exact Hx|]. rewrite Eb. reflexivity.
Qed.

Lemma check_zero_ok W b lo w :
  check_zero W b lo w = true ->
  forall x, x < 2 ^ W -> beval b x = (bits lo w x =? 0).
Proof.
  unfold check_zero. rewrite !andb_true_iff. intros [_ H] x Hx.
  destruct (bsym W b) as [c|l|l|] eqn:Eb; try discriminate H.
  rewrite <- (negb_involutive (bits lo w x =? 0)).
  rewrite bits_nonzero_range, <- (same_set_any _ _ x H).
  apply (bsym_sound W); [exact Hx|]. rewrite Eb. reflexivity.
Qed.

Lemma check_mux_ok W e bit vs vc :
  check_mux W e bit vs vc = true ->
  forall x, x < 2 ^ W -> eval e x = if N.testbit x bit then vs else vc.
Proof.
  unfold check_mux. rewrite andb_true_iff. intros [_ H] x Hx.
  destruct e as [ | c | e n | e n w | b1 b2 | b1 b2 | b1 b2 | e w | c a b ];
    try discriminate H.
  cbn [eval].
  destruct (bsym W c) as [k|[|i [|i' l]]|[|i [|i' l]]|] eqn:Ec; try discriminate H;
    rewrite !andb_true_iff, N.eqb_eq in H; destruct H as [[Hi Ha] Hb]; subst i;
    rewrite (is_const_expr_ok W a _ Ha x Hx), (is_const_expr_ok W b _ Hb x Hx).
  - rewrite (bsym_sound W c x (any_set [bit] x) Hx) by (rewrite Ec; reflexivity).
    rewrite any_set_single. reflexivity.
  - rewrite (bsym_sound W c x (negb (any_set [bit] x)) Hx) by (rewrite Ec; reflexivity).
    rewrite any_set_single. destruct (N.testbit x bit); reflexivity.
Qed.

Lemma bits_whole W x : x < 2 ^ W -> bits 0 W x = x.
Proof.
  intros Hx. apply N.bits_inj. intros j. rewrite bits_bit, N.add_0_r.
  destruct (N.ltb_spec j W) as [Hlt|Hge].
  - apply andb_true_r.
  - rewrite (testbit_high W x j Hx Hge). reflexivity.
Qed.

(** * Main theorem *)

Theorem check_sound : forall W v s,
  check W v s = true -> forall x, x < 2 ^ W -> agrees W v s x = true.
Proof.
  intros W v s H x Hx.
  destruct v as [e|b], s as [lo w|lo w|lo w|bit vs vc| ];
    cbn [check] in H; try discriminate H; cbn [agrees spec_num spec_bool].
  - apply N.eqb_eq. apply (check_bits_ok W); assumption.
  - apply N.eqb_eq. apply (check_mux_ok W); assumption.
  - apply N.eqb_eq. rewrite (check_bits_ok W e 0 W H x Hx). apply bits_whole, Hx.
  - apply eqb_true_iff. apply (check_nonzero_ok W); assumption.
  - apply eqb_true_iff. apply (check_zero_ok W); assumption.
Qed.

Corollary check_bits_sound : forall W e lo w,
  check W (VNum e) (SBits lo w) = true ->
  forall x, x < 2 ^ W -> eval e x = bits lo w x.
Proof.
  intros W e lo w H x Hx. pose proof (check_sound W _ _ H x Hx) as Ha.
  cbn [agrees spec_num] in Ha. apply N.eqb_eq. exact Ha.
Qed.

Corollary check_nonzero_sound : forall W b lo w,
  check W (VBool b) (SNonZero lo w) = true ->
  forall x, x < 2 ^ W -> beval b x = negb (N.eqb (bits lo w x) 0).
Proof.
  intros W b lo w H x Hx. pose proof (check_sound W _ _ H x Hx) as Ha.
  cbn [agrees spec_bool] in Ha. apply eqb_true_iff. exact Ha.
Qed.

Corollary check_zero_sound : forall W b lo w,
  check W (VBool b) (SZero lo w) = true ->
  forall x, x < 2 ^ W -> beval b x = N.eqb (bits lo w x) 0.
Proof.
  intros W b lo w H x Hx. pose proof (check_sound W _ _ H x Hx) as Ha.
  cbn [agrees spec_bool] in Ha. apply eqb_true_iff. exact Ha.
Qed.

Corollary check_mux_sound : forall W e bit vs vc,
  check W (VNum e) (SMux bit vs vc) = true ->
  forall x, x < 2 ^ W -> eval e x = if N.testbit x bit then vs else vc.
Proof.
  intros W e bit vs vc H x Hx. pose proof (check_sound W _ _ H x Hx) as Ha.
  cbn [agrees spec_num] in Ha. apply N.eqb_eq. exact Ha.
Qed.

Corollary check_raw_sound : forall W e,
  check W (VNum e) SRaw = true ->
  forall x, x < 2 ^ W -> eval e x = x.
Proof.
  intros W e H x Hx. pose proof (check_sound W _ _ H x Hx) as Ha.
  cbn [agrees spec_num] in Ha. apply N.eqb_eq. exact Ha.
Qed.

Theorem witness_sound : forall W v s x,
  witness W v s = Some x -> agrees W v s x = false.
Proof.
  unfold witness. intros W v s x H. apply find_some in H. destruct H as [_ H].
  apply negb_true_iff. exact H.
Qed.

(** * Regression examples: accepted and rejected inputs of [check] *)

Example ex_bits_4_6 :
  check 64 (VNum (Trunc (And (Shr Raw 4) (Const 63)) 8)) (SBits 4 6) = true.
Proof. vm_compute. reflexivity. Qed.

Example ex_nonzero_4 :
  check 64 (VBool (BNe (And (Shr Raw 4) (Const 1)) (Const 0))) (SNonZero 4 1) = true.
Proof. vm_compute. reflexivity. Qed.

Example ex_eq1_15 :
  check 64 (VBool (BEq (And (Shr Raw 15) (Const 1)) (Const 1))) (SNonZero 15 1) = true.
Proof. vm_compute. reflexivity. Qed.

Example ex_mask_6 :
  check 64 (VBool (BNe (And Raw (Shl (Const 1) 6 64)) (Const 0))) (SNonZero 6 1) = true.
Proof. vm_compute. reflexivity. Qed.

Example ex_mux_36 :
  check 64 (VNum (Ite (BNot (BNe (And (Shr Raw 36) (Const 1)) (Const 0))) (Const 1) (Const 0)))
        (SMux 36 0 1) = true.
Proof. vm_compute. reflexivity. Qed.

Example ex_raw_32 : check 32 (VNum (Trunc Raw 32)) SRaw = true.
Proof. vm_compute. reflexivity. Qed.

Example ex_kmid_rejected :
  check 64 (VNum (Trunc (And Raw (Const 7)) 8)) (SBits 0 4) = false.
Proof. vm_compute. reflexivity. Qed.

(** The repaired hole: a field wider than the 64 examined positions is rejected. *)
Example ex_wide_rejected : check 128 (VNum (Trunc Raw 64)) (SBits 0 128) = false.
Proof. vm_compute. reflexivity. Qed.

Print Assumptions check_sound.
Print Assumptions witness_sound.
Print Assumptions bound_sound.
