(** Proofs about Model/IBB.v (property C19). *)
From Coq Require Import ZArith List Bool Lia.
From CSS Require Import Lib.Base Model.IBB.
Import ListNotations.
Open Scope Z_scope.

(* ================================================================== *)
(** * generic list facts *)

Lemma nth_firstn_lt {A} (d : A) : forall (l : list A) n i, (i < n)%nat -> nth i (firstn n l) d = nth i l d.
Proof.
  induction l as [|h t IH]; intros n i Hi.
  - rewrite firstn_nil. reflexivity.
  - destruct n as [|n]; [lia|]. destruct i as [|i]; cbn [firstn nth]; [reflexivity|]. apply IH. lia.
Qed.

Lemma nth_skipn_add {A} (d : A) : forall n (l : list A) i, nth i (skipn n l) d = nth (n + i) l d.
Proof.
  induction n as [|n IH]; intros l i; [reflexivity|].
  destruct l as [|h t]; cbn [skipn].
  - destruct i; destruct n; reflexivity.
  - rewrite IH. reflexivity.
Qed.

Lemma nth_repeat_same {A} (d : A) : forall k i, nth i (repeat d k) d = d.
Proof. induction k as [|k IH]; intros [|i]; cbn [repeat nth]; auto. Qed.

Lemma Ok_inj' {A} (a b : A) : @Ok A a = Ok b -> a = b.
Proof. intros H. exact (f_equal (fun o => match o with Ok x => x | _ => a end) H). Qed.

Lemma zlen_nonneg {A} (l : list A) : 0 <= zlen l.
Proof. unfold zlen. lia. Qed.

Lemma zlen_app {A} (a b : list A) : zlen (a ++ b) = zlen a + zlen b.
Proof. unfold zlen. rewrite app_length. lia. Qed.

Lemma zlen_cons {A} (x : A) l : zlen (x :: l) = 1 + zlen l.
Proof. unfold zlen. cbn [length]. lia. Qed.

Lemma wrap64_range z : 0 <= wrap64 z < W64.
Proof. rewrite wrap64_mod. apply Z.mod_pos_bound. reflexivity. Qed.

Lemma wrap32_range z : 0 <= wrap32 z < W32.
Proof. rewrite wrap32_mod. apply Z.mod_pos_bound. reflexivity. Qed.

Lemma wrap64_small z : 0 <= z < W64 -> wrap64 z = z.
Proof. intros. rewrite wrap64_mod. apply Z.mod_small. assumption. Qed.

Lemma wrap32_small z : 0 <= z < W32 -> wrap32 z = z.
Proof. intros. rewrite wrap32_mod. apply Z.mod_small. assumption. Qed.

(* ================================================================== *)
(** * CreateIBBSegments *)

Lemma set_nth_app {A} (done rest : list A) x y :
  set_nth (length done) x (done ++ y :: rest) = done ++ x :: rest.
Proof. induction done as [|h t IH]; cbn [length app set_nth]; [reflexivity | rewrite IH; reflexivity]. Qed.

Lemma fill_segs_spec {E} (sel : E -> bool) (mk : E -> segment) (es : list E) : forall done k,
  fill_segs sel mk es (length done) (done ++ repeat zero_seg k) =
  if (length (filter sel es) <=? k)%nat
  then Ok (done ++ map mk (filter sel es) ++ repeat zero_seg (k - length (filter sel es)))
  else Panic.
Proof.
  induction es as [|e t IH]; intros done k.
  - cbn [fill_segs filter length map app]. rewrite Nat.sub_0_r. reflexivity.
  - cbn [fill_segs filter]. destruct (sel e) eqn:Hs.
    + rewrite app_length, repeat_length. cbn [length map].
      destruct k as [|k].
      * replace (length done <? length done + 0)%nat with false by (symmetry; apply Nat.ltb_ge; lia).
        reflexivity.
      * replace (length done <? length done + S k)%nat with true by (symmetry; apply Nat.ltb_lt; lia).
        cbn [repeat]. rewrite set_nth_app.
        replace (done ++ mk e :: repeat zero_seg k) with ((done ++ [mk e]) ++ repeat zero_seg k)
          by (rewrite <- app_assoc; reflexivity).
        replace (S (length done)) with (length (done ++ [mk e])) by (rewrite app_length; cbn [length]; lia).
        rewrite IH. cbn [Nat.leb Nat.sub].
        destruct (length (filter sel t) <=? k)%nat; [|reflexivity].
        rewrite <- app_assoc. reflexivity.
    + apply IH.
Qed.

Lemma count_sel_length {E} (sel : E -> bool) (es : list E) :
  count_sel sel es = Z.of_nat (length (filter sel es)).
Proof.
  induction es as [|e t IH]; [reflexivity|]. cbn [count_sel filter]. rewrite IH.
  destruct (sel e); cbn [length]; lia.
Qed.

Lemma count_sel_nonneg {E} (sel : E -> bool) es : 0 <= count_sel sel es.
Proof. rewrite count_sel_length. lia. Qed.

(** exact behaviour of the two loops, for every list (the counter is an int since fix d896621:
    the slice has exactly one slot per selected element and the index walk never leaves it) *)
Theorem collect_segs_characterised {E} (sel : E -> bool) (mk : E -> segment) (es : list E) :
  collect_segs sel mk es = Ok (map mk (filter sel es)).
Proof.
  unfold collect_segs.
  pose proof (fill_segs_spec sel mk es [] (Z.to_nat (count_sel sel es))) as H.
  cbn [length app] in H. rewrite H. clear H.
  rewrite count_sel_length, Nat2Z.id, Nat.leb_refl, Nat.sub_diag.
  cbn [repeat]. rewrite app_nil_r. reflexivity.
Qed.

Theorem create_segments_exact flags fit :
  create_segments flags fit = Ok (map (startup_seg flags) (filter is_startup fit)).
Proof. apply collect_segs_characterised. Qed.

(** the k-th segment is the k-th startup entry's address / size<<4 / the given flags *)
Theorem create_segments_nth flags fit segs k :
  create_segments flags fit = Ok segs ->
  (k < length segs)%nat ->
  length segs = length (filter is_startup fit) /\
  exists e, nth_error (filter is_startup fit) k = Some e /\
            nth_error segs k = Some (mkSeg (wrap32 (fe_addr e)) (wrap32 (fe_size e * 16)) flags).
Proof.
  rewrite create_segments_exact.
  intros H Hk. apply Ok_inj' in H. subst segs.
  rewrite map_length in *. split; [reflexivity|].
  destruct (nth_error (filter is_startup fit) k) as [e|] eqn:He.
  - exists e. split; [reflexivity|]. rewrite nth_error_map, He. reflexivity.
  - apply nth_error_None in He. lia.
Qed.

(** 256 startup entries (the count at which the former uint8 counter wrapped) and more *)
Lemma create_segments_many_witness :
  create_segments 0 (repeat (mkFE 7 4294963200 16) 256) = Ok (repeat (mkSeg 4294963200 256 0) 256) /\
  create_segments 3 (repeat (mkFE 7 4294963200 1) 700) = Ok (repeat (mkSeg 4294963200 16 3) 700).
Proof. split; vm_compute; reflexivity. Qed.

Theorem create_segments_cbfs_exact flags file_size cbfs_off files :
  create_segments_cbfs flags file_size cbfs_off files =
  Ok (map (cbfs_seg flags file_size cbfs_off) (filter is_ibb_file files)).
Proof.
  unfold create_segments_cbfs. apply collect_segs_characterised.
Qed.

Theorem create_ibb_segments_exact se_count se_idx flags fit :
  0 <= se_idx < se_count ->
  create_ibb_segments se_count se_idx flags (Some fit) =
  Ok (map (startup_seg flags) (filter is_startup fit)).
Proof.
  intros Hi. unfold create_ibb_segments. rewrite create_segments_exact.
  cbn [bind].
  replace (0 <=? se_idx) with true by (symmetry; apply Z.leb_le; lia).
  replace (se_idx <? se_count) with true by (symmetry; apply Z.ltb_lt; lia).
  reflexivity.
Qed.

(* ================================================================== *)
(** * address map *)

(** the region of an image of length [n] that is mapped below 4 GiB ends at image offset
    [region_end]: [off, off+size) for a descriptor / coreboot layout, the whole image for a
    bare BIOS region *)
Definition anchored (l : layout) (n region_end : Z) : Prop :=
  match l with
  | LIFD off size | LCoreboot off size => 0 <= off /\ 0 <= size /\ off + size = region_end /\ region_end < W32
  | LBiosOnly => region_end = n /\ 0 <= n < W32
  | LNone => False
  end.

Lemma anchored_len_lt l n re : anchored l n re -> re < W32.
Proof. destruct l; cbn [anchored]; try contradiction; intros H; decompose [and] H; lia. Qed.

Theorem calc_offset_anchored l n region_end addr :
  anchored l n region_end ->
  BASE - region_end <= addr < BASE ->
  calc_offset l n addr = Ok (spec_offset region_end addr).
Proof.
  intros Ha Hr. unfold spec_offset.
  destruct l as [off size|off size| |]; cbn [anchored] in Ha; try contradiction.
  1,2: destruct Ha as (H0 & H1 & H2 & H3); cbn [calc_offset]; subst region_end;
    unfold W32, BASE in *;
    (rewrite wrap32_small by (unfold W32; lia)); (rewrite wrap64_small by (unfold W64; lia));
    f_equal; lia.
  destruct Ha as (H0 & H1 & H2). cbn [calc_offset]. subst region_end. unfold W32, BASE in *.
  rewrite wrap64_small by (unfold W64; lia). f_equal. lia.
Qed.

(** a bare BIOS region: the whole image is the region (since fix 98fb605) *)
Theorem calc_offset_bios_only n addr :
  0 <= n < W32 -> BASE - n <= addr < BASE ->
  calc_offset LBiosOnly n addr = Ok (spec_offset n addr) /\ 0 <= spec_offset n addr < n.
Proof.
  intros Hn Hr. split; [apply calc_offset_anchored; [cbn [anchored]; auto | assumption]|].
  unfold spec_offset. lia.
Qed.

(** the witnesses of the former defect (the code returned 4GiB - addr): the bundled 64 KiB
    image and the first byte of a 0x5e0000-byte image *)
Lemma calc_offset_bios_only_witness :
  calc_offset LBiosOnly 65536 4294967280 = Ok 65520 /\
  calc_offset LBiosOnly 6160384 4288806912 = Ok 0.
Proof. split; vm_compute; reflexivity. Qed.

(* [injection]/[inversion] on [Ok (wrap64 (BASE - addr)) = Ok off] do not return (they
   head-normalise the modulo); [Ok_inj'] avoids any reduction. *)
Lemma calc_offset_nonneg l n addr off : calc_offset l n addr = Ok off -> 0 <= off.
Proof.
  intros H.
  destruct l; cbn [calc_offset] in H;
    [apply Ok_inj' in H; rewrite <- H; apply wrap64_range ..| discriminate H].
Qed.

(* ================================================================== *)
(** * GetIBBsDigest *)

Definition included (s : segment) : bool := negb (excluded s).

(** the bytes the code reads for one segment: [size] bytes from the offset CalcImageOffset
    gives for [base]; what lies past the end of the image reads as zero *)
Definition seg_bytes (l : layout) (img : list Z) (s : segment) : list Z :=
  match calc_offset l (zlen img) (sg_base s) with
  | Ok off => read_padded img off (sg_size s)
  | _ => []
  end.

Theorem digest_preimage_spec l img : forall segs p,
  digest_preimage l img segs = Ok p ->
  p = concat (map (seg_bytes l img) (filter included segs)).
Proof.
  induction segs as [|s t IH]; intros p H; cbn [digest_preimage] in H.
  - inversion H. reflexivity.
  - cbn [filter]. unfold included at 1. destruct (excluded s); cbn [negb].
    + apply IH. assumption.
    + cbn [map concat]. unfold read_segment in H. unfold seg_bytes at 1.
      destruct (calc_offset l (zlen img) (sg_base s)) as [off| | |]; cbn [bind] in H; try discriminate.
      destruct (W63 <=? off); [discriminate|].
      destruct (zlen img <=? off); [discriminate|]. cbn [bind] in H.
      destruct (digest_preimage l img t) as [r| | |]; cbn [bind] in H; try discriminate.
      apply Ok_inj' in H. subst p. f_equal. apply IH. reflexivity.
Qed.

(** the read starts inside the image for every hashed segment *)
Theorem digest_preimage_starts_inside l img : forall segs p,
  digest_preimage l img segs = Ok p ->
  forall s, In s segs -> included s = true ->
  exists off, calc_offset l (zlen img) (sg_base s) = Ok off /\ 0 <= off < zlen img.
Proof.
  induction segs as [|s t IH]; intros p H s' Hin Hinc; [contradiction|].
  cbn [digest_preimage] in H. destruct Hin as [->|Hin].
  - unfold included in Hinc. destruct (excluded s'); [discriminate|].
    unfold read_segment in H.
    destruct (calc_offset l (zlen img) (sg_base s')) as [off| | |] eqn:Hc; cbn [bind] in H; try discriminate.
    destruct (W63 <=? off); [discriminate|].
    destruct (zlen img <=? off) eqn:Hle; [discriminate|].
    exists off. split; [reflexivity|]. apply Z.leb_gt in Hle.
    pose proof (calc_offset_nonneg _ _ _ _ Hc). lia.
  - destruct (excluded s).
    + eapply IH; eauto.
    + destruct (read_segment l img s); cbn [bind] in H; try discriminate.
      destruct (digest_preimage l img t) as [r| | |] eqn:Hr; cbn [bind] in H; try discriminate.
      eapply IH; eauto.
Qed.

Lemma slice_length img off n :
  0 <= off -> 0 <= n -> off + n <= zlen img -> length (slice img off n) = Z.to_nat n.
Proof.
  intros H0 H1 H2. unfold slice, zlen in *. rewrite firstn_length, skipn_length. lia.
Qed.

Lemma read_padded_inside img off n :
  0 <= off -> 0 <= n -> off + n <= zlen img -> read_padded img off n = slice img off n.
Proof.
  intros. unfold read_padded. rewrite slice_length by assumption. rewrite Nat.sub_diag.
  cbn [repeat]. apply app_nil_r.
Qed.

Lemma read_padded_length img off n : 0 <= n -> length (read_padded img off n) = Z.to_nat n.
Proof.
  intros. unfold read_padded. rewrite app_length, repeat_length.
  assert (length (slice img off n) <= Z.to_nat n)%nat by (unfold slice; rewrite firstn_length; lia).
  lia.
Qed.

(** a segment lies inside the image at offset [f (base)] *)
Definition seg_inside (f : Z -> Z) (img : list Z) (s : segment) : Prop :=
  0 <= f (sg_base s) /\ 0 <= sg_size s /\ f (sg_base s) + sg_size s <= zlen img.

Lemma map_ext_Forall {A B} (f g : A -> B) l : Forall (fun x => f x = g x) l -> map f l = map g l.
Proof. induction 1; cbn [map]; congruence. Qed.

(** with an anchored region (IFD BIOS region / coreboot area mapped below 4 GiB) the digest
    preimage is the concatenation of the image bytes of the non-excluded segments at the
    offsets corresponding to their physical addresses *)
Theorem digest_preimage_anchored l region_end img segs p :
  anchored l (zlen img) region_end ->
  Forall (fun s => included s = true ->
                   BASE - region_end <= sg_base s < BASE /\ seg_inside (spec_offset region_end) img s) segs ->
  digest_preimage l img segs = Ok p ->
  p = concat (map (fun s => slice img (spec_offset region_end (sg_base s)) (sg_size s)) (filter included segs)).
Proof.
  intros Ha Hall H. rewrite (digest_preimage_spec _ _ _ _ H). f_equal.
  apply map_ext_Forall. rewrite Forall_forall in *. intros s Hs.
  apply filter_In in Hs. destruct Hs as [Hin Hinc].
  destruct (Hall s Hin Hinc) as (Hr & Hi0 & Hi1 & Hi2).
  unfold seg_bytes. rewrite (calc_offset_anchored _ _ _ _ Ha Hr).
  apply read_padded_inside; assumption.
Qed.

(** ... and the call does succeed *)
Theorem digest_preimage_anchored_ok l region_end img : forall segs,
  anchored l (zlen img) region_end ->
  Forall (fun s => included s = true ->
                   BASE - region_end <= sg_base s < BASE /\ seg_inside (spec_offset region_end) img s /\
                   spec_offset region_end (sg_base s) < zlen img) segs ->
  exists p, digest_preimage l img segs = Ok p.
Proof.
  intros segs Ha. induction 1 as [|s t Hs Ht IH]; [exists []; reflexivity|].
  cbn [digest_preimage]. destruct (excluded s) eqn:He; [exact IH|].
  destruct Hs as (Hr & (Hi0 & Hi1 & Hi2) & Hlt); [unfold included; rewrite He; reflexivity|].
  unfold read_segment. rewrite (calc_offset_anchored _ _ _ _ Ha Hr). cbn [bind].
  assert (spec_offset region_end (sg_base s) < W63).
  { pose proof (anchored_len_lt _ _ _ Ha). unfold spec_offset, BASE, W32, W63 in *. lia. }
  replace (W63 <=? spec_offset region_end (sg_base s)) with false by (symmetry; apply Z.leb_gt; lia).
  replace (zlen img <=? spec_offset region_end (sg_base s)) with false by (symmetry; apply Z.leb_gt; lia).
  cbn [bind]. destruct IH as [r ->]. cbn [bind]. eexists. reflexivity.
Qed.

(** the witness of the former defect: on a bare BIOS region the segment (4GiB-48, 16) of a
    64-byte image is bytes [16,32) (the code used to read [48,64)) *)
Lemma digest_bios_only_witness :
  digest_preimage LBiosOnly (seqZ 0 64) [mkSeg (4294967296 - 48) 16 0] = Ok (seqZ 16 16).
Proof. vm_compute. reflexivity. Qed.

(** the digest itself, for any hash function *)
Section Hash.
  Variable H : Z -> list Z -> list Z.

  Definition ibbs_digest (ver alg : Z) (l : layout) (img : list Z) (segs : list segment) : outcome (list Z) :=
    bind (get_ibbs_digest ver alg l img segs) (fun ap => Ok (H (fst ap) (snd ap))).

  Theorem ibbs_digest_is_hash ver alg l img segs d :
    ibbs_digest ver alg l img segs = Ok d ->
    alg_supported ver alg = true /\
    d = H alg (concat (map (seg_bytes l img) (filter included segs))).
  Proof.
    unfold ibbs_digest, get_ibbs_digest. destruct (alg_supported ver alg); [|discriminate].
    destruct (digest_preimage l img segs) as [p| | |] eqn:Hp; cbn [bind fst snd]; try discriminate.
    intros E. inversion E. split; [reflexivity|]. f_equal. eapply digest_preimage_spec; eassumption.
  Qed.

  Theorem ibbs_digest_anchored ver alg l region_end img segs d :
    anchored l (zlen img) region_end ->
    Forall (fun s => included s = true ->
                     BASE - region_end <= sg_base s < BASE /\ seg_inside (spec_offset region_end) img s) segs ->
    ibbs_digest ver alg l img segs = Ok d ->
    d = H alg (concat (map (fun s => slice img (spec_offset region_end (sg_base s)) (sg_size s))
                           (filter included segs))).
  Proof.
    intros Ha Hall. unfold ibbs_digest, get_ibbs_digest. destruct (alg_supported ver alg); [|discriminate].
    destruct (digest_preimage l img segs) as [p| | |] eqn:Hp; cbn [bind fst snd]; try discriminate.
    intros E. inversion E. f_equal. eapply digest_preimage_anchored; eassumption.
  Qed.

  (** CreateIBBDigest: one digest per listed algorithm, each the hash of the same preimage *)
  Theorem create_ibb_digest_spec ver l img segs : forall algs r,
    create_ibb_digest ver algs l img segs = Ok r ->
    map fst r = algs /\
    Forall (fun ap => snd ap = concat (map (seg_bytes l img) (filter included segs))) r /\
    Forall (fun a => alg_name_roundtrips ver a = true) algs.
  Proof.
    induction algs as [|a t IH]; intros r E; cbn [create_ibb_digest] in E.
    - inversion E. repeat split; constructor.
    - destruct (alg_name_roundtrips ver a) eqn:Hn; [|discriminate].
      unfold get_ibbs_digest in E. destruct (alg_supported ver a); cbn [bind] in E; [|discriminate].
      destruct (digest_preimage l img segs) as [p| | |] eqn:Hp; cbn [bind] in E; try discriminate.
      destruct (create_ibb_digest ver t l img segs) as [r'| | |] eqn:Hr; cbn [bind] in E; try discriminate.
      inversion E; subst r. destruct (IH r' eq_refl) as (I1 & I2 & I3).
      cbn [map fst]. repeat split.
      + f_equal. assumption.
      + constructor; [cbn [snd]; eapply digest_preimage_spec; eassumption | assumption].
      + constructor; assumption.
  Qed.
End Hash.

(** SM3 (id 18), which GetIBBsDigest offers for CBnT, now passes CreateIBBDigest as well *)
Lemma create_ibb_digest_sm3_witness :
  create_ibb_digest 2 [11; 18; 12] (LIFD 0 16) (seqZ 0 16) [mkSeg (4294967296 - 8) 4 0] =
  Ok [(11, seqZ 8 4); (18, seqZ 8 4); (12, seqZ 8 4)].
Proof. vm_compute. reflexivity. Qed.

(* ================================================================== *)
(** * the independent validator agrees (anchored region ending at the end of the image) *)

Lemma to_int64_small z : 0 <= z < W63 -> to_int64 z = z.
Proof. intros. unfold to_int64. replace (z <? W63) with true by (symmetry; apply Z.ltb_lt; lia). reflexivity. Qed.

Lemma validator_range_inside img s :
  zlen img < W32 ->
  BASE - zlen img <= sg_base s < BASE ->
  seg_inside (spec_offset (zlen img)) img s ->
  validator_range img s = Ok (slice img (spec_offset (zlen img) (sg_base s)) (sg_size s)).
Proof.
  intros Hl Hr (H0 & H1 & H2). unfold validator_range, spec_offset in *.
  set (o := sg_base s - (BASE - zlen img)) in *.
  replace (zlen img - (BASE - sg_base s)) with o in * by (unfold o; lia).
  assert (0 <= o < W32) by (unfold BASE, W32 in *; lia).
  rewrite (wrap64_small o) by (unfold W32, W64 in *; lia).
  rewrite (wrap64_small (o + sg_size s)) by (unfold W32, W64 in *; lia).
  rewrite !to_int64_small by (unfold W32, W63 in *; lia).
  replace (0 <=? o) with true by (symmetry; apply Z.leb_le; lia).
  replace (o <=? o + sg_size s) with true by (symmetry; apply Z.leb_le; lia).
  replace (o + sg_size s <=? zlen img) with true by (symmetry; apply Z.leb_le; lia).
  reflexivity.
Qed.

Lemma zlist_eqb_refl l : zlist_eqb l l = true.
Proof. induction l as [|h t IH]; [reflexivity|]. cbn [zlist_eqb]. rewrite Z.eqb_refl, IH. reflexivity. Qed.

Theorem validator_agrees l img : forall segs p,
  anchored l (zlen img) (zlen img) ->
  Forall (fun s => included s = true ->
                   BASE - zlen img <= sg_base s < BASE /\ seg_inside (spec_offset (zlen img)) img s) segs ->
  digest_preimage l img segs = Ok p ->
  validator_preimage img segs = Ok p.
Proof.
  intros segs p Ha Hall. revert p. induction Hall as [|s t Hs Ht IH]; intros p H.
  - cbn in *. assumption.
  - cbn [digest_preimage validator_preimage] in *. destruct (excluded s) eqn:He; [apply IH; assumption|].
    destruct Hs as (Hr & Hin); [unfold included; rewrite He; reflexivity|].
    assert (Hl : zlen img < W32) by exact (anchored_len_lt _ _ _ Ha).
    rewrite (validator_range_inside _ _ Hl Hr Hin). cbn [bind].
    unfold read_segment in H. rewrite (calc_offset_anchored _ _ _ _ Ha Hr) in H. cbn [bind] in H.
    destruct (W63 <=? spec_offset (zlen img) (sg_base s)); [discriminate|].
    destruct (zlen img <=? spec_offset (zlen img) (sg_base s)); [discriminate|]. cbn [bind] in H.
    destruct (digest_preimage l img t) as [r| | |]; cbn [bind] in H; try discriminate.
    rewrite (IH r eq_refl). cbn [bind]. inversion H. f_equal. f_equal.
    destruct Hin as (? & ? & ?). symmetry. apply read_padded_inside; assumption.
Qed.

Theorem ibbs_match_accepts l img segs p :
  anchored l (zlen img) (zlen img) ->
  Forall (fun s => included s = true ->
                   BASE - zlen img <= sg_base s < BASE /\ seg_inside (spec_offset (zlen img)) img s) segs ->
  digest_preimage l img segs = Ok p ->
  ibbs_match l img segs = Ok true.
Proof.
  intros Ha Hall H. unfold ibbs_match. rewrite H. cbn [bind].
  rewrite (validator_agrees _ _ _ _ Ha Hall H). cbn [bind]. rewrite zlist_eqb_refl. reflexivity.
Qed.

(** the witness of the former defect is accepted now *)
Lemma ibbs_match_bios_only_witness :
  ibbs_match LBiosOnly (seqZ 0 64) [mkSeg (4294967296 - 48) 16 0] = Ok true.
Proof. vm_compute. reflexivity. Qed.

(* ================================================================== *)
(** * StitchFITEntries *)

(** byte [i] of a file; bytes past the end read as 0 (this is also what a hole left by
    WriteAt past the end of the file reads as) *)
Definition zn (l : list Z) (i : Z) : Z := nth (Z.to_nat i) l 0.

Lemma nth_write_at f o d i :
  nth i (write_at f (Z.of_nat o) d) 0 =
  if ((o <=? i) && (i <? o + length d))%nat then nth (i - o) d 0 else nth i f 0.
Proof.
  unfold write_at, zlen.
  destruct (Z.of_nat o <=? Z.of_nat (length f)) eqn:Hle.
  - apply Z.leb_le in Hle. rewrite Nat2Z.id.
    replace (Z.to_nat (Z.of_nat o + Z.of_nat (length d))) with (o + length d)%nat by lia.
    assert (Hfl : length (firstn o f) = o) by (rewrite firstn_length; lia).
    destruct (o <=? i)%nat eqn:H1; cbn [andb].
    + apply Nat.leb_le in H1. rewrite app_nth2 by lia. rewrite Hfl.
      destruct (i <? o + length d)%nat eqn:H2.
      * apply Nat.ltb_lt in H2. rewrite app_nth1 by lia. reflexivity.
      * apply Nat.ltb_ge in H2. rewrite app_nth2 by lia. rewrite nth_skipn_add. f_equal. lia.
    + apply Nat.leb_gt in H1. rewrite app_nth1 by lia. apply nth_firstn_lt. assumption.
  - apply Z.leb_gt in Hle.
    replace (Z.to_nat (Z.of_nat o - Z.of_nat (length f))) with (o - length f)%nat by lia.
    destruct (o <=? i)%nat eqn:H1; cbn [andb].
    + apply Nat.leb_le in H1. rewrite app_nth2 by lia. rewrite app_nth2 by (rewrite repeat_length; lia).
      rewrite repeat_length.
      replace (i - length f - (o - length f))%nat with (i - o)%nat by lia.
      destruct (i <? o + length d)%nat eqn:H2; [reflexivity|].
      apply Nat.ltb_ge in H2. rewrite !nth_overflow by lia. reflexivity.
    + apply Nat.leb_gt in H1.
      destruct (Nat.lt_ge_cases i (length f)) as [Hi|Hi].
      * rewrite app_nth1 by assumption. reflexivity.
      * rewrite app_nth2 by assumption. rewrite app_nth1 by (rewrite repeat_length; lia).
        rewrite nth_repeat_same. symmetry. apply nth_overflow. assumption.
Qed.

Lemma write_at_zn f off d i :
  0 <= off -> 0 <= i ->
  zn (write_at f off d) i = if (off <=? i) && (i <? off + zlen d) then zn d (i - off) else zn f i.
Proof.
  intros Ho Hi. unfold zn. rewrite <- (Z2Nat.id off) at 1 by assumption. rewrite nth_write_at.
  unfold zlen.
  destruct (off <=? i) eqn:H1.
  - apply Z.leb_le in H1. replace (Z.to_nat off <=? Z.to_nat i)%nat with true by (symmetry; apply Nat.leb_le; lia).
    cbn [andb]. destruct (i <? off + Z.of_nat (length d)) eqn:H2.
    + apply Z.ltb_lt in H2. replace (Z.to_nat i <? Z.to_nat off + length d)%nat with true by (symmetry; apply Nat.ltb_lt; lia).
      f_equal. lia.
    + apply Z.ltb_ge in H2. replace (Z.to_nat i <? Z.to_nat off + length d)%nat with false by (symmetry; apply Nat.ltb_ge; lia).
      reflexivity.
  - apply Z.leb_gt in H1. replace (Z.to_nat off <=? Z.to_nat i)%nat with false by (symmetry; apply Nat.leb_gt; lia).
    reflexivity.
Qed.

Lemma write_at_zlen f off d : 0 <= off -> zlen (write_at f off d) = Z.max (zlen f) (off + zlen d).
Proof.
  intros Ho. unfold write_at. destruct (off <=? zlen f) eqn:Hle.
  - apply Z.leb_le in Hle. unfold zlen in *. rewrite !app_length, firstn_length, skipn_length. lia.
  - apply Z.leb_gt in Hle. unfold zlen in *. rewrite !app_length, repeat_length. lia.
Qed.

(** the blob StitchFITEntries would put into an entry, and where CalcImageOffset says it goes *)
Definition new_blob (e : fit_entry) (acm bpm km : list Z) : list Z :=
  if fe_type e =? T_BPM then bpm else if fe_type e =? T_KM then km else if fe_type e =? T_SACM then acm else [].

Definition target (l : layout) (n : Z) (e : fit_entry) (acm bpm km : list Z) : option (Z * list Z) :=
  match new_blob e acm bpm km with
  | [] => None
  | new => match calc_offset l n (fe_addr e) with Ok off => Some (off, new) | _ => None end
  end.

(** [n]: length of the image StitchFITEntries read at the start *)
Fixpoint targets (l : layout) (n : Z) (es : list fit_entry) (acm bpm km : list Z) : list (Z * list Z) :=
  match es with
  | [] => []
  | e :: t => match target l n e acm bpm km with
              | Some x => x :: targets l n t acm bpm km
              | None => targets l n t acm bpm km
              end
  end.

Lemma stitch_manifest_cases l orig file e new file' ok :
  stitch_manifest l orig file e new = (file', ok) ->
  file' = file \/
  (ok = true /\ new <> [] /\ exists off, calc_offset l (zlen orig) (fe_addr e) = Ok off /\ 0 <= off /\ file' = write_at file off new).
Proof.
  unfold stitch_manifest. destruct new as [|b new]; [intros E; inversion E; auto|].
  destruct (manifest_data_len (zlen orig) e =? 0); [intros E; inversion E; auto|].
  destruct (manifest_data_len (zlen orig) e <? zlen (b :: new)); [intros E; inversion E; auto|].
  destruct (calc_offset l (zlen orig) (fe_addr e)) as [off| | |] eqn:Hc; try (intros E; inversion E; auto; fail).
  destruct (W63 <=? off); intros E; inversion E; auto.
  right. split; [reflexivity|]. split; [discriminate|]. exists off. split; [reflexivity|].
  split; [eapply calc_offset_nonneg; eassumption | reflexivity].
Qed.

Lemma stitch_acm_cases l n file e new file' ok :
  stitch_acm l n file e new = (file', ok) ->
  file' = file \/
  (ok = true /\ new <> [] /\ exists off, calc_offset l n (fe_addr e) = Ok off /\ 0 <= off /\ file' = write_at file off new).
Proof.
  unfold stitch_acm. destruct new as [|b new]; [intros E; inversion E; auto|].
  destruct (calc_offset l n (fe_addr e)) as [off| | |] eqn:Hc; try (intros E; inversion E; auto; fail).
  destruct (W63 <=? off); [intros E; inversion E; auto|].
  destruct (zlen file <=? off); [intros E; inversion E; auto|].
  destruct (acm_size (read_padded file off 32) =? 0); [intros E; inversion E; auto|].
  destruct (negb (zlen (b :: new) =? acm_size (read_padded file off 32))); intros E; inversion E; auto.
  right. split; [reflexivity|]. split; [discriminate|]. exists off. split; [reflexivity|].
  split; [eapply calc_offset_nonneg; eassumption | reflexivity].
Qed.

Lemma stitch_entry_cases l orig file e acm bpm km file' ok :
  stitch_entry l orig file e acm bpm km = (file', ok) ->
  file' = file \/
  (ok = true /\ exists off new, target l (zlen orig) e acm bpm km = Some (off, new) /\ 0 <= off /\ file' = write_at file off new).
Proof.
  unfold stitch_entry, target, new_blob.
  destruct (fe_type e =? T_BPM).
  { intros E. apply stitch_manifest_cases in E. destruct E as [E|(Ho & Hn & off & Hc & H0 & Hw)]; [auto|].
    right. split; [assumption|]. exists off, bpm. rewrite Hc. destruct bpm; [congruence|]. auto. }
  destruct (fe_type e =? T_KM).
  { intros E. apply stitch_manifest_cases in E. destruct E as [E|(Ho & Hn & off & Hc & H0 & Hw)]; [auto|].
    right. split; [assumption|]. exists off, km. rewrite Hc. destruct km; [congruence|]. auto. }
  destruct (fe_type e =? T_SACM).
  { intros E. apply stitch_acm_cases in E. destruct E as [E|(Ho & Hn & off & Hc & H0 & Hw)]; [auto|].
    right. split; [assumption|]. exists off, acm. rewrite Hc. destruct acm; [congruence|]. auto. }
  intros E. inversion E. auto.
Qed.

(** an entry whose guard fails is not written *)
Theorem stitch_entry_failed_untouched l orig file e acm bpm km file' :
  stitch_entry l orig file e acm bpm km = (file', false) -> file' = file.
Proof.
  intros E. apply stitch_entry_cases in E. destruct E as [E|(Ho & _)]; [assumption|discriminate].
Qed.

(** a successful step on a targeted entry did write the new blob at the computed offset *)
Lemma stitch_entry_ok_target l orig file e acm bpm km file' off new :
  stitch_entry l orig file e acm bpm km = (file', true) ->
  target l (zlen orig) e acm bpm km = Some (off, new) ->
  0 <= off /\ file' = write_at file off new.
Proof.
  unfold stitch_entry, target, new_blob.
  destruct (fe_type e =? T_BPM); [|destruct (fe_type e =? T_KM); [|destruct (fe_type e =? T_SACM)]].
  - unfold stitch_manifest. destruct bpm as [|b t]; [discriminate|].
    destruct (manifest_data_len (zlen orig) e =? 0); [discriminate|].
    destruct (manifest_data_len (zlen orig) e <? zlen (b :: t)); [discriminate|].
    destruct (calc_offset l (zlen orig) (fe_addr e)) as [o| | |] eqn:Hc; try discriminate.
    destruct (W63 <=? o); [discriminate|]. intros E T. inversion E. inversion T. subst.
    split; [eapply calc_offset_nonneg; eassumption|reflexivity].
  - unfold stitch_manifest. destruct km as [|b t]; [discriminate|].
    destruct (manifest_data_len (zlen orig) e =? 0); [discriminate|].
    destruct (manifest_data_len (zlen orig) e <? zlen (b :: t)); [discriminate|].
    destruct (calc_offset l (zlen orig) (fe_addr e)) as [o| | |] eqn:Hc; try discriminate.
    destruct (W63 <=? o); [discriminate|]. intros E T. inversion E. inversion T. subst.
    split; [eapply calc_offset_nonneg; eassumption|reflexivity].
  - unfold stitch_acm. destruct acm as [|b t]; [discriminate|].
    destruct (calc_offset l (zlen orig) (fe_addr e)) as [o| | |] eqn:Hc; try discriminate.
    destruct (W63 <=? o); [discriminate|].
    destruct (zlen file <=? o); [discriminate|].
    destruct (acm_size (read_padded file o 32) =? 0); [discriminate|].
    destruct (negb (zlen (b :: t) =? acm_size (read_padded file o 32))); [discriminate|].
    intros E T. inversion E. inversion T. subst.
    split; [eapply calc_offset_nonneg; eassumption|reflexivity].
  - discriminate.
Qed.

Definition outside (ts : list (Z * list Z)) (i : Z) : Prop :=
  forall off new, In (off, new) ts -> ~ (off <= i < off + zlen new).

(** frame: whatever happens (success or error), a byte outside every region
    [CalcImageOffset(entry address), + len(new blob)) keeps its value *)
Theorem stitch_loop_frame l orig acm bpm km : forall es file i,
  0 <= i -> outside (targets l (zlen orig) es acm bpm km) i ->
  zn (fst (stitch_loop l orig file es acm bpm km)) i = zn file i.
Proof.
  induction es as [|e t IH]; intros file i Hi Hout; [reflexivity|].
  cbn [stitch_loop]. destruct (stitch_entry l orig file e acm bpm km) as [file' ok] eqn:He.
  assert (Hout' : outside (targets l (zlen orig) t acm bpm km) i).
  { intros off new Hin. apply Hout. cbn [targets]. destruct (target l (zlen orig) e acm bpm km); [right|]; assumption. }
  assert (Hstep : zn file' i = zn file i).
  { apply stitch_entry_cases in He. destruct He as [->|(_ & off & new & Ht & Ho & ->)]; [reflexivity|].
    rewrite write_at_zn by assumption.
    assert (Hn : ~ (off <= i < off + zlen new)) by (apply Hout; cbn [targets]; rewrite Ht; left; reflexivity).
    destruct (off <=? i) eqn:H1; [|reflexivity]. destruct (i <? off + zlen new) eqn:H2; [|reflexivity].
    apply Z.leb_le in H1. apply Z.ltb_lt in H2. lia. }
  destruct ok; [|cbn [fst]; assumption].
  rewrite IH by assumption. assumption.
Qed.

Theorem stitch_frame l img fit acm bpm km i :
  0 <= i ->
  outside (match fit with Some es => targets l (zlen img) es acm bpm km | None => [] end) i ->
  zn (fst (stitch l img fit acm bpm km)) i = zn img i.
Proof.
  intros Hi Ho. destruct fit as [es|]; cbn [stitch]; [apply stitch_loop_frame; assumption | reflexivity].
Qed.

(** the file never shrinks, and keeps its length when every region lies inside it *)
Theorem stitch_loop_length l orig acm bpm km : forall es file,
  zlen file <= zlen (fst (stitch_loop l orig file es acm bpm km)) /\
  (Forall (fun t => fst t + zlen (snd t) <= zlen file) (targets l (zlen orig) es acm bpm km) ->
   zlen (fst (stitch_loop l orig file es acm bpm km)) = zlen file).
Proof.
  induction es as [|e t IH]; intros file; [split; [cbn; lia|reflexivity]|].
  cbn [stitch_loop]. destruct (stitch_entry l orig file e acm bpm km) as [file' ok] eqn:He.
  apply stitch_entry_cases in He.
  destruct He as [->|(-> & off & new & Ht & Ho & ->)].
  - destruct ok; cbn [fst].
    + destruct (IH file) as [I1 I2]. split; [assumption|]. intros Hall. apply I2.
      cbn [targets] in Hall. destruct (target l (zlen orig) e acm bpm km); [inversion Hall|]; assumption.
    + split; [lia|reflexivity].
  - destruct (IH (write_at file off new)) as [I1 I2]. rewrite write_at_zlen in * by assumption. split; [lia|].
    intros Hall. cbn [targets] in Hall. rewrite Ht in Hall. inversion Hall as [|x xs Hx Hxs]; subst.
    cbn [fst snd] in Hx. rewrite I2.
    + lia.
    + eapply Forall_impl; [|exact Hxs]. cbn beta. intros a Ha. lia.
Qed.

(** regions pairwise disjoint *)
Fixpoint disjoint_regions (ts : list (Z * list Z)) : Prop :=
  match ts with
  | [] => True
  | (o, d) :: t => Forall (fun x => o + zlen d <= fst x \/ fst x + zlen (snd x) <= o) t /\ disjoint_regions t
  end.

(** on success, re-reading a targeted region returns the new blob, provided the regions
    do not overlap (a later entry would overwrite an earlier one otherwise) *)
Theorem stitch_loop_reread l orig acm bpm km : forall es file file',
  stitch_loop l orig file es acm bpm km = (file', true) ->
  disjoint_regions (targets l (zlen orig) es acm bpm km) ->
  forall off new, In (off, new) (targets l (zlen orig) es acm bpm km) ->
  forall k, 0 <= k < zlen new -> zn file' (off + k) = zn new k.
Proof.
  induction es as [|e t IH]; intros file file' Hs Hd off new Hin k Hk; [contradiction|].
  cbn [stitch_loop] in Hs. destruct (stitch_entry l orig file e acm bpm km) as [file1 ok] eqn:He.
  destruct ok; [|inversion Hs].
  cbn [targets] in Hd, Hin. destruct (target l (zlen orig) e acm bpm km) as [[o d]|] eqn:Ht.
  - destruct (stitch_entry_ok_target _ _ _ _ _ _ _ _ _ _ He Ht) as [Ho ->].
    cbn [disjoint_regions] in Hd. destruct Hd as [Hfa Hd].
    destruct Hin as [Heq|Hin].
    + inversion Heq; subst o d.
      replace file' with (fst (stitch_loop l orig (write_at file off new) t acm bpm km)) by (rewrite Hs; reflexivity).
      rewrite stitch_loop_frame.
      * rewrite write_at_zn by lia.
        replace (off <=? off + k) with true by (symmetry; apply Z.leb_le; lia).
        replace (off + k <? off + zlen new) with true by (symmetry; apply Z.ltb_lt; lia).
        cbn [andb]. f_equal. lia.
      * lia.
      * intros o' d' Hin'. rewrite Forall_forall in Hfa. specialize (Hfa _ Hin'). cbn [fst snd] in Hfa. lia.
    + eapply IH; eassumption.
  - eapply IH; eassumption.
Qed.

(** * composition with the address map: a KM/BPM blob that is written lands inside its entry *)

Lemma manifest_data_len_inside img_len e :
  0 <= img_len < W32 -> 0 <= fe_addr e < W64 -> 0 <= fe_size e < 16777216 ->
  manifest_data_len img_len e <> 0 ->
  manifest_data_len img_len e = fe_size e /\
  BASE - img_len <= fe_addr e /\ spec_offset img_len (fe_addr e) + fe_size e <= img_len.
Proof.
  intros Hl Ha Hs. unfold manifest_data_len, spec_offset.
  destruct (fe_size e =? 0); [congruence|].
  set (lo := wrap64 (fe_addr e - (BASE - img_len))).
  destruct ((0 <=? to_int64 lo) && (to_int64 lo <=? to_int64 (wrap64 (lo + fe_size e))) &&
            (to_int64 (wrap64 (lo + fe_size e)) <=? img_len)) eqn:Hc; [|congruence].
  intros _. split; [reflexivity|].
  apply andb_prop in Hc. destruct Hc as [Hc H3]. apply andb_prop in Hc. destruct Hc as [H1 H2].
  apply Z.leb_le in H1, H2, H3.
  assert (Hlo : 0 <= lo < W64) by apply wrap64_range.
  assert (Hlo63 : lo < W63).
  { unfold to_int64 in H1. destruct (lo <? W63) eqn:E; [apply Z.ltb_lt in E; assumption|].
    unfold W63, W64 in *. apply Z.ltb_ge in E. lia. }
  rewrite (to_int64_small lo) in * by lia.
  assert (Hsum : 0 <= lo + fe_size e < W64) by (unfold W63, W64 in *; lia).
  rewrite (wrap64_small (lo + fe_size e)) in * by assumption.
  assert (Hhi : lo + fe_size e < W63).
  { unfold to_int64 in H2. destruct (lo + fe_size e <? W63) eqn:E; [apply Z.ltb_lt in E; assumption|].
    unfold W63, W64 in *. apply Z.ltb_ge in E. lia. }
  rewrite (to_int64_small (lo + fe_size e)) in * by lia.
  (* lo = fe_addr - (BASE - img_len) without wrap-around, otherwise lo would be huge *)
  unfold lo in *. rewrite wrap64_mod in *. unfold W64, W63, W32, BASE in *.
  destruct (Z_lt_ge_dec (fe_addr e - (4294967296 - img_len)) 0) as [Hneg|Hpos].
  - exfalso.
    assert ((fe_addr e - (4294967296 - img_len)) mod 18446744073709551616 =
            fe_addr e - (4294967296 - img_len) + 18446744073709551616).
    { symmetry. apply Z.mod_unique with (q := -1); lia. }
    lia.
  - rewrite Z.mod_small in * by lia. lia.
Qed.

Theorem stitch_manifest_within_entry l orig file e new file' :
  anchored l (zlen orig) (zlen orig) ->
  0 <= fe_addr e < W64 -> 0 <= fe_size e < 16777216 ->
  new <> [] ->
  stitch_manifest l orig file e new = (file', true) ->
  let off := spec_offset (zlen orig) (fe_addr e) in
  file' = write_at file off new /\
  0 <= off /\ off + zlen new <= off + fe_size e /\ off + fe_size e <= zlen orig.
Proof.
  intros Ha Hadr Hsz Hn. unfold stitch_manifest. destruct new as [|b t]; [congruence|].
  destruct (manifest_data_len (zlen orig) e =? 0) eqn:H0; [discriminate|].
  destruct (manifest_data_len (zlen orig) e <? zlen (b :: t)) eqn:H1; [discriminate|].
  apply Z.eqb_neq in H0. apply Z.ltb_ge in H1.
  assert (Hl : 0 <= zlen orig < W32).
  { split; [apply zlen_nonneg | exact (anchored_len_lt _ _ _ Ha)]. }
  destruct (manifest_data_len_inside _ _ Hl Hadr Hsz H0) as (Hd & Hlo & Hhi).
  assert (Hr : BASE - zlen orig <= fe_addr e < BASE).
  { unfold spec_offset in Hhi. pose proof (zlen_nonneg (b :: t)). rewrite zlen_cons in *.
    pose proof (zlen_nonneg t). split; [assumption|]. unfold BASE in *. lia. }
  rewrite (calc_offset_anchored _ _ _ _ Ha Hr).
  destruct (W63 <=? spec_offset (zlen orig) (fe_addr e)); [discriminate|].
  intros E. inversion E. cbn zeta. split; [reflexivity|].
  unfold spec_offset in *. lia.
Qed.

(** the witness of the former defect: a 2-byte KM for the 16-byte KM entry at the start of a
    64-byte bare BIOS region goes to offset 0 (the code used to append it at offset 64) *)
Lemma stitch_bios_only_witness :
  exists file',
    stitch LBiosOnly (seqZ 0 64) (Some [mkFE 11 (4294967296 - 64) 16]) [] [] [255; 254] = (file', true) /\
    zlen file' = 64 /\ zn file' 0 = 255 /\ zn file' 1 = 254 /\ zn file' 2 = 2.
Proof. eexists. split; [vm_compute; reflexivity|]. repeat split; vm_compute; reflexivity. Qed.

Lemma stitch_not_atomic_witness :
  exists l img fit acm bpm km file',
    stitch l img (Some fit) acm bpm km = (file', false) /\ file' <> img.
Proof.
  exists (LIFD 0 64), (seqZ 0 64), [mkFE 11 (4294967296 - 64) 16; mkFE 12 (4294967296 - 32) 1], [], [1; 2], [255; 254].
  eexists. split; [vm_compute; reflexivity|]. vm_compute. discriminate.
Qed.

(* ================================================================== *)
(** * additions used by Props/C19.v *)

(** ** segments: fields of a well-formed entry, inversion, CBFS addresses *)

Definition fit_entry_wf (e : fit_entry) : Prop :=
  0 <= fe_addr e < W32 /\ 0 <= fe_size e < 16777216.

Lemma startup_seg_wf flags e :
  fit_entry_wf e -> startup_seg flags e = mkSeg (fe_addr e) (16 * fe_size e) flags.
Proof.
  intros [Ha Hs]. unfold startup_seg.
  rewrite (wrap32_small (fe_addr e)) by assumption.
  rewrite (wrap32_small (fe_size e * 16)) by (unfold W32; lia).
  f_equal. lia.
Qed.

Lemma map_ext_in_filter {A B} (f g : A -> B) (sel : A -> bool) l :
  (forall x, In x l -> sel x = true -> f x = g x) -> map f (filter sel l) = map g (filter sel l).
Proof.
  intros H. apply map_ext_in. intros x Hx. apply filter_In in Hx. destruct Hx. auto.
Qed.

(** whenever the call returns, the list is one segment per startup entry, in FIT order *)
Theorem create_ibb_segments_ok_inv se_count se_idx flags fit segs :
  create_ibb_segments se_count se_idx flags (Some fit) = Ok segs ->
  segs = map (startup_seg flags) (filter is_startup fit) /\ 0 <= se_idx < se_count.
Proof.
  unfold create_ibb_segments. rewrite create_segments_exact. cbn [bind].
  destruct (0 <=? se_idx) eqn:H0; cbn [andb]; [|discriminate].
  destruct (se_idx <? se_count) eqn:H1; [|discriminate].
  intros E. apply Ok_inj' in E. apply Z.ltb_lt in H1. apply Z.leb_le in H0.
  split; [symmetry; assumption|lia].
Qed.

Theorem create_ibb_segments_fit se_count se_idx flags fit :
  0 <= se_idx < se_count ->
  Forall (fun e => is_startup e = true -> fit_entry_wf e) fit ->
  create_ibb_segments se_count se_idx flags (Some fit) =
  Ok (map (fun e => mkSeg (fe_addr e) (16 * fe_size e) flags) (filter is_startup fit)).
Proof.
  intros Hi Hwf. rewrite create_ibb_segments_exact by assumption. f_equal.
  apply map_ext_in_filter. intros e He Hs. apply startup_seg_wf.
  rewrite Forall_forall in Hwf. auto.
Qed.

(** 256 startup entries, the count at which the former uint8 counter wrapped (the call
    panicked), and 700 *)
Lemma create_ibb_segments_many_witness :
  Forall (fun e => is_startup e = true -> fit_entry_wf e) (repeat (mkFE 7 4294963200 16) 256) /\
  count_sel is_startup (repeat (mkFE 7 4294963200 16) 256) = 256 /\
  create_ibb_segments 1 0 0 (Some (repeat (mkFE 7 4294963200 16) 256)) = Ok (repeat (mkSeg 4294963200 256 0) 256) /\
  create_ibb_segments 1 0 3 (Some (mkFE 0 0 701 :: repeat (mkFE 7 4294963200 1) 700)) = Ok (repeat (mkSeg 4294963200 16 3) 700).
Proof.
  split; [|repeat split; vm_compute; reflexivity].
  apply Forall_forall. intros e He. apply repeat_spec in He. subst e. intros _.
  unfold fit_entry_wf, W32. cbn [fe_addr fe_size]. lia.
Qed.

(** an entry address above 4 GiB does not fit IBBSegment.Base (uint32): it is truncated *)
Lemma create_ibb_segments_truncates_witness :
  exists e, create_ibb_segments 1 0 0 (Some [e]) = Ok [mkSeg 4294963200 256 0] /\
            fe_addr e <> 4294963200.
Proof. exists (mkFE 7 (4294967296 + 4294963200) 16). split; [vm_compute; reflexivity|cbn; lia]. Qed.

(** coreboot: physical address of the file data when the end of the file maps to 4 GiB *)
Definition cbfs_file_wf (file_size cbfs_off : Z) (f : cbfs_file) : Prop :=
  0 <= cbfs_off + cf_rec f + cf_sub f < file_size.

Lemma cbfs_seg_spec flags file_size cbfs_off f :
  0 < file_size <= BASE -> cbfs_file_wf file_size cbfs_off f ->
  cbfs_seg flags file_size cbfs_off f =
  mkSeg (BASE - file_size + (cbfs_off + cf_rec f + cf_sub f)) (cf_size f) flags.
Proof.
  intros Hf Hw. unfold cbfs_file_wf in Hw. unfold cbfs_seg. f_equal.
  rewrite !wrap32_mod. unfold W32, BASE in *.
  replace ((4294967296 - file_size) mod 4294967296 + cbfs_off + cf_rec f + cf_sub f)
    with ((4294967296 - file_size) mod 4294967296 + (cbfs_off + cf_rec f + cf_sub f)) by lia.
  rewrite Zplus_mod_idemp_l. apply Z.mod_small. lia.
Qed.

Theorem create_ibb_segments_cbfs_exact se_count se_idx flags file_size cbfs_off files :
  0 <= se_idx < se_count ->
  0 < file_size <= BASE ->
  Forall (fun f => is_ibb_file f = true -> cbfs_file_wf file_size cbfs_off f) files ->
  create_ibb_segments_cbfs se_count se_idx flags file_size cbfs_off files =
  Ok (map (fun f => mkSeg (BASE - file_size + (cbfs_off + cf_rec f + cf_sub f)) (cf_size f) flags)
          (filter is_ibb_file files)).
Proof.
  intros Hi Hf Hwf. unfold create_ibb_segments_cbfs.
  rewrite create_segments_cbfs_exact. cbn [bind].
  replace (0 <=? se_idx) with true by (symmetry; apply Z.leb_le; lia).
  replace (se_idx <? se_count) with true by (symmetry; apply Z.ltb_lt; lia).
  cbn [andb]. f_equal. apply map_ext_in_filter. intros f Hin Hs. apply cbfs_seg_spec; [assumption|].
  rewrite Forall_forall in Hwf. auto.
Qed.

Theorem create_ibb_segments_cbfs_ok_inv se_count se_idx flags file_size cbfs_off files segs :
  create_ibb_segments_cbfs se_count se_idx flags file_size cbfs_off files = Ok segs ->
  segs = map (cbfs_seg flags file_size cbfs_off) (filter is_ibb_file files).
Proof.
  unfold create_ibb_segments_cbfs, create_segments_cbfs. rewrite collect_segs_characterised.
  cbn [bind].
  destruct ((0 <=? se_idx) && (se_idx <? se_count)); [|discriminate].
  intros E. apply Ok_inj' in E. symmetry. assumption.
Qed.

(** ** digest: the call succeeds on an anchored layout *)

Definition seg_in_region (region_end : Z) (img : list Z) (s : segment) : Prop :=
  BASE - region_end <= sg_base s < BASE /\ seg_inside (spec_offset region_end) img s.

Section Hash2.
  Variable H : Z -> list Z -> list Z.

  Theorem ibbs_digest_anchored_total ver alg l region_end img segs :
    anchored l (zlen img) region_end -> region_end <= zlen img ->
    alg_supported ver alg = true ->
    Forall (fun s => included s = true -> seg_in_region region_end img s) segs ->
    ibbs_digest H ver alg l img segs =
    Ok (H alg (concat (map (fun s => slice img (spec_offset region_end (sg_base s)) (sg_size s))
                           (filter included segs)))).
  Proof.
    intros Ha Hre Hs Hall.
    assert (Hall' : Forall (fun s => included s = true ->
                     BASE - region_end <= sg_base s < BASE /\ seg_inside (spec_offset region_end) img s /\
                     spec_offset region_end (sg_base s) < zlen img) segs).
    { eapply Forall_impl; [|exact Hall]. cbn beta. intros s Hi Hinc. destruct (Hi Hinc) as [Hr Hin].
      split; [assumption|]. split; [assumption|]. unfold spec_offset. lia. }
    destruct (digest_preimage_anchored_ok l region_end img segs Ha Hall') as [p Hp].
    assert (Hall2 : Forall (fun s => included s = true ->
                     BASE - region_end <= sg_base s < BASE /\ seg_inside (spec_offset region_end) img s) segs).
    { eapply Forall_impl; [|exact Hall]. cbn beta. intros s Hi Hinc. exact (Hi Hinc). }
    pose proof (digest_preimage_anchored _ _ _ _ _ Ha Hall2 Hp) as Hpe.
    unfold ibbs_digest, get_ibbs_digest. rewrite Hs, Hp. cbn [bind fst snd]. rewrite Hpe. reflexivity.
  Qed.
End Hash2.

(** every algorithm GetIBBsDigest offers survives the name round trip of CreateIBBDigest *)
Lemma alg_roundtrips_iff_supported ver a : alg_name_roundtrips ver a = alg_supported ver a.
Proof. reflexivity. Qed.

Lemma alg_roundtrips_supported ver a : alg_name_roundtrips ver a = true -> alg_supported ver a = true.
Proof. rewrite alg_roundtrips_iff_supported. auto. Qed.

Theorem create_ibb_digest_total ver l img segs p : forall algs,
  Forall (fun a => alg_supported ver a = true) algs ->
  digest_preimage l img segs = Ok p ->
  create_ibb_digest ver algs l img segs = Ok (map (fun a => (a, p)) algs).
Proof.
  induction 1 as [|a t Ha Ht IH]; intros Hp; [reflexivity|].
  cbn [create_ibb_digest map]. rewrite alg_roundtrips_iff_supported, Ha. unfold get_ibbs_digest.
  rewrite Ha, Hp. cbn [bind]. rewrite (IH Hp). reflexivity.
Qed.

(** ** stitching on an anchored layout: the code's offsets are the property's offsets *)

Definition is_target_type (e : fit_entry) : bool :=
  (fe_type e =? T_BPM) || (fe_type e =? T_KM) || (fe_type e =? T_SACM).

(** the entry's address lies in the window mapped onto the image; 24-bit size field *)
Definition entry_in_window (img_len : Z) (e : fit_entry) : Prop :=
  BASE - img_len <= fe_addr e < BASE /\ 0 <= fe_size e < 16777216.

Definition entries_in_window (img_len : Z) (es : list fit_entry) : Prop :=
  Forall (fun e => is_target_type e = true -> entry_in_window img_len e) es.

Lemma new_blob_target_type e acm bpm km : new_blob e acm bpm km <> [] -> is_target_type e = true.
Proof.
  unfold new_blob, is_target_type.
  destruct (fe_type e =? T_BPM); [reflexivity|]. destruct (fe_type e =? T_KM); [reflexivity|].
  destruct (fe_type e =? T_SACM); [reflexivity|]. intros H. contradiction H. reflexivity.
Qed.

Fixpoint spec_targets (re : Z) (es : list fit_entry) (acm bpm km : list Z) : list (Z * list Z) :=
  match es with
  | [] => []
  | e :: t => match new_blob e acm bpm km with
              | [] => spec_targets re t acm bpm km
              | _ :: _ => (spec_offset re (fe_addr e), new_blob e acm bpm km) :: spec_targets re t acm bpm km
              end
  end.

Lemma targets_anchored l n re acm bpm km : forall es,
  anchored l n re ->
  Forall (fun e => is_target_type e = true -> BASE - re <= fe_addr e < BASE) es ->
  targets l n es acm bpm km = spec_targets re es acm bpm km.
Proof.
  intros es Ha. induction 1 as [|e t He Ht IH]; [reflexivity|].
  cbn [targets spec_targets]. unfold target.
  destruct (new_blob e acm bpm km) as [|b nb] eqn:Hn; [exact IH|].
  assert (Hw : BASE - re <= fe_addr e < BASE).
  { apply He. apply (new_blob_target_type e acm bpm km). rewrite Hn. discriminate. }
  rewrite (calc_offset_anchored _ _ _ _ Ha Hw). rewrite IH. reflexivity.
Qed.

Lemma In_spec_targets re acm bpm km e : forall es,
  In e es -> new_blob e acm bpm km <> [] ->
  In (spec_offset re (fe_addr e), new_blob e acm bpm km) (spec_targets re es acm bpm km).
Proof.
  induction es as [|x t IH]; intros Hin Hn; [contradiction|].
  cbn [spec_targets]. destruct Hin as [->|Hin].
  - destruct (new_blob e acm bpm km) as [|b n] eqn:E; [contradiction Hn; reflexivity|]. left. reflexivity.
  - destruct (new_blob x acm bpm km); [|right]; apply IH; assumption.
Qed.

(** the region of the image a FIT entry designates for the blob that is offered for it:
    KM / BPM: [fe_size] bytes at the entry's address; startup ACM: as many bytes as the new
    ACM has (the code requires this to be the size the old ACM's header declares) *)
Definition entry_span (e : fit_entry) (acm bpm km : list Z) : Z :=
  if fe_type e =? T_BPM then (match bpm with [] => 0 | _ :: _ => fe_size e end)
  else if fe_type e =? T_KM then (match km with [] => 0 | _ :: _ => fe_size e end)
  else if fe_type e =? T_SACM then zlen acm else 0.

Definition in_entry_region (re : Z) (e : fit_entry) (acm bpm km : list Z) (i : Z) : Prop :=
  spec_offset re (fe_addr e) <= i < spec_offset re (fe_addr e) + entry_span e acm bpm km.

Lemma write_at_zn_outside f off d i :
  0 <= off -> 0 <= i -> ~ (off <= i < off + zlen d) -> zn (write_at f off d) i = zn f i.
Proof.
  intros Ho Hi Hn. rewrite write_at_zn by assumption.
  destruct (off <=? i) eqn:H1; [|reflexivity]. destruct (i <? off + zlen d) eqn:H2; [|reflexivity].
  apply Z.leb_le in H1. apply Z.ltb_lt in H2. exfalso. apply Hn. split; assumption.
Qed.

Lemma stitch_manifest_step l orig file e new file' ok :
  anchored l (zlen orig) (zlen orig) -> entry_in_window (zlen orig) e ->
  stitch_manifest l orig file e new = (file', ok) ->
  file' = file \/
  (new <> [] /\ let off := spec_offset (zlen orig) (fe_addr e) in
   file' = write_at file off new /\ 0 <= off /\ off + zlen new <= off + fe_size e /\ off + fe_size e <= zlen orig).
Proof.
  intros Ha [Hw Hs] E. destruct ok.
  - destruct new as [|b t]; [cbn [stitch_manifest] in E; left; inversion E; reflexivity|].
    right. split; [discriminate|].
    pose proof (anchored_len_lt _ _ _ Ha) as Hl.
    eapply stitch_manifest_within_entry; try eassumption; [unfold W32, W64, BASE in *; lia | discriminate].
  - left. apply stitch_manifest_cases in E. destruct E as [E|(Hc & _)]; [assumption|discriminate].
Qed.

Theorem stitch_acm_within_entry l n re file e new file' :
  anchored l n re -> BASE - re <= fe_addr e < BASE -> new <> [] ->
  stitch_acm l n file e new = (file', true) ->
  let off := spec_offset re (fe_addr e) in
  file' = write_at file off new /\ 0 <= off < zlen file /\
  zlen new = acm_size (read_padded file off 32) /\ zlen new <> 0.
Proof.
  intros Ha Hw Hn. unfold stitch_acm. destruct new as [|b t]; [contradiction Hn; reflexivity|].
  rewrite (calc_offset_anchored _ _ _ _ Ha Hw).
  destruct (W63 <=? spec_offset re (fe_addr e)); [discriminate|].
  destruct (zlen file <=? spec_offset re (fe_addr e)) eqn:H1; [discriminate|].
  destruct (acm_size (read_padded file (spec_offset re (fe_addr e)) 32) =? 0) eqn:H2; [discriminate|].
  destruct (zlen (b :: t) =? acm_size (read_padded file (spec_offset re (fe_addr e)) 32)) eqn:H3;
    cbn [negb]; [|discriminate].
  intros E. cbn zeta. apply Z.leb_gt in H1. apply Z.eqb_neq in H2. apply Z.eqb_eq in H3.
  split; [inversion E; reflexivity|]. split; [unfold spec_offset in *; lia|]. split; [assumption|].
  rewrite H3. assumption.
Qed.

Lemma stitch_acm_step l n re file e new file' ok :
  anchored l n re -> BASE - re <= fe_addr e < BASE ->
  stitch_acm l n file e new = (file', ok) ->
  file' = file \/
  (new <> [] /\ let off := spec_offset re (fe_addr e) in file' = write_at file off new /\ 0 <= off).
Proof.
  intros Ha Hw E. apply stitch_acm_cases in E. destruct E as [E|(_ & Hn & off & Hc & H0 & Hf)]; [left; assumption|].
  right. split; [assumption|]. cbn zeta.
  rewrite (calc_offset_anchored _ _ _ _ Ha Hw) in Hc. apply Ok_inj' in Hc. rewrite Hc. split; assumption.
Qed.

(** one step: a byte outside the entry's region keeps its value; the file keeps its length
    when the region lies inside it *)
Lemma stitch_entry_step_region l orig file e acm bpm km file' ok :
  anchored l (zlen orig) (zlen orig) -> (is_target_type e = true -> entry_in_window (zlen orig) e) ->
  stitch_entry l orig file e acm bpm km = (file', ok) ->
  file' = file \/
  (exists new, new <> [] /\ let off := spec_offset (zlen orig) (fe_addr e) in
     file' = write_at file off new /\ 0 <= off /\ off + zlen new <= off + entry_span e acm bpm km /\
     (fe_type e <> T_SACM -> off + entry_span e acm bpm km <= zlen orig)).
Proof.
  intros Ha Hw. unfold stitch_entry, entry_span, is_target_type in *.
  destruct (fe_type e =? T_BPM) eqn:T1.
  { intros E. apply stitch_manifest_step in E; [|assumption|apply Hw; reflexivity].
    destruct E as [E|(Hn & E)]; [left; assumption|]. right. exists bpm. split; [assumption|].
    cbn zeta in *. destruct bpm; [contradiction Hn; reflexivity|]. destruct E as (E1 & E2 & E3 & E4).
    repeat split; assumption || (intros _; assumption). }
  destruct (fe_type e =? T_KM) eqn:T2.
  { intros E. apply stitch_manifest_step in E; [|assumption|apply Hw; reflexivity].
    destruct E as [E|(Hn & E)]; [left; assumption|]. right. exists km. split; [assumption|].
    cbn zeta in *. destruct km; [contradiction Hn; reflexivity|]. destruct E as (E1 & E2 & E3 & E4).
    repeat split; assumption || (intros _; assumption). }
  destruct (fe_type e =? T_SACM) eqn:T3.
  { intros E. apply (stitch_acm_step l (zlen orig) (zlen orig)) in E; [|assumption|apply Hw; reflexivity].
    destruct E as [E|(Hn & E)]; [left; assumption|]. right. exists acm. split; [assumption|].
    cbn zeta in *. destruct E as (E1 & E2). repeat split; try assumption; [lia|].
    intros Hne. apply Z.eqb_eq in T3. contradiction. }
  intros E. left. inversion E. reflexivity.
Qed.

(** frame, in the property's vocabulary: a byte outside the regions of the targeted FIT
    entries keeps its value (whether the call succeeds or fails) *)
Theorem stitch_loop_frame_region l orig acm bpm km i : forall es file,
  anchored l (zlen orig) (zlen orig) -> entries_in_window (zlen orig) es -> 0 <= i ->
  (forall e, In e es -> ~ in_entry_region (zlen orig) e acm bpm km i) ->
  zn (fst (stitch_loop l orig file es acm bpm km)) i = zn file i.
Proof.
  induction es as [|e t IH]; intros file Ha Hw Hi Hout; [reflexivity|].
  cbn [stitch_loop]. destruct (stitch_entry l orig file e acm bpm km) as [file' ok] eqn:He.
  inversion Hw as [|x xs Hwe Hwt]; subst.
  assert (Hstep : zn file' i = zn file i).
  { apply stitch_entry_step_region in He; [|assumption|assumption].
    destruct He as [->|(new & Hn & Hf & H0 & H1 & _)]; [reflexivity|]. cbn zeta in *. rewrite Hf.
    apply write_at_zn_outside; try assumption.
    specialize (Hout e (or_introl eq_refl)). unfold in_entry_region in Hout. lia. }
  destruct ok; [|cbn [fst]; assumption].
  rewrite IH; try assumption. intros e' Hin. apply Hout. right. assumption.
Qed.

Theorem stitch_frame_region l img fit acm bpm km i :
  anchored l (zlen img) (zlen img) -> entries_in_window (zlen img) fit -> 0 <= i ->
  (forall e, In e fit -> ~ in_entry_region (zlen img) e acm bpm km i) ->
  zn (fst (stitch l img (Some fit) acm bpm km)) i = zn img i.
Proof. intros. cbn [stitch]. apply stitch_loop_frame_region; assumption. Qed.

Theorem stitch_loop_length_region l orig acm bpm km : forall es file,
  anchored l (zlen orig) (zlen orig) -> entries_in_window (zlen orig) es -> zlen file = zlen orig ->
  Forall (fun e => fe_type e = T_SACM -> spec_offset (zlen orig) (fe_addr e) + zlen acm <= zlen orig) es ->
  zlen (fst (stitch_loop l orig file es acm bpm km)) = zlen orig.
Proof.
  induction es as [|e t IH]; intros file Ha Hw Hl Hacm; [assumption|].
  cbn [stitch_loop]. destruct (stitch_entry l orig file e acm bpm km) as [file' ok] eqn:He.
  inversion Hw as [|x xs Hwe Hwt]; subst. inversion Hacm as [|y ys Hae Hat]; subst.
  assert (Hstep : zlen file' = zlen orig).
  { apply stitch_entry_step_region in He; [|assumption|assumption].
    destruct He as [->|(new & Hn & Hf & H0 & H1 & H2)]; [assumption|]. cbn zeta in *. rewrite Hf.
    rewrite write_at_zlen by assumption.
    assert (spec_offset (zlen orig) (fe_addr e) + entry_span e acm bpm km <= zlen orig).
    { destruct (Z.eq_dec (fe_type e) T_SACM) as [Ht|Ht]; [|apply H2; assumption].
      specialize (Hae Ht). unfold entry_span. rewrite Ht. cbn. assumption. }
    lia. }
  destruct ok; [|cbn [fst]; assumption].
  apply IH; assumption.
Qed.

Theorem stitch_length_region l img fit acm bpm km :
  anchored l (zlen img) (zlen img) -> entries_in_window (zlen img) fit ->
  Forall (fun e => fe_type e = T_SACM -> spec_offset (zlen img) (fe_addr e) + zlen acm <= zlen img) fit ->
  zlen (fst (stitch l img (Some fit) acm bpm km)) = zlen img.
Proof. intros. cbn [stitch]. apply stitch_loop_length_region; try assumption. reflexivity. Qed.

(** on success every targeted entry reads back as the new blob *)
Theorem stitch_reread_region l img fit acm bpm km file' :
  anchored l (zlen img) (zlen img) -> entries_in_window (zlen img) fit ->
  stitch l img (Some fit) acm bpm km = (file', true) ->
  disjoint_regions (spec_targets (zlen img) fit acm bpm km) ->
  forall e, In e fit ->
  forall k, 0 <= k < zlen (new_blob e acm bpm km) ->
  zn file' (spec_offset (zlen img) (fe_addr e) + k) = zn (new_blob e acm bpm km) k.
Proof.
  intros Ha Hw Hs Hd e Hin k Hk. cbn [stitch] in Hs.
  assert (Hn : new_blob e acm bpm km <> []).
  { intros E. rewrite E in Hk. cbn in Hk. lia. }
  assert (Hw' : Forall (fun e => is_target_type e = true -> BASE - zlen img <= fe_addr e < BASE) fit).
  { eapply Forall_impl; [|exact Hw]. cbn beta. intros x Hx Ht. destruct (Hx Ht). assumption. }
  pose proof (targets_anchored l (zlen img) (zlen img) acm bpm km fit Ha Hw') as Ht.
  eapply stitch_loop_reread; [exact Hs | rewrite Ht; exact Hd | rewrite Ht; apply In_spec_targets; assumption | exact Hk].
Qed.

(* ================================================================== *)
(** * the BootGuard object across calls (Model/IBB.v [step], [run]) *)

Lemma set_nth_length {A} (x : A) : forall l n, length (set_nth n x l) = length l.
Proof. induction l as [|h t IH]; intros [|n]; cbn [set_nth length]; auto. Qed.

Lemma nth_set_nth_eq {A} (x d : A) : forall l n, (n < length l)%nat -> nth n (set_nth n x l) d = x.
Proof.
  induction l as [|h t IH]; intros [|n] H; cbn [set_nth nth length] in *; try lia; auto.
  apply IH. lia.
Qed.

Lemma nth_set_nth_neq {A} (x d : A) : forall l n m, n <> m -> nth m (set_nth n x l) d = nth m l d.
Proof.
  induction l as [|h t IH]; intros [|n] [|m] H; cbn [set_nth nth]; try reflexivity; try congruence.
  apply IH. congruence.
Qed.

Lemma put_segs_se_count st i s : se_count (put_segs st i s) = se_count st.
Proof. unfold se_count, put_segs, zlen. cbn [bg_segs]. rewrite set_nth_length. reflexivity. Qed.

Lemma put_segs_same st i s : 0 <= i < se_count st -> segs_of (put_segs st i s) i = s.
Proof.
  unfold segs_of, put_segs, se_count, zlen. cbn [bg_segs]. intros H. apply nth_set_nth_eq. lia.
Qed.

Lemma put_segs_other st i s j : 0 <= i -> 0 <= j -> i <> j -> segs_of (put_segs st i s) j = segs_of st j.
Proof. unfold segs_of, put_segs; cbn [bg_segs]. intros. apply nth_set_nth_neq. lia. Qed.

Lemma store_created_ok st i r st' :
  store_created st i r = (st', RUnit (Ok tt)) -> exists s, r = Ok s /\ st' = put_segs st i s.
Proof. destruct r; cbn [store_created unit_of]; intros E; inversion E; eauto. Qed.

(** a call that does not succeed leaves the object as it was *)
Lemma store_created_not_ok st i r st' res :
  store_created st i r = (st', res) -> res <> RUnit (Ok tt) -> st' = st.
Proof.
  destruct r; cbn [store_created unit_of]; intros E N; inversion E; subst; try reflexivity.
  exfalso. apply N. reflexivity.
Qed.

Lemma create_ibb_segments_ok_range n i flags fit s :
  create_ibb_segments n i flags fit = Ok s -> 0 <= i < n.
Proof.
  unfold create_ibb_segments. destruct fit as [es|]; [|discriminate].
  destruct (create_segments flags es); cbn [bind]; try discriminate.
  destruct (0 <=? i) eqn:H0; cbn [andb]; [|discriminate].
  destruct (i <? n) eqn:H1; [|discriminate]. intros _.
  apply Z.leb_le in H0. apply Z.ltb_lt in H1. lia.
Qed.

Lemma create_ibb_segments_cbfs_ok_range n i flags fs co files s :
  create_ibb_segments_cbfs n i flags fs co files = Ok s -> 0 <= i < n.
Proof.
  unfold create_ibb_segments_cbfs.
  destruct (create_segments_cbfs flags fs co files); cbn [bind]; try discriminate.
  destruct (0 <=? i) eqn:H0; cbn [andb]; [|discriminate].
  destruct (i <? n) eqn:H1; [|discriminate]. intros _.
  apply Z.leb_le in H0. apply Z.ltb_lt in H1. lia.
Qed.

(** ** CreateIBBSegments REPLACES the list of the requested SE element *)

Theorem step_create_segs_replaces ver st i flags fit st' :
  step ver st (OCreateSegs i flags (Some fit)) = (st', RUnit (Ok tt)) ->
  0 <= i < se_count st /\
  segs_of st' i = map (startup_seg flags) (filter is_startup fit) /\
  (forall j, 0 <= j -> j <> i -> segs_of st' j = segs_of st j) /\
  bg_digs st' = bg_digs st /\ se_count st' = se_count st.
Proof.
  cbn [step]. intros E. apply store_created_ok in E. destruct E as (s & Hr & ->).
  apply create_ibb_segments_ok_inv in Hr. destruct Hr as [-> Hi].
  split; [assumption|]. split; [apply put_segs_same; assumption|].
  split; [intros j Hj Hn; apply put_segs_other; lia|].
  split; [reflexivity|apply put_segs_se_count].
Qed.

Theorem step_create_segs_cbfs_replaces ver st i flags fs co files st' :
  step ver st (OCreateSegsCbfs i flags fs co files) = (st', RUnit (Ok tt)) ->
  0 <= i < se_count st /\
  segs_of st' i = map (cbfs_seg flags fs co) (filter is_ibb_file files) /\
  (forall j, 0 <= j -> j <> i -> segs_of st' j = segs_of st j) /\
  bg_digs st' = bg_digs st /\ se_count st' = se_count st.
Proof.
  cbn [step]. intros E. apply store_created_ok in E. destruct E as (s & Hr & ->).
  pose proof (create_ibb_segments_cbfs_ok_range _ _ _ _ _ _ _ Hr) as Hi.
  apply create_ibb_segments_cbfs_ok_inv in Hr. subst s.
  split; [assumption|]. split; [apply put_segs_same; assumption|].
  split; [intros j Hj Hn; apply put_segs_other; lia|].
  split; [reflexivity|apply put_segs_se_count].
Qed.

(** ... and it does succeed on every object with that SE element, whatever the element held *)
Theorem step_create_segs_total ver st i flags fit :
  0 <= i < se_count st ->
  step ver st (OCreateSegs i flags (Some fit)) =
  (put_segs st i (map (startup_seg flags) (filter is_startup fit)), RUnit (Ok tt)).
Proof. intros Hi. cbn [step]. rewrite create_ibb_segments_exact by assumption. reflexivity. Qed.

(** the second of two calls decides alone *)
Theorem step_create_segs_twice ver st i f1 fit1 f2 fit2 st1 r1 st2 :
  step ver st (OCreateSegs i f1 fit1) = (st1, r1) ->
  step ver st1 (OCreateSegs i f2 (Some fit2)) = (st2, RUnit (Ok tt)) ->
  segs_of st2 i = map (startup_seg f2) (filter is_startup fit2).
Proof. intros _ H. apply step_create_segs_replaces in H. tauto. Qed.

Theorem step_create_segs_failed_untouched ver st i flags fit st' res :
  step ver st (OCreateSegs i flags fit) = (st', res) -> res <> RUnit (Ok tt) -> st' = st.
Proof. cbn [step]. apply store_created_not_ok. Qed.

(** ** what each operation may change *)

Definition writes_se (o : op) : option Z :=
  match o with
  | OSetSegs i _ | OCreateSegs i _ _ | OCreateSegsCbfs i _ _ _ _ => Some i
  | _ => None
  end.

Lemma store_created_se_count st i r : se_count (fst (store_created st i r)) = se_count st.
Proof. destruct r; cbn [store_created fst]; try reflexivity. apply put_segs_se_count. Qed.

Lemma step_se_count ver st o : se_count (fst (step ver st o)) = se_count st.
Proof.
  destruct o; cbn [step fst]; try reflexivity; try apply store_created_se_count.
  - destruct (0 <=? se); [apply put_segs_se_count|reflexivity].
  - destruct (se_count st =? 0); [reflexivity|].
    destruct (create_digest_loop ver l img (segs_of st 0) (bg_digs st)). reflexivity.
Qed.

Lemma store_created_frame st i r j :
  (forall s, r = Ok s -> 0 <= i) -> 0 <= j -> i <> j ->
  segs_of (fst (store_created st i r)) j = segs_of st j.
Proof.
  intros Hr Hj Hn. destruct r; cbn [store_created fst]; try reflexivity.
  apply put_segs_other; try assumption. eapply Hr. reflexivity.
Qed.

(** a call changes no segment list but that of the SE element it was asked to write;
    GetIBBsDigest, CreateIBBDigest and IBBsMatchBPMDigest change none *)
Theorem step_segs_frame ver st o j :
  0 <= j -> writes_se o <> Some j -> segs_of (fst (step ver st o)) j = segs_of st j.
Proof.
  intros Hj Hw. destruct o; cbn [step fst writes_se] in *; try reflexivity.
  - destruct (0 <=? se) eqn:H0; [|reflexivity]. apply Z.leb_le in H0.
    apply put_segs_other; try assumption. congruence.
  - apply store_created_frame; try assumption; [|congruence].
    intros s Hs. apply create_ibb_segments_ok_range in Hs. lia.
  - apply store_created_frame; try assumption; [|congruence].
    intros s Hs. apply create_ibb_segments_cbfs_ok_range in Hs. lia.
  - destruct (se_count st =? 0); [reflexivity|].
    destruct (create_digest_loop ver l img (segs_of st 0) (bg_digs st)). reflexivity.
Qed.

(** GetIBBsDigest and IBBsMatchBPMDigest change nothing at all, CreateIBBDigest nothing but
    the digests, CreateIBBSegments no digest *)
Theorem step_reads_only ver st o :
  match o with
  | OGetDigest _ _ _ | OMatch _ => fst (step ver st o) = st
  | OCreateDigest _ _ => bg_segs (fst (step ver st o)) = bg_segs st
  | OCreateSegs _ _ _ | OCreateSegsCbfs _ _ _ _ _ | OSetSegs _ _ => bg_digs (fst (step ver st o)) = bg_digs st
  | OSetAlgs _ | OEditDigs _ => bg_segs (fst (step ver st o)) = bg_segs st
  end.
Proof.
  destruct o; cbn [step fst]; try reflexivity.
  - destruct (0 <=? se); reflexivity.
  - destruct (create_ibb_segments (se_count st) se flags fit); reflexivity.
  - destruct (create_ibb_segments_cbfs (se_count st) se flags file_size cbfs_off files); reflexivity.
  - destruct (se_count st =? 0); [reflexivity|].
    destruct (create_digest_loop ver l img (segs_of st 0) (bg_digs st)). reflexivity.
Qed.

(** ** sequences *)

Lemma final_cons ver st o t : final ver st (o :: t) = final ver (fst (step ver st o)) t.
Proof.
  unfold final. cbn [run]. destruct (step ver st o) as [st1 r]. cbn [fst].
  destruct (run ver st1 t). reflexivity.
Qed.

Lemma final_app ver : forall a st b, final ver st (a ++ b) = final ver (final ver st a) b.
Proof.
  induction a as [|o a IH]; intros st b; [reflexivity|].
  cbn [app]. rewrite !final_cons. apply IH.
Qed.

Lemma final_se_count ver : forall ops st, se_count (final ver st ops) = se_count st.
Proof.
  induction ops as [|o t IH]; intros st; [reflexivity|].
  rewrite final_cons, IH. apply step_se_count.
Qed.

Lemma final_segs_frame ver j : 0 <= j -> forall ops st,
  Forall (fun o => writes_se o <> Some j) ops -> segs_of (final ver st ops) j = segs_of st j.
Proof.
  intros Hj. induction ops as [|o t IH]; intros st H; [reflexivity|].
  inversion H; subst. rewrite final_cons, IH by assumption. apply step_segs_frame; assumption.
Qed.

(** After ANY sequence of calls, the segment list of SE[i] is exactly one segment per startup
    entry of the image of the LAST CreateIBBSegments(i, ...) (nothing of earlier lists, of
    earlier images, of other SE elements), provided nobody wrote SE[i] afterwards. *)
Theorem run_segments_of_last_create ver st pre i flags fit post :
  0 <= i < se_count st ->
  Forall (fun o => writes_se o <> Some i) post ->
  segs_of (final ver st (pre ++ OCreateSegs i flags (Some fit) :: post)) i =
  map (startup_seg flags) (filter is_startup fit).
Proof.
  intros Hi Hpost. rewrite final_app, final_cons.
  rewrite final_segs_frame by (try assumption; lia).
  rewrite step_create_segs_total by (rewrite final_se_count; assumption).
  cbn [fst]. apply put_segs_same. rewrite final_se_count. assumption.
Qed.

Theorem run_segments_of_last_create_cbfs ver st pre i flags fs co files post :
  0 <= i < se_count st ->
  Forall (fun o => writes_se o <> Some i) post ->
  segs_of (final ver st (pre ++ OCreateSegsCbfs i flags fs co files :: post)) i =
  map (cbfs_seg flags fs co) (filter is_ibb_file files).
Proof.
  intros Hi Hpost. rewrite final_app, final_cons.
  rewrite final_segs_frame by (try assumption; lia).
  cbn [step]. unfold create_ibb_segments_cbfs. rewrite create_segments_cbfs_exact. cbn [bind].
  rewrite final_se_count.
  replace (0 <=? i) with true by (symmetry; apply Z.leb_le; lia).
  replace (i <? se_count st) with true by (symmetry; apply Z.ltb_lt; lia).
  cbn [andb store_created fst]. apply put_segs_same. rewrite final_se_count. assumption.
Qed.

(** ** digests on an object with any history *)

Lemma digest_preimage_anchored_total l region_end img segs :
  anchored l (zlen img) region_end -> region_end <= zlen img ->
  Forall (fun s => included s = true -> seg_in_region region_end img s) segs ->
  digest_preimage l img segs =
  Ok (concat (map (fun s => slice img (spec_offset region_end (sg_base s)) (sg_size s))
                  (filter included segs))).
Proof.
  intros Ha Hre Hall.
  assert (Hall' : Forall (fun s => included s = true ->
                   BASE - region_end <= sg_base s < BASE /\ seg_inside (spec_offset region_end) img s /\
                   spec_offset region_end (sg_base s) < zlen img) segs).
  { eapply Forall_impl; [|exact Hall]. cbn beta. intros s Hi Hinc. destruct (Hi Hinc) as [Hr Hin].
    split; [assumption|]. split; [assumption|]. unfold spec_offset. lia. }
  destruct (digest_preimage_anchored_ok l region_end img segs Ha Hall') as [p Hp].
  assert (Hall2 : Forall (fun s => included s = true ->
                   BASE - region_end <= sg_base s < BASE /\ seg_inside (spec_offset region_end) img s) segs).
  { eapply Forall_impl; [|exact Hall]. cbn beta. intros s Hi Hinc. exact (Hi Hinc). }
  rewrite Hp. f_equal. exact (digest_preimage_anchored _ _ _ _ _ Ha Hall2 Hp).
Qed.

Lemma get_ibbs_digest_anchored_total ver alg l region_end img segs :
  anchored l (zlen img) region_end -> region_end <= zlen img ->
  alg_supported ver alg = true ->
  Forall (fun s => included s = true -> seg_in_region region_end img s) segs ->
  get_ibbs_digest ver alg l img segs =
  Ok (alg, concat (map (fun s => slice img (spec_offset region_end (sg_base s)) (sg_size s))
                       (filter included segs))).
Proof.
  intros Ha Hre Hs Hall. unfold get_ibbs_digest.
  rewrite Hs, (digest_preimage_anchored_total _ _ _ _ Ha Hre Hall). reflexivity.
Qed.

(** GetIBBsDigest on an object with ANY history: the bytes of the image it is given *)
Theorem step_get_digest_exact ver st alg l region_end img :
  0 < se_count st ->
  anchored l (zlen img) region_end -> region_end <= zlen img ->
  alg_supported ver alg = true ->
  Forall (fun s => included s = true -> seg_in_region region_end img s) (segs_of st 0) ->
  step ver st (OGetDigest alg l img) =
  (st, RDigest (Ok (alg, concat (map (fun s => slice img (spec_offset region_end (sg_base s)) (sg_size s))
                                     (filter included (segs_of st 0)))))).
Proof.
  intros Hc Ha Hre Hs Hall. cbn [step].
  replace (se_count st =? 0) with false by (symmetry; apply Z.eqb_neq; lia).
  rewrite andb_false_r.
  rewrite (get_ibbs_digest_anchored_total ver alg l region_end img _ Ha Hre Hs Hall).
  reflexivity.
Qed.

Lemma create_digest_loop_total ver l img segs p : forall digs,
  Forall (fun ad => alg_supported ver (fst ad) = true) digs ->
  digest_preimage l img segs = Ok p ->
  create_digest_loop ver l img segs digs = (map (fun ad => (fst ad, Some (fst ad, p))) digs, Ok tt).
Proof.
  induction 1 as [|[a old] t Ha Ht IH]; intros Hp; [reflexivity|].
  cbn [create_digest_loop map fst]. cbn [fst] in Ha.
  rewrite alg_roundtrips_iff_supported, Ha. unfold get_ibbs_digest. rewrite Ha, Hp. cbn [bind snd].
  rewrite (IH Hp). reflexivity.
Qed.

(** every digest CreateIBBDigest leaves in the list was computed by THIS call or was there
    before: the list keeps its length and its algorithms *)
Lemma create_digest_loop_algs ver l img segs : forall digs,
  map fst (fst (create_digest_loop ver l img segs digs)) = map fst digs.
Proof.
  induction digs as [|[a old] t IH]; [reflexivity|].
  cbn [create_digest_loop]. destruct (alg_name_roundtrips ver a); [|reflexivity].
  destruct (get_ibbs_digest ver a l img segs) as [ap| | |]; try reflexivity.
  destruct (create_digest_loop ver l img segs t) as [t' r]. cbn [fst map] in *. f_equal. assumption.
Qed.

Lemma alg_supported_hashable ver a : alg_supported ver a = true -> alg_hashable ver a = true.
Proof.
  unfold alg_supported, alg_hashable. destruct (ver =? 1); [auto|].
  destruct (a =? 4), (a =? 11), (a =? 12), (a =? 13), (a =? 18); cbn; auto.
Qed.

(** The whole generation chain on an object with ANY history (segments and digests of other
    images, of earlier calls): CreateIBBSegments, CreateIBBDigest, IBBsMatchBPMDigest for one
    image give one segment per startup entry of THAT image, the hash of THAT image's bytes
    for every listed algorithm, and the validator accepts. *)
Theorem run_pipeline_any_history ver st flags fit l img :
  0 < se_count st ->
  anchored l (zlen img) (zlen img) ->
  Forall (fun e => is_startup e = true -> fit_entry_wf e) fit ->
  Forall (fun s => included s = true -> seg_in_region (zlen img) img s)
         (map (fun e => mkSeg (fe_addr e) (16 * fe_size e) flags) (filter is_startup fit)) ->
  Forall (fun ad => alg_supported ver (fst ad) = true) (bg_digs st) ->
  bg_digs st <> [] ->
  let segs := map (fun e => mkSeg (fe_addr e) (16 * fe_size e) flags) (filter is_startup fit) in
  let p := concat (map (fun s => slice img (spec_offset (zlen img) (sg_base s)) (sg_size s))
                       (filter included segs)) in
  run ver st [OCreateSegs 0 flags (Some fit); OCreateDigest l img; OMatch img] =
  (mkBG (set_nth 0 segs (bg_segs st)) (map (fun ad => (fst ad, Some (fst ad, p))) (bg_digs st)),
   [RUnit (Ok tt); RUnit (Ok tt); RBool (Ok true)]).
Proof.
  intros Hc Ha Hwf Hin Halgs Hne segs p.
  assert (Hsegs : map (startup_seg flags) (filter is_startup fit) = segs).
  { apply map_ext_in_filter. intros e He Hs. apply startup_seg_wf. rewrite Forall_forall in Hwf. auto. }
  assert (Hp : digest_preimage l img segs = Ok p).
  { apply digest_preimage_anchored_total; [assumption|lia|exact Hin]. }
  assert (Hv : validator_preimage img segs = Ok p).
  { eapply validator_agrees; [exact Ha| |exact Hp].
    eapply Forall_impl; [|exact Hin]. cbn beta. intros s Hs Hi. exact (Hs Hi). }
  cbn [run]. rewrite step_create_segs_total by lia. rewrite Hsegs.
  set (st1 := put_segs st 0 segs).
  assert (Hc1 : se_count st1 = se_count st) by apply put_segs_se_count.
  assert (Hs1 : segs_of st1 0 = segs) by (apply put_segs_same; lia).
  cbn [step]. rewrite Hc1.
  replace (se_count st =? 0) with false by (symmetry; apply Z.eqb_neq; lia).
  rewrite Hs1. change (bg_digs st1) with (bg_digs st).
  rewrite (create_digest_loop_total ver l img segs p _ Halgs Hp).
  set (st2 := mkBG (bg_segs st1) (map (fun ad => (fst ad, Some (fst ad, p))) (bg_digs st))).
  assert (Hm : match_stored ver st2 img = Ok true).
  { unfold match_stored. change (se_count st2) with (se_count st1). rewrite Hc1.
    replace (se_count st =? 0) with false by (symmetry; apply Z.eqb_neq; lia).
    change (segs_of st2 0) with (segs_of st1 0). rewrite Hs1.
    cbn [bg_digs st2]. destruct (bg_digs st) as [|[a d] t] eqn:Hd; [congruence|].
    cbn [map fst]. inversion Halgs as [|x y Hax Hay]; subst. cbn [fst] in Hax.
    rewrite (alg_supported_hashable _ _ Hax), Hv. cbn [bind]. rewrite Z.eqb_refl, zlist_eqb_refl. reflexivity. }
  rewrite Hm. reflexivity.
Qed.

(** the second call on an object that already carries segments (a loaded manifest: three
    stale segments in SE[0], one in SE[1]): exactly the two startup entries of the image *)
Lemma step_create_segs_second_call_witness :
  step 2 (mkBG [[mkSeg 4294901760 4096 0; mkSeg 4294905856 256 0; mkSeg 1 2 3]; [mkSeg 7 7 7]] [(11, None)])
       (OCreateSegs 0 0 (Some [mkFE 0 2314885531223937887 4; mkFE 7 (4294967296 - 48) 1;
                               mkFE 11 (4294967296 - 16) 8; mkFE 7 (4294967296 - 32) 1])) =
  (mkBG [[mkSeg (4294967296 - 48) 16 0; mkSeg (4294967296 - 32) 16 0]; [mkSeg 7 7 7]] [(11, None)],
   RUnit (Ok tt)).
Proof. vm_compute. reflexivity. Qed.

(** one buffer, two images: a 64-byte image with the descriptor's BIOS region [16,48) and
    then, in the same 64 bytes, a bare BIOS region; the same segment list, the same object:
    each digest is over the bytes of the image the call was given *)
Lemma run_two_layouts_witness :
  snd (run 2 (mkBG [[mkSeg (4294967296 - 16) 8 0]] [(11, None)])
           [OGetDigest 11 (LIFD 16 32) (seqZ 0 64); OGetDigest 11 LBiosOnly (seqZ 0 64)]) =
  [RDigest (Ok (11, seqZ 32 8)); RDigest (Ok (11, seqZ 48 8))].
Proof. vm_compute. reflexivity. Qed.

(** ** stitching the same file twice *)

Theorem stitch_twice_frame_region l img fit a1 b1 k1 a2 b2 k2 i :
  anchored l (zlen img) (zlen img) -> entries_in_window (zlen img) fit ->
  Forall (fun e => fe_type e = T_SACM -> spec_offset (zlen img) (fe_addr e) + zlen a1 <= zlen img) fit ->
  0 <= i ->
  (forall e, In e fit -> ~ in_entry_region (zlen img) e a1 b1 k1 i) ->
  (forall e, In e fit -> ~ in_entry_region (zlen img) e a2 b2 k2 i) ->
  zn (fst (stitch l (fst (stitch l img (Some fit) a1 b1 k1)) (Some fit) a2 b2 k2)) i = zn img i.
Proof.
  intros Ha Hw Hacm Hi H1 H2.
  pose proof (stitch_length_region l img fit a1 b1 k1 Ha Hw Hacm) as Hl.
  pose proof (stitch_frame_region l img fit a1 b1 k1 i Ha Hw Hi H1) as Hf1.
  remember (fst (stitch l img (Some fit) a1 b1 k1)) as img1 eqn:E1.
  rewrite <- Hf1.
  apply stitch_frame_region; rewrite ?Hl; assumption.
Qed.

(* ================================================================== *)
(** * round 5 *)

(** ** the size field of the ACM header: a 32-bit word, all four bytes count

    StitchFITEntries learns the size of the ACM that is in the image from
    tools.LookupACMSize: the little-endian 32-bit word at offset 24 of the header, in units
    of 4 bytes.  An ACM of 256 KiB or more has a size field of 0x10000 or more: its bytes 26
    and 27 are not zero. *)

Definition acm_field (hdr : list Z) : Z := le32 (skipn 24 hdr).

Lemma acm_field_bytes hdr :
  acm_field hdr = nth 24 hdr 0 + 256 * nth 25 hdr 0 + 65536 * nth 26 hdr 0 + 16777216 * nth 27 hdr 0.
Proof. unfold acm_field, le32. rewrite !nth_skipn_add. reflexivity. Qed.

(** the declared size is 4 times the whole field (as long as the product fits the uint32 the
    code computes in: fields below 2^30, sizes below 4 GiB) *)
Lemma acm_size_field hdr : 0 <= acm_field hdr < 1073741824 -> acm_size hdr = 4 * acm_field hdr.
Proof.
  intros H. unfold acm_size. fold (acm_field hdr). rewrite wrap32_small; unfold W32; lia.
Qed.

Lemma acm_size_all_four_bytes hdr :
  0 <= acm_field hdr < 1073741824 ->
  acm_size hdr = 4 * nth 24 hdr 0 + 1024 * nth 25 hdr 0 + 262144 * nth 26 hdr 0 + 67108864 * nth 27 hdr 0.
Proof. intros H. rewrite (acm_size_field _ H), acm_field_bytes. lia. Qed.

(** two headers that differ in the size field (in any of its four bytes) declare different sizes *)
Lemma acm_size_injective h1 h2 :
  0 <= acm_field h1 < 1073741824 -> 0 <= acm_field h2 < 1073741824 ->
  acm_size h1 = acm_size h2 -> acm_field h1 = acm_field h2.
Proof. intros H1 H2. rewrite (acm_size_field _ H1), (acm_size_field _ H2). lia. Qed.

(** StitchFITEntries on a startup-ACM entry, decided completely: the new ACM is written (at the
    entry's offset) iff its length is 4 times the size field of the ACM header found there;
    otherwise the file is left alone and the call fails.  No bound on the size: ACMs of
    256 KiB and more (size field >= 0x10000) are stitched like small ones. *)
Theorem stitch_acm_decided l n re file e new :
  anchored l n re -> BASE - re <= fe_addr e < BASE ->
  spec_offset re (fe_addr e) < zlen file ->
  0 < acm_field (read_padded file (spec_offset re (fe_addr e)) 32) < 1073741824 ->
  new <> [] ->
  stitch_acm l n file e new =
  if zlen new =? 4 * acm_field (read_padded file (spec_offset re (fe_addr e)) 32)
  then (write_at file (spec_offset re (fe_addr e)) new, true) else (file, false).
Proof.
  intros Ha Hw Hin Hf Hn. unfold stitch_acm. destruct new as [|b t]; [contradiction Hn; reflexivity|].
  rewrite (calc_offset_anchored _ _ _ _ Ha Hw).
  pose proof (anchored_len_lt _ _ _ Ha) as Hre.
  set (off := spec_offset re (fe_addr e)) in *.
  assert (Hoff : off < W63) by (unfold off, spec_offset, W63, W32 in *; lia).
  replace (W63 <=? off) with false by (symmetry; apply Z.leb_gt; assumption).
  replace (zlen file <=? off) with false by (symmetry; apply Z.leb_gt; assumption).
  rewrite acm_size_field by lia.
  replace (4 * acm_field (read_padded file off 32) =? 0) with false by (symmetry; apply Z.eqb_neq; lia).
  destruct (zlen (b :: t) =? 4 * acm_field (read_padded file off 32)); reflexivity.
Qed.

(** ... and then the entry reads back as the new ACM, byte for byte *)
Theorem stitch_acm_reread l n re file e new :
  anchored l n re -> BASE - re <= fe_addr e < BASE ->
  spec_offset re (fe_addr e) < zlen file ->
  0 < acm_field (read_padded file (spec_offset re (fe_addr e)) 32) < 1073741824 ->
  zlen new = 4 * acm_field (read_padded file (spec_offset re (fe_addr e)) 32) ->
  snd (stitch_acm l n file e new) = true /\
  forall k, 0 <= k < zlen new ->
  zn (fst (stitch_acm l n file e new)) (spec_offset re (fe_addr e) + k) = zn new k.
Proof.
  intros Ha Hw Hin Hf Hl.
  assert (Hn : new <> []) by (intros E; subst new; change (zlen (@nil Z)) with 0 in Hl; lia).
  rewrite (stitch_acm_decided _ _ _ _ _ _ Ha Hw Hin Hf Hn).
  replace (zlen new =? _) with true by (symmetry; apply Z.eqb_eq; assumption).
  cbn [fst snd]. split; [reflexivity|]. intros k Hk.
  assert (H0 : 0 <= spec_offset re (fe_addr e)) by (unfold spec_offset; lia).
  rewrite write_at_zn by lia.
  replace (spec_offset re (fe_addr e) <=? spec_offset re (fe_addr e) + k) with true by (symmetry; apply Z.leb_le; lia).
  replace (spec_offset re (fe_addr e) + k <? spec_offset re (fe_addr e) + zlen new) with true
    by (symmetry; apply Z.ltb_lt; lia).
  cbn [andb]. f_equal. lia.
Qed.

Lemma read_padded_mid pre h post :
  length h = 32%nat -> read_padded (pre ++ h ++ post) (zlen pre) 32 = h.
Proof.
  intros Hh. unfold read_padded, slice, zlen. rewrite Nat2Z.id.
  rewrite skipn_app, skipn_all, Nat.sub_diag. cbn [skipn app].
  change (Z.to_nat 32) with 32%nat. rewrite <- Hh.
  rewrite firstn_app, firstn_all, Nat.sub_diag. cbn [firstn]. rewrite app_nil_r, Nat.sub_diag.
  cbn [repeat]. apply app_nil_r.
Qed.

(** a 256 KiB ACM (size field 0x10000: bytes 24 and 25 are zero, byte 26 is 1) at offset 4096 of
    a 264 KiB bare BIOS region: a new ACM of 256 KiB is accepted, one of any other length
    refused *)
Definition hdr_256k : list Z := repeat 0 24 ++ [0; 0; 1; 0] ++ repeat 0 4.
Definition file_256k : list Z :=
  repeat 7 (Z.to_nat 4096) ++ hdr_256k ++ (repeat 9 (Z.to_nat 262112) ++ repeat 7 (Z.to_nat 4096)).

Lemma stitch_acm_256k_witness :
  let e := mkFE 2 (4294967296 - 270336 + 4096) 0 in
  zlen file_256k = 270336 /\ acm_size hdr_256k = 262144 /\
  (forall new, zlen new = 262144 ->
     stitch_acm LBiosOnly 270336 file_256k e new = (write_at file_256k 4096 new, true)) /\
  (forall new, new <> [] -> zlen new <> 262144 ->
     stitch_acm LBiosOnly 270336 file_256k e new = (file_256k, false)).
Proof.
  cbn zeta. set (e := mkFE 2 (4294967296 - 270336 + 4096) 0).
  assert (Hpre : zlen (repeat 7 (Z.to_nat 4096)) = 4096).
  { unfold zlen. rewrite repeat_length. apply Z2Nat.id. lia. }
  assert (Hh : length hdr_256k = 32%nat) by reflexivity.
  assert (Hlen : zlen file_256k = 270336).
  { unfold file_256k. rewrite !zlen_app, Hpre. unfold zlen at 1. rewrite Hh.
    unfold zlen. rewrite !repeat_length, !Z2Nat.id by lia. reflexivity. }
  assert (Ha : anchored LBiosOnly 270336 270336) by (cbn; unfold W32; lia).
  assert (Hw : BASE - 270336 <= fe_addr e < BASE) by (unfold BASE; cbn; lia).
  assert (Hoff : spec_offset 270336 (fe_addr e) = 4096) by (unfold spec_offset, BASE; cbn; lia).
  assert (Hhdr : read_padded file_256k 4096 32 = hdr_256k).
  { rewrite <- Hpre at 1. unfold file_256k. apply read_padded_mid. exact Hh. }
  assert (Hfield : acm_field hdr_256k = 65536) by (vm_compute; reflexivity).
  split; [exact Hlen|]. split; [vm_compute; reflexivity|]. split.
  - intros new Hl.
    assert (Hn : new <> []) by (intros E; subst new; change (zlen (@nil Z)) with 0 in Hl; lia).
    rewrite (stitch_acm_decided LBiosOnly 270336 270336 file_256k e new Ha Hw);
      rewrite ?Hoff, ?Hhdr, ?Hfield; try lia; try assumption.
    replace (zlen new =? 4 * 65536) with true by (symmetry; apply Z.eqb_eq; lia). reflexivity.
  - intros new Hn Hl.
    rewrite (stitch_acm_decided LBiosOnly 270336 270336 file_256k e new Ha Hw);
      rewrite ?Hoff, ?Hhdr, ?Hfield; try lia; try assumption.
    replace (zlen new =? 4 * 65536) with false by (symmetry; apply Z.eqb_neq; lia). reflexivity.
Qed.

(** ** digest buffers a manifest already carries

    CreateIBBDigest on a manifest whose digest entries already hold buffers: the digest of
    an earlier call, of another (longer) algorithm, bytes of any length a loaded manifest
    came with.  The stored digest afterwards is the hash of the segments' bytes under the
    entry's CURRENT algorithm and nothing else: the old buffer decides nothing. *)

Lemma create_digest_loop_ignores_old ver l img segs : forall digs digs',
  map fst digs = map fst digs' ->
  snd (create_digest_loop ver l img segs digs) = snd (create_digest_loop ver l img segs digs') /\
  (snd (create_digest_loop ver l img segs digs) = Ok tt ->
   fst (create_digest_loop ver l img segs digs) = fst (create_digest_loop ver l img segs digs')).
Proof.
  induction digs as [|[a old] t IH]; intros [|[a' old'] t'] E; cbn [map fst] in E; try discriminate.
  - split; reflexivity.
  - inversion E as [[Ea Et]]. subst a'. cbn [create_digest_loop].
    destruct (alg_name_roundtrips ver a); [|split; [reflexivity|discriminate]].
    destruct (get_ibbs_digest ver a l img segs) as [ap| | |]; cbn [snd unit_of];
      try (split; [reflexivity|discriminate]).
    destruct (IH t' Et) as [IH1 IH2].
    destruct (create_digest_loop ver l img segs t) as [d1 r1].
    destruct (create_digest_loop ver l img segs t') as [d2 r2]. cbn [fst snd] in *.
    split; [assumption|]. intros Hr. f_equal. apply IH2. assumption.
Qed.

(** unconditional characterisation of a successful CreateIBBDigest: every entry keeps its
    algorithm and holds the digest of the same bytes, whatever it held before *)
Lemma create_digest_loop_ok_inv ver l img segs : forall digs d,
  create_digest_loop ver l img segs digs = (d, Ok tt) ->
  Forall (fun ad => alg_supported ver (fst ad) = true) digs /\
  (digs = [] /\ d = [] \/
   exists p, digest_preimage l img segs = Ok p /\ d = map (fun ad => (fst ad, Some (fst ad, p))) digs).
Proof.
  induction digs as [|[a old] t IH]; intros d E.
  - cbn in E. inversion E. split; [constructor|]. left. split; reflexivity.
  - cbn [create_digest_loop] in E.
    destruct (alg_name_roundtrips ver a) eqn:Hr; [|inversion E].
    apply alg_roundtrips_supported in Hr.
    unfold get_ibbs_digest in E. rewrite Hr in E.
    destruct (digest_preimage l img segs) as [p| | |] eqn:Hp; cbn [bind unit_of] in E; try (inversion E; fail).
    destruct (create_digest_loop ver l img segs t) as [t' r] eqn:Et. inversion E; subst.
    destruct (IH t' eq_refl) as [Hall Hd]. split; [constructor; assumption|].
    right. exists p. split; [reflexivity|]. cbn [map fst snd]. f_equal.
    destruct Hd as [[-> ->]|(q & Hq & ->)]; [reflexivity|]. apply Ok_inj' in Hq. subst q. reflexivity.
Qed.

Lemma edit_entry_alg old e : fst (edit_entry old e) = edit_alg e.
Proof.
  destruct e as [i a|a d]; cbn [edit_entry edit_alg]; [|reflexivity].
  destruct (nth_error old i) as [[a0 d]|]; reflexivity.
Qed.

(** what the caller's rewrite of the digest list leaves: the listed algorithms in the listed
    order; no segment list changes *)
Theorem step_edit_digs ver st es :
  let st' := fst (step ver st (OEditDigs es)) in
  map fst (bg_digs st') = map edit_alg es /\ bg_segs st' = bg_segs st /\
  snd (step ver st (OEditDigs es)) = RNone.
Proof.
  cbn [step fst snd bg_digs bg_segs]. split; [|split; reflexivity].
  rewrite map_map. apply map_ext. intros e. apply edit_entry_alg.
Qed.

(** The generation chain after the caller rewrote the digest list in ANY way (entries kept
    with their buffers, moved, their algorithm changed to a shorter or longer one, new
    entries with arbitrary buffers): one digest per listed algorithm, each the hash of THIS
    image's bytes, and the validator accepts. *)
Theorem run_pipeline_after_digest_edit ver st es flags fit l img :
  0 < se_count st ->
  anchored l (zlen img) (zlen img) ->
  Forall (fun e => is_startup e = true -> fit_entry_wf e) fit ->
  Forall (fun s => included s = true -> seg_in_region (zlen img) img s)
         (map (fun e => mkSeg (fe_addr e) (16 * fe_size e) flags) (filter is_startup fit)) ->
  Forall (fun e => alg_supported ver (edit_alg e) = true) es ->
  es <> [] ->
  let segs := map (fun e => mkSeg (fe_addr e) (16 * fe_size e) flags) (filter is_startup fit) in
  let p := concat (map (fun s => slice img (spec_offset (zlen img) (sg_base s)) (sg_size s))
                       (filter included segs)) in
  run ver st [OEditDigs es; OCreateSegs 0 flags (Some fit); OCreateDigest l img; OMatch img] =
  (mkBG (set_nth 0 segs (bg_segs st)) (map (fun e => (edit_alg e, Some (edit_alg e, p))) es),
   [RNone; RUnit (Ok tt); RUnit (Ok tt); RBool (Ok true)]).
Proof.
  intros Hc Ha Hwf Hin Halgs Hne segs p.
  set (st1 := mkBG (bg_segs st) (map (edit_entry (bg_digs st)) es)).
  assert (H1 : step ver st (OEditDigs es) = (st1, RNone)) by reflexivity.
  assert (Hc1 : 0 < se_count st1) by exact Hc.
  assert (Halgs1 : Forall (fun ad => alg_supported ver (fst ad) = true) (bg_digs st1)).
  { cbn [bg_digs st1]. rewrite Forall_map. eapply Forall_impl; [|exact Halgs].
    cbn beta. intros e He. rewrite edit_entry_alg. exact He. }
  assert (Hne1 : bg_digs st1 <> []).
  { cbn [bg_digs st1]. destruct es; [congruence|discriminate]. }
  pose proof (run_pipeline_any_history ver st1 flags fit l img Hc1 Ha Hwf Hin Halgs1 Hne1) as Hrun.
  cbn zeta in Hrun. fold segs in Hrun. fold p in Hrun.
  change (run ver st (OEditDigs es :: [OCreateSegs 0 flags (Some fit); OCreateDigest l img; OMatch img]))
    with (let '(sta, r) := step ver st (OEditDigs es) in
          let '(st2, rs) := run ver sta [OCreateSegs 0 flags (Some fit); OCreateDigest l img; OMatch img] in
          (st2, r :: rs)).
  rewrite H1, Hrun. cbn [bg_segs bg_digs st1]. f_equal. f_equal.
  rewrite map_map. apply map_ext. intros e. rewrite edit_entry_alg. reflexivity.
Qed.

(** a CBnT manifest that carries a SHA384 digest of other bytes (entry 0), bytes that are no
    digest (entry 1) and an empty buffer; the caller moves entry 0 to the end and relabels it
    SHA256 (a SHORTER digest than the buffer it keeps), relabels entry 1 SHA1: after
    CreateIBBDigest every entry holds the hash of the image's bytes [16,32) *)
Lemma run_digest_edit_witness :
  run 2 (mkBG [[mkSeg (4294967296 - 48) 16 0]] [(12, Some (12, [1; 2; 3])); (11, None); (18, None)])
      [OEditDigs [EKeep 1 4; ENew 18 None; EKeep 0 11]; OCreateDigest (LIFD 16 48) (seqZ 0 64); OMatch (seqZ 0 64)] =
  (mkBG [[mkSeg (4294967296 - 48) 16 0]] [(4, Some (4, seqZ 16 16)); (18, Some (18, seqZ 16 16)); (11, Some (11, seqZ 16 16))],
   [RNone; RUnit (Ok tt); RBool (Ok true)]).
Proof. vm_compute. reflexivity. Qed.

(* ================================================================== *)
(** * images on which more than one layout probe answers (round 6, seeded change C19-m11)

    A full coreboot image carries a flash descriptor AND a flash map; the COREBOOT area need
    not end where the BIOS region ends (a BOOTBLOCK area above the CBFS).  The property maps
    the END OF THE BIOS REGION of the descriptor to 4 GiB whenever there is a descriptor; the
    flash map decides only for an image without descriptor, the image as a whole only when
    there is neither. *)

Definition region_ends (r : Z * Z) (re : Z) : Prop :=
  0 <= fst r /\ 0 <= snd r /\ fst r + snd r = re /\ re < W32.

(** the mapped region of the property text, from the answers of all three probes *)
Definition mapped_region (p : probes) (n re : Z) : Prop :=
  match pr_ifd p with
  | Some r => region_ends r re                    (* a descriptor: its BIOS region, whatever else *)
  | None =>
      match pr_fmap p with
      | Some r => region_ends r re                (* no descriptor: the COREBOOT area *)
      | None => pr_bios p = true /\ re = n /\ 0 <= n < W32   (* a bare BIOS region: the image *)
      end
  end.

Lemma probe_layout_anchored p n re : mapped_region p n re -> anchored (probe_layout p) n re.
Proof.
  unfold mapped_region, probe_layout, region_ends.
  destruct (pr_ifd p) as [[o s]|]; [cbn; tauto|].
  destruct (pr_fmap p) as [[o s]|]; [cbn; tauto|].
  intros [Hb H]. rewrite Hb. cbn. tauto.
Qed.

Theorem calc_image_offset_mapped p n re addr :
  mapped_region p n re -> BASE - re <= addr < BASE ->
  calc_image_offset p n addr = Ok (spec_offset re addr).
Proof. intros Hm Hr. apply calc_offset_anchored; [apply probe_layout_anchored|]; assumption. Qed.

(** with a descriptor nothing else is consulted (unconditional) *)
Theorem calc_image_offset_descriptor_only r fm fm' b b' n addr :
  calc_image_offset (mkPR (Some r) fm b) n addr = calc_image_offset (mkPR (Some r) fm' b') n addr.
Proof. destruct r. reflexivity. Qed.

Theorem calc_image_offset_descriptor_first off size fm b n addr :
  0 <= off -> 0 <= size -> off + size < W32 -> BASE - (off + size) <= addr < BASE ->
  calc_image_offset (mkPR (Some (off, size)) fm b) n addr = Ok (spec_offset (off + size) addr).
Proof.
  intros Ho Hs Hw Hr. apply calc_image_offset_mapped; [|assumption].
  cbn. unfold region_ends. cbn. lia.
Qed.

(** without a descriptor the flash map decides, whether or not the image also parses as a BIOS region *)
Theorem calc_image_offset_fmap_second off size b n addr :
  0 <= off -> 0 <= size -> off + size < W32 -> BASE - (off + size) <= addr < BASE ->
  calc_image_offset (mkPR None (Some (off, size)) b) n addr = Ok (spec_offset (off + size) addr).
Proof.
  intros Ho Hs Hw Hr. apply calc_image_offset_mapped; [|assumption].
  cbn. unfold region_ends. cbn. lia.
Qed.

(** closed instance (the shape of the demo image of C19-m11): 1 MiB, BIOS region [0x1000, 1 MiB),
    COREBOOT area [0x10000, 0xE0000) below a 128 KiB BOOTBLOCK area: the last 16 bytes below
    4 GiB are the last 16 bytes of the image, not of the COREBOOT area *)
Lemma calc_image_offset_two_probes_witness :
  calc_image_offset (mkPR (Some (4096, 1044480)) (Some (65536, 851968)) true) 1048576 4294967280 = Ok 1048560 /\
  calc_image_offset (mkPR None (Some (65536, 851968)) true) 1048576 4294967280 = Ok 917488.
Proof. split; vm_compute; reflexivity. Qed.

Section ProbesDigest.
  Variable H : Z -> list Z -> list Z.

  Theorem ibbs_digest_probes ver alg p region_end img segs :
    mapped_region p (zlen img) region_end -> region_end <= zlen img ->
    alg_supported ver alg = true ->
    Forall (fun s => included s = true -> seg_in_region region_end img s) segs ->
    ibbs_digest H ver alg (probe_layout p) img segs =
    Ok (H alg (concat (map (fun s => slice img (spec_offset region_end (sg_base s)) (sg_size s))
                           (filter included segs)))).
  Proof. intros Hm. apply ibbs_digest_anchored_total. apply probe_layout_anchored. exact Hm. Qed.
End ProbesDigest.

(** descriptor whose BIOS region ends at the end of the image, ANY flash map beside it: the
    validator accepts what GetIBBsDigest hashed *)
Theorem ibbs_match_descriptor_with_fmap off size fm b img segs p :
  0 <= off -> 0 <= size -> off + size = zlen img -> zlen img < W32 ->
  Forall (fun s => included s = true ->
                   BASE - zlen img <= sg_base s < BASE /\ seg_inside (spec_offset (zlen img)) img s) segs ->
  digest_preimage (probe_layout (mkPR (Some (off, size)) fm b)) img segs = Ok p ->
  ibbs_match (probe_layout (mkPR (Some (off, size)) fm b)) img segs = Ok true.
Proof.
  intros Ho Hs He Hw. apply ibbs_match_accepts. cbn. lia.
Qed.

(** stitching: only the targeted entries' regions change, whatever the flash map beside the
    descriptor says *)
Theorem stitch_frame_descriptor_with_fmap off size fm b img fit acm bpm km i :
  0 <= off -> 0 <= size -> off + size = zlen img -> zlen img < W32 ->
  entries_in_window (zlen img) fit -> 0 <= i ->
  (forall e, In e fit -> ~ in_entry_region (zlen img) e acm bpm km i) ->
  zn (fst (stitch (probe_layout (mkPR (Some (off, size)) fm b)) img (Some fit) acm bpm km)) i = zn img i.
Proof.
  intros Ho Hs He Hw. apply stitch_frame_region. cbn. lia.
Qed.

(** the generation chain on an object with any history, for an image with a descriptor (BIOS
    region ending at the end of the image) and any flash map beside it *)
Theorem run_pipeline_descriptor_with_fmap ver st flags fit off size fm b img :
  0 < se_count st ->
  0 <= off -> 0 <= size -> off + size = zlen img -> zlen img < W32 ->
  Forall (fun e => is_startup e = true -> fit_entry_wf e) fit ->
  Forall (fun s => included s = true -> seg_in_region (zlen img) img s)
         (map (fun e => mkSeg (fe_addr e) (16 * fe_size e) flags) (filter is_startup fit)) ->
  Forall (fun ad => alg_supported ver (fst ad) = true) (bg_digs st) ->
  bg_digs st <> [] ->
  let l := probe_layout (mkPR (Some (off, size)) fm b) in
  let segs := map (fun e => mkSeg (fe_addr e) (16 * fe_size e) flags) (filter is_startup fit) in
  let p := concat (map (fun s => slice img (spec_offset (zlen img) (sg_base s)) (sg_size s))
                       (filter included segs)) in
  run ver st [OCreateSegs 0 flags (Some fit); OCreateDigest l img; OMatch img] =
  (mkBG (set_nth 0 segs (bg_segs st)) (map (fun ad => (fst ad, Some (fst ad, p))) (bg_digs st)),
   [RUnit (Ok tt); RUnit (Ok tt); RBool (Ok true)]).
Proof.
  intros Hc Ho Hs He Hw Hwf Hin Halgs Hne.
  apply run_pipeline_any_history; try assumption. cbn. lia.
Qed.

(** closed instance: 64-byte image, BIOS region [16,64), COREBOOT area [24,48) (16 bytes of
    "BOOTBLOCK area" above it): the segment (4GiB-48, 16) is bytes [16,32) and the validator
    accepts; an image with the same flash map and no descriptor maps the end of the COREBOOT
    area to 4 GiB (bytes [0,16)) *)
Lemma digest_two_probes_witness :
  digest_preimage (probe_layout (mkPR (Some (16, 48)) (Some (24, 24)) true)) (seqZ 0 64) [mkSeg (4294967296 - 48) 16 0] = Ok (seqZ 16 16) /\
  ibbs_match (probe_layout (mkPR (Some (16, 48)) (Some (24, 24)) true)) (seqZ 0 64) [mkSeg (4294967296 - 48) 16 0] = Ok true /\
  digest_preimage (probe_layout (mkPR None (Some (24, 24)) true)) (seqZ 0 64) [mkSeg (4294967296 - 48) 16 0] = Ok (seqZ 0 16).
Proof. repeat split; vm_compute; reflexivity. Qed.
