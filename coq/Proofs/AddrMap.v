(** Proofs for C14 (address maps, CalcImageOffset, walker bookkeeping, VolumeOf pick). *)
From Coq Require Import ZArith List Bool Lia.
From CSS Require Import Lib.Base Model.AddrMap.
Import ListNotations.
Open Scope Z_scope.

Ltac Zify.zify_post_hook ::= Z.div_mod_to_equations.

Definition u64 (z : Z) : Prop := 0 <= z < W64.

Ltac unw :=
  unfold pmm_resolve, pmm_unresolve, pmm_resolve_bios, pmm_unresolve_bios,
    uefi_phys_to_offset, uefi_offset_to_phys, calc_phys_from_tail, calc_tail_from_phys,
    calc_offset_from_phys, calc_region_offset, u64 in *;
  rewrite ?wrap64_mod, ?wrap32_mod in *;
  unfold W64, W32, BASE, MAXU64 in *.

Lemma wrap64_u64 z : u64 (wrap64 z).
Proof. unw. lia. Qed.

(** * Mutual inverses, for every 64-bit value and every size *)

Lemma pmm_resolve_unresolve size x : u64 x -> pmm_resolve size (pmm_unresolve size x) = x.
Proof. intros. unw. lia. Qed.
Lemma pmm_unresolve_resolve size x : u64 x -> pmm_unresolve size (pmm_resolve size x) = x.
Proof. intros. unw. lia. Qed.
Lemma pmm_resolve_unresolve_bios b x : u64 x -> pmm_resolve_bios b (pmm_unresolve_bios b x) = x.
Proof. intros. unw. lia. Qed.
Lemma pmm_unresolve_resolve_bios b x : u64 x -> pmm_unresolve_bios b (pmm_resolve_bios b x) = x.
Proof. intros. unw. lia. Qed.
Lemma uefi_to_offset_to_phys len x : u64 x -> uefi_phys_to_offset len (uefi_offset_to_phys len x) = x.
Proof. intros. unw. lia. Qed.
Lemma uefi_to_phys_to_offset len x : u64 x -> uefi_offset_to_phys len (uefi_phys_to_offset len x) = x.
Proof. intros. unw. lia. Qed.
Lemma tail_phys_tail x : u64 x -> calc_tail_from_phys (calc_phys_from_tail x) = x.
Proof. intros. unw. lia. Qed.
Lemma phys_tail_phys x : u64 x -> calc_phys_from_tail (calc_tail_from_phys x) = x.
Proof. intros. unw. lia. Qed.
Lemma consts_offset_of_phys size x : u64 x -> calc_offset_from_phys (uefi_offset_to_phys size x) size = x.
Proof. intros. unw. lia. Qed.
Lemma consts_phys_of_offset size x : u64 x -> uefi_offset_to_phys size (calc_offset_from_phys x size) = x.
Proof. intros. unw. lia. Qed.

Lemma maps_inverse :
  forall size x, u64 x ->
    pmm_resolve size (pmm_unresolve size x) = x /\
    pmm_unresolve size (pmm_resolve size x) = x /\
    pmm_resolve_bios size (pmm_unresolve_bios size x) = x /\
    pmm_unresolve_bios size (pmm_resolve_bios size x) = x /\
    uefi_phys_to_offset size (uefi_offset_to_phys size x) = x /\
    uefi_offset_to_phys size (uefi_phys_to_offset size x) = x /\
    calc_offset_from_phys (uefi_offset_to_phys size x) size = x /\
    uefi_offset_to_phys size (calc_offset_from_phys x size) = x /\
    calc_tail_from_phys (calc_phys_from_tail x) = x /\
    calc_phys_from_tail (calc_tail_from_phys x) = x.
Proof.
  intros size x H.
  repeat split;
    auto using pmm_resolve_unresolve, pmm_unresolve_resolve, pmm_resolve_unresolve_bios,
      pmm_unresolve_resolve_bios, uefi_to_offset_to_phys, uefi_to_phys_to_offset,
      tail_phys_tail, phys_tail_phys, consts_offset_of_phys, consts_phys_of_offset.
Qed.

(** * Agreement with address = 4 GiB - size + offset *)

Lemma maps_agree :
  forall size off addr,
    0 <= size <= BASE -> 0 <= off < size -> addr = BASE - size + off ->
    pmm_resolve size addr = off /\
    pmm_unresolve size off = addr /\
    pmm_resolve_bios size addr = off /\
    pmm_unresolve_bios size off = addr /\
    uefi_phys_to_offset size addr = off /\
    uefi_offset_to_phys size off = addr /\
    calc_offset_from_phys addr size = off /\
    calc_tail_from_phys addr = size - off /\
    calc_phys_from_tail (size - off) = addr /\
    is_phys_addr addr size = true.
Proof.
  intros size off addr Hs Ho ->. unfold is_phys_addr.
  repeat split; unw; lia.
Qed.

(** * isPhysAddr *)

Lemma is_phys_addr_iff :
  forall size addr, 0 <= size <= BASE -> u64 addr ->
    (is_phys_addr addr size = true <-> exists off, 0 <= off < size /\ addr = BASE - size + off).
Proof.
  intros size addr Hs Ha. unfold is_phys_addr. rewrite andb_true_iff, Z.leb_le, Z.ltb_lt.
  split.
  - intros [H1 H2]. exists (addr - (BASE - size)). unw. lia.
  - intros [off [Ho ->]]. unw. lia.
Qed.

(** sizes above 4 GiB: never true (the window start wraps around) *)
Lemma is_phys_addr_big :
  forall size addr, BASE < size < W64 -> u64 addr -> is_phys_addr addr size = false.
Proof.
  intros size addr Hs Ha. unfold is_phys_addr. apply andb_false_iff.
  destruct (Z.ltb_spec addr BASE) as [H|H]; [left | right; reflexivity].
  apply Z.leb_gt. unw. lia.
Qed.

(** * Range lists *)

Lemma map_ranges_length f rs : length (map_ranges f rs) = length rs.
Proof. apply map_length. Qed.

Lemma map_ranges_nth f rs i r :
  nth_error rs i = Some r -> nth_error (map_ranges f rs) i = Some (f (fst r), snd r).
Proof. intros H. unfold map_ranges. apply (map_nth_error (fun r => (f (fst r), snd r)) _ _ H). Qed.

(** A resolved range lies inside the image exactly when the physical range lies inside
    the window [4GiB - size, 4GiB). (Resolve itself never reports an error.) *)
Lemma resolve_in_image_iff :
  forall size a l, 0 < size <= BASE -> u64 a -> 0 <= l -> a + l < W64 ->
    (pmm_resolve size a + l <= size <-> BASE - size <= a /\ a + l <= BASE).
Proof. intros size a l Hs Ha Hl Hal. unw. lia. Qed.

Lemma unresolve_in_window :
  forall size o l, 0 < size <= BASE -> 0 <= o -> 0 <= l -> o + l <= size ->
    BASE - size <= pmm_unresolve size o /\ pmm_unresolve size o + l <= BASE.
Proof. intros size o l Hs Ho Hl Hol. unw. lia. Qed.

(** * CalcImageOffset *)

(** The end of the mapped region ([off+size]) sits at 4 GiB. *)
Lemma calc_region_offset_exact :
  forall off size addr,
    0 <= off -> 0 <= size -> off + size < W32 ->
    BASE - (off + size) <= addr < W64 ->
    calc_region_offset off size addr = addr - (BASE - (off + size)).
Proof. intros. unw. lia. Qed.

Lemma calcoffset_full_flash :
  forall off size imgsize o,
    0 <= off -> 0 <= size -> off + size = imgsize -> imgsize < W32 -> 0 <= o < imgsize ->
    calc_image_offset (LFullFlash off size) imgsize (BASE - imgsize + o) = Ok o.
Proof.
  intros off size imgsize o H1 H2 H3 H4 H5. cbn [calc_image_offset]. f_equal.
  rewrite calc_region_offset_exact; unfold W32, W64, BASE in *; lia.
Qed.

Lemma calcoffset_coreboot :
  forall off size imgsize o,
    0 <= off -> 0 <= size -> off + size = imgsize -> imgsize < W32 -> 0 <= o < imgsize ->
    calc_image_offset (LCoreboot off size) imgsize (BASE - imgsize + o) = Ok o.
Proof.
  intros off size imgsize o H1 H2 H3 H4 H5. cbn [calc_image_offset]. f_equal.
  rewrite calc_region_offset_exact; unfold W32, W64, BASE in *; lia.
Qed.

(** bare BIOS region (since fix 98fb605): the whole image is the region that ends at 4 GiB *)
Lemma calcoffset_bios_only :
  forall imgsize o, 0 < imgsize <= BASE -> 0 <= o < imgsize ->
    calc_image_offset LBiosOnly imgsize (BASE - imgsize + o) = Ok o.
Proof. intros. cbn [calc_image_offset]. f_equal. unw. lia. Qed.

(** ... for every address, not only those inside the image: the same anchor as the other layouts *)
Lemma calcoffset_bios_only_anchor :
  forall imgsize addr, 0 <= imgsize < W32 -> BASE - imgsize <= addr < W64 ->
    calc_image_offset LBiosOnly imgsize addr = Ok (calc_region_offset 0 imgsize addr) /\
    calc_region_offset 0 imgsize addr = addr - (BASE - imgsize).
Proof.
  intros imgsize addr H1 H2. cbn [calc_image_offset]. split.
  - f_equal. unw. lia.
  - rewrite calc_region_offset_exact; unfold W32, W64, BASE in *; lia.
Qed.

(** the failing inputs of the former defect (the code returned 4GiB - addr: 0x10, 0x5e0000) *)
Lemma calcoffset_bios_only_witness :
  calc_image_offset LBiosOnly 65536 4294967280 = Ok 65520 /\
  calc_image_offset LBiosOnly 6160384 4288806912 = Ok 0.
Proof. split; vm_compute; reflexivity. Qed.

(** * VolumeOf: the pick for one range *)

Lemma volume_pick_sound nodes r v :
  volume_pick nodes r = Some v ->
  exists before after,
    nodes = before ++ (true, v) :: after /\
    intersect v r = true /\ fst v <> MAXU64 /\
    (forall w, In (true, w) before -> intersect w r = true -> fst w = MAXU64).
Proof.
  induction nodes as [|[isfv nr] t IH]; cbn [volume_pick]; [discriminate|].
  destruct (intersect nr r && negb (fst nr =? MAXU64) && isfv) eqn:E.
  - intros H; injection H as <-.
    apply andb_true_iff in E as [E E3]. apply andb_true_iff in E as [E1 E2].
    subst isfv. exists [], t. repeat split; auto.
    + apply negb_true_iff, Z.eqb_neq in E2. exact E2.
    + intros w [].
  - intros H. destruct (IH H) as (b & a & -> & H1 & H2 & H3).
    exists ((isfv, nr) :: b), a. repeat split; auto.
    intros w [Hw|Hw] Hi; [|eauto].
    injection Hw as -> ->. rewrite Hi in E. cbn [andb] in E.
    rewrite andb_true_r in E. apply negb_false_iff, Z.eqb_eq in E. exact E.
Qed.

Lemma volume_pick_none nodes r :
  volume_pick nodes r = None ->
  forall w, In (true, w) nodes -> intersect w r = true -> fst w = MAXU64.
Proof.
  induction nodes as [|[isfv nr] t IH]; cbn [volume_pick]; [intros _ w []|].
  destruct (intersect nr r && negb (fst nr =? MAXU64) && isfv) eqn:E; [discriminate|].
  intros H w [Hw|Hw] Hi; [|eauto].
  injection Hw as -> ->. rewrite Hi in E. cbn [andb] in E.
  rewrite andb_true_r in E. apply negb_false_iff, Z.eqb_eq in E. exact E.
Qed.

Definition contains (v r : range) : Prop := fst v <= fst r /\ fst r + snd r <= fst v + snd v.

(** VolumeOf for one range never answers "no volumes, no error" (the shape of the fixed
    defect D8), and what it answers is the first located volume that touches the range. *)
Lemma volume_of_one_spec size nodes r l :
  volume_of_one size nodes r = Ok l ->
  exists v, l = [(pmm_unresolve size (fst v), snd v)] /\
            In (true, v) nodes /\ intersect v r = true /\ fst v <> MAXU64.
Proof.
  unfold volume_of_one. destruct (volume_pick nodes r) as [v|] eqn:E; [|discriminate].
  intros H; injection H as <-.
  destruct (volume_pick_sound _ _ _ E) as (b & a & -> & H1 & H2 & _).
  exists v. repeat split; auto. apply in_or_app. right. left. reflexivity.
Qed.

Lemma volume_of_one_contains size nodes r l :
  (forall w, In (true, w) nodes -> fst w <> MAXU64 -> intersect w r = true -> contains w r) ->
  volume_of_one size nodes r = Ok l ->
  exists v, l = [(pmm_unresolve size (fst v), snd v)] /\ In (true, v) nodes /\ contains v r.
Proof.
  intros Hc H. destruct (volume_of_one_spec _ _ _ _ H) as (v & -> & Hin & Hi & Hk).
  exists v. repeat split; auto; apply Hc; auto.
Qed.

Lemma volume_of_one_err size nodes r c :
  volume_of_one size nodes r = Err c ->
  forall w, In (true, w) nodes -> intersect w r = true -> fst w = MAXU64.
Proof.
  unfold volume_of_one. destruct (volume_pick nodes r) eqn:E; [discriminate|].
  intros _. eapply volume_pick_none; eauto.
Qed.

(** * Walker bookkeeping *)

Section TreeInd.
  Variable P : tree -> Prop.
  Hypothesis H : forall n p s o l kids, Forall P kids -> P (T n p s o l kids).
  Fixpoint tree_ind' (t : tree) : P t :=
    match t with
    | T n p s o l kids =>
        H n p s o l kids
          ((fix go (ks : list tree) : Forall P ks :=
              match ks with
              | [] => Forall_nil P
              | k :: ks' => Forall_cons k (tree_ind' k) (go ks')
              end) kids)
    end.
End TreeInd.

(** Pre-order (the order of fiano's visitors), each node with "below a processed section". *)
Fixpoint pre (t : tree) (proc : bool) : list (tree * bool) :=
  match t with
  | T _ ps _ _ _ kids => (t, proc) :: flat_map (fun k => pre k (proc || ps)) kids
  end.

(** What the walker should hand to the callback, as a function of the tree alone. *)
Definition known (name : Z) (proc : bool) : bool := negb (name =? 0) && negb proc.

Fixpoint spec (fb : bool) (t : tree) (sk proc : bool) (cont : option range) : list range :=
  match t with
  | T name ps stop off len kids =>
      let rng := if known name proc then (off, len) else reported_range fb cont MAXU64 len in
      let cont' := if known name proc then Some (off, len) else cont in
      (if sk then [] else [rng])
        ++ flat_map (fun k => spec fb k (sk || stop) (proc || ps) cont') kids
  end.

Definition has_name (n : Z) (p : tree * bool) : bool := t_name (fst p) =? n.

(** The rows harvested from fiano's table visitor list, per name, the nodes in visit
    order with their true offsets (no claim for rows below processed sections). *)
Definition rows_ok (rm : rangemap) (all : list (tree * bool)) : Prop :=
  forall n, n <> 0 ->
    Forall2 (fun r p => snd p = false -> fst r = t_off (fst p))
            (rm_get rm n) (filter (has_name n) all).

Definition offs_ok (all : list (tree * bool)) : Prop :=
  forall p, In p all -> t_off (fst p) <> MAXU64.

Definition counts_ok (cm : countmap) (l : list (tree * bool)) : Prop :=
  forall n, n <> 0 -> cm_get cm n = length (filter (has_name n) l).

Definition cont_ok (cont : option range) : Prop :=
  forall c, cont = Some c -> fst c <> MAXU64.

Lemma cm_get_incr cm n m :
  cm_get (cm_incr cm n) m = if m =? n then S (cm_get cm n) else cm_get cm m.
Proof.
  induction cm as [|[k v] t IH]; cbn [cm_incr cm_get].
  - rewrite (Z.eqb_sym n m). destruct (m =? n); reflexivity.
  - destruct (k =? n) eqn:E; cbn [cm_get].
    + apply Z.eqb_eq in E. subst k. rewrite (Z.eqb_sym n m). destruct (m =? n) eqn:E2; reflexivity.
    + destruct (k =? m) eqn:E2.
      * apply Z.eqb_eq in E2. subst k. rewrite E. reflexivity.
      * rewrite IH. destruct (m =? n) eqn:E3; [|reflexivity].
        apply Z.eqb_eq in E3. subst m. reflexivity.
Qed.

Lemma filter_snoc {A} (f : A -> bool) l x :
  filter f (l ++ [x]) = if f x then filter f l ++ [x] else filter f l.
Proof. rewrite filter_app. cbn [filter]. destruct (f x); [reflexivity | apply app_nil_r]. Qed.

Lemma counts_ok_skip cm l t proc :
  t_name t = 0 -> counts_ok cm l -> counts_ok cm (l ++ [(t, proc)]).
Proof.
  intros Hn Hc n Hn0. rewrite filter_snoc. unfold has_name at 1. cbn [fst]. rewrite Hn.
  destruct (0 =? n) eqn:E; [apply Z.eqb_eq in E; congruence | auto].
Qed.

Lemma counts_ok_incr cm l t proc :
  t_name t <> 0 -> counts_ok cm l -> counts_ok (cm_incr cm (t_name t)) (l ++ [(t, proc)]).
Proof.
  intros Hn Hc n Hn0. rewrite cm_get_incr, filter_snoc. unfold has_name at 1. cbn [fst].
  rewrite (Z.eqb_sym n). destruct (t_name t =? n) eqn:E.
  - apply Z.eqb_eq in E. subst n. rewrite app_length. cbn [length]. rewrite Hc by assumption. lia.
  - auto.
Qed.

Lemma Forall2_len {A B} (R : A -> B -> Prop) l1 l2 : Forall2 R l1 l2 -> length l1 = length l2.
Proof. induction 1; cbn [length]; congruence. Qed.

Lemma Forall2_nth_mid {A B} (R : A -> B -> Prop) l1 b x a :
  Forall2 R l1 (b ++ x :: a) ->
  exists r, nth_error l1 (length b) = Some r /\ R r x.
Proof.
  intros H. apply Forall2_app_inv_r in H as (l1' & l2' & H1 & H2 & ->).
  inversion H2 as [|r y l2'' a' Hr Ht]; subst.
  exists r. split; [|assumption].
  rewrite <- (Forall2_len _ _ _ H1). rewrite nth_error_app2 by lia.
  rewrite Nat.sub_diag. reflexivity.
Qed.

Lemma lookup_ok rm all before after t proc cm :
  rows_ok rm all -> all = before ++ (t, proc) :: after -> counts_ok cm before ->
  exists cm1,
    lookup rm (t_name t) proc cm = Ok ((if known (t_name t) proc then t_off t else MAXU64), cm1)
    /\ counts_ok cm1 (before ++ [(t, proc)]).
Proof.
  intros Hr Hall Hc. unfold lookup, known.
  destruct (t_name t =? 0) eqn:E0.
  - apply Z.eqb_eq in E0. exists cm. split; [reflexivity|]. apply counts_ok_skip; assumption.
  - apply Z.eqb_neq in E0. cbn [negb andb].
    destruct proc.
    + exists (cm_incr cm (t_name t)). split; [reflexivity|]. apply counts_ok_incr; assumption.
    + specialize (Hr (t_name t) E0). rewrite Hall, filter_app in Hr. cbn [filter] in Hr.
      unfold has_name at 2 in Hr. cbn [fst] in Hr. rewrite Z.eqb_refl in Hr.
      apply Forall2_nth_mid in Hr as (r & Hn & Hrr).
      rewrite <- (Hc _ E0) in Hn. cbn [snd fst] in Hrr.
      exists (cm_incr cm (t_name t)).
      match goal with |- context [nth_error ?a ?b] => replace (nth_error a b) with (Some r) by (symmetry; exact Hn) end.
      cbn iota. rewrite (Hrr eq_refl).
      split; [reflexivity|]. apply counts_ok_incr; assumption.
Qed.

(** the reported range and the next container agree with [spec] *)
Lemma step_ok fb cont name proc off len :
  cont_ok cont -> (known name proc = true -> off <> MAXU64) ->
  let o := if known name proc then off else MAXU64 in
  reported_range fb cont o len =
    (if known name proc then (off, len) else reported_range fb cont MAXU64 len)
  /\ next_cont proc (reported_range fb cont o len) cont =
       (if known name proc then Some (off, len) else cont)
  /\ cont_ok (if known name proc then Some (off, len) else cont).
Proof.
  intros Hc Ho. cbn zeta. destruct (known name proc) eqn:K.
  - specialize (Ho eq_refl). assert (E : (off =? MAXU64) = false) by (apply Z.eqb_neq; exact Ho).
    assert (R : reported_range fb cont off len = (off, len)).
    { unfold reported_range. destruct cont; rewrite ?E; reflexivity. }
    rewrite R. unfold known in K. apply andb_true_iff in K as [_ K]. apply negb_true_iff in K.
    subst proc. unfold next_cont. cbn [fst negb andb]. rewrite E. cbn [negb].
    repeat split. intros c Hcc; injection Hcc as <-. exact Ho.
  - repeat split; [|assumption].
    unfold next_cont, reported_range. destruct proc; [reflexivity|]. cbn [negb andb].
    destruct cont as [c|]; cbn [fst].
    + rewrite Z.eqb_refl. cbn [andb]. destruct fb.
      * assert (E : (fst c =? MAXU64) = false) by (apply Z.eqb_neq, Hc; reflexivity).
        rewrite E. reflexivity.
      * cbn [fst]. rewrite Z.eqb_refl. reflexivity.
    + rewrite Z.eqb_refl. reflexivity.
Qed.

Definition visit_ok (rm : rangemap) (fb : bool) (all : list (tree * bool)) (t : tree) : Prop :=
  forall sk proc cont cm before after,
    all = before ++ pre t proc ++ after -> counts_ok cm before -> cont_ok cont ->
    exists cm',
      visit rm fb t sk proc cont cm = Ok (spec fb t sk proc cont, cm')
      /\ counts_ok cm' (before ++ pre t proc).

Lemma fold_kids_ok rm fb all kids :
  Forall (visit_ok rm fb all) kids ->
  forall sk proc cont cm before after,
    all = before ++ flat_map (fun k => pre k proc) kids ++ after ->
    counts_ok cm before -> cont_ok cont ->
    exists cm',
      fold_kids (fun k cm0 => visit rm fb k sk proc cont cm0) kids cm
      = Ok (flat_map (fun k => spec fb k sk proc cont) kids, cm')
      /\ counts_ok cm' (before ++ flat_map (fun k => pre k proc) kids).
Proof.
  induction 1 as [|k ks Hk _ IH]; intros sk proc cont cm before after Hall Hc Hco.
  - exists cm. cbn [fold_kids flat_map]. rewrite app_nil_r. split; [reflexivity | assumption].
  - cbn [flat_map] in *. rewrite <- app_assoc in Hall.
    destruct (Hk sk proc cont cm before _ Hall Hc Hco) as (cm1 & E1 & Hc1).
    rewrite app_assoc in Hall.
    destruct (IH sk proc cont cm1 _ _ Hall Hc1 Hco) as (cm2 & E2 & Hc2).
    exists cm2. cbn [fold_kids]. rewrite E1.
    change ((fix go (ks0 : list tree) (cm0 : countmap) {struct ks0} := _) ks cm1)
      with (fold_kids (fun k0 cm0 => visit rm fb k0 sk proc cont cm0) ks cm1).
    rewrite E2. split; [reflexivity|]. rewrite app_assoc. exact Hc2.
Qed.

Lemma visit_ok_all rm fb all :
  rows_ok rm all -> offs_ok all -> forall t, visit_ok rm fb all t.
Proof.
  intros Hr Ho. apply tree_ind'. intros name ps stop off len kids IHk.
  intros sk proc cont cm before after Hall Hc Hco.
  set (t := T name ps stop off len kids) in *.
  cbn [pre] in Hall. fold t in Hall. cbn [app] in Hall.
  destruct (lookup_ok rm all before _ t proc cm Hr Hall Hc) as (cm1 & EL & Hc1).
  cbn [t t_name t_off] in EL.
  assert (Hoff : known name proc = true -> off <> MAXU64).
  { intros _. apply (Ho (t, proc)). rewrite Hall. apply in_or_app. right. left. reflexivity. }
  destruct (step_ok fb cont name proc off len Hco Hoff) as (ER & EC & Hco').
  cbn zeta in ER, EC.
  assert (Hall' : all = (before ++ [(t, proc)]) ++ flat_map (fun k => pre k (proc || ps)) kids ++ after).
  { rewrite Hall, <- app_assoc. reflexivity. }
  destruct (fold_kids_ok rm fb all kids IHk (sk || stop) (proc || ps) _ cm1 _ _ Hall' Hc1 Hco')
    as (cm2 & EF & Hc2).
  exists cm2. split.
  - unfold t. cbn [visit spec]. rewrite EL. cbn iota beta zeta. rewrite EC, ER, EF. reflexivity.
  - rewrite <- app_assoc in Hc2. exact Hc2.
Qed.

(** Main statement: with true rows the walker computes [spec]. *)
Lemma walker_computes_spec rm fb t :
  rows_ok rm (pre t false) -> offs_ok (pre t false) ->
  walk rm fb t = Ok (spec fb t false false None).
Proof.
  intros Hr Ho. unfold walk.
  destruct (visit_ok_all rm fb _ Hr Ho t false false None [] [] [])
    as (cm' & E & _).
  - rewrite app_nil_r. reflexivity.
  - intros n _. reflexivity.
  - intros c Hc. discriminate.
  - rewrite E. reflexivity.
Qed.

(** [spec] only ever names the node itself, nothing, or (with the fallback) a container. *)

(** nodes for which the callback is invoked, with their ancestors (nearest first) *)
Fixpoint vis (t : tree) (sk : bool) (ancs : list tree) : list (tree * list tree) :=
  match t with
  | T _ _ stop _ _ kids =>
      (if sk then [] else [(t, ancs)]) ++ flat_map (fun k => vis k (sk || stop) (t :: ancs)) kids
  end.

Definition true_range (t : tree) : range := (t_off t, t_len t).
Definition unknown_range (t : tree) : range := (MAXU64, t_len t).

(** [r] is what may be reported for node [fst p] whose ancestors are [snd p]. *)
Definition denotes (fb : bool) (p : tree * list tree) (r : range) : Prop :=
  r = unknown_range (fst p) \/ r = true_range (fst p) \/
  (fb = true /\ exists a, In a (snd p) /\ r = true_range a).

Definition cont_is_ancestor (cont : option range) (ancs : list tree) : Prop :=
  forall c, cont = Some c -> exists a, In a ancs /\ c = true_range a.

Lemma Forall2_flat_map {A B C} (R : B -> C -> Prop) (f : A -> list B) (g : A -> list C) l :
  Forall (fun x => Forall2 R (f x) (g x)) l -> Forall2 R (flat_map f l) (flat_map g l).
Proof.
  induction 1; cbn [flat_map]; [constructor | apply Forall2_app; assumption].
Qed.

Lemma spec_denotes fb t :
  forall sk proc cont ancs,
    cont_is_ancestor cont ancs ->
    Forall2 (denotes fb) (vis t sk ancs) (spec fb t sk proc cont).
Proof.
  induction t as [name ps stop off len kids IH] using tree_ind'.
  intros sk proc cont ancs Hc. cbn [vis spec].
  set (t := T name ps stop off len kids).
  apply Forall2_app.
  - destruct sk; [constructor|]. constructor; [|constructor].
    destruct (known name proc).
    + right. left. reflexivity.
    + unfold reported_range. destruct cont as [c|].
      * rewrite Z.eqb_refl. cbn [andb]. destruct fb.
        -- right. right. split; [reflexivity|]. apply Hc. reflexivity.
        -- left. reflexivity.
      * left. reflexivity.
  - apply Forall2_flat_map. rewrite Forall_forall in IH |- *. intros k Hk.
    apply (IH k Hk). intros c Hcc. destruct (known name proc).
    + injection Hcc as <-. exists t. split; [left; reflexivity | reflexivity].
    + destruct (Hc c Hcc) as (a & Ha & ->). exists a. split; [right; exact Ha | reflexivity].
Qed.

(** Without the fallback nothing but "unknown" or the node's own range is reported. *)
Lemma spec_denotes_nofb t sk proc cont ancs :
  Forall2 (fun p r => r = unknown_range (fst p) \/ r = true_range (fst p))
          (vis t sk ancs) (spec false t sk proc cont).
Proof.
  revert sk proc cont ancs.
  induction t as [name ps stop off len kids IH] using tree_ind'.
  intros sk proc cont ancs. cbn [vis spec].
  apply Forall2_app.
  - destruct sk; [constructor|]. constructor; [|constructor].
    destruct (known name proc).
    + right. reflexivity.
    + left. unfold reported_range. destruct cont; [rewrite andb_false_r|]; reflexivity.
  - apply Forall2_flat_map. rewrite Forall_forall in IH |- *. intros k Hk. apply (IH k Hk).
Qed.

(** when the callback always continues, every node of the tree is reported, in pre-order *)
Fixpoint no_stop (t : tree) : bool :=
  match t with T _ _ stop _ _ kids => negb stop && forallb no_stop kids end.

Lemma map_flat_map {A B C} (f : B -> C) (g : A -> list B) l :
  map f (flat_map g l) = flat_map (fun x => map f (g x)) l.
Proof. induction l; cbn [flat_map map]; [reflexivity | rewrite map_app, IHl; reflexivity]. Qed.

Lemma flat_map_ext_Forall {A B} (f g : A -> list B) l :
  Forall (fun x => f x = g x) l -> flat_map f l = flat_map g l.
Proof. induction 1; cbn [flat_map]; congruence. Qed.

Lemma vis_pre t :
  no_stop t = true -> forall ancs proc, map fst (vis t false ancs) = map fst (pre t proc).
Proof.
  induction t as [name ps stop off len kids IH] using tree_ind'.
  cbn [no_stop]. intros H ancs proc. apply andb_true_iff in H as [Hs Hk].
  apply negb_true_iff in Hs. subst stop. cbn [vis pre orb app map]. f_equal.
  rewrite !map_flat_map. apply flat_map_ext_Forall.
  rewrite Forall_forall in IH |- *. rewrite forallb_forall in Hk.
  intros k Hin. apply (IH k Hin (Hk k Hin)).
Qed.

(** * D23: rows that restart at zero below a non-processed section *)

(** A file at 0xa00e8 with a volume-image section (not processed) that holds a volume
    "2" at 0xa0180; fiano's table visitor restarts its offsets at the section, so the row
    of the inner volume says 0. The walker hands that row on as an absolute offset. *)
Definition d23_tree : tree :=
  T 1 false false 655592 65688
    [T 0 false false 655612 65540
       [T 2 false false 655744 65536 []]].
Definition d23_rows : rangemap := [(1, [(655592, 65688)]); (2, [(0, 65536)])].

Lemma walker_d23_witness :
  walk d23_rows false d23_tree = Ok [(655592, 65688); (MAXU64, 65540); (0, 65536)]
  /\ nth_error (pre d23_tree false) 2 = Some (T 2 false false 655744 65536 [], false).
Proof. split; vm_compute; reflexivity. Qed.

(** * Statements used by Props/C14.v *)

Lemma resolve_ranges_spec size rs :
  exists out, pmm_resolve_ranges size rs = Ok out /\ length out = length rs /\
    forall i r, nth_error rs i = Some r -> nth_error out i = Some (pmm_resolve size (fst r), snd r).
Proof.
  eexists. split; [reflexivity|]. split; [apply map_ranges_length|]. intros. apply map_ranges_nth. assumption.
Qed.

Lemma unresolve_ranges_spec size rs :
  exists out, pmm_unresolve_ranges size rs = Ok out /\ length out = length rs /\
    forall i r, nth_error rs i = Some r -> nth_error out i = Some (pmm_unresolve size (fst r), snd r).
Proof.
  eexists. split; [reflexivity|]. split; [apply map_ranges_length|]. intros. apply map_ranges_nth. assumption.
Qed.

Lemma map_ranges_roundtrip f g rs :
  (forall x, u64 x -> g (f x) = x) -> Forall (fun r => u64 (fst r)) rs ->
  map_ranges g (map_ranges f rs) = rs.
Proof.
  intros Hfg. induction 1 as [|[o l] t Ho _ IH]; cbn [map_ranges map fst snd] in *; [reflexivity|].
  rewrite Hfg by assumption. f_equal. exact IH.
Qed.

Lemma resolve_unresolve_ranges size rs :
  Forall (fun r => u64 (fst r)) rs ->
  bind (pmm_unresolve_ranges size rs) (pmm_resolve_ranges size) = Ok rs /\
  bind (pmm_resolve_ranges size rs) (pmm_unresolve_ranges size) = Ok rs.
Proof.
  intros H. unfold pmm_unresolve_ranges, pmm_resolve_ranges. cbn [bind]. split; f_equal.
  - apply map_ranges_roundtrip; [apply pmm_resolve_unresolve | assumption].
  - apply map_ranges_roundtrip; [apply pmm_unresolve_resolve | assumption].
Qed.

Lemma bios_ranges_spec bios rs :
  (bios = None -> exists c d, pmm_resolve_bios_ranges bios rs = Err c /\ pmm_unresolve_bios_ranges bios rs = Err d) /\
  (forall b, bios = Some b ->
     pmm_resolve_bios_ranges bios rs = Ok (map_ranges (pmm_resolve_bios b) rs) /\
     pmm_unresolve_bios_ranges bios rs = Ok (map_ranges (pmm_unresolve_bios b) rs)).
Proof.
  split.
  - intros ->. exists 1, 1. split; reflexivity.
  - intros b ->. split; reflexivity.
Qed.

Lemma walker_partial rm fb t :
  rows_ok rm (pre t false) -> offs_ok (pre t false) ->
  exists rs, walk rm fb t = Ok rs /\
    Forall2 (denotes fb) (vis t false []) rs /\
    (fb = false ->
       Forall2 (fun p r => r = unknown_range (fst p) \/ r = true_range (fst p)) (vis t false []) rs) /\
    (no_stop t = true -> map fst (vis t false []) = map fst (pre t false)).
Proof.
  intros Hr Ho. exists (spec fb t false false None). split; [apply walker_computes_spec; assumption|].
  split; [apply spec_denotes; intros c Hc; discriminate|].
  split; [intros ->; apply spec_denotes_nofb | intros H; apply vis_pre; exact H].
Qed.

(** the hypotheses of [walker_partial] are satisfiable by a non-trivial tree: a volume with
    two files of the same name, one of them holding a processed section with a named file *)
Definition ex_tree : tree :=
  T 1 false false 0 4096
    [T 2 false false 72 100 [];
     T 2 false false 176 200
       [T 0 true false 200 150 [T 3 false false 7 90 []]];
     T 0 false false 376 8 []].
Definition ex_rows : rangemap := [(1, [(0, 4096)]); (2, [(72, 100); (176, 200)]); (3, [(0, 90)])].

Lemma ex_rows_ok : rows_ok ex_rows (pre ex_tree false) /\ offs_ok (pre ex_tree false) /\ no_stop ex_tree = true.
Proof.
  split; [|split; [|reflexivity]].
  - intros n Hn. unfold ex_rows, ex_tree. cbn [pre flat_map app orb].
    destruct (Z.eq_dec n 1) as [->|N1]; [vm_compute; repeat constructor|].
    destruct (Z.eq_dec n 2) as [->|N2]; [vm_compute; repeat constructor|].
    destruct (Z.eq_dec n 3) as [->|N3]; [vm_compute; repeat constructor; intros; discriminate|].
    assert (E1 : (1 =? n) = false) by (apply Z.eqb_neq; lia).
    assert (E2 : (2 =? n) = false) by (apply Z.eqb_neq; lia).
    assert (E3 : (3 =? n) = false) by (apply Z.eqb_neq; lia).
    assert (E0 : (0 =? n) = false) by (apply Z.eqb_neq; lia).
    unfold has_name. cbn [rm_get filter t_name fst]. rewrite ?E1, ?E2, ?E3, ?E0. constructor.
  - intros p Hp. unfold ex_tree in Hp. cbn [pre flat_map app orb] in Hp.
    repeat (destruct Hp as [<-|Hp]; [cbn; unfold MAXU64; lia|]). destruct Hp.
Qed.

Lemma ex_walk :
  walk ex_rows true ex_tree
  = Ok [(0, 4096); (72, 100); (176, 200); (176, 200); (176, 200); (0, 4096)] /\
  walk ex_rows false ex_tree
  = Ok [(0, 4096); (72, 100); (176, 200); (MAXU64, 150); (MAXU64, 90); (MAXU64, 8)].
Proof. split; vm_compute; reflexivity. Qed.

(** without the hypothesis on the rows the conclusion fails: D23 *)
Lemma walker_unconditional_refuted :
  exists rm t rs i p r,
    no_stop t = true /\ offs_ok (pre t false) /\
    walk rm false t = Ok rs /\
    nth_error (vis t false []) i = Some p /\ nth_error rs i = Some r /\
    r <> unknown_range (fst p) /\ r <> true_range (fst p).
Proof.
  exists d23_rows, d23_tree, [(655592, 65688); (MAXU64, 65540); (0, 65536)], 2%nat,
    (T 2 false false 655744 65536 [], [T 0 false false 655612 65540 [T 2 false false 655744 65536 []]; d23_tree]),
    (0, 65536).
  split; [reflexivity|]. split.
  - intros p Hp. unfold d23_tree in Hp. cbn [pre flat_map app orb] in Hp.
    repeat (destruct Hp as [<-|Hp]; [cbn; unfold MAXU64; lia|]). destruct Hp.
  - split; [vm_compute; reflexivity|]. split; [reflexivity|]. split; [reflexivity|].
    split; intros H; discriminate H.
Qed.
