(** Proofs about Model/MarshalOps.v: ValueFromBytes as written (parser tables), Find, and one
    Registers variable under a history of operations. *)
From Coq Require Import ZArith NArith List String Ascii Bool Lia Permutation Sorting.Sorted.
From Coq Require Import ZifyN ZifyNat ZifyBool.
From CSS Require Import Model.Marshal Model.MarshalOps Proofs.Marshal.
Import ListNotations.
Open Scope N_scope.

(** * 16. ValueFromBytes as written: the parser tables *)

(** for EVERY identifier (not only the 26): the first table listing it reads the width the
    registry entry states, and an identifier no table lists is not registered *)
Lemma parser_width_registry id :
  parser_width id = match lookup id registry with Some i => Some (r_parser i) | None => None end.
Proof.
  unfold parser_width, in_ids, parser64_ids, parser32_ids, parser8_ids, key_id.
  cbn [existsb lookup registry r_id r_parser].
  repeat match goal with
  | |- context [String.eqb id ?s] =>
      let E := fresh "E" in
      destruct (String.eqb id s) eqn:E;
      [apply String.eqb_eq in E; subst id; vm_compute; reflexivity|]
  end.
  reflexivity.
Qed.

Lemma read_uint_exact w b : List.length b = w -> read_uint w b = Some (le_value b).
Proof.
  intro H. unfold read_uint. rewrite H, Nat.ltb_irrefl, Nat.sub_diag. cbn [Nat.eqb negb].
  rewrite <- H, firstn_all. reflexivity.
Qed.

Lemma read_uint_other w b : List.length b <> w -> read_uint w b = None.
Proof.
  intro H. unfold read_uint. destruct (Nat.ltb (List.length b) w) eqn:E; [reflexivity|].
  apply Nat.ltb_ge in E. assert (H2 : Nat.eqb (List.length b - w) 0 = false) by (apply Nat.eqb_neq; lia).
  rewrite H2. reflexivity.
Qed.

Lemma parse_via_spec w id b :
  parse_via w id b = if Nat.eqb (List.length b) w then ROk (id, le_value b mod 2 ^ type_bits id) else RErr.
Proof.
  unfold parse_via. destruct (Nat.eqb (List.length b) w) eqn:E.
  - apply Nat.eqb_eq in E. rewrite (read_uint_exact _ _ E). reflexivity.
  - apply Nat.eqb_neq in E. rewrite (read_uint_other _ _ E). reflexivity.
Qed.

(** the function written with tables is the function read off the registry: all identifiers,
    all byte strings *)
Lemma from_bytes_tables_agree id b : value_from_bytes_tables id b = value_from_bytes id b.
Proof.
  pose proof (parser_width_registry id) as W.
  unfold value_from_bytes_tables, value_from_bytes, parser_width in *.
  rewrite !parse_via_spec. unfold type_bits.
  destruct (String.eqb id key_id) eqn:Ek.
  - destruct (lookup id registry) as [i|]; [reflexivity|discriminate].
  - destruct (in_ids id parser64_ids).
    { destruct (lookup id registry) as [i|]; [|discriminate]. injection W as W. rewrite <- W. reflexivity. }
    destruct (in_ids id parser32_ids).
    { destruct (lookup id registry) as [i|]; [|discriminate]. injection W as W. rewrite <- W. reflexivity. }
    destruct (in_ids id parser8_ids).
    { destruct (lookup id registry) as [i|]; [|discriminate]. injection W as W. rewrite <- W. reflexivity. }
    destruct (lookup id registry) as [i|]; [discriminate|reflexivity].
Qed.

(** the tables and the key's special case list every registered identifier exactly once *)
Definition table_ids : list string := key_id :: parser64_ids ++ parser32_ids ++ parser8_ids.

Lemma table_ids_nodup : NoDup table_ids.
Proof.
  apply (NoDup_count_occ' string_dec). intros x Hx.
  repeat (destruct Hx as [<-|Hx]; [vm_compute; reflexivity|]). contradiction.
Qed.

Lemma table_ids_registry : Permutation table_ids (map r_id registry).
Proof.
  apply NoDup_Permutation_bis.
  - exact table_ids_nodup.
  - vm_compute. lia.
  - intros x Hx. repeat (destruct Hx as [<-|Hx]; [vm_compute; tauto|]). contradiction.
Qed.

Lemma lookup_Some_iff_In id : lookup id registry <> None <-> In id (map r_id registry).
Proof.
  split.
  - destruct (lookup id registry) as [i|] eqn:H; [|congruence]. intros _.
    apply lookup_In in H. destruct H as [Hin <-]. apply in_map. exact Hin.
  - intros Hin. apply in_map_iff in Hin. destruct Hin as [i [<- Hin]].
    revert Hin. generalize registry. induction l as [|r t IH]; [contradiction|].
    intros [->|Hin]; cbn [lookup].
    + rewrite String.eqb_refl. discriminate.
    + destruct (String.eqb (r_id i) (r_id r)); [discriminate|]. apply IH. exact Hin.
Qed.

(** ValueFromBytes knows an identifier (some byte string is a value of it) iff it is registered *)
Lemma from_bytes_known_iff_registered id :
  (exists b r, value_from_bytes_tables id b = ROk r) <-> lookup id registry <> None.
Proof.
  split.
  - intros [b [r H]]. rewrite from_bytes_tables_agree in H. intro E.
    rewrite (from_bytes_unknown id b E) in H. discriminate.
  - intro H. destruct (lookup id registry) as [i|] eqn:Hl; [|congruence].
    exists (le_bytes (r_parser i) 0). eexists. rewrite from_bytes_tables_agree.
    apply (from_bytes_own_width id i); [exact Hl|apply le_bytes_length|apply le_bytes_range].
Qed.

(** * 17. Registers.Find *)

Lemma find_some id l r : find id l = Some r -> In r l /\ fst r = id.
Proof.
  induction l as [|a t IH]; cbn [find]; [discriminate|].
  destruct (String.eqb (fst a) id) eqn:E.
  - intro H. injection H as <-. apply String.eqb_eq in E. split; [left; reflexivity|exact E].
  - intro H. destruct (IH H). split; [right; assumption|assumption].
Qed.

Lemma find_none id l : find id l = None <-> ~ In id (ids l).
Proof.
  induction l as [|a t IH]; cbn [find ids map].
  - split; [intros _ []|reflexivity].
  - destruct (String.eqb_spec (fst a) id) as [E|E].
    + split; [discriminate|]. intro H. exfalso. apply H. left. exact E.
    + rewrite IH. unfold ids. split; [intros H [H2|H2]; [contradiction|apply H; exact H2]|].
      intros H H2. apply H. right. exact H2.
Qed.

(** in a collection without a repeated ID, Find returns the register carrying the ID *)
Lemma find_nodup_in l r : NoDup (ids l) -> In r l -> find (fst r) l = Some r.
Proof.
  intros N Hin. destruct (find (fst r) l) as [r'|] eqn:E.
  - destruct (find_some _ _ _ E) as [Hin' He]. f_equal. apply (nodup_ids_inj l N); assumption.
  - exfalso. apply (proj1 (find_none _ _) E). apply in_map. exact Hin.
Qed.

(** Find does not depend on the order of such a collection *)
Lemma find_perm a b id : Permutation a b -> NoDup (ids a) -> find id a = find id b.
Proof.
  intros P N.
  assert (Nb : NoDup (ids b)) by (eapply Permutation_NoDup; [apply Permutation_map; exact P|exact N]).
  destruct (find id a) as [r|] eqn:E.
  - destruct (find_some _ _ _ E) as [Hin He]. subst id. symmetry. apply find_nodup_in; [exact Nb|].
    eapply Permutation_in; eassumption.
  - symmetry. apply find_none. intro H. apply (proj1 (find_none _ _) E).
    eapply Permutation_in; [symmetry; apply Permutation_map; exact P|exact H].
Qed.

Lemma find_sort l id : NoDup (ids l) -> find id (sort_regs l) = find id l.
Proof. intro N. symmetry. apply find_perm; [symmetry; apply sort_perm|exact N]. Qed.

(** * 18. Sort is idempotent *)

Lemma insert_below r l : Forall (reg_le r) l -> insert r l = r :: l.
Proof.
  destruct 1 as [|h t Hh _]; cbn [insert]; [reflexivity|]. unfold reg_le in Hh. rewrite Hh. reflexivity.
Qed.

Lemma sort_sorted_id l : StronglySorted reg_le l -> sort_regs l = l.
Proof.
  unfold sort_regs. induction 1 as [|a t _ IH Ha]; cbn [fold_right]; [reflexivity|].
  rewrite IH. apply insert_below. exact Ha.
Qed.

Lemma sort_idem l : sort_regs (sort_regs l) = sort_regs l.
Proof. apply sort_sorted_id. apply sort_sorted. Qed.

(** * 19. YAML round trip: exactly when it is the identity *)

Lemma yaml_roundtrip_iff regs : Forall valid regs -> NoDup (ids regs) ->
  (yaml_roundtrip regs = ROk (sort_regs regs) <->
   forall r, In r regs -> fst r = key_id -> 2 ^ 64 <= be_value (le_bytes 32 (snd r))).
Proof.
  intros V N. split; [|apply yaml_roundtrip_partial; assumption].
  rewrite yaml_roundtrip_unfold, dedup_last_nodup by exact N.
  assert (C : Forall (fun r => yaml_elem r = ROk r \/ yaml_elem r = RErr) regs)
    by (eapply Forall_impl; [|exact V]; exact yaml_elem_cases).
  destruct (mapM_ok_or_err _ _ C) as [[F E]|[_ E]]; rewrite E; cbn [bind]; [|discriminate].
  intros _ r Hr Hk. rewrite Forall_forall in F, V. specialize (F r Hr).
  rewrite (yaml_elem_key r (V r Hr) Hk) in F.
  destruct (be_value (le_bytes 32 (snd r)) <? 2 ^ 64) eqn:E2; [discriminate|].
  apply N.ltb_ge. exact E2.
Qed.

Lemma yaml_roundtrip_err_iff regs : Forall valid regs -> NoDup (ids regs) ->
  (yaml_roundtrip regs = RErr <->
   exists r, In r regs /\ fst r = key_id /\ be_value (le_bytes 32 (snd r)) < 2 ^ 64).
Proof.
  intros V N. split.
  - rewrite yaml_roundtrip_unfold, dedup_last_nodup by exact N.
    assert (C : Forall (fun r => yaml_elem r = ROk r \/ yaml_elem r = RErr) regs)
      by (eapply Forall_impl; [|exact V]; exact yaml_elem_cases).
    destruct (mapM_ok_or_err _ _ C) as [[_ E]|[X E]]; rewrite E; cbn [bind]; [discriminate|].
    intros _. apply Exists_exists in X. destruct X as [r [Hr He]]. exists r. split; [exact Hr|].
    rewrite Forall_forall in V. specialize (V r Hr).
    destruct (String.eqb_spec (fst r) key_id) as [Hk|Hk].
    + split; [exact Hk|]. rewrite (yaml_elem_key r V Hk) in He.
      destruct (be_value (le_bytes 32 (snd r)) <? 2 ^ 64) eqn:E2; [apply N.ltb_lt; exact E2|discriminate].
    + rewrite (yaml_elem_nonkey r V Hk) in He. discriminate.
  - intros [r [Hr [Hk Hs]]]. destruct (yaml_roundtrip_total regs V N) as [H|H]; [|exact H].
    exfalso. pose proof (proj1 (yaml_roundtrip_iff regs V N) H r Hr Hk). lia.
Qed.

(** the condition in terms of the key's bytes: the first 24 of the 32 are zero, i.e. the raw
    value (the bytes read little-endian) is a multiple of 2^192 *)
Lemma be_value_app a b : be_value (a ++ b) = be_value a * 256 ^ N.of_nat (List.length b) + be_value b.
Proof.
  unfold be_value. rewrite rev_app_distr, le_value_app, rev_length. lia.
Qed.

Lemma le_bytes_app n m x : le_bytes (n + m) x = le_bytes n x ++ le_bytes m (x / 256 ^ N.of_nat n).
Proof.
  revert x. induction n as [|n IH]; intro x.
  - cbn [Nat.add le_bytes app]. change (N.of_nat 0) with 0. rewrite N.pow_0_r, N.div_1_r. reflexivity.
  - cbn [Nat.add le_bytes app]. f_equal. rewrite IH. f_equal. f_equal.
    rewrite Nat2N.inj_succ, N.pow_succ_r', N.div_div by (try discriminate; apply N.pow_nonzero; discriminate).
    reflexivity.
Qed.

Lemma be_value_bound b : Forall (fun x => x < 256) b -> be_value b < 256 ^ N.of_nat (List.length b).
Proof.
  intro H. unfold be_value. rewrite <- rev_length. apply le_value_bound. apply Forall_rev. exact H.
Qed.

Lemma le_value_zero_iff b : Forall (fun x => x < 256) b -> (le_value b = 0 <-> Forall (fun x => x = 0) b).
Proof.
  induction 1 as [|x t Hx _ IH]; cbn [le_value].
  - split; [constructor|reflexivity].
  - split.
    + intro H. assert (x = 0 /\ le_value t = 0) as [-> H2] by lia. constructor; [reflexivity|apply IH; exact H2].
    + intro H. inversion H as [|? ? -> Ht]; subst. apply IH in Ht. lia.
Qed.

Lemma be_value_zero_iff b : Forall (fun x => x < 256) b -> (be_value b = 0 <-> le_value b = 0).
Proof.
  intro H. unfold be_value. rewrite (le_value_zero_iff b H), (le_value_zero_iff (rev b) (Forall_rev H)).
  split; intro F; [rewrite <- (rev_involutive b)|]; apply Forall_rev; exact F.
Qed.

Lemma small_key_iff x :
  be_value (le_bytes 32 x) < 2 ^ 64 <-> x mod 2 ^ 192 = 0.
Proof.
  change 32%nat with (24 + 8)%nat. rewrite le_bytes_app, be_value_app, le_bytes_length.
  pose proof (be_value_bound _ (le_bytes_range 8 (x / 256 ^ N.of_nat 24))) as B. rewrite le_bytes_length in B.
  change (256 ^ N.of_nat 8) with (2 ^ 64) in *. change (256 ^ N.of_nat 24) with (2 ^ 192) in *.
  pose proof (be_value_zero_iff _ (le_bytes_range 24 x)) as Z.
  rewrite le_value_le_bytes_mod in Z. change (256 ^ N.of_nat 24) with (2 ^ 192) in Z.
  split.
  - intro H. apply Z. destruct (be_value (le_bytes 24 x)) eqn:E; [reflexivity|]. exfalso.
    assert (1 <= N.pos p) by lia. nia.
  - intro H. apply Z in H. rewrite H. lia.
Qed.

(** * 20. whatever a document parses to is a collection of valid registers *)

Definition bytes_ok (b : list N) : Prop := Forall (fun x => x < 256) b.

Lemma digit_val_range c d : digit_val c = Some d -> d < 16.
Proof.
  unfold digit_val. generalize (N_of_ascii c). intro n. cbv zeta.
  destruct ((48 <=? n) && (n <=? 57)) eqn:E1; [intro H; injection H as <-; lia|].
  destruct ((97 <=? n) && (n <=? 102)) eqn:E2; [intro H; injection H as <-; lia|].
  destruct ((65 <=? n) && (n <=? 70)) eqn:E3; [intro H; injection H as <-; lia|discriminate].
Qed.

Lemma b64_val_range c d : b64_val c = Some d -> d < 64.
Proof.
  unfold b64_val. generalize (N_of_ascii c). intro n. cbv zeta.
  destruct ((65 <=? n) && (n <=? 90)) eqn:E1; [intro H; injection H as <-; lia|].
  destruct ((97 <=? n) && (n <=? 122)) eqn:E2; [intro H; injection H as <-; lia|].
  destruct ((48 <=? n) && (n <=? 57)) eqn:E3; [intro H; injection H as <-; lia|].
  destruct (n =? 43); [intro H; injection H as <-; lia|].
  destruct (n =? 47); [intro H; injection H as <-; lia|discriminate].
Qed.

Lemma hex_to_bytes_step a c r :
  hex_to_bytes (String a (String c r)) =
  match digit_val a, digit_val c, hex_to_bytes r with
  | Some x, Some y, Some t => Some ((16 * x + y) :: t)
  | _, _, _ => None
  end.
Proof. reflexivity. Qed.

Lemma hex_to_bytes_range_aux n : forall s b, (String.length s <= n)%nat ->
  hex_to_bytes s = Some b -> bytes_ok b.
Proof.
  induction n as [|n IH]; intros s b Hl H.
  - destruct s; [|cbn in Hl; lia]. injection H as <-. constructor.
  - destruct s as [|a [|c r]]; [injection H as <-; constructor|discriminate|].
    rewrite hex_to_bytes_step in H.
    destruct (digit_val a) as [x|] eqn:Ea; [|discriminate].
    destruct (digit_val c) as [y|] eqn:Ec; [|discriminate].
    destruct (hex_to_bytes r) as [t|] eqn:Er; [|discriminate]. injection H as <-.
    apply digit_val_range in Ea. apply digit_val_range in Ec.
    constructor; [change (16 * x + y < 256); lia|]. apply (IH r); [cbn [String.length] in Hl; lia|exact Er].
Qed.

Lemma hex_to_bytes_range s b : hex_to_bytes s = Some b -> bytes_ok b.
Proof. apply (hex_to_bytes_range_aux (String.length s)). apply Nat.le_refl. Qed.

Lemma b64_dec_range_aux n : forall s b, (String.length s <= n)%nat ->
  b64_dec s = Some b -> bytes_ok b.
Proof.
  induction n as [|n IH]; intros s b Hl H.
  - destruct s; [|cbn in Hl; lia]. injection H as <-. constructor.
  - destruct s as [|a [|b0 [|c [|d r]]]]; try discriminate; [injection H as <-; constructor|].
    destruct r as [|c0 s0].
    + rewrite b64_dec_last in H.
      destruct (b64_val a) as [p|] eqn:Ea; [|discriminate].
      destruct (b64_val b0) as [q|] eqn:Eb; [|discriminate].
      apply b64_val_range in Ea. apply b64_val_range in Eb.
      destruct (Ascii.eqb c b64_pad).
      * destruct (Ascii.eqb d b64_pad); [|discriminate]. injection H as <-. repeat constructor. cbv beta. lia.
      * destruct (b64_val c) as [u|] eqn:Ec; [|discriminate]. apply b64_val_range in Ec.
        destruct (Ascii.eqb d b64_pad).
        -- injection H as <-. repeat constructor; cbv beta; lia.
        -- destruct (b64_val d) as [v|] eqn:Ed; [|discriminate]. apply b64_val_range in Ed.
           injection H as <-. repeat constructor; cbv beta; lia.
    + rewrite b64_dec_step in H.
      destruct (b64_val a) as [p|] eqn:Ea; [|discriminate].
      destruct (b64_val b0) as [q|] eqn:Eb; [|discriminate].
      destruct (b64_val c) as [u|] eqn:Ec; [|discriminate].
      destruct (b64_val d) as [v|] eqn:Ed; [|discriminate].
      destruct (b64_dec (String c0 s0)) as [t|] eqn:Et; [|discriminate]. injection H as <-.
      apply b64_val_range in Ea. apply b64_val_range in Eb. apply b64_val_range in Ec. apply b64_val_range in Ed.
      constructor; [cbv beta; lia|]. constructor; [cbv beta; lia|]. constructor; [cbv beta; lia|].
      apply (IH (String c0 s0)); [cbn [String.length] in *; lia|exact Et].
Qed.

Lemma b64_dec_range s b : b64_dec s = Some b -> bytes_ok b.
Proof. apply (b64_dec_range_aux (String.length s)). apply Nat.le_refl. Qed.

Lemma pow2_nonzero n : 2 ^ n <> 0.
Proof. apply N.pow_nonzero. discriminate. Qed.

Lemma from_bytes_valid id b r : bytes_ok b -> value_from_bytes id b = ROk r -> valid r /\ fst r = id.
Proof.
  intros Hb H. apply (from_bytes_characterised id b r Hb) in H. destruct H as [i [Hl [_ ->]]].
  split; [|reflexivity]. exists i. split; [exact Hl|]. cbn [snd]. apply N.mod_lt. apply pow2_nonzero.
Qed.

(** what registers.New is handed: bytes are bytes, a register is a valid register *)
Definition value_wf (v : value) : Prop :=
  match v with
  | VBytes b => bytes_ok b
  | VReg r => valid r
  | _ => True
  end.

Lemma new_valid id v r : value_wf v -> new id v = ROk r -> valid r /\ fst r = id.
Proof.
  intros W. unfold new. destruct (lookup id registry) as [i|] eqn:Hl; [|discriminate].
  destruct (lookup_ok _ _ Hl) as [_ [_ [_ Hkey]]].
  assert (Hmod : forall n, valid (id, n mod 2 ^ r_bits i)).
  { intro n. exists i. split; [exact Hl|]. cbn [snd]. apply N.mod_lt. apply pow2_nonzero. }
  destruct v as [|bits n|b|r'|].
  - intro H. injection H as <-. split; [|reflexivity]. exists i. split; [exact Hl|]. cbn [snd].
    pose proof (pow2_nonzero (r_bits i)). lia.
  - destruct (String.eqb id key_id); [discriminate|]. intro H. injection H as <-. split; [apply Hmod|reflexivity].
  - destruct (String.eqb id key_id) eqn:Ek; [|discriminate].
    destruct (Nat.eqb (List.length b) 32) eqn:E32; [|discriminate]. intro H. injection H as <-.
    split; [|reflexivity]. apply String.eqb_eq in Ek. destruct (Hkey Ek) as [_ Hb].
    exists i. split; [exact Hl|]. cbn [snd]. apply Nat.eqb_eq in E32.
    rewrite Hb, <- pow256_32, <- E32. apply le_value_bound. exact W.
  - destruct (lookup (fst r') registry) as [i'|] eqn:Hl'; [|discriminate].
    destruct (String.eqb id key_id) eqn:Ek; destruct (String.eqb (fst r') key_id) eqn:Ek'; try discriminate.
    + intro H. injection H as <-. split; [|reflexivity].
      apply String.eqb_eq in Ek. apply String.eqb_eq in Ek'.
      destruct W as [j [Hj Hx]]. exists i. split; [exact Hl|]. cbn [snd].
      rewrite Ek' in Hj. rewrite Ek in Hl. rewrite Hl in Hj. injection Hj as <-. exact Hx.
    + intro H. injection H as <-. split; [apply Hmod|reflexivity].
  - discriminate.
Qed.

Lemma value_unpack_wf id v val : value_unpack id v = ROk val -> value_wf val.
Proof.
  destruct v as [n|s|]; cbn [value_unpack]; [intro H; injection H as <-; exact I| |discriminate].
  unfold value_unpack_string. destruct (drop_prefix "0x" s) as [h|].
  - unfold value_from_hex. destruct (lookup id registry); [|discriminate].
    destruct (String.eqb id key_id).
    + destruct (hex_to_bytes h) as [b|] eqn:E; [|discriminate]. intro H. injection H as <-.
      exact (hex_to_bytes_range _ _ E).
    + destruct (parse_hex _ h); [|discriminate]. intro H. injection H as <-. exact I.
  - destruct (drop_prefix "base64:" s) as [t|]; [|discriminate].
    unfold value_from_base64. destruct (b64_dec t) as [b|] eqn:E; [|discriminate].
    destruct (value_from_bytes id b) as [r| |] eqn:E2; cbn [bind]; try discriminate.
    intro H. injection H as <-. exact (proj1 (from_bytes_valid id b r (b64_dec_range _ _ E) E2)).
Qed.

Lemma yaml_entry_valid id v r : yaml_entry id v = ROk r -> valid r /\ fst r = id.
Proof.
  unfold yaml_entry. destruct (value_unpack id v) as [val| |] eqn:E; cbn [bind]; try discriminate.
  apply new_valid. exact (value_unpack_wf _ _ _ E).
Qed.

Lemma json_entry_valid e r : bytes_ok (snd e) -> json_entry e = ROk r -> valid r /\ fst r = fst e.
Proof.
  intro Hb. unfold json_entry.
  destruct (value_from_bytes (fst e) (snd e)) as [r'| |] eqn:E; cbn [bind]; try discriminate.
  apply new_valid. exact (proj1 (from_bytes_valid _ _ _ Hb E)).
Qed.

Lemma mapM_Forall2 {A B} (f : A -> res B) (P : A -> B -> Prop) l :
  forall l', Forall (fun a => forall b, f a = ROk b -> P a b) l -> mapM f l = ROk l' -> Forall2 P l l'.
Proof.
  induction l as [|a t IH]; intros l' F H; cbn [mapM] in H.
  - injection H as <-. constructor.
  - inversion F as [|? ? Fa Ft]; subst.
    destruct (f a) as [b| |] eqn:Ea; cbn [bind] in H; try discriminate.
    destruct (mapM f t) as [t'| |] eqn:Et; cbn [bind] in H; try discriminate.
    injection H as <-. constructor; [apply Fa; reflexivity|apply IH; [exact Ft|reflexivity]].
Qed.

Lemma Forall2_valid_ids {A} (g : A -> string) (es : list A) (l : list reg) :
  Forall2 (fun e r => valid r /\ fst r = g e) es l -> Forall valid l /\ ids l = map g es.
Proof.
  induction 1 as [|e r es l [Hv He] _ [IH1 IH2]]; [split; [constructor|reflexivity]|].
  split; [constructor; assumption|]. cbn [ids map]. rewrite He. f_equal. exact IH2.
Qed.

Lemma has_dup_false_nodup l : has_dup l = false -> NoDup l.
Proof.
  induction l as [|a t IH]; cbn [has_dup]; [constructor|]. intro H. apply orb_false_iff in H.
  destruct H as [H1 H2]. constructor; [|apply IH; exact H2].
  intro Hin. assert (existsb (String.eqb a) t = true); [|congruence].
  apply existsb_exists. exists a. split; [exact Hin|apply String.eqb_refl].
Qed.

(** a document is well formed: the bytes of a JSON entry are bytes, and no ID is repeated
    (the property speaks about collections with each register at most once; a YAML mapping
    with a repeated key is refused by the decoder anyway) *)
Definition doc_wf (d : doc) : Prop :=
  match d with
  | DJson e => Forall (fun x => bytes_ok (snd x)) e /\ NoDup (map fst e)
  | DYaml _ => True
  end.

(** the invariant of a Registers variable *)
Definition inv (st : list reg) : Prop := Forall valid st /\ NoDup (ids st).

Lemma json_doc_inv e l : Forall (fun x => bytes_ok (snd x)) e -> json_doc e = ROk l ->
  Forall valid l /\ ids l = map fst e.
Proof.
  intros Hb H. apply (Forall2_valid_ids fst).
  apply (mapM_Forall2 json_entry (fun e r => valid r /\ fst r = fst e) e l); [|exact H].
  eapply Forall_impl; [|exact Hb]. intros a Ha b. apply json_entry_valid. exact Ha.
Qed.

Lemma yaml_doc_inv e l : yaml_doc e = ROk l -> inv l /\ Permutation (ids l) (map fst e).
Proof.
  unfold yaml_doc. destruct (has_dup (map fst e)) eqn:Hd; [discriminate|].
  destruct (mapM (fun e => yaml_entry (fst e) (snd e)) e) as [l0| |] eqn:Hm; cbn [bind]; try discriminate.
  intro H. injection H as <-.
  assert (F : Forall2 (fun x r => valid r /\ fst r = fst x) e l0).
  { apply (mapM_Forall2 (fun e => yaml_entry (fst e) (snd e))); [|exact Hm].
    apply Forall_forall. intros a _ b. apply yaml_entry_valid. }
  destruct (Forall2_valid_ids fst e l0 F) as [Hv Hi].
  assert (P : Permutation (ids (sort_regs l0)) (map fst e)).
  { rewrite <- Hi. apply Permutation_map. apply sort_perm. }
  split; [split|exact P].
  - eapply Permutation_Forall; [symmetry; apply sort_perm|exact Hv].
  - eapply Permutation_NoDup; [symmetry; exact P|]. apply has_dup_false_nodup. exact Hd.
Qed.

Lemma parse_doc_inv d l : doc_wf d -> parse_doc d = Some (ROk l) -> inv l.
Proof.
  destruct d as [e|e]; cbn [parse_doc doc_wf].
  - intros [Hb Hn] H. injection H as H. destruct (json_doc_inv e l Hb H) as [Hv Hi].
    split; [exact Hv|]. rewrite Hi. exact Hn.
  - intros _. destruct (resolve_entries e) as [e'|]; [|discriminate]. intro H. injection H as H.
    exact (proj1 (yaml_doc_inv e' l H)).
Qed.

(** * 21. one variable under a history of operations *)

Definition op_wf (o : op) : Prop := match o with OUnmarshal d => doc_wf d | _ => True end.

Lemma sort_inv st : inv st -> inv (sort_regs st).
Proof.
  intros [V N]. split.
  - eapply Permutation_Forall; [symmetry; apply sort_perm|exact V].
  - eapply Permutation_NoDup; [symmetry; apply Permutation_map; apply sort_perm|exact N].
Qed.

(** step: every operation keeps the invariant *)
Lemma step_inv st o st' s : inv st -> op_wf o -> step st o = Some (st', s) -> inv st'.
Proof.
  intros I W. destruct o as [d| | | |id| | |]; cbn [step]; try (intro H; injection H as <- _; exact I).
  - unfold unmarshal. destruct (parse_doc d) as [p|] eqn:Hp; [|discriminate].
    destruct p as [l| |]; cbn [assign]; intro H; injection H as <- _; try exact I.
    exact (parse_doc_inv d l W Hp).
  - intro H. injection H as <- _. apply sort_inv. exact I.
Qed.

(** init + step: it holds after every call of every history *)
Lemma run_inv ops : forall st tr, inv st -> Forall op_wf ops -> run st ops = Some tr ->
  Forall (fun x => inv (fst x)) tr.
Proof.
  induction ops as [|o t IH]; intros st tr I W H; cbn [run] in H.
  - injection H as <-. constructor.
  - inversion W as [|? ? Wo Wt]; subst.
    destruct (step st o) as [[st' s]|] eqn:Es; [|discriminate].
    destruct (run st' t) as [rest|] eqn:Er; [|discriminate]. injection H as <-.
    pose proof (step_inv _ _ _ _ I Wo Es) as I'.
    constructor; [exact I'|]. exact (IH st' rest I' Wt Er).
Qed.

Lemma final_inv ops : forall st st', inv st -> Forall op_wf ops -> final st ops = Some st' -> inv st'.
Proof.
  induction ops as [|o t IH]; intros st st' I W H; cbn [final] in H.
  - injection H as <-. exact I.
  - inversion W as [|? ? Wo Wt]; subst.
    destruct (step st o) as [[st1 s]|] eqn:Es; [|discriminate].
    exact (IH st1 st' (step_inv _ _ _ _ I Wo Es) Wt H).
Qed.

(** the states a variable can reach from [init] *)
Definition reachable (init st : list reg) : Prop :=
  exists ops, Forall op_wf ops /\ final init ops = Some st.

Lemma reachable_inv init st : inv init -> reachable init st -> inv st.
Proof. intros I [ops [W H]]. exact (final_inv ops init st I W H). Qed.

(** serialising shows the variable, it does not change it; neither do Find and the branches of
    FlagRegisters.Set that read no document *)
Definition reads_only (o : op) : bool :=
  match o with OUnmarshal _ | OSort => false | _ => true end.

Lemma step_reads_only st o st' s : reads_only o = true -> step st o = Some (st', s) -> st' = st.
Proof. destruct o; cbn [reads_only step]; try discriminate; intros _ H; injection H as <- _; reflexivity. Qed.

(** every reachable state survives legacy JSON unchanged: Marshal, then Unmarshal into a
    variable holding anything, yields it again, order included *)
Lemma reachable_json_fixpoint init st : inv init -> reachable init st ->
  exists e, step st OMarshalJSON = Some (st, SJson (ROk e)) /\
            forall dst, step dst (OUnmarshal (DJson e)) = Some (st, SCall true).
Proof.
  intros I R. destruct (reachable_inv init st I R) as [V _].
  destruct (json_marshal_doc st V) as [e [He Hd]]. exists e. cbn [step]. rewrite He.
  split; [reflexivity|]. intro dst. unfold unmarshal. cbn [parse_doc]. rewrite Hd. reflexivity.
Qed.

(** ... and YAML up to the order (Sort), unless it holds a key the YAML form cannot carry *)
Lemma reachable_yaml_fixpoint_partial init st : inv init -> reachable init st ->
  (forall r, In r st -> fst r = key_id -> 2 ^ 64 <= be_value (le_bytes 32 (snd r))) ->
  exists e, step st OMarshalYAML = Some (st, SYaml (ROk e)) /\
            forall dst, step dst (OUnmarshal (DYaml e)) = Some (sort_regs st, SCall true).
Proof.
  intros I R K. destruct (reachable_inv init st I R) as [V N].
  destruct (yaml_marshal_parse st V N) as [e [He Hp]]. exists e. cbn [step]. rewrite He.
  split; [reflexivity|]. intro dst. unfold unmarshal. rewrite Hp, (yaml_roundtrip_partial st V N K). reflexivity.
Qed.

(** the reachable states are themselves reachable again after the round trip: the set is closed *)

(** nothing of the history before the last successful Unmarshal is left: the variable holds
    the collection of that document, sorted if a Sort came later *)
Definition quiet (o : op) : bool :=
  match o with
  | OUnmarshal d => match parse_doc d with Some RErr | Some RPanic => true | _ => false end
  | _ => true
  end.
Definition is_sort (o : op) : bool := match o with OSort => true | _ => false end.

Lemma final_quiet post : forall st, forallb quiet post = true ->
  final st post = Some (if existsb is_sort post then sort_regs st else st).
Proof.
  induction post as [|o t IH]; intros st Q; [reflexivity|].
  cbn [forallb] in Q. apply andb_prop in Q. destruct Q as [Qo Qt].
  cbn [final existsb].
  destruct o as [d| | | |id| | |]; cbn [step is_sort orb]; try (apply IH; exact Qt).
  - cbn [quiet] in Qo. unfold unmarshal.
    destruct (parse_doc d) as [[l| |]|]; try discriminate; cbn [assign]; apply IH; exact Qt.
  - rewrite (IH _ Qt), sort_idem. destruct (existsb is_sort t); reflexivity.
Qed.

Lemma final_app pre : forall post st st', final st pre = Some st' -> final st (pre ++ post) = final st' post.
Proof.
  induction pre as [|o t IH]; intros post st st' H; cbn [final app] in *.
  - injection H as <-. reflexivity.
  - destruct (step st o) as [[st1 s]|]; [|discriminate]. apply IH. exact H.
Qed.

Lemma history_last_unmarshal pre d l post st st0 :
  final st pre = Some st0 -> parse_doc d = Some (ROk l) -> forallb quiet post = true ->
  final st (pre ++ OUnmarshal d :: post) = Some (if existsb is_sort post then sort_regs l else l).
Proof.
  intros Hpre Hd Q. rewrite (final_app pre _ st st0 Hpre). cbn [final step].
  rewrite (unmarshal_replaces st0 d l Hd). apply final_quiet. exact Q.
Qed.

Lemma last_nonempty_default {A} (l : list A) : forall a d d', last (a :: l) d = last (a :: l) d'.
Proof. induction l as [|b t IH]; intros a d d'; [reflexivity|]. exact (IH b d d'). Qed.

(** [run] and [final] tell the same story *)
Lemma run_final ops : forall st tr, run st ops = Some tr -> final st ops = Some (last (map fst tr) st).
Proof.
  induction ops as [|o t IH]; intros st tr H; cbn [run final] in *.
  - injection H as <-. reflexivity.
  - destruct (step st o) as [[st' s]|]; [|discriminate].
    destruct (run st' t) as [rest|] eqn:Er; [|discriminate]. injection H as <-.
    rewrite (IH st' rest Er). cbn [map fst]. destruct (map fst rest) as [|x l0] eqn:E; [reflexivity|].
    f_equal. change (last (st' :: x :: l0) st) with (last (x :: l0) st). apply last_nonempty_default.
Qed.

(** Find after a round trip: the register found under each ID is the one that went in *)
Lemma find_after_yaml_partial regs out id : Forall valid regs -> NoDup (ids regs) ->
  yaml_roundtrip regs = ROk out -> find id out = find id regs.
Proof.
  intros V N H. destruct (yaml_roundtrip_total regs V N) as [E|E]; rewrite E in H; [|discriminate].
  injection H as <-. apply find_sort. exact N.
Qed.

(** * 22. values that denote nothing, continued: a hexadecimal string wider than the register,
    null and the booleans *)

Lemma hex_entry_too_wide_refused id i h v : lookup id registry = Some i -> id <> key_id ->
  of_hex_aux h 0 = Some v -> 2 ^ (8 * N.of_nat (r_ser i)) <= v ->
  yaml_entry id (YStr (pfx_hex ++ h)) = RErr.
Proof.
  intros Hl Hk Hv Hw. unfold yaml_entry. cbn [value_unpack]. unfold value_unpack_string.
  rewrite drop_hex_hex. unfold value_from_hex. rewrite Hl. apply String.eqb_neq in Hk. rewrite Hk.
  unfold parse_hex. destruct h as [|c r]; [reflexivity|]. rewrite Hv.
  apply N.ltb_ge in Hw. rewrite Hw. reflexivity.
Qed.

Lemma other_entry_refused id : yaml_entry id YOther = RErr.
Proof. reflexivity. Qed.

Lemma null_bool_scalar s : in_words s null_words || in_words s bool_words = true ->
  yaml_scalar false s = Some YOther.
Proof.
  intro H. cbn [yaml_scalar]. unfold yaml_plain.
  assert (Hp : hex_prefixed s = None).
  { apply orb_prop in H. unfold in_words, null_words, bool_words in H. cbn [existsb] in H.
    destruct H as [H|H];
      repeat (apply orb_prop in H; destruct H as [H|H]; [apply String.eqb_eq in H; subst s; reflexivity|]);
      discriminate. }
  rewrite Hp, H. reflexivity.
Qed.

(** * 22. registers.New as a public constructor: any identifier, any kind of value *)

Definition is_key (id : string) : bool := String.eqb id key_id.

(** the key is the only register 256 bits wide *)
Lemma registry_key_bits :
  forallb (fun i => Bool.eqb (r_bits i =? 256) (is_key (r_id i))) registry = true.
Proof. vm_compute. reflexivity. Qed.

Lemma bits_key id i : lookup id registry = Some i -> (r_bits i = 256 <-> id = key_id).
Proof.
  intro Hl. apply lookup_In in Hl. destruct Hl as [Hin Hid].
  pose proof registry_key_bits as H. rewrite forallb_forall in H. specialize (H i Hin).
  apply Bool.eqb_prop in H. unfold is_key in H. rewrite Hid in H. split; intro E.
  - apply String.eqb_eq. rewrite <- H. apply N.eqb_eq. exact E.
  - apply N.eqb_eq. rewrite H. apply String.eqb_eq. exact E.
Qed.

(** a register value handed to New: accepted iff both are integer registers or both the key,
    and then it is the register OF THE IDENTIFIER ASKED FOR carrying the value cut to its type *)
Lemma new_register_characterised id i src : lookup id registry = Some i -> valid src ->
  new id (VReg src) =
    if Bool.eqb (is_key id) (is_key (fst src)) then ROk (id, snd src mod 2 ^ r_bits i) else RErr.
Proof.
  intros Hl [j [Hj Hx]]. unfold new, is_key. rewrite Hl, Hj.
  destruct (String.eqb id key_id) eqn:Ek; destruct (String.eqb (fst src) key_id) eqn:Ek'; cbn [Bool.eqb]; try reflexivity.
  apply String.eqb_eq in Ek. apply String.eqb_eq in Ek'.
  rewrite Ek' in Hj. rewrite Ek in Hl. rewrite Hl in Hj. injection Hj as <-.
  rewrite N.mod_small by exact Hx. reflexivity.
Qed.

Lemma new_register_keeps id i src : lookup id registry = Some i -> valid src ->
  is_key id = is_key (fst src) -> snd src < 2 ^ r_bits i -> new id (VReg src) = ROk (id, snd src).
Proof.
  intros Hl V Hk Hx. rewrite (new_register_characterised id i src Hl V), Hk, Bool.eqb_reflx.
  rewrite N.mod_small by exact Hx. reflexivity.
Qed.

(** a value of the register's own width: the value of ANY register of the same Go width *)
Lemma new_register_same_width id i src j : lookup id registry = Some i ->
  lookup (fst src) registry = Some j -> r_bits i = r_bits j -> snd src < 2 ^ r_bits j ->
  new id (VReg src) = ROk (id, snd src).
Proof.
  intros Hl Hj Hb Hx. apply (new_register_keeps id i src Hl).
  - exists j. split; assumption.
  - unfold is_key. destruct (String.eqb id key_id) eqn:Ek; destruct (String.eqb (fst src) key_id) eqn:Ek'; try reflexivity; exfalso.
    + apply String.eqb_eq in Ek. apply String.eqb_neq in Ek'. apply Ek'.
      apply (bits_key _ _ Hj). rewrite <- Hb. apply (bits_key _ _ Hl). exact Ek.
    + apply String.eqb_neq in Ek. apply String.eqb_eq in Ek'. apply Ek.
      apply (bits_key _ _ Hl). rewrite Hb. apply (bits_key _ _ Hj). exact Ek'.
  - rewrite Hb. exact Hx.
Qed.

Lemma new_uint_keeps id i bits n : lookup id registry = Some i -> id <> key_id ->
  n < 2 ^ r_bits i -> new id (VUint bits n) = ROk (id, n).
Proof.
  intros Hl Hk Hx. unfold new. rewrite Hl. apply String.eqb_neq in Hk. rewrite Hk.
  rewrite N.mod_small by exact Hx. reflexivity.
Qed.

Lemma new_key_bytes b : List.length b = 32%nat -> new key_id (VBytes b) = ROk (key_id, le_value b).
Proof.
  intro H. unfold new.
  destruct (lookup key_id registry) as [i|] eqn:Hl; [|vm_compute in Hl; discriminate].
  rewrite String.eqb_refl, H. reflexivity.
Qed.

(** values of another kind than the register *)
Definition incompatible (id : string) (v : value) : Prop :=
  match v with
  | VNil => False
  | VUint _ _ => id = key_id                               (* an integer for the 32-byte register *)
  | VBytes b => id <> key_id \/ List.length b <> 32%nat    (* bytes for an integer register; not 32 bytes *)
  | VReg src => is_key id <> is_key (fst src)              (* an integer register's value for the key and v.v. *)
  | VOther => True                                         (* no number and no bytes *)
  end.

Lemma new_incompatible id v : incompatible id v -> new id v = RErr.
Proof.
  intro H. unfold new. destruct (lookup id registry) as [i|]; [|reflexivity].
  destruct v as [|bits n|b|src|]; cbn [incompatible] in H.
  - destruct H.
  - apply String.eqb_eq in H. rewrite H. reflexivity.
  - destruct (String.eqb id key_id) eqn:Ek; [|reflexivity].
    destruct H as [H|H]; [apply String.eqb_eq in Ek; contradiction|].
    apply Nat.eqb_neq in H. rewrite H. reflexivity.
  - destruct (lookup (fst src) registry); [|reflexivity]. unfold is_key in H.
    destruct (String.eqb id key_id); destruct (String.eqb (fst src) key_id); try reflexivity; exfalso; apply H; reflexivity.
  - reflexivity.
Qed.

(** whatever New returns is found under the identifier asked for, wherever it is put first *)
Lemma new_find id v r l : value_wf v -> new id v = ROk r -> find id (r :: l) = Some r.
Proof.
  intros W H. destruct (new_valid id v r W H) as [_ E]. cbn [find]. rewrite E, String.eqb_refl. reflexivity.
Qed.

(** * Examples for sections 16-22 *)
Open Scope string_scope.
Lemma ex_ops :
  run [("TXT.ESTS", 7)]
    [OUnmarshal (DJson [("ACM_STATUS", [0x12; 0; 0; 0; 0; 0; 0; 0]); ("TXT.STS", [1; 2; 3; 4; 5; 6; 7; 8])]);
     OFind "ACM_STATUS"; OMarshalYAML; OSort; OFind "TXT.ESTS";
     OUnmarshal (DYaml [("BOGUS", (false, "0x1"))]); OSetNoPath; OSetMissing; OMarshalJSON]
  = Some [([("ACM_STATUS", 0x12); ("TXT.STS", 0x0807060504030201)], SCall true);
          ([("ACM_STATUS", 0x12); ("TXT.STS", 0x0807060504030201)], SFound (Some ("ACM_STATUS", 0x12)));
          ([("ACM_STATUS", 0x12); ("TXT.STS", 0x0807060504030201)],
             SYaml (ROk [("ACM_STATUS", (false, "0x12")); ("TXT.STS", (false, "0x807060504030201"))]));
          ([("TXT.STS", 0x0807060504030201); ("ACM_STATUS", 0x12)], SNone);
          ([("TXT.STS", 0x0807060504030201); ("ACM_STATUS", 0x12)], SFound None);
          ([("TXT.STS", 0x0807060504030201); ("ACM_STATUS", 0x12)], SCall false);
          ([("TXT.STS", 0x0807060504030201); ("ACM_STATUS", 0x12)], SCall true);
          ([("TXT.STS", 0x0807060504030201); ("ACM_STATUS", 0x12)], SCall false);
          ([("TXT.STS", 0x0807060504030201); ("ACM_STATUS", 0x12)],
             SJson (ROk [("TXT.STS", [1; 2; 3; 4; 5; 6; 7; 8]); ("ACM_STATUS", [0x12; 0; 0; 0; 0; 0; 0; 0])]))].
Proof. vm_compute. reflexivity. Qed.

Definition ex_doc : doc :=
  DJson [("ACM_STATUS", [0x12; 0; 0; 0; 0; 0; 0; 0]); ("TXT.STS", [1; 2; 3; 4; 5; 6; 7; 8])].

Lemma ex_ops_hyps :
  inv [("TXT.ESTS", 7)] /\
  Forall op_wf [OUnmarshal ex_doc; OSort] /\
  reachable [("TXT.ESTS", 7)] [("ACM_STATUS", 0x12); ("TXT.STS", 0x0807060504030201)] /\
  reachable [("TXT.ESTS", 7)] [("TXT.STS", 0x0807060504030201); ("ACM_STATUS", 0x12)] /\
  parse_doc ex_doc = Some (ROk [("ACM_STATUS", 0x12); ("TXT.STS", 0x0807060504030201)]) /\
  forallb quiet [OMarshalJSON; OSort; OUnmarshal (DYaml [("BOGUS", (false, "0x1"))]); OFind "TXT.STS"] = true.
Proof.
  assert (W : op_wf (OUnmarshal ex_doc)).
  { cbn [op_wf doc_wf ex_doc]. split.
    - repeat constructor; cbn [snd]; unfold bytes_ok; repeat constructor.
    - cbn [map fst]. repeat constructor; cbn [In]; intuition discriminate. }
  split; [|split; [|split; [|split; [|split]]]].
  - split; [constructor; [apply validb_iff; vm_compute; reflexivity|constructor]|].
    cbn [ids map fst]. repeat constructor. intros [].
  - constructor; [exact W|]. constructor; [exact I|constructor].
  - eexists [_]. split; [constructor; [exact W|constructor]|]. vm_compute. reflexivity.
  - eexists [_; OSort]. split; [constructor; [exact W|constructor; [exact I|constructor]]|]. vm_compute. reflexivity.
  - vm_compute. reflexivity.
  - vm_compute. reflexivity.
Qed.

Lemma ex_tables :
  parser_width "ACM_STATUS" = Some 8%nat /\ parser_width "TXT.ERRORCODE" = Some 4%nat /\
  parser_width "TXT.ESTS" = Some 1%nat /\ parser_width key_id = Some 32%nat /\ parser_width "BOGUS" = None /\
  value_from_bytes_tables "TXT.ERRORCODE" [1; 0; 0; 0xc0] = ROk ("TXT.ERRORCODE", 0xc0000001) /\
  value_from_bytes_tables "TXT.ERRORCODE" [1; 0; 0] = RErr /\
  value_from_bytes_tables "TXT.ERRORCODE" [1; 0; 0; 0xc0; 7] = RErr /\
  value_from_bytes_tables "ACM_STATUS" [1; 2; 3; 4; 5; 6; 7; 8] = ROk ("ACM_STATUS", 0x04030201).
Proof. vm_compute. repeat split. Qed.

Lemma ex_small_key_bytes :
  be_value (le_bytes 32 (2 ^ 255)) < 2 ^ 64 /\ (2 ^ 255) mod 2 ^ 192 = 0 /\
  2 ^ 64 <= be_value (le_bytes 32 (2 ^ 191)) /\ (2 ^ 191) mod 2 ^ 192 <> 0.
Proof. vm_compute. repeat split; discriminate. Qed.
Lemma ex_too_wide :
  lookup "TXT.ESTS" registry <> None /\ "TXT.ESTS" <> key_id /\
  of_hex_aux "100" 0 = Some 256 /\ 2 ^ (8 * 1) <= 256 /\
  yaml_entry "TXT.ESTS" (YStr "0x100") = RErr /\ yaml_entry "TXT.ESTS" (YStr "0xff") = ROk ("TXT.ESTS", 255) /\
  yaml_entry "TXT.ERRORCODE" (YStr "0x100000000") = RErr /\
  yaml_scalar false "~" = Some YOther /\ yaml_scalar false "" = Some YOther /\ yaml_scalar false "True" = Some YOther /\
  orb (in_words "null" null_words) (in_words "null" bool_words) = true.
Proof. repeat split; try discriminate; vm_compute; reflexivity. Qed.
Lemma ex_new_values :
  new "TXT.ERRORCODE" (VReg ("TXT.HEAP.BASE", 0x80000007)) = ROk ("TXT.ERRORCODE", 0x80000007) /\
  new "TXT.ESTS" (VReg (key_id, 5)) = RErr /\ new key_id (VReg ("TXT.ESTS", 5)) = RErr /\
  new key_id (VReg (key_id, 2 ^ 255 + 1)) = ROk (key_id, 2 ^ 255 + 1) /\
  new "TXT.ESTS" (VReg ("TXT.HEAP.BASE", 0x1ff)) = ROk ("TXT.ESTS", 0xff) /\
  new "ACM_POLICY_STATUS" (VReg ("TXT.ESTS", 0xff)) = ROk ("ACM_POLICY_STATUS", 0xff) /\
  new "TXT.ESTS" (VBytes [1]) = RErr /\ new key_id (VUint 64 7) = RErr /\
  find "TXT.ERRORCODE" [("TXT.HEAP.BASE", 0x80000007)] = None /\
  valid ("TXT.HEAP.BASE", 0x80000007) /\ is_key "TXT.ERRORCODE" = is_key "TXT.HEAP.BASE" /\
  incompatible "TXT.ESTS" (VReg (key_id, 5)) /\ incompatible key_id (VBytes [1; 2]).
Proof.
  repeat split; try (vm_compute; reflexivity); try discriminate.
  - exists {| r_id := "TXT.HEAP.BASE"; r_bits := 32; r_ser := 4; r_parser := 4; r_addr := 4275241728 |}.
    split; vm_compute; reflexivity.
  - right. discriminate.
Qed.
Close Scope string_scope.
