(** Proofs about the worker count over the whole range of its integer types
    (Model/BruteForceConc.v), and about limits that do not bind. *)
From CSS Require Import Lib.Base Model.Comb Model.BruteForce Model.BruteForceConc.
From Coq Require Import Lia ZArith List.
Import ListNotations.
Local Open Scope Z_scope.

Lemma to_uint_small x : 0 <= x < W64 -> to_uint x = x.
Proof. intros H. unfold to_uint. rewrite wrap64_mod. apply Z.mod_small. exact H. Qed.

Lemma to_int_small x : 0 <= x < TWO63 -> to_int x = x.
Proof.
  intros H. unfold to_int. rewrite wrap64_mod. unfold TWO63, W64 in *.
  rewrite Z.mod_small by lia. destruct (x <? 9223372036854775808) eqn:E; [reflexivity|].
  apply Z.ltb_ge in E. lia.
Qed.

(** the unbounded [cfactor] never exceeds GOMAXPROCS and is at least 1 *)
Lemma cfactor_uncapped_range gomax amount : 1 <= gomax ->
  1 <= cfactor gomax 0 amount <= gomax.
Proof.
  intros Hg. unfold cfactor, MIN_ITER. cbn [Z.ltb andb]. 
  replace (0 <? 0) with false by reflexivity. cbn [andb].
  destruct (amount / 10000 <? gomax) eqn:E1; [|lia].
  apply Z.ltb_lt in E1.
  destruct (amount / 10000 <? 1) eqn:E2; [lia|]. apply Z.ltb_ge in E2. lia.
Qed.

(** on the whole range of int (GOMAXPROCS >= 1), uint (the limit) and of the amounts that pass
    the MaxInt64 guard, run()'s conversions change nothing *)
Theorem cfactor_go_eq gomax maxconc amount :
  1 <= gomax < TWO63 -> 0 <= maxconc < W64 -> 0 <= amount < TWO63 ->
  cfactor_go gomax maxconc amount = cfactor gomax maxconc amount.
Proof.
  intros Hg Hm Ha. unfold cfactor_go, cfactor, MIN_ITER.
  assert (Hq : 0 <= amount / 10000 <= amount).
  { split; [apply Z.div_pos; lia|]. apply Z.div_le_upper_bound; lia. }
  unfold TWO63, W64 in *.
  rewrite (to_uint_small gomax) by (unfold W64; lia).
  rewrite (to_int_small (amount / 10000)) by (unfold TWO63; lia).
  set (cf := if amount / 10000 <? gomax then if amount / 10000 <? 1 then 1 else amount / 10000 else gomax).
  assert (Hcf : 1 <= cf <= gomax).
  { subst cf. destruct (amount / 10000 <? gomax) eqn:E1; [|lia]. apply Z.ltb_lt in E1.
    destruct (amount / 10000 <? 1) eqn:E2; [lia|]. apply Z.ltb_ge in E2. lia. }
  rewrite (to_uint_small cf) by (unfold W64; lia).
  destruct (0 <? maxconc) eqn:E0; cbn [andb]; [|reflexivity].
  destruct (maxconc <? cf) eqn:E3; [|reflexivity].
  apply Z.ltb_lt in E3. apply to_int_small. unfold TWO63. lia.
Qed.

(** a limit only ever lowers the count *)
Theorem cfactor_cap_lowers gomax maxconc amount : 1 <= gomax ->
  cfactor gomax maxconc amount <= cfactor gomax 0 amount /\
  (maxconc <= 0 \/ cfactor gomax 0 amount <= maxconc ->
   cfactor gomax maxconc amount = cfactor gomax 0 amount).
Proof.
  intros Hg. pose proof (cfactor_uncapped_range gomax amount Hg) as Hr.
  revert Hr. unfold cfactor. replace (0 <? 0) with false by reflexivity. cbn [andb].
  set (cf := if amount / MIN_ITER <? gomax then if amount / MIN_ITER <? 1 then 1 else amount / MIN_ITER else gomax).
  intros Hr.
  destruct (0 <? maxconc) eqn:E0; cbn [andb].
  - apply Z.ltb_lt in E0. destruct (maxconc <? cf) eqn:E1.
    + apply Z.ltb_lt in E1. split; [lia|]. intros [H|H]; lia.
    + split; [lia|reflexivity].
  - split; [lia|reflexivity].
Qed.

(** in particular a limit of at least GOMAXPROCS (the largest uint, 2^63, ...) is no limit *)
Lemma cfactor_slack gomax maxconc : 1 <= gomax -> gomax <= maxconc ->
  forall amount, cfactor gomax maxconc amount = cfactor gomax 0 amount.
Proof.
  intros Hg Hm amount. apply cfactor_cap_lowers; [exact Hg|].
  right. pose proof (cfactor_uncapped_range gomax amount Hg). lia.
Qed.

(** the schedule relation depends on the limit through the worker count only *)
Section Ext.
  Context {A : Type}.
  Variable flip : list Z -> list A -> outcome (list A).
  Variable P : list A -> bool.
  Variable ifail : Z -> Z -> bool.
  Variables (gomax m1 m2 : Z).
  Hypothesis Hcf : forall a, cfactor gomax m1 a = cfactor gomax m2 a.

  Lemma round_specs_ext data total d :
    round_specs flip P ifail gomax m1 data total d = round_specs flip P ifail gomax m2 data total d.
  Proof. unfold round_specs. rewrite Hcf. reflexivity. Qed.

  Lemma dist_rel_ext data total n : forall d tr res,
    dist_rel flip P ifail gomax m1 data total n d tr res ->
    dist_rel flip P ifail gomax m2 data total n d tr res.
  Proof.
    induction n as [|n IH]; intros d tr res H; cbn [dist_rel] in *; [exact H|].
    destruct (total <? d); [exact H|].
    destruct (MAX_INT64 <=? amount_of total (Z.to_nat d)); [exact H|].
    rewrite <- round_specs_ext.
    destruct (round_specs flip P ifail gomax m1 data total d) as [specs|c| |]; try exact H.
    destruct H as (runs & rres & Hr & Hm). exists runs, rres. split; [exact Hr|].
    destruct rres as [[r|]|c| |]; try exact Hm.
    destruct Hm as (rest & Ht & Hd). exists rest. split; [exact Ht|]. apply IH. exact Hd.
  Qed.

  Lemma bf_run_ext data isz wmin wmax tr res :
    bf_run flip P ifail gomax m1 data isz wmin wmax tr res ->
    bf_run flip P ifail gomax m2 data isz wmin wmax tr res.
  Proof.
    unfold bf_run. destruct (wmax <? wmin); [exact (fun H => H)|].
    destruct (wmin =? 0).
    - destruct (ifail 0 0); [exact (fun H => H)|]. destruct (P data); [exact (fun H => H)|].
      intros (tr' & Ht & Hd). exists tr'. split; [exact Ht|]. apply dist_rel_ext. exact Hd.
    - apply dist_rel_ext.
  Qed.
End Ext.

(** every limit that leaves room for GOMAXPROCS workers gives exactly the runs (traces and
    results) of the call without a limit *)
Theorem huge_limit_is_no_limit (A : Type) (flip : list Z -> list A -> outcome (list A)) (P : list A -> bool)
    ifail gomax maxconc data isz wmin wmax tr res :
  1 <= gomax -> gomax <= maxconc ->
  (bf_run flip P ifail gomax maxconc data isz wmin wmax tr res <->
   bf_run flip P ifail gomax 0 data isz wmin wmax tr res).
Proof.
  intros Hg Hm. split; apply bf_run_ext; intros a.
  - apply cfactor_slack; assumption.
  - symmetry. apply cfactor_slack; assumption.
Qed.

(** the count that run() divides by and sizes its channel with is usable: no panic, and the
    piece size is the one of the model *)
Theorem piece_size_go_ok gomax maxconc amount :
  1 <= gomax < TWO63 -> 0 <= maxconc < W64 -> 0 <= amount < TWO63 ->
  piece_size_go amount (cfactor_go gomax maxconc amount) = Ok (amount / cfactor gomax maxconc amount).
Proof.
  intros Hg Hm Ha. rewrite cfactor_go_eq by assumption.
  pose proof (proj1 (cfactor_cap_lowers gomax maxconc amount ltac:(lia))) as Hle.
  pose proof (cfactor_uncapped_range gomax amount ltac:(lia)) as Hr.
  assert (H1 : 1 <= cfactor gomax maxconc amount).
  { unfold cfactor. set (cf := if amount / MIN_ITER <? gomax then if amount / MIN_ITER <? 1 then 1 else amount / MIN_ITER else gomax).
    assert (1 <= cf). { subst cf. unfold MIN_ITER. destruct (amount / 10000 <? gomax) eqn:E1; [|lia].
      destruct (amount / 10000 <? 1) eqn:E2; [lia|]. apply Z.ltb_ge in E2. lia. }
    destruct (0 <? maxconc) eqn:E0; cbn [andb]; [|lia]. apply Z.ltb_lt in E0.
    destruct (maxconc <? cf); lia. }
  unfold piece_size_go. unfold TWO63, W64 in *.
  rewrite to_uint_small by (unfold W64; lia).
  destruct (cfactor gomax maxconc amount =? 0) eqn:E; [apply Z.eqb_eq in E; lia|].
  destruct (cfactor gomax maxconc amount <? 0) eqn:E'; [apply Z.ltb_lt in E'; lia|]. reflexivity.
Qed.

(** the signed comparison is wrong exactly where small limits do not sample the property: with
    the top bit set the "limit" is negative, the count follows it, and run() cannot even size
    its error channel; on every limit an int can hold the two computations agree *)
Lemma signed_cap_same_below_sign_bit g m a :
  1 <= g < TWO63 -> 0 <= m < TWO63 -> 0 <= a < TWO63 ->
  cfactor_signed_cap g m a = cfactor_go g m a.
Proof.
  intros Hg Hm Ha. unfold cfactor_signed_cap, cfactor_go.
  rewrite (to_int_small m) by exact Hm.
  set (cf := if a / MIN_ITER <? to_uint g then let c := to_int (a / MIN_ITER) in if c <? 1 then 1 else c else g).
  assert (Hq : 0 <= a / MIN_ITER <= a).
  { unfold MIN_ITER. split; [apply Z.div_pos; lia|]. apply Z.div_le_upper_bound; lia. }
  assert (Hcf : 1 <= cf <= g).
  { subst cf. unfold TWO63 in *. rewrite (to_uint_small g) by (unfold W64; lia).
    rewrite (to_int_small (a / MIN_ITER)) by (unfold TWO63; lia). cbv zeta.
    destruct (a / MIN_ITER <? g) eqn:E1; [|lia]. apply Z.ltb_lt in E1.
    destruct (a / MIN_ITER <? 1) eqn:E2; [lia|]. apply Z.ltb_ge in E2. lia. }
  unfold TWO63 in *. rewrite (to_uint_small cf) by (unfold W64; lia). reflexivity.
Qed.

Example signed_cap_differs :
  cfactor_go 4 (W64 - 1) 100 = 1 /\ cfactor_signed_cap 4 (W64 - 1) 100 = -1 /\
  piece_size_go 100 (cfactor_signed_cap 4 (W64 - 1) 100) = Panic /\
  cfactor_go 16 TWO63 635376 = 16 /\ cfactor_signed_cap 16 TWO63 635376 = - TWO63 /\
  piece_size_go 635376 (cfactor_signed_cap 16 TWO63 635376) = Panic /\
  (forall g m a, 1 <= g < TWO63 -> 0 <= m < TWO63 -> 0 <= a < TWO63 ->
                 cfactor_signed_cap g m a = cfactor_go g m a).
Proof.
  split; [vm_compute; reflexivity|]. split; [vm_compute; reflexivity|].
  split; [vm_compute; reflexivity|]. split; [vm_compute; reflexivity|].
  split; [vm_compute; reflexivity|]. split; [vm_compute; reflexivity|].
  exact signed_cap_same_below_sign_bit.
Qed.
