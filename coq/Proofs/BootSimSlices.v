(** A boot on a TPM object that served earlier boots (property C01).

    1. Simulation: the boot simulation over any TPM implementation
       (Model/BootSimGen.v) that is related to the value-level TPM of Model/TPM.v
       by a relation preserved by every command (same outcomes, same
       SupportedAlgos) does, boot after boot of a session, what Model/BootSim.v
       does: related TPM objects, same MeasuredData, same step issues.
    2. Instance: the buffer-level TPM of Model/TPMSlices.v (explicit backing
       arrays; Reset / DoNotUse_ResetNoInit re-slice to [:0], CommandInit.Apply
       re-slices to the old capacity and zeroes in place, CommandExtend.Apply
       hashes in place), with C02's refinement lemma [sstep_refines].
    Hence: whatever the earlier boots left in the buffers of the object, the
    next boot is the boot of its flow from [boot_start] -- to which all theorems
    of Proofs/BootSim.v apply. *)
From CSS Require Import Lib.Base Model.TPM Proofs.TPM Model.TPMSlices Proofs.TPMSlices.
From CSS Require Import Model.BootSim Model.BootSimGen Proofs.BootSim.

(** * 1. Simulation *)

Section Simulation.
Variable ref : Type.
Variable bytes_of : ref -> outcome (list Z).
Variable H : Z -> list Z -> list Z.
Variable T : Type.
Variable texec : T -> cmd -> T * outcome unit.
Variable talgos : T -> list Z.
Variable tnew : T.
Variable tset_algos : T -> list Z -> T.

Variable R : T -> state -> Prop.
Hypothesis R_exec : forall x t c, R x t ->
  R (fst (texec x c)) (fst (step H t c)) /\ snd (texec x c) = snd (step H t c).
Hypothesis R_algos : forall x t, R x t -> talgos x = algos t.
Hypothesis R_new : R tnew fresh.
Hypothesis R_set_algos : forall x t al, R x t -> R (tset_algos x al) (set_algos t al).

Notation gsim := (BootSimGen.gsim ref T).
Notation sim := (BootSim.sim ref).
Notation gevent_loop := (BootSimGen.gevent_loop H T texec).
Notation gapply_act := (BootSimGen.gapply_act ref bytes_of H T texec).
Notation grun_acts := (BootSimGen.grun_acts ref bytes_of H T texec).
Notation glog_init := (BootSimGen.glog_init ref T talgos).
Notation gcompile_item := (BootSimGen.gcompile_item ref bytes_of H T talgos).
Notation gcompile_step := (BootSimGen.gcompile_step ref bytes_of H T talgos).
Notation grun_step := (BootSimGen.grun_step ref bytes_of H T texec talgos).
Notation grun_flow := (BootSimGen.grun_flow ref bytes_of H T texec talgos).
Notation grecycle := (BootSimGen.grecycle T texec tnew tset_algos).
Notation grun_boots := (BootSimGen.grun_boots ref bytes_of H T texec talgos tnew tset_algos).
Notation event_loop := (BootSim.event_loop H).
Notation apply_act := (BootSim.apply_act ref bytes_of H).
Notation run_acts := (BootSim.run_acts ref bytes_of H).
Notation compile_item := (BootSim.compile_item ref bytes_of H).
Notation compile_step := (BootSim.compile_step ref bytes_of H).
Notation run_step := (BootSim.run_step ref bytes_of H).
Notation run_flow := (BootSim.run_flow ref bytes_of H).
Notation run_boots := (BootSim.run_boots ref bytes_of H).
Notation converted := (BootSim.converted ref bytes_of H).

(** related states: related TPM objects, same MeasuredData *)
Definition RS (g : gsim) (s : sim) : Prop := R (g_tpm g) (s_tpm s) /\ g_meas g = s_meas s.

Lemma gevent_loop_sim algs : forall x t p msg ty evd, R x t ->
  R (fst (gevent_loop x p msg ty evd algs)) (fst (event_loop t p msg ty evd algs)) /\
  snd (gevent_loop x p msg ty evd algs) = snd (event_loop t p msg ty evd algs).
Proof.
  induction algs as [|a rest IH]; intros x t p msg ty evd HR;
    cbn [BootSimGen.gevent_loop BootSim.event_loop].
  - cbn [fst snd]. auto.
  - destruct (R_exec x t (Extend p a (H a msg)) HR) as [HR1 E1].
    destruct (texec x (Extend p a (H a msg))) as [x1 r1].
    destruct (step H t (Extend p a (H a msg))) as [t1 r1'].
    cbn [fst snd] in HR1, E1. subst r1'.
    destruct r1 as [[]|e| |]; try (cbn [fst snd]; auto).
    destruct (R_exec x1 t1 (LogAdd p a (H a msg) ty evd) HR1) as [HR2 E2].
    destruct (texec x1 (LogAdd p a (H a msg) ty evd)) as [x2 r2].
    destruct (step H t1 (LogAdd p a (H a msg) ty evd)) as [t2 r2'].
    cbn [fst snd] in HR2, E2. subst r2'.
    destruct r2 as [[]|e| |]; cbn [fst snd]; auto.
Qed.

Lemma gapply_act_sim g s a : RS g s ->
  RS (fst (gapply_act g a)) (fst (apply_act s a)) /\ snd (gapply_act g a) = snd (apply_act s a).
Proof.
  intros [HR HM]. destruct a as [l|p src ty evd|p src al|p al d ty evd|];
    cbn [BootSimGen.gapply_act BootSim.apply_act].
  - destruct (R_exec (g_tpm g) (s_tpm s) (Startup l) HR) as [HR1 E1].
    destruct (texec (g_tpm g) (Startup l)) as [x1 r1]. destruct (step H (s_tpm s) (Startup l)) as [t1 r1'].
    cbn [fst snd] in *. subst r1'. split; [|reflexivity]. split; [exact HR1|exact HM].
  - destruct src as [d| |]; try (cbn [fst snd]; split; [split; assumption|reflexivity]).
    destruct (converted d) as [msg|e| |]; try (cbn [fst snd]; split; [split; assumption|reflexivity]).
    destruct (gevent_loop_sim supported (g_tpm g) (s_tpm s) p msg ty evd HR) as [HR1 E1].
    destruct (gevent_loop (g_tpm g) p msg ty evd supported) as [x1 r1].
    destruct (event_loop (s_tpm s) p msg ty evd supported) as [t1 r1'].
    cbn [fst snd] in HR1, E1. subst r1'.
    destruct r1 as [[]|e| |]; cbn [fst snd]; (split; [|reflexivity]); split; cbn; try assumption.
    rewrite HM. reflexivity.
  - destruct src as [d| |]; try (cbn [fst snd]; split; [split; assumption|reflexivity]).
    destruct (converted d) as [msg|e| |]; try (cbn [fst snd]; split; [split; assumption|reflexivity]).
    destruct (R_exec (g_tpm g) (s_tpm s) (Extend p al msg) HR) as [HR1 E1].
    destruct (texec (g_tpm g) (Extend p al msg)) as [x1 r1]. destruct (step H (s_tpm s) (Extend p al msg)) as [t1 r1'].
    cbn [fst snd] in HR1, E1. subst r1'.
    destruct r1 as [[]|e| |]; cbn [fst snd]; (split; [|reflexivity]); split; cbn; try assumption.
    rewrite HM. reflexivity.
  - destruct (R_exec (g_tpm g) (s_tpm s) (LogAdd p al d ty evd) HR) as [HR1 E1].
    destruct (texec (g_tpm g) (LogAdd p al d ty evd)) as [x1 r1].
    destruct (step H (s_tpm s) (LogAdd p al d ty evd)) as [t1 r1'].
    cbn [fst snd] in *. subst r1'. split; [|reflexivity]. split; [exact HR1|exact HM].
  - cbn [fst snd]. split; [split; assumption|reflexivity].
Qed.

Lemma grun_acts_sim acts : forall g s, RS g s ->
  RS (fst (grun_acts g acts)) (fst (run_acts s acts)) /\ snd (grun_acts g acts) = snd (run_acts s acts).
Proof.
  induction acts as [|a rest IH]; intros g s HS; cbn [BootSimGen.grun_acts BootSim.run_acts].
  - cbn [fst snd]. auto.
  - destruct (gapply_act_sim g s a HS) as [HS1 E1].
    destruct (gapply_act g a) as [g1 r1]. destruct (apply_act s a) as [s1 r1']. cbn [fst snd] in HS1, E1. subst r1'.
    destruct (IH g1 s1 HS1) as [HS2 E2].
    destruct (grun_acts g1 rest) as [g2 rs]. destruct (run_acts s1 rest) as [s2 rs']. cbn [fst snd] in *. subst rs'.
    auto.
Qed.

Lemma glog_init_eq x t l : R x t -> glog_init x l = BootSim.log_init ref t l.
Proof. intros HR. unfold BootSimGen.glog_init, BootSim.log_init. rewrite (R_algos x t HR). reflexivity. Qed.

Lemma gcompile_item_eq x t it : R x t -> gcompile_item x it = compile_item t it.
Proof.
  intros HR. destruct it; cbn [BootSimGen.gcompile_item BootSim.compile_item];
    rewrite ?(glog_init_eq x t _ HR); reflexivity.
Qed.

Lemma gcompile_step_eq x t its : R x t -> gcompile_step x its = compile_step t its.
Proof.
  intros HR. induction its as [|it r IH]; cbn [BootSimGen.gcompile_step BootSim.compile_step]; [reflexivity|].
  rewrite (gcompile_item_eq x t it HR), IH. reflexivity.
Qed.

Lemma grun_step_sim g s its : RS g s ->
  RS (fst (grun_step g its)) (fst (run_step s its)) /\ snd (grun_step g its) = snd (run_step s its).
Proof.
  intros HS. unfold BootSimGen.grun_step, BootSim.run_step.
  rewrite (gcompile_step_eq (g_tpm g) (s_tpm s) its (proj1 HS)).
  destruct (compile_step (s_tpm s) its); try (cbn [fst snd]; auto).
  apply grun_acts_sim. exact HS.
Qed.

Lemma grun_flow_sim fl : forall g s, RS g s ->
  RS (fst (grun_flow g fl)) (fst (run_flow s fl)) /\ snd (grun_flow g fl) = snd (run_flow s fl).
Proof.
  induction fl as [|st rest IH]; intros g s HS; cbn [BootSimGen.grun_flow BootSim.run_flow].
  - cbn [fst snd]. auto.
  - destruct (grun_step_sim g s st HS) as [HS1 E1].
    destruct (grun_step g st) as [g1 r1]. destruct (run_step s st) as [s1 r1']. cbn [fst snd] in HS1, E1. subst r1'.
    destruct (IH g1 s1 HS1) as [HS2 E2].
    destruct (grun_flow g1 rest) as [g2 rs]. destruct (run_flow s1 rest) as [s2 rs']. cbn [fst snd] in *. subst rs'.
    auto.
Qed.

Lemma grecycle_sim prev t r : R prev t -> R (grecycle prev r) (recycle H t r).
Proof.
  intros HR. destruct r; cbn [BootSimGen.grecycle recycle].
  - exact R_new.
  - apply R_exec. exact HR.
  - apply R_exec. exact HR.
  - apply R_set_algos. apply R_exec. exact HR.
Qed.

(** what can be observed of a boot: the TPM object (through [R]), MeasuredData, the step issues *)
Definition boot_sim (gres : gsim * list (list (outcome unit))) (res : sim * list (list (outcome unit))) : Prop :=
  RS (fst gres) (fst res) /\ snd gres = snd res.

Lemma grun_boots_sim bs : forall prev t, R prev t ->
  Forall2 boot_sim (grun_boots prev bs) (run_boots t bs).
Proof.
  induction bs as [|[r fl] rest IH]; intros prev t HR; cbn [BootSimGen.grun_boots BootSim.run_boots].
  - constructor.
  - assert (HS : RS (mkGSim (grecycle prev r) []) (mkSim (recycle H t r) [])).
    { split; [apply grecycle_sim; exact HR|reflexivity]. }
    destruct (grun_flow_sim fl _ _ HS) as [HS1 E1].
    constructor; [split; assumption|]. apply IH. exact (proj1 HS1).
Qed.

End Simulation.

(** * 2. The buffer-level TPM *)

(** [tpm.SupportedAlgos = SupportedHashAlgos()]: a new slice *)
Definition sset_algos (s : sstate) (al : list Z) : sstate :=
  mkSState (mkBuf (length al) al) (s_pcrs s) (s_cmdlog s) (s_evlog s).

Definition salgos (s : sstate) : list Z := vis (s_algos s).

Section Slices.
Variable ref : Type.
Variable bytes_of : ref -> outcome (list Z).
Variable H : Z -> list Z -> list Z.
Hypothesis H_length : forall a x, length (H a x) = hsize a.
(** spare capacity Go's append allocates: any function *)
Variable grow : nat -> nat.

(** the buffer-level object [x] shows the value [t] and satisfies C02's slice invariant *)
Definition shows (x : sstate) (t : state) : Prop := swf x /\ abs x = t.

Lemma shows_exec x t c : shows x t ->
  shows (fst (sstep H grow x c)) (fst (step H t c)) /\ snd (sstep H grow x c) = snd (step H t c).
Proof.
  intros [Hw <-]. destruct (sstep_refines H grow H_length x c Hw) as (Hw' & Ha & Hr).
  split; [split; assumption|exact Hr].
Qed.

Lemma shows_algos x t : shows x t -> salgos x = algos t.
Proof. intros [_ <-]. reflexivity. Qed.

Lemma shows_new : shows snew fresh.
Proof. split; [apply swf_snew|reflexivity]. Qed.

Lemma shows_set_algos x t al : shows x t -> shows (sset_algos x al) (set_algos t al).
Proof.
  intros [Hw <-]. split.
  - destruct Hw as (A & B & C & D). repeat split; assumption.
  - unfold sset_algos, set_algos, abs. cbn [s_algos s_pcrs s_cmdlog s_evlog algos pcrs cmdlog evlog].
    unfold vis at 1. cbn [blen bmem]. rewrite firstn_all. reflexivity.
Qed.

Notation sboots := (BootSimGen.grun_boots ref bytes_of H sstate (sstep H grow) salgos snew sset_algos).

(** A session on ONE buffer-level TPM object, starting from any reachable state
    [x0] of the object (any life before the session): every boot leaves an object
    that shows exactly the TPM of Model/BootSim.v's boot of the same flow from
    [boot_start], the same MeasuredData and the same step issues. *)
Theorem recycled_object_boots x0 bs :
  swf x0 ->
  Forall2 (fun gres b =>
             let res := BootSim.run_flow ref bytes_of H (boot_start (fst b)) (snd b) in
             abs (g_tpm (fst gres)) = s_tpm (fst res) /\
             g_meas (fst gres) = s_meas (fst res) /\
             snd gres = snd res)
          (sboots x0 bs) bs.
Proof.
  intros Hw.
  pose proof (grun_boots_sim ref bytes_of H sstate (sstep H grow) salgos snew sset_algos shows
                shows_exec shows_algos shows_new shows_set_algos bs x0 (abs x0) (conj Hw eq_refl)) as F.
  rewrite (run_boots_each ref bytes_of H bs (abs x0)) in F.
  remember (sboots x0 bs) as gl eqn:Eg. clear Eg.
  revert gl F. induction bs as [|b rest IH]; intros gl F; cbn [map] in F; inversion F; subst; constructor.
  - match goal with X : boot_sim _ _ _ _ _ |- _ => destruct X as [[[_ A] B] C] end.
    cbv zeta. auto.
  - apply IH. assumption.
Qed.

(** every state the object can be in when a session starts: new, or after any
    commands and resets *)
Lemma reachable_swf h : swf (srun H grow snew h).
Proof. apply (swf_srun H grow H_length). apply swf_snew. Qed.

End Slices.
