(** Proofs about Model/EventLogSess.v (property C12): sessions on one log object. *)
From CSS Require Import Lib.Base Model.EventLog Model.EventLogSess Proofs.EventLog.

Definition omap {A B} (f : A -> B) (o : outcome A) : outcome B :=
  match o with
  | Ok x => Ok (f x)
  | Err c => Err c
  | Panic => Panic
  | OutOfFuel => OutOfFuel
  end.

(** * FilterEvents at pointer level is FilterEvents of the log as it is read *)

Lemma filter_addrs_deref : forall size p a h evs,
  omap (map (deref h)) (filter_addrs size p a h evs) = filter_events size p a (map (deref h) evs).
Proof.
  induction evs as [|ad t IH]; cbn [filter_addrs filter_events map omap].
  - reflexivity.
  - destruct (negb (ev_pcr (deref h ad) =? p)); [exact IH|].
    destruct (ev_digest (deref h ad)) as [d|]; [|exact IH].
    destruct (negb (d_alg d =? a)); [exact IH|].
    destruct (negb (Z.of_nat (length (d_bytes d)) =? size)); [reflexivity|].
    rewrite <- IH. destruct (filter_addrs size p a h t); reflexivity.
Qed.

Lemma filterAddrs_deref : forall s p a,
  omap (map (deref (ls_heap s))) (filterAddrs s p a) = filterEvents (log_of s) p a.
Proof.
  intros s p a. unfold filterAddrs, filterEvents, log_of.
  destruct (hash_size a); [apply filter_addrs_deref|reflexivity].
Qed.

(** the returned pointers are exactly the log's own pointers to the selected events, in log order *)
Lemma filter_addrs_exact : forall size p a h evs ads,
  filter_addrs size p a h evs = Ok ads ->
  ads = filter (fun ad => sel p a (deref h ad)) evs.
Proof.
  induction evs as [|ad t IH]; intros ads E; cbn [filter_addrs] in E; cbn [filter].
  - inversion E. reflexivity.
  - unfold sel at 1.
    destruct (ev_pcr (deref h ad) =? p); cbn [negb andb] in *; [|apply IH; exact E].
    destruct (ev_digest (deref h ad)) as [d|]; [|apply IH; exact E].
    destruct (d_alg d =? a); cbn [negb] in *; [|apply IH; exact E].
    destruct (negb (Z.of_nat (length (d_bytes d)) =? size)); [discriminate|].
    destruct (filter_addrs size p a h t) as [r| | |]; cbn [bind] in E; try discriminate.
    inversion E; subst. f_equal. apply IH. reflexivity.
Qed.

Theorem filterAddrs_spec : forall s p a ads,
  filterAddrs s p a = Ok ads ->
  ads = filter (fun ad => sel p a (deref (ls_heap s) ad)) (ls_evs s) /\
  map (deref (ls_heap s)) ads = selected (log_of s) p a /\
  exists size, hash_size a = Some size /\ Forall (right_length size) (map (deref (ls_heap s)) ads).
Proof.
  intros s p a ads E. split.
  - unfold filterAddrs in E. destruct (hash_size a); [|discriminate].
    eapply filter_addrs_exact. exact E.
  - pose proof (filterAddrs_deref s p a) as D. rewrite E in D. cbn [omap] in D.
    symmetry in D. apply filterEvents_spec in D. exact D.
Qed.

Theorem filterAddrs_total : forall s p a,
  filterAddrs s p a <> Panic /\ filterAddrs s p a <> OutOfFuel.
Proof.
  intros s p a. pose proof (filterAddrs_deref s p a) as D.
  destruct (filterEvents_total (log_of s) p a) as [T1 T2].
  destruct (filterAddrs s p a); cbn [omap] in D; split; try discriminate; intros _.
  - apply T1. symmetry. exact D.
  - apply T2. symmetry. exact D.
Qed.

(** * Calls leave the memory alone; a result is a function of the log at the moment of the call *)

Section WithHash.
Variable H : Z -> list Z -> list Z.

Lemma srun_fst : forall ops s, fst (srun H s ops) = log_after s ops.
Proof.
  induction ops as [|op t IH]; intro s; cbn [srun log_after fold_left].
  - reflexivity.
  - unfold sstep. specialize (IH (edit_step s op)).
    destruct (srun H (edit_step s op) t) as [s2 rs]. exact IH.
Qed.

Lemma edit_step_call : forall s op, is_edit op = false -> edit_step s op = s.
Proof. intros s op E. destruct op; try discriminate; reflexivity. Qed.

Lemma log_after_edits_only : forall ops s, log_after s ops = log_after s (filter is_edit ops).
Proof.
  induction ops as [|op t IH]; intro s; cbn [log_after fold_left filter].
  - reflexivity.
  - destruct (is_edit op) eqn:E.
    + cbn [fold_left]. apply IH.
    + rewrite (edit_step_call s op E). apply IH.
Qed.

Lemma srun_snd_length : forall ops s, length (snd (srun H s ops)) = length ops.
Proof.
  induction ops as [|op t IH]; intro s; cbn [srun].
  - reflexivity.
  - unfold sstep. specialize (IH (edit_step s op)).
    destruct (srun H (edit_step s op) t) as [s2 rs]. cbn [snd length] in *. f_equal. exact IH.
Qed.

Lemma srun_nth : forall pre s op post,
  nth_error (snd (srun H s (pre ++ op :: post))) (length pre) = Some (call_result H (log_after s pre) op).
Proof.
  induction pre as [|x pre IH]; intros s op post; cbn [app srun length log_after fold_left].
  - unfold sstep. destruct (srun H (edit_step s op) post) as [s2 rs]. reflexivity.
  - unfold sstep. specialize (IH (edit_step s x) op post).
    destruct (srun H (edit_step s x) (pre ++ op :: post)) as [s2 rs]. exact IH.
Qed.

(** the k-th result of a session depends only on the owner's edits made before it *)
Theorem session_result_current : forall s pre op post,
  nth_error (snd (srun H s (pre ++ op :: post))) (length pre)
  = Some (call_result H (log_after s (filter is_edit pre)) op).
Proof. intros. rewrite srun_nth, <- log_after_edits_only. reflexivity. Qed.

Theorem session_history_independent : forall s pre pre' op post post',
  filter is_edit pre = filter is_edit pre' ->
  nth_error (snd (srun H s (pre ++ op :: post))) (length pre)
  = nth_error (snd (srun H s (pre' ++ op :: post'))) (length pre').
Proof. intros s pre pre' op post post' E. rewrite !session_result_current, E. reflexivity. Qed.

Theorem session_state_frame : forall s ops,
  fst (srun H s ops) = log_after s (filter is_edit ops).
Proof. intros. rewrite srun_fst. apply log_after_edits_only. Qed.

(** a session made of calls only never changes the object *)
Corollary session_calls_only_frame : forall s ops,
  forallb (fun op => negb (is_edit op)) ops = true -> fst (srun H s ops) = s.
Proof.
  intros s ops E. rewrite session_state_frame.
  replace (filter is_edit ops) with (@nil sop); [reflexivity|].
  induction ops as [|op t IH]; [reflexivity|]. cbn [forallb filter] in *.
  apply andb_prop in E. destruct E as [E1 E2]. destruct (is_edit op); [discriminate|]. apply IH. exact E2.
Qed.

(** the same question twice in a row: the same answer *)
Theorem session_same_call_twice : forall s pre op post,
  is_edit op = false ->
  nth_error (snd (srun H s (pre ++ op :: op :: post))) (S (length pre))
  = nth_error (snd (srun H s (pre ++ op :: op :: post))) (length pre).
Proof.
  intros s pre op post E. rewrite (srun_nth pre s op (op :: post)).
  replace (pre ++ op :: op :: post) with ((pre ++ [op]) ++ op :: post) by (rewrite <- app_assoc; reflexivity).
  replace (S (length pre)) with (length (pre ++ [op])) by (rewrite app_length; cbn; lia).
  rewrite srun_nth. unfold log_after. rewrite fold_left_app. cbn [fold_left].
  rewrite (edit_step_call _ op E). reflexivity.
Qed.

(** Replay in a session: the fold over the log as it is at that moment *)
Theorem session_replay_is_fold : hash_len_ok H -> forall s pre p a post v,
  nth_error (snd (srun H s (pre ++ SReplay p a :: post))) (length pre) = Some (RReplay (Ok v)) ->
  let log := log_of (log_after s (filter is_edit pre)) in
  v = fold_left (fun acc d => H a (acc ++ d)) (meas_digests log p a) (seed log p a).
Proof.
  intros HL s pre p a post v E log. rewrite session_result_current in E. cbn [call_result] in E.
  inversion E as [E1]. apply (replay_is_fold H HL). exact E1.
Qed.

Theorem session_wellformed_accepted : hash_len_ok H -> forall s pre p a post,
  wellformed (log_of (log_after s (filter is_edit pre))) p a ->
  exists v, nth_error (snd (srun H s (pre ++ SReplay p a :: post))) (length pre) = Some (RReplay (Ok v)).
Proof.
  intros HL s pre p a post W. rewrite session_result_current. cbn [call_result].
  destruct (wellformed_accepted H HL _ _ _ W) as [v E]. exists v. rewrite E. reflexivity.
Qed.

Theorem session_filter_exact : forall s pre p a post ads,
  nth_error (snd (srun H s (pre ++ SFilter p a :: post))) (length pre) = Some (RFilter (Ok ads)) ->
  let cur := log_after s (filter is_edit pre) in
  ads = filter (fun ad => sel p a (deref (ls_heap cur) ad)) (ls_evs cur) /\
  map (deref (ls_heap cur)) ads = selected (log_of cur) p a.
Proof.
  intros s pre p a post ads E cur. rewrite session_result_current in E. cbn [call_result] in E.
  inversion E as [E1]. destruct (filterAddrs_spec _ _ _ _ E1) as [A [B _]]. split; assumption.
Qed.

Lemma call_result_no_panic : forall s op, res_no_panic (call_result H s op).
Proof.
  intros s op. destruct op; cbn [call_result res_no_panic]; try exact I.
  - apply replay_total.
  - apply filterAddrs_total.
Qed.

Theorem session_never_panics : forall ops s, Forall res_no_panic (snd (srun H s ops)).
Proof.
  induction ops as [|op t IH]; intro s; cbn [srun].
  - constructor.
  - unfold sstep. specialize (IH (edit_step s op)).
    destruct (srun H (edit_step s op) t) as [s2 rs]. cbn [snd] in *.
    constructor; [apply call_result_no_panic|exact IH].
Qed.

End WithHash.

(** * The remembering log object is excluded by the theorems above (non-vacuity) *)

(** a hash with the right output sizes whose value depends on the whole message *)
Definition sum_hash (a : Z) (m : list Z) : list Z :=
  match hash_size a with
  | Some size => zeros (size - 1) ++ [fold_left (fun acc x => (acc * 3 + x) mod 251) m 7]
  | None => []
  end.

Lemma sum_hash_len_ok : hash_len_ok sum_hash.
Proof.
  intros a size m Hs. unfold sum_hash. rewrite Hs. pose proof (hash_size_ge _ _ Hs).
  rewrite app_length. cbn [length]. unfold zeros. rewrite repeat_length. lia.
Qed.

Definition w_heap : list event :=
  [ mkEv 0 1 [] (Some (mkDg 4 (repeat 17 20)));
    mkEv 0 1 [] (Some (mkDg 4 (repeat 18 20))) ].
Definition w_state : lstate := mkLS w_heap [0%nat; 1%nat].
(** replay, swap the two events in place (same number of events), replay again *)
Definition w_ops : list sop := [SReplay 0 4; SSetEvents [1%nat; 0%nat]; SReplay 0 4].

Theorem memo_session_differs :
  hash_len_ok sum_hash /\
  nth_error (snd (srun sum_hash w_state w_ops)) 2
    = Some (RReplay (replay sum_hash (log_of (log_after w_state (filter is_edit [SReplay 0 4; SSetEvents [1%nat; 0%nat]]))) 0 4)) /\
  nth_error (snd (srun_memo sum_hash ([], w_state) w_ops)) 2
    <> nth_error (snd (srun sum_hash w_state w_ops)) 2 /\
  nth_error (snd (srun_memo sum_hash ([], w_state) w_ops)) 2
    = nth_error (snd (srun_memo sum_hash ([], w_state) w_ops)) 0.
Proof.
  split; [exact sum_hash_len_ok|]. split; [vm_compute; reflexivity|].
  split; [vm_compute; discriminate|vm_compute; reflexivity].
Qed.

(** without edits the remembering object and the code agree: the difference needs the sequence *)
Theorem memo_session_agrees_on_first_call : forall H s p a,
  snd (sstep_memo H ([], s) (SReplay p a)) = snd (sstep H s (SReplay p a)) /\
  snd (sstep_memo H ([], s) (SFilter p a)) = snd (sstep H s (SFilter p a)).
Proof.
  intros H s p a. unfold sstep_memo, sstep, filterAddrs_memo. cbn [call_result memo_find snd].
  unfold replay, filterAddrs. destruct (hash_size a) as [size|] eqn:Hs; [|split; reflexivity].
  pose proof (filter_addrs_deref size p a (ls_heap s) (ls_evs s)) as D. fold (log_of s) in D.
  destruct (filter_addrs size p a (ls_heap s) (ls_evs s)) as [r| | |] eqn:E; cbn [omap] in D; cbn [snd];
    rewrite <- D; split; reflexivity.
Qed.
