(** Proofs about Model/LCP.v for property C17. *)
From CSS Require Import Lib.Base Model.LCP.
From Coq Require Import ZifyBool ZifyNat.

(** * Vocabulary of the statements *)
Definition byte (z : Z) : Prop := 0 <= z < 256.
Definition u16 (z : Z) : Prop := 0 <= z < 65536.
Definition u32 (z : Z) : Prop := 0 <= z < 4294967296.
Definition byteb (z : Z) : bool := (0 <=? z) && (z <? 256).

Lemma byteb_spec z : byteb z = true <-> byte z.
Proof. unfold byteb, byte. lia. Qed.

Lemma forallb_byteb l : forallb byteb l = true <-> Forall byte l.
Proof.
  rewrite forallb_forall, Forall_forall. split; intros H x Hx; apply byteb_spec, H, Hx.
Qed.

(** * Little-endian integers *)
Lemma le_enc_length n : forall v, length (le_enc n v) = n.
Proof. induction n; intros; cbn [le_enc length]; [reflexivity | now rewrite IHn]. Qed.

Lemma le_enc_bytes n : forall v, Forall byte (le_enc n v).
Proof.
  induction n; intros; cbn [le_enc]; constructor; [|apply IHn].
  unfold byte. apply Z.mod_pos_bound. lia.
Qed.

Lemma le_dec_enc n : forall v, 0 <= v < 256 ^ Z.of_nat n -> le_dec (le_enc n v) = v.
Proof.
  induction n; intros v Hv.
  - cbn in *. lia.
  - cbn [le_enc le_dec]. rewrite IHn.
    + pose proof (Z.div_mod v 256). lia.
    + rewrite Nat2Z.inj_succ, Z.pow_succ_r in Hv by lia.
      split; [apply Z.div_pos; lia | apply Z.div_lt_upper_bound; lia].
Qed.

Lemma le_dec_enc1 v : byte v -> le_dec (le_enc 1 v) = v.
Proof. intros. apply le_dec_enc. unfold byte in *. cbn. lia. Qed.
Lemma le_dec_enc2 v : u16 v -> le_dec (le_enc 2 v) = v.
Proof. intros. apply le_dec_enc. unfold u16 in *. cbn. lia. Qed.
Lemma le_dec_enc4 v : u32 v -> le_dec (le_enc 4 v) = v.
Proof. intros. apply le_dec_enc. unfold u32 in *. cbn. lia. Qed.

Lemma le_enc_dec l : Forall byte l -> le_enc (length l) (le_dec l) = l.
Proof.
  induction 1 as [|b t Hb Ht IH]; [reflexivity|].
  cbn [length le_enc le_dec]. unfold byte in Hb.
  replace ((b + 256 * le_dec t) mod 256) with b.
  - replace ((b + 256 * le_dec t) / 256) with (le_dec t); [now rewrite IH|].
    apply Z.div_unique with (r := b); lia.
  - apply Z.mod_unique with (q := le_dec t); lia.
Qed.

Lemma le_enc_dec' n l : length l = n -> Forall byte l -> le_enc n (le_dec l) = l.
Proof. intros <-. apply le_enc_dec. Qed.

Lemma le_dec_range l : Forall byte l -> 0 <= le_dec l < 256 ^ Z.of_nat (length l).
Proof.
  induction 1 as [|b t Hb Ht IH]; [cbn; lia|].
  cbn [length le_dec]. rewrite Nat2Z.inj_succ, Z.pow_succ_r by lia. unfold byte in Hb. lia.
Qed.

(** * [[n]uint16] *)
Lemma enc16s_cons v t : enc16s (v :: t) = [v mod 256; (v / 256) mod 256] ++ enc16s t.
Proof. reflexivity. Qed.

Lemma enc16s_length l : length (enc16s l) = (2 * length l)%nat.
Proof. induction l; [reflexivity|]. rewrite enc16s_cons, app_length, IHl. cbn [length]. lia. Qed.

Lemma dec16s_enc16s l : Forall u16 l -> dec16s (enc16s l) = l.
Proof.
  induction 1 as [|v t Hv Ht IH]; [reflexivity|].
  rewrite enc16s_cons. cbn [app dec16s]. rewrite IH. f_equal.
  unfold u16 in Hv.
  assert (0 <= v / 256 < 256) by (split; [apply Z.div_pos; lia | apply Z.div_lt_upper_bound; lia]).
  rewrite (Z.mod_small (v / 256)) by lia. pose proof (Z.div_mod v 256). lia.
Qed.

Lemma enc16s_dec16s n : forall l, length l = (2 * n)%nat -> Forall byte l ->
  enc16s (dec16s l) = l /\ length (dec16s l) = n.
Proof.
  induction n; intros l Hl Hb.
  - destruct l; [split; reflexivity | discriminate].
  - destruct l as [|a [|b t]]; try (cbn in Hl; lia).
    inversion Hb as [|? ? Ha Hb1]; subst. inversion Hb1 as [|? ? Hb' Ht]; subst.
    cbn [dec16s]. destruct (IHn t) as [E L]; [cbn in Hl; lia | assumption |].
    rewrite enc16s_cons. cbn [app length]. rewrite E, L. split; [|reflexivity].
    unfold byte in *.
    replace ((a + 256 * b) mod 256) with a by (apply Z.mod_unique with (q := b); lia).
    replace ((a + 256 * b) / 256) with b by (apply Z.div_unique with (r := a); lia).
    rewrite Z.mod_small by lia. reflexivity.
Qed.

(** * fixed-size arrays *)
Lemma fix_len_id n l : length l = n -> fix_len n l = l.
Proof.
  intros <-. unfold fix_len. rewrite firstn_app, Nat.sub_diag, firstn_all. cbn. apply app_nil_r.
Qed.

Lemma fix_len_length n l : length (fix_len n l) = n.
Proof.
  unfold fix_len. rewrite firstn_length, app_length, repeat_length. lia.
Qed.

Lemma fix_len_pad n l : (length l <= n)%nat -> fix_len n l = l ++ repeat 0 (n - length l).
Proof.
  intros H. unfold fix_len. rewrite firstn_app, firstn_all2 by lia. f_equal.
  assert (G : forall m j, (j <= m)%nat -> firstn j (repeat 0 m) = repeat 0 j).
  { induction m; intros [|j] Hj; cbn; try reflexivity; try lia. f_equal. apply IHm. lia. }
  apply G. lia.
Qed.

Lemma fix_len_cut n l : (n <= length l)%nat -> fix_len n l = firstn n l.
Proof.
  intros H. unfold fix_len. rewrite firstn_app. replace (n - length l)%nat with 0%nat by lia.
  cbn. apply app_nil_r.
Qed.

(** * [read_n] *)
Lemma firstn_app_exact {A} (a r : list A) n : length a = n -> firstn n (a ++ r) = a.
Proof. intros <-. rewrite firstn_app, Nat.sub_diag, firstn_all. cbn. apply app_nil_r. Qed.
Lemma skipn_app_exact {A} (a r : list A) n : length a = n -> skipn n (a ++ r) = r.
Proof. intros <-. rewrite skipn_app, Nat.sub_diag, skipn_all. reflexivity. Qed.

Lemma read_n_app n a r : length a = n -> n <> 0%nat -> read_n n (a ++ r) = Ok (a, r).
Proof.
  intros Ha Hn. unfold read_n. destruct n as [|n']; [congruence|].
  destruct a as [|x a']; [discriminate|]. cbn [app].
  change (x :: a' ++ r) with ((x :: a') ++ r).
  assert (E : (length ((x :: a') ++ r) <? S n')%nat = false) by (rewrite app_length; lia).
  rewrite E, firstn_app_exact, skipn_app_exact by assumption. reflexivity.
Qed.

Lemma read_n_exact n l : length l = n -> n <> 0%nat -> read_n n l = Ok (l, []).
Proof. intros. rewrite <- (app_nil_r l) at 1. now apply read_n_app. Qed.

Lemma read_n_short n l : l <> [] -> (length l < n)%nat -> read_n n l = Err E_UEOF.
Proof.
  intros Hl Hn. unfold read_n. destruct n; [lia|]. destruct l; [congruence|].
  assert (E : (length (z :: l) <? S n)%nat = true) by lia. now rewrite E.
Qed.

Lemma rd_u_app n a r : length a = n -> n <> 0%nat -> rd_u n (a ++ r) = Ok (le_dec a, r).
Proof. intros. unfold rd_u. rewrite read_n_app by assumption. reflexivity. Qed.

Lemma split_at (n m : nat) (l : list Z) : length l = (n + m)%nat ->
  exists a r, l = a ++ r /\ length a = n /\ length r = m.
Proof.
  intros H. exists (firstn n l), (skipn n l). rewrite firstn_skipn, firstn_length, skipn_length.
  split; [reflexivity | lia].
Qed.
