(** Proofs about Model/LCP.v for property C17. *)
From CSS Require Import Lib.Base Model.LCP.
From Coq Require Import ZifyBool ZifyNat.

(** * Vocabulary of the statements *)
Definition byte (z : Z) : Prop := 0 <= z < 256.
Definition u16 (z : Z) : Prop := 0 <= z < 65536.
Definition u32 (z : Z) : Prop := 0 <= z < 4294967296.
Definition byteb (z : Z) : bool := (0 <=? z) && (z <? 256).

Lemma byteb_spec z : byteb z = true <-> byte z.
Proof. unfold byteb, byte. lia. Qed.

Lemma forallb_byteb l : forallb byteb l = true <-> Forall byte l.
Proof.
  rewrite forallb_forall, Forall_forall. split; intros H x Hx; apply byteb_spec, H, Hx.
Qed.

(** * Little-endian integers *)
Lemma le_enc_length n : forall v, length (le_enc n v) = n.
Proof. induction n; intros; cbn [le_enc length]; [reflexivity | now rewrite IHn]. Qed.

Lemma le_enc_bytes n : forall v, Forall byte (le_enc n v).
Proof.
  induction n; intros; cbn [le_enc]; constructor; [|apply IHn].
  unfold byte. apply Z.mod_pos_bound. lia.
Qed.

Lemma le_dec_enc n : forall v, 0 <= v < 256 ^ Z.of_nat n -> le_dec (le_enc n v) = v.
Proof.
  induction n; intros v Hv.
  - cbn in *. lia.
  - cbn [le_enc le_dec]. rewrite IHn.
    + pose proof (Z.div_mod v 256). lia.
    + rewrite Nat2Z.inj_succ, Z.pow_succ_r in Hv by lia.
      split; [apply Z.div_pos; lia | apply Z.div_lt_upper_bound; lia].
Qed.

Lemma le_dec_enc1 v : byte v -> le_dec (le_enc 1 v) = v.
Proof. intros. apply le_dec_enc. unfold byte in *. cbn. lia. Qed.
Lemma le_dec_enc2 v : u16 v -> le_dec (le_enc 2 v) = v.
Proof. intros. apply le_dec_enc. unfold u16 in *. cbn. lia. Qed.
Lemma le_dec_enc4 v : u32 v -> le_dec (le_enc 4 v) = v.
Proof. intros. apply le_dec_enc. unfold u32 in *. cbn. lia. Qed.

Lemma le_enc_dec l : Forall byte l -> le_enc (length l) (le_dec l) = l.
Proof.
  induction 1 as [|b t Hb Ht IH]; [reflexivity|].
  cbn [length le_enc le_dec]. unfold byte in Hb.
  replace ((b + 256 * le_dec t) mod 256) with b.
  - replace ((b + 256 * le_dec t) / 256) with (le_dec t); [now rewrite IH|].
    apply Z.div_unique with (r := b); lia.
  - apply Z.mod_unique with (q := le_dec t); lia.
Qed.

Lemma le_enc_dec' n l : length l = n -> Forall byte l -> le_enc n (le_dec l) = l.
Proof. intros <-. apply le_enc_dec. Qed.

Lemma le_dec_range l : Forall byte l -> 0 <= le_dec l < 256 ^ Z.of_nat (length l).
Proof.
  induction 1 as [|b t Hb Ht IH]; [cbn; lia|].
  cbn [length le_dec]. rewrite Nat2Z.inj_succ, Z.pow_succ_r by lia. unfold byte in Hb. lia.
Qed.

(** * [[n]uint16] *)
Lemma enc16s_cons v t : enc16s (v :: t) = [v mod 256; (v / 256) mod 256] ++ enc16s t.
Proof. reflexivity. Qed.

Lemma enc16s_length l : length (enc16s l) = (2 * length l)%nat.
Proof. induction l; [reflexivity|]. rewrite enc16s_cons, app_length, IHl. cbn [length]. lia. Qed.

Lemma dec16s_enc16s l : Forall u16 l -> dec16s (enc16s l) = l.
Proof.
  induction 1 as [|v t Hv Ht IH]; [reflexivity|].
  rewrite enc16s_cons. cbn [app dec16s]. rewrite IH. f_equal.
  unfold u16 in Hv.
  assert (0 <= v / 256 < 256) by (split; [apply Z.div_pos; lia | apply Z.div_lt_upper_bound; lia]).
  rewrite (Z.mod_small (v / 256)) by lia. pose proof (Z.div_mod v 256). lia.
Qed.

Lemma enc16s_dec16s n : forall l, length l = (2 * n)%nat -> Forall byte l ->
  enc16s (dec16s l) = l /\ length (dec16s l) = n.
Proof.
  induction n; intros l Hl Hb.
  - destruct l; [split; reflexivity | discriminate].
  - destruct l as [|a [|b t]]; try (cbn in Hl; lia).
    inversion Hb as [|? ? Ha Hb1]; subst. inversion Hb1 as [|? ? Hb' Ht]; subst.
    cbn [dec16s]. destruct (IHn t) as [E L]; [cbn in Hl; lia | assumption |].
    rewrite enc16s_cons. cbn [app length]. rewrite E, L. split; [|reflexivity].
    unfold byte in *.
    replace ((a + 256 * b) mod 256) with a by (apply Z.mod_unique with (q := b); lia).
    replace ((a + 256 * b) / 256) with b by (apply Z.div_unique with (r := a); lia).
    rewrite Z.mod_small by lia. reflexivity.
Qed.

(** * fixed-size arrays *)
Lemma fix_len_id n l : length l = n -> fix_len n l = l.
Proof.
  intros <-. unfold fix_len. rewrite firstn_app, Nat.sub_diag, firstn_all. cbn. apply app_nil_r.
Qed.

Lemma fix_len_length n l : length (fix_len n l) = n.
Proof.
  unfold fix_len. rewrite firstn_length, app_length, repeat_length. lia.
Qed.

Lemma fix_len_pad n l : (length l <= n)%nat -> fix_len n l = l ++ repeat 0 (n - length l).
Proof.
  intros H. unfold fix_len. rewrite firstn_app, firstn_all2 by lia. f_equal.
  assert (G : forall m j, (j <= m)%nat -> firstn j (repeat 0 m) = repeat 0 j).
  { induction m; intros [|j] Hj; cbn; try reflexivity; try lia. f_equal. apply IHm. lia. }
  apply G. lia.
Qed.

Lemma fix_len_cut n l : (n <= length l)%nat -> fix_len n l = firstn n l.
Proof.
  intros H. unfold fix_len. rewrite firstn_app. replace (n - length l)%nat with 0%nat by lia.
  cbn. apply app_nil_r.
Qed.

(** * [read_n] *)
Lemma firstn_app_exact {A} (a r : list A) n : length a = n -> firstn n (a ++ r) = a.
Proof. intros <-. rewrite firstn_app, Nat.sub_diag, firstn_all. cbn. apply app_nil_r. Qed.
Lemma skipn_app_exact {A} (a r : list A) n : length a = n -> skipn n (a ++ r) = r.
Proof. intros <-. rewrite skipn_app, Nat.sub_diag, skipn_all. reflexivity. Qed.

Lemma read_n_app n a r : length a = n -> n <> 0%nat -> read_n n (a ++ r) = Ok (a, r).
Proof.
  intros Ha Hn. unfold read_n. destruct n as [|n']; [congruence|].
  destruct a as [|x a']; [discriminate|]. cbn [app].
  change (x :: a' ++ r) with ((x :: a') ++ r).
  assert (E : (length ((x :: a') ++ r) <? S n')%nat = false) by (rewrite app_length; lia).
  rewrite E, firstn_app_exact, skipn_app_exact by assumption. reflexivity.
Qed.

Lemma read_n_exact n l : length l = n -> n <> 0%nat -> read_n n l = Ok (l, []).
Proof. intros. rewrite <- (app_nil_r l) at 1. now apply read_n_app. Qed.

Lemma read_n_short n l : l <> [] -> (length l < n)%nat -> read_n n l = Err E_UEOF.
Proof.
  intros Hl Hn. unfold read_n. destruct n; [lia|]. destruct l; [congruence|].
  assert (E : (length (z :: l) <? S n)%nat = true) by lia. now rewrite E.
Qed.

Lemma rd_u_app n a r : length a = n -> n <> 0%nat -> rd_u n (a ++ r) = Ok (le_dec a, r).
Proof. intros. unfold rd_u. rewrite read_n_app by assumption. reflexivity. Qed.

Lemma split_at (n m : nat) (l : list Z) : length l = (n + m)%nat ->
  exists a r, l = a ++ r /\ length a = n /\ length r = m.
Proof.
  intros H. exists (firstn n l), (skipn n l). rewrite firstn_skipn, firstn_length, skipn_length.
  split; [reflexivity | lia].
Qed.

(** * The two parsers on inputs cut into fields *)
Lemma hash_size_pos sha3 alg sz : hash_size sha3 alg = Some sz -> sz <> 0%nat.
Proof.
  unfold hash_size. repeat (destruct (_ =? _)); try destruct sha3; intros E; inversion E; lia.
Qed.

(** the hash-dependent tail of parsePolicy2 *)
Definition finish2 (sha3 : bool) (ver alg pt sinit : Z) (drc : list Z) (pc ms res hm sm r2 : Z) (l : list Z) : outcome policy2 :=
  match hash_size sha3 alg with
  | None => Err E_HASHALG
  | Some sz =>
      let mk h := Ok (MkP2 ver alg pt sinit drc pc ms res hm sm r2 (fix_len 32 h)) in
      match read_n sz l with
      | Ok (h, _) => mk h
      | Err c => if c =? E_EOF then mk (repeat 0 sz) else Err c
      | Panic => Panic
      | OutOfFuel => OutOfFuel
      end
  end.

Lemma parse2_header sha3 a1 a2 a3 a4 a5 a6 a7 a8 a9 a10 a11 tail :
  length a1 = 2%nat -> length a2 = 2%nat -> length a3 = 1%nat -> length a4 = 1%nat ->
  length a5 = 16%nat -> length a6 = 4%nat -> length a7 = 1%nat -> length a8 = 1%nat ->
  length a9 = 2%nat -> length a10 = 4%nat -> length a11 = 4%nat ->
  parse2 sha3 (a1 ++ a2 ++ a3 ++ a4 ++ a5 ++ a6 ++ a7 ++ a8 ++ a9 ++ a10 ++ a11 ++ tail) =
  finish2 sha3 (le_dec a1) (le_dec a2) (le_dec a3) (le_dec a4) (dec16s a5) (le_dec a6) (le_dec a7)
          (le_dec a8) (le_dec a9) (le_dec a10) (le_dec a11) tail.
Proof.
  intros. unfold parse2.
  repeat (first [rewrite rd_u_app by (assumption || discriminate) | rewrite read_n_app by (assumption || discriminate)]; cbn [bind]).
  reflexivity.
Qed.

Lemma parse1_app a1 a2 a3 a4 a5 a6 a7 a8 a9 a10 a11 h rest :
  length a1 = 2%nat -> length a2 = 1%nat -> length a3 = 1%nat -> length a4 = 1%nat ->
  length a5 = 1%nat -> length a6 = 16%nat -> length a7 = 4%nat -> length a8 = 1%nat ->
  length a9 = 1%nat -> length a10 = 2%nat -> length a11 = 4%nat -> length h = 20%nat ->
  parse1 (a1 ++ a2 ++ a3 ++ a4 ++ a5 ++ a6 ++ a7 ++ a8 ++ a9 ++ a10 ++ a11 ++ h ++ rest) =
  Ok (MkP1 (le_dec a1) (le_dec a2) (le_dec a3) (le_dec a4) (le_dec a5) (dec16s a6) (le_dec a7)
           (le_dec a8) (le_dec a9) (le_dec a10) (le_dec a11) h).
Proof.
  intros. unfold parse1.
  repeat (first [rewrite rd_u_app by (assumption || discriminate) | rewrite read_n_app by (assumption || discriminate)]; cbn [bind]).
  reflexivity.
Qed.

Lemma finish2_full sha3 ver alg pt sinit drc pc ms res hm sm r2 h rest sz :
  hash_size sha3 alg = Some sz -> length h = sz ->
  finish2 sha3 ver alg pt sinit drc pc ms res hm sm r2 (h ++ rest) =
  Ok (MkP2 ver alg pt sinit drc pc ms res hm sm r2 (fix_len 32 h)).
Proof.
  intros Hs Hl. unfold finish2. rewrite Hs.
  rewrite read_n_app by (assumption || eapply hash_size_pos; eassumption). reflexivity.
Qed.

Lemma finish2_short sha3 ver alg pt sinit drc pc ms res hm sm r2 l sz :
  hash_size sha3 alg = Some sz -> l <> [] -> (length l < sz)%nat ->
  finish2 sha3 ver alg pt sinit drc pc ms res hm sm r2 l = Err E_UEOF.
Proof.
  intros Hs Hl Hn. unfold finish2. rewrite Hs, read_n_short by assumption. reflexivity.
Qed.

(** [ParsePolicy] dispatch on inputs that start with a 2-byte version *)
Lemma parse_dispatch sha3 a1 r : length a1 = 2%nat ->
  parse sha3 (a1 ++ r) =
    if le_dec a1 <=? LCPPolicyVersion2 then bind (parse1 (a1 ++ r)) (fun p => Ok (inl p))
    else if le_dec a1 >=? LCPPolicyVersion3 then bind (parse2 sha3 (a1 ++ r)) (fun p => Ok (inr p))
    else Err E_CANTPARSE.
Proof. intros. unfold parse. rewrite rd_u_app by (assumption || discriminate). reflexivity. Qed.

(** * Well-formedness *)
(** of a policy struct (the Go types guarantee the ranges; the last clauses are the content) *)
Definition wf_policy1 (p : policy1) : Prop :=
  u16 (p1_version p) /\ byte (p1_hashalg p) /\ byte (p1_ptype p) /\ byte (p1_sinit p) /\
  byte (p1_reserved p) /\ Forall u16 (p1_drc p) /\ length (p1_drc p) = 8%nat /\ u32 (p1_pc p) /\
  byte (p1_maxsinit p) /\ byte (p1_res1 p) /\ u16 (p1_res2 p) /\ u32 (p1_res3 p) /\
  Forall byte (p1_hash p) /\ length (p1_hash p) = 20%nat /\
  p1_version p <= LCPPolicyVersion2.

Definition in_range2 (p : policy2) : Prop :=
  u16 (p2_version p) /\ u16 (p2_hashalg p) /\ byte (p2_ptype p) /\ byte (p2_sinit p) /\
  Forall u16 (p2_drc p) /\ length (p2_drc p) = 8%nat /\ u32 (p2_pc p) /\ byte (p2_maxsinit p) /\
  byte (p2_reserved p) /\ u16 (p2_hmask p) /\ u32 (p2_smask p) /\ u32 (p2_res2 p) /\
  Forall byte (p2_hash p) /\ length (p2_hash p) = 32%nat.

(* digest length by TPM_ALG_ID for the algorithms the tool offers *)
Definition digest_len (alg : Z) : option nat :=
  if alg =? AlgSHA1 then Some 20%nat else if alg =? AlgSHA256 then Some 32%nat
  else if alg =? AlgSHA384 then Some 48%nat else None.

(* a v3 policy whose digest fits the PolicyHash field: SHA1 (zero padded) or SHA256 *)
Definition wf_policy2 (p : policy2) : Prop :=
  in_range2 p /\ LCPPolicyVersion3 <= p2_version p /\
  (p2_hashalg p = AlgSHA256 \/ (p2_hashalg p = AlgSHA1 /\ skipn 20 (p2_hash p) = repeat 0 12)).

(* a v3 policy that names SHA384 (the struct can only hold 32 of the 48 digest bytes) *)
Definition wf_policy2_sha384 (p : policy2) : Prop :=
  in_range2 p /\ LCPPolicyVersion3 <= p2_version p /\ p2_hashalg p = AlgSHA384.

(** of a serialized policy, as a boolean *)
Definition ver_of (b : list Z) : Z := le_dec (firstn 2 b).
Definition alg_of (b : list Z) : Z := le_dec (firstn 2 (skipn 2 b)).
Definition wf_bytes_v2 (b : list Z) : bool :=
  forallb byteb b && (length b =? 54)%nat && (ver_of b <=? LCPPolicyVersion2).
Definition wf_bytes_v3 (b : list Z) : bool :=
  forallb byteb b && (length b =? 70)%nat && (LCPPolicyVersion3 <=? ver_of b) &&
  ((alg_of b =? AlgSHA256) || ((alg_of b =? AlgSHA1) && forallb (Z.eqb 0) (skipn 58 b))).
Definition wf_bytes_v3_sha384 (b : list Z) : bool :=
  forallb byteb b && (length b =? 70)%nat && (LCPPolicyVersion3 <=? ver_of b) && (alg_of b =? AlgSHA384).

(** * parse (encode p) = p *)
Lemma parse_encode1 sha3 p : wf_policy1 p -> parse sha3 (encode1 p) = Ok (inl p).
Proof.
  destruct p as [ver alg pt si res drc pc ms r1 r2 r3 h].
  unfold wf_policy1; cbn [p1_version p1_hashalg p1_ptype p1_sinit p1_reserved p1_drc p1_pc p1_maxsinit p1_res1 p1_res2 p1_res3 p1_hash].
  intros (Hver & Halg & Hpt & Hsi & Hres & Hdrc & Ldrc & Hpc & Hms & Hr1 & Hr2 & Hr3 & Hh & Lh & Hv).
  unfold encode1; cbn [p1_version p1_hashalg p1_ptype p1_sinit p1_reserved p1_drc p1_pc p1_maxsinit p1_res1 p1_res2 p1_res3 p1_hash].
  rewrite (fix_len_id 8 drc), (fix_len_id 20 h) by assumption.
  rewrite parse_dispatch by apply le_enc_length.
  rewrite le_dec_enc2 by assumption.
  destruct (ver <=? LCPPolicyVersion2) eqn:E; [|lia].
  rewrite <- (app_nil_r h) at 1.
  rewrite (parse1_app _ _ _ _ _ _ _ _ _ _ _ h []); try apply le_enc_length; try assumption; try reflexivity;
    [| rewrite enc16s_length; lia].
  cbn [bind].
  rewrite !le_dec_enc1, !le_dec_enc2, !le_dec_enc4, dec16s_enc16s by assumption.
  reflexivity.
Qed.

Ltac p2_fields := cbn [p2_version p2_hashalg p2_ptype p2_sinit p2_drc p2_pc p2_maxsinit p2_reserved p2_hmask p2_smask p2_res2 p2_hash].

(* parse of encode2 p, up to the hash-dependent tail *)
Lemma parse_encode2_header sha3 p : in_range2 p -> LCPPolicyVersion3 <= p2_version p ->
  parse sha3 (encode2 p) =
  bind (finish2 sha3 (p2_version p) (p2_hashalg p) (p2_ptype p) (p2_sinit p) (p2_drc p) (p2_pc p)
          (p2_maxsinit p) (p2_reserved p) (p2_hmask p) (p2_smask p) (p2_res2 p) (p2_hash p))
       (fun q => Ok (inr q)).
Proof.
  destruct p as [ver alg pt si drc pc ms res hm sm r2 h].
  unfold in_range2; p2_fields.
  intros (Hver & Halg & Hpt & Hsi & Hdrc & Ldrc & Hpc & Hms & Hres & Hhm & Hsm & Hr2 & Hh & Lh) Hv.
  unfold encode2; p2_fields.
  rewrite (fix_len_id 8 drc), (fix_len_id 32 h) by assumption.
  rewrite parse_dispatch by apply le_enc_length.
  rewrite le_dec_enc2 by assumption.
  destruct (ver <=? LCPPolicyVersion2) eqn:E; [unfold LCPPolicyVersion2, LCPPolicyVersion3 in *; lia|].
  destruct (ver >=? LCPPolicyVersion3) eqn:E3; [|lia].
  rewrite parse2_header; try apply le_enc_length; [| rewrite enc16s_length; lia].
  rewrite !le_dec_enc1, !le_dec_enc2, !le_dec_enc4, dec16s_enc16s by assumption.
  reflexivity.
Qed.

Lemma finish2_fits sha3 ver alg pt si drc pc ms res hm sm r2 h : length h = 32%nat ->
  (alg = AlgSHA256 \/ (alg = AlgSHA1 /\ skipn 20 h = repeat 0 12)) ->
  finish2 sha3 ver alg pt si drc pc ms res hm sm r2 h = Ok (MkP2 ver alg pt si drc pc ms res hm sm r2 h).
Proof.
  intros Lh [-> | [-> Htail]].
  - rewrite <- (app_nil_r h) at 1.
    rewrite (finish2_full sha3 _ _ _ _ _ _ _ _ _ _ _ h [] 32); [| reflexivity | assumption].
    rewrite fix_len_id by assumption. reflexivity.
  - rewrite <- (firstn_skipn 20 h) at 1.
    rewrite (finish2_full sha3 _ _ _ _ _ _ _ _ _ _ _ (firstn 20 h) (skipn 20 h) 20);
      [| reflexivity | rewrite firstn_length; lia].
    rewrite fix_len_pad by (rewrite firstn_length; lia).
    rewrite firstn_length. replace (32 - Nat.min 20 (length h))%nat with 12%nat by lia.
    rewrite <- Htail, firstn_skipn. reflexivity.
Qed.

Lemma parse_encode2 sha3 p : wf_policy2 p -> parse sha3 (encode2 p) = Ok (inr p).
Proof.
  intros (Hr & Hv & Halg). rewrite parse_encode2_header by assumption.
  destruct p as [ver alg pt si drc pc ms res hm sm r2 h].
  pose proof Hr as Hr'. unfold in_range2 in Hr'; revert Hr' Halg; p2_fields.
  intros (_ & _ & _ & _ & _ & _ & _ & _ & _ & _ & _ & _ & Hh & Lh) Halg.
  rewrite finish2_fits by assumption. reflexivity.
Qed.

(* the serialisation of ANY in-range v3 policy naming SHA384 is rejected by the parser *)
Lemma parse_encode2_sha384 sha3 p : wf_policy2_sha384 p -> parse sha3 (encode2 p) = Err E_UEOF.
Proof.
  intros (Hr & Hv & Halg). rewrite parse_encode2_header by assumption.
  destruct Hr as (_ & _ & _ & _ & _ & _ & _ & _ & _ & _ & _ & _ & Hh & Lh).
  rewrite (finish2_short sha3 _ _ _ _ _ _ _ _ _ _ _ _ 48); [reflexivity | now rewrite Halg | | lia].
  intros E. rewrite E in Lh. discriminate.
Qed.

Lemma dec16s_u16 l : Forall byte l -> Forall u16 (dec16s l).
Proof.
  assert (G : forall n l, (length l <= n)%nat -> Forall byte l -> Forall u16 (dec16s l)).
  { induction n; intros [|a [|b t]] Hl Hb; cbn [dec16s]; try constructor; try (cbn in Hl; lia).
    - inversion Hb as [|? ? Ha Hb1]; subst. inversion Hb1 as [|? ? Hb' Ht]; subst.
      unfold u16, byte in *. lia.
    - inversion Hb as [|? ? Ha Hb1]; subst. inversion Hb1 as [|? ? Hb' Ht]; subst.
      apply IHn; [cbn in Hl; lia | assumption]. }
  apply (G (length l)). lia.
Qed.

Lemma skipn_app_add {A} (a r : list A) n m : length a = n -> skipn (n + m) (a ++ r) = skipn m r.
Proof.
  intros <-. rewrite skipn_app, (skipn_all2 a) by lia. cbn [app]. f_equal. lia.
Qed.

Lemma forallb_zero_repeat l : forallb (Z.eqb 0) l = true -> l = repeat 0 (length l).
Proof.
  induction l as [|x t IH]; [reflexivity|]. cbn [forallb length repeat]. intros H.
  apply andb_prop in H. destruct H as [Hx Ht]. rewrite <- IH by assumption. f_equal. lia.
Qed.

(** * encode (parse b) = b *)
Ltac split_off n m l a r :=
  let H := fresh "S" in
  destruct (split_at n m l) as (a & r & H & ? & ?); [assumption || lia | subst l].

Ltac forall_apps H :=
  repeat match type of H with
         | Forall _ (_ ++ _) => let H1 := fresh "B" in apply Forall_app in H; destruct H as [H1 H]
         end.

Lemma encode_parse_v2 sha3 b : wf_bytes_v2 b = true ->
  exists p, parse sha3 b = Ok (inl p) /\ encode1 p = b /\ wf_policy1 p.
Proof.
  unfold wf_bytes_v2. intros H.
  apply andb_prop in H; destruct H as [H Hv]. apply andb_prop in H; destruct H as [Hb Hl].
  apply forallb_byteb in Hb. apply Nat.eqb_eq in Hl.
  split_off 2%nat 52%nat b a1 r1. split_off 1%nat 51%nat r1 a2 r2. split_off 1%nat 50%nat r2 a3 r3.
  split_off 1%nat 49%nat r3 a4 r4. split_off 1%nat 48%nat r4 a5 r5. split_off 16%nat 32%nat r5 a6 r6.
  split_off 4%nat 28%nat r6 a7 r7. split_off 1%nat 27%nat r7 a8 r8. split_off 1%nat 26%nat r8 a9 r9.
  split_off 2%nat 24%nat r9 a10 r10. split_off 4%nat 20%nat r10 a11 h.
  unfold ver_of in Hv. rewrite firstn_app_exact in Hv by assumption.
  forall_apps Hb.
  eexists. rewrite parse_dispatch by assumption. rewrite Hv.
  rewrite <- (app_nil_r h) at 1.
  rewrite (parse1_app a1 a2 a3 a4 a5 a6 a7 a8 a9 a10 a11 h []) by assumption.
  cbn [bind]. split; [reflexivity|].
  destruct (enc16s_dec16s 8 a6) as [E6 L6]; [assumption | assumption |].
  split.
  - unfold encode1; cbn [p1_version p1_hashalg p1_ptype p1_sinit p1_reserved p1_drc p1_pc p1_maxsinit p1_res1 p1_res2 p1_res3 p1_hash].
    rewrite (fix_len_id 8), (fix_len_id 20 h), E6 by assumption.
    rewrite !le_enc_dec' by assumption. reflexivity.
  - unfold wf_policy1; cbn [p1_version p1_hashalg p1_ptype p1_sinit p1_reserved p1_drc p1_pc p1_maxsinit p1_res1 p1_res2 p1_res3 p1_hash].
    repeat match goal with
    | B : Forall byte ?a, L : length ?a = _ |- context [le_dec ?a] =>
        let R := fresh "R" in pose proof (le_dec_range a B) as R; rewrite L in R; revert B
    end. intros.
    change (256 ^ Z.of_nat 1) with 256 in *. change (256 ^ Z.of_nat 2) with 65536 in *.
    change (256 ^ Z.of_nat 4) with 4294967296 in *.
    unfold u16, u32, byte. repeat split; try lia; try assumption.
    apply dec16s_u16; assumption.
Qed.

Lemma encode_parse_v3 sha3 b : wf_bytes_v3 b = true ->
  exists p, parse sha3 b = Ok (inr p) /\ encode2 p = b /\ wf_policy2 p.
Proof.
  unfold wf_bytes_v3. intros H.
  apply andb_prop in H; destruct H as [H Ha]. apply andb_prop in H; destruct H as [H Hv].
  apply andb_prop in H; destruct H as [Hb Hl].
  apply forallb_byteb in Hb. apply Nat.eqb_eq in Hl.
  split_off 2%nat 68%nat b a1 r1. split_off 2%nat 66%nat r1 a2 r2. split_off 1%nat 65%nat r2 a3 r3.
  split_off 1%nat 64%nat r3 a4 r4. split_off 16%nat 48%nat r4 a5 r5. split_off 4%nat 44%nat r5 a6 r6.
  split_off 1%nat 43%nat r6 a7 r7. split_off 1%nat 42%nat r7 a8 r8. split_off 2%nat 40%nat r8 a9 r9.
  split_off 4%nat 36%nat r9 a10 r10. split_off 4%nat 32%nat r10 a11 h.
  unfold ver_of in Hv. rewrite firstn_app_exact in Hv by assumption.
  unfold alg_of in Ha. rewrite skipn_app_exact, firstn_app_exact in Ha by assumption.
  change 58%nat with (2 + (2 + (1 + (1 + (16 + (4 + (1 + (1 + (2 + (4 + (4 + 20)))))))))))%nat in Ha.
  rewrite !skipn_app_add in Ha by assumption.
  assert (Halg : le_dec a2 = AlgSHA256 \/ (le_dec a2 = AlgSHA1 /\ skipn 20 h = repeat 0 12)).
  { apply orb_prop in Ha. destruct Ha as [Ha | Ha]; [left; lia | right].
    apply andb_prop in Ha. destruct Ha as [Ha Hz]. split; [lia|].
    rewrite (forallb_zero_repeat _ Hz), skipn_length. replace (length h - 20)%nat with 12%nat by lia. reflexivity. }
  forall_apps Hb.
  eexists. rewrite parse_dispatch by assumption.
  destruct (le_dec a1 <=? LCPPolicyVersion2) eqn:E; [unfold LCPPolicyVersion2, LCPPolicyVersion3 in *; lia|].
  destruct (le_dec a1 >=? LCPPolicyVersion3) eqn:E3; [|lia].
  rewrite parse2_header by assumption. rewrite finish2_fits by assumption.
  cbn [bind]. split; [reflexivity|].
  destruct (enc16s_dec16s 8 a5) as [E5 L5]; [assumption | assumption |].
  split.
  - unfold encode2; p2_fields.
    rewrite (fix_len_id 8), (fix_len_id 32 h), E5 by assumption.
    rewrite !le_enc_dec' by assumption. reflexivity.
  - unfold wf_policy2, in_range2; p2_fields.
    repeat match goal with
    | B : Forall byte ?a, L : length ?a = _ |- context [le_dec ?a] =>
        let R := fresh "R" in pose proof (le_dec_range a B) as R; rewrite L in R; revert B
    end. intros.
    change (256 ^ Z.of_nat 1) with 256 in *. change (256 ^ Z.of_nat 2) with 65536 in *.
    change (256 ^ Z.of_nat 4) with 4294967296 in *.
    unfold u16, u32, byte. repeat split; try lia; try assumption.
    apply dec16s_u16; assumption.
Qed.

(* every 70-byte policy that names SHA384 is rejected *)
Lemma parse_v3_sha384 sha3 b : wf_bytes_v3_sha384 b = true -> parse sha3 b = Err E_UEOF.
Proof.
  unfold wf_bytes_v3_sha384. intros H.
  apply andb_prop in H; destruct H as [H Ha]. apply andb_prop in H; destruct H as [H Hv].
  apply andb_prop in H; destruct H as [Hb Hl]. apply Nat.eqb_eq in Hl.
  split_off 2%nat 68%nat b a1 r1. split_off 2%nat 66%nat r1 a2 r2. split_off 1%nat 65%nat r2 a3 r3.
  split_off 1%nat 64%nat r3 a4 r4. split_off 16%nat 48%nat r4 a5 r5. split_off 4%nat 44%nat r5 a6 r6.
  split_off 1%nat 43%nat r6 a7 r7. split_off 1%nat 42%nat r7 a8 r8. split_off 2%nat 40%nat r8 a9 r9.
  split_off 4%nat 36%nat r9 a10 r10. split_off 4%nat 32%nat r10 a11 h.
  unfold ver_of in Hv. rewrite firstn_app_exact in Hv by assumption.
  unfold alg_of in Ha. rewrite skipn_app_exact, firstn_app_exact in Ha by assumption.
  rewrite parse_dispatch by assumption.
  destruct (le_dec a1 <=? LCPPolicyVersion2) eqn:E; [unfold LCPPolicyVersion2, LCPPolicyVersion3 in *; lia|].
  destruct (le_dec a1 >=? LCPPolicyVersion3) eqn:E3; [|lia].
  rewrite parse2_header by assumption.
  rewrite (finish2_short sha3 _ _ _ _ _ _ _ _ _ _ _ _ 48); [reflexivity | | | lia].
  - replace (le_dec a2) with AlgSHA384 by lia. reflexivity.
  - intros ->. discriminate.
Qed.

(** * flag words *)
Lemma flags_pc pc : parse_pc (decon_pc pc) = pc.
Proof. destruct pc as [[] [] [] []]; reflexivity. Qed.
Lemma flags_ah a : parse_ah (decon_ah a) = a.
Proof. destruct a as [[] [] [] []]; reflexivity. Qed.
Lemma flags_as a : parse_as (decon_as a) = a.
Proof. destruct a as [[] [] [] [] [] [] []]; reflexivity. Qed.

Lemma decon_pc_range pc : u32 (decon_pc pc).
Proof. destruct pc as [[] [] [] []]; vm_compute; split; congruence. Qed.
Lemma decon_ah_range a : u16 (decon_ah a).
Proof. destruct a as [[] [] [] []]; vm_compute; split; congruence. Qed.
Lemma decon_as_range a : u32 (decon_as a).
Proof. destruct a as [[] [] [] [] [] [] []]; vm_compute; split; congruence. Qed.

(* the words contain the SDG bits and nothing else *)
Definition PC_MASK : Z := 2147483655.  (* 0x80000007 *)
Definition AH_MASK : Z := 105.         (* 0x0069 *)
Definition AS_MASK : Z := 78028.       (* 0x000130CC *)
Lemma decon_pc_mask pc : Z.land (decon_pc pc) PC_MASK = decon_pc pc.
Proof. destruct pc as [[] [] [] []]; reflexivity. Qed.
Lemma decon_ah_mask a : Z.land (decon_ah a) AH_MASK = decon_ah a.
Proof. destruct a as [[] [] [] []]; reflexivity. Qed.
Lemma decon_as_mask a : Z.land (decon_as a) AS_MASK = decon_as a.
Proof. destruct a as [[] [] [] [] [] [] []]; reflexivity. Qed.

Lemma flags_inverse (pc : pctrl) (ah : ahash) (sg : asig) :
  parse_pc (decon_pc pc) = pc /\ parse_ah (decon_ah ah) = ah /\ parse_as (decon_as sg) = sg.
Proof. split; [apply flags_pc | split; [apply flags_ah | apply flags_as]]. Qed.

Lemma flags_words_defined_bits (pc : pctrl) (ah : ahash) (sg : asig) :
  (u32 (decon_pc pc) /\ Z.land (decon_pc pc) PC_MASK = decon_pc pc) /\
  (u16 (decon_ah ah) /\ Z.land (decon_ah ah) AH_MASK = decon_ah ah) /\
  (u32 (decon_as sg) /\ Z.land (decon_as sg) AS_MASK = decon_as sg).
Proof.
  repeat split;
    first [apply decon_pc_range | apply decon_ah_range | apply decon_as_range
          | apply decon_pc_mask | apply decon_ah_mask | apply decon_as_mask].
Qed.

(** * GenLCPPolicyV2 *)
Definition offered (hashid : Z) : Prop := hashid = CryptoSHA1 \/ hashid = CryptoSHA256 \/ hashid = CryptoSHA384.
Definition tpm_alg (hashid : Z) : Z :=
  if hashid =? CryptoSHA1 then AlgSHA1 else if hashid =? CryptoSHA256 then AlgSHA256 else AlgSHA384.
Definition crypto_size (hashid : Z) : nat :=
  if hashid =? CryptoSHA1 then 20%nat else if hashid =? CryptoSHA256 then 32%nat else 48%nat.

Definition gen_spec_policy (version hashid : Z) (digest : list Z) (sinit : Z) (pc : pctrl) (ah : ahash) (sg : asig) : policy2 :=
  MkP2 (Z.max version LCPPolicyVersion3) (tpm_alg hashid) LCPPolicyTypeAny sinit (repeat 0 8%nat)
       (decon_pc pc) 0 0 (decon_ah ah) (decon_as sg) 0 (fix_len 32 digest).

(* what GenLCPPolicyV2 returns for every offered algorithm, every version, every digest of the matching length *)
Lemma gen_characterised version hashid digest sinit pc ah sg :
  offered hashid -> length digest = crypto_size hashid ->
  gen version hashid digest sinit pc ah sg = Ok (gen_spec_policy version hashid digest sinit pc ah sg).
Proof.
  intros Ho Hl. unfold gen, gen_spec_policy.
  assert (Hm : hash_alg_map hashid = Some (tpm_alg hashid, crypto_size hashid)).
  { destruct Ho as [-> | [-> | ->]]; reflexivity. }
  rewrite Hm. unfold gen_lcp_hash.
  rewrite read_n_exact by (assumption || (destruct Ho as [-> | [-> | ->]]; discriminate)).
  cbn [bind]. rewrite <- Hl, firstn_all.
  replace (if version <=? LCPPolicyVersion3 then LCPPolicyVersion3 else version) with (Z.max version LCPPolicyVersion3)
    by (destruct (version <=? LCPPolicyVersion3) eqn:E; lia).
  reflexivity.
Qed.

Lemma fix_len_bytes n l : Forall byte l -> Forall byte (fix_len n l).
Proof.
  intros H. unfold fix_len. apply Forall_forall. intros x Hx.
  assert (Hx' : In x (l ++ repeat 0 n)) by (rewrite <- (firstn_skipn n (l ++ repeat 0 n)); apply in_or_app; now left).
  clear Hx; rename Hx' into Hx.
  apply in_app_or in Hx. destruct Hx as [Hx | Hx].
  - rewrite Forall_forall in H. now apply H.
  - apply repeat_spec in Hx. subst. unfold byte. lia.
Qed.

Lemma gen_spec_wf version hashid digest sinit pc ah sg :
  (hashid = CryptoSHA1 \/ hashid = CryptoSHA256) -> length digest = crypto_size hashid ->
  u16 version -> byte sinit -> Forall byte digest ->
  wf_policy2 (gen_spec_policy version hashid digest sinit pc ah sg).
Proof.
  intros Ho Hl Hv Hs Hd. unfold wf_policy2, in_range2, gen_spec_policy; p2_fields.
  pose proof (decon_pc_range pc). pose proof (decon_ah_range ah). pose proof (decon_as_range sg).
  assert (Forall u16 (repeat 0 8)) by (repeat constructor; unfold u16; lia).
  assert (u16 (tpm_alg hashid)) by (destruct Ho as [-> | ->]; vm_compute; split; congruence).
  unfold u16, u32, byte, LCPPolicyVersion3, LCPPolicyTypeAny in *.
  repeat split; try lia; try assumption; try apply fix_len_length; try (apply fix_len_bytes; assumption).
  destruct Ho as [-> | ->]; [right | left; reflexivity].
  split; [reflexivity|]. change (crypto_size CryptoSHA1) with 20%nat in Hl.
  rewrite fix_len_pad by lia. rewrite skipn_app_exact by assumption. rewrite Hl. reflexivity.
Qed.

Lemma gen_roundtrip sha3 version hashid digest sinit pc ah sg :
  (hashid = CryptoSHA1 \/ hashid = CryptoSHA256) -> length digest = crypto_size hashid ->
  u16 version -> byte sinit -> Forall byte digest ->
  exists p, gen version hashid digest sinit pc ah sg = Ok p /\ parse sha3 (encode2 p) = Ok (inr p).
Proof.
  intros Ho Hl Hv Hs Hd. eexists. split.
  - apply gen_characterised; [destruct Ho; unfold offered; tauto | assumption].
  - apply parse_encode2. now apply gen_spec_wf.
Qed.

Lemma gen_roundtrip_sha384 sha3 version digest sinit pc ah sg :
  length digest = 48%nat -> u16 version -> byte sinit -> Forall byte digest ->
  exists p, gen version CryptoSHA384 digest sinit pc ah sg = Ok p /\ parse sha3 (encode2 p) = Err E_UEOF.
Proof.
  intros Hl Hv Hs Hd. eexists. split.
  - apply gen_characterised; [unfold offered; tauto | assumption].
  - apply parse_encode2_sha384. unfold wf_policy2_sha384, in_range2, gen_spec_policy; p2_fields.
    pose proof (decon_pc_range pc). pose proof (decon_ah_range ah). pose proof (decon_as_range sg).
    assert (Forall u16 (repeat 0 8)) by (repeat constructor; unfold u16; lia).
    change (tpm_alg CryptoSHA384) with AlgSHA384.
    unfold u16, u32, byte, LCPPolicyVersion3, LCPPolicyTypeAny, AlgSHA384 in *.
    repeat split; try lia; try assumption; try apply fix_len_length; try (apply fix_len_bytes; assumption).
Qed.

Lemma gen_carries_params version hashid digest sinit pc ah sg :
  (hashid = CryptoSHA1 \/ hashid = CryptoSHA256) -> length digest = crypto_size hashid ->
  LCPPolicyVersion3 <= version ->
  exists p, gen version hashid digest sinit pc ah sg = Ok p /\
    p2_version p = version /\ p2_hashalg p = tpm_alg hashid /\
    p2_hash p = digest ++ repeat 0 (32 - length digest) /\
    p2_sinit p = sinit /\
    parse_pc (p2_pc p) = pc /\ parse_ah (p2_hmask p) = ah /\ parse_as (p2_smask p) = sg /\
    p2_ptype p = LCPPolicyTypeAny /\ p2_drc p = repeat 0 8 /\ p2_maxsinit p = 0 /\ p2_reserved p = 0 /\ p2_res2 p = 0.
Proof.
  intros Ho Hl Hv. eexists. split.
  - apply gen_characterised; [destruct Ho; unfold offered; tauto | assumption].
  - unfold gen_spec_policy; p2_fields. rewrite flags_pc, flags_ah, flags_as.
    repeat split; try lia.
    apply fix_len_pad. destruct Ho as [-> | ->]; rewrite Hl; cbn; lia.
Qed.

(* all parameters except version < 0x300 and a digest longer than 32 bytes *)
Lemma gen_carries_other_params version hashid digest sinit pc ah sg :
  offered hashid -> length digest = crypto_size hashid ->
  exists p, gen version hashid digest sinit pc ah sg = Ok p /\
    p2_version p = Z.max version LCPPolicyVersion3 /\ p2_hashalg p = tpm_alg hashid /\
    p2_hash p = fix_len 32 digest /\ p2_sinit p = sinit /\
    parse_pc (p2_pc p) = pc /\ parse_ah (p2_hmask p) = ah /\ parse_as (p2_smask p) = sg.
Proof.
  intros Ho Hl. eexists. split; [now apply gen_characterised|].
  unfold gen_spec_policy; p2_fields. rewrite flags_pc, flags_ah, flags_as. repeat split.
Qed.

(** * witnesses *)
Definition ex_pc := MkPC true false true false.
Definition ex_ah := MkAH false true false false.
Definition ex_as := MkAS false true false true false false false.
Definition ex_digest48 : list Z := seqZ 1 48.
Definition ex_digest32 : list Z := seqZ 1 32.

Lemma gen_version_refuted : exists version p,
  gen version CryptoSHA256 ex_digest32 7 ex_pc ex_ah ex_as = Ok p /\ p2_version p <> version.
Proof. exists 516. eexists. split; [vm_compute; reflexivity | vm_compute; congruence]. Qed.

Lemma gen_hash_sha384_refuted : exists p,
  gen 768 CryptoSHA384 ex_digest48 7 ex_pc ex_ah ex_as = Ok p /\
  p2_hash p = firstn 32 ex_digest48 /\ firstn 48 (p2_hash p) <> ex_digest48.
Proof.
  eexists. split; [vm_compute; reflexivity|]. split; [vm_compute; reflexivity|].
  vm_compute. intros H. discriminate H.
Qed.

Definition ex_p1 : policy1 := MkP1 516 0 1 2 0 [1;2;3;4;5;6;7;65535] 2147483655 0 0 0 0 (seqZ 11 20).
Definition ex_p2_sha256 : policy2 := MkP2 768 11 1 7 [0;0;0;0;0;0;0;0] 2147483649 255 255 8 136 8 (seqZ 1 32).
Definition ex_p2_sha1 : policy2 := MkP2 770 4 0 7 [1;0;0;0;0;0;0;9] 5 0 0 1 4 0 (seqZ 1 20 ++ repeat 0 12).
Definition ex_p2_sha384 : policy2 := MkP2 768 12 1 0 [0;0;0;0;0;0;0;0] 0 255 255 64 128 8 (seqZ 0 32). (* what txt-prov's loadConfig builds for "SHA384" *)

Ltac wf_tac := repeat match goal with |- _ /\ _ => split | |- Forall _ _ => constructor end;
  unfold u16, u32, byte, LCPPolicyVersion2, LCPPolicyVersion3; try lia; try reflexivity.
Lemma ex_p1_wf : wf_policy1 ex_p1. Proof. unfold wf_policy1, ex_p1; cbn -[Z.le Z.lt]. wf_tac. Qed.
Lemma ex_p2_sha256_wf : wf_policy2 ex_p2_sha256.
Proof. unfold wf_policy2, in_range2, ex_p2_sha256; cbn -[Z.le Z.lt]. wf_tac. left; reflexivity. Qed.
Lemma ex_p2_sha1_wf : wf_policy2 ex_p2_sha1.
Proof. unfold wf_policy2, in_range2, ex_p2_sha1; cbn -[Z.le Z.lt]. wf_tac. right; split; reflexivity. Qed.
Lemma ex_p2_sha384_wf : wf_policy2_sha384 ex_p2_sha384.
Proof. unfold wf_policy2_sha384, in_range2, ex_p2_sha384; cbn -[Z.le Z.lt]. wf_tac. Qed.

Lemma ex_bytes_v2_wf : wf_bytes_v2 (encode1 ex_p1) = true. Proof. vm_compute. reflexivity. Qed.
Lemma ex_bytes_v3_sha256_wf : wf_bytes_v3 (encode2 ex_p2_sha256) = true. Proof. vm_compute. reflexivity. Qed.
Lemma ex_bytes_v3_sha1_wf : wf_bytes_v3 (encode2 ex_p2_sha1) = true. Proof. vm_compute. reflexivity. Qed.
Lemma ex_bytes_v3_sha384_wf : wf_bytes_v3_sha384 (encode2 ex_p2_sha384) = true. Proof. vm_compute. reflexivity. Qed.

Lemma parse_encode_sha384_refuted : exists p, wf_policy2_sha384 p /\ parse false (encode2 p) = Err E_UEOF.
Proof. exists ex_p2_sha384. split; [apply ex_p2_sha384_wf | vm_compute; reflexivity]. Qed.

Lemma encode_parse_sha384_refuted : exists b, wf_bytes_v3_sha384 b = true /\ parse false b = Err E_UEOF.
Proof. exists (encode2 ex_p2_sha384). split; vm_compute; reflexivity. Qed.

(* a SHA1 policy whose 12 padding bytes are not zero parses, but does not re-serialise to itself:
   the zero-padding clause of wf_bytes_v3 is needed *)
Definition ex_bytes_sha1_dirty : list Z := firstn 69 (encode2 ex_p2_sha1) ++ [1].
Lemma encode_parse_nonzero_padding_refuted : exists p,
  length ex_bytes_sha1_dirty = 70%nat /\ parse false ex_bytes_sha1_dirty = Ok (inr p) /\ encode2 p <> ex_bytes_sha1_dirty.
Proof.
  eexists. split; [reflexivity|]. split; [vm_compute; reflexivity|]. vm_compute. intros H. discriminate H.
Qed.

(** * deconstruct o Parse on arbitrary words (bit reasoning, no range hypothesis) *)
Lemma bit_testbit w k : 0 <= k -> bit w k = Z.testbit w k.
Proof.
  intros Hk. unfold bit.
  assert (E : Z.land (Z.shiftr w k) 1 = Z.b2z (Z.testbit w k)).
  { change 1 with (Z.ones 1). rewrite Z.land_ones by lia. change (2 ^ 1) with 2.
    rewrite <- Z.bit0_mod, Z.shiftr_spec by lia. reflexivity. }
  rewrite E. destruct (Z.testbit w k); reflexivity.
Qed.

Lemma land_pow2 w k : 0 <= k -> Z.land w (2 ^ k) = if Z.testbit w k then 2 ^ k else 0.
Proof.
  intros Hk. apply Z.bits_inj'. intros n Hn.
  rewrite Z.land_spec, Z.pow2_bits_eqb by lia.
  destruct (Z.eqb_spec k n) as [->|Hne].
  - rewrite andb_true_r. destruct (Z.testbit w n); [rewrite Z.pow2_bits_eqb, Z.eqb_refl by lia | rewrite Z.bits_0]; reflexivity.
  - rewrite andb_false_r. destruct (Z.testbit w k); [rewrite Z.pow2_bits_eqb by lia; symmetry; now apply Z.eqb_neq | now rewrite Z.bits_0].
Qed.

(* encoding the decoded flags keeps exactly the defined bits of the word *)
Lemma decon_parse_pc w : decon_pc (parse_pc w) = Z.land w PC_MASK.
Proof.
  unfold parse_pc, decon_pc; cbn [pc_npw pc_owner pc_auxdel pc_sinitcaps].
  rewrite !bit_testbit by lia.
  change PC_MASK with (Z.lor (Z.lor (Z.lor (2 ^ 0) (2 ^ 1)) (2 ^ 2)) (2 ^ 31)).
  rewrite !Z.land_lor_distr_r, !land_pow2 by lia.
  destruct (Z.testbit w 0), (Z.testbit w 1), (Z.testbit w 2), (Z.testbit w 31); reflexivity.
Qed.

Lemma decon_parse_ah w : decon_ah (parse_ah w) = Z.land w AH_MASK.
Proof.
  unfold parse_ah, decon_ah; cbn [ah_sha1 ah_sha256 ah_sha384 ah_sm3].
  rewrite !bit_testbit by lia.
  change AH_MASK with (Z.lor (Z.lor (Z.lor (2 ^ 0) (2 ^ 3)) (2 ^ 5)) (2 ^ 6)).
  rewrite !Z.land_lor_distr_r, !land_pow2 by lia.
  destruct (Z.testbit w 0), (Z.testbit w 3), (Z.testbit w 5), (Z.testbit w 6); reflexivity.
Qed.

Lemma decon_parse_as w : decon_as (parse_as w) = Z.land w AS_MASK.
Proof.
  unfold parse_as, decon_as; cbn [as_rsa2048sha1 as_rsa2048sha256 as_rsa3072sha256 as_rsa3072sha384 as_ecdsap256sha256 as_ecdsap384sha384 as_sm2].
  rewrite !bit_testbit by lia.
  change AS_MASK with (Z.lor (Z.lor (Z.lor (Z.lor (Z.lor (Z.lor (2 ^ 2) (2 ^ 3)) (2 ^ 6)) (2 ^ 7)) (2 ^ 12)) (2 ^ 13)) (2 ^ 16)).
  rewrite !Z.land_lor_distr_r, !land_pow2 by lia.
  destruct (Z.testbit w 2), (Z.testbit w 3), (Z.testbit w 6), (Z.testbit w 7), (Z.testbit w 12), (Z.testbit w 13), (Z.testbit w 16); reflexivity.
Qed.

Lemma flags_words_roundtrip wpc wah was :
  decon_pc (parse_pc wpc) = Z.land wpc PC_MASK /\ decon_ah (parse_ah wah) = Z.land wah AH_MASK /\
  decon_as (parse_as was) = Z.land was AS_MASK.
Proof. split; [apply decon_parse_pc | split; [apply decon_parse_ah | apply decon_parse_as]]. Qed.
