(** Proofs about the second half of the Boot Guard / ME part of Model/Verdicts.v (property C05):
    where the ME status word comes from - the walk over the visible PCI devices of
    readHFSTSFromPCIConfigSpace - and the verdicts computed from it on a platform. *)
From CSS Require Import Lib.Base Model.Verdicts Proofs.Verdicts.
From Coq Require Import ZifyBool.

Local Open Scope Z_scope.

(** no device of [l] has the ME's device/function number *)
Definition no_me (l : list pcidev) : Prop := forall x, In x l -> is_me x = false.

(** the ME's address as me.go names it: device 16 (CSME) or 22 (SPS), function 0 *)
Lemma is_me_spec d : is_me d = true <-> (p_dev d = 16 \/ p_dev d = 22) /\ p_fn d = 0.
Proof. unfold is_me, ME_CSME_DEV, ME_SPS_DEV. lia. Qed.

Lemma no_me_nil : no_me [].
Proof. intros x []. Qed.

Lemma no_me_cons d l : is_me d = false -> no_me l -> no_me (d :: l).
Proof. intros Hd Hl x [<-|Hx]; [exact Hd|apply Hl; exact Hx]. Qed.

Lemma no_me_inv d l : no_me (d :: l) -> is_me d = false /\ no_me l.
Proof. intros H. split; [apply H; left; reflexivity|intros x Hx; apply H; right; exact Hx]. Qed.

(** every enumeration either has no ME-numbered device or splits at its first one *)
Lemma split_first_me l :
  no_me l \/ exists pre d post, l = pre ++ d :: post /\ no_me pre /\ is_me d = true.
Proof.
  induction l as [|a l IH]; [left; exact no_me_nil|].
  destruct (is_me a) eqn:E.
  - right. exists [], a, l. repeat split; [exact no_me_nil|exact E].
  - destruct IH as [IH|(pre & d & post & -> & Hp & Hd)].
    + left. apply no_me_cons; assumption.
    + right. exists (a :: pre), d, post. repeat split; [apply no_me_cons; assumption|exact Hd].
Qed.

Lemma has_me_not_no_me l x : In x l -> is_me x = true -> ~ no_me l.
Proof. intros Hx E H. rewrite (H x Hx) in E. discriminate. Qed.

(** * The walk *)

Lemma pci_walk_no_me n l st : no_me l -> pci_walk n l st = (st, false).
Proof.
  induction l as [|a l IH]; intros H; [reflexivity|].
  apply no_me_inv in H. destruct H as [Ha Hl]. cbn [pci_walk]. rewrite Ha. apply IH. exact Hl.
Qed.

(** the walk stops at the FIRST device with the ME's device/function number: what stands
    behind it ([post]) and what the closure held before ([st]) have no influence *)
Lemma pci_walk_first n pre d post st : no_me pre -> is_me d = true ->
  pci_walk n (pre ++ d :: post) st = (read_dev n d, true).
Proof.
  induction pre as [|a pre IH]; intros Hp Hd; cbn [app pci_walk].
  - rewrite Hd. reflexivity.
  - apply no_me_inv in Hp. destruct Hp as [Ha Hp]. rewrite Ha. apply IH; assumption.
Qed.

Lemma pci_walk_filter n l st : pci_walk n l st = pci_walk n (filter is_me l) st.
Proof.
  induction l as [|a l IH]; [reflexivity|]. cbn [pci_walk filter].
  destruct (is_me a) eqn:E; cbn [pci_walk]; [rewrite E; reflexivity|exact IH].
Qed.

Lemma reg_ok n : 1 <= n <= 6 -> ((n <? 1) || (6 <? n)) = false.
Proof. lia. Qed.

Theorem HFSTS_first_match : forall n pre d post ee, 1 <= n <= 6 -> no_me pre -> is_me d = true ->
  read_hfsts n (pre ++ d :: post) ee = read_dev n d.
Proof.
  intros n pre d post ee Hn Hp Hd. unfold read_hfsts. rewrite (reg_ok n Hn).
  rewrite (pci_walk_first n pre d post _ Hp Hd). reflexivity.
Qed.

(** no ME-numbered device: an error, for every register and with or without enumeration error
    (former finding C05-HFSTS-no-ME-device) *)
Theorem HFSTS_no_device : forall n l ee, no_me l -> read_hfsts n l ee = HErr.
Proof.
  intros n l ee Hl. unfold read_hfsts. destruct ((n <? 1) || (6 <? n)); [reflexivity|].
  rewrite (pci_walk_no_me n l _ Hl). destruct ee; reflexivity.
Qed.

(** the reader before the repair handed out the zero-initialised buffer *)
Theorem HFSTS_no_device_legacy : forall n l, 1 <= n <= 6 -> no_me l ->
  read_hfsts_legacy n l false = HWord 0.
Proof.
  intros n l Hn Hl. unfold read_hfsts_legacy. rewrite (reg_ok n Hn), (pci_walk_no_me n l _ Hl).
  reflexivity.
Qed.

Theorem HFSTS_bad_register : forall n l ee, ~ (1 <= n <= 6) -> read_hfsts n l ee = HErr.
Proof.
  intros n l ee Hn. unfold read_hfsts.
  assert (E : ((n <? 1) || (6 <? n)) = true) by lia. rewrite E. reflexivity.
Qed.

(** devices with another device/function number can be added or removed anywhere *)
Theorem HFSTS_other_devices_irrelevant : forall n l ee,
  read_hfsts n l ee = read_hfsts n (filter is_me l) ee.
Proof. intros n l ee. unfold read_hfsts. rewrite <- pci_walk_filter. reflexivity. Qed.

(** the status never comes from a device that is not the first ME-numbered one: a delivered
    word is the register of that device *)
Theorem HFSTS_word_origin : forall n l ee w, read_hfsts n l ee = HWord w ->
  exists pre d post, l = pre ++ d :: post /\ no_me pre /\ is_me d = true /\ hfsts_word n d = Some w.
Proof.
  intros n l ee w H.
  destruct (Z_le_dec 1 n) as [H1|H1]; [destruct (Z_le_dec n 6) as [H6|H6]|];
    try (rewrite HFSTS_bad_register in H by lia; discriminate).
  destruct (split_first_me l) as [Hl|(pre & d & post & -> & Hp & Hd)].
  - rewrite HFSTS_no_device in H by exact Hl. discriminate.
  - rewrite HFSTS_first_match in H by (try lia; assumption). unfold read_dev in H.
    destruct (hfsts_word n d) as [w'|] eqn:E; [|discriminate]. injection H as <-.
    exists pre, d, post. repeat split; assumption.
Qed.

(** * The verdicts on a platform *)

Definition from_dev (d : pcidev) (f : Z -> verd) : verd :=
  match hfsts_word 6 d with Some w => f w | None => bad end.

Theorem SaneME_platform_first : forall strict v pre d post ee msr, no_me pre -> is_me d = true ->
  sane_me_plat strict v (pre ++ d :: post) ee msr = from_dev d (fun w => sane_me_raw strict v w msr).
Proof.
  intros. unfold sane_me_plat, from_dev. rewrite HFSTS_first_match by (try lia; assumption).
  unfold read_dev. destruct (hfsts_word 6 d); reflexivity.
Qed.

Theorem ValidateME_platform_first : forall v pre d post ee b k i, no_me pre -> is_me d = true ->
  validate_me_plat v (pre ++ d :: post) ee b k i =
  from_dev d (fun w => validate_me v (decode_hfsts6 w) b k i).
Proof.
  intros. unfold validate_me_plat, from_dev. rewrite HFSTS_first_match by (try lia; assumption).
  unfold read_dev. destruct (hfsts_word 6 d); reflexivity.
Qed.

Lemma sane_me_raw_zero strict v msr : sane_me_raw strict v 0 msr = bad.
Proof. destruct strict; reflexivity. Qed.

(** no ME-numbered device: no status, no success *)
Theorem SaneME_platform_no_device : forall strict v l ee msr, no_me l ->
  sane_me_plat strict v l ee msr = bad.
Proof.
  intros. unfold sane_me_plat. rewrite HFSTS_no_device by assumption. reflexivity.
Qed.

Theorem ValidateME_platform_no_device : forall v l ee b k i, no_me l ->
  validate_me_plat v l ee b k i = bad.
Proof.
  intros. unfold validate_me_plat. rewrite HFSTS_no_device by assumption. reflexivity.
Qed.

(** fail closed on every platform: a success of (Strict)SaneMEBootGuardProvisioning fed from
    GetHFSTS6 means that the platform has an ME-numbered device, that the FIRST one in
    enumeration order could be read, and that none of the named conditions holds for ITS
    HFSTS6 (and MSR 13Ah) *)
Theorem SaneME_platform_failclosed : forall strict v l ee msr,
  sane_me_plat strict v l ee msr = good ->
  exists pre d post w, l = pre ++ d :: post /\ no_me pre /\ is_me d = true /\
    hfsts_word 6 d = Some w /\
    ~ me_disqualified v (decode_hfsts6 w) (decode_bgmsr msr) /\
    (strict = true -> bits w 6 3 = 3).
Proof.
  intros strict v l ee msr H.
  destruct (split_first_me l) as [Hl|(pre & d & post & -> & Hp & Hd)].
  - rewrite SaneME_platform_no_device in H by exact Hl. discriminate.
  - rewrite SaneME_platform_first in H by assumption. unfold from_dev in H.
    destruct (hfsts_word 6 d) as [w|] eqn:E; [|discriminate].
    exists pre, d, post, w. repeat split; try assumption.
    + unfold sane_me_raw in H. destruct strict.
      * apply StrictSaneME_exact in H. exact (proj2 H).
      * apply (proj1 (SaneME_exact _ _ _)) in H. exact H.
    + intros ->. unfold sane_me_raw in H. apply StrictSaneME_exact in H. exact (proj1 H).
Qed.

(** ... and conversely a readable first ME device without disqualifying condition is accepted,
    whatever else is visible *)
Theorem SaneME_platform_accepts : forall strict v pre d post ee msr w,
  no_me pre -> is_me d = true -> hfsts_word 6 d = Some w ->
  ~ me_disqualified v (decode_hfsts6 w) (decode_bgmsr msr) -> (strict = true -> bits w 6 3 = 3) ->
  sane_me_plat strict v (pre ++ d :: post) ee msr = good.
Proof.
  intros strict v pre d post ee msr w Hp Hd Hw Hn Hs.
  rewrite SaneME_platform_first by assumption. unfold from_dev. rewrite Hw.
  unfold sane_me_raw. destruct strict.
  - apply StrictSaneME_exact. split; [apply Hs; reflexivity|exact Hn].
  - apply (proj1 (SaneME_exact _ _ _)). exact Hn.
Qed.

(** ValidateMEAgainstManifests fed from GetHFSTS6: a success is a success of the comparison with
    the HFSTS6 of the first ME-numbered device, on every platform *)
Theorem ValidateME_platform_sound : forall v l ee b k i,
  validate_me_plat v l ee b k i = good ->
  exists pre d post w, l = pre ++ d :: post /\ no_me pre /\ is_me d = true /\
    hfsts_word 6 d = Some w /\ validate_me v (decode_hfsts6 w) b k i = good.
Proof.
  intros v l ee b k i H.
  destruct (split_first_me l) as [Hl|(pre & d & post & -> & Hp & Hd)].
  - rewrite ValidateME_platform_no_device in H by exact Hl. discriminate.
  - rewrite ValidateME_platform_first in H by assumption. unfold from_dev in H.
    destruct (hfsts_word 6 d) as [w|] eqn:E; [|discriminate].
    exists pre, d, post, w. repeat split; assumption.
Qed.

(** former finding C05-HFSTS-no-ME-device (repaired by f889c7f): a platform without ME device
    gets no status from either reader, hence no success from any verdict or pkg/test entry
    point fed from it - for every platform, register, version, manifest value *)
Theorem HFSTS_no_device_failclosed : forall l ee, no_me l ->
  (forall n, read_hfsts n l ee = HErr) /\
  get_hfsts1 l ee = None /\ get_hfsts6 l ee = None /\
  (forall strict v msr, sane_me_plat strict v l ee msr = bad /\ test_sane_me_plat strict v l ee msr = fail) /\
  (forall v b k i, validate_me_plat v l ee b k i = bad /\ test_validate_me_plat v l ee b k i = fail).
Proof.
  intros l ee Hl.
  assert (R : forall n, read_hfsts n l ee = HErr) by (intros n; apply HFSTS_no_device; exact Hl).
  split; [exact R|]. unfold get_hfsts1, get_hfsts6, sane_me_plat, test_sane_me_plat,
    validate_me_plat, test_validate_me_plat, test_wrap. rewrite !R. repeat split.
Qed.

(** the former witness: host bridge and LPC bridge only; the reader before the repair made up
    an all-zero status, with which manifests with SVNs / key manifest id 0 agree *)
Definition plat_no_me : list pcidev :=
  [mkdev 0 0 0 (Some [0; 0; 0; 0; 0; 0]); mkdev 0 31 0 (Some [0; 0; 0; 0; 0; 0])].

Theorem HFSTS_no_device_witness :
  no_me plat_no_me /\
  read_hfsts 6 plat_no_me false = HErr /\ validate_me_plat 2 plat_no_me false 0 0 0 = bad /\
  test_validate_me_plat 2 plat_no_me false 0 0 0 = fail /\
  read_hfsts_legacy 6 plat_no_me false = HWord 0 /\
  validate_me 2 (decode_hfsts6 0) 0 0 0 = good.
Proof.
  split; [|repeat split].
  intros x [<-|[<-|[]]]; reflexivity.
Qed.

(** * pkg/test entry points: a pass is a success of the verdict *)

Lemma verd_eqb_good x : verd_eqb x good = true <-> x = good.
Proof.
  unfold good. destruct x as [[|] [|] [|]|]; cbn; split; intros H; try discriminate; reflexivity.
Qed.

Lemma test_wrap_pass h f :
  test_wrap h f = pass <-> match h with HErr => bad | HWord w => f w end = good.
Proof.
  unfold test_wrap. destruct h as [|w]; [split; discriminate|].
  destruct (verd_eqb (f w) good) eqn:E.
  - apply verd_eqb_good in E. rewrite E. split; reflexivity.
  - split; [discriminate|]. intros H. apply verd_eqb_good in H. rewrite H in E. discriminate.
Qed.

Theorem TestSaneME_pass_iff : forall strict v l ee msr,
  test_sane_me_plat strict v l ee msr = pass <-> sane_me_plat strict v l ee msr = good.
Proof. intros. unfold test_sane_me_plat, sane_me_plat. apply test_wrap_pass. Qed.

Theorem TestValidateME_pass_iff : forall v l ee b k i,
  test_validate_me_plat v l ee b k i = pass <-> validate_me_plat v l ee b k i = good.
Proof. intros. unfold test_validate_me_plat, validate_me_plat. apply test_wrap_pass. Qed.

Theorem TestPlat_total : forall strict v l ee msr b k i,
  test_sane_me_plat strict v l ee msr <> VPanic /\ test_validate_me_plat v l ee b k i <> VPanic.
Proof.
  intros. unfold test_sane_me_plat, test_validate_me_plat, test_wrap.
  split; destruct (read_hfsts 6 l ee); try discriminate;
    match goal with |- context [if ?c then _ else _] => destruct c end; discriminate.
Qed.

Theorem SaneME_platform_no_status : forall strict v msr,
  (forall l ee, no_me l -> sane_me_plat strict v l ee msr = bad) /\
  (forall pre d post ee, no_me pre -> is_me d = true -> hfsts_word 6 d = None ->
     sane_me_plat strict v (pre ++ d :: post) ee msr = bad).
Proof.
  intros strict v msr. split.
  - intros l ee H. exact (SaneME_platform_no_device strict v l ee msr H).
  - intros pre d post ee Hp Hd Hw. rewrite (SaneME_platform_first strict v pre d post ee msr Hp Hd).
    unfold from_dev. rewrite Hw. reflexivity.
Qed.

Theorem TestEntryPoints_pass_iff : forall strict v l ee msr b k i,
  (test_sane_me_plat strict v l ee msr = pass <-> sane_me_plat strict v l ee msr = good) /\
  (test_validate_me_plat v l ee b k i = pass <-> validate_me_plat v l ee b k i = good) /\
  test_sane_me_plat strict v l ee msr <> VPanic /\ test_validate_me_plat v l ee b k i <> VPanic.
Proof.
  intros. split; [apply TestSaneME_pass_iff|]. split; [apply TestValidateME_pass_iff|].
  apply TestPlat_total.
Qed.

(** * Examples *)

(** host bridge, the ME 00:16.0 with Boot Guard disabled (bit 28), and an SR-IOV function
    03:10.0 whose dword at 0x6c looks like a sane status *)
Definition ex_me_bad : pcidev := mkdev 0 22 0 (Some [1; 2; 3; 4; 5; 1073742024 + 268435456]).
Definition ex_vf_sane : pcidev := mkdev 3 16 0 (Some [6; 7; 8; 9; 10; 1073742024]).
Definition ex_host : pcidev := mkdev 0 0 0 (Some [0; 0; 0; 0; 0; 0]).

Example ex_two_candidates :
  sane_me_plat true 2 [ex_host; ex_me_bad; ex_vf_sane] false 4294967376 = bad /\
  get_hfsts6 [ex_host; ex_me_bad; ex_vf_sane] false = Some (1073742024 + 268435456) /\
  get_hfsts1 [ex_host; ex_me_bad; ex_vf_sane] false = Some 1 /\
  sane_me_plat true 2 [ex_host; mkdev 0 22 0 (p_cfg ex_vf_sane); mkdev 3 16 0 (p_cfg ex_me_bad)] false 4294967376 = good /\
  no_me [ex_host] /\ is_me ex_me_bad = true /\ is_me ex_vf_sane = true.
Proof.
  repeat split; try (vm_compute; reflexivity).
  intros x [<-|[]]. reflexivity.
Qed.
