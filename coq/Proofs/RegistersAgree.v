(** Proofs for C04 — the two TXT decoders agree on every field they both report
    (models in Model/RegistersDec.v; the chain lemmas in Proofs/RegistersDec.v). *)
From Coq Require Import NArith Arith String List Lia Bool ZifyN ZifyNat ZifyBool.
From CSS Require Import Lib.SymBits Lib.RegTypes Lib.RegOblig Model.Registers Model.RegistersDec.
From CSS Require Import Proofs.SymBits Proofs.Registers Proofs.RegistersRead Proofs.RegistersDec.
Import ListNotations.
Open Scope N_scope.

(** * 3. The two decoders agree *)

(** ** Bytes inside bytes *)

Lemma le_value_app a b : le_value (a ++ b) = le_value a + 256 ^ N.of_nat (length a) * le_value b.
Proof.
  induction a as [|x a IH]; cbn [app le_value length].
  - change (256 ^ N.of_nat 0) with 1. lia.
  - rewrite IH, Nat2N.inj_succ, N.pow_succ_r'. lia.
Qed.

Lemma pow256_pos n : 0 < 256 ^ n.
Proof. apply N.neq_0_lt_0, N.pow_nonzero. discriminate. Qed.

(** [n] bytes taken [k] bytes into a byte string: digits [k .. k+n) of its value *)
Lemma le_value_slice l k n : (forall b, In b l -> b < 256) -> (k + n <= length l)%nat ->
  le_value (firstn n (skipn k l)) = (le_value l / 256 ^ N.of_nat k) mod 256 ^ N.of_nat n.
Proof.
  intros Hb Hlen.
  assert (H1 : le_value l / 256 ^ N.of_nat k = le_value (skipn k l)).
  { rewrite <- (firstn_skipn k l) at 1. rewrite le_value_app.
    rewrite firstn_length_le by lia.
    pose proof (le_value_bound (firstn k l) (fun b H => Hb b (In_firstn_reg _ _ _ H))) as Hlt.
    rewrite firstn_length_le in Hlt by lia.
    rewrite N.add_comm, N.mul_comm, N.div_add_l by (apply N.pow_nonzero; discriminate).
    rewrite (N.div_small _ _ Hlt). lia. }
  rewrite H1. rewrite <- (firstn_skipn n (skipn k l)) at 2. rewrite le_value_app.
  assert (Hl2 : length (firstn n (skipn k l)) = n) by (apply firstn_length_le; rewrite skipn_length; lia).
  rewrite Hl2.
  pose proof (le_value_bound (firstn n (skipn k l))
                (fun b H => Hb b (In_skipn_reg _ _ _ (In_firstn_reg _ _ _ H)))) as Hlt.
  rewrite Hl2 in Hlt.
  remember (le_value (firstn n (skipn k l))) as A. remember (le_value (skipn n (skipn k l))) as B.
  remember (256 ^ N.of_nat n) as P.
  replace (A + P * B) with (A + B * P) by lia.
  rewrite N.mod_add by (subst P; apply N.pow_nonzero; discriminate).
  symmetry. apply N.mod_small, Hlt.
Qed.

Lemma skipn_skipn_reg {A} : forall off k (l : list A), skipn k (skipn off l) = skipn (off + k) l.
Proof.
  induction off as [|off IH]; intros k l; [reflexivity|].
  destruct l as [|x l]; [rewrite !skipn_nil; reflexivity|]. cbn [skipn Nat.add]. apply IH.
Qed.

Lemma extent_bytes_sub img off m k n : (k + n <= m)%nat ->
  extent_bytes img (off + k) n = firstn n (skipn k (extent_bytes img off m)).
Proof.
  intros H. unfold extent_bytes.
  rewrite skipn_firstn_comm, firstn_firstn.
  replace (Nat.min n (m - k)) with n by lia.
  rewrite skipn_skipn_reg. reflexivity.
Qed.

Lemma extent_bytes_length img off m : (off + m <= length img)%nat -> length (extent_bytes img off m) = m.
Proof. intros H. unfold extent_bytes. apply firstn_length_le. rewrite skipn_length. lia. Qed.

Lemma extent_bytes_In img off m b : In b (extent_bytes img off m) -> In b img.
Proof. unfold extent_bytes. intros H. eapply In_skipn_reg, In_firstn_reg, H. Qed.

(** The [n] bytes at [off + k] of an image, when they lie inside the [m] bytes at [off]: bytes
    [k .. k+n) of that value. *)
Theorem le_at_sub : forall img off m k n, (forall b, In b img -> b < 256) ->
  (k + n <= m)%nat -> (off + m <= length img)%nat ->
  le_at img (off + k) n = (le_at img off m / 256 ^ N.of_nat k) mod 256 ^ N.of_nat n.
Proof.
  intros img off m k n Hb Hk Hm. unfold le_at.
  rewrite (extent_bytes_sub img off m k n Hk).
  apply le_value_slice.
  - intros b H. apply Hb. eapply extent_bytes_In, H.
  - rewrite extent_bytes_length by exact Hm. exact Hk.
Qed.

Lemma le_at_bound img off m : (forall b, In b img -> b < 256) -> (off + m <= length img)%nat ->
  le_at img off m < 256 ^ N.of_nat m.
Proof.
  intros Hb Hm. unfold le_at.
  pose proof (le_value_bound (extent_bytes img off m) (fun b H => Hb b (extent_bytes_In _ _ _ _ H))) as H.
  rewrite extent_bytes_length in H by exact Hm. exact H.
Qed.

(** ** A slot of pkg/tools inside a register of pkg/registers *)

Lemma find_entry_In : forall l s off n, find_entry s l = Some (off, n) -> In (s, off, n) l.
Proof.
  induction l as [|[[k o] m] t IH]; intros s off n H; [discriminate|].
  cbn [find_entry] in H. destruct (String.eqb_spec s k) as [->|Hne].
  - injection H as -> ->. left. reflexivity.
  - right. apply IH, H.
Qed.

(** the slot [slot] of the tools decoders lies inside the register [id], [k] bytes in *)
Definition slot_inside (slot id : string) (k : nat) : bool :=
  match find_entry slot all_tools_slots, find_entry id txt_layout with
  | Some (soff, sn), Some (roff, rn) => Nat.eqb soff (roff + k) && Nat.leb (k + sn) rn
  | _, _ => false
  end.

(** what a tools decoder (any chain [L] made of slots of pkg/tools) reported for a slot, and
    what [ReadTXTRegisters] returned for a register, on the same image *)
Lemma tools_slot_value L img slot v soff sn :
  incl L all_tools_slots -> find_entry slot all_tools_slots = Some (soff, sn) ->
  In (slot, v) (fst (read_seq L img)) -> (soff + sn <= length img)%nat /\ v = le_at img soff sn.
Proof.
  intros Hincl Hf Hin. destruct (read_seq_values _ _ _ _ Hin) as (o & n & HinL & Hfit & ->).
  apply Hincl in HinL. apply find_entry_In in Hf.
  destruct (nodup_ids_functional _ _ _ _ _ _ parse_slots_nodup Hf HinL) as [<- <-].
  split; [exact Hfit|reflexivity].
Qed.

(** NB never let Coq CONVERT [read_txt img] with [read_regs txt_layout img] in a hypothesis: the
    [let r := ... in (.. fst r, .. snd r)] of the loop makes that comparison exponential in the
    length of the table; rewrite with this equation instead. *)
Lemma read_txt_unfold img : read_txt img = read_regs txt_layout img.
Proof. unfold read_txt. reflexivity. Qed.

Lemma txt_reg_value img id w roff rn :
  find_entry id txt_layout = Some (roff, rn) ->
  In (id, w) (fst (read_txt img)) -> (roff + rn <= length img)%nat /\ w = le_at img roff rn.
Proof.
  intros Hf Hin. rewrite read_txt_unfold in Hin.
  destruct (read_regs_sound txt_layout img id w Hin) as (o & n & HinL & Hfit & ->).
  apply find_entry_In in Hf.
  destruct (nodup_ids_functional txt_layout id roff rn o n txt_ids_nodup Hf HinL) as [<- <-].
  split; [exact Hfit|reflexivity].
Qed.

(** Whenever a tools decoder reports the slot and [ReadTXTRegisters] returns the register, on
    ANY image, the slot's value is bytes [k .. k+sn) of the register's value. *)
Theorem slot_in_register : forall slot id k, slot_inside slot id k = true ->
  exists soff sn, find_entry slot all_tools_slots = Some (soff, sn) /\
  forall L img v w, incl L all_tools_slots -> (forall b, In b img -> b < 256) ->
    In (slot, v) (fst (read_seq L img)) -> In (id, w) (fst (read_txt img)) ->
    v = (w / 256 ^ N.of_nat k) mod 256 ^ N.of_nat sn.
Proof.
  intros slot id k H. unfold slot_inside in H.
  destruct (find_entry slot all_tools_slots) as [[soff sn]|] eqn:Es; [|discriminate].
  destruct (find_entry id txt_layout) as [[roff rn]|] eqn:Er; [|discriminate].
  apply andb_true_iff in H. destruct H as [H1 H2]. apply Nat.eqb_eq in H1. apply Nat.leb_le in H2.
  exists soff, sn. split; [reflexivity|].
  intros L img v w Hincl Hb Hv Hw.
  destruct (tools_slot_value _ _ _ _ _ _ Hincl Es Hv) as [_ ->].
  destruct (txt_reg_value _ _ _ _ _ Er Hw) as [Hfit ->].
  subst soff. apply le_at_sub; assumption.
Qed.

(** the 15 raw slots and the 4 quarters of the key ARE inside their registers *)
Lemma raw_slots_inside :
  forallb (fun p : string * string * nat * string => let '(s, id, k, _) := p in slot_inside s id k) raw_pairs = true.
Proof. vm_compute. reflexivity. Qed.
Lemma key_slots_inside :
  forallb (fun p : string * nat => slot_inside (fst p) "TXT.PUBLIC.KEY" (snd p)) key_slots = true.
Proof. vm_compute. reflexivity. Qed.

(** TXT.PUBLIC.KEY: the four uint64 of pkg/tools are bytes [8i, 8i+8) of the 32 key bytes of
    pkg/registers (as a little-endian number) *)
Theorem key_quarters_agree : forall slot k, In (slot, k) key_slots ->
  forall L img v w, incl L all_tools_slots -> (forall b, In b img -> b < 256) ->
    In (slot, v) (fst (read_seq L img)) -> In ("TXT.PUBLIC.KEY"%string, w) (fst (read_txt img)) ->
    v = (w / 256 ^ N.of_nat k) mod 256 ^ 8.
Proof.
  intros slot k Hin.
  assert (Hs : slot_inside slot "TXT.PUBLIC.KEY" k = true).
  { pose proof key_slots_inside as H. rewrite forallb_forall in H. exact (H (slot, k) Hin). }
  destruct (slot_in_register _ _ _ Hs) as (soff & sn & Hf & Hagree).
  assert (sn = 8%nat).
  { unfold key_slots in Hin. cbn [In] in Hin.
    repeat (destruct Hin as [Hin|Hin]; [injection Hin as <- <-; vm_compute in Hf; injection Hf as _ <-; reflexivity|]).
    contradiction. }
  subst sn. exact Hagree.
Qed.

(** ** Decoded fields *)

Lemma pow256 n : 256 ^ N.of_nat n = 2 ^ (8 * N.of_nat n).
Proof. rewrite N.pow_mul_r. reflexivity. Qed.

Lemma bits_div_mod lo w x : bits lo w x = (x / 2 ^ lo) mod 2 ^ w.
Proof. unfold bits. rewrite N.land_ones, N.shiftr_div_pow2. reflexivity. Qed.

(** a slice below bit [M] does not see the bits from [M] on *)
Lemma bits_mod_pow2 lo w M x : lo + w <= M -> bits lo w (x mod 2 ^ M) = bits lo w x.
Proof.
  intros H. apply N.bits_inj. intros j. rewrite !bits_bit.
  destruct (N.ltb_spec j w) as [Hj|Hj]; [|rewrite !andb_false_r; reflexivity].
  rewrite N.mod_pow2_bits_low by lia. reflexivity.
Qed.

Lemma spec_eqb_eq a b : spec_eqb a b = true -> a = b.
Proof.
  destruct a, b; cbn [spec_eqb]; intros H; try discriminate H; try reflexivity;
    repeat (apply andb_true_iff in H; destruct H as [H ?]);
    repeat match goal with E : N.eqb _ _ = true |- _ => apply N.eqb_eq in E; subst end; reflexivity.
Qed.

Lemma agrees_got W v s x : agrees W v s x = true -> got_at v x = expected_at W s x.
Proof.
  unfold agrees, got_at, expected_at. destruct v as [e|b].
  - destruct (spec_num s W x) as [n|]; [|discriminate]. intros H. apply N.eqb_eq in H. exact H.
  - destruct (spec_bool s x) as [r|] eqn:E; [|discriminate]. intros H. apply eqb_prop in H. subst r.
    destruct s; cbn [spec_bool] in E; try discriminate E; cbn [spec_num]; reflexivity.
Qed.

Lemma expected_slice W1 W2 s lo w x y : spec_slice s = Some (lo, w) ->
  bits lo w x = bits lo w y -> expected_at W1 s x = expected_at W2 s y.
Proof.
  intros Hs Hb. unfold expected_at.
  destruct s; cbn [spec_slice] in Hs; try discriminate Hs; injection Hs as -> ->;
    cbn [spec_num spec_bool]; rewrite Hb; reflexivity.
Qed.

(** A green pair obligation: both accessors exist in the model generated from the source, and
    on EVERY image on which the tools decoder reports the slot and [ReadTXTRegisters] returns
    the register, the two decoded fields are equal. *)
Theorem pair_sound : forall specs accs ta ra slot id,
  pair_ok specs accs (ta, ra, slot, id) = true ->
  exists at_ ar, find_accessor ta accs = Some at_ /\ find_accessor ra accs = Some ar /\
  forall L img v w, incl L all_tools_slots -> (forall b, In b img -> b < 256) ->
    In (slot, v) (fst (read_seq L img)) -> In (id, w) (fst (read_txt img)) ->
    got_at (a_val at_) v = got_at (a_val ar) w.
Proof.
  intros specs accs ta ra slot id H. unfold pair_ok in H.
  destruct (find_spec ta specs) as [[Wt st]|]; [|discriminate H].
  destruct (find_spec ra specs) as [[Wr sr]|]; [|discriminate H].
  destruct (find_accessor ta accs) as [at_|]; [|discriminate H].
  destruct (find_accessor ra accs) as [ar|]; [|discriminate H].
  destruct (find_entry slot all_tools_slots) as [[soff sn]|] eqn:Es; [|discriminate H].
  destruct (find_entry id txt_layout) as [[roff rn]|] eqn:Er; [|discriminate H].
  cbv beta iota in H.
  apply andb_true_iff in H. destruct H as [H Hlast].
  destruct (spec_slice st) as [[lo w']|] eqn:Esl; cbv beta iota in Hlast; [|discriminate Hlast].
  apply N.leb_le in Hlast. rename Hlast into Hsl.
  apply andb_true_iff in H. destruct H as [H HWr]. apply N.eqb_eq in HWr.
  apply andb_true_iff in H. destruct H as [H HWt]. apply N.eqb_eq in HWt.
  apply andb_true_iff in H. destruct H as [H Hoff]. apply Nat.eqb_eq in Hoff. subst roff.
  apply andb_true_iff in H. destruct H as [H Hcr].
  apply andb_true_iff in H. destruct H as [H Hct].
  apply andb_true_iff in H. destruct H as [H Hwr]. apply N.eqb_eq in Hwr.
  apply andb_true_iff in H. destruct H as [H Hwt]. apply N.eqb_eq in Hwt.
  apply spec_eqb_eq in H. subst sr.
  exists at_, ar. split; [reflexivity|]. split; [reflexivity|].
  intros L img v w Hincl Hb Hv Hw.
  destruct (tools_slot_value _ _ _ _ _ _ Hincl Es Hv) as [Hfv ->].
  destruct (txt_reg_value _ _ _ _ _ Er Hw) as [Hfw ->].
  assert (Hvb : le_at img soff sn < 2 ^ Wt).
  { rewrite HWt, <- pow256. apply le_at_bound; assumption. }
  assert (Hwb : le_at img soff rn < 2 ^ Wr).
  { rewrite HWr, <- pow256. apply le_at_bound; assumption. }
  rewrite (agrees_got Wt (a_val at_) st _ (check_sound Wt (a_val at_) st Hct _ Hvb)).
  rewrite (agrees_got Wr (a_val ar) st _ (check_sound Wr (a_val ar) st Hcr _ Hwb)).
  apply (expected_slice Wt Wr st lo w' _ _ Esl).
  (* both values have the same low [m] bytes, where the slice lies *)
  assert (Hex : exists m, (m <= sn)%nat /\ (m <= rn)%nat /\ lo + w' <= 8 * N.of_nat m).
  { pose proof (N.le_min_l Wt Wr) as Hl. pose proof (N.le_min_r Wt Wr) as Hr.
    destruct (Nat.le_ge_cases sn rn) as [Hc|Hc].
    - exists sn. split; [lia|]. split; [exact Hc|]. lia.
    - exists rn. split; [exact Hc|]. split; [lia|]. lia. }
  destruct Hex as (m & Hm1 & Hm2 & HM).
  assert (Hm : le_at img soff sn mod 2 ^ (8 * N.of_nat m) = le_at img soff rn mod 2 ^ (8 * N.of_nat m)).
  { pose proof (le_at_sub img soff sn 0 m Hb Hm1 Hfv) as E1.
    pose proof (le_at_sub img soff rn 0 m Hb Hm2 Hfw) as E2.
    change (256 ^ N.of_nat 0) with 1 in E1, E2. rewrite N.div_1_r in E1, E2.
    rewrite pow256 in E1, E2. rewrite <- E1, <- E2. reflexivity. }
  rewrite <- (bits_mod_pow2 lo w' (8 * N.of_nat m) (le_at img soff sn) HM).
  rewrite <- (bits_mod_pow2 lo w' (8 * N.of_nat m) (le_at img soff rn) HM).
  rewrite Hm. reflexivity.
Qed.

(** A green raw-pair obligation: the accessor of pkg/registers applied to the register's value
    IS the number the tools decoder reports for the slot, on every image where both report. *)
Theorem raw_pair_sound : forall specs accs slot id k ra,
  raw_pair_ok specs accs (slot, id, k, ra) = true ->
  exists ar, find_accessor ra accs = Some ar /\
  forall L img v w, incl L all_tools_slots -> (forall b, In b img -> b < 256) ->
    In (slot, v) (fst (read_seq L img)) -> In (id, w) (fst (read_txt img)) ->
    got_at (a_val ar) w = v.
Proof.
  intros specs accs slot id k ra H. unfold raw_pair_ok in H.
  destruct (find_spec ra specs) as [[Wr sr]|]; [|discriminate H].
  destruct (find_accessor ra accs) as [ar|]; [|discriminate H].
  destruct (find_entry slot all_tools_slots) as [[soff sn]|] eqn:Es; [|discriminate H].
  destruct (find_entry id txt_layout) as [[roff rn]|] eqn:Er; [|discriminate H].
  cbv beta iota in H.
  apply andb_true_iff in H. destruct H as [H Hsr].
  apply andb_true_iff in H. destruct H as [H Hk]. apply Nat.leb_le in Hk.
  apply andb_true_iff in H. destruct H as [H Hoff]. apply Nat.eqb_eq in Hoff. subst soff.
  apply andb_true_iff in H. destruct H as [H HWr]. apply N.eqb_eq in HWr.
  apply andb_true_iff in H. destruct H as [H Hcr]. apply N.eqb_eq in H.
  exists ar. split; [reflexivity|].
  intros L img v w Hincl Hb Hv Hw.
  destruct (tools_slot_value _ _ _ _ _ _ Hincl Es Hv) as [_ ->].
  destruct (txt_reg_value _ _ _ _ _ Er Hw) as [Hfw ->].
  assert (Hwb : le_at img roff rn < 2 ^ Wr).
  { rewrite HWr, <- pow256. apply le_at_bound; assumption. }
  rewrite (agrees_got Wr (a_val ar) sr _ (check_sound Wr (a_val ar) sr Hcr _ Hwb)).
  rewrite (le_at_sub img roff rn k sn Hb Hk Hfw).
  destruct sr as [lo w'|lo w'|lo w'|bt vs vc|]; cbv beta iota in Hsr; try discriminate Hsr.
  - apply andb_true_iff in Hsr. destruct Hsr as [E1 E2].
    apply N.eqb_eq in E1, E2. subst lo w'.
    unfold expected_at. cbn [spec_num]. rewrite bits_div_mod, !pow256. reflexivity.
  - apply andb_true_iff in Hsr. destruct Hsr as [E1 E2].
    apply Nat.eqb_eq in E1, E2. subst k sn.
    unfold expected_at. cbn [spec_num]. change (256 ^ N.of_nat 0) with 1. rewrite N.div_1_r.
    symmetry. apply N.mod_small. apply le_at_bound; assumption.
Qed.

(** the premises of [pair_sound] / [raw_pair_sound] are met: two accessors as the translator
    emits them, and an image on which both decoders report *)
Definition ex_accs : list accessor := [
  {| a_name := "tools.ParseTXTRegs.TxtReset"; a_width := 8; a_val := VBool (BNe (And Raw (Const 1)) (Const 0)) |};
  {| a_name := "registers.TXTErrorStatus.Reset"; a_width := 8; a_val := VBool (BNe (And Raw (Const 1)) (Const 0)) |};
  {| a_name := "registers.TXTDeviceID.DeviceID"; a_width := 64; a_val := VNum (Trunc (And (Shr Raw 16) (Const 65535)) 16) |}
]%string.
Definition ex_specs : list (string * N * aspec) := [
  ("tools.ParseTXTRegs.TxtReset", 8, Sp (SNonZero 0 1)); ("registers.TXTErrorStatus.Reset", 8, Sp (SNonZero 0 1));
  ("registers.TXTDeviceID.DeviceID", 64, Sp (SBits 16 16))
]%string.
Definition ex_image : list N := repeat 3 (N.to_nat 2296).
Lemma lookup_In : forall l s v, lookup s l = Some v -> In (s, v) l.
Proof.
  induction l as [|[k x] t IH]; intros s v H; [discriminate|].
  cbn [lookup] in H. destruct (String.eqb_spec s k) as [->|Hne].
  - injection H as ->. left. reflexivity.
  - right. apply IH, H.
Qed.
Example pair_sound_applies :
  pair_ok ex_specs ex_accs ("tools.ParseTXTRegs.TxtReset", "registers.TXTErrorStatus.Reset", "Ests", "TXT.ESTS")%string = true /\
  raw_pair_ok ex_specs ex_accs ("Did", "TXT.DIDVID", 2%nat, "registers.TXTDeviceID.DeviceID")%string = true /\
  In ("Ests"%string, 3) (fst (parse_txt ex_image)) /\ In ("TXT.ESTS"%string, 3) (fst (read_txt ex_image)) /\
  In ("Did"%string, 771) (fst (parse_txt ex_image)) /\ snd (parse_txt ex_image) = None.
Proof.
  split; [vm_compute; reflexivity|]. split; [vm_compute; reflexivity|].
  split; [apply lookup_In; vm_compute; reflexivity|]. split; [apply lookup_In; vm_compute; reflexivity|].
  split; [apply lookup_In; vm_compute; reflexivity|]. vm_compute. reflexivity.
Qed.

(** * 7. The generated obligations, as evaluated in coq/gen/Oblig_C04.v *)

Theorem pair_obligation_sound : forall specs accs ta ra slot id,
  snd (fst (oblig_pair specs accs (ta, ra, slot, id))) = true ->
  exists at_ ar, find_accessor ta accs = Some at_ /\ find_accessor ra accs = Some ar /\
  forall L img v w, incl L all_tools_slots -> (forall b, In b img -> b < 256) ->
    In (slot, v) (fst (read_seq L img)) -> In (id, w) (fst (read_txt img)) ->
    got_at (a_val at_) v = got_at (a_val ar) w.
Proof. intros specs accs ta ra slot id H. apply (pair_sound specs accs ta ra slot id). exact H. Qed.

Theorem raw_pair_obligation_sound : forall specs accs slot id k ra,
  snd (fst (oblig_raw_pair specs accs (slot, id, k, ra))) = true ->
  exists ar, find_accessor ra accs = Some ar /\
  forall L img v w, incl L all_tools_slots -> (forall b, In b img -> b < 256) ->
    In (slot, v) (fst (read_seq L img)) -> In (id, w) (fst (read_txt img)) ->
    got_at (a_val ar) w = v.
Proof. intros specs accs slot id k ra H. apply (raw_pair_sound specs accs slot id k ra). exact H. Qed.

(** ** Full images: nothing left to assume about what the decoders report *)

Lemma parse_txt_unfold img : parse_txt img = read_seq parse_layout img.
Proof. unfold parse_txt. reflexivity. Qed.

(** on an image that holds everything [ParseTXTRegs] reads (0x8f8 bytes) it succeeds and every
    slot is reported with the little-endian value of its own bytes *)
Theorem parse_txt_full : forall img, (2296 <= length img)%nat ->
  snd (parse_txt img) = None /\
  fst (parse_txt img) = map (fun e => (e_id e, le_at img (e_off e) (e_len e))) parse_layout.
Proof.
  intros img H. split; [apply parse_txt_ok_iff, H|].
  rewrite parse_txt_unfold, read_seq_fst, (fitting_prefix_all _ _ (parse_all_fit img H)). reflexivity.
Qed.

Lemma parse_incl : incl parse_layout all_tools_slots.
Proof. unfold all_tools_slots. apply incl_appl, incl_refl. Qed.

Lemma full_image_values img slot soff sn id roff rn :
  (2296 <= length img)%nat -> In (slot, soff, sn) parse_layout -> In (id, roff, rn) txt_layout ->
  In (slot, le_at img soff sn) (fst (read_seq parse_layout img)) /\
  In (id, le_at img roff rn) (fst (read_regs txt_layout img)).
Proof.
  intros Hlen Hs Hr. split.
  - rewrite read_seq_fst, (fitting_prefix_all _ _ (parse_all_fit img Hlen)).
    apply in_map_iff. exists (slot, soff, sn). split; [reflexivity|exact Hs].
  - apply read_regs_complete; [exact Hr|].
    assert (H1056 : (1056 <= length img)%nat) by lia.
    pose proof (txt_all_fit img H1056 (id, roff, rn) Hr) as Hf.
    unfold fits in Hf. cbn [e_off e_len fst snd] in Hf. apply Nat.leb_le in Hf. exact Hf.
Qed.

(** For every image of at least 0x8f8 bytes BOTH decoders report the field, and they report the
    same value. *)
Theorem decoders_agree_full : forall specs accs ta ra slot id soff sn roff rn,
  pair_ok specs accs (ta, ra, slot, id) = true ->
  In (slot, soff, sn) parse_layout -> In (id, roff, rn) txt_layout ->
  exists at_ ar, find_accessor ta accs = Some at_ /\ find_accessor ra accs = Some ar /\
  forall img, (2296 <= length img)%nat -> (forall b, In b img -> b < 256) ->
    exists v w, In (slot, v) (fst (parse_txt img)) /\ In (id, w) (fst (read_txt img)) /\
                got_at (a_val at_) v = got_at (a_val ar) w.
Proof.
  intros specs accs ta ra slot id soff sn roff rn Hp Hs Hr.
  destruct (pair_sound _ _ _ _ _ _ Hp) as (at_ & ar & Ha & Har & Hag).
  exists at_, ar. split; [exact Ha|]. split; [exact Har|].
  intros img Hlen Hb.
  destruct (full_image_values img slot soff sn id roff rn Hlen Hs Hr) as [Hv Hw].
  exists (le_at img soff sn), (le_at img roff rn).
  split; [rewrite parse_txt_unfold; exact Hv|]. split; [rewrite read_txt_unfold; exact Hw|].
  apply (Hag parse_layout img _ _ parse_incl Hb Hv). rewrite read_txt_unfold. exact Hw.
Qed.

Theorem decoders_agree_raw_full : forall specs accs slot id k ra soff sn roff rn,
  raw_pair_ok specs accs (slot, id, k, ra) = true ->
  In (slot, soff, sn) parse_layout -> In (id, roff, rn) txt_layout ->
  exists ar, find_accessor ra accs = Some ar /\
  forall img, (2296 <= length img)%nat -> (forall b, In b img -> b < 256) ->
    exists v w, In (slot, v) (fst (parse_txt img)) /\ In (id, w) (fst (read_txt img)) /\
                got_at (a_val ar) w = v.
Proof.
  intros specs accs slot id k ra soff sn roff rn Hp Hs Hr.
  destruct (raw_pair_sound _ _ _ _ _ _ Hp) as (ar & Har & Hag).
  exists ar. split; [exact Har|].
  intros img Hlen Hb.
  destruct (full_image_values img slot soff sn id roff rn Hlen Hs Hr) as [Hv Hw].
  exists (le_at img soff sn), (le_at img roff rn).
  split; [rewrite parse_txt_unfold; exact Hv|]. split; [rewrite read_txt_unfold; exact Hw|].
  apply (Hag parse_layout img _ _ parse_incl Hb Hv). rewrite read_txt_unfold. exact Hw.
Qed.

(** the premises are met by the example pair *)
Example decoders_agree_full_applies :
  In ("Ests"%string, 8, 1)%nat parse_layout /\ In ("TXT.ESTS"%string, 8, 1)%nat txt_layout /\
  In ("Did"%string, 274, 2)%nat parse_layout /\ In ("TXT.DIDVID"%string, 272, 8)%nat txt_layout.
Proof.
  split; [unfold parse_layout; do 3 right; left; reflexivity|].
  split; [unfold txt_layout; do 6 right; left; reflexivity|].
  split; [unfold parse_layout; do 7 right; left; reflexivity|].
  unfold txt_layout; do 10 right; left; reflexivity.
Qed.

(** the decoders of pkg/tools are chains over slots of [all_tools_slots] *)
Lemma tools_decoders_incl : forall which lay flds, tools_decoder which = Some (lay, flds) -> incl lay all_tools_slots.
Proof.
  intros which lay flds H. unfold tools_decoder in H. unfold all_tools_slots.
  destruct (String.eqb which "ParseTXTRegs"%string); [injection H as <- _; apply incl_appl, incl_refl|].
  destruct (String.eqb which "ReadACMStatus"%string); [injection H as <- _; apply incl_appr, incl_appl, incl_refl|].
  destruct (String.eqb which "ReadACMPolicyStatusRaw"%string); [injection H as <- _; apply incl_appr, incl_appr, incl_appl, incl_refl|].
  destruct (String.eqb which "ReadBootStatusRaw"%string); [injection H as <- _; apply incl_appr, incl_appr, incl_appr, incl_refl|].
  discriminate.
Qed.
