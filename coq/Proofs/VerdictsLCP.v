(** Proofs about Model/VerdictsLCP.v (property C05): PSIndexHasValidLCP / POIndexHasValidLCP as
    functions of the TPM family, the NV public area and the BYTES of the index, through
    tools.ParsePolicy. *)
From CSS Require Import Lib.Base Model.Verdicts Model.VerdictsLCP Proofs.Verdicts.
From Coq Require Import ZifyBool ZifyNat.

Local Open Scope Z_scope.

(** the version word: the first two bytes, little endian *)
Definition version_word (d : list Z) : Z := le (sub d 0 2).

(** * What the property says about the bytes of an index *)

(** [d] starts with a complete LCP_POLICY (54 bytes, version below 2.4) showing the accepted
    pattern: HashAlg SHA1 (0), PolicyType LIST (0) or ANY (1), a SINIT minimum version, a
    LIST policy has a PolicyControl, MaxSINITMinVersion 0, PolicyHash not all zero *)
Definition lcp1_bytes_spec (d : list Z) : Prop :=
  (54 <= length d)%nat /\
  version_word d < LCP_V2 /\ byte_at d 2 = 0 /\ (byte_at d 3 = 0 \/ byte_at d 3 = 1) /\
  byte_at d 4 <> 0 /\ ~ (byte_at d 3 = 0 /\ le (sub d 22 4) = 0) /\ byte_at d 26 = 0 /\
  (exists x, In x (sub d 34 20) /\ x <> 0).

(** [d] starts with a complete LCP_POLICY2 (38 bytes and the digest of its HashAlg - TCG digest
    sizes -, version from 3.0) showing the pattern [lcp2_spec] *)
Definition lcp2_bytes_spec (preset : Z) (d : list Z) : Prop :=
  exists h, tpm_digest (le (sub d 2 2)) = Some h /\ 38 + h <= Z.of_nat (length d) /\
    lcp2_spec preset (version_word d) (le (sub d 2 2)) (byte_at d 4) (le (sub d 28 2)) (le (sub d 30 4)).

Definition lcp_bytes_spec (preset : Z) (d : list Z) : Prop :=
  lcp1_bytes_spec d \/ lcp2_bytes_spec preset d.

(** a version word that belongs to neither family (0x0204 itself is refused by the LCP_POLICY
    pattern) excludes both *)
Lemma lcp_bytes_spec_version preset d :
  lcp_bytes_spec preset d -> version_word d < LCP_V2 \/ LCP_V3 <= version_word d.
Proof.
  intros [H|(h & _ & _ & H)].
  - left. apply H.
  - right. apply H.
Qed.

(** * tools.ParsePolicy *)

Lemma forallb_zero_false l :
  forallb (Z.eqb 0) l = false <-> exists x, In x l /\ x <> 0.
Proof.
  induction l as [|a l IH]; cbn [forallb].
  - split; [discriminate|]. intros (x & [] & _).
  - destruct (0 =? a) eqn:E; cbn [andb].
    + rewrite IH. split.
      * intros (x & Hx & Hn). exists x. split; [right; exact Hx|exact Hn].
      * intros (x & [<-|Hx] & Hn); [exfalso; lia|]. exists x. split; assumption.
    + split; [|reflexivity]. intros _. exists a. split; [left; reflexivity|lia].
Qed.

Lemma hash_size_digest a h : tpm_hash_size a = Some h -> tpm_digest a = Some h /\ 20 <= h <= 64 /\ a <> 18.
Proof.
  unfold tpm_hash_size, tpm_digest. intros H.
  destruct (a =? 4) eqn:E4; [injection H as <-; split; [reflexivity|lia]|].
  destruct (a =? 11) eqn:E11; [injection H as <-; split; [reflexivity|lia]|].
  destruct (a =? 12) eqn:E12; [injection H as <-; split; [reflexivity|lia]|].
  destruct (a =? 13) eqn:E13; [injection H as <-; split; [reflexivity|lia]|discriminate].
Qed.

Lemma digest_hash_size a h : a <> 18 -> tpm_digest a = Some h -> tpm_hash_size a = Some h.
Proof. intros Hn H. rewrite (tpm_hash_digest a Hn). exact H. Qed.

(** the version split of ParsePolicy: an LCP_POLICY comes from a version word up to 0x0204, an
    LCP_POLICY2 from one of 0x0300 or more, and a word between the two families is an error *)
Theorem ParsePolicy_split : forall b,
  match parse_policy b with
  | L1 v _ _ _ _ _ _ => v = version_word b /\ v <= LCP_V2 /\ (54 <= length b)%nat
  | L2 v _ _ _ _ => v = version_word b /\ LCP_V3 <= v /\ (38 <= length b)%nat
  | LErr => True
  end.
Proof.
  intros b. unfold parse_policy, version_word.
  destruct (length b <? 2)%nat; [exact I|].
  destruct (le (sub b 0 2) <=? LCP_V2) eqn:E1.
  - unfold parse_policy1. destruct (length b <? 54)%nat eqn:E; [exact I|]. repeat split; lia.
  - destruct (le (sub b 0 2) >=? LCP_V3) eqn:E2; [|exact I].
    unfold parse_policy2. destruct (length b <? 38)%nat eqn:E; [exact I|].
    destruct (tpm_hash_size _); [|exact I]. destruct (_ && _); [exact I|]. repeat split; lia.
Qed.

Theorem ParsePolicy_gap : forall b,
  LCP_V2 < version_word b < LCP_V3 -> parse_policy b = LErr.
Proof.
  intros b H. unfold parse_policy, version_word in *.
  destruct (length b <? 2)%nat; [reflexivity|].
  replace (le (sub b 0 2) <=? LCP_V2) with false by lia.
  replace (le (sub b 0 2) >=? LCP_V3) with false by lia. reflexivity.
Qed.

(** the verdict on the bytes: EXACT for byte strings that do not stop right behind the 38 bytes
    in front of the digest (parsePolicy2 tolerates a digest that is missing altogether; the
    checks never read such a string: they read 54 bytes or 38 + a digest).
    PARTIAL: preset LCP hash other than SM3-256 (finding C05-NVIndex-SM3-lib). *)
Theorem LCPBytes_exact_partial : forall preset d onerr,
  onerr <> pass -> length d <> 38%nat -> preset <> 18 ->
  (lcp_fields_verdict preset (parse_policy d) onerr = pass <-> lcp_bytes_spec preset d).
Proof.
  intros preset d onerr Hon Hlen Hpre.
  unfold lcp_bytes_spec, lcp1_bytes_spec, lcp2_bytes_spec, parse_policy, version_word.
  destruct (length d <? 2)%nat eqn:E0.
  { cbn [lcp_fields_verdict]. split; [intros; contradiction|].
    intros [(H & _)|(h & Hh & Hl & _)]; [lia|].
    assert (0 <= h). { unfold tpm_digest in Hh. repeat (destruct (_ =? _) in Hh; [injection Hh as <-; lia|]). discriminate. }
    lia. }
  destruct (le (sub d 0 2) <=? LCP_V2) eqn:E1.
  - (* LCP_POLICY *)
    unfold parse_policy1. destruct (length d <? 54)%nat eqn:E54.
    + cbn [lcp_fields_verdict]. split; [intros; contradiction|].
      intros [(H & _)|(h & _ & _ & Hs)]; [lia|]. unfold lcp2_spec, LCP_V3, LCP_V2 in *. lia.
    + cbn [lcp_fields_verdict]. rewrite LCP1_exact. rewrite forallb_zero_false. split.
      * intros H. left. split; [lia|]. exact H.
      * intros [(_ & H)|(h & _ & _ & Hs)]; [exact H|]. unfold lcp2_spec, LCP_V3, LCP_V2 in *. lia.
  - destruct (le (sub d 0 2) >=? LCP_V3) eqn:E2.
    + (* LCP_POLICY2 *)
      unfold parse_policy2. destruct (length d <? 38)%nat eqn:E38.
      { cbn [lcp_fields_verdict]. split; [intros; contradiction|].
        intros [(H & _)|(h & Hh & Hl & _)]; [lia|].
        assert (0 <= h). { unfold tpm_digest in Hh. repeat (destruct (_ =? _) in Hh; [injection Hh as <-; lia|]). discriminate. }
        lia. }
      destruct (tpm_hash_size (le (sub d 2 2))) as [h|] eqn:Eh.
      * destruct (hash_size_digest _ _ Eh) as (Hd & Hr & _).
        destruct ((0 <? (length d - 38))%nat && (Z.of_nat (length d - 38) <? h)) eqn:Er.
        -- cbn [lcp_fields_verdict]. split; [intros; contradiction|].
           intros [(_ & H & _)|(h' & Hh' & Hl & _)]; [unfold LCP_V2 in *; lia|].
           rewrite Hd in Hh'. injection Hh' as <-. lia.
        -- cbn [lcp_fields_verdict]. rewrite (proj1 (LCP2_exact _ _ _ _ _ _)). split.
           ++ intros H. right. exists h. split; [exact Hd|]. split; [lia|exact H].
           ++ intros [(_ & H & _)|(h' & _ & _ & H)]; [unfold LCP_V2 in *; lia|exact H].
      * cbn [lcp_fields_verdict]. split; [intros; contradiction|].
        intros [(_ & H & _)|(h' & Hh' & _ & Hs)]; [unfold LCP_V2 in *; lia|].
        assert (Ha : le (sub d 2 2) <> 18) by (unfold lcp2_spec in Hs; lia).
        rewrite (digest_hash_size _ _ Ha Hh') in Eh. discriminate.
    + cbn [lcp_fields_verdict]. split; [intros; contradiction|].
      intros H. apply lcp_bytes_spec_version in H. unfold version_word in H. lia.
Qed.

(** fail closed for every preset: a pass means the specified bytes *)
Theorem LCPBytes_sound : forall preset d onerr,
  onerr <> pass -> length d <> 38%nat ->
  lcp_fields_verdict preset (parse_policy d) onerr = pass -> lcp_bytes_spec preset d.
Proof.
  intros preset d onerr Hon Hlen H.
  destruct (Z.eq_dec preset 18) as [->|Hp].
  - (* preset SM3-256: no LCP_POLICY2 passes at all; an LCP_POLICY does not look at the preset *)
    pose proof (ParsePolicy_split d) as Hs.
    destruct (parse_policy d) as [|v h t s pc ms hz|v h t hm sm] eqn:Ep; cbn [lcp_fields_verdict] in H.
    + contradiction.
    + assert (H0 : lcp_bytes_spec 0 d).
      { apply (LCPBytes_exact_partial 0 d onerr Hon Hlen); [lia|]. rewrite Ep. exact H. }
      destruct H0 as [H1|(h' & _ & _ & H2)]; [left; exact H1|].
      exfalso. unfold lcp2_spec, LCP_V2, LCP_V3 in *. lia.
    + exfalso. apply (proj1 (LCP2_exact _ _ _ _ _ _)) in H. destruct H as (_ & Hh & _). subst h.
      unfold parse_policy in Ep. destruct (length d <? 2)%nat; [discriminate|].
      destruct (_ <=? _) in Ep.
      * unfold parse_policy1 in Ep. destruct (_ <? _)%nat in Ep; discriminate.
      * destruct (_ >=? _) in Ep; [|discriminate]. unfold parse_policy2 in Ep.
        destruct (_ <? _)%nat in Ep; [discriminate|].
        destruct (tpm_hash_size (le (sub d 2 2))) as [hs|] eqn:Eh; [|discriminate].
        destruct (_ && _) in Ep; [discriminate|]. injection Ep as _ Ea _ _ _.
        apply hash_size_digest in Eh. lia.
  - apply (LCPBytes_exact_partial preset d onerr Hon Hlen Hp). exact H.
Qed.

(** a byte string with a version word of neither family never passes, whatever its length *)
Theorem LCPBytes_undefined_version : forall preset d onerr,
  onerr <> pass -> LCP_V2 <= version_word d < LCP_V3 ->
  lcp_fields_verdict preset (parse_policy d) onerr <> pass.
Proof.
  intros preset d onerr Hon Hv.
  destruct (Z.eq_dec (version_word d) LCP_V2) as [He|Hn].
  - pose proof (ParsePolicy_split d) as Hs.
    destruct (parse_policy d) as [|v h t s pc ms hz|v h t hm sm]; cbn [lcp_fields_verdict].
    + exact Hon.
    + intros H. apply LCP1_exact in H. lia.
    + unfold LCP_V2, LCP_V3 in *. lia.
  - rewrite ParsePolicy_gap by lia. exact Hon.
Qed.

(** * The NV interface *)

Lemma nv_read_some data size d : 0 <= size ->
  nv_read data size = Some d ->
  exists full, data = Some full /\ size <= Z.of_nat (length full) /\
    d = firstn (Z.to_nat size) full /\ length d = Z.to_nat size.
Proof.
  intros Hs H. unfold nv_read in H. destruct data as [full|]; [|discriminate].
  destruct (Z.of_nat (length full) <? size) eqn:E; [discriminate|]. injection H as <-.
  exists full. split; [reflexivity|]. split; [lia|]. split; [reflexivity|].
  rewrite firstn_length. lia.
Qed.

Lemma nv_read_ok full size : 0 <= size <= Z.of_nat (length full) ->
  nv_read (Some full) size = Some (firstn (Z.to_nat size) full).
Proof. intros H. unfold nv_read. replace (Z.of_nat (length full) <? size) with false by lia. reflexivity. Qed.

(** * The checks on a platform *)

(** [d] is the content of the index as its table entry sizes it: the first 54 bytes (TPM 1.2,
    Table J-1) or the first 38 + digest-size-of-the-name-algorithm bytes (TPM 2.0, Table J-2) of
    the bytes [full] stored in the index; for the PO index of a TPM 1.2 the index must be
    defined as well *)
Definition index_window (po : bool) (tpm : Z) (pub : nvst) (data : option (list Z)) (d : list Z) : Prop :=
  exists full n, data = Some full /\ (n <= length full)%nat /\ d = firstn n full /\
    ((tpm = TPM12 /\ n = 54%nat /\ (po = true -> exists b, pub = NvBlob b)) \/
     (tpm = TPM20 /\ exists b alg attrs h ds hs, pub = NvBlob b /\
        parse_nvpub b = Some (alg, attrs, h, ds) /\ tpm_digest alg = Some hs /\ Z.of_nat n = 38 + hs)).

Lemma index_window_length po tpm pub data d : index_window po tpm pub data d -> (54 <= length d)%nat.
Proof.
  intros (full & n & _ & Hn & -> & H). rewrite firstn_length.
  destruct H as [(_ & -> & _)|(_ & b & alg & attrs & h & ds & hs & _ & _ & Hd & Hs)]; [lia|].
  assert (20 <= hs). { unfold tpm_digest in Hd. repeat (destruct (_ =? _) in Hd; [injection Hd as <-; lia|]). discriminate. }
  lia.
Qed.

Lemma idx_size_hash which h : which <> 1 -> 20 <= h <= 64 -> idx_size which h = 38 + h.
Proof.
  intros Hw Hh. unfold idx_size. replace (which =? 1) with false by lia.
  rewrite (wrap16_small h) by (unfold W16; lia). rewrite wrap16_small by (unfold W16; lia). lia.
Qed.

(** never a panic *)
Theorem LCPIndex_total : forall po tpm pub data preset, lcp_index po tpm pub data preset <> VPanic.
Proof.
  assert (F : forall preset p onerr, onerr <> VPanic -> lcp_fields_verdict preset p onerr <> VPanic).
  { intros preset p onerr Ho. destruct p; cbn [lcp_fields_verdict]; [exact Ho| |].
    - unfold lcp_valid1, pass, fail. brk; discriminate.
    - apply LCP2_exact. }
  intros po tpm pub data preset. unfold lcp_index, ps_lcp, po_lcp, pass, fail, ierr, warn.
  destruct po; destruct (tpm =? TPM12); try destruct (tpm =? TPM20); try discriminate;
    destruct pub; try discriminate;
    repeat match goal with
           | |- context [match ?x with _ => _ end] =>
               match x with
               | nv_read _ _ => destruct x
               | lcp20_size _ _ => destruct x
               | parse_nvpub _ => destruct x as [[[[? ?] ?] ?]|]
               | tpm_hash_size _ => destruct x
               end
           end; try discriminate; apply F; discriminate.
Qed.

(** what a pass presupposes: the index could be read; the verdict is then the one on its window *)
Lemma lcp_index_pass_window po tpm pub data preset :
  lcp_index po tpm pub data preset = pass ->
  exists d onerr, onerr <> pass /\ index_window po tpm pub data d /\
    lcp_fields_verdict preset (parse_policy d) onerr = pass.
Proof.
  unfold lcp_index, ps_lcp, po_lcp, lcp20_size, LCP12_SIZE.
  intros H.
  assert (W12 : forall d, nv_read data 54 = Some d -> (po = true -> exists b, pub = NvBlob b) -> tpm = TPM12 ->
                          index_window po tpm pub data d).
  { intros d Hr Hp Ht. apply nv_read_some in Hr; [|lia]. destruct Hr as (full & -> & Hl & -> & _).
    exists full, 54%nat. split; [reflexivity|]. split; [lia|]. split; [reflexivity|]. left. auto. }
  assert (W20 : forall b alg attrs h ds hs d, pub = NvBlob b -> parse_nvpub b = Some (alg, attrs, h, ds) ->
                  tpm_hash_size alg = Some hs -> nv_read data (38 + hs) = Some d -> tpm = TPM20 ->
                  index_window po tpm pub data d).
  { intros b alg attrs h ds hs d Hb Hp Hh Hr Ht. destruct (hash_size_digest _ _ Hh) as (Hd & Hrg & _).
    apply nv_read_some in Hr; [|lia]. destruct Hr as (full & -> & Hl & -> & _).
    exists full, (Z.to_nat (38 + hs)). split; [reflexivity|]. split; [lia|]. split; [reflexivity|].
    right. split; [exact Ht|]. exists b, alg, attrs, h, ds, hs. repeat split; try assumption. lia. }
  destruct po.
  - destruct (tpm =? TPM12) eqn:E12.
    + destruct pub as [| |b]; try discriminate.
      destruct (nv_read data 54) as [d|] eqn:Er; [|discriminate].
      exists d, ierr. split; [discriminate|]. split; [|exact H]. apply W12; [reflexivity| |lia]. intros _. exists b. reflexivity.
    + destruct (tpm =? TPM20) eqn:E20; [|discriminate].
      destruct pub as [| |b]; try discriminate.
      destruct (parse_nvpub b) as [[[[alg attrs] h] ds]|] eqn:Ep; [|discriminate].
      destruct (tpm_hash_size alg) as [hs|] eqn:Eh; [|discriminate].
      rewrite idx_size_hash in H by (try lia; apply (hash_size_digest _ _ Eh)).
      destruct (nv_read data (38 + hs)) as [d|] eqn:Er; [|discriminate].
      exists d, ierr. split; [discriminate|]. split; [|exact H].
      apply (W20 b alg attrs h ds hs d); try assumption; try reflexivity. lia.
  - destruct (tpm =? TPM12) eqn:E12.
    + destruct (nv_read data 54) as [d|] eqn:Er; [|discriminate].
      exists d, fail. split; [discriminate|]. split; [|exact H]. apply W12; [reflexivity| |lia]. discriminate.
    + destruct (tpm =? TPM20) eqn:E20; [|discriminate].
      destruct pub as [| |b]; try discriminate.
      destruct (parse_nvpub b) as [[[[alg attrs] h] ds]|] eqn:Ep; [|discriminate].
      destruct (tpm_hash_size alg) as [hs|] eqn:Eh; [|discriminate].
      rewrite idx_size_hash in H by (try lia; apply (hash_size_digest _ _ Eh)).
      destruct (nv_read data (38 + hs)) as [d|] eqn:Er; [|discriminate].
      exists d, fail. split; [discriminate|]. split; [|exact H].
      apply (W20 b alg attrs h ds hs d); try assumption; try reflexivity. lia.
Qed.

(** SOUND on every platform, for every preset: a pass of PSIndexHasValidLCP / POIndexHasValidLCP
    means that the index could be read and that its content starts with a complete policy of
    one of the two versions showing the accepted pattern *)
Theorem LCPIndex_sound : forall po tpm pub data preset,
  lcp_index po tpm pub data preset = pass ->
  exists d, index_window po tpm pub data d /\ lcp_bytes_spec preset d.
Proof.
  intros po tpm pub data preset H.
  destruct (lcp_index_pass_window _ _ _ _ _ H) as (d & onerr & Ho & Hw & Hv).
  exists d. split; [exact Hw|]. apply (LCPBytes_sound preset d onerr Ho); [|exact Hv].
  apply index_window_length in Hw. lia.
Qed.

(** the version word of a window is the version word of the index *)
Lemma window_version po tpm pub data d full :
  index_window po tpm pub data d -> data = Some full -> version_word d = version_word full.
Proof.
  intros Hw Hd. pose proof (index_window_length _ _ _ _ _ Hw) as Hl.
  destruct Hw as (full' & n & Hd' & Hn & -> & _). rewrite Hd in Hd'. injection Hd' as <-.
  unfold version_word, sub. cbn [skipn]. rewrite firstn_firstn.
  rewrite firstn_length in Hl. replace (Nat.min 2 n) with 2%nat by lia. reflexivity.
Qed.

(** an index whose bytes begin with a version word of neither family (0x0204 .. 0x02ff) is never
    reported as holding a valid policy - on no platform, for no preset, whatever follows the
    version word *)
Theorem LCPIndex_undefined_version : forall po tpm pub full preset,
  LCP_V2 <= version_word full < LCP_V3 ->
  lcp_index po tpm pub (Some full) preset <> pass.
Proof.
  intros po tpm pub full preset Hv H.
  destruct (LCPIndex_sound _ _ _ _ _ H) as (d & Hw & Hs).
  apply lcp_bytes_spec_version in Hs. rewrite (window_version _ _ _ _ _ full Hw eq_refl) in Hs. lia.
Qed.

(** EXACT where the index can be read: the verdict is a pass iff the window shows the specified
    bytes, and otherwise the result is false (never true with an error).
    PARTIAL: neither the preset LCP hash nor the name algorithm of the index is SM3-256
    (finding C05-NVIndex-SM3-lib). *)
Theorem LCPIndex_exact_partial : forall po tpm pub data preset d,
  index_window po tpm pub data d -> preset <> 18 ->
  (forall b alg attrs h ds, pub = NvBlob b -> parse_nvpub b = Some (alg, attrs, h, ds) -> alg <> 18) ->
  (lcp_index po tpm pub data preset = pass <-> lcp_bytes_spec preset d) /\
  (~ lcp_bytes_spec preset d -> exists e1 e2, lcp_index po tpm pub data preset = V false e1 e2).
Proof.
  intros po tpm pub data preset d Hw Hp Hsm.
  pose proof (index_window_length _ _ _ _ _ Hw) as Hlen.
  assert (F : forall onerr, (onerr = fail \/ onerr = ierr) ->
              (lcp_fields_verdict preset (parse_policy d) onerr = pass <-> lcp_bytes_spec preset d) /\
              (~ lcp_bytes_spec preset d -> exists e1 e2, lcp_fields_verdict preset (parse_policy d) onerr = V false e1 e2)).
  { intros onerr Ho.
    assert (Hne : onerr <> pass) by (destruct Ho as [-> | ->]; discriminate).
    pose proof (LCPBytes_exact_partial preset d onerr Hne ltac:(lia) Hp) as Hex.
    split; [exact Hex|]. intros Hn.
    destruct (parse_policy d) as [|v h t s pc ms hz|v h t hm sm]; cbn [lcp_fields_verdict] in *.
    - destruct Ho as [-> | ->]; [exists true, false|exists false, true]; reflexivity.
    - unfold lcp_valid1, fail in *. destruct (lcp_valid1 v h t s pc ms hz) eqn:E; unfold lcp_valid1, pass, fail in *;
        brk; try (exists true, false; reflexivity); exfalso; apply Hn; apply Hex; reflexivity.
    - unfold lcp_valid2, pass, fail in *; brk; try (exists true, false; reflexivity); exfalso; apply Hn; apply Hex; reflexivity. }
  destruct Hw as (full & n & -> & Hn & -> & Hcase).
  unfold lcp_index, ps_lcp, po_lcp, lcp20_size, LCP12_SIZE.
  destruct Hcase as [(-> & -> & Hpub)|(-> & b & alg & attrs & h & ds & hs & -> & Hpn & Hd & Hs)].
  - cbn [Z.eqb TPM12 Pos.eqb]. rewrite (nv_read_ok full 54) by lia. change (Z.to_nat 54) with 54%nat.
    destruct po.
    + destruct (Hpub eq_refl) as (b & ->). apply F. right. reflexivity.
    + apply F. left. reflexivity.
  - cbn [Z.eqb TPM12 TPM20 Pos.eqb]. rewrite Hpn.
    assert (Ha : alg <> 18) by (apply (Hsm b alg attrs h ds eq_refl Hpn)).
    rewrite (digest_hash_size _ _ Ha Hd).
    assert (Hr : 20 <= hs <= 64). { apply (hash_size_digest alg). apply digest_hash_size; assumption. }
    rewrite !idx_size_hash by lia.
    rewrite (nv_read_ok full (38 + hs)) by lia. replace (Z.to_nat (38 + hs)) with n by lia.
    destruct po; apply F; [right|left]; reflexivity.
Qed.

(** * Witnesses *)

(** a valid LCP_POLICY (version 2.2, ANY, hash 1,0,..) / LCP_POLICY2 (the given version and
    hash algorithm, ANY, masks 8, digest 1,0,..) *)
Definition pol1_bytes (version : Z) : list Z :=
  [version mod 256; version / 256; 0; 1; 1; 0] ++ repeat 0 16 ++ [2; 0; 0; 0; 0; 0; 0; 0; 0; 0; 0; 0] ++ 1 :: repeat 0 19.
Definition pol2_bytes (version alg : Z) (digest : nat) : list Z :=
  [version mod 256; version / 256; alg; 0; 1; 1] ++ repeat 0 16 ++ [0; 0; 0; 0; 0; 0; 8; 0; 8; 0; 0; 0; 0; 0; 0; 0] ++ 1 :: repeat 0 (digest - 1).
(** the NV public area of a TPM 2.0 PS / PO index with the given name algorithm *)
Definition pub20 (namealg : Z) : nvst := NvBlob (ps_blob [98; 4; 4; 8] namealg 70).

(** correctly configured indices are accepted: LCP_POLICY in a TPM 1.2 PS and PO index,
    LCP_POLICY2 (SHA256, version 3.0) in a TPM 2.0 PS and PO index named by SHA256, and a
    SHA1 LCP_POLICY2 in an index named by SHA384 *)
Theorem LCPIndex_accepts :
  lcp_index false 1 NvAbsent (Some (pol1_bytes 514)) 11 = pass /\
  lcp_index true 1 (NvBlob [0]) (Some (pol1_bytes 514)) 11 = pass /\
  lcp_index false 2 (pub20 11) (Some (pol2_bytes 768 11 32)) 11 = pass /\
  lcp_index true 2 (pub20 11) (Some (pol2_bytes 768 11 32)) 11 = pass /\
  lcp_index false 2 (pub20 12) (Some (pol2_bytes 772 4 20 ++ repeat 0 28)) 4 = pass /\
  lcp_bytes_spec 11 (pol2_bytes 768 11 32) /\ lcp_bytes_spec 11 (pol1_bytes 514).
Proof.
  repeat split; try (vm_compute; reflexivity).
  - right. exists 32. vm_compute. repeat split; try discriminate. right; reflexivity.
  - left. unfold lcp1_bytes_spec. vm_compute. repeat split; try discriminate; try lia.
    exists 1. split; [left; reflexivity|discriminate].
Qed.

(** the same LCP_POLICY2 with the undefined version words 0x0205 and 0x02ff in a TPM 2.0 index:
    test error (PS) / internal error (PO) *)
Theorem LCPIndex_gap_witness :
  lcp_index false 2 (pub20 11) (Some (pol2_bytes 517 11 32)) 11 = fail /\
  lcp_index true 2 (pub20 11) (Some (pol2_bytes 767 11 32)) 11 = ierr /\
  lcp_index false 2 (pub20 11) (Some (pol2_bytes 516 11 32)) 11 = fail.
Proof. vm_compute. repeat split; reflexivity. Qed.

(** finding C05-NVIndex-SM3-lib seen from the LCP checks: with SM3-256 as preset LCP hash a
    complete, well-formed SM3 LCP_POLICY2 in a readable index is refused (ParsePolicy takes the
    digest size from go-tpm) *)
Theorem LCPIndex_sm3_refuted :
  exists d, index_window false 2 (pub20 11) (Some d) d /\ lcp_bytes_spec 18 d /\
    lcp_index false 2 (pub20 11) (Some d) 18 = fail.
Proof.
  exists (pol2_bytes 768 18 32). split; [|split].
  - exists (pol2_bytes 768 18 32), 70%nat. split; [reflexivity|]. split; [vm_compute; lia|].
    split; [vm_compute; reflexivity|]. right. split; [reflexivity|].
    exists (ps_blob [98; 4; 4; 8] 11 70), 11, PS20_ATTR, (repeat 0 32), 70, 32.
    repeat split; vm_compute; reflexivity.
  - right. exists 32. vm_compute. repeat split; try discriminate. right; reflexivity.
  - vm_compute. reflexivity.
Qed.
