(** Proofs about Model/TPMExec.v: the API level of the simulated TPM
    (TPMExecute with any Command and a cause, Commands.Apply, direct Apply,
    CommandLog.Commands, PCRValues.Set). *)
From CSS Require Import Lib.Base Model.TPM Proofs.TPM Model.TPMExec.

(** * 1. [apply] works on SupportedAlgos, PCRValues and EventLog only *)

Definition same_core (s1 s2 : state) : Prop :=
  algos s1 = algos s2 /\ pcrs s1 = pcrs s2 /\ evlog s1 = evlog s2.

Lemma same_core_refl s : same_core s s.
Proof. repeat split. Qed.

Lemma same_core_sym s1 s2 : same_core s1 s2 -> same_core s2 s1.
Proof. intros (A & B & C). repeat split; auto. Qed.

Lemma same_core_trans s1 s2 s3 : same_core s1 s2 -> same_core s2 s3 -> same_core s1 s3.
Proof. intros (A & B & C) (A' & B' & C'). repeat split; congruence. Qed.

Definition ok_res (r : outcome unit) : Prop := r = Ok tt.

Lemma ok_res_dec (r : outcome unit) : {r = Ok tt} + {r <> Ok tt}.
Proof. destruct r as [[]|e| |]; [left; reflexivity|right; discriminate ..]. Qed.

(** induction over nested [Commands] *)
Fixpoint xcmd_ind' (P : xcmd -> Prop)
         (f1 : forall c, P (XOne c)) (f2 : forall cs, Forall P cs -> P (XMany cs)) (x : xcmd) : P x :=
  match x with
  | XOne c => f1 c
  | XMany cs =>
      f2 cs ((fix go (l : list xcmd) : Forall P l :=
                match l with
                | [] => Forall_nil P
                | y :: t => Forall_cons y (xcmd_ind' P f1 f2 y) (go t)
                end) cs)
  end.

Section WithHash.
Variable H : Z -> list Z -> list Z.

Lemma apply_same_core s1 s2 c :
  same_core s1 s2 ->
  same_core (fst (apply H s1 c)) (fst (apply H s2 c)) /\ snd (apply H s1 c) = snd (apply H s2 c).
Proof.
  destruct s1 as [al1 pv1 cl1 ev1], s2 as [al2 pv2 cl2 ev2]. unfold same_core. cbn [algos pcrs evlog].
  intros (-> & -> & ->).
  destruct c as [l|p a d|p a d ty data| |]; cbn [apply].
  - unfold initialized. cbn [pcrs]. destruct pv2; cbn; auto.
  - destruct ((a <? 0) || (POOL_SIZE <=? a)); [cbn; auto|].
    destruct (negb (is_hash a)); [cbn; auto|].
    cbn [pcrs]. destruct (get pv2 p a) as [old|e| |]; try (cbn; auto; fail).
    destruct (Nat.eqb (length old) (hsize a)); cbn; auto.
  - cbn. auto.
  - cbn. auto.
  - cbn. auto.
Qed.

Lemma apply_cmdlog st c : is_cmd c = true -> cmdlog (fst (apply H st c)) = cmdlog st.
Proof.
  destruct c as [l|p a d|p a d ty data| |]; cbn [is_cmd]; try discriminate; intros _; cbn [apply].
  - destruct (initialized st); reflexivity.
  - destruct ((a <? 0) || (POOL_SIZE <=? a)); [reflexivity|].
    destruct (negb (is_hash a)); [reflexivity|].
    destruct (get (pcrs st) p a) as [old|e| |]; try reflexivity.
    destruct (Nat.eqb (length old) (hsize a)); reflexivity.
  - reflexivity.
Qed.

(** a command that does not return nil changes nothing at all *)
Lemma apply_not_ok_unchanged st c : snd (apply H st c) <> Ok tt -> fst (apply H st c) = st.
Proof.
  destruct c as [l|p a d|p a d ty data| |]; cbn [apply].
  - destruct (initialized st); cbn; [reflexivity|congruence].
  - destruct ((a <? 0) || (POOL_SIZE <=? a)); [reflexivity|].
    destruct (negb (is_hash a)); [reflexivity|].
    destruct (get (pcrs st) p a) as [old|e| |]; try reflexivity.
    destruct (Nat.eqb (length old) (hsize a)); cbn; [congruence|reflexivity].
  - cbn. congruence.
  - cbn. congruence.
  - cbn. congruence.
Qed.

Lemma apply_no_panic st c :
  cmd_in_range c -> snd (apply H st c) <> Panic /\ snd (apply H st c) <> OutOfFuel.
Proof.
  destruct c as [l|p a d|p a d ty data| |]; intros Hr; cbn [apply].
  - destruct (initialized st); split; discriminate.
  - cbn [cmd_in_range] in Hr.
    replace ((a <? 0) || (POOL_SIZE <=? a)) with false by (unfold POOL_SIZE; lia).
    destruct (negb (is_hash a)); cbn [snd]; [split; discriminate|].
    unfold get. destruct (nthZ (pcrs st) p) as [banks|]; cbn [snd]; [|split; discriminate].
    destruct (nthZ banks a) as [v|]; cbn [snd]; [|split; discriminate].
    destruct (Nat.eqb (length v) (hsize a)); cbn [snd]; split; discriminate.
  - split; discriminate.
  - split; discriminate.
  - split; discriminate.
Qed.

(** [TPMExecute] of a single command is [step] *)
Lemma step_is_apply st c : is_cmd c = true -> step H st c = apply H (log_cmd st c) c.
Proof. destruct c; cbn [is_cmd]; try discriminate; reflexivity. Qed.

(** exact outcome of an extend on ANY state (also one whose banks were
    overridden through PCRValues.Set) *)
Lemma extend_outcome_any st p a d :
  0 <= a < 65536 ->
  (snd (step H st (Extend p a d)) = Ok tt <->
   is_hash a = true /\ exists old, get (pcrs st) p a = Ok old /\ length old = hsize a).
Proof.
  intros Ha. cbn [step apply log_cmd pcrs].
  replace ((a <? 0) || (POOL_SIZE <=? a)) with false by (unfold POOL_SIZE; lia).
  destruct (is_hash a) eqn:Hh; cbn [negb].
  - destruct (get (pcrs st) p a) as [old|e| |] eqn:Hg.
    + destruct (Nat.eqb (length old) (hsize a)) eqn:Hl; cbn [snd].
      * apply Nat.eqb_eq in Hl. split; [intros _; split; [reflexivity|]; eauto|reflexivity].
      * apply Nat.eqb_neq in Hl. split; [discriminate|].
        intros (_ & old' & Ho & Hl'). congruence.
    + cbn [snd]. split; [discriminate|]. intros (_ & old' & Ho & _). discriminate.
    + cbn [snd]. split; [discriminate|]. intros (_ & old' & Ho & _). discriminate.
    + cbn [snd]. split; [discriminate|]. intros (_ & old' & Ho & _). discriminate.
  - cbn [snd]. split; [discriminate|]. intros (Hx & _). discriminate.
Qed.

(** * 2. [Commands.Apply] *)

(** the inner loop of [xapply (XMany cs)] *)
Fixpoint many_apply (l : list xcmd) (st : state) : state * outcome unit :=
  match l with
  | [] => (st, Ok tt)
  | y :: t =>
      let '(st1, r) := xapply H y st in
      match r with
      | Ok _ => many_apply t st1
      | _ => (st1, r)
      end
  end.

Lemma xapply_many cs st : xapply H (XMany cs) st = many_apply cs st.
Proof. revert st. induction cs as [|y t IH]; intros st; [reflexivity|].
  cbn [xapply many_apply]. destruct (xapply H y st) as [st1 r]. destruct r; reflexivity.
Qed.

Lemma seq_apply_app st l1 l2 :
  seq_apply H st (l1 ++ l2) =
  let '(st1, r) := seq_apply H st l1 in
  match r with Ok _ => seq_apply H st1 l2 | _ => (st1, r) end.
Proof.
  revert st. induction l1 as [|c t IH]; intros st; [reflexivity|].
  cbn [app seq_apply]. destruct (apply H st c) as [st1 r]. destruct r; try reflexivity. apply IH.
Qed.

Lemma seq_apply_one st c : seq_apply H st [c] = apply H st c.
Proof. cbn [seq_apply]. destruct (apply H st c) as [st1 r]. destruct r as [[]|e| |]; reflexivity. Qed.

(** nested [Commands] are their single commands in order *)
Lemma xapply_flat x : forall st, xapply H x st = seq_apply H st (flat x).
Proof.
  induction x as [c|cs IH] using xcmd_ind'; intros st.
  - cbn [xapply flat]. symmetry. apply seq_apply_one.
  - rewrite xapply_many. cbn [flat]. revert st. induction IH as [|y t Hy _ IHt]; intros st; [reflexivity|].
    cbn [many_apply flat_map]. rewrite seq_apply_app, Hy.
    destruct (seq_apply H st (flat y)) as [st1 r]. destruct r; try reflexivity. apply IHt.
Qed.

(** one by one, without the log *)
Fixpoint arun (st : state) (cs : list cmd) : state :=
  match cs with [] => st | c :: t => arun (fst (apply H st c)) t end.
Fixpoint ares (st : state) (cs : list cmd) : list (outcome unit) :=
  match cs with [] => [] | c :: t => snd (apply H st c) :: ares (fst (apply H st c)) t end.

Lemma arun_app st l1 l2 : arun st (l1 ++ l2) = arun (arun st l1) l2.
Proof. revert st. induction l1 as [|c t IH]; intros st; [reflexivity|]. cbn [app arun]. apply IH. Qed.

(** nil is returned iff every sub-command returns nil, and then all of them were applied *)
Lemma seq_apply_ok_iff st cs st' :
  seq_apply H st cs = (st', Ok tt) <-> Forall ok_res (ares st cs) /\ st' = arun st cs.
Proof.
  revert st. induction cs as [|c t IH]; intros st; cbn [seq_apply ares arun].
  - split; [intros E; inversion E; split; [constructor|reflexivity]|intros (_ & ->); reflexivity].
  - destruct (apply H st c) as [st1 r] eqn:Ea. cbn [fst snd].
    destruct (ok_res_dec r) as [->|Hne].
    + rewrite IH. split; intros (A & B); split; auto; [constructor; [reflexivity|exact A]|inversion A; assumption].
    + split.
      * destruct r as [[]|e| |]; try congruence; intros E; inversion E.
      * intros (A & _). inversion A; subst. contradiction.
Qed.

(** otherwise it stops at the first sub-command that does not return nil: that
    one changes nothing, the earlier ones stay applied, the later ones are not reached *)
Lemma seq_apply_stops st cs :
  snd (seq_apply H st cs) <> Ok tt ->
  exists pre c post,
    cs = pre ++ c :: post /\ Forall ok_res (ares st pre) /\
    snd (apply H (arun st pre) c) = snd (seq_apply H st cs) /\
    fst (seq_apply H st cs) = arun st pre.
Proof.
  revert st. induction cs as [|c t IH]; intros st; cbn [seq_apply]; [cbn; congruence|].
  destruct (apply H st c) as [st1 r] eqn:Ea.
  destruct (ok_res_dec r) as [->|Hne].
  - intros Hs. destruct (IH st1 Hs) as (pre & c' & post & -> & Hpre & Hr & Hst).
    exists (c :: pre), c', post. cbn [app ares arun]. rewrite Ea. cbn [fst snd].
    repeat split; auto. constructor; [reflexivity|exact Hpre].
  - intros _. exists [], c, t. cbn [app ares arun]. rewrite Ea.
    assert (fst (apply H st c) = st) as Hu by (apply apply_not_ok_unchanged; rewrite Ea; exact Hne).
    rewrite Ea in Hu. cbn [fst] in Hu. subst st1.
    destruct r as [[]|e| |]; try congruence; cbn [fst snd]; repeat split; constructor.
Qed.

Lemma seq_apply_same_core s1 s2 cs :
  same_core s1 s2 ->
  same_core (fst (seq_apply H s1 cs)) (fst (seq_apply H s2 cs)) /\
  snd (seq_apply H s1 cs) = snd (seq_apply H s2 cs).
Proof.
  revert s1 s2. induction cs as [|c t IH]; intros s1 s2 Hc; cbn [seq_apply]; [split; [exact Hc|reflexivity]|].
  destruct (apply_same_core s1 s2 c Hc) as [Hc1 Hr1].
  destruct (apply H s1 c) as [s1' r1]. destruct (apply H s2 c) as [s2' r2]. cbn [fst snd] in *. subst r2.
  destruct r1; try (split; [exact Hc1|reflexivity]). apply IH. exact Hc1.
Qed.

Lemma seq_apply_no_panic st cs :
  Forall cmd_in_range cs ->
  snd (seq_apply H st cs) <> Panic /\ snd (seq_apply H st cs) <> OutOfFuel.
Proof.
  revert st. induction cs as [|c t IH]; intros st Hr; cbn [seq_apply]; [split; discriminate|].
  inversion Hr as [|? ? Hc Ht]; subst.
  pose proof (apply_no_panic st c Hc) as [Hp Hf].
  destruct (apply H st c) as [st1 r]. cbn [snd] in *.
  destruct r; try (cbn [snd]; split; congruence). apply IH. exact Ht.
Qed.

(** * 3. One object: [xstep] *)

(** the state as Model/TPM.v sees it: the log reduced to the single commands *)
Definition log_flat (l : list entry) : list cmd := flat_map (fun e => flat (e_cmd e)) l.
Definition proj (s : xstate) : state :=
  mkState (x_algos s) (x_pcrs s) (log_flat (x_log s)) (x_evlog s).

Lemma log_flat_app l1 l2 : log_flat (l1 ++ l2) = log_flat l1 ++ log_flat l2.
Proof. unfold log_flat. apply flat_map_app. Qed.

Lemma same_core_core_proj s : same_core (core s) (proj s).
Proof. repeat split. Qed.

Definition is_xreset (o : op) : bool :=
  match o with OReset | OResetNoInit => true | _ => false end.
Definition no_xreset (ops : list op) : bool := forallb (fun o => negb (is_xreset o)) ops.

(** what an operation adds to the command log *)
Definition entry_of (o : op) : list entry :=
  match o with OExec x cz => [mkEntry x cz] | _ => [] end.
Definition entries_of (ops : list op) : list entry := flat_map entry_of ops.

Lemma xstep_log s o :
  x_log (fst (xstep H s o)) = if is_xreset o then [] else x_log s ++ entry_of o.
Proof.
  destruct o as [x cz|x|p a v| |]; cbn [xstep is_xreset entry_of].
  - destruct (xapply H x (core (xlog_add s (mkEntry x cz)))) as [st r]. reflexivity.
  - destruct (xapply H x (core s)) as [st r]. cbn. symmetry. apply app_nil_r.
  - destruct (set_value (x_pcrs s) p a v) as [pv r]. cbn. symmetry. apply app_nil_r.
  - reflexivity.
  - reflexivity.
Qed.

Lemma xrun_app s l1 l2 : xrun H s (l1 ++ l2) = xrun H (xrun H s l1) l2.
Proof. revert s. induction l1 as [|o t IH]; intros s; [reflexivity|]. cbn [app xrun]. apply IH. Qed.

Lemma xresults_app s l1 l2 :
  xresults H s (l1 ++ l2) = xresults H s l1 ++ xresults H (xrun H s l1) l2.
Proof. revert s. induction l1 as [|o t IH]; intros s; [reflexivity|]. cbn [app xrun xresults]. rewrite IH. reflexivity. Qed.

(** every TPMExecute -- single command or Commands slice, returning nil or an
    error -- adds exactly one entry, carrying the command and the cause it was
    given; Apply and Set add none *)
Lemma exec_log_exact s ops :
  no_xreset ops = true -> x_log (xrun H s ops) = x_log s ++ entries_of ops.
Proof.
  revert s. induction ops as [|o t IH]; intros s Hn; [cbn; symmetry; apply app_nil_r|].
  cbn [no_xreset forallb] in Hn. apply andb_prop in Hn. destruct Hn as [Ho Ht].
  cbn [xrun]. rewrite IH by exact Ht. rewrite xstep_log.
  destruct (is_xreset o); [discriminate|].
  unfold entries_of. cbn [flat_map]. rewrite app_assoc. reflexivity.
Qed.

Lemma exec_log_after_reset s ops1 o ops2 :
  is_xreset o = true -> no_xreset ops2 = true ->
  x_log (xrun H s (ops1 ++ o :: ops2)) = entries_of ops2.
Proof.
  intros Ho Hn. rewrite xrun_app. cbn [xrun]. rewrite exec_log_exact by exact Hn.
  rewrite xstep_log, Ho. reflexivity.
Qed.

(** ** operations that Model/TPM.v knows: TPMExecute of a single command, with
    any cause, and the two resets *)
Definition single_op (o : op) : bool :=
  match o with
  | OExec (XOne c) _ => is_cmd c
  | OReset | OResetNoInit => true
  | _ => false
  end.
Definition cmd_of (o : op) : cmd :=
  match o with
  | OExec (XOne c) _ => c
  | OResetNoInit => ResetNoInit
  | _ => Reset
  end.

Lemma state_eta st : st = mkState (algos st) (pcrs st) (cmdlog st) (evlog st).
Proof. destruct st; reflexivity. Qed.

Lemma xstep_single s o :
  single_op o = true ->
  proj (fst (xstep H s o)) = fst (step H (proj s) (cmd_of o)) /\
  snd (xstep H s o) = snd (step H (proj s) (cmd_of o)).
Proof.
  destruct o as [x cz|x|p a v| |]; cbn [single_op]; try discriminate.
  - destruct x as [c|cs]; [|discriminate]. intros Hc. cbn [cmd_of xstep xapply].
    rewrite (step_is_apply (proj s) c Hc).
    pose proof (apply_same_core (core (xlog_add s (mkEntry (XOne c) cz))) (log_cmd (proj s) c) c) as Hs.
    destruct Hs as [Hc1 Hr1]; [repeat split|].
    pose proof (apply_cmdlog (log_cmd (proj s) c) c Hc) as Hl.
    destruct (apply H (core (xlog_add s (mkEntry (XOne c) cz))) c) as [st r].
    destruct (apply H (log_cmd (proj s) c) c) as [st2 r2]. cbn [fst snd] in *.
    split; [|exact Hr1]. destruct Hc1 as (A & B & C).
    rewrite (state_eta st2). unfold proj, with_core. cbn [x_algos x_pcrs x_log x_evlog xlog_add].
    rewrite A, B, C, Hl. cbn [log_cmd cmdlog proj]. rewrite log_flat_app. cbn. reflexivity.
  - intros _. split; reflexivity.
  - intros _. split; reflexivity.
Qed.

(** the API level refines the value model: all theorems about [run] / [results]
    hold for TPMExecute of single commands whatever causes are passed *)
Lemma exec_refines ops : forall s,
  forallb single_op ops = true ->
  proj (xrun H s ops) = run H (proj s) (map cmd_of ops) /\
  xresults H s ops = results H (proj s) (map cmd_of ops).
Proof.
  induction ops as [|o t IH]; intros s Hs; [split; reflexivity|].
  cbn [forallb] in Hs. apply andb_prop in Hs. destruct Hs as [Ho Ht].
  destruct (xstep_single s o Ho) as [Hp Hr].
  cbn [xrun xresults map run results]. rewrite <- Hp, <- Hr.
  destruct (IH (fst (xstep H s o)) Ht) as [A B]. rewrite A, B. split; reflexivity.
Qed.

(** the causes in the log are exactly the causes given, in order *)
Lemma exec_causes s ops :
  no_xreset ops = true ->
  map e_cause (x_log (xrun H s ops)) = map e_cause (x_log s) ++ map e_cause (entries_of ops).
Proof. intros Hn. rewrite exec_log_exact by exact Hn. apply map_app. Qed.

(** ** TPMExecute in general *)

Lemma core_with_core s st : same_core (core (with_core s st)) st.
Proof. repeat split. Qed.

Lemma core_xlog_add s e : core (xlog_add s e) = core s.
Proof. reflexivity. Qed.

(** TPMExecute(x) and x.Apply differ in the log entry only *)
Lemma exec_vs_apply s x cz :
  same_core (core (fst (xstep H s (OExec x cz)))) (core (fst (xstep H s (OApply x)))) /\
  snd (xstep H s (OExec x cz)) = snd (xstep H s (OApply x)) /\
  x_log (fst (xstep H s (OExec x cz))) = x_log (fst (xstep H s (OApply x))) ++ [mkEntry x cz].
Proof.
  cbn [xstep]. rewrite core_xlog_add.
  destruct (xapply H x (core s)) as [st r]. cbn [fst snd]. repeat split.
Qed.

(** what TPMExecute(x) does to banks, algorithms and event log: the single
    commands of x, one after the other, up to the first that fails *)
Lemma exec_is_seq s x cz :
  same_core (core (fst (xstep H s (OExec x cz)))) (fst (seq_apply H (core s) (flat x))) /\
  snd (xstep H s (OExec x cz)) = snd (seq_apply H (core s) (flat x)).
Proof.
  cbn [xstep]. rewrite core_xlog_add, xapply_flat.
  destruct (seq_apply H (core s) (flat x)) as [st r]. cbn [fst snd]. split; [apply core_with_core|reflexivity].
Qed.

Definition exec1 (c : cmd) : op := OExec (XOne c) None.

Lemma xrun_exec1 cs : forall s,
  same_core (core (xrun H s (map exec1 cs))) (arun (core s) cs) /\
  xresults H s (map exec1 cs) = ares (core s) cs.
Proof.
  induction cs as [|c t IH]; intros s; [split; [apply same_core_refl|reflexivity]|].
  cbn [map xrun xresults arun ares].
  destruct (exec_is_seq s (XOne c) None) as [Hc Hr]. fold (exec1 c) in Hc, Hr.
  cbn [flat] in Hc, Hr. rewrite seq_apply_one in Hc, Hr.
  destruct (IH (fst (xstep H s (exec1 c)))) as [A B].
  assert (forall s1 s2 l, same_core s1 s2 -> same_core (arun s1 l) (arun s2 l) /\ ares s1 l = ares s2 l) as Harun.
  { intros s1 s2 l. revert s1 s2. induction l as [|c' t' IHl]; intros s1 s2 Hsc; [split; [exact Hsc|reflexivity]|].
    cbn [arun ares]. destruct (apply_same_core s1 s2 c' Hsc) as [H1 H2]. rewrite H2.
    destruct (IHl _ _ H1) as [H3 H4]. rewrite H4. split; [exact H3|reflexivity]. }
  destruct (Harun _ _ t Hc) as [H3 H4].
  split; [eapply same_core_trans; [exact A|exact H3]|rewrite B, Hr, H4; reflexivity].
Qed.

Lemma entries_of_exec1 l : entries_of (map exec1 l) = map (fun c => mkEntry (XOne c) None) l.
Proof. unfold entries_of. induction l as [|c t IH]; [reflexivity|]. cbn. rewrite IH. reflexivity. Qed.

Lemma no_xreset_exec1 l : no_xreset (map exec1 l) = true.
Proof. unfold no_xreset. induction l as [|c t IH]; [reflexivity|]. cbn. exact IH. Qed.

(** a Commands slice that returns nil did what executing its single commands
    one by one does -- except that it is ONE log entry instead of one per command *)
Lemma batch_ok_as_sequence s x cz :
  snd (xstep H s (OExec x cz)) = Ok tt ->
  same_core (core (fst (xstep H s (OExec x cz)))) (core (xrun H s (map exec1 (flat x)))) /\
  Forall ok_res (xresults H s (map exec1 (flat x))) /\
  x_log (fst (xstep H s (OExec x cz))) = x_log s ++ [mkEntry x cz] /\
  x_log (xrun H s (map exec1 (flat x))) = x_log s ++ map (fun c => mkEntry (XOne c) None) (flat x).
Proof.
  intros Hok. destruct (exec_is_seq s x cz) as [Hc Hr]. rewrite Hok in Hr.
  destruct (seq_apply H (core s) (flat x)) as [st r] eqn:Es. cbn [fst snd] in *. subst r.
  apply seq_apply_ok_iff in Es. destruct Es as [Hall ->].
  destruct (xrun_exec1 (flat x) s) as [A B].
  split; [eapply same_core_trans; [exact Hc|apply same_core_sym; exact A]|].
  split; [rewrite B; exact Hall|].
  split; [rewrite xstep_log; reflexivity|].
  rewrite exec_log_exact by apply no_xreset_exec1. rewrite entries_of_exec1. reflexivity.
Qed.

(** a Commands slice that returns an error is NOT without effect: the
    sub-commands before the failing one stay applied (the failing one itself
    changes nothing and the later ones are not reached) *)
Lemma batch_error_prefix s x cz :
  snd (xstep H s (OExec x cz)) <> Ok tt ->
  exists pre c post,
    flat x = pre ++ c :: post /\
    Forall ok_res (xresults H s (map exec1 pre)) /\
    snd (xstep H (xrun H s (map exec1 pre)) (exec1 c)) = snd (xstep H s (OExec x cz)) /\
    same_core (core (fst (xstep H s (OExec x cz)))) (core (xrun H s (map exec1 pre))).
Proof.
  intros Hne. destruct (exec_is_seq s x cz) as [Hc Hr]. rewrite Hr in Hne.
  destruct (seq_apply_stops (core s) (flat x) Hne) as (pre & c & post & Hf & Hpre & Hrc & Hst).
  exists pre, c, post. destruct (xrun_exec1 pre s) as [A B].
  split; [exact Hf|]. split; [rewrite B; exact Hpre|].
  split.
  - rewrite Hr, <- Hrc. destruct (exec_is_seq (xrun H s (map exec1 pre)) (XOne c) None) as [_ Hr2].
    fold (exec1 c) in Hr2. rewrite Hr2. cbn [flat]. rewrite seq_apply_one.
    apply (apply_same_core _ _ c A).
  - rewrite Hst in Hc. eapply same_core_trans; [exact Hc|apply same_core_sym; exact A].
Qed.

Lemma xstep_no_panic s o :
  match o with
  | OExec x _ | OApply x => Forall cmd_in_range (flat x)
  | _ => True
  end ->
  snd (xstep H s o) <> Panic /\ snd (xstep H s o) <> OutOfFuel.
Proof.
  destruct o as [x cz|x|p a v| |]; intros Hr.
  - destruct (exec_is_seq s x cz) as [_ ->]. apply seq_apply_no_panic. exact Hr.
  - cbn [xstep]. rewrite xapply_flat. pose proof (seq_apply_no_panic (core s) (flat x) Hr) as Hn.
    destruct (seq_apply H (core s) (flat x)) as [st r]. exact Hn.
  - cbn [xstep]. unfold set_value. destruct (nthZ (x_pcrs s) p) as [banks|]; [|split; discriminate].
    destruct (nthZ banks a); split; discriminate.
  - split; discriminate.
  - split; discriminate.
Qed.

(** * 4. Replaying a command log on a new TPM *)

Definition is_exec (o : op) : bool := match o with OExec _ _ => true | _ => false end.

Lemma flat_log_commands l : flat (XMany (map e_cmd l)) = log_flat l.
Proof. cbn [flat]. unfold log_flat. induction l as [|e t IH]; [reflexivity|]. cbn. rewrite IH. reflexivity. Qed.

Lemma seq_apply_fail_app st l1 l2 :
  snd (seq_apply H st l1) <> Ok tt -> seq_apply H st (l1 ++ l2) = seq_apply H st l1.
Proof.
  intros Hne. rewrite seq_apply_app. destruct (seq_apply H st l1) as [st1 r]. cbn [snd] in Hne.
  destruct r as [[]|e| |]; [congruence|reflexivity ..].
Qed.

Lemma is_exec_no_xreset ops : forallb is_exec ops = true -> no_xreset ops = true.
Proof.
  induction ops as [|o t IH]; [reflexivity|]. cbn [forallb no_xreset]. intros Hx.
  apply andb_prop in Hx. destruct Hx as [Ho Ht]. fold (no_xreset t). rewrite (IH Ht).
  destruct o; try discriminate. reflexivity.
Qed.

(** general form: any starting point [s], replay started from a state with the same core *)
Lemma replay_gen ops : forall s st0,
  same_core st0 (core s) ->
  forallb is_exec ops = true ->
  (Forall ok_res (xresults H s ops) ->
     same_core (fst (seq_apply H st0 (log_flat (entries_of ops)))) (core (xrun H s ops)) /\
     snd (seq_apply H st0 (log_flat (entries_of ops))) = Ok tt).
Proof.
  induction ops as [|o t IH]; intros s st0 Hc Hx Hall; [split; [exact Hc|reflexivity]|].
  cbn [forallb] in Hx. apply andb_prop in Hx. destruct Hx as [Ho Ht].
  destruct o as [x cz| | | |]; try discriminate.
  cbn [xresults] in Hall. inversion Hall as [|? ? Hr1 Hrest]; subst.
  unfold entries_of. cbn [flat_map entry_of]. fold (entries_of t). rewrite log_flat_app.
  unfold log_flat at 1 3. cbn [flat_map e_cmd]. rewrite app_nil_r.
  destruct (exec_is_seq s x cz) as [Hc1 Hr]. rewrite Hr1 in Hr.
  destruct (seq_apply_same_core st0 (core s) (flat x) Hc) as [Hc2 Hr2].
  rewrite seq_apply_app.
  destruct (seq_apply H st0 (flat x)) as [st1 r1] eqn:E1. cbn [fst snd] in *.
  rewrite <- Hr in Hr2. subst r1.
  cbn [xrun]. apply IH; [|exact Ht|exact Hrest].
  eapply same_core_trans; [exact Hc2|apply same_core_sym; exact Hc1].
Qed.

Lemma replay_gen_stops pre : forall s st0 o post,
  same_core st0 (core s) ->
  forallb is_exec (pre ++ o :: post) = true ->
  Forall ok_res (xresults H s pre) ->
  snd (xstep H (xrun H s pre) o) <> Ok tt ->
  same_core (fst (seq_apply H st0 (log_flat (entries_of (pre ++ o :: post)))))
            (core (fst (xstep H (xrun H s pre) o))) /\
  snd (seq_apply H st0 (log_flat (entries_of (pre ++ o :: post)))) = snd (xstep H (xrun H s pre) o).
Proof.
  induction pre as [|o1 t IH]; intros s st0 o post Hc Hx Hall Hne.
  - cbn [app xrun] in *. cbn [forallb] in Hx. apply andb_prop in Hx. destruct Hx as [Ho _].
    destruct o as [x cz| | | |]; try discriminate.
    unfold entries_of. cbn [flat_map entry_of]. fold (entries_of post). rewrite log_flat_app.
    unfold log_flat at 1 3. cbn [flat_map e_cmd]. rewrite app_nil_r.
    destruct (exec_is_seq s x cz) as [Hc1 Hr].
    destruct (seq_apply_same_core st0 (core s) (flat x) Hc) as [Hc2 Hr2].
    rewrite seq_apply_fail_app by (rewrite Hr2, <- Hr; exact Hne).
    split; [eapply same_core_trans; [exact Hc2|apply same_core_sym; exact Hc1]|congruence].
  - cbn [app forallb] in Hx. apply andb_prop in Hx. destruct Hx as [Ho Ht].
    destruct o1 as [x cz| | | |]; try discriminate.
    cbn [xresults] in Hall. inversion Hall as [|? ? Hr1 Hrest]; subst.
    cbn [app]. unfold entries_of. cbn [flat_map entry_of]. fold (entries_of (t ++ o :: post)). rewrite log_flat_app.
    unfold log_flat at 1 3. cbn [flat_map e_cmd]. rewrite app_nil_r.
    destruct (exec_is_seq s x cz) as [Hc1 Hr]. rewrite Hr1 in Hr.
    destruct (seq_apply_same_core st0 (core s) (flat x) Hc) as [Hc2 Hr2].
    rewrite seq_apply_app.
    destruct (seq_apply H st0 (flat x)) as [st1 r1] eqn:E1. cbn [fst snd] in *.
    rewrite <- Hr in Hr2. subst r1.
    cbn [xrun] in Hne |- *. apply IH; [|exact Ht|exact Hrest|exact Hne].
    eapply same_core_trans; [exact Hc2|apply same_core_sym; exact Hc1].
Qed.

(** * 4b. Histories of TPMExecute calls that all return nil, flattened *)

Lemma arun_vs_run l : forall a b,
  same_core a b -> same_core (arun a l) (run H b l) /\ ares a l = results H b l.
Proof.
  induction l as [|c t IH]; intros a b Hc; [split; [exact Hc|reflexivity]|].
  cbn [arun ares run results].
  assert (same_core (fst (apply H a c)) (fst (step H b c)) /\ snd (apply H a c) = snd (step H b c)) as [H1 H2].
  { destruct (is_cmd c) eqn:Ec.
    - rewrite (step_is_apply b c Ec). apply apply_same_core.
      destruct Hc as (A & B & C). repeat split; assumption.
    - assert (step H b c = apply H b c) as -> by (destruct c; try discriminate; reflexivity).
      apply apply_same_core. exact Hc. }
  rewrite H2. destruct (IH _ _ H1) as [H3 H4]. rewrite H4. split; [exact H3|reflexivity].
Qed.

Lemma Forall_app_intro {A} (P : A -> Prop) l1 l2 : Forall P l1 -> Forall P l2 -> Forall P (l1 ++ l2).
Proof. intros H1 H2. induction H1; [exact H2|constructor; assumption]. Qed.

Lemma exec_history_flat_gen ops : forall s st,
  same_core (core s) st ->
  forallb is_exec ops = true ->
  Forall ok_res (xresults H s ops) ->
  same_core (core (xrun H s ops)) (run H st (log_flat (entries_of ops))) /\
  Forall ok_res (results H st (log_flat (entries_of ops))).
Proof.
  induction ops as [|o t IH]; intros s st Hc Hx Hall; [split; [exact Hc|constructor]|].
  cbn [forallb] in Hx. apply andb_prop in Hx. destruct Hx as [Ho Ht].
  destruct o as [x cz| | | |]; try discriminate.
  cbn [xresults] in Hall. inversion Hall as [|? ? Hr1 Hrest]; subst.
  unfold entries_of. cbn [flat_map entry_of]. fold (entries_of t). rewrite log_flat_app.
  unfold log_flat at 1 3. cbn [flat_map e_cmd]. rewrite app_nil_r.
  rewrite run_app, results_app.
  destruct (exec_is_seq s x cz) as [Hc1 Hr]. rewrite Hr1 in Hr.
  destruct (seq_apply H (core s) (flat x)) as [st1 r1] eqn:Es. cbn [fst snd] in *. subst r1.
  apply seq_apply_ok_iff in Es. destruct Es as [Hok ->].
  destruct (arun_vs_run (flat x) (core s) st Hc) as [Hc2 Hres].
  cbn [xrun].
  destruct (IH (fst (xstep H s (OExec x cz))) (run H st (flat x))) as [A B];
    [eapply same_core_trans; [exact Hc1|exact Hc2]|exact Ht|exact Hrest|].
  split; [exact A|]. apply Forall_app_intro; [rewrite <- Hres; exact Hok|exact B].
Qed.

(** a history of TPMExecute calls (single commands and Commands slices of any
    nesting, any causes) that all return nil leaves banks, SupportedAlgos and
    event log exactly where the value model is after the FLAT history of their
    single commands, all of which are executed: every theorem about [run] (frame,
    closed form of a bank, reference TPM) applies to such API-level histories *)
Lemma exec_history_flat ops s :
  forallb is_exec ops = true ->
  Forall ok_res (xresults H s ops) ->
  same_core (core (xrun H s ops)) (run H (proj s) (log_flat (entries_of ops))) /\
  Forall ok_res (results H (proj s) (log_flat (entries_of ops))).
Proof. apply exec_history_flat_gen. apply same_core_core_proj. Qed.

Lemma core_xfresh : core xfresh = fresh.
Proof. reflexivity. Qed.

(** [log.Commands().Apply(ctx, NewTPM())] for the log of an object that was
    driven from NewTPM() through TPMExecute calls only (single commands and
    Commands slices, any causes): when every call returned nil the new object
    ends with the same banks, algorithms and event log, and Apply returns nil *)
Lemma replay_log_ok ops :
  forallb is_exec ops = true ->
  Forall ok_res (xresults H xfresh ops) ->
  same_core (fst (replay_on_new H (xrun H xfresh ops))) (core (xrun H xfresh ops)) /\
  snd (replay_on_new H (xrun H xfresh ops)) = Ok tt.
Proof.
  intros Hx Hall. unfold replay_on_new, log_commands. rewrite xapply_flat, flat_log_commands.
  rewrite exec_log_exact by (apply is_exec_no_xreset; exact Hx). cbn [x_log xfresh app].
  apply (replay_gen ops xfresh fresh); [rewrite core_xfresh; apply same_core_refl|exact Hx|exact Hall].
Qed.

(** ... and when one of the calls returned an error, the replay ends there, with
    that error: the new object is the original as it was right after the failing
    call; nothing that was executed later is replayed *)
Lemma replay_log_stops pre o post :
  forallb is_exec (pre ++ o :: post) = true ->
  Forall ok_res (xresults H xfresh pre) ->
  snd (xstep H (xrun H xfresh pre) o) <> Ok tt ->
  same_core (fst (replay_on_new H (xrun H xfresh (pre ++ o :: post))))
            (core (xrun H xfresh (pre ++ [o]))) /\
  snd (replay_on_new H (xrun H xfresh (pre ++ o :: post))) = snd (xstep H (xrun H xfresh pre) o).
Proof.
  intros Hx Hall Hne. unfold replay_on_new, log_commands. rewrite xapply_flat, flat_log_commands.
  rewrite exec_log_exact by (apply is_exec_no_xreset; exact Hx). cbn [x_log xfresh app].
  rewrite xrun_app. cbn [xrun].
  apply (replay_gen_stops pre xfresh fresh o post); [rewrite core_xfresh; apply same_core_refl|exact Hx|exact Hall|exact Hne].
Qed.

End WithHash.

(** * 5. The algorithm table by name *)

(** which identifiers reach a hasher, their digest sizes, and which of them have
    a bank: SHA1 and SHA256 only; SHA384 is the first identifier beyond the bank
    matrix ([BANKS] = AlgSHA256 + 1) *)
Lemma hsize_table :
  hsize ALG_SHA1 = 20%nat /\ hsize ALG_SHA256 = 32%nat /\ hsize ALG_SHA384 = 48%nat /\
  hsize ALG_SHA512 = 64%nat /\ hsize ALG_SHA3_256 = 32%nat /\ hsize ALG_SHA3_384 = 48%nat /\
  hsize ALG_SHA3_512 = 64%nat /\
  (forall a, is_hash a = true <->
     In a [ALG_SHA1; ALG_SHA256; ALG_SHA384; ALG_SHA512; ALG_SHA3_256; ALG_SHA3_384; ALG_SHA3_512]) /\
  (forall a, is_supported a = true <-> a = ALG_SHA1 \/ a = ALG_SHA256) /\
  Z.of_nat BANKS = ALG_SHA256 + 1 /\ ALG_SHA384 = Z.of_nat BANKS.
Proof.
  repeat (split; [reflexivity|]).
  split.
  { intros a. unfold is_hash, hsize, ALG_SHA1, ALG_SHA256, ALG_SHA384, ALG_SHA512, ALG_SHA3_256, ALG_SHA3_384, ALG_SHA3_512.
    cbn [In]. split.
    - destruct (a =? 4) eqn:E1; [lia|]. destruct (a =? 11) eqn:E2; [lia|].
      destruct (a =? 12) eqn:E3; [lia|]. destruct (a =? 13) eqn:E4; [lia|].
      destruct (a =? 39) eqn:E5; [lia|]. destruct (a =? 40) eqn:E6; [lia|].
      destruct (a =? 41) eqn:E7; [lia|]. cbn. discriminate.
    - intros [<-|[<-|[<-|[<-|[<-|[<-|[<-|[]]]]]]]]; reflexivity. }
  split; [|split; reflexivity].
  intros a. unfold is_supported, ALG_SHA1, ALG_SHA256. lia.
Qed.

(** * 6. PCRValues.Set *)

Lemma set_value_ok pv p a v pv' :
  set_value pv p a v = (pv', Ok tt) ->
  get pv' p a = Ok v /\
  (forall p' a', (p', a') <> (p, a) -> get pv' p' a' = get pv p' a') /\
  exists old, get pv p a = Ok old.
Proof.
  unfold set_value. destruct (nthZ pv p) as [banks|] eqn:Ep; [|discriminate].
  destruct (nthZ banks a) as [old|] eqn:Ea; [|discriminate].
  intros E. inversion E; subst pv'. clear E.
  assert (get pv p a = Ok old) as Hg by (unfold get; rewrite Ep, Ea; reflexivity).
  assert (updZ p (updZ a v banks) pv = set_bank pv p a v) as -> by (unfold set_bank; rewrite Ep; reflexivity).
  split; [apply (get_set_same pv p a old v Hg)|]. split; [|eauto].
  intros p' a' Hne. apply get_set_other. exact Hne.
Qed.

Lemma set_value_err pv p a v pv' e :
  set_value pv p a v = (pv', Err e) -> pv' = pv /\ exists e', get pv p a = Err e'.
Proof.
  unfold set_value, get. destruct (nthZ pv p) as [banks|] eqn:Ep.
  - destruct (nthZ banks a) as [old|] eqn:Ea; [discriminate|]. intros E; inversion E; subst. eauto.
  - intros E; inversion E; subst. eauto.
Qed.

Lemma set_value_total pv p a v :
  snd (set_value pv p a v) = Ok tt \/ exists e, snd (set_value pv p a v) = Err e.
Proof.
  unfold set_value. destruct (nthZ pv p) as [banks|]; [|right; cbn; eauto].
  destruct (nthZ banks a); [left; reflexivity|right; cbn; eauto].
Qed.
