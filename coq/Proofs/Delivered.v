(** Proofs for C14 about the BYTES a data-source result delivers (Model/Delivered.v on top of
    the C11 model of Reference.RawBytes, Model/Refs.v):

    [delivered content rs] -- Reference.RawBytes of {BIOS image, PhysMemMapper, rs} -- is
    exactly the image bytes at the positions whose address 4 GiB - size + offset lies in one
    of the ranges, each once, in ascending order; for EVERY list of ranges inside the image's
    address window: any order, overlapping, nested, repeated, empty ranges.  Hence it depends
    on the named set only, and MemRanges / UEFIGUIDFirst / UEFIFiles deliver the bytes at the
    offsets the walker reported for the selected objects. *)
From Coq Require Import Permutation.
From CSS Require Import Lib.Base Model.Ranges Model.Refs Proofs.Ranges Proofs.Refs.
From CSS Require Import Model.AddrMap Model.Delivered.

Local Notation rrange := Ranges.range.
Local Notation zlen := Delivered.zlen.

Lemma zlen_eq {A} (l : list A) : Refs.zlen l = zlen l.
Proof. reflexivity. Qed.

Lemma slice_len (b : list Z) off n : 0 <= off -> 0 <= n -> off + n <= zlen b -> zlen (slice b off n) = n.
Proof. exact (slice_length b off n). Qed.

Lemma zlen_app {A} (a b : list A) : zlen (a ++ b) = zlen a + zlen b.
Proof. unfold zlen. rewrite app_length. lia. Qed.
Lemma zlen_cons {A} (x : A) l : zlen (x :: l) = 1 + zlen l.
Proof. unfold zlen. cbn [length]. lia. Qed.
Lemma zlen_nonneg' {A} (l : list A) : 0 <= zlen l.
Proof. unfold zlen. lia. Qed.

(** * [pick] *)

Lemma pick_app cov l1 : forall k l2,
  pick cov k (l1 ++ l2) = pick cov k l1 ++ pick cov (k + zlen l1) l2.
Proof.
  induction l1 as [|b t IH]; intros k l2.
  - cbn [app pick]. unfold zlen. cbn [length]. rewrite Z.add_0_r. reflexivity.
  - cbn [app pick]. rewrite IH, zlen_cons.
    replace (k + 1 + zlen t) with (k + (1 + zlen t)) by lia.
    destruct (cov k); reflexivity.
Qed.

Lemma pick_ext cov cov' l : forall k,
  (forall j, k <= j < k + zlen l -> cov j = cov' j) -> pick cov k l = pick cov' k l.
Proof.
  induction l as [|b t IH]; intros k H; [reflexivity|].
  cbn [pick]. rewrite zlen_cons in H. pose proof (zlen_nonneg' t).
  rewrite (H k) by lia. rewrite (IH (k + 1)); [reflexivity|]. intros j Hj. apply H. lia.
Qed.

Lemma pick_all cov l : forall k, (forall j, k <= j < k + zlen l -> cov j = true) -> pick cov k l = l.
Proof.
  induction l as [|b t IH]; intros k H; [reflexivity|].
  cbn [pick]. rewrite zlen_cons in H. pose proof (zlen_nonneg' t).
  rewrite (H k) by lia. f_equal. apply IH. intros j Hj. apply H. lia.
Qed.

Lemma pick_none cov l : forall k, (forall j, k <= j < k + zlen l -> cov j = false) -> pick cov k l = [].
Proof.
  induction l as [|b t IH]; intros k H; [reflexivity|].
  cbn [pick]. rewrite zlen_cons in H. pose proof (zlen_nonneg' t).
  rewrite (H k) by lia. apply IH. intros j Hj. apply H. lia.
Qed.

Lemma pick_length_le cov l : forall k, zlen (pick cov k l) <= zlen l.
Proof.
  induction l as [|b t IH]; intros k; cbn [pick]; [lia|].
  specialize (IH (k + 1)). destruct (cov k); rewrite !zlen_cons; lia.
Qed.

(** * Splitting a list at two positions *)

Lemma skipn_add {A} (l : list A) : forall b a, skipn a (skipn b l) = skipn (b + a) l.
Proof.
  induction l as [|x t IH]; intros b a.
  - rewrite !skipn_nil. reflexivity.
  - destruct b as [|b']; [reflexivity|]. cbn [skipn Nat.add]. apply IH.
Qed.

Lemma skipn_split (c : list Z) p q : 0 <= p -> p <= q -> q <= zlen c ->
  skipn (Z.to_nat p) c = slice c p (q - p) ++ skipn (Z.to_nat q) c.
Proof.
  intros P Q L. unfold slice.
  rewrite <- (firstn_skipn (Z.to_nat (q - p)) (skipn (Z.to_nat p) c)) at 1.
  f_equal. rewrite skipn_add. f_equal. lia.
Qed.

(** * Separated lists: reading range by range = picking the covered positions *)

Definition cov_r (l : list rrange) (k : Z) : bool :=
  existsb (fun r => (roff r <=? k) && (k <? roff r + rlen r)) l.

Lemma cov_r_spec l k : cov_r l k = true <-> in_ranges l k.
Proof.
  unfold cov_r, in_ranges. rewrite existsb_exists, Exists_exists.
  split; intros (x & I & H); exists x; (split; [exact I|]); unfold inr in *.
  - apply andb_prop in H. destruct H as (A & B). apply Z.leb_le in A. apply Z.ltb_lt in B. lia.
  - apply andb_true_intro. split; [apply Z.leb_le | apply Z.ltb_lt]; lia.
Qed.

Lemma cov_r_false l k : ~ in_ranges l k -> cov_r l k = false.
Proof. intros H. destruct (cov_r l k) eqn:E; [|reflexivity]. apply cov_r_spec in E. tauto. Qed.

Lemma cov_r_cons a t k : cov_r (a :: t) k = ((roff a <=? k) && (k <? roff a + rlen a)) || cov_r t k.
Proof. reflexivity. Qed.

(** [d]: what is subtracted from a range's offset to get the position in [c] *)
Lemma sep_flat d (c : list Z) l : forall lb p,
  Forall okr l -> sep_lb lb l -> 0 <= p -> d + p <= lb + 1 ->
  Forall (fun r => roff r + rlen r - d <= zlen c) l ->
  flat_map (fun r => slice c (roff r - d) (rlen r)) l =
  pick (fun k => cov_r l (d + k)) p (skipn (Z.to_nat p) c).
Proof.
  induction l as [|a t IH]; intros lb p F S P0 Pd B.
  - cbn [flat_map]. symmetry. apply pick_none. reflexivity.
  - inversion F as [|? ? Oa Ft]; subst. inversion B as [|? ? Ba Bt]; subst.
    cbn [sep_lb] in S. destruct S as (S1 & S2). destruct Oa as (a0 & a1 & a2).
    set (q := roff a - d). set (e := q + rlen a).
    assert (Hq : p <= q) by (unfold q; lia).
    assert (He : e <= zlen c) by (unfold e, q; lia).
    cbn [flat_map].
    rewrite (skipn_split c p q) by lia.
    rewrite (skipn_split c q e) by lia.
    replace (e - q) with (rlen a) by (unfold e; lia).
    assert (L1 : zlen (slice c p (q - p)) = q - p) by (apply slice_len; lia).
    assert (L2 : zlen (slice c q (rlen a)) = rlen a) by (apply slice_len; unfold e in He; lia).
    rewrite !pick_app, L1, L2.
    replace (p + (q - p)) with q by lia. fold e.
    (* the gap before [a]: nothing covered *)
    rewrite (pick_none _ (slice c p (q - p))).
    2:{ intros j Hj. rewrite L1 in Hj. apply cov_r_false. intros I.
        apply in_ranges_cons in I. destruct I as [I | I]; [unfold inr in I; unfold q in *; lia|].
        pose proof (sep_lb_in _ _ _ Ft S2 I). unfold q in *. lia. }
    (* [a] itself: everything covered *)
    rewrite (pick_all _ (slice c q (rlen a))).
    2:{ intros j Hj. rewrite L2 in Hj. rewrite cov_r_cons.
        replace (roff a <=? d + j) with true by (symmetry; apply Z.leb_le; unfold q in *; lia).
        replace (d + j <? roff a + rlen a) with true by (symmetry; apply Z.ltb_lt; unfold q in *; lia).
        reflexivity. }
    cbn [app]. f_equal.
    (* behind [a]: [a] covers nothing any more *)
    rewrite (IH (roff a + rlen a) e Ft S2); [| unfold e, q; lia | unfold e, q; lia | exact Bt].
    apply pick_ext. intros j Hj. rewrite cov_r_cons.
    replace (d + j <? roff a + rlen a) with false by (symmetry; apply Z.ltb_ge; unfold e, q in *; lia).
    rewrite andb_false_r. reflexivity.
Qed.

(** * Sum of the lengths of a separated list inside [.., hi] *)

Definition sum_len (l : list rrange) : Z := fold_right (fun r s => rlen r + s) 0 l.

Lemma sep_sum hi l : forall lb, sep_lb lb l -> Forall okr l ->
  Forall (fun r => roff r + rlen r <= hi) l -> lb < hi -> sum_len l <= hi - lb - 1.
Proof.
  induction l as [|a t IH]; intros lb S F B H; cbn [sum_len fold_right]; [lia|].
  inversion F as [|? ? (a0 & a1 & a2) Ft]; subst. inversion B as [|? ? Ba Bt]; subst.
  cbn [sep_lb] in S. destruct S as (S1 & S2). fold (sum_len t).
  destruct t as [|b t'].
  - cbn [sum_len fold_right]. lia.
  - assert (roff a + rlen a < hi).
    { cbn [sep_lb] in S2. destruct S2 as (S3 & _). inversion Bt as [|? ? Bb _]; subst.
      inversion Ft as [|? ? (b0 & b1 & b2) _]; subst. lia. }
    specialize (IH _ S2 Ft Bt H0). lia.
Qed.

Lemma sum_len_nonneg l : Forall okr l -> 0 <= sum_len l.
Proof.
  induction 1 as [|a t (a0 & a1 & a2) _ IH]; cbn [sum_len fold_right]; [lia|]. fold (sum_len t). lia.
Qed.

Lemma total_len_from l : forall t0, Forall okr l -> 0 <= t0 -> t0 + sum_len l < W64 ->
  fold_left (fun t r => wrap64 (t + rlen r)) l t0 = t0 + sum_len l.
Proof.
  induction l as [|a t IH]; intros t0 F T0 H; cbn [fold_left sum_len fold_right] in *; [lia|].
  inversion F as [|? ? (a0 & a1 & a2) Ft]; subst. fold (sum_len t) in *.
  pose proof (sum_len_nonneg t Ft).
  rewrite wrap64_small by lia. rewrite IH; [lia | exact Ft | lia | lia].
Qed.

Lemma total_len_sum l : Forall okr l -> sum_len l < W64 -> total_len l = sum_len l.
Proof. intros F H. unfold total_len. rewrite total_len_from; [lia | exact F | lia | lia]. Qed.

(** * SortAndMerge keeps a list inside [lo, hi] *)

Definition bnd (lo hi : Z) (r : rrange) : Prop := lo <= roff r /\ roff r + rlen r <= hi.

Lemma merge_go_bnd lo hi l : forall e, okr e -> Forall okr l -> bnd lo hi e -> Forall (bnd lo hi) l ->
  Forall (bnd lo hi) (merge_go e l).
Proof.
  induction l as [|n t IH]; intros e Oe F Be B; cbn [merge_go].
  - constructor; [exact Be | constructor].
  - inversion F as [|? ? On Ft]; subst. inversion B as [|? ? Bn Bt]; subst.
    rewrite (rend_ok e Oe), (rend_ok n On).
    pose proof Oe as (e0 & e1 & e2). pose proof On as (n0 & n1 & n2).
    destruct Be as (Be1 & Be2). destruct Bn as (Bn1 & Bn2).
    destruct (roff n <=? roff e + rlen e).
    + set (e' := mkR (roff e) (wrap64 (Z.max (roff n + rlen n) (roff e + rlen e) - roff e))).
      assert (L : rlen e' = Z.max (roff n + rlen n) (roff e + rlen e) - roff e).
      { unfold e'. cbn [rlen]. apply wrap64_small. lia. }
      apply IH; [| exact Ft | | exact Bt].
      * unfold okr. rewrite L. unfold e'. cbn [roff]. lia.
      * unfold bnd. rewrite L. unfold e'. cbn [roff]. lia.
    + constructor; [split; assumption|]. apply IH; [exact On | exact Ft | split; assumption | exact Bt].
Qed.

Lemma ranges_sm_bnd lo hi l : Forall okr l -> Forall (bnd lo hi) l -> Forall (bnd lo hi) (ranges_sm l).
Proof.
  intros F B. unfold ranges_sm.
  assert (Fs : Forall okr (sort_off l)) by (eapply Permutation_Forall; [symmetry; apply sort_off_perm | exact F]).
  assert (Bs : Forall (bnd lo hi) (sort_off l)) by (eapply Permutation_Forall; [symmetry; apply sort_off_perm | exact B]).
  destruct (sort_off l) as [|e t]; cbn [merge_ranges]; [constructor|].
  inversion Fs; subst. inversion Bs; subst. apply merge_go_bnd; assumption.
Qed.

(** * Reading through PhysMemMapper from a BIOS image *)

Lemma wrap64_add_l a b : wrap64 (wrap64 a + b) = wrap64 (a + b).
Proof. rewrite !wrap64_mod. apply Z.add_mod_idemp_l. discriminate. Qed.

Lemma phys_resolve size o : 0 <= o - W32 + size < W64 ->
  wrap64 (wrap64 (o - W32) + size) = o - W32 + size.
Proof. intros H. rewrite wrap64_add_l. apply wrap64_small. exact H. Qed.

Lemma to_i64_small z : 0 <= z <= W32 -> to_i64 z = z.
Proof. intros H. unfold to_i64. unfold W32 in H. destruct (z <? 9223372036854775808) eqn:E; [reflexivity|]. apply Z.ltb_ge in E. lia. Qed.

Lemma BASE_v : BASE = 4294967296. Proof. reflexivity. Qed.
Lemma W32_v : W32 = 4294967296. Proof. reflexivity. Qed.
Lemma W64_v : W64 = 18446744073709551616. Proof. reflexivity. Qed.
Ltac consts := pose proof BASE_v; pose proof W32_v; pose proof W64_v.

Lemma repeat0_nil : repeat 0 (Z.to_nat 0) = [].
Proof. reflexivity. Qed.

Section Phys.
Variable content : list Z.
Let size := zlen content.
Hypothesis size_le : size <= BASE.

Let d := BASE - size.

(** one merged range: address window, no wrap *)
Definition inwin (x : rrange) : Prop := d <= roff x /\ 0 <= rlen x /\ roff x + rlen x <= BASE.

Lemma read_ranges_phys (r : ref) total rs :
  rart r = bios_image content -> rmap r = MPhys ->
  forall cur acc, Forall inwin rs -> 0 <= cur -> cur + sum_len rs <= total -> total < W64 ->
  read_ranges r total rs cur acc =
  Ok (acc ++ flat_map (fun x => slice content (roff x - d) (rlen x)) rs).
Proof.
  intros Ra Rm. induction rs as [|x t IH]; intros cur acc F C0 T TW.
  - cbn [read_ranges flat_map]. rewrite app_nil_r. reflexivity.
  - inversion F as [|? ? (X0 & X1 & X2) Ft]; subst.
    cbn [sum_len fold_right] in T. fold (sum_len t) in T.
    assert (St : 0 <= sum_len t).
    { clear -Ft size_le. induction Ft as [|y u (Y0 & Y1 & Y2) _ IHu]; cbn [sum_len fold_right]; [lia|]. fold (sum_len u). lia. }
    pose proof (zlen_nonneg' content) as Sz. fold size in Sz.
    consts.
    cbn [read_ranges flat_map]. rewrite Rm, Ra. cbn [resolve1 acontent bios_image].
    rewrite zlen_eq. fold size.
    set (o := roff x - d).
    assert (Ho : wrap64 (wrap64 (roff x - W32) + size) = o).
    { rewrite phys_resolve; unfold o, d; lia. }
    rewrite Ho. cbn [read_mapped rlen roff].
    assert (O0 : 0 <= o) by (unfold o; lia).
    assert (O1 : o + rlen x <= size) by (unfold o, d; lia).
    rewrite (wrap64_small (cur + rlen x)) by lia.
    replace (cur + rlen x <? cur) with false by (symmetry; apply Z.ltb_ge; lia).
    replace (total <? cur + rlen x) with false by (symmetry; apply Z.ltb_ge; lia).
    cbn [orb].
    unfold art_readat. cbn [araw acontent bios_image]. unfold readat_reader.
    rewrite (to_i64_small o) by lia. rewrite (to_i64_small (rlen x)) by lia.
    replace (o <? 0) with false by (symmetry; apply Z.ltb_ge; lia).
    change (Refs.zlen content) with size.
    assert (Lp : Refs.zlen (repeat 0 (Z.to_nat (rlen x))) = rlen x) by (unfold Refs.zlen; rewrite repeat_length; lia).
    rewrite Lp.
    destruct (size <=? o) eqn:E.
    + apply Z.leb_le in E. assert (Z0 : rlen x = 0) by lia.
      cbn [rd_n rd_p]. rewrite Z0. cbn [Z.eqb]. rewrite repeat0_nil, app_nil_r, Z.add_0_r.
      rewrite IH; [| exact Ft | lia | lia | lia].
      unfold slice at 1. cbn [Z.to_nat firstn app]. reflexivity.
    + apply Z.leb_gt in E.
      replace (Z.min (size - o) (rlen x)) with (rlen x) by lia.
      cbn [rd_n rd_p]. rewrite Z.eqb_refl.
      rewrite skipn_all2 by (unfold Refs.zlen in Lp; lia). rewrite app_nil_r.
      rewrite IH; [| exact Ft | lia | lia | lia].
      rewrite <- app_assoc. reflexivity.
Qed.

(** pairs inside the address window of the image *)
Definition in_window (r : range) : Prop := d <= fst r /\ 0 <= snd r /\ fst r + snd r <= BASE.

Lemma in_window_okr rs : Forall in_window rs -> Forall okr (map to_r rs) /\ Forall (bnd d BASE) (map to_r rs).
Proof.
  pose proof (zlen_nonneg' content) as Sz. fold size in Sz.
  induction 1 as [|x t (A & B & C) _ (IH1 & IH2)]; cbn [map]; [split; constructor|].
  split; constructor; try assumption; unfold okr, bnd, to_r; cbn [roff rlen]; unfold d, BASE, W64 in *; lia.
Qed.

Lemma covers_spec rs k : covers rs k = cov_r (map to_r rs) k.
Proof.
  unfold covers, cov_r. induction rs as [|x t IH]; [reflexivity|].
  cbn [map existsb]. rewrite IH. reflexivity.
Qed.

(** THE exactness theorem *)
Theorem delivered_exact rs : Forall in_window rs ->
  delivered content rs = Ok (bytes_at_addrs content rs).
Proof.
  intros W. destruct (in_window_okr rs W) as (F & B).
  pose proof (zlen_nonneg' content) as Sz. fold size in Sz.
  set (sm := ranges_sm (map to_r rs)).
  destruct (ranges_sm_sep (map to_r rs) F) as (Sep & Fsm). fold sm in Sep, Fsm.
  pose proof (ranges_sm_bnd d BASE _ F B) as Bsm. fold sm in Bsm.
  assert (Win : Forall inwin sm).
  { apply Forall_forall. intros x Ix.
    pose proof (proj1 (Forall_forall _ _) Fsm x Ix) as (x0 & x1 & x2).
    pose proof (proj1 (Forall_forall _ _) Bsm x Ix) as (b0 & b1). unfold inwin. lia. }
  (* the merged list is separated from d - 1 on *)
  assert (S : sep_lb (d - 1) sm).
  { destruct sm as [|a t]; [exact I|]. cbn [separated] in Sep. cbn [sep_lb]. split; [|exact Sep].
    inversion Bsm as [|? ? (b0 & _) _]; subst. lia. }
  assert (Sum : sum_len sm <= size).
  { pose proof (sep_sum BASE sm (d - 1) S Fsm) as H.
    assert (Forall (fun r => roff r + rlen r <= BASE) sm) by (eapply Forall_impl; [|exact Bsm]; intros a (_ & h); exact h).
    specialize (H H0). unfold d in H. unfold d, BASE in *. lia. }
  unfold delivered, ref_rawbytes, phys_reference. cbn [rranges]. fold sm.
  rewrite total_len_sum; [| exact Fsm | unfold BASE, W64 in *; lia].
  rewrite (read_ranges_phys (mkRef (bios_image content) MPhys (map to_r rs)) (sum_len sm) sm eq_refl eq_refl 0 []);
    [| exact Win | lia | lia | unfold BASE, W64 in *; lia].
  cbn [app]. f_equal.
  rewrite (sep_flat d content sm (d - 1) 0 Fsm S); [| lia | lia |].
  2:{ eapply Forall_impl; [|exact Bsm]. intros a (_ & h). fold size. unfold d. lia. }
  cbn [Z.to_nat skipn]. unfold bytes_at_addrs. apply pick_ext. intros j _.
  fold size. fold d.
  rewrite covers_spec.
  destruct (cov_r sm (d + j)) eqn:E1; destruct (cov_r (map to_r rs) (d + j)) eqn:E2; try reflexivity.
  - apply cov_r_spec in E1. apply (ranges_sm_den _ _ F) in E1. apply cov_r_spec in E1. congruence.
  - apply cov_r_spec in E2. apply (ranges_sm_den _ _ F) in E2. apply cov_r_spec in E2. fold sm in E2. congruence.
Qed.

(** the bytes depend on the named SET only *)
Corollary delivered_same_set rs rs' : Forall in_window rs -> Forall in_window rs' ->
  (forall a, covers rs a = covers rs' a) -> delivered content rs = delivered content rs'.
Proof.
  intros W W' H. rewrite !delivered_exact by assumption. f_equal.
  unfold bytes_at_addrs. apply pick_ext. intros j _. apply H.
Qed.

Lemma covers_perm rs rs' a : Permutation rs rs' -> covers rs a = covers rs' a.
Proof.
  unfold covers. induction 1 as [| x l l' _ IH | x y l | l l' l'' _ IH1 _ IH2]; cbn [existsb].
  - reflexivity.
  - rewrite IH. reflexivity.
  - rewrite !orb_assoc. f_equal. apply orb_comm.
  - congruence.
Qed.

Lemma covers_app rs rs' a : covers (rs ++ rs') a = covers rs a || covers rs' a.
Proof. unfold covers. apply existsb_app. Qed.

Corollary delivered_perm rs rs' : Forall in_window rs -> Permutation rs rs' ->
  delivered content rs = delivered content rs'.
Proof.
  intros W P. apply delivered_same_set; [exact W | eapply Permutation_Forall; eassumption|].
  intros a. apply covers_perm. exact P.
Qed.

(** a range given again, or a range inside what the others name, adds nothing *)
Corollary delivered_absorb rs extra : Forall in_window rs -> Forall in_window extra ->
  (forall a, covers extra a = true -> covers rs a = true) ->
  delivered content (rs ++ extra) = delivered content rs.
Proof.
  intros W We H. apply delivered_same_set; [apply Forall_app; split; assumption | exact W|].
  intros a. rewrite covers_app. destruct (covers extra a) eqn:E; [rewrite (H a E)|]; rewrite ?orb_true_r, ?orb_false_r; reflexivity.
Qed.

(** never more bytes than the image has, whatever the lengths of the ranges add up to *)
Corollary delivered_length rs bs : Forall in_window rs -> delivered content rs = Ok bs -> zlen bs <= size.
Proof.
  intros W E. rewrite delivered_exact in E by exact W. inversion E. apply pick_length_le.
Qed.

(** sorting and merging beforehand (UEFIFiles, VolumeOf) names the same set *)
Lemma sort_merge_window rs : Forall in_window rs -> Forall in_window (sort_merge rs).
Proof.
  intros W. destruct (in_window_okr rs W) as (F & B). unfold sort_merge.
  destruct (ranges_sm_sep _ F) as (_ & Fsm). pose proof (ranges_sm_bnd d BASE _ F B) as Bsm.
  apply Forall_forall. intros p Ip. apply in_map_iff in Ip. destruct Ip as (x & <- & Ix).
  pose proof (proj1 (Forall_forall _ _) Fsm x Ix) as (x0 & x1 & x2).
  pose proof (proj1 (Forall_forall _ _) Bsm x Ix) as (b0 & b1).
  unfold in_window, from_r. cbn [fst snd]. lia.
Qed.

Lemma to_r_from_r l : map to_r (map from_r l) = l.
Proof. induction l as [|[o n] t IH]; [reflexivity|]. cbn [map]. rewrite IH. reflexivity. Qed.

Lemma sort_merge_covers rs a : Forall in_window rs -> covers (sort_merge rs) a = covers rs a.
Proof.
  intros W. destruct (in_window_okr rs W) as (F & _). rewrite !covers_spec. unfold sort_merge.
  rewrite to_r_from_r.
  destruct (cov_r (ranges_sm (map to_r rs)) a) eqn:E1; destruct (cov_r (map to_r rs) a) eqn:E2; try reflexivity.
  - apply cov_r_spec in E1. apply (ranges_sm_den _ _ F) in E1. apply cov_r_spec in E1. congruence.
  - apply cov_r_spec in E2. apply (ranges_sm_den _ _ F) in E2. apply cov_r_spec in E2. congruence.
Qed.

Corollary delivered_sort_merge rs : Forall in_window rs ->
  delivered content (sort_merge rs) = delivered content rs.
Proof.
  intros W. apply delivered_same_set; [apply sort_merge_window; exact W | exact W|].
  intros a. apply sort_merge_covers. exact W.
Qed.

(** several references of one Data: one after the other *)
Corollary delivered_data_exact refs : Forall (Forall in_window) refs ->
  delivered_data content refs = Ok (concat (map (bytes_at_addrs content) refs)).
Proof.
  intros W. unfold delivered_data. apply refs_rawbytes_concat.
  exists (map (bytes_at_addrs content) refs). split; [|reflexivity].
  induction W as [|rs t Wr _ IH]; cbn [map]; constructor; [|exact IH].
  fold (delivered content rs). apply delivered_exact. exact Wr.
Qed.

(** * From image offsets (what the walker reports) *)

Definition in_image (r : range) : Prop := 0 <= fst r /\ 0 <= snd r /\ fst r + snd r <= size.

Lemma unresolve_in_image o : 0 <= o <= size -> pmm_unresolve size o = d + o.
Proof.
  intros H. unfold pmm_unresolve. pose proof (zlen_nonneg' content) as Sz. fold size in Sz.
  rewrite (wrap64_small (o + BASE)) by (unfold BASE, W64 in *; lia).
  rewrite wrap64_small by (unfold BASE, W64 in *; lia). unfold d. lia.
Qed.

Lemma to_addrs_window reported : Forall in_image reported -> Forall in_window (to_addrs size reported).
Proof.
  induction 1 as [|x t (A & B & C) _ IH]; cbn [to_addrs map_ranges map]; constructor; [|exact IH].
  unfold in_window. cbn [fst snd]. rewrite unresolve_in_image by lia. unfold d. lia.
Qed.

Lemma to_addrs_covers reported k : Forall in_image reported ->
  covers (to_addrs size reported) (d + k) = covers reported k.
Proof.
  unfold covers. induction 1 as [|x t (A & B & C) _ IH]; [reflexivity|].
  cbn [to_addrs map_ranges map existsb fst snd]. unfold to_addrs, map_ranges in IH. rewrite IH.
  rewrite unresolve_in_image by lia. f_equal.
  assert (E1 : (d + fst x <=? d + k) = (fst x <=? k))
    by (destruct (Z.leb_spec (d + fst x) (d + k)), (Z.leb_spec (fst x) k); first [reflexivity | lia]).
  assert (E2 : (d + k <? d + fst x + snd x) = (k <? fst x + snd x))
    by (destruct (Z.ltb_spec (d + k) (d + fst x + snd x)), (Z.ltb_spec k (fst x + snd x)); first [reflexivity | lia]).
  rewrite E1, E2. reflexivity.
Qed.

Theorem delivered_offsets_exact reported : Forall in_image reported ->
  delivered content (to_addrs size reported) = Ok (bytes_at_offsets content reported).
Proof.
  intros W. rewrite delivered_exact by (apply to_addrs_window; exact W). f_equal.
  unfold bytes_at_addrs, bytes_at_offsets. apply pick_ext. intros j _. fold size. fold d.
  apply to_addrs_covers. exact W.
Qed.

Lemma in_image_known r : in_image r -> unknown r = false.
Proof.
  intros (A & B & C). unfold unknown. apply Z.eqb_neq. pose proof (zlen_nonneg' content). fold size in H.
  unfold MAXU64, BASE in *. lia.
Qed.

Lemma in_image_all_known reported : Forall in_image reported -> existsb unknown reported = false.
Proof.
  induction 1 as [|x t Hx _ IH]; [reflexivity|]. cbn [existsb]. rewrite (in_image_known x Hx), IH. reflexivity.
Qed.

Theorem guid_first_exact reported : reported <> [] -> Forall in_image reported ->
  guid_first_bytes content reported = Ok (bytes_at_offsets content reported).
Proof.
  intros N W. unfold guid_first_bytes. rewrite (in_image_all_known _ W).
  destruct reported as [|x t]; [congruence|]. fold size. apply delivered_offsets_exact. exact W.
Qed.

Theorem uefi_files_exact reported : Forall in_image reported ->
  uefi_files_bytes content reported = Ok (bytes_at_offsets content reported).
Proof.
  intros W. unfold uefi_files_bytes. rewrite (in_image_all_known _ W). fold size.
  pose proof (to_addrs_window _ W) as Wa.
  pose proof (delivered_sort_merge _ Wa) as E. rewrite delivered_offsets_exact in E by exact W.
  destruct (sort_merge (to_addrs size reported)) as [|p l] eqn:Esm; [|exact E].
  rewrite <- E. rewrite delivered_exact by constructor. f_equal.
  symmetry. apply pick_none. reflexivity.
Qed.

End Phys.

(** * The statement has teeth: sizing the buffer before merging *)

(** Reference.RawBytes with the two statements swapped: the buffer is made for the sum of the
    lengths as given, the merged ranges are read into its front, the rest stays zero. *)
Definition delivered_presized (content : list Z) (rs : list range) : outcome (list Z) :=
  let r := phys_reference content rs in
  let total := total_len (rranges r) in
  match read_ranges r total (ranges_sm (rranges r)) 0 [] with
  | Ok bs => Ok (bs ++ repeat 0 (Z.to_nat (total - zlen bs)))
  | o => o
  end.
