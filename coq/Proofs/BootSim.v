(** Proofs about Model/BootSim.v (property C01): the simulated PCR values agree
    with the simulator's own command log, event log and measured data. *)
From CSS Require Import Lib.Base Model.TPM Proofs.TPM Model.BootSim.
From CSS Require Model.EventLog Proofs.EventLog.
Module ELP := CSS.Proofs.EventLog.

(** * 0. Small facts about the TPM model that C02 does not export *)

Definition ok (r : outcome unit) : Prop := r = Ok tt.

(** no step issue: every action of every step returned nil *)
Definition no_issues (rss : list (list (outcome unit))) : Prop := Forall (Forall ok) rss.

(** two TPM objects that differ at most in their command log *)
Definition same_obs (t1 t2 : state) : Prop :=
  pcrs t1 = pcrs t2 /\ evlog t1 = evlog t2 /\ algos t1 = algos t2.

Lemma same_obs_refl t : same_obs t t.
Proof. repeat split. Qed.

Lemma same_obs_log_cmd t c : same_obs (log_cmd t c) t.
Proof. repeat split. Qed.

Lemma same_obs_trans t1 t2 t3 : same_obs t1 t2 -> same_obs t2 t3 -> same_obs t1 t3.
Proof. intros (A & B & C) (D & E & F). repeat split; congruence. Qed.

Lemma same_obs_sym t1 t2 : same_obs t1 t2 -> same_obs t2 t1.
Proof. intros (A & B & C). repeat split; congruence. Qed.

Lemma no_reset_app h1 h2 : no_reset (h1 ++ h2) = no_reset h1 && no_reset h2.
Proof. unfold no_reset. apply forallb_app. Qed.

Lemma not_reset_of_no_reset c t : no_reset (c :: t) = true -> is_reset c = false /\ no_reset t = true.
Proof.
  cbn [no_reset forallb]. intros E. apply andb_true_iff in E. destruct E as [A B].
  split; [destruct (is_reset c); [discriminate|reflexivity]|exact B].
Qed.

Section WithHash.
Variable H : Z -> list Z -> list Z.

Lemma step_is_apply t c : is_reset c = false -> step H t c = apply H (log_cmd t c) c.
Proof. destruct c; try discriminate; reflexivity. Qed.

(** [cmd.Apply] never looks at the command log *)
Lemma apply_same_obs t1 t2 c :
  same_obs t1 t2 ->
  same_obs (fst (apply H t1 c)) (fst (apply H t2 c)) /\ snd (apply H t1 c) = snd (apply H t2 c).
Proof.
  intros (Hp & He & Ha). unfold same_obs.
  destruct c as [l|p a d|p a d ty data| |].
  - cbn [apply]. unfold initialized. rewrite Hp.
    destruct (pcrs t2) eqn:E2; cbn [fst snd set_pcrs pcrs evlog algos]; repeat split; congruence.
  - cbn [apply]. rewrite Hp.
    destruct ((a <? 0) || (POOL_SIZE <=? a)); [cbn [fst snd]; repeat split; congruence|].
    destruct (negb (is_hash a)); [cbn [fst snd]; repeat split; congruence|].
    destruct (get (pcrs t2) p a) as [old|e| |]; try (cbn [fst snd]; repeat split; congruence).
    destruct (Nat.eqb (length old) (hsize a));
      cbn [fst snd set_pcrs pcrs evlog algos]; repeat split; congruence.
  - cbn [apply fst snd log_event pcrs evlog algos]. repeat split; congruence.
  - cbn. auto.
  - cbn. auto.
Qed.

Lemma step_vs_apply t1 t2 c :
  is_reset c = false -> same_obs t1 t2 ->
  same_obs (fst (apply H t1 c)) (fst (step H t2 c)) /\ snd (apply H t1 c) = snd (step H t2 c).
Proof.
  intros Hr Ho. rewrite (step_is_apply t2 c Hr). apply apply_same_obs.
  eapply same_obs_trans; [exact Ho|apply same_obs_sym, same_obs_log_cmd].
Qed.

Lemma algos_step t c : is_reset c = false -> algos (fst (step H t c)) = algos t.
Proof.
  intros Hr. destruct (step_vs_apply t t c Hr (same_obs_refl t)) as [(_ & _ & A) _].
  destruct (apply_same_obs (log_cmd t c) t c (same_obs_log_cmd t c)) as [(_ & _ & B) _].
  rewrite (step_is_apply t c Hr).
  destruct c as [l|p a d|p a d ty data| |]; try discriminate.
  - cbn [apply]. destruct (initialized (log_cmd t (Startup l))); reflexivity.
  - cbn [apply].
    destruct ((a <? 0) || (POOL_SIZE <=? a)); [reflexivity|].
    destruct (negb (is_hash a)); [reflexivity|].
    destruct (get (pcrs (log_cmd t (Extend p a d))) p a) as [old|e| |]; try reflexivity.
    destruct (Nat.eqb (length old) (hsize a)); reflexivity.
  - reflexivity.
Qed.

Lemma algos_run h : forall t, no_reset h = true -> algos (run H t h) = algos t.
Proof.
  induction h as [|c r IH]; intros t Hn; cbn [run]; [reflexivity|].
  apply not_reset_of_no_reset in Hn. destruct Hn as [Hc Hr].
  rewrite IH by exact Hr. apply algos_step. exact Hc.
Qed.

(** re-executing a history with bare [Apply] calls, going on after errors *)
Lemma reexec_vs_run h : forall t1 t2,
  no_reset h = true -> same_obs t1 t2 -> same_obs (reexec H t1 h) (run H t2 h).
Proof.
  induction h as [|c r IH]; intros t1 t2 Hn Ho; cbn [reexec run]; [exact Ho|].
  apply not_reset_of_no_reset in Hn. destruct Hn as [Hc Hr].
  apply IH; [exact Hr|]. apply step_vs_apply; assumption.
Qed.

(** [Commands.Apply] on a history in which no command fails *)
Lemma commands_apply_vs_run h : forall t1 t2,
  no_reset h = true -> same_obs t1 t2 -> Forall ok (results H t2 h) ->
  exists t', commands_apply H t1 h = (t', Ok tt) /\ same_obs t' (run H t2 h).
Proof.
  induction h as [|c r IH]; intros t1 t2 Hn Ho Hok; cbn [commands_apply run results] in *.
  - exists t1. auto.
  - apply not_reset_of_no_reset in Hn. destruct Hn as [Hc Hr].
    inversion Hok as [|? ? Hhd Htl]; subst.
    destruct (step_vs_apply t1 t2 c Hc Ho) as [Ho' Hres].
    destruct (apply H t1 c) as [t1' r1] eqn:Ea. cbn [fst snd] in *.
    unfold ok in Hhd. rewrite Hhd in Hres. subst r1.
    apply IH; assumption.
Qed.

End WithHash.

(** * 1. Every flow is a command history *)

Section Sim.
Variable ref : Type.
Variable bytes_of : ref -> outcome (list Z).
Variable H : Z -> list Z -> list Z.

Notation converted := (BootSim.converted ref bytes_of H).
Notation raw_bytes := (BootSim.raw_bytes ref bytes_of).
Notation event_loop := (BootSim.event_loop H).
Notation apply_act := (BootSim.apply_act ref bytes_of H).
Notation run_acts := (BootSim.run_acts ref bytes_of H).
Notation compile_item := (BootSim.compile_item ref bytes_of H).
Notation compile_step := (BootSim.compile_step ref bytes_of H).
Notation run_step := (BootSim.run_step ref bytes_of H).
Notation run_flow := (BootSim.run_flow ref bytes_of H).
Notation pcr0_pair := (BootSim.pcr0_pair ref bytes_of H).
Notation sim := (BootSim.sim ref).
Notation item := (BootSim.item ref).
Notation tact := (BootSim.tact ref).
Notation mdata := (BootSim.mdata ref).

(** [t'] is [t] after the history [h]; if the action reported success, no command failed *)
Definition grows (t t' : state) (r : Prop) : Prop :=
  exists h, no_reset h = true /\ t' = run H t h /\ (r -> Forall ok (results H t h)).

Lemma grows_refl t (r : Prop) : grows t t r.
Proof. exists []. repeat split. intros _. constructor. Qed.

Lemma grows_trans t1 t2 t3 (r1 r2 r : Prop) :
  grows t1 t2 r1 -> grows t2 t3 r2 -> (r -> r1 /\ r2) -> grows t1 t3 r.
Proof.
  intros (h1 & N1 & E1 & R1) (h2 & N2 & E2 & R2) Hr. exists (h1 ++ h2).
  split; [rewrite no_reset_app, N1, N2; reflexivity|]. split.
  - rewrite run_app, <- E1. exact E2.
  - intros Hrr. destruct (Hr Hrr) as [A B]. rewrite results_app. apply Forall_app. split.
    + apply R1, A.
    + rewrite <- E1. apply R2, B.
Qed.

Lemma grows_step t c (r : Prop) :
  is_reset c = false -> (r -> snd (step H t c) = Ok tt) -> grows t (fst (step H t c)) r.
Proof.
  intros Hc Hr. exists [c]. split; [cbn [no_reset forallb]; rewrite Hc; reflexivity|].
  split; [reflexivity|]. intros Hrr. cbn [results]. constructor; [apply Hr, Hrr|constructor].
Qed.

Lemma event_loop_grows algs : forall t p msg ty evd,
  grows t (fst (event_loop t p msg ty evd algs)) (snd (event_loop t p msg ty evd algs) = Ok tt).
Proof.
  induction algs as [|a rest IH]; intros t p msg ty evd; cbn [BootSim.event_loop].
  - apply grows_refl.
  - destruct (step H t (Extend p a (H a msg))) as [t1 r1] eqn:E1.
    assert (G1 : forall r : Prop, (r -> r1 = Ok tt) -> grows t t1 r).
    { intros r Hr. replace t1 with (fst (step H t (Extend p a (H a msg)))) by (rewrite E1; reflexivity).
      apply grows_step; [reflexivity|]. rewrite E1. exact Hr. }
    destruct r1 as [[]|e| |]; try (cbn [fst snd]; apply G1; intros C; discriminate C).
    destruct (step H t1 (LogAdd p a (H a msg) ty evd)) as [t2 r2] eqn:E2.
    assert (G2 : forall r : Prop, (r -> r2 = Ok tt) -> grows t1 t2 r).
    { intros r Hr. replace t2 with (fst (step H t1 (LogAdd p a (H a msg) ty evd))) by (rewrite E2; reflexivity).
      apply grows_step; [reflexivity|]. rewrite E2. exact Hr. }
    destruct r2 as [[]|e| |].
    + eapply grows_trans; [apply (G1 True); auto| |].
      * eapply grows_trans; [apply (G2 True); auto|apply IH|]. intros X. split; [exact I|exact X].
      * intros X. split; [exact I|exact X].
    + cbn [fst snd]. eapply grows_trans; [apply (G1 True); auto|apply G2; intros C; exact C|].
      intros C; discriminate C.
    + cbn [fst snd]. eapply grows_trans; [apply (G1 True); auto|apply G2; intros C; exact C|].
      intros C; discriminate C.
    + cbn [fst snd]. eapply grows_trans; [apply (G1 True); auto|apply G2; intros C; exact C|].
      intros C; discriminate C.
Qed.

Lemma apply_act_grows s a :
  grows (s_tpm s) (s_tpm (fst (apply_act s a))) (snd (apply_act s a) = Ok tt).
Proof.
  destruct a as [l|p src ty evd|p src a|p a d ty evd|]; cbn [BootSim.apply_act].
  - destruct (step H (s_tpm s) (Startup l)) as [t r] eqn:E. cbn [fst snd with_tpm s_tpm].
    replace t with (fst (step H (s_tpm s) (Startup l))) by (rewrite E; reflexivity).
    apply grows_step; [reflexivity|]. rewrite E. auto.
  - destruct src as [d| |]; try (cbn [fst snd]; apply grows_refl).
    destruct (converted d) as [msg|e| |]; try (cbn [fst snd]; apply grows_refl).
    pose proof (event_loop_grows supported (s_tpm s) p msg ty evd) as G.
    destruct (event_loop (s_tpm s) p msg ty evd supported) as [t r]. cbn [fst snd] in G.
    destruct r as [[]|e| |]; cbn [fst snd add_meas with_tpm s_tpm]; exact G.
  - destruct src as [d| |]; try (cbn [fst snd]; apply grows_refl).
    destruct (converted d) as [msg|e| |]; try (cbn [fst snd]; apply grows_refl).
    destruct (step H (s_tpm s) (Extend p a msg)) as [t r] eqn:E.
    assert (G : grows (s_tpm s) t (r = Ok tt)).
    { replace t with (fst (step H (s_tpm s) (Extend p a msg))) by (rewrite E; reflexivity).
      apply grows_step; [reflexivity|]. rewrite E. auto. }
    destruct r as [[]|e| |]; cbn [fst snd add_meas with_tpm s_tpm]; exact G.
  - destruct (step H (s_tpm s) (LogAdd p a d ty evd)) as [t r] eqn:E. cbn [fst snd with_tpm s_tpm].
    replace t with (fst (step H (s_tpm s) (LogAdd p a d ty evd))) by (rewrite E; reflexivity).
    apply grows_step; [reflexivity|]. rewrite E. auto.
  - cbn [fst snd]. apply grows_refl.
Qed.

Lemma run_acts_grows acts : forall s,
  grows (s_tpm s) (s_tpm (fst (run_acts s acts))) (Forall ok (snd (run_acts s acts))).
Proof.
  induction acts as [|a rest IH]; intros s; cbn [BootSim.run_acts].
  - apply grows_refl.
  - pose proof (apply_act_grows s a) as G1.
    destruct (apply_act s a) as [s1 r] eqn:E1. cbn [fst snd] in G1.
    pose proof (IH s1) as G2. destruct (run_acts s1 rest) as [s2 rs]. cbn [fst snd] in *.
    eapply grows_trans; [exact G1|exact G2|]. intros F. inversion F; subst. auto.
Qed.

Lemma run_step_grows s its :
  grows (s_tpm s) (s_tpm (fst (run_step s its))) (Forall ok (snd (run_step s its))).
Proof.
  unfold BootSim.run_step. destruct (compile_step (s_tpm s) its); try (cbn [fst snd]; apply grows_refl).
  apply run_acts_grows.
Qed.

Lemma run_flow_grows fl : forall s,
  grows (s_tpm s) (s_tpm (fst (run_flow s fl))) (no_issues (snd (run_flow s fl))).
Proof.
  induction fl as [|st rest IH]; intros s; cbn [BootSim.run_flow].
  - apply grows_refl.
  - pose proof (run_step_grows s st) as G1.
    destruct (run_step s st) as [s1 r]. cbn [fst snd] in G1.
    pose proof (IH s1) as G2. destruct (run_flow s1 rest) as [s2 rs]. cbn [fst snd] in *.
    eapply grows_trans; [exact G1|exact G2|]. intros F. inversion F; subst. auto.
Qed.

(** ** C01_cmdlog_replay *)

(** The recorded command log, executed again through [TPMExecute] on a new TPM,
    rebuilds the TPM exactly: PCR values, event log and the command log itself. *)
Theorem cmdlog_replay_exact fl :
  let t := s_tpm (fst (run_flow sim0 fl)) in run H fresh (cmdlog t) = t.
Proof.
  cbv zeta. destruct (run_flow_grows fl sim0) as (h & Hn & E & _). cbn [sim0 s_tpm] in E.
  rewrite E. destruct (log_exact H fresh h Hn) as [L _]. rewrite L. reflexivity.
Qed.

(** ... and executed with bare [Command.Apply] calls (nothing is logged), going
    on after a command that fails as the flow itself did: same PCR values and event log. *)
Theorem cmdlog_replay fl :
  let t := s_tpm (fst (run_flow sim0 fl)) in
  pcrs (reexec H fresh (cmdlog t)) = pcrs t /\ evlog (reexec H fresh (cmdlog t)) = evlog t.
Proof.
  cbv zeta. destruct (run_flow_grows fl sim0) as (h & Hn & E & _). cbn [sim0 s_tpm] in E.
  destruct (log_exact H fresh h Hn) as [L _]. rewrite <- E in L. cbn [fresh cmdlog app] in L.
  rewrite L. destruct (reexec_vs_run H h fresh fresh Hn (same_obs_refl _)) as (A & B & _).
  rewrite E. auto.
Qed.

(** [tpm.Commands.Apply] stops at the first failing command, so it reproduces
    the PCRs of the flows that ran without a step issue. *)
Theorem cmdlog_apply fl :
  let t := s_tpm (fst (run_flow sim0 fl)) in
  no_issues (snd (run_flow sim0 fl)) ->
  exists t', commands_apply H fresh (cmdlog t) = (t', Ok tt) /\ pcrs t' = pcrs t /\ evlog t' = evlog t.
Proof.
  cbv zeta. intros Hok. destruct (run_flow_grows fl sim0) as (h & Hn & E & R). cbn [sim0 s_tpm] in E, R.
  destruct (log_exact H fresh h Hn) as [L _]. rewrite <- E in L. cbn [fresh cmdlog app] in L.
  rewrite L. destruct (commands_apply_vs_run H h fresh fresh Hn (same_obs_refl _) (R Hok)) as (t' & Ea & A & B & _).
  exists t'. rewrite E. auto.
Qed.

(** ** Boots on a TPM object that served earlier boots *)

(** The object a boot starts on does not depend on what the earlier boots left
    in it: Reset() and DoNotUse_ResetNoInit() + SupportedAlgos restored give the
    state of NewTPM(), DoNotUse_ResetNoInit() alone the same without SupportedAlgos. *)
Lemma recycle_start prev r : BootSim.recycle H prev r = start_of r.
Proof. destruct r; reflexivity. Qed.

(** every boot of a session is the boot of its flow from [boot_start] *)
Lemma run_boots_each bs : forall prev,
  BootSim.run_boots ref bytes_of H prev bs = map (fun b => run_flow (boot_start (fst b)) (snd b)) bs.
Proof.
  induction bs as [|[r fl] rest IH]; intros prev; cbn [BootSim.run_boots map fst snd]; [reflexivity|].
  rewrite recycle_start, IH. reflexivity.
Qed.

Lemma obs_eq_start r : obs_eq (start_of r) fresh.
Proof. destruct r; repeat split. Qed.

Lemma cmdlog_start r : cmdlog (start_of r) = [].
Proof. destruct r; reflexivity. Qed.

Lemma evlog_start r : evlog (start_of r) = [].
Proof. destruct r; reflexivity. Qed.

Lemma algos_start r : incl (algos (start_of r)) supported.
Proof. destruct r; cbn; try apply incl_refl. intros x []. Qed.

(** the history of a boot *)
Lemma boot_history r fl :
  exists h, no_reset h = true /\
    s_tpm (fst (run_flow (boot_start r) fl)) = run H (start_of r) h /\
    cmdlog (s_tpm (fst (run_flow (boot_start r) fl))) = h /\
    (no_issues (snd (run_flow (boot_start r) fl)) -> Forall ok (results H (start_of r) h)).
Proof.
  destruct (run_flow_grows fl (boot_start r)) as (h & Hn & E & R). cbn [boot_start s_tpm] in E, R.
  exists h. split; [exact Hn|]. split; [exact E|]. split; [|exact R].
  rewrite E. destruct (log_exact H (start_of r) h Hn) as [L _]. rewrite L, cmdlog_start. reflexivity.
Qed.

(** C01_cmdlog_replay for every boot of a session: the command log of the boot,
    executed again on the recycled object, rebuilds it exactly; re-executed on a
    NEW TPM it gives the same PCR values and event log. *)
Theorem cmdlog_replay_boot r fl :
  let t := s_tpm (fst (run_flow (boot_start r) fl)) in
  run H (start_of r) (cmdlog t) = t /\
  pcrs (reexec H fresh (cmdlog t)) = pcrs t /\ evlog (reexec H fresh (cmdlog t)) = evlog t.
Proof.
  cbv zeta. destruct (boot_history r fl) as (h & Hn & E & L & _). rewrite L. split; [symmetry; exact E|].
  destruct (reexec_vs_run H h fresh fresh Hn (same_obs_refl _)) as (A & B & _).
  destruct (run_obs_eq H h (start_of r) fresh (obs_eq_start r)) as [(P & _ & V) _].
  rewrite E, A, B. auto.
Qed.

Theorem cmdlog_apply_boot r fl :
  let t := s_tpm (fst (run_flow (boot_start r) fl)) in
  no_issues (snd (run_flow (boot_start r) fl)) ->
  exists t', commands_apply H fresh (cmdlog t) = (t', Ok tt) /\ pcrs t' = pcrs t /\ evlog t' = evlog t.
Proof.
  cbv zeta. intros Hok. destruct (boot_history r fl) as (h & Hn & E & L & R). rewrite L.
  destruct (run_obs_eq H h (start_of r) fresh (obs_eq_start r)) as [(P & _ & V) Hres].
  rewrite Hres in R.
  destruct (commands_apply_vs_run H h fresh fresh Hn (same_obs_refl _) (R Hok)) as (t' & Ea & A & B & _).
  exists t'. rewrite E, P, V. auto.
Qed.


(** * 2. Every digest is the hash of the bytes the references denote *)

(** [b] is the concatenation, in reference order, of the bytes of the references *)
Definition denotes (rs : list ref) (b : list Z) : Prop :=
  exists bs, Forall2 (fun r x => bytes_of r = Ok x) rs bs /\ b = concat bs.

Lemma raw_bytes_denotes rs : forall b, raw_bytes rs = Ok b -> denotes rs b.
Proof.
  induction rs as [|r t IH]; intros b E; cbn [BootSim.raw_bytes] in E.
  - inversion E. exists []. split; [constructor|reflexivity].
  - destruct (bytes_of r) as [x|e| |] eqn:Er; cbn [bind] in E; try discriminate.
    destruct (raw_bytes t) as [y|e| |] eqn:Et; cbn [bind] in E; try discriminate.
    inversion E. destruct (IH y eq_refl) as (bs & F & ->).
    exists (x :: bs). split; [constructor; assumption|reflexivity].
Qed.

Lemma denotes_raw_bytes rs b : denotes rs b -> raw_bytes rs = Ok b.
Proof.
  intros (bs & F & ->). induction F as [|r x rs' bs' Hr F IH]; cbn [BootSim.raw_bytes concat].
  - reflexivity.
  - rewrite Hr, IH. reflexivity.
Qed.

(** the bytes are determined by the references *)
Lemma denotes_unique rs b b' : denotes rs b -> denotes rs b' -> b = b'.
Proof. intros A B. apply denotes_raw_bytes in A, B. congruence. Qed.

(** the startup-locality entries of LogInit *)
Definition startup_logadd (l : Z) (c : cmd) : Prop :=
  exists a, In a supported /\
  c = LogAdd 0 a (repeat 0 (hsize a)) EV_NO_ACTION (Some (startup_bytes l)).

(** The commands an item of a flow may issue: what "the digest extended or
    logged for a measurement" is.  [raw] are the bytes the references denote. *)
Definition item_cmd (it : item) (c : cmd) : Prop :=
  match it with
  | IInit l => c = Startup l
  | IInitTPM l wl => c = Startup l \/ (wl = true /\ startup_logadd l c)
  | ILogInit l => startup_logadd l c
  | IEvent p src ty evd =>
      exists d raw a, src = DS d /\ denotes (d_refs d) raw /\ In a supported /\
      (c = Extend p a (H a (convert H (d_conv d) raw)) \/
       c = LogAdd p a (H a (convert H (d_conv d) raw)) ty evd)
  | IExtend p src a =>
      exists d raw, src = DS d /\ denotes (d_refs d) raw /\
      c = Extend p a (convert H (d_conv d) raw)
  | ILogAdd p a dg ty evd => c = LogAdd p a dg ty evd
  | IPCR0Data r1 r256 =>
      exists a rs raw, ((a = ALG_SHA1 /\ r1 = Some rs) \/ (a = ALG_SHA256 /\ r256 = Some rs)) /\
      denotes rs raw /\
      (c = Extend 0 a (H a raw) \/
       c = LogAdd 0 a (H a raw) EV_S_CRTM_CONTENTS (Some (pcr0_data_descr a)))
  | IPanic => False
  end.

(** the same one level lower: the commands of one action *)
Definition act_cmd (a : tact) (c : cmd) : Prop :=
  match a with
  | AInit l => c = Startup l
  | AEvent p src ty evd =>
      exists d msg al, src = DS d /\ converted d = Ok msg /\ In al supported /\
      (c = Extend p al (H al msg) \/ c = LogAdd p al (H al msg) ty evd)
  | AExtend p src al => exists d msg, src = DS d /\ converted d = Ok msg /\ c = Extend p al msg
  | ALogAdd p al dg ty evd => c = LogAdd p al dg ty evd
  | APanic => False
  end.

Lemma in_cmdlog_step t c' c :
  is_reset c' = false -> In c (cmdlog (fst (step H t c'))) -> In c (cmdlog t) \/ c = c'.
Proof.
  intros Hr Hi. rewrite (cmdlog_step H t c' Hr) in Hi. apply in_app_or in Hi.
  destruct Hi as [A|[A|[]]]; auto.
Qed.

Lemma event_loop_cmds algs : forall t p msg ty evd c,
  In c (cmdlog (fst (event_loop t p msg ty evd algs))) ->
  In c (cmdlog t) \/
  exists a, In a algs /\ (c = Extend p a (H a msg) \/ c = LogAdd p a (H a msg) ty evd).
Proof.
  induction algs as [|a rest IH]; intros t p msg ty evd c Hi; cbn [BootSim.event_loop] in Hi.
  - left. exact Hi.
  - destruct (step H t (Extend p a (H a msg))) as [t1 r1] eqn:E1.
    assert (C1 : forall x, In x (cmdlog t1) -> In x (cmdlog t) \/ x = Extend p a (H a msg)).
    { intros x Hx. apply in_cmdlog_step; [reflexivity|]. rewrite E1. exact Hx. }
    destruct r1 as [[]|e| |];
      try (cbn [fst] in Hi; destruct (C1 c Hi) as [A|A]; [left; exact A|right; exists a; cbn [In]; auto]).
    destruct (step H t1 (LogAdd p a (H a msg) ty evd)) as [t2 r2] eqn:E2.
    assert (C2 : forall x, In x (cmdlog t2) -> In x (cmdlog t1) \/ x = LogAdd p a (H a msg) ty evd).
    { intros x Hx. apply in_cmdlog_step; [reflexivity|]. rewrite E2. exact Hx. }
    assert (C12 : forall x, In x (cmdlog t2) ->
              In x (cmdlog t) \/ exists a0, In a0 (a :: rest) /\
                (x = Extend p a0 (H a0 msg) \/ x = LogAdd p a0 (H a0 msg) ty evd)).
    { intros x Hx. destruct (C2 x Hx) as [A|A].
      - destruct (C1 x A) as [B|B]; [left; exact B|right; exists a; cbn [In]; auto].
      - right. exists a. cbn [In]. auto. }
    destruct r2 as [[]|e| |]; try (cbn [fst] in Hi; apply C12; exact Hi).
    destruct (IH _ _ _ _ _ _ Hi) as [A|(a0 & I0 & A)].
    + apply C12. exact A.
    + right. exists a0. cbn [In]. auto.
Qed.

Lemma apply_act_cmds s a c :
  In c (cmdlog (s_tpm (fst (apply_act s a)))) -> In c (cmdlog (s_tpm s)) \/ act_cmd a c.
Proof.
  destruct a as [l|p src ty evd|p src al|p al d ty evd|]; cbn [BootSim.apply_act act_cmd].
  - destruct (step H (s_tpm s) (Startup l)) as [t r] eqn:E. cbn [fst with_tpm s_tpm]. intros Hi.
    apply in_cmdlog_step; [reflexivity|]. rewrite E. exact Hi.
  - destruct src as [d| |]; try (cbn [fst]; auto).
    destruct (converted d) as [msg|e| |] eqn:Ec; try (cbn [fst]; auto).
    pose proof (event_loop_cmds supported (s_tpm s) p msg ty evd c) as G.
    destruct (event_loop (s_tpm s) p msg ty evd supported) as [t r]. cbn [fst] in G.
    assert (G' : In c (cmdlog t) -> In c (cmdlog (s_tpm s)) \/
              exists d0 msg0 al, DS d = DS d0 /\ converted d0 = Ok msg0 /\ In al supported /\
              (c = Extend p al (H al msg0) \/ c = LogAdd p al (H al msg0) ty evd)).
    { intros Hi. destruct (G Hi) as [A|(al & I0 & A)]; [left; exact A|].
      right. exists d, msg, al. auto. }
    destruct r as [[]|e| |]; cbn [fst add_meas with_tpm s_tpm]; exact G'.
  - destruct src as [d| |]; try (cbn [fst]; auto).
    destruct (converted d) as [msg|e| |] eqn:Ec; try (cbn [fst]; auto).
    destruct (step H (s_tpm s) (Extend p al msg)) as [t r] eqn:E.
    assert (G' : In c (cmdlog t) -> In c (cmdlog (s_tpm s)) \/
              exists d0 msg0, DS d = DS d0 /\ converted d0 = Ok msg0 /\ c = Extend p al msg0).
    { intros Hi. assert (X : In c (cmdlog (s_tpm s)) \/ c = Extend p al msg).
      { apply in_cmdlog_step; [reflexivity|]. rewrite E. exact Hi. }
      destruct X as [A|A]; [left; exact A|right; exists d, msg; auto]. }
    destruct r as [[]|e| |]; cbn [fst add_meas with_tpm s_tpm]; exact G'.
  - destruct (step H (s_tpm s) (LogAdd p al d ty evd)) as [t r] eqn:E. cbn [fst with_tpm s_tpm]. intros Hi.
    apply in_cmdlog_step; [reflexivity|]. rewrite E. exact Hi.
  - cbn [fst]. auto.
Qed.

Lemma run_acts_cmds acts : forall s c,
  In c (cmdlog (s_tpm (fst (run_acts s acts)))) ->
  In c (cmdlog (s_tpm s)) \/ exists a, In a acts /\ act_cmd a c.
Proof.
  induction acts as [|a rest IH]; intros s c Hi; cbn [BootSim.run_acts] in Hi.
  - left. exact Hi.
  - pose proof (apply_act_cmds s a c) as G1. destruct (apply_act s a) as [s1 r]. cbn [fst] in G1.
    pose proof (IH s1 c) as G2. destruct (run_acts s1 rest) as [s2 rs]. cbn [fst] in *.
    destruct (G2 Hi) as [A|(a0 & I0 & A)].
    + destruct (G1 A) as [B|B]; [left; exact B|right; exists a; cbn [In]; auto].
    + right. exists a0. cbn [In]. auto.
Qed.

Lemma converted_denotes d msg :
  converted d = Ok msg -> exists raw, denotes (d_refs d) raw /\ msg = convert H (d_conv d) raw.
Proof.
  unfold BootSim.converted. destruct (raw_bytes (d_refs d)) as [raw|e| |] eqn:E; cbn [bind]; try discriminate.
  intros X. inversion X. exists raw. split; [apply raw_bytes_denotes; exact E|reflexivity].
Qed.

(** [SupportedAlgos] of the TPM is the package's list, or (after
    DoNotUse_ResetNoInit) empty *)
Lemma log_init_cmds t l a c :
  incl (algos t) supported -> In a (BootSim.log_init ref t l) -> act_cmd a c -> startup_logadd l c.
Proof.
  intros Ha Hi Hc. unfold BootSim.log_init in Hi.
  destruct (forallb is_hash (algos t)); [|destruct Hi as [<-|[]]; destruct Hc].
  apply in_map_iff in Hi. destruct Hi as (al & <- & Ial). cbn [act_cmd] in Hc. subst c.
  exists al. split; [apply Ha; exact Ial|reflexivity].
Qed.

Lemma pcr0_pair_cmds al refs acts a c :
  pcr0_pair al refs = Ok acts -> In a acts -> act_cmd a c ->
  exists rs raw, refs = Some rs /\ denotes rs raw /\
  (c = Extend 0 al (H al raw) \/ c = LogAdd 0 al (H al raw) EV_S_CRTM_CONTENTS (Some (pcr0_data_descr al))).
Proof.
  unfold BootSim.pcr0_pair. destruct refs as [rs|].
  - destruct (converted (mkData rs (Some al))) as [dg|e| |] eqn:Ec; cbn [bind]; try discriminate.
    intros X. inversion X; subst acts. clear X.
    destruct (converted_denotes _ _ Ec) as (raw & Hd & Edg). cbn [d_refs d_conv convert] in Hd, Edg.
    intros [<-|[<-|[]]] Hc; cbn [act_cmd] in Hc.
    + destruct Hc as (d0 & msg0 & Ed & Ec0 & ->). inversion Ed; subst d0.
      rewrite Ec in Ec0. inversion Ec0; subst msg0. exists rs, raw. subst dg. auto.
    + subst c. exists rs, raw. subst dg. auto.
  - intros X. inversion X; subst acts. intros [<-|[]] Hc. destruct Hc.
Qed.

Lemma compile_item_cmds t it acts a c :
  incl (algos t) supported -> compile_item t it = Ok acts -> In a acts -> act_cmd a c -> item_cmd it c.
Proof.
  intros Ha Ec Hi Hc. destruct it as [l|l wl|l|p src ty evd|p src al|p al dg ty evd|r1 r256|];
    cbn [BootSim.compile_item] in Ec; cbn [item_cmd].
  - inversion Ec; subst acts. destruct Hi as [<-|[]]. exact Hc.
  - inversion Ec; subst acts. destruct Hi as [<-|Hi]; [left; exact Hc|].
    destruct wl; [|destruct Hi]. right. split; [reflexivity|]. eapply log_init_cmds; eauto.
  - inversion Ec; subst acts. eapply log_init_cmds; eauto.
  - inversion Ec; subst acts. destruct Hi as [<-|[]]. cbn [act_cmd] in Hc.
    destruct Hc as (d & msg & al & Es & Ecv & Ial & Hcc).
    destruct (converted_denotes _ _ Ecv) as (raw & Hd & ->). exists d, raw, al. auto.
  - inversion Ec; subst acts. destruct Hi as [<-|[]]. cbn [act_cmd] in Hc.
    destruct Hc as (d & msg & Es & Ecv & Hcc).
    destruct (converted_denotes _ _ Ecv) as (raw & Hd & ->). exists d, raw. auto.
  - inversion Ec; subst acts. destruct Hi as [<-|[]]. exact Hc.
  - destruct (pcr0_pair ALG_SHA1 r1) as [x|e| |] eqn:E1; cbn [bind] in Ec; try discriminate.
    destruct (pcr0_pair ALG_SHA256 r256) as [y|e| |] eqn:E2; cbn [bind] in Ec; try discriminate.
    inversion Ec; subst acts. apply in_app_or in Hi. destruct Hi as [Hi|Hi].
    + destruct (pcr0_pair_cmds _ _ _ _ _ E1 Hi Hc) as (rs & raw & -> & Hd & Hcc).
      exists ALG_SHA1, rs, raw. auto.
    + destruct (pcr0_pair_cmds _ _ _ _ _ E2 Hi Hc) as (rs & raw & -> & Hd & Hcc).
      exists ALG_SHA256, rs, raw. auto.
  - inversion Ec; subst acts. destruct Hi as [<-|[]]. exact Hc.
Qed.

Lemma compile_step_in t its : forall acts a,
  compile_step t its = Ok acts -> In a acts ->
  exists it x, In it its /\ compile_item t it = Ok x /\ In a x.
Proof.
  induction its as [|it rest IH]; intros acts a Ec Hi; cbn [BootSim.compile_step] in Ec.
  - inversion Ec; subst acts. destruct Hi.
  - destruct (compile_item t it) as [x|e| |] eqn:E1; cbn [bind] in Ec; try discriminate.
    destruct (compile_step t rest) as [y|e| |] eqn:E2; cbn [bind] in Ec; try discriminate.
    inversion Ec; subst acts. apply in_app_or in Hi. destruct Hi as [Hi|Hi].
    + exists it, x. cbn [In]. auto.
    + destruct (IH y a eq_refl Hi) as (it0 & x0 & I0 & E0 & J0). exists it0, x0. cbn [In]. auto.
Qed.

Lemma grows_algos t t' (r : Prop) : grows t t' r -> algos t' = algos t.
Proof. intros (h & Hn & -> & _). apply algos_run. exact Hn. Qed.

Lemma run_step_cmds s its c :
  incl (algos (s_tpm s)) supported ->
  In c (cmdlog (s_tpm (fst (run_step s its)))) ->
  In c (cmdlog (s_tpm s)) \/ exists it, In it its /\ item_cmd it c.
Proof.
  intros Ha. unfold BootSim.run_step.
  destruct (compile_step (s_tpm s) its) as [acts|e| |] eqn:Ec; try (cbn [fst]; auto).
  intros Hi. destruct (run_acts_cmds acts s c Hi) as [A|(a & Ia & Hc)]; [left; exact A|right].
  destruct (compile_step_in _ _ _ _ Ec Ia) as (it & x & Iit & Ex & Ix).
  exists it. split; [exact Iit|]. eapply compile_item_cmds; eauto.
Qed.

Lemma run_flow_cmds fl : forall s c,
  incl (algos (s_tpm s)) supported ->
  In c (cmdlog (s_tpm (fst (run_flow s fl)))) ->
  In c (cmdlog (s_tpm s)) \/ exists it, In it (concat fl) /\ item_cmd it c.
Proof.
  induction fl as [|st rest IH]; intros s c Ha Hi; cbn [BootSim.run_flow] in Hi.
  - left. exact Hi.
  - pose proof (run_step_cmds s st c Ha) as G1. pose proof (run_step_grows s st) as Gg.
    destruct (run_step s st) as [s1 r]. cbn [fst snd] in G1, Gg.
    assert (Ha1 : incl (algos (s_tpm s1)) supported) by (rewrite (grows_algos _ _ _ Gg); exact Ha).
    pose proof (IH s1 c Ha1) as G2. destruct (run_flow s1 rest) as [s2 rs]. cbn [fst] in *.
    cbn [concat]. destruct (G2 Hi) as [A|(it & Iit & Hc)].
    + destruct (G1 A) as [B|(it & Iit & Hc)]; [left; exact B|].
      right. exists it. split; [apply in_or_app; left; exact Iit|exact Hc].
    + right. exists it. split; [apply in_or_app; right; exact Iit|exact Hc].
Qed.

(** ** C01_digest_is_hash_of_bytes *)

Theorem digest_is_hash_of_bytes fl c :
  In c (cmdlog (s_tpm (fst (run_flow sim0 fl)))) -> exists it, In it (concat fl) /\ item_cmd it c.
Proof.
  intros Hi. destruct (run_flow_cmds fl sim0 c (incl_refl _) Hi) as [[]|A]. exact A.
Qed.

(** the same for the entries of the event log *)
Theorem evlog_digest_is_hash_of_bytes fl p a dg ty evd :
  In (EV p a dg ty evd) (evlog (s_tpm (fst (run_flow sim0 fl)))) ->
  exists it, In it (concat fl) /\ item_cmd it (LogAdd p a dg ty evd).
Proof.
  intros Hi. apply digest_is_hash_of_bytes.
  destruct (run_flow_grows fl sim0) as (h & Hn & E & _). cbn [sim0 s_tpm] in E.
  destruct (log_exact H fresh h Hn) as [L1 L2]. rewrite E in *. rewrite L1. rewrite L2 in Hi.
  cbn [fresh cmdlog evlog app] in *. clear - Hi.
  induction h as [|c t IH]; [destruct Hi|].
  destruct c as [l|p' a' d'|p' a' d' ty' data'| |]; cbn [events_of In] in *; auto.
  destruct Hi as [X|X]; [left; inversion X; reflexivity|right; auto].
Qed.

(** ... and for every boot of a session *)
Theorem digest_is_hash_of_bytes_boot r fl c :
  In c (cmdlog (s_tpm (fst (run_flow (boot_start r) fl)))) -> exists it, In it (concat fl) /\ item_cmd it c.
Proof.
  intros Hi. destruct (run_flow_cmds fl (boot_start r) c (algos_start r) Hi) as [A|A]; [|exact A].
  cbn [boot_start s_tpm] in A. rewrite cmdlog_start in A. destruct A.
Qed.

Theorem evlog_digest_is_hash_of_bytes_boot r fl p a dg ty evd :
  In (EV p a dg ty evd) (evlog (s_tpm (fst (run_flow (boot_start r) fl)))) ->
  exists it, In it (concat fl) /\ item_cmd it (LogAdd p a dg ty evd).
Proof.
  intros Hi. apply (digest_is_hash_of_bytes_boot r).
  destruct (boot_history r fl) as (h & Hn & E & L & _). rewrite L. rewrite E in Hi.
  destruct (log_exact H (start_of r) h Hn) as [_ L2]. rewrite L2, evlog_start in Hi.
  cbn [app] in Hi. clear - Hi.
  induction h as [|c t IH]; [destruct Hi|].
  destruct c as [l|p' a' d'|p' a' d' ty' data'| |]; cbn [events_of In] in *; auto.
  destruct Hi as [X|X]; [left; inversion X; reflexivity|right; auto].
Qed.

End Sim.

(** * 3. PCR values = replay of the emitted event log *)

Lemma is_supported_cases a : is_supported a = true -> a = ALG_SHA1 \/ a = ALG_SHA256.
Proof. unfold is_supported, ALG_SHA1, ALG_SHA256. lia. Qed.

Lemma hash_size_hsize a size : EL.hash_size a = Some size -> Z.of_nat (hsize a) = size.
Proof.
  unfold EL.hash_size, hsize.
  repeat (match goal with |- context [if ?a =? ?k then _ else _] => destruct (a =? k) end;
          [intros E; inversion E; reflexivity|]).
  discriminate.
Qed.

Lemma hash_size_supported a : is_supported a = true -> EL.hash_size a = Some (Z.of_nat (hsize a)).
Proof. intros Hs. destruct (is_supported_cases a Hs) as [-> | ->]; reflexivity. Qed.

(** a measurement entry: not EV_NO_ACTION, digest of the bank's size *)
Definition good_ev (e : event) : Prop :=
  match e with EV p a d ty _ => ty <> EV_NO_ACTION /\ length d = hsize a end.

(** the entries LogInit adds *)
Definition sev (l : Z) (logged : bool) : list event :=
  if logged
  then [EV 0 ALG_SHA1 (repeat 0 20) EV_NO_ACTION (Some (startup_bytes l));
        EV 0 ALG_SHA256 (repeat 0 32) EV_NO_ACTION (Some (startup_bytes l))]
  else [].

Lemma to_parsed_app x y : to_parsed (x ++ y) = to_parsed x ++ to_parsed y.
Proof. apply map_app. Qed.

Lemma selected_app x y p a : EL.selected (x ++ y) p a = EL.selected x p a ++ EL.selected y p a.
Proof. apply filter_app. Qed.

Lemma meas_digests_app x y p a :
  EL.meas_digests (x ++ y) p a = EL.meas_digests x p a ++ EL.meas_digests y p a.
Proof. unfold EL.meas_digests. rewrite selected_app, filter_app, map_app. reflexivity. Qed.

Lemma meas_digests_one p a d ty data p' a' :
  EL.meas_digests (to_parsed [EV p a d ty data]) p' a' =
  if (p =? p') && (a =? a') && negb (ty =? EV_NO_ACTION) then [d] else [].
Proof.
  unfold EL.meas_digests, EL.selected. cbn [to_parsed map filter].
  unfold EL.sel at 1. cbn [EL.ev_pcr EL.ev_digest EL.d_alg].
  destruct ((p =? p') && (a =? a')); cbn [andb]; [|reflexivity].
  cbn [filter]. unfold EL.is_meas at 1. cbn [EL.ev_type]. change EL.EV_NO_ACTION with EV_NO_ACTION.
  destruct (negb (ty =? EV_NO_ACTION)); reflexivity.
Qed.

Lemma meas_digests_sev l b p a : EL.meas_digests (to_parsed (sev l b)) p a = [].
Proof.
  destruct b; [|reflexivity]. unfold sev.
  change [EV 0 ALG_SHA1 (repeat 0 20) EV_NO_ACTION (Some (startup_bytes l));
          EV 0 ALG_SHA256 (repeat 0 32) EV_NO_ACTION (Some (startup_bytes l))]
    with ([EV 0 ALG_SHA1 (repeat 0 20) EV_NO_ACTION (Some (startup_bytes l))] ++
          [EV 0 ALG_SHA256 (repeat 0 32) EV_NO_ACTION (Some (startup_bytes l))]).
  rewrite to_parsed_app, meas_digests_app, !meas_digests_one.
  change (EV_NO_ACTION =? EV_NO_ACTION) with true. cbn [negb]. rewrite !andb_false_r. reflexivity.
Qed.

Section Replay.
Variable ref : Type.
Variable bytes_of : ref -> outcome (list Z).
Variable H : Z -> list Z -> list Z.
Hypothesis H_length : forall a x, length (H a x) = hsize a.

Notation converted := (BootSim.converted ref bytes_of H).
Notation raw_bytes := (BootSim.raw_bytes ref bytes_of).
Notation event_loop := (BootSim.event_loop H).
Notation apply_act := (BootSim.apply_act ref bytes_of H).
Notation run_acts := (BootSim.run_acts ref bytes_of H).
Notation compile_item := (BootSim.compile_item ref bytes_of H).
Notation compile_step := (BootSim.compile_step ref bytes_of H).
Notation run_step := (BootSim.run_step ref bytes_of H).
Notation run_flow := (BootSim.run_flow ref bytes_of H).
Notation pcr0_pair := (BootSim.pcr0_pair ref bytes_of H).
Notation sim := (BootSim.sim ref).
Notation item := (BootSim.item ref).
Notation tact := (BootSim.tact ref).
Notation mdata := (BootSim.mdata ref).

Lemma hash_len_ok_H : ELP.hash_len_ok H.
Proof. intros a size m Hs. rewrite H_length. apply hash_size_hsize. exact Hs. Qed.

Lemma tcg_fold_snoc a x d s : EL.tcg_fold H a (x ++ [d]) s = H a (EL.tcg_fold H a x s ++ d).
Proof. unfold EL.tcg_fold. rewrite fold_left_app. reflexivity. Qed.

(** ** The invariant: started at locality [l], and every bank is the TCG fold of
    the digests of the measurement entries logged for it *)
Definition Inv (l : Z) (b : bool) (t : state) : Prop :=
  wf t /\ initialized t = true /\
  exists mev, evlog t = sev l b ++ mev /\ Forall good_ev mev /\
    forall p a, (p = 0 \/ p = 1) -> is_supported a = true ->
      get (pcrs t) p a =
      Ok (EL.tcg_fold H a (EL.meas_digests (to_parsed mev) p a) (init_val a (Z.to_nat p) l)).

Lemma wf_same_pcrs t t' : pcrs t = pcrs t' -> wf t -> wf t'.
Proof. unfold wf. intros ->. auto. Qed.

Lemma Inv_same_obs l b t t' : same_obs t t' -> Inv l b t -> Inv l b t'.
Proof.
  intros (Hp & He & _) (Hw & Hi & mev & Em & Hg & Hv). split; [|split].
  - eapply wf_same_pcrs; eauto.
  - unfold initialized in *. rewrite <- Hp. exact Hi.
  - exists mev. rewrite <- He, <- Hp. auto.
Qed.

(** a command that fails changes nothing the invariant speaks about *)
Lemma Inv_fail l b t c :
  Inv l b t -> snd (step H t c) <> Ok tt -> Inv l b (fst (step H t c)).
Proof.
  intros HI Hne. destruct (step H t c) as [t' r] eqn:E. cbn [fst snd] in *.
  destruct (step_not_ok H t c t' r E Hne) as [_ ->].
  eapply Inv_same_obs; [apply same_obs_sym, same_obs_log_cmd|exact HI].
Qed.

(** an extend that succeeds, followed by the log-add of the same digest *)
Lemma Inv_ext_log l b t p a d ty evd t1 :
  Inv l b t -> step H t (Extend p a d) = (t1, Ok tt) ->
  length d = hsize a -> ty <> EV_NO_ACTION ->
  Inv l b (fst (step H t1 (LogAdd p a d ty evd))).
Proof.
  intros (Hw & Hi & mev & Em & Hg & Hv) E Hl Hty.
  assert (Hw1 : wf t1).
  { replace t1 with (fst (step H t (Extend p a d))) by (rewrite E; reflexivity). apply wf_step; assumption. }
  assert (Hi1 : initialized t1 = true).
  { replace t1 with (fst (step H t (Extend p a d))) by (rewrite E; reflexivity).
    rewrite initialized_step by reflexivity. rewrite Hi. reflexivity. }
  (* the extend succeeded: the PCR and the bank exist *)
  assert (Hpa : (p = 0 \/ p = 1) /\ is_supported a = true).
  { pose proof (step_extend_ok H _ _ _ _ _ E) as (old & _ & _ & Hh & _).
    pose proof (extend_outcome H t p a d Hw (is_hash_range a Hh)) as Ho. rewrite Hi in Ho. cbn [andb] in Ho.
    rewrite E in Ho. cbn [snd] in Ho.
    destruct ((0 <=? p) && (p <? 2) && is_supported a) eqn:C; [|destruct Ho as [e Ho]; discriminate].
    apply andb_true_iff in C. destruct C as [C1 C2]. apply andb_true_iff in C1. destruct C1 as [C0 C1].
    split; [lia|exact C2]. }
  destruct Hpa as [Hp Ha].
  destruct (extend_frame H _ _ _ _ _ E) as (old & Hold & Hnew & Hframe & _ & Hev).
  rewrite step_logadd. cbn [fst]. split; [|split].
  - eapply wf_same_pcrs; [|exact Hw1]. reflexivity.
  - exact Hi1.
  - exists (mev ++ [EV p a d ty evd]). cbn [log_event log_cmd evlog pcrs]. split; [|split].
    + rewrite Hev, Em, app_assoc. reflexivity.
    + apply Forall_app. split; [exact Hg|]. constructor; [|constructor]. cbn [good_ev]. auto.
    + intros p' a' Hp' Ha'. rewrite to_parsed_app, meas_digests_app, meas_digests_one.
      apply Z.eqb_neq in Hty. rewrite Hty. cbn [negb]. rewrite andb_true_r.
      destruct ((p =? p') && (a =? a')) eqn:C.
      * apply andb_true_iff in C. destruct C as [C1 C2]. apply Z.eqb_eq in C1, C2. subst p' a'.
        rewrite tcg_fold_snoc, Hnew. rewrite (Hv p a Hp Ha) in Hold. inversion Hold. reflexivity.
      * rewrite app_nil_r, Hframe; [apply Hv; assumption|].
        intros X. inversion X; subst. rewrite !Z.eqb_refl in C. discriminate.
Qed.

Lemma event_loop_Inv l b algs : forall t p msg ty evd,
  Inv l b t -> ty <> EV_NO_ACTION -> Inv l b (fst (event_loop t p msg ty evd algs)).
Proof.
  induction algs as [|a rest IH]; intros t p msg ty evd HI Hty; cbn [BootSim.event_loop].
  - exact HI.
  - destruct (step H t (Extend p a (H a msg))) as [t1 r1] eqn:E1.
    assert (F : r1 <> Ok tt -> Inv l b t1).
    { intros Hne. replace t1 with (fst (step H t (Extend p a (H a msg)))) by (rewrite E1; reflexivity).
      apply Inv_fail; [exact HI|]. rewrite E1. exact Hne. }
    destruct r1 as [[]|e| |]; try (cbn [fst]; apply F; discriminate).
    pose proof (Inv_ext_log l b t p a (H a msg) ty evd t1 HI E1 (H_length a msg) Hty) as HI2.
    destruct (step H t1 (LogAdd p a (H a msg) ty evd)) as [t2 r2] eqn:E2. cbn [fst] in HI2.
    assert (r2 = Ok tt) as -> by (rewrite step_logadd in E2; inversion E2; reflexivity).
    apply IH; assumption.
Qed.

(** ** Items of the body of a well-formed flow *)

Definition readable (r : option (list ref)) : Prop :=
  match r with None => True | Some rs => exists b, denotes ref bytes_of rs b end.

(** [Step.Actions] of the item does not panic *)
Definition readable_item (it : item) : Prop :=
  match it with IPCR0Data r1 r256 => readable r1 /\ readable r256 | _ => True end.

(** a TPMEvent that leaves no trace in PCRs and event log: its PCR is neither 0 nor 1
    (the TPM refuses the first extend) or its data cannot be obtained *)
Definition traceless (p : Z) (src : BootSim.dsrc ref) : Prop :=
  ~ (p = 0 \/ p = 1) \/ (forall d msg, src = DS d -> converted d <> Ok msg).

(** a measurement whose extend comes with its log-add: TPMEvent (with a proper
    event type -- or any type when it leaves no trace) or the PCR0_DATA pair; a Panic
    step does nothing to the TPM, and neither does another TPMInit / InitTPM(_, false)
    (refused: already initialised).  So the only TPMEvents outside are those typed
    EV_NO_ACTION whose extend the TPM ACCEPTS (readable data, PCR 0 or 1). *)
Definition meas_item (it : item) : Prop :=
  match it with
  | IEvent p src ty _ => ty <> EV_NO_ACTION \/ traceless p src
  | IPCR0Data r1 r256 => readable r1 /\ readable r256
  | IPanic => True
  | IInit _ => True
  | IInitTPM _ wl => wl = false
  | _ => False
  end.

Lemma meas_item_readable it : meas_item it -> readable_item it.
Proof. destruct it; cbn; auto. Qed.

Lemma converted_length_hasher rs a dg :
  converted (mkData rs (Some a)) = Ok dg -> length dg = hsize a.
Proof.
  unfold BootSim.converted. cbn [d_refs d_conv]. destruct (raw_bytes rs); cbn [bind]; try discriminate.
  intros X. inversion X. cbn [convert]. apply H_length.
Qed.

Lemma pcr0_pair_Inv l b a refs acts s :
  is_supported a = true -> pcr0_pair a refs = Ok acts -> Inv l b (s_tpm s) ->
  Inv l b (s_tpm (fst (run_acts s acts))).
Proof.
  intros Ha Ec HI. unfold BootSim.pcr0_pair in Ec. destruct refs as [rs|].
  - destruct (converted (mkData rs (Some a))) as [dg|e| |] eqn:Ecv; cbn [bind] in Ec; try discriminate.
    inversion Ec; subst acts. clear Ec.
    cbn [BootSim.run_acts BootSim.apply_act]. rewrite Ecv.
    destruct HI as (Hw & Hi & Hrest).
    pose proof (extend_outcome H (s_tpm s) 0 a dg Hw) as Ho.
    rewrite Hi, Ha in Ho. cbn [andb Z.leb Z.ltb Z.compare] in Ho.
    assert (Hr : 0 <= a < 65536) by (destruct (is_supported_cases a Ha) as [-> | ->]; cbv; split; congruence).
    specialize (Ho Hr).
    destruct (step H (s_tpm s) (Extend 0 a dg)) as [t1 r1] eqn:E1. cbn [snd] in Ho. subst r1.
    cbn [add_meas with_tpm s_tpm].
    pose proof (Inv_ext_log l b (s_tpm s) 0 a dg EV_S_CRTM_CONTENTS (Some (pcr0_data_descr a)) t1
                  (conj Hw (conj Hi Hrest)) E1 (converted_length_hasher _ _ _ Ecv)) as HI2.
    destruct (step H t1 (LogAdd 0 a dg EV_S_CRTM_CONTENTS (Some (pcr0_data_descr a)))) as [t2 r2].
    cbn [fst snd s_tpm with_tpm] in *. apply HI2. discriminate.
  - inversion Ec; subst acts. cbn [BootSim.run_acts BootSim.apply_act fst]. exact HI.
Qed.

Lemma run_acts_app x : forall y s,
  fst (run_acts s (x ++ y)) = fst (run_acts (fst (run_acts s x)) y).
Proof.
  induction x as [|a r IH]; intros y s; cbn [app BootSim.run_acts]; [reflexivity|].
  destruct (apply_act s a) as [s1 r1]. specialize (IH y s1).
  destruct (run_acts s1 (r ++ y)) as [s2 rs2]. destruct (run_acts s1 r) as [s3 rs3].
  cbn [fst] in *. exact IH.
Qed.

(** the TPM refuses an extend into a PCR other than 0 and 1 *)
Lemma extend_refused_pcr t p a d :
  wf t -> ~ (p = 0 \/ p = 1) -> is_supported a = true -> snd (step H t (Extend p a d)) <> Ok tt.
Proof.
  intros Hw Hp Ha.
  assert (Hr : 0 <= a < 65536) by (destruct (is_supported_cases a Ha) as [-> | ->]; cbv; split; congruence).
  pose proof (extend_outcome H t p a d Hw Hr) as O.
  assert (E : (0 <=? p) && (p <? 2) = false).
  { destruct (0 <=? p) eqn:A; [|reflexivity]. destruct (p <? 2) eqn:B; [|reflexivity].
    exfalso. apply Hp. apply Z.leb_le in A. apply Z.ltb_lt in B. lia. }
  rewrite <- andb_assoc, <- andb_assoc in O. rewrite (andb_assoc (0 <=? p)), E in O.
  cbn [andb] in O. rewrite andb_false_r in O. destruct O as [e ->]. discriminate.
Qed.

(** a TPMEvent into such a PCR ends with its first, refused, extend: whatever holds
    of the TPM and survives a refused command still holds *)
Lemma event_loop_refused (I : state -> Prop) t p msg ty evd :
  (forall c, I t -> snd (step H t c) <> Ok tt -> I (fst (step H t c))) ->
  wf t -> I t -> ~ (p = 0 \/ p = 1) -> I (fst (event_loop t p msg ty evd supported)).
Proof.
  intros F Hw HI Hp. cbn [supported BootSim.event_loop].
  pose proof (extend_refused_pcr t p ALG_SHA1 (H ALG_SHA1 msg) Hw Hp eq_refl) as N.
  specialize (F (Extend p ALG_SHA1 (H ALG_SHA1 msg)) HI N).
  destruct (step H t (Extend p ALG_SHA1 (H ALG_SHA1 msg))) as [t1 r1]. cbn [fst snd] in *.
  destruct r1 as [[]|e| |]; [exfalso; apply N; reflexivity| | |]; cbn [fst]; exact F.
Qed.

Lemma meas_item_Inv l b t it acts s :
  meas_item it -> compile_item t it = Ok acts -> Inv l b (s_tpm s) ->
  Inv l b (s_tpm (fst (run_acts s acts))).
Proof.
  intros Hm Ec HI.
  assert (Reinit : forall l0, Inv l b (s_tpm (fst (run_acts s [AInit l0])))).
  { intros l0. cbn [BootSim.run_acts BootSim.apply_act].
    pose proof (Inv_fail l b (s_tpm s) (Startup l0) HI) as F.
    rewrite (startup_outcome H) in F. destruct HI as (_ & Hi & _). rewrite Hi in F.
    destruct (step H (s_tpm s) (Startup l0)) as [t1 r1]. cbn [fst with_tpm s_tpm] in *. apply F. discriminate. }
  destruct it as [l0|l0 wl|l0|p src ty evd|p src al|p al dg ty evd|r1 r256|];
    cbn [meas_item] in Hm; try contradiction; cbn [BootSim.compile_item] in Ec.
  - inversion Ec; subst acts. apply Reinit.
  - subst wl. inversion Ec; subst acts. apply Reinit.
  - inversion Ec; subst acts. cbn [BootSim.run_acts BootSim.apply_act].
    destruct src as [d| |]; try (cbn [fst]; exact HI).
    destruct (converted d) as [msg|e| |] eqn:Ecv; try (cbn [fst]; exact HI).
    assert (G : Inv l b (fst (event_loop (s_tpm s) p msg ty evd supported))).
    { destruct Hm as [Hty|[Hp|Hsrc]].
      - apply event_loop_Inv; assumption.
      - apply event_loop_refused; [intros c; apply Inv_fail|destruct HI as (Hw & _); exact Hw|exact HI|exact Hp].
      - exfalso. exact (Hsrc d msg eq_refl Ecv). }
    destruct (event_loop (s_tpm s) p msg ty evd supported) as [t1 r]. cbn [fst] in G.
    destruct r as [[]|e| |]; cbn [fst add_meas with_tpm s_tpm]; exact G.
  - destruct (pcr0_pair ALG_SHA1 r1) as [x|e| |] eqn:E1; cbn [bind] in Ec; try discriminate.
    destruct (pcr0_pair ALG_SHA256 r256) as [y|e| |] eqn:E2; cbn [bind] in Ec; try discriminate.
    inversion Ec; subst acts. rewrite run_acts_app.
    apply (pcr0_pair_Inv l b ALG_SHA256 r256 y _ eq_refl E2).
    apply (pcr0_pair_Inv l b ALG_SHA1 r1 x _ eq_refl E1). exact HI.
  - inversion Ec; subst acts. cbn [BootSim.run_acts BootSim.apply_act fst]. exact HI.
Qed.

(** ** Steps can be flattened: [Step.Actions] only reads SupportedAlgos *)

Lemma compile_item_algos t t' it : algos t = algos t' -> compile_item t it = compile_item t' it.
Proof.
  intros Ha. destruct it; cbn [BootSim.compile_item]; unfold BootSim.log_init; rewrite ?Ha; reflexivity.
Qed.

Lemma compile_step_algos t t' its : algos t = algos t' -> compile_step t its = compile_step t' its.
Proof.
  intros Ha. induction its as [|it r IH]; cbn [BootSim.compile_step]; [reflexivity|].
  rewrite (compile_item_algos t t' it Ha), IH. reflexivity.
Qed.

Lemma compile_step_app t x : forall y,
  compile_step t (x ++ y) =
  bind (compile_step t x) (fun a => bind (compile_step t y) (fun b => Ok (a ++ b))).
Proof.
  induction x as [|it r IH]; intros y; cbn [app BootSim.compile_step bind].
  - destruct (compile_step t y); reflexivity.
  - destruct (compile_item t it) as [a| | |]; cbn [bind]; try reflexivity.
    rewrite IH. destruct (compile_step t r) as [c| | |]; cbn [bind]; try reflexivity.
    destruct (compile_step t y) as [d| | |]; cbn [bind]; try reflexivity.
    rewrite app_assoc. reflexivity.
Qed.

Lemma compile_item_readable t it : readable_item it -> exists acts, compile_item t it = Ok acts.
Proof.
  destruct it as [l0|l0 wl|l0|p src ty evd|p src al|p al dg ty evd|r1 r256|]; cbn [BootSim.compile_item readable_item];
    try (intros _; eexists; reflexivity).
  assert (P : forall a r, readable r -> exists x, pcr0_pair a r = Ok x).
  { intros a [rs|] Hr; cbn [BootSim.pcr0_pair]; [|eexists; reflexivity].
    destruct Hr as [bb Hd]. apply denotes_raw_bytes in Hd. unfold BootSim.converted. cbn [d_refs d_conv].
    rewrite Hd. cbn [bind]. eexists. reflexivity. }
  intros [A B]. destruct (P ALG_SHA1 r1 A) as [x ->]. destruct (P ALG_SHA256 r256 B) as [y ->].
  cbn [bind]. eexists. reflexivity.
Qed.

Lemma compile_step_readable t its : Forall readable_item its -> exists acts, compile_step t its = Ok acts.
Proof.
  induction 1 as [|it r Hit Hr IH]; cbn [BootSim.compile_step]; [eexists; reflexivity|].
  destruct (compile_item_readable t it Hit) as [x ->]. destruct IH as [y ->]. cbn [bind]. eexists. reflexivity.
Qed.

Lemma run_flow_flat fl : forall s,
  Forall readable_item (concat fl) ->
  exists acts, compile_step (s_tpm s) (concat fl) = Ok acts /\ fst (run_flow s fl) = fst (run_acts s acts).
Proof.
  induction fl as [|st rest IH]; intros s Hr; cbn [concat BootSim.run_flow].
  - exists []. split; reflexivity.
  - apply Forall_app in Hr. destruct Hr as [Hr1 Hr2].
    destruct (compile_step_readable (s_tpm s) st Hr1) as [x Ex].
    pose proof (run_step_grows ref bytes_of H s st) as Gg.
    unfold BootSim.run_step in *. rewrite Ex in *.
    destruct (run_acts s x) as [s1 r1] eqn:E1. cbn [fst snd] in Gg.
    destruct (IH s1 Hr2) as (y & Ey & Fy).
    destruct (run_flow s1 rest) as [s2 rs2]. cbn [fst] in *.
    exists (x ++ y). split.
    + rewrite compile_step_app, Ex. cbn [bind].
      rewrite (compile_step_algos (s_tpm s) (s_tpm s1) (concat rest)), Ey; [reflexivity|].
      symmetry. eapply grows_algos. exact Gg.
    + rewrite run_acts_app, E1. cbn [fst]. exact Fy.
Qed.

(** a TPM2_PCR_Extend-style measurement made of two actions: TPMExtend of the
    converted bytes (a digest of the bank's size, e.g. through a Hasher converter)
    into PCR 0 or 1, directly followed by the TPMEventLogAdd of that same digest *)
Lemma pair_Inv l b p d a dg ty evd s :
  (p = 0 \/ p = 1) -> is_supported a = true ->
  converted d = Ok dg -> length dg = hsize a -> ty <> EV_NO_ACTION ->
  Inv l b (s_tpm s) ->
  Inv l b (s_tpm (fst (run_acts s [AExtend p (DS d) a; ALogAdd p a dg ty evd]))).
Proof.
  intros Hp Ha Ecv Hl Hty HI.
  cbn [BootSim.run_acts BootSim.apply_act]. rewrite Ecv.
  destruct HI as (Hw & Hi & Hrest).
  pose proof (extend_outcome H (s_tpm s) p a dg Hw) as Ho.
  assert (C : initialized (s_tpm s) && (0 <=? p) && (p <? 2) && is_supported a = true)
    by (rewrite Hi, Ha; destruct Hp as [-> | ->]; reflexivity).
  rewrite C in Ho. clear C.
  assert (Hr : 0 <= a < 65536) by (destruct (is_supported_cases a Ha) as [-> | ->]; cbv; split; congruence).
  specialize (Ho Hr).
  destruct (step H (s_tpm s) (Extend p a dg)) as [t1 r1] eqn:E1. cbn [snd] in Ho. subst r1.
  cbn [add_meas with_tpm s_tpm].
  pose proof (Inv_ext_log l b (s_tpm s) p a dg ty evd t1 (conj Hw (conj Hi Hrest)) E1 Hl Hty) as HI2.
  destruct (step H t1 (LogAdd p a dg ty evd)) as [t2 r2].
  cbn [fst snd s_tpm with_tpm] in *. exact HI2.
Qed.

(** the measurements of a well-formed flow, in order *)
Inductive meas_body : list item -> Prop :=
| MB_nil : meas_body []
| MB_item it r : meas_item it -> meas_body r -> meas_body (it :: r)
| MB_pair p d a dg ty evd r :
    (p = 0 \/ p = 1) -> is_supported a = true ->
    converted d = Ok dg -> length dg = hsize a -> ty <> EV_NO_ACTION ->
    meas_body r ->
    meas_body (IExtend p (DS d) a :: ILogAdd p a dg ty evd :: r).

Lemma meas_body_readable body : meas_body body -> Forall readable_item body.
Proof.
  induction 1; repeat constructor; try assumption. apply meas_item_readable. assumption.
Qed.

Lemma body_Inv l b t body : meas_body body -> forall acts s,
  compile_step t body = Ok acts -> Inv l b (s_tpm s) ->
  Inv l b (s_tpm (fst (run_acts s acts))).
Proof.
  induction 1 as [|it r Hit Hr IH|p d a dg ty evd r Hp Ha Ecv Hl Hty Hr IH]; intros acts s Ec HI.
  - cbn [BootSim.compile_step] in Ec. inversion Ec; subst acts. exact HI.
  - cbn [BootSim.compile_step] in Ec.
    destruct (compile_item t it) as [x|e| |] eqn:E1; cbn [bind] in Ec; try discriminate.
    destruct (compile_step t r) as [y|e| |] eqn:E2; cbn [bind] in Ec; try discriminate.
    inversion Ec; subst acts. rewrite run_acts_app. apply (IH y); [reflexivity|].
    eapply meas_item_Inv; eauto.
  - cbn [BootSim.compile_step BootSim.compile_item bind] in Ec.
    destruct (compile_step t r) as [y|e| |] eqn:E2; cbn [bind] in Ec; try discriminate.
    inversion Ec; subst acts. cbn [app].
    change (AExtend p (DS d) a :: ALogAdd p a dg ty evd :: y)
      with ([AExtend p (DS d) a; ALogAdd p a dg ty evd] ++ y).
    rewrite run_acts_app. apply (IH y); [reflexivity|].
    apply pair_Inv; assumption.
Qed.

(** ** The startup of a well-formed flow *)

(** InitTPM(l, withLog), or the TPMInit action / InitTPM(l, false) together
    with a separate LogInit(l) step (before or after it) *)
Inductive startup_form (l : Z) : list item -> bool -> Prop :=
| SF_initlog : startup_form l [IInitTPM l true] true
| SF_init_then_log : startup_form l [IInitTPM l false; ILogInit l] true
| SF_act_then_log : startup_form l [IInit l; ILogInit l] true
| SF_log_then_init : startup_form l [ILogInit l; IInitTPM l false] true
| SF_log_then_act : startup_form l [ILogInit l; IInit l] true
| SF_init : startup_form l [IInitTPM l false] false
| SF_act : startup_form l [IInit l] false.

(** The flows the event-log theorems are about: one startup at locality [l]
    (logged or not), then measurements each of which extends and logs the same
    digest.  Steps may group the items in any way. *)
Definition wf_flow (l : Z) (logged : bool) (fl : list (list item)) : Prop :=
  exists pre body, concat fl = pre ++ body /\ startup_form l pre logged /\ meas_body body.

Lemma startup_Inv l pre b acts :
  startup_form l pre b -> compile_step fresh pre = Ok acts ->
  Inv l b (s_tpm (fst (run_acts sim0 acts))).
Proof.
  intros Hf Ec.
  assert (W : wf (s_tpm (fst (run_acts sim0 acts)))).
  { destruct (run_acts_grows ref bytes_of H acts sim0) as (h & _ & -> & _).
    apply wf_run; [exact H_length|apply wf_fresh]. }
  split; [exact W|]. clear W.
  destruct Hf; cbn in Ec; inversion Ec; subst acts; clear Ec;
    (split; [reflexivity|]); exists []; (split; [reflexivity|]); (split; [constructor|]);
    intros p a [-> | ->] Ha; destruct (is_supported_cases a Ha) as [-> | ->]; reflexivity.
Qed.

Lemma wf_flow_Inv l b fl :
  wf_flow l b fl -> Inv l b (s_tpm (fst (run_flow sim0 fl))).
Proof.
  intros (pre & body & Ec & Hf & Hm).
  assert (Hr : Forall readable_item (concat fl)).
  { rewrite Ec. apply Forall_app. split.
    - destruct Hf; repeat constructor.
    - apply meas_body_readable. exact Hm. }
  destruct (run_flow_flat fl sim0 Hr) as (acts & Ea & ->). cbn [sim0 s_tpm] in Ea.
  rewrite Ec, compile_step_app in Ea.
  destruct (compile_step fresh pre) as [x|e| |] eqn:E1; cbn [bind] in Ea; try discriminate.
  destruct (compile_step fresh body) as [y|e| |] eqn:E2; cbn [bind] in Ea; try discriminate.
  inversion Ea; subst acts. rewrite run_acts_app.
  eapply body_Inv; [exact Hm|exact E2|]. eapply startup_Inv; eauto.
Qed.

(** ** From the invariant to the two replay routines *)

Lemma selected_cons p' a' d ty data r p a :
  EL.selected (to_parsed (EV p' a' d ty data :: r)) p a =
  if (p' =? p) && (a' =? a)
  then EL.mkEv p' ty (odata data) (Some (EL.mkDg a' d)) :: EL.selected (to_parsed r) p a
  else EL.selected (to_parsed r) p a.
Proof. reflexivity. Qed.

Lemma good_selected mev p a :
  Forall good_ev mev ->
  EL.all_meas (EL.selected (to_parsed mev) p a) /\
  Forall (EL.right_length (Z.of_nat (hsize a))) (EL.selected (to_parsed mev) p a).
Proof.
  induction 1 as [|e r He Hr [IH1 IH2]]; [split; constructor|].
  destruct e as [p' a' d ty data]. rewrite selected_cons.
  destruct ((p' =? p) && (a' =? a)) eqn:C; [|split; assumption].
  apply andb_true_iff in C. destruct C as [_ C]. apply Z.eqb_eq in C. subst a'.
  destruct He as [Hty Hl]. split; constructor; try assumption.
  - unfold EL.is_meas. cbn [EL.ev_type]. apply Z.eqb_neq in Hty.
    change EL.EV_NO_ACTION with EV_NO_ACTION. rewrite Hty. reflexivity.
  - unfold EL.right_length, EL.ev_digest_bytes. cbn [EL.ev_digest EL.d_bytes]. rewrite Hl. reflexivity.
Qed.

Lemma startup_bytes_eq l : startup_bytes l = EL.startup_data l.
Proof. reflexivity. Qed.

Lemma init_val_seed a p l :
  is_supported a = true ->
  init_val a p l = match p with
                   | O => EL.zeros (Z.of_nat (hsize a) - 1) ++ [l]
                   | _ => EL.zeros (Z.of_nat (hsize a))
                   end.
Proof. intros Ha. destruct (is_supported_cases a Ha) as [-> | ->]; destruct p; reflexivity. Qed.

(** tpmeventlog.Replay on the emitted log *)
Lemma Inv_replay l b t p a :
  Inv l b t -> b = true \/ (b = false /\ l = 0) ->
  (p = 0 \/ p = 1) -> is_supported a = true ->
  exists v, get (pcrs t) p a = Ok v /\ EL.replay H (to_parsed (evlog t)) p a = Ok v.
Proof.
  intros (_ & _ & mev & Em & Hg & Hv) Hb Hp Ha.
  pose proof (hash_size_supported a Ha) as Hs.
  destruct (good_selected mev p a Hg) as [Gm Gl].
  set (size := Z.of_nat (hsize a)) in *.
  set (log := to_parsed (evlog t)).
  assert (Esel : EL.selected log p a = EL.selected (to_parsed (sev l b)) p a ++ EL.selected (to_parsed mev) p a).
  { unfold log. rewrite Em, to_parsed_app, selected_app. reflexivity. }
  assert (Emd : EL.meas_digests log p a = EL.meas_digests (to_parsed mev) p a).
  { unfold log. rewrite Em, to_parsed_app, meas_digests_app, meas_digests_sev. reflexivity. }
  (* the selected startup entries *)
  assert (Ssev : EL.selected (to_parsed (sev l b)) p a =
                 if b && (p =? 0)
                 then [EL.mkEv 0 EL.EV_NO_ACTION (startup_bytes l) (Some (EL.mkDg a (repeat 0 (hsize a))))]
                 else []).
  { destruct b; [|reflexivity].
    destruct Hp as [-> | ->]; destruct (is_supported_cases a Ha) as [-> | ->]; reflexivity. }
  assert (WF : EL.wellformed log p a).
  { exists size. split; [exact Hs|]. split; [exact Hp|]. rewrite Esel, Ssev.
    destruct (b && (p =? 0)) eqn:C.
    - apply andb_true_iff in C. destruct C as [Cb Cp]. apply Z.eqb_eq in Cp. subst b p.
      clear Hb. split.
      + cbn [app]. constructor; [|exact Gl]. unfold EL.right_length, EL.ev_digest_bytes.
        cbn [EL.ev_digest EL.d_bytes]. rewrite repeat_length. reflexivity.
      + right. split; [reflexivity|]. eexists. eexists. exists l. cbn [app].
        split; [reflexivity|]. split; [reflexivity|]. split; [|exact Gm].
        cbn [EL.ev_data]. apply startup_bytes_eq.
    - cbn [app]. split; [exact Gl|]. left. exact Gm. }
  destruct (ELP.wellformed_accepted H hash_len_ok_H log p a WF) as [v Ev].
  exists v. split; [|exact Ev].
  pose proof (ELP.replay_is_fold H hash_len_ok_H log p a v Ev) as Hfold.
  rewrite (Hv p a Hp Ha), Hfold, Emd. f_equal. f_equal.
  rewrite (init_val_seed a (Z.to_nat p) l Ha). fold size.
  (* the seed *)
  unfold EL.seed. rewrite Hs, Esel, Ssev.
  destruct Hp as [-> | ->].
  - change (Z.to_nat 0) with O. cbn iota. rewrite andb_true_r. destruct b.
    + clear Hb. cbn [app EL.ev_type EL.ev_data].
      change (0 =? 0) with true. change (EL.EV_NO_ACTION =? EL.EV_NO_ACTION) with true. cbn [andb].
      rewrite (startup_bytes_eq l), ELP.parse_locality_startup. reflexivity.
    + destruct Hb as [C|[_ ->]]; [discriminate|]. cbn [app].
      assert (Z0 : EL.zeros size = EL.zeros (size - 1) ++ [0]).
      { apply ELP.zeros_snoc. unfold size. destruct (is_supported_cases a Ha) as [-> | ->]; cbv; reflexivity. }
      destruct (EL.selected (to_parsed mev) 0 a) as [|e r] eqn:Es; [symmetry; exact Z0|].
      inversion Gm as [|? ? Me _]; subst. unfold EL.is_meas in Me. apply negb_true_iff in Me.
      rewrite Me. rewrite andb_false_r. symmetry. exact Z0.
  - change (Z.to_nat 1) with 1%nat. cbn iota. change (1 =? 0) with false. rewrite andb_false_r. cbn [app].
    destruct (EL.selected (to_parsed mev) 1 a); reflexivity.
Qed.

Lemma from_parsed_to_parsed ev : EL.from_parsed (to_parsed ev) = Ok (to_entries ev).
Proof.
  induction ev as [|e r IH]; [reflexivity|]. destruct e as [p a d ty data].
  cbn [to_parsed to_entries map EL.from_parsed EL.ev_digest]. fold (to_parsed r). fold (to_entries r).
  rewrite IH. reflexivity.
Qed.

(** tpm.EventLog.Replay seeded with the startup locality: any locality, logged or not *)
Lemma Inv_tpm_replay l b t a :
  Inv l b t -> is_supported a = true ->
  exists v, get (pcrs t) 0 a = Ok v /\ EL.tpm_replay H (to_entries (evlog t)) 0 a l = Ok v.
Proof.
  intros (_ & _ & mev & Em & Hg & Hv) Ha.
  pose proof (hash_size_supported a Ha) as Hs.
  eexists. split; [apply Hv; [left; reflexivity|exact Ha]|].
  unfold EL.tpm_replay. rewrite Hs. cbn [Z.eqb negb].
  rewrite ELP.zeros_loc_ok by (destruct (is_supported_cases a Ha) as [-> | ->]; cbv; reflexivity).
  cbn [bind]. rewrite ELP.tpm_replay_loop_fold.
  rewrite (ELP.from_parsed_meas _ _ 0 a (from_parsed_to_parsed (evlog t))).
  rewrite Em, to_parsed_app, meas_digests_app, meas_digests_sev. cbn [app].
  change (Z.to_nat 0) with O. rewrite (init_val_seed a O l Ha). reflexivity.
Qed.

(** ** C01_evlog_replay, C01_tpmReplay *)

Theorem evlog_replay fl l logged p a :
  wf_flow l logged fl ->
  logged = true \/ (logged = false /\ l = 0) ->
  (p = 0 \/ p = 1) -> is_supported a = true ->
  exists v, get (pcrs (s_tpm (fst (run_flow sim0 fl)))) p a = Ok v /\
            EL.replay H (to_parsed (evlog (s_tpm (fst (run_flow sim0 fl))))) p a = Ok v.
Proof. intros Hw. apply Inv_replay. apply wf_flow_Inv. exact Hw. Qed.

Theorem tpm_replay_eq fl l logged a :
  wf_flow l logged fl -> is_supported a = true ->
  exists v, get (pcrs (s_tpm (fst (run_flow sim0 fl)))) 0 a = Ok v /\
            EL.tpm_replay H (to_entries (evlog (s_tpm (fst (run_flow sim0 fl))))) 0 a l = Ok v.
Proof. intros Hw. apply Inv_tpm_replay with (b := logged). apply wf_flow_Inv. exact Hw. Qed.

(** ** The in-simulator routine on every flow in which every extend is logged *)

(** The invariant without the position of the informational entries: every
    bank is the TCG fold, from the startup value, of the digests of the
    measurement entries (anything but EV_NO_ACTION) logged for it -- wherever
    the EV_NO_ACTION entries are, however many, whatever they carry. *)
Definition Inv2 (l : Z) (t : state) : Prop :=
  wf t /\ initialized t = true /\
  forall p a, (p = 0 \/ p = 1) -> is_supported a = true ->
    get (pcrs t) p a =
    Ok (EL.tcg_fold H a (EL.meas_digests (to_parsed (evlog t)) p a) (init_val a (Z.to_nat p) l)).

Lemma Inv_Inv2 l b t : Inv l b t -> Inv2 l t.
Proof.
  intros (Hw & Hi & mev & Em & _ & Hv). split; [exact Hw|]. split; [exact Hi|].
  intros p a Hp Ha. rewrite Em, to_parsed_app, meas_digests_app, meas_digests_sev. cbn [app].
  apply Hv; assumption.
Qed.

Lemma Inv2_same_obs l t t' : same_obs t t' -> Inv2 l t -> Inv2 l t'.
Proof.
  intros (Hp & He & _) (Hw & Hi & Hv). split; [|split].
  - eapply wf_same_pcrs; eauto.
  - unfold initialized in *. rewrite <- Hp. exact Hi.
  - rewrite <- He, <- Hp. exact Hv.
Qed.

Lemma Inv2_fail l t c :
  Inv2 l t -> snd (step H t c) <> Ok tt -> Inv2 l (fst (step H t c)).
Proof.
  intros HI Hne. destruct (step H t c) as [t' r] eqn:E. cbn [fst snd] in *.
  destruct (step_not_ok H t c t' r E Hne) as [_ ->].
  eapply Inv2_same_obs; [apply same_obs_sym, same_obs_log_cmd|exact HI].
Qed.

(** an informational entry: no bank changes, no measurement entry is added *)
Lemma Inv2_info_log l t p a d evd :
  Inv2 l t -> Inv2 l (fst (step H t (LogAdd p a d EV_NO_ACTION evd))).
Proof.
  intros (Hw & Hi & Hv). rewrite step_logadd. cbn [fst]. split; [|split].
  - eapply wf_same_pcrs; [|exact Hw]. reflexivity.
  - exact Hi.
  - intros p' a' Hp' Ha'. cbn [log_event log_cmd evlog pcrs].
    rewrite to_parsed_app, meas_digests_app, meas_digests_one.
    change (EV_NO_ACTION =? EV_NO_ACTION) with true. cbn [negb]. rewrite andb_false_r, app_nil_r.
    apply Hv; assumption.
Qed.

(** an extend that succeeds, followed by the log-add of the same digest *)
Lemma Inv2_ext_log l t p a d ty evd t1 :
  Inv2 l t -> step H t (Extend p a d) = (t1, Ok tt) -> ty <> EV_NO_ACTION ->
  Inv2 l (fst (step H t1 (LogAdd p a d ty evd))).
Proof.
  intros (Hw & Hi & Hv) E Hty.
  assert (Hw1 : wf t1).
  { replace t1 with (fst (step H t (Extend p a d))) by (rewrite E; reflexivity). apply wf_step; assumption. }
  assert (Hi1 : initialized t1 = true).
  { replace t1 with (fst (step H t (Extend p a d))) by (rewrite E; reflexivity).
    rewrite initialized_step by reflexivity. rewrite Hi. reflexivity. }
  assert (Hpa : (p = 0 \/ p = 1) /\ is_supported a = true).
  { pose proof (step_extend_ok H _ _ _ _ _ E) as (old & _ & _ & Hh & _).
    pose proof (extend_outcome H t p a d Hw (is_hash_range a Hh)) as Ho. rewrite Hi in Ho. cbn [andb] in Ho.
    rewrite E in Ho. cbn [snd] in Ho.
    destruct ((0 <=? p) && (p <? 2) && is_supported a) eqn:C; [|destruct Ho as [e Ho]; discriminate].
    apply andb_true_iff in C. destruct C as [C1 C2]. apply andb_true_iff in C1. destruct C1 as [C0 C1].
    split; [lia|exact C2]. }
  destruct Hpa as [Hp Ha].
  destruct (extend_frame H _ _ _ _ _ E) as (old & Hold & Hnew & Hframe & _ & Hev).
  rewrite step_logadd. cbn [fst]. split; [|split].
  - eapply wf_same_pcrs; [|exact Hw1]. reflexivity.
  - exact Hi1.
  - intros p' a' Hp' Ha'. cbn [log_event log_cmd evlog pcrs].
    rewrite Hev, to_parsed_app, meas_digests_app, meas_digests_one.
    apply Z.eqb_neq in Hty. rewrite Hty. cbn [negb]. rewrite andb_true_r.
    destruct ((p =? p') && (a =? a')) eqn:C.
    + apply andb_true_iff in C. destruct C as [C1 C2]. apply Z.eqb_eq in C1, C2. subst p' a'.
      rewrite tcg_fold_snoc, Hnew. rewrite (Hv p a Hp Ha) in Hold. inversion Hold. reflexivity.
    + rewrite app_nil_r, Hframe; [apply Hv; assumption|].
      intros X. inversion X; subst. rewrite !Z.eqb_refl in C. discriminate.
Qed.

Lemma event_loop_Inv2 l algs : forall t p msg ty evd,
  Inv2 l t -> ty <> EV_NO_ACTION -> Inv2 l (fst (event_loop t p msg ty evd algs)).
Proof.
  induction algs as [|a rest IH]; intros t p msg ty evd HI Hty; cbn [BootSim.event_loop].
  - exact HI.
  - destruct (step H t (Extend p a (H a msg))) as [t1 r1] eqn:E1.
    assert (F : r1 <> Ok tt -> Inv2 l t1).
    { intros Hne. replace t1 with (fst (step H t (Extend p a (H a msg)))) by (rewrite E1; reflexivity).
      apply Inv2_fail; [exact HI|]. rewrite E1. exact Hne. }
    destruct r1 as [[]|e| |]; try (cbn [fst]; apply F; discriminate).
    pose proof (Inv2_ext_log l t p a (H a msg) ty evd t1 HI E1 Hty) as HI2.
    destruct (step H t1 (LogAdd p a (H a msg) ty evd)) as [t2 r2] eqn:E2. cbn [fst] in HI2.
    assert (r2 = Ok tt) as -> by (rewrite step_logadd in E2; inversion E2; reflexivity).
    apply IH; assumption.
Qed.

(** the actions of LogInit: informational entries (or a Panic action), whatever
    SupportedAlgos holds *)
Definition info_act (a : tact) : Prop :=
  match a with
  | ALogAdd _ _ _ ty _ => ty = EV_NO_ACTION
  | APanic => True
  | _ => False
  end.

Lemma log_init_info t l : Forall info_act (BootSim.log_init ref t l).
Proof.
  unfold BootSim.log_init. destruct (forallb is_hash (algos t)); [|repeat constructor].
  apply Forall_forall. intros a Hi. apply in_map_iff in Hi. destruct Hi as (al & <- & _). reflexivity.
Qed.

Lemma info_acts_Inv2 l acts : Forall info_act acts -> forall s,
  Inv2 l (s_tpm s) -> Inv2 l (s_tpm (fst (run_acts s acts))).
Proof.
  induction 1 as [|a r Ha Hr IH]; intros s HI; cbn [BootSim.run_acts]; [exact HI|].
  destruct a as [l0|p src ty evd|p src al|p al d ty evd|]; cbn [info_act] in Ha; try contradiction.
  - subst ty. cbn [BootSim.apply_act].
    pose proof (Inv2_info_log l (s_tpm s) p al d evd HI) as G.
    destruct (step H (s_tpm s) (LogAdd p al d EV_NO_ACTION evd)) as [t1 r1]. cbn [fst] in G.
    specialize (IH (BootSim.with_tpm ref s t1) G). destruct (run_acts (BootSim.with_tpm ref s t1) r). exact IH.
  - cbn [BootSim.apply_act]. specialize (IH s HI). destruct (run_acts s r). exact IH.
Qed.

Lemma pcr0_pair_Inv2 l a refs acts s :
  is_supported a = true -> pcr0_pair a refs = Ok acts -> Inv2 l (s_tpm s) ->
  Inv2 l (s_tpm (fst (run_acts s acts))).
Proof.
  intros Ha Ec HI. unfold BootSim.pcr0_pair in Ec. destruct refs as [rs|].
  - destruct (converted (mkData rs (Some a))) as [dg|e| |] eqn:Ecv; cbn [bind] in Ec; try discriminate.
    inversion Ec; subst acts. clear Ec.
    cbn [BootSim.run_acts BootSim.apply_act]. rewrite Ecv.
    destruct HI as (Hw & Hi & Hrest).
    pose proof (extend_outcome H (s_tpm s) 0 a dg Hw) as Ho.
    rewrite Hi, Ha in Ho. cbn [andb Z.leb Z.ltb Z.compare] in Ho.
    assert (Hr : 0 <= a < 65536) by (destruct (is_supported_cases a Ha) as [-> | ->]; cbv; split; congruence).
    specialize (Ho Hr).
    destruct (step H (s_tpm s) (Extend 0 a dg)) as [t1 r1] eqn:E1. cbn [snd] in Ho. subst r1.
    cbn [add_meas with_tpm s_tpm].
    pose proof (Inv2_ext_log l (s_tpm s) 0 a dg EV_S_CRTM_CONTENTS (Some (pcr0_data_descr a)) t1
                  (conj Hw (conj Hi Hrest)) E1) as HI2.
    destruct (step H t1 (LogAdd 0 a dg EV_S_CRTM_CONTENTS (Some (pcr0_data_descr a)))) as [t2 r2].
    cbn [fst snd s_tpm with_tpm] in *. apply HI2. discriminate.
  - inversion Ec; subst acts. cbn [BootSim.run_acts BootSim.apply_act fst]. exact HI.
Qed.

(** Items after the startup.  Besides the measurements of [meas_item]:
    LogInit at ANY locality and position (the event log may be set up later than
    the TPM), a further InitTPM with log (the init is refused, the entries are
    written), bare TPMEventLogAdd of an EV_NO_ACTION entry. *)
Definition body_item (it : item) : Prop :=
  match it with
  | ILogInit _ => True
  | IInitTPM _ _ => True
  | ILogAdd _ _ _ ty _ => ty = EV_NO_ACTION
  | _ => meas_item it
  end.

Lemma body_item_readable it : body_item it -> readable_item it.
Proof. destruct it; cbn; auto. Qed.

Lemma body_item_Inv2 l t it acts s :
  body_item it -> compile_item t it = Ok acts -> Inv2 l (s_tpm s) ->
  Inv2 l (s_tpm (fst (run_acts s acts))).
Proof.
  intros Hm Ec HI.
  assert (Reinit : forall l0 s0, Inv2 l (s_tpm s0) -> Inv2 l (s_tpm (fst (apply_act s0 (AInit l0))))).
  { intros l0 s0 HI0. cbn [BootSim.apply_act].
    pose proof (Inv2_fail l (s_tpm s0) (Startup l0) HI0) as F.
    rewrite (startup_outcome H) in F. destruct HI0 as (_ & Hi & _). rewrite Hi in F.
    destruct (step H (s_tpm s0) (Startup l0)) as [t1 r1]. cbn [fst with_tpm s_tpm] in *. apply F. discriminate. }
  destruct it as [l0|l0 wl|l0|p src ty evd|p src al|p al dg ty evd|r1 r256|];
    cbn [body_item meas_item] in Hm; try contradiction; cbn [BootSim.compile_item] in Ec.
  - inversion Ec; subst acts. cbn [BootSim.run_acts]. specialize (Reinit l0 s HI).
    destruct (apply_act s (AInit l0)). exact Reinit.
  - inversion Ec; subst acts. cbn [BootSim.run_acts]. specialize (Reinit l0 s HI).
    destruct (apply_act s (AInit l0)) as [s1 r1]. cbn [fst] in Reinit.
    pose proof (info_acts_Inv2 l (if wl then BootSim.log_init ref t l0 else [])) as G.
    assert (Fi : Forall info_act (if wl then BootSim.log_init ref t l0 else []))
      by (destruct wl; [apply log_init_info|constructor]).
    specialize (G Fi s1 Reinit). destruct (run_acts s1 (if wl then BootSim.log_init ref t l0 else [])). exact G.
  - inversion Ec; subst acts. apply info_acts_Inv2; [apply log_init_info|exact HI].
  - inversion Ec; subst acts. cbn [BootSim.run_acts BootSim.apply_act].
    destruct src as [d| |]; try (cbn [fst]; exact HI).
    destruct (converted d) as [msg|e| |] eqn:Ecv; try (cbn [fst]; exact HI).
    assert (G : Inv2 l (fst (event_loop (s_tpm s) p msg ty evd supported))).
    { destruct Hm as [Hty|[Hp|Hsrc]].
      - apply event_loop_Inv2; assumption.
      - apply event_loop_refused; [intros c; apply Inv2_fail|destruct HI as (Hw & _); exact Hw|exact HI|exact Hp].
      - exfalso. exact (Hsrc d msg eq_refl Ecv). }
    destruct (event_loop (s_tpm s) p msg ty evd supported) as [t1 r]. cbn [fst] in G.
    destruct r as [[]|e| |]; cbn [fst add_meas with_tpm s_tpm]; exact G.
  - inversion Ec; subst acts. apply info_acts_Inv2; [|exact HI]. repeat constructor. exact Hm.
  - destruct Hm as [R1 R2].
    destruct (pcr0_pair ALG_SHA1 r1) as [x|e| |] eqn:E1; cbn [bind] in Ec; try discriminate.
    destruct (pcr0_pair ALG_SHA256 r256) as [y|e| |] eqn:E2; cbn [bind] in Ec; try discriminate.
    inversion Ec; subst acts. rewrite run_acts_app.
    apply (pcr0_pair_Inv2 l ALG_SHA256 r256 y _ eq_refl E2).
    apply (pcr0_pair_Inv2 l ALG_SHA1 r1 x _ eq_refl E1). exact HI.
  - inversion Ec; subst acts. cbn [BootSim.run_acts BootSim.apply_act fst]. exact HI.
Qed.

(** a TPM2_PCR_Extend-style measurement: TPMExtend directly followed by the
    TPMEventLogAdd of the same bytes (of any length: the in-simulator routine
    folds whatever was logged) *)
Lemma pair_Inv2 l p d a dg ty evd s :
  (p = 0 \/ p = 1) -> is_supported a = true ->
  converted d = Ok dg -> ty <> EV_NO_ACTION ->
  Inv2 l (s_tpm s) ->
  Inv2 l (s_tpm (fst (run_acts s [AExtend p (DS d) a; ALogAdd p a dg ty evd]))).
Proof.
  intros Hp Ha Ecv Hty HI.
  cbn [BootSim.run_acts BootSim.apply_act]. rewrite Ecv.
  destruct HI as (Hw & Hi & Hrest).
  pose proof (extend_outcome H (s_tpm s) p a dg Hw) as Ho.
  assert (C : initialized (s_tpm s) && (0 <=? p) && (p <? 2) && is_supported a = true)
    by (rewrite Hi, Ha; destruct Hp as [-> | ->]; reflexivity).
  rewrite C in Ho. clear C.
  assert (Hr : 0 <= a < 65536) by (destruct (is_supported_cases a Ha) as [-> | ->]; cbv; split; congruence).
  specialize (Ho Hr).
  destruct (step H (s_tpm s) (Extend p a dg)) as [t1 r1] eqn:E1. cbn [snd] in Ho. subst r1.
  cbn [add_meas with_tpm s_tpm].
  pose proof (Inv2_ext_log l (s_tpm s) p a dg ty evd t1 (conj Hw (conj Hi Hrest)) E1 Hty) as HI2.
  destruct (step H t1 (LogAdd p a dg ty evd)) as [t2 r2].
  cbn [fst snd s_tpm with_tpm] in *. exact HI2.
Qed.

Inductive logged_body : list item -> Prop :=
| LB_nil : logged_body []
| LB_item it r : body_item it -> logged_body r -> logged_body (it :: r)
| LB_pair p d a dg ty evd r :
    (p = 0 \/ p = 1) -> is_supported a = true ->
    converted d = Ok dg -> ty <> EV_NO_ACTION ->
    logged_body r ->
    logged_body (IExtend p (DS d) a :: ILogAdd p a dg ty evd :: r).

Lemma logged_body_readable body : logged_body body -> Forall readable_item body.
Proof.
  induction 1; repeat constructor; try assumption. apply body_item_readable. assumption.
Qed.

Lemma logged_body_Inv2 l t body : logged_body body -> forall acts s,
  compile_step t body = Ok acts -> Inv2 l (s_tpm s) ->
  Inv2 l (s_tpm (fst (run_acts s acts))).
Proof.
  induction 1 as [|it r Hit Hr IH|p d a dg ty evd r Hp Ha Ecv Hty Hr IH]; intros acts s Ec HI.
  - cbn [BootSim.compile_step] in Ec. inversion Ec; subst acts. exact HI.
  - cbn [BootSim.compile_step] in Ec.
    destruct (compile_item t it) as [x|e| |] eqn:E1; cbn [bind] in Ec; try discriminate.
    destruct (compile_step t r) as [y|e| |] eqn:E2; cbn [bind] in Ec; try discriminate.
    inversion Ec; subst acts. rewrite run_acts_app. apply (IH y); [reflexivity|].
    eapply body_item_Inv2; eauto.
  - cbn [BootSim.compile_step BootSim.compile_item bind] in Ec.
    destruct (compile_step t r) as [y|e| |] eqn:E2; cbn [bind] in Ec; try discriminate.
    inversion Ec; subst acts. cbn [app].
    change (AExtend p (DS d) a :: ALogAdd p a dg ty evd :: y)
      with ([AExtend p (DS d) a; ALogAdd p a dg ty evd] ++ y).
    rewrite run_acts_app. apply (IH y); [reflexivity|].
    apply pair_Inv2; assumption.
Qed.

(** *** Before the startup *)

(** not started, and nothing but informational entries in the log *)
Definition Pre (t : state) : Prop :=
  wf t /\ initialized t = false /\
  forall p a, EL.meas_digests (to_parsed (evlog t)) p a = [].

Lemma Pre_start r : Pre (start_of r).
Proof. destruct r; (split; [left; reflexivity|]); split; reflexivity. Qed.

Lemma Pre_same_obs t t' : same_obs t t' -> Pre t -> Pre t'.
Proof.
  intros (Hp & He & _) (Hw & Hi & Hv). split; [|split].
  - eapply wf_same_pcrs; eauto.
  - unfold initialized in *. rewrite <- Hp. exact Hi.
  - rewrite <- He. exact Hv.
Qed.

Lemma Pre_fail t c : Pre t -> snd (step H t c) <> Ok tt -> Pre (fst (step H t c)).
Proof.
  intros HI Hne. destruct (step H t c) as [t' r] eqn:E. cbn [fst snd] in *.
  destruct (step_not_ok H t c t' r E Hne) as [_ ->].
  eapply Pre_same_obs; [apply same_obs_sym, same_obs_log_cmd|exact HI].
Qed.

(** a TPM that was not started refuses every extend *)
Lemma extend_not_started t p a d : initialized t = false -> snd (step H t (Extend p a d)) <> Ok tt.
Proof.
  intros Hi E. destruct (step H t (Extend p a d)) as [t1 r1] eqn:Es. cbn [snd] in E. subst r1.
  destruct (step_extend_ok H _ _ _ _ _ Es) as (old & Hg & _).
  unfold initialized in Hi. destruct (pcrs t); [discriminate Hg|discriminate Hi].
Qed.

Lemma Pre_info_log t p a d evd : Pre t -> Pre (fst (step H t (LogAdd p a d EV_NO_ACTION evd))).
Proof.
  intros (Hw & Hi & Hv). rewrite step_logadd. cbn [fst]. split; [|split].
  - eapply wf_same_pcrs; [|exact Hw]. reflexivity.
  - exact Hi.
  - intros p' a'. cbn [log_event log_cmd evlog].
    rewrite to_parsed_app, meas_digests_app, meas_digests_one, Hv.
    change (EV_NO_ACTION =? EV_NO_ACTION) with true. cbn [negb]. rewrite andb_false_r. reflexivity.
Qed.

Lemma info_acts_Pre acts : Forall info_act acts -> forall s,
  Pre (s_tpm s) -> Pre (s_tpm (fst (run_acts s acts))).
Proof.
  induction 1 as [|a r Ha Hr IH]; intros s HI; cbn [BootSim.run_acts]; [exact HI|].
  destruct a as [l0|p src ty evd|p src al|p al d ty evd|]; cbn [info_act] in Ha; try contradiction.
  - subst ty. cbn [BootSim.apply_act].
    pose proof (Pre_info_log (s_tpm s) p al d evd HI) as G.
    destruct (step H (s_tpm s) (LogAdd p al d EV_NO_ACTION evd)) as [t1 r1]. cbn [fst] in G.
    specialize (IH (BootSim.with_tpm ref s t1) G). destruct (run_acts (BootSim.with_tpm ref s t1) r). exact IH.
  - cbn [BootSim.apply_act]. specialize (IH s HI). destruct (run_acts s r). exact IH.
Qed.

(** Items before the startup: LogInit (the log may also be set up EARLIER than
    the TPM), informational entries, Panic steps, and measurements (TPMEvent,
    bare TPMExtend), whose extends the TPM refuses *)
Definition pre_item (it : item) : Prop :=
  match it with
  | ILogInit _ => True
  | ILogAdd _ _ _ ty _ => ty = EV_NO_ACTION
  | IEvent _ _ _ _ => True
  | IExtend _ _ _ => True
  | IPanic => True
  | _ => False
  end.

Lemma pre_item_readable it : pre_item it -> readable_item it.
Proof. destruct it; cbn; auto; intros []. Qed.

Lemma pre_item_Pre t it acts s :
  pre_item it -> compile_item t it = Ok acts -> Pre (s_tpm s) -> Pre (s_tpm (fst (run_acts s acts))).
Proof.
  intros Hm Ec HI.
  destruct it as [l0|l0 wl|l0|p src ty evd|p src al|p al dg ty evd|r1 r256|];
    cbn [pre_item] in Hm; try contradiction; cbn [BootSim.compile_item] in Ec; inversion Ec; subst acts.
  - apply info_acts_Pre; [apply log_init_info|exact HI].
  - cbn [BootSim.run_acts BootSim.apply_act].
    destruct src as [d| |]; try (cbn [fst]; exact HI).
    destruct (converted d) as [msg|e| |]; try (cbn [fst]; exact HI).
    cbn [supported BootSim.event_loop].
    pose proof (Pre_fail (s_tpm s) (Extend p ALG_SHA1 (H ALG_SHA1 msg)) HI) as F.
    pose proof (extend_not_started (s_tpm s) p ALG_SHA1 (H ALG_SHA1 msg)) as N.
    destruct HI as (_ & Hi & _). specialize (N Hi). specialize (F N).
    destruct (step H (s_tpm s) (Extend p ALG_SHA1 (H ALG_SHA1 msg))) as [t1 r1]. cbn [fst snd] in *.
    destruct r1 as [[]|e| |]; [exfalso; apply N; reflexivity| | |]; cbn [fst with_tpm s_tpm]; exact F.
  - cbn [BootSim.run_acts BootSim.apply_act].
    destruct src as [d| |]; try (cbn [fst]; exact HI).
    destruct (converted d) as [msg|e| |]; try (cbn [fst]; exact HI).
    pose proof (Pre_fail (s_tpm s) (Extend p al msg) HI) as F.
    pose proof (extend_not_started (s_tpm s) p al msg) as N.
    destruct HI as (_ & Hi & _). specialize (N Hi). specialize (F N).
    destruct (step H (s_tpm s) (Extend p al msg)) as [t1 r1]. cbn [fst snd] in *.
    destruct r1 as [[]|e| |]; [exfalso; apply N; reflexivity| | |]; cbn [fst with_tpm s_tpm]; exact F.
  - apply info_acts_Pre; [|exact HI]. repeat constructor. exact Hm.
  - cbn [BootSim.run_acts BootSim.apply_act fst]. exact HI.
Qed.

Lemma pre_items_Pre t pre : Forall pre_item pre -> forall acts s,
  compile_step t pre = Ok acts -> Pre (s_tpm s) -> Pre (s_tpm (fst (run_acts s acts))).
Proof.
  induction 1 as [|it r Hit Hr IH]; intros acts s Ec HI; cbn [BootSim.compile_step] in Ec.
  - inversion Ec; subst acts. exact HI.
  - destruct (compile_item t it) as [x|e| |] eqn:E1; cbn [bind] in Ec; try discriminate.
    destruct (compile_step t r) as [y|e| |] eqn:E2; cbn [bind] in Ec; try discriminate.
    inversion Ec; subst acts. rewrite run_acts_app. apply (IH y); [reflexivity|].
    eapply pre_item_Pre; eauto.
Qed.

(** *** The startup: TPMInit(l) / InitTPM(l, withLog) on a TPM that was not started *)

Definition start_item (l : Z) (it : item) : Prop :=
  match it with
  | IInit l0 => l0 = l
  | IInitTPM l0 _ => l0 = l
  | _ => False
  end.

Lemma Pre_startup l s :
  Pre (s_tpm s) -> Inv2 l (s_tpm (fst (apply_act s (AInit l)))).
Proof.
  intros (Hw & Hi & Hv). cbn [BootSim.apply_act].
  assert (W : wf (fst (step H (s_tpm s) (Startup l)))) by (apply wf_step; assumption).
  rewrite step_startup in *. rewrite Hi in *. cbn [fst with_tpm s_tpm] in *.
  split; [exact W|]. split; [reflexivity|].
  intros p a Hp Ha. cbn [set_pcrs log_cmd pcrs evlog]. rewrite Hv.
  destruct Hp as [-> | ->]; destruct (is_supported_cases a Ha) as [-> | ->]; reflexivity.
Qed.

Lemma start_item_Inv2 l t it acts s :
  start_item l it -> compile_item t it = Ok acts -> Pre (s_tpm s) ->
  Inv2 l (s_tpm (fst (run_acts s acts))).
Proof.
  intros Hs Ec HP.
  destruct it as [l0|l0 wl|l0|p src ty evd|p src al|p al dg ty evd|r1 r256|];
    cbn [start_item] in Hs; try contradiction; subst l0; cbn [BootSim.compile_item] in Ec;
    inversion Ec; subst acts; cbn [BootSim.run_acts]; pose proof (Pre_startup l s HP) as G;
    destruct (apply_act s (AInit l)) as [s1 r1]; cbn [fst] in G.
  - exact G.
  - pose proof (info_acts_Inv2 l (if wl then BootSim.log_init ref t l else [])) as G2.
    assert (Fi : Forall info_act (if wl then BootSim.log_init ref t l else []))
      by (destruct wl; [apply log_init_info|constructor]).
    specialize (G2 Fi s1 G). destruct (run_acts s1 (if wl then BootSim.log_init ref t l else [])). exact G2.
Qed.

(** *** The class: every extend is logged *)

(** The items of the flow, in order and however grouped in steps: anything that
    cannot touch a PCR while the TPM is not started ([pre_item]), the startup at
    locality [l], then measurements that extend and log the same digest and
    informational entries in any order ([logged_body]).  Every [wf_flow] is one
    ([wf_flow_logged]); so is InitTPM(l, false); Measure; LogInit(l); Measure. *)
Definition logged_flow (l : Z) (fl : list (list item)) : Prop :=
  exists pre st body, concat fl = pre ++ st :: body /\
    Forall pre_item pre /\ start_item l st /\ logged_body body.

Lemma meas_body_logged body : meas_body body -> logged_body body.
Proof.
  induction 1 as [|it r Hit Hr IH|p d a dg ty evd r Hp Ha Ecv Hl Hty Hr IH].
  - constructor.
  - apply LB_item; [|exact IH]. destruct it; cbn in *; auto; contradiction.
  - apply LB_pair; assumption.
Qed.

Lemma wf_flow_logged l b fl : wf_flow l b fl -> logged_flow l fl.
Proof.
  intros (pre & body & Ec & Hf & Hm). apply meas_body_logged in Hm. unfold logged_flow. rewrite Ec.
  destruct Hf.
  - exists [], (IInitTPM l true), body. repeat split; auto.
  - exists [], (IInitTPM l false), (ILogInit l :: body). repeat split; auto. apply LB_item; [exact I|exact Hm].
  - exists [], (IInit l), (ILogInit l :: body). repeat split; auto. apply LB_item; [exact I|exact Hm].
  - exists [ILogInit l], (IInitTPM l false), body. repeat split; auto. repeat constructor.
  - exists [ILogInit l], (IInit l), body. repeat split; auto. repeat constructor.
  - exists [], (IInitTPM l false), body. repeat split; auto.
  - exists [], (IInit l), body. repeat split; auto.
Qed.

Lemma logged_flow_Inv2 r l fl :
  logged_flow l fl -> Inv2 l (s_tpm (fst (run_flow (boot_start r) fl))).
Proof.
  intros (pre & st & body & Ec & Hpre & Hst & Hb).
  assert (Hr : Forall readable_item (concat fl)).
  { rewrite Ec. apply Forall_app. split.
    - eapply Forall_impl; [|exact Hpre]. apply pre_item_readable.
    - constructor; [destruct st; cbn in Hst; try contradiction; exact I|].
      apply logged_body_readable. exact Hb. }
  destruct (run_flow_flat fl (boot_start r) Hr) as (acts & Ea & ->). cbn [boot_start s_tpm] in Ea.
  rewrite Ec in Ea. change (st :: body) with ([st] ++ body) in Ea. rewrite !compile_step_app in Ea.
  destruct (compile_step (start_of r) pre) as [x|e| |] eqn:E1; cbn [bind] in Ea; try discriminate.
  cbn [BootSim.compile_step] in Ea.
  destruct (compile_item (start_of r) st) as [y|e| |] eqn:E2; cbn [bind] in Ea; try discriminate.
  destruct (compile_step (start_of r) body) as [z|e| |] eqn:E3; cbn [bind] in Ea; try discriminate.
  inversion Ea; subst acts. rewrite app_nil_r, !run_acts_app.
  eapply logged_body_Inv2; [exact Hb|exact E3|].
  eapply start_item_Inv2; [exact Hst|exact E2|].
  eapply pre_items_Pre; [exact Hpre|exact E1|]. cbn [boot_start s_tpm]. apply Pre_start.
Qed.

Lemma Inv2_tpm_replay l t a :
  Inv2 l t -> is_supported a = true ->
  exists v, get (pcrs t) 0 a = Ok v /\ EL.tpm_replay H (to_entries (evlog t)) 0 a l = Ok v.
Proof.
  intros (_ & _ & Hv) Ha.
  pose proof (hash_size_supported a Ha) as Hs.
  eexists. split; [apply Hv; [left; reflexivity|exact Ha]|].
  unfold EL.tpm_replay. rewrite Hs. cbn [Z.eqb negb].
  rewrite ELP.zeros_loc_ok by (destruct (is_supported_cases a Ha) as [-> | ->]; cbv; reflexivity).
  cbn [bind]. rewrite ELP.tpm_replay_loop_fold.
  rewrite (ELP.from_parsed_meas _ _ 0 a (from_parsed_to_parsed (evlog t))).
  change (Z.to_nat 0) with O. rewrite (init_val_seed a O l Ha). reflexivity.
Qed.

(** tpm.EventLog.Replay(0, a, startup locality) = PCR0, both banks, on every
    boot of a session, for every flow in which every extend is logged *)
Theorem tpm_replay_logged r fl l a :
  logged_flow l fl -> is_supported a = true ->
  exists v, get (pcrs (s_tpm (fst (run_flow (boot_start r) fl)))) 0 a = Ok v /\
            EL.tpm_replay H (to_entries (evlog (s_tpm (fst (run_flow (boot_start r) fl))))) 0 a l = Ok v.
Proof. intros Hw. apply Inv2_tpm_replay. apply logged_flow_Inv2. exact Hw. Qed.

(** tpmeventlog.Replay and the well-formed flows on every boot whose TPM object
    has its SupportedAlgos (LogInit writes nothing on an object left by
    DoNotUse_ResetNoInit alone) *)
Theorem evlog_replay_boot r fl l logged p a :
  r <> RResetNoInit ->
  wf_flow l logged fl ->
  logged = true \/ (logged = false /\ l = 0) ->
  (p = 0 \/ p = 1) -> is_supported a = true ->
  exists v, get (pcrs (s_tpm (fst (run_flow (boot_start r) fl)))) p a = Ok v /\
            EL.replay H (to_parsed (evlog (s_tpm (fst (run_flow (boot_start r) fl))))) p a = Ok v.
Proof.
  intros Hr. replace (boot_start r) with (@sim0 ref) by (destruct r; try reflexivity; contradiction).
  apply evlog_replay.
Qed.

End Replay.

(** * 4. The bytes of a reference list are those of Model/Refs.v (C11) *)

From CSS Require Model.Ranges Model.Refs.
Module RF := CSS.Model.Refs.

Lemma raw_bytes_refs rs : BootSim.raw_bytes RF.ref RF.ref_rawbytes rs = RF.refs_rawbytes rs.
Proof.
  induction rs as [|r t IH]; [reflexivity|]. cbn [BootSim.raw_bytes RF.refs_rawbytes]. rewrite IH. reflexivity.
Qed.

Lemma denotes_refs rs b : denotes RF.ref RF.ref_rawbytes rs b <-> RF.refs_rawbytes rs = Ok b.
Proof.
  rewrite <- raw_bytes_refs. split; [apply denotes_raw_bytes|apply raw_bytes_denotes].
Qed.

(** * 5. What fails: closed witnesses *)

(** a function with the right output sizes that depends on content and length
    (not a hash, of course) *)
Definition toy_hash (a : Z) (x : list Z) : list Z :=
  repeat ((fold_left Z.add x 0 + Z.of_nat (length x)) mod 256) (hsize a).

Lemma toy_hash_length a x : length (toy_hash a x) = hsize a.
Proof. apply repeat_length. Qed.

(** references that are their own bytes *)
Definition lit_bytes (r : list Z) : outcome (list Z) := Ok r.

Definition toy_run (fl : list (list (BootSim.item (list Z)))) : state :=
  s_tpm (fst (BootSim.run_flow (list Z) lit_bytes toy_hash sim0 fl)).

Definition toy_data : BootSim.dsrc (list Z) := DS (mkData [[1; 2; 3]; [4]] None).

(** a bare TPMExtend has no log entry *)
Definition fl_bare_extend : list (list (BootSim.item (list Z))) :=
  [[IInitTPM 0 true]; [IEvent 0 toy_data 1 None]; [IExtend 0 (DS (mkData [[1; 2; 3]] (Some ALG_SHA1))) ALG_SHA1]].

Lemma bare_extend_differs :
  exists v v', get (pcrs (toy_run fl_bare_extend)) 0 ALG_SHA1 = Ok v /\
               EL.replay toy_hash (to_parsed (evlog (toy_run fl_bare_extend))) 0 ALG_SHA1 = Ok v' /\
               EL.tpm_replay toy_hash (to_entries (evlog (toy_run fl_bare_extend))) 0 ALG_SHA1 0 = Ok v' /\
               v <> v'.
Proof. eexists. eexists. split; [|split; [|split]]; try (vm_compute; reflexivity). vm_compute. discriminate. Qed.

(** a bare TPMEventLogAdd has no extend *)
Definition fl_log_only : list (list (BootSim.item (list Z))) :=
  [[IInitTPM 0 true]; [ILogAdd 0 ALG_SHA1 (repeat 90 20) 5 (Some [1])]].

Lemma log_only_differs :
  exists v v', get (pcrs (toy_run fl_log_only)) 0 ALG_SHA1 = Ok v /\
               EL.replay toy_hash (to_parsed (evlog (toy_run fl_log_only))) 0 ALG_SHA1 = Ok v' /\ v <> v'.
Proof. eexists. eexists. split; [|split]; try (vm_compute; reflexivity). vm_compute. discriminate. Qed.

(** startup at locality 3 that is not logged: the log-only routine assumes locality 0 *)
Definition fl_unlogged_3 : list (list (BootSim.item (list Z))) :=
  [[IInitTPM 3 false]; [IEvent 0 toy_data 1 None]].

Lemma unlogged_locality_differs :
  exists v v', get (pcrs (toy_run fl_unlogged_3)) 0 ALG_SHA1 = Ok v /\
               EL.replay toy_hash (to_parsed (evlog (toy_run fl_unlogged_3))) 0 ALG_SHA1 = Ok v' /\ v <> v'.
Proof. eexists. eexists. split; [|split]; try (vm_compute; reflexivity). vm_compute. discriminate. Qed.

(** a logged startup at a locality from 128 on (before the fix in /repo LogInit formatted the
    locality with %c, two UTF-8 bytes, and ParseLocality rejected the simulator's own entry) *)
Definition fl_locality_200 : list (list (BootSim.item (list Z))) :=
  [[IInitTPM 200 true]; [IEvent 0 toy_data 1 None]].

Lemma locality_200_replays :
  exists v, get (pcrs (toy_run fl_locality_200)) 0 ALG_SHA1 = Ok v /\
            EL.replay toy_hash (to_parsed (evlog (toy_run fl_locality_200))) 0 ALG_SHA1 = Ok v.
Proof. eexists. split; vm_compute; reflexivity. Qed.

(** a TPMEvent whose event type is EV_NO_ACTION is extended into the PCR, but
    tpm.EventLog.Replay skips its log entry and tpmeventlog.Replay rejects the
    log (an EV_NO_ACTION entry is only accepted as the startup-locality entry) *)
Definition fl_noaction_type : list (list (BootSim.item (list Z))) :=
  [[IInitTPM 0 false]; [IEvent 0 toy_data EV_NO_ACTION None]; [IEvent 1 toy_data EV_NO_ACTION None]].

Lemma noaction_type_differs :
  exists v0 v1,
    get (pcrs (toy_run fl_noaction_type)) 0 ALG_SHA1 = Ok v0 /\
    get (pcrs (toy_run fl_noaction_type)) 1 ALG_SHA1 = Ok v1 /\
    EL.tpm_replay toy_hash (to_entries (evlog (toy_run fl_noaction_type))) 0 ALG_SHA1 0 <> Ok v0 /\
    EL.replay toy_hash (to_parsed (evlog (toy_run fl_noaction_type))) 0 ALG_SHA1 <> Ok v0 /\
    EL.replay toy_hash (to_parsed (evlog (toy_run fl_noaction_type))) 1 ALG_SHA1 <> Ok v1.
Proof.
  eexists. eexists. split; [vm_compute; reflexivity|]. split; [vm_compute; reflexivity|].
  split; [|split]; vm_compute; discriminate.
Qed.

(** Commands.Apply stops at the command that failed in the flow (second TPMInit) *)
Definition fl_double_init : list (list (BootSim.item (list Z))) :=
  [[IInitTPM 0 false]; [IInit 0]; [IEvent 0 toy_data 1 None]].

Lemma commands_apply_stops :
  exists t' e, commands_apply toy_hash fresh (cmdlog (toy_run fl_double_init)) = (t', Err e) /\
               pcrs t' <> pcrs (toy_run fl_double_init).
Proof. eexists. eexists. split; [vm_compute; reflexivity|]. vm_compute. discriminate. Qed.

(** the event log set up later than the TPM: InitTPM(3, false), a PCR0 measurement,
    LogInit(3), another PCR0 measurement; then a stray LogInit(9) and a bare
    EV_NO_ACTION entry.  Every extend is logged ([logged_flow]); not a [wf_flow]. *)
Definition fl_late_loginit : list (list (BootSim.item (list Z))) :=
  [[IInitTPM 3 false]; [IEvent 0 toy_data 1 None]; [ILogInit 3]; [IEvent 0 toy_data 8 (Some [7])];
   [ILogInit 9; ILogAdd 0 ALG_SHA1 [1; 2] EV_NO_ACTION None]].

Lemma late_loginit_logged : logged_flow (list Z) lit_bytes toy_hash 3 fl_late_loginit.
Proof.
  exists [], (IInitTPM 3 false). eexists. split; [reflexivity|]. split; [constructor|]. split; [reflexivity|].
  apply LB_item; [left; unfold EV_NO_ACTION; discriminate|].
  apply LB_item; [exact I|].
  apply LB_item; [left; unfold EV_NO_ACTION; discriminate|].
  apply LB_item; [exact I|].
  apply LB_item; [reflexivity|].
  apply LB_nil.
Qed.

(** the in-simulator routine seeded with the startup locality gives PCR0, a value
    that is not the startup value; the routine that knows only the log rejects
    this log (startup entry after a measurement of the same bank) *)
Lemma late_loginit_values :
  exists v, get (pcrs (toy_run fl_late_loginit)) 0 ALG_SHA1 = Ok v /\
            EL.tpm_replay toy_hash (to_entries (evlog (toy_run fl_late_loginit))) 0 ALG_SHA1 3 = Ok v /\
            v <> repeat 0 19 ++ [3] /\
            (forall v', EL.replay toy_hash (to_parsed (evlog (toy_run fl_late_loginit))) 0 ALG_SHA1 <> Ok v').
Proof.
  eexists. split; [vm_compute; reflexivity|]. split; [vm_compute; reflexivity|].
  split; [vm_compute; discriminate|]. intros v'. vm_compute. discriminate.
Qed.
