(** C07 at the level of VALUES: the property speaks of "some value within the
    requested Hamming-distance window of the initial data"; Proofs/BruteForce.v
    speaks of candidates (sets of bit positions).  Here: every value of the same
    shape is reached by flipping exactly the positions in which it differs from
    the initial data - wherever they are in the string (bit position 8*j+b of a
    byte string of any length, item j of a bool string) - and the number of
    those positions is its Hamming distance.  Hence completeness and minimality
    for values. *)
From CSS Require Import Lib.Base Model.Comb Proofs.Comb Model.BruteForce Proofs.BruteForce.
From Coq Require Import Lia.

(** * Filtering an interval gives a valid combination *)

Lemma Inc_filter_seqZ (f : Z -> bool) : forall n a lo m,
  lo < a -> a + Z.of_nat n - 1 <= m -> Inc lo m (filter f (seqZ a n)).
Proof.
  induction n as [|n IH]; intros a lo m Hlo Hm; cbn [seqZ filter]; [exact I|].
  destruct (f a).
  - cbn [Inc]. split; [lia|]. apply IH; lia.
  - apply IH; lia.
Qed.

Lemma Valid_filter_seqZ (f : Z -> bool) n :
  Valid (Z.of_nat n - 1) (filter f (seqZ 0 n)).
Proof. unfold Valid. apply Inc_filter_seqZ; lia. Qed.

Lemma In_filter_seqZ (f : Z -> bool) n p :
  In p (filter f (seqZ 0 n)) <-> 0 <= p < Z.of_nat n /\ f p = true.
Proof. rewrite filter_In, In_seqZ. lia. Qed.

(** * Bytes *)

(** bit [p] of a byte string: bit [p mod 8] of byte [p / 8] *)
Definition bit_of (v : list Z) (p : Z) : bool :=
  Z.testbit (nth (Z.to_nat (p / 8)) v 0) (p mod 8).

(** the bit positions in which two byte strings differ, in increasing order *)
Definition diff_bytes (a b : list Z) : list Z :=
  filter (fun p => xorb (bit_of a p) (bit_of b p)) (seqZ 0 (8 * length a)).

Definition hamming_bytes (a b : list Z) : Z := Z.of_nat (length (diff_bytes a b)).

Lemma nat8 n : Z.of_nat (8 * n) = 8 * Z.of_nat n.
Proof. lia. Qed.

Lemma diff_bytes_valid a b : Valid (8 * Z.of_nat (length a) - 1) (diff_bytes a b).
Proof. unfold diff_bytes. rewrite <- nat8. apply Valid_filter_seqZ. Qed.

Lemma divmod8 j n : 0 <= n < 8 -> (8 * j + n) / 8 = j /\ (8 * j + n) mod 8 = n.
Proof.
  intro Hn. split.
  - rewrite Z.mul_comm, Z.div_add_l by lia. rewrite Z.div_small by lia. lia.
  - rewrite Z.add_comm, Z.mul_comm, Z_mod_plus_full. apply Z.mod_small. lia.
Qed.

Lemma byte_high_bits x n : is_byte x -> 8 <= n -> Z.testbit x n = false.
Proof.
  intros [H0 H1] Hn. destruct (Z.eq_dec x 0) as [->|Hx]; [apply Z.bits_0|].
  apply Z.bits_above_log2; [lia|].
  assert (Z.log2 x < 8); [|lia]. apply Z.log2_lt_pow2; [lia|]. exact H1.
Qed.

(** flipping the differing positions turns [a] into [b] *)
Lemma flip_bytes_diff a b :
  length b = length a -> Forall is_byte a -> Forall is_byte b ->
  flip_bytes (diff_bytes a b) a = Ok b.
Proof.
  intros Hlen Ha Hb.
  destruct (Valid_flip_hyps _ _ (8 * Z.of_nat (length a)) (diff_bytes_valid a b) ltac:(lia)) as [Hnd Hr].
  destruct (flip_bytes_spec _ a Hnd Hr) as (v & Hf & Hl & _ & Hbits).
  rewrite Hf. f_equal. apply nth_ext with (d := 0) (d' := 0); [congruence|].
  intros j Hj. rewrite Hl in Hj. apply Z.bits_inj'. intros n Hn.
  rewrite (Hbits j n Hj Hn).
  assert (Haj : is_byte (nth j a 0)).
  { rewrite Forall_forall in Ha. apply Ha. apply nth_In. exact Hj. }
  assert (Hbj : is_byte (nth j b 0)).
  { rewrite Forall_forall in Hb. apply Hb. apply nth_In. lia. }
  destruct (Z.ltb_spec n 8) as [H8|H8]; cbn [andb].
  - destruct (divmod8 (Z.of_nat j) n ltac:(lia)) as (Ed & Em).
    assert (Hm : memZ (8 * Z.of_nat j + n) (diff_bytes a b)
                 = xorb (Z.testbit (nth j a 0) n) (Z.testbit (nth j b 0) n)).
    { apply eq_true_iff_eq. rewrite memZ_In. unfold diff_bytes. rewrite In_filter_seqZ.
      unfold bit_of. rewrite Ed, Em, Nat2Z.id. rewrite nat8. split; [tauto|]. intro H. split; [lia|exact H]. }
    rewrite Hm. destruct (Z.testbit (nth j a 0) n), (Z.testbit (nth j b 0) n); reflexivity.
  - rewrite (byte_high_bits _ n Haj H8), (byte_high_bits _ n Hbj H8). reflexivity.
Qed.

Lemma total_bits_bytes (data : list Z) : Z.of_nat (length data) < I63 / 8 ->
  total_bits data 8 = 8 * Z.of_nat (length data).
Proof.
  intro H. unfold total_bits. rewrite wrap64_mod.
  assert (I63 / 8 = 1152921504606846976) by reflexivity.
  rewrite Z.mod_small; [lia|]. unfold W64. lia.
Qed.

Section Bytes.
  Variable P : list Z -> bool.
  Variables (data : list Z) (wmin wmax gomax maxconc : Z) (ifail : Z -> Z -> bool).
  Hypothesis Hbytes : Forall is_byte data.
  Hypothesis Hlen : Z.of_nat (length data) < I63 / 8.
  Hypothesis Hgomax : 1 <= gomax.
  Hypothesis Hifail : forall d i, ifail d i = false.
  Hypothesis Hwin : 0 <= wmin <= wmax.
  Hypothesis Hno : no_overflow (8 * Z.of_nat (length data)) wmin wmax.

  (** a byte string of the same length inside the window that satisfies the predicate *)
  Definition good_value (t : list Z) : Prop :=
    length t = length data /\ Forall is_byte t /\
    wmin <= hamming_bytes data t <= wmax /\ P t = true.

  Lemma std_bytes : std flip_bytes data 8 wmin wmax gomax ifail.
  Proof.
    pose proof (total_bits_bytes data Hlen) as Et.
    unfold std. rewrite Et. split; [|split; [|split; [|split; [|split]]]]; auto.
    - rewrite <- Et. apply flips_ok_bytes. lia.
    - assert (I63 / 8 = 1152921504606846976) by reflexivity. unfold I63 in *. lia.
  Qed.

  Lemma good_value_candidate t : good_value t ->
    candidate (total_bits data 8) wmin wmax (diff_bytes data t) /\
    satisfies flip_bytes P data (diff_bytes data t).
  Proof.
    intros (Hl & Hb & Hw & Hp). rewrite (total_bits_bytes data Hlen). split.
    - split; [apply diff_bytes_valid|exact Hw].
    - exists t. split; [apply flip_bytes_diff; assumption|exact Hp].
  Qed.

  (** If some value within the Hamming window satisfies the predicate, every
      outcome is a set of positions inside the window whose flipping gives a
      satisfying value, and no satisfying value of the window is closer. *)
  Theorem bytes_value_complete t res :
    good_value t ->
    bf_outcome flip_bytes P ifail gomax maxconc data 8 wmin wmax res ->
    exists r v, res = Ok (Some r) /\ flip_bytes r data = Ok v /\ P v = true /\
      wmin <= Z.of_nat (length r) <= wmax /\
      forall t', good_value t' -> Z.of_nat (length r) <= hamming_bytes data t'.
  Proof.
    intros Hg Ho. destruct (good_value_candidate t Hg) as (Hc & Hs).
    destruct (complete flip_bytes P data 8 wmin wmax gomax maxconc ifail res std_bytes
                (ex_intro _ _ (conj Hc Hs)) Ho) as (r & -> & (Hv & Hw) & (v & Hf & Hp)).
    exists r, v. repeat split; auto; try lia.
    intros t' Hg'. destruct (good_value_candidate t' Hg') as (Hc' & Hs').
    pose proof (minimal flip_bytes P data 8 wmin wmax gomax maxconc ifail r std_bytes Ho _ Hc' Hs').
    unfold hamming_bytes. lia.
  Qed.
End Bytes.

(** * Bools *)

Definition diff_bools (a b : list bool) : list Z :=
  filter (fun p => xorb (nth (Z.to_nat p) a false) (nth (Z.to_nat p) b false)) (seqZ 0 (length a)).

Definition hamming_bools (a b : list bool) : Z := Z.of_nat (length (diff_bools a b)).

Lemma diff_bools_valid a b : Valid (Z.of_nat (length a) - 1) (diff_bools a b).
Proof. apply Valid_filter_seqZ. Qed.

Lemma flip_bools_diff a b : length b = length a -> flip_bools (diff_bools a b) a = Ok b.
Proof.
  intros Hlen.
  destruct (Valid_flip_hyps _ _ (Z.of_nat (length a)) (diff_bools_valid a b) ltac:(lia)) as [Hnd Hr].
  destruct (flip_bools_spec _ a Hnd Hr) as (v & Hf & Hl & Hnth).
  rewrite Hf. f_equal. apply nth_ext with (d := false) (d' := false); [congruence|].
  intros j Hj. rewrite Hl in Hj. rewrite (Hnth j Hj).
  destruct (in_dec Z.eq_dec (Z.of_nat j) (diff_bools a b)) as [Hin|Hni].
  - unfold diff_bools in Hin. apply In_filter_seqZ in Hin as (_ & Hx). rewrite Nat2Z.id in Hx.
    destruct (nth j a false), (nth j b false); cbn in *; congruence.
  - assert (Hx : xorb (nth j a false) (nth j b false) <> true).
    { intro Hx. apply Hni. unfold diff_bools. apply In_filter_seqZ. rewrite Nat2Z.id. split; [lia|exact Hx]. }
    destruct (nth j a false), (nth j b false); cbn in *; congruence.
Qed.

Lemma total_bits_bools (data : list bool) : Z.of_nat (length data) < I63 ->
  total_bits data 1 = Z.of_nat (length data).
Proof.
  intro H. unfold total_bits. rewrite wrap64_mod.
  rewrite Z.mod_small; [lia|]. unfold W64, I63 in *. lia.
Qed.

Section Bools.
  Variable P : list bool -> bool.
  Variables (data : list bool) (wmin wmax gomax maxconc : Z) (ifail : Z -> Z -> bool).
  Hypothesis Hlen : Z.of_nat (length data) < I63.
  Hypothesis Hgomax : 1 <= gomax.
  Hypothesis Hifail : forall d i, ifail d i = false.
  Hypothesis Hwin : 0 <= wmin <= wmax.
  Hypothesis Hno : no_overflow (Z.of_nat (length data)) wmin wmax.

  Definition good_bools (t : list bool) : Prop :=
    length t = length data /\ wmin <= hamming_bools data t <= wmax /\ P t = true.

  Lemma std_bools : std flip_bools data 1 wmin wmax gomax ifail.
  Proof.
    pose proof (total_bits_bools data Hlen) as Et.
    unfold std. rewrite Et. split; [|split; [|split; [|split; [|split]]]]; auto.
    rewrite <- Et. apply flips_ok_bools. lia.
  Qed.

  Lemma good_bools_candidate t : good_bools t ->
    candidate (total_bits data 1) wmin wmax (diff_bools data t) /\
    satisfies flip_bools P data (diff_bools data t).
  Proof.
    intros (Hl & Hw & Hp). rewrite (total_bits_bools data Hlen). split.
    - split; [apply diff_bools_valid|exact Hw].
    - exists t. split; [apply flip_bools_diff; assumption|exact Hp].
  Qed.

  Theorem bools_value_complete t res :
    good_bools t ->
    bf_outcome flip_bools P ifail gomax maxconc data 1 wmin wmax res ->
    exists r v, res = Ok (Some r) /\ flip_bools r data = Ok v /\ P v = true /\
      wmin <= Z.of_nat (length r) <= wmax /\
      forall t', good_bools t' -> Z.of_nat (length r) <= hamming_bools data t'.
  Proof.
    intros Hg Ho. destruct (good_bools_candidate t Hg) as (Hc & Hs).
    destruct (complete flip_bools P data 1 wmin wmax gomax maxconc ifail res std_bools
                (ex_intro _ _ (conj Hc Hs)) Ho) as (r & -> & (Hv & Hw) & (v & Hf & Hp)).
    exists r, v. repeat split; auto; try lia.
    intros t' Hg'. destruct (good_bools_candidate t' Hg') as (Hc' & Hs').
    pose proof (minimal flip_bools P data 1 wmin wmax gomax maxconc ifail r std_bools Ho _ Hc' Hs').
    unfold hamming_bools. lia.
  Qed.
End Bools.

(** a value that differs from 64 bytes of data only in the LAST byte (bit
    positions 504 and 511) is at distance 2, and flipping those positions gives it *)
Example ex_far_positions :
  let data := repeat 0 64 in
  let t := repeat 0 63 ++ [129] in
  diff_bytes data t = [504; 511] /\ hamming_bytes data t = 2 /\ flip_bytes [504; 511] data = Ok t.
Proof. vm_compute. auto. Qed.
