(** Proofs about Model/BruteForceProc.v: the package state after init() is the
    table of binomial coefficients, code reading such a table is the code of
    Model/Comb.v / Model/BruteForce.v, hence every call of every process - the
    first as well as any later one, with any number of workers seeking at the
    same time - has exactly the outcomes of the state-free relation. *)
From CSS Require Import Lib.Base Lib.Cases Model.Comb Proofs.Comb Model.BruteForce Model.BruteForceCases
     Proofs.BruteForce Model.BruteForceProc.

(** * The table after init() *)

(** [t] holds C(n,k) mod 2^64 in every cell binomialCoefficientFast may read *)
Definition table_ok (t : table) : Prop :=
  forall n k, 0 <= n <= CACHE_MAX_N -> 0 <= k <= CACHE_MAX_K -> tget t n k = binom64 n k.

Definition table_okb (t : table) : bool :=
  forallb (fun n => forallb (fun k => tget t n k =? binom64 n k) (seqZ 0 (S (Z.to_nat CACHE_MAX_K))))
          (seqZ 0 (S (Z.to_nat CACHE_MAX_N))).

Lemma table_okb_ok t : table_okb t = true -> table_ok t.
Proof.
  unfold table_okb, table_ok. intros H n k Hn Hk.
  rewrite forallb_forall in H. specialize (H n).
  assert (Hin : In n (seqZ 0 (S (Z.to_nat CACHE_MAX_N)))).
  { apply In_seqZ. unfold CACHE_MAX_N in *. lia. }
  specialize (H Hin). rewrite forallb_forall in H. specialize (H k).
  assert (Hik : In k (seqZ 0 (S (Z.to_nat CACHE_MAX_K)))).
  { apply In_seqZ. unfold CACHE_MAX_K in *. lia. }
  specialize (H Hik). apply Z.eqb_eq in H. exact H.
Qed.

(** all 11011 cells, evaluated *)
Lemma boot_okb : table_okb proc_boot = true.
Proof. vm_compute. reflexivity. Qed.

Theorem boot_table_ok : table_ok proc_boot.
Proof. apply table_okb_ok, boot_okb. Qed.

(** in mathematical terms *)
Theorem boot_table_binom n k : 0 <= n <= CACHE_MAX_N -> 0 <= k <= CACHE_MAX_K ->
  tget proc_boot n k = binom (Z.to_nat n) (Z.to_nat k) mod W64.
Proof.
  intros Hn Hk. rewrite boot_table_ok by assumption. apply binom64_mod; [|lia].
  unfold CACHE_MAX_N, I63 in *. lia.
Qed.

(** init() does not care what the array held before *)
Lemma table_init_any t : table_init t = proc_boot.
Proof. reflexivity. Qed.

(** the table has the declared shape *)
Lemma boot_shape : length proc_boot = 1001%nat /\ Forall (fun row => length row = 11%nat) proc_boot.
Proof.
  split; [vm_compute; reflexivity|].
  apply Forall_forall. intros row Hin.
  assert (H : forallb (fun row => Nat.eqb (length row) 11) proc_boot = true) by (vm_compute; reflexivity).
  rewrite forallb_forall in H. apply Nat.eqb_eq, H, Hin.
Qed.

(** * Code reading a complete table is the code of Model/Comb.v *)

Section Reads.
  Variable t : table.
  Hypothesis Ht : table_ok t.

  Lemma binom64_t_ok n k : binom64_t t n k = binom64 n k.
  Proof.
    unfold binom64_t.
    destruct ((0 <=? n) && (n <=? CACHE_MAX_N) && (0 <=? k) && (k <=? CACHE_MAX_K)) eqn:E; [|reflexivity].
    apply andb_true_iff in E. destruct E as [E E4]. apply andb_true_iff in E. destruct E as [E E3].
    apply andb_true_iff in E. destruct E as [E1 E2].
    apply Ht; lia.
  Qed.

  Lemma rank64_aux_t_ok m : forall s prev acc, rank64_aux_t t m prev s acc = rank64_aux m prev s acc.
  Proof.
    induction s as [|v s IH]; intros prev acc; [reflexivity|].
    cbn [rank64_aux_t rank64_aux]. rewrite !binom64_t_ok. apply IH.
  Qed.

  Lemma rank64_t_ok m s : rank64_t t m s = rank64 m s.
  Proof. apply rank64_aux_t_ok. Qed.

  Lemma seek_loop_t_ok : forall fuel m id idx s, seek_loop_t t fuel m id idx s = seek_loop fuel m id idx s.
  Proof.
    induction fuel as [|fuel IH]; intros m id idx s; [reflexivity|].
    cbn [seek_loop_t seek_loop]. rewrite rank64_t_ok.
    destruct (rank64 m s =? id); [reflexivity|].
    destruct (nth_error s idx) as [x|]; [|reflexivity].
    destruct (id <? rank64 m s).
    - destruct (set_series m idx (x - 1) s); cbn [bind]; try reflexivity. apply IH.
    - destruct (set_series m idx (x + 1) s); cbn [bind]; try reflexivity. apply IH.
  Qed.

  Lemma seek_t_ok m k id : seek_t t m k id = seek m k id.
  Proof.
    unfold seek_t, seek. destruct k; [reflexivity|].
    destruct (set_series m 0 0 (repeat 0 (S k))); cbn [bind]; try reflexivity. apply seek_loop_t_ok.
  Qed.

  Section Call.
    Context {A : Type}.
    Variable flip : list Z -> list A -> outcome (list A).
    Variable P : list A -> bool.
    Variable ifail : Z -> Z -> bool.
    Variables (gomax maxconc : Z).

    Lemma worker_scan_t_ok m k data se :
      worker_scan_t t flip P m k data se = worker_scan flip P m k data se.
    Proof. unfold worker_scan_t, worker_scan. rewrite seek_t_ok. reflexivity. Qed.

    Lemma round_specs_t_ok data total d :
      round_specs_t t flip P ifail gomax maxconc data total d = round_specs flip P ifail gomax maxconc data total d.
    Proof.
      unfold round_specs_t, round_specs. cbv zeta.
      f_equal. f_equal. apply map_ext. intro se. apply worker_scan_t_ok.
    Qed.

    Lemma dist_rel_t_ok data total : forall n d tr res,
      dist_rel_t t flip P ifail gomax maxconc data total n d tr res <->
      dist_rel flip P ifail gomax maxconc data total n d tr res.
    Proof.
      induction n as [|n IH]; intros d tr res; cbn [dist_rel_t dist_rel]; [tauto|].
      destruct (total <? d); [tauto|].
      destruct (MAX_INT64 <=? amount_of total (Z.to_nat d)); [tauto|].
      rewrite round_specs_t_ok.
      destruct (round_specs flip P ifail gomax maxconc data total d) as [specs|c| |]; try tauto.
      split; intros (runs & rres & Hr & H); exists runs, rres; (split; [exact Hr|]).
      - destruct rres as [[r|]|c| |]; try exact H.
        destruct H as (rest & -> & H). exists rest. split; [reflexivity|]. apply IH. exact H.
      - destruct rres as [[r|]|c| |]; try exact H.
        destruct H as (rest & -> & H). exists rest. split; [reflexivity|]. apply IH. exact H.
    Qed.

    Lemma bf_run_t_ok data isz wmin wmax tr res :
      bf_run_t t flip P ifail gomax maxconc data isz wmin wmax tr res <->
      bf_run flip P ifail gomax maxconc data isz wmin wmax tr res.
    Proof.
      unfold bf_run_t, bf_run. destruct (wmax <? wmin); [tauto|]. cbv zeta.
      destruct (wmin =? 0); [|apply dist_rel_t_ok].
      destruct (ifail 0 0); [tauto|]. destruct (P data); [tauto|].
      split; intros (tr' & -> & H); exists tr'; (split; [reflexivity|]); apply dist_rel_t_ok; exact H.
    Qed.

    Lemma bf_outcome_t_ok data isz wmin wmax res :
      bf_outcome_t t flip P ifail gomax maxconc data isz wmin wmax res <->
      bf_outcome flip P ifail gomax maxconc data isz wmin wmax res.
    Proof.
      unfold bf_outcome_t, bf_outcome. split; intros (tr & H); exists tr; apply bf_run_t_ok; exact H.
    Qed.
  End Call.

  Lemma call_in_ok c res : call_in t c res <-> call_alone c res.
  Proof. destruct c; cbn [call_in call_alone]; apply bf_outcome_t_ok. Qed.
End Reads.

(** * Processes *)

(** no call changes the package state *)
Lemma proc_run_state t cs rs t' : proc_run t cs rs t' -> t' = t.
Proof. induction 1; [reflexivity|assumption]. Qed.

Lemma proc_run_forall2 t cs rs t' : proc_run t cs rs t' -> Forall2 (call_in t) cs rs.
Proof. induction 1; constructor; assumption. Qed.

Lemma forall2_proc_run t cs rs : Forall2 (call_in t) cs rs -> proc_run t cs rs t.
Proof. induction 1; constructor; assumption. Qed.

Lemma forall2_impl {X Y} (R1 R2 : X -> Y -> Prop) l1 l2 :
  (forall x y, R1 x y -> R2 x y) -> Forall2 R1 l1 l2 -> Forall2 R2 l1 l2.
Proof. intros Himp H. induction H; constructor; auto. Qed.

(** what a process sees depends neither on how many calls it has made before nor
    on which: the results of a process are exactly the lists in which every call
    has one of the outcomes of the state-free relation for that call alone *)
Theorem process_history_free cs rs :
  process cs rs <-> Forall2 call_alone cs rs.
Proof.
  unfold process. split.
  - intros (t' & H). apply proc_run_forall2 in H.
    eapply forall2_impl; [|exact H]. intros c r Hc. apply (call_in_ok proc_boot boot_table_ok). exact Hc.
  - intro H. exists proc_boot. apply forall2_proc_run.
    eapply forall2_impl; [|exact H]. intros c r Hc. apply (call_in_ok proc_boot boot_table_ok). exact Hc.
Qed.

(** in particular: whatever the process did before and does afterwards, the
    [i]-th call (i = 0: the first use of the package) returns an outcome of the
    state-free relation, to which all theorems about [bf_outcome] apply *)
Theorem process_call_outcome cs rs i c r :
  process cs rs -> nth_error cs i = Some c -> nth_error rs i = Some r -> call_alone c r.
Proof.
  intro H. apply process_history_free in H. revert i.
  induction H as [|c0 r0 cs rs H0 H IH]; intros i Hc Hr.
  - destruct i; discriminate.
  - destruct i as [|i]; cbn in Hc, Hr.
    + inversion Hc; inversion Hr; subst. exact H0.
    + eapply IH; eassumption.
Qed.

(** and the state is still the booted one after any number of calls *)
Theorem process_state_kept cs rs t' : proc_run proc_boot cs rs t' -> t' = proc_boot /\ table_ok t'.
Proof. intro H. apply proc_run_state in H. subst. split; [reflexivity|exact boot_table_ok]. Qed.

(** * The state matters: a table that is not (completely) filled sends a worker elsewhere *)

(** 64 bools, distance 3, four workers: the second worker's slice starts at ID 10416,
    i.e. at the combination [5; 35; 50].  Reading the zero table the seek panics
    (setSeries: "value 64 is greater than maxValue 63"); reading a table of which
    only the first 32 rows are filled it ends on another combination. *)
Definition table_rows_filled (r : nat) : table :=
  firstn r proc_boot ++ skipn r table_zero.

Lemma ex_seek_booted : seek_t proc_boot 63 3 10416 = Ok [5; 35; 50] /\ seek 63 3 10416 = Ok [5; 35; 50].
Proof. split; vm_compute; reflexivity. Qed.

Lemma ex_seek_zero_table : seek_t table_zero 63 3 10416 = Panic.
Proof. vm_compute. reflexivity. Qed.

Lemma ex_seek_half_table :
  exists s, seek_t (table_rows_filled 32) 63 3 10416 = s /\ s <> Ok [5; 35; 50].
Proof. eexists. split; [vm_compute; reflexivity|discriminate]. Qed.

(** * The checker for the calls of a fresh process *)

Definition pcall_of (c : call) : pcall :=
  match c with
  | KBools gomax maxconc data isz wmin wmax p fails _ _ _ _ =>
      PBools gomax maxconc data isz wmin wmax (eval_pred Bool.eqb p)
             (ifail_of fails gomax maxconc (total_bits data isz))
  | KBytes gomax maxconc data isz wmin wmax p fails _ _ _ _ =>
      PBytes gomax maxconc data isz wmin wmax (eval_pred Z.eqb p)
             (ifail_of fails gomax maxconc (total_bits data isz))
  end.

Lemma check_call_sound c : check_call c = true -> call_alone (pcall_of c) (call_res c).
Proof.
  destruct c; cbn [check_call pcall_of call_res call_alone]; intro H;
    apply andb_true_iff in H; destruct H as [H _]; eapply admits_sound; exact H.
Qed.

Lemma all_l_forall {X} (f : X -> bool) l : all_l f l = true -> Forall (fun x => f x = true) l.
Proof.
  induction l as [|x l IH]; cbn [all_l]; intro H; [constructor|].
  destruct (f x) eqn:E; [|discriminate]. constructor; [exact E|apply IH, H].
Qed.

(** a CFresh case that checks is a process of the model: booted, then these calls
    with these results *)
Theorem fresh_check_sound calls :
  check (CFresh calls) = true -> process (map pcall_of calls) (map call_res calls).
Proof.
  cbn [check]. intro H. apply andb_true_iff in H. destruct H as [_ H].
  apply process_history_free. apply all_l_forall in H.
  induction H as [|c l Hc _ IH]; cbn [map]; constructor; [apply check_call_sound, Hc|exact IH].
Qed.

(** * The result clauses for a call at any place of any process *)

Section AnyCall.
  Variables (cs : list pcall) (rs : list (outcome (option cand))) (i : nat).
  Hypothesis Hproc : process cs rs.

  Theorem process_call_bools gomax maxconc data isz wmin wmax P ifail res :
    nth_error cs i = Some (PBools gomax maxconc data isz wmin wmax P ifail) ->
    nth_error rs i = Some res ->
    std flip_bools data isz wmin wmax gomax ifail ->
    (exists o, res = Ok o) /\
    ((exists s, candidate (total_bits data isz) wmin wmax s /\ satisfies flip_bools P data s) ->
     exists r, res = Ok (Some r) /\ candidate (total_bits data isz) wmin wmax r /\
               satisfies flip_bools P data r /\
               forall s, candidate (total_bits data isz) wmin wmax s -> satisfies flip_bools P data s ->
                         (length r <= length s)%nat) /\
    ((forall s, candidate (total_bits data isz) wmin wmax s -> ~ satisfies flip_bools P data s) ->
     res = Ok None).
  Proof.
    intros Hc Hr Hstd. pose proof (process_call_outcome cs rs i _ _ Hproc Hc Hr) as H. cbn [call_alone] in H.
    split; [eapply no_error; eassumption|]. split.
    - intro Hex. destruct (complete _ _ _ _ _ _ _ _ _ _ Hstd Hex H) as (r & -> & Hcand & Hsat).
      exists r. repeat split; try assumption; try apply Hcand. eapply minimal; eassumption.
    - intro Hno. eapply none; eassumption.
  Qed.

  Theorem process_call_bytes gomax maxconc data isz wmin wmax P ifail res :
    nth_error cs i = Some (PBytes gomax maxconc data isz wmin wmax P ifail) ->
    nth_error rs i = Some res ->
    std flip_bytes data isz wmin wmax gomax ifail ->
    (exists o, res = Ok o) /\
    ((exists s, candidate (total_bits data isz) wmin wmax s /\ satisfies flip_bytes P data s) ->
     exists r, res = Ok (Some r) /\ candidate (total_bits data isz) wmin wmax r /\
               satisfies flip_bytes P data r /\
               forall s, candidate (total_bits data isz) wmin wmax s -> satisfies flip_bytes P data s ->
                         (length r <= length s)%nat) /\
    ((forall s, candidate (total_bits data isz) wmin wmax s -> ~ satisfies flip_bytes P data s) ->
     res = Ok None).
  Proof.
    intros Hc Hr Hstd. pose proof (process_call_outcome cs rs i _ _ Hproc Hc Hr) as H. cbn [call_alone] in H.
    split; [eapply no_error; eassumption|]. split.
    - intro Hex. destruct (complete _ _ _ _ _ _ _ _ _ _ Hstd Hex H) as (r & -> & Hcand & Hsat).
      exists r. repeat split; try assumption; try apply Hcand. eapply minimal; eassumption.
    - intro Hno. eapply none; eassumption.
  Qed.
End AnyCall.
