(** Proofs about Model/TPM.v (the simulated TPM of
    pkg/bootflow/subsystems/trustchains/tpm). *)
From CSS Require Import Lib.Base Model.TPM.
From Coq Require Import ZifyBool ZifyNat.

(** * 1. Z-indexed lists *)

Lemma nthZ_neg {A} (l : list A) : forall i, i < 0 -> nthZ l i = None.
Proof.
  induction l as [|x t IH]; intros i Hi; cbn [nthZ]; [reflexivity|].
  destruct (i =? 0) eqn:E; [lia|]. apply IH; lia.
Qed.

Lemma nthZ_ge {A} (l : list A) : forall i, Z.of_nat (length l) <= i -> nthZ l i = None.
Proof.
  induction l as [|x t IH]; intros i Hi; cbn [nthZ]; [reflexivity|].
  cbn [length] in Hi. destruct (i =? 0) eqn:E; [lia|]. apply IH; lia.
Qed.

Lemma nthZ_lt {A} (l : list A) : forall i, 0 <= i < Z.of_nat (length l) -> exists x, nthZ l i = Some x.
Proof.
  induction l as [|x t IH]; intros i Hi; cbn [length] in Hi; [lia|].
  cbn [nthZ]. destruct (i =? 0) eqn:E; [eauto|]. apply IH; lia.
Qed.

Lemma nthZ_Some_range {A} (l : list A) i x : nthZ l i = Some x -> 0 <= i < Z.of_nat (length l).
Proof.
  intros Hn. destruct (Z_lt_dec i 0) as [Hneg|Hnn].
  - rewrite nthZ_neg in Hn by assumption. discriminate.
  - destruct (Z_le_dec (Z.of_nat (length l)) i) as [Hge|Hlt].
    + rewrite nthZ_ge in Hn by assumption. discriminate.
    + lia.
Qed.

Lemma nthZ_nth_error {A} (l : list A) : forall i, 0 <= i -> nthZ l i = nth_error l (Z.to_nat i).
Proof.
  induction l as [|x t IH]; intros i Hi; cbn [nthZ].
  - destruct (Z.to_nat i); reflexivity.
  - destruct (i =? 0) eqn:E.
    + assert (i = 0) by lia. subst. reflexivity.
    + rewrite IH by lia. replace (Z.to_nat i) with (S (Z.to_nat (i - 1))) by lia. reflexivity.
Qed.

Lemma length_updZ {A} (l : list A) : forall i x, length (updZ i x l) = length l.
Proof.
  induction l as [|y t IH]; intros i x; cbn [updZ]; [reflexivity|].
  destruct (i =? 0); cbn [length]; [reflexivity|]. rewrite IH. reflexivity.
Qed.

Lemma nthZ_updZ_same {A} (l : list A) : forall i x y, nthZ l i = Some y -> nthZ (updZ i x l) i = Some x.
Proof.
  induction l as [|z t IH]; intros i x y Hn; cbn [nthZ updZ] in *; [discriminate|].
  destruct (i =? 0) eqn:E; cbn [nthZ]; rewrite E; [reflexivity|]. eapply IH; eassumption.
Qed.

Lemma nthZ_updZ_other {A} (l : list A) : forall i j x, i <> j -> nthZ (updZ i x l) j = nthZ l j.
Proof.
  induction l as [|z t IH]; intros i j x Hij; cbn [nthZ updZ]; [reflexivity|].
  destruct (i =? 0) eqn:Ei; cbn [nthZ]; destruct (j =? 0) eqn:Ej; try reflexivity; try lia.
  apply IH. lia.
Qed.

Lemma updZ_nil_iff {A} (l : list A) i x : updZ i x l = [] <-> l = [].
Proof.
  split; intros Hl.
  - apply length_zero_iff_nil. rewrite <- (length_updZ l i x), Hl. reflexivity.
  - subst. reflexivity.
Qed.

(** * 2. get / set_bank *)

Lemma get_set_same pv p a old v :
  get pv p a = Ok old -> get (set_bank pv p a v) p a = Ok v.
Proof.
  unfold get, set_bank. destruct (nthZ pv p) as [banks|] eqn:Ep; [|discriminate].
  destruct (nthZ banks a) as [w|] eqn:Ea; [|discriminate]. intros _.
  rewrite (nthZ_updZ_same pv p _ banks Ep).
  rewrite (nthZ_updZ_same banks a v w Ea). reflexivity.
Qed.

Lemma get_set_other pv p a v p' a' :
  (p', a') <> (p, a) -> get (set_bank pv p a v) p' a' = get pv p' a'.
Proof.
  intros Hne. unfold get, set_bank. destruct (nthZ pv p) as [banks|] eqn:Ep; [|reflexivity].
  destruct (Z.eq_dec p p') as [->|Hp].
  - rewrite (nthZ_updZ_same pv p' _ banks Ep), Ep.
    rewrite nthZ_updZ_other; [reflexivity|]. intros ->. apply Hne. reflexivity.
  - rewrite nthZ_updZ_other by assumption. reflexivity.
Qed.

Lemma set_bank_nil_iff pv p a v : set_bank pv p a v = [] <-> pv = [].
Proof.
  unfold set_bank. destruct (nthZ pv p); [apply updZ_nil_iff|reflexivity].
Qed.

(** * 3. Histories *)

Definition is_reset (c : cmd) : bool :=
  match c with Reset | ResetNoInit => true | _ => false end.
Definition is_startup (c : cmd) : bool :=
  match c with Startup _ => true | _ => false end.
Definition no_reset (h : list cmd) : bool := forallb (fun c => negb (is_reset c)) h.

(** the event-log entries a history adds *)
Fixpoint events_of (h : list cmd) : list event :=
  match h with
  | [] => []
  | LogAdd p a d ty data :: t => EV p a d ty data :: events_of t
  | _ :: t => events_of t
  end.

(** 16-bit algorithm identifier (the only argument on which a panic could depend) *)
Definition cmd_in_range (c : cmd) : Prop :=
  match c with
  | Extend _ a _ => 0 <= a < 65536
  | _ => True
  end.

(** observable part of the state named by the property: everything but SupportedAlgos *)
Definition obs_eq (s1 s2 : state) : Prop :=
  pcrs s1 = pcrs s2 /\ cmdlog s1 = cmdlog s2 /\ evlog s1 = evlog s2.

(** Shape of every reachable state: not started, or 2 PCRs x 12 bank slots where
    the SHA1/SHA256 slots hold a value of the digest size and the others are empty. *)
Definition banks_ok (banks : list (list Z)) : Prop :=
  length banks = BANKS /\
  forall a v, nthZ banks a = Some v -> length v = if is_supported a then hsize a else 0%nat.
Definition wf (st : state) : Prop :=
  pcrs st = [] \/ (length (pcrs st) = PCR_AMOUNT /\ Forall banks_ok (pcrs st)).

Lemma init_pcrs_eq l : init_pcrs l = [init_banks 0 l; init_banks 1 l].
Proof. reflexivity. Qed.

Lemma init_banks_eq p l :
  init_banks p l = [[]; []; []; []; init_val 4 p l; []; []; []; []; []; []; init_val 11 p l].
Proof. reflexivity. Qed.

Lemma init_val_length a p l : is_supported a = true -> length (init_val a p l) = hsize a.
Proof.
  intros Hs. unfold is_supported, ALG_SHA1, ALG_SHA256 in Hs.
  assert (a = 4 \/ a = 11) as [-> | ->] by lia; destruct p; reflexivity.
Qed.

Lemma banks_ok_init p l : banks_ok (init_banks p l).
Proof.
  split; [reflexivity|]. intros a v Hn.
  pose proof (nthZ_Some_range _ _ _ Hn) as Hr. rewrite init_banks_eq in Hr. cbn [length] in Hr.
  assert (a = 0 \/ a = 1 \/ a = 2 \/ a = 3 \/ a = 4 \/ a = 5 \/ a = 6 \/ a = 7 \/ a = 8 \/ a = 9 \/ a = 10 \/ a = 11)
    as Hc by lia.
  rewrite init_banks_eq in Hn.
  repeat (destruct Hc as [-> | Hc]); try subst a; cbn in Hn; inversion Hn; subst v; try reflexivity;
    destruct p; reflexivity.
Qed.

Lemma banks_ok_updZ banks a v :
  banks_ok banks -> length v = (if is_supported a then hsize a else 0%nat) -> banks_ok (updZ a v banks).
Proof.
  intros [Hl Hb] Hv. split; [rewrite length_updZ; assumption|].
  intros a' w Hn. destruct (Z.eq_dec a a') as [<-|Hne].
  - destruct (nthZ banks a) as [w0|] eqn:E.
    + rewrite (nthZ_updZ_same banks a v w0 E) in Hn. inversion Hn; subst. assumption.
    + apply nthZ_Some_range in Hn. rewrite length_updZ in Hn.
      destruct (nthZ_lt banks a Hn) as [x Hx]. congruence.
  - rewrite nthZ_updZ_other in Hn by assumption. apply Hb. assumption.
Qed.

Lemma Forall_updZ {A} (P : A -> Prop) (l : list A) : forall i x,
  Forall P l -> P x -> Forall P (updZ i x l).
Proof.
  induction l as [|y t IH]; intros i x Hl Hx; cbn [updZ]; [constructor|].
  inversion Hl; subst. destruct (i =? 0); constructor; auto.
Qed.

Lemma Forall_nthZ {A} (P : A -> Prop) (l : list A) : forall i x,
  Forall P l -> nthZ l i = Some x -> P x.
Proof.
  induction l as [|y t IH]; intros i x Hl Hn; cbn [nthZ] in Hn; [discriminate|].
  inversion Hl; subst. destruct (i =? 0); [inversion Hn; subst; assumption|]. eapply IH; eassumption.
Qed.

Lemma is_supported_hash a : is_supported a = true -> is_hash a = true.
Proof.
  unfold is_supported, ALG_SHA1, ALG_SHA256. intros Hs.
  assert (a = 4 \/ a = 11) as [-> | ->] by lia; reflexivity.
Qed.

Lemma is_hash_small a : is_hash a = true -> 0 <= a < 12 -> is_supported a = true.
Proof.
  intros Hh Hr.
  assert (a = 0 \/ a = 1 \/ a = 2 \/ a = 3 \/ a = 4 \/ a = 5 \/ a = 6 \/ a = 7 \/ a = 8 \/ a = 9 \/ a = 10 \/ a = 11)
    as Hc by lia.
  repeat (destruct Hc as [-> | Hc]); try subst a; try reflexivity; cbv in Hh; discriminate.
Qed.

Lemma is_hash_range a : is_hash a = true -> 0 <= a < 65536.
Proof.
  unfold is_hash, hsize. intros Hh.
  destruct (a =? 4) eqn:E1; [lia|]. destruct (a =? 11) eqn:E2; [lia|].
  destruct (a =? 12) eqn:E3; [lia|]. destruct (a =? 13) eqn:E4; [lia|].
  destruct (a =? 39) eqn:E5; [lia|]. destruct (a =? 40) eqn:E6; [lia|].
  destruct (a =? 41) eqn:E7; [lia|]. cbn in Hh. discriminate.
Qed.

Section WithHash.
Variable H : Z -> list Z -> list Z.
Hypothesis H_length : forall a x, length (H a x) = hsize a.

(** ** Unfolding [step] command by command *)

Lemma step_startup st l :
  step H st (Startup l) =
  if initialized st then (log_cmd st (Startup l), Err ERR_ALREADY_INIT)
  else (set_pcrs (log_cmd st (Startup l)) (init_pcrs l), Ok tt).
Proof using. clear H_length. reflexivity. Qed.

Lemma step_logadd st p a d ty data :
  step H st (LogAdd p a d ty data) =
  (log_event (log_cmd st (LogAdd p a d ty data)) (EV p a d ty data), Ok tt).
Proof using. clear H_length. reflexivity. Qed.

(** the result of a successful Extend, and nothing else is a success *)
Lemma step_extend_ok st p a d st' :
  step H st (Extend p a d) = (st', Ok tt) ->
  exists old, get (pcrs st) p a = Ok old /\ length old = hsize a /\ is_hash a = true /\
              st' = set_pcrs (log_cmd st (Extend p a d)) (set_bank (pcrs st) p a (H a (old ++ d))).
Proof using. clear H_length.
  cbn [step apply]. destruct ((a <? 0) || (POOL_SIZE <=? a)); [intros Hs; inversion Hs|].
  destruct (is_hash a) eqn:Hh; cbn [negb]; [|intros Hs; inversion Hs].
  cbn [log_cmd pcrs]. destruct (get (pcrs st) p a) as [old|e| |] eqn:Hg; try (intros Hs; inversion Hs; fail).
  destruct (Nat.eqb (length old) (hsize a)) eqn:Hl; [|intros Hs; inversion Hs].
  intros Hs. inversion Hs. exists old. apply Nat.eqb_eq in Hl. auto.
Qed.

(** a command that does not succeed only grows the command log *)
Lemma step_not_ok st c st' r :
  step H st c = (st', r) -> r <> Ok tt -> is_reset c = false /\ st' = log_cmd st c.
Proof using. clear H_length.
  destruct c as [l|p a d|p a d ty data| |]; intros Hs Hr.
  - rewrite step_startup in Hs. destruct (initialized st); inversion Hs; subst; [auto|congruence].
  - cbn [step apply] in Hs. split; [reflexivity|].
    destruct ((a <? 0) || (POOL_SIZE <=? a)); [inversion Hs; reflexivity|].
    destruct (negb (is_hash a)); [inversion Hs; reflexivity|].
    cbn [log_cmd pcrs] in Hs.
    destruct (get (pcrs st) p a) as [old|e| |]; try (inversion Hs; reflexivity).
    destruct (Nat.eqb (length old) (hsize a)); inversion Hs; subst; [congruence|reflexivity].
  - rewrite step_logadd in Hs. inversion Hs; subst. congruence.
  - cbn in Hs. inversion Hs; subst. congruence.
  - cbn in Hs. inversion Hs; subst. congruence.
Qed.

(** ** Startup *)

Lemma startup_outcome st l :
  snd (step H st (Startup l)) = if initialized st then Err ERR_ALREADY_INIT else Ok tt.
Proof using. clear H_length. rewrite step_startup. destruct (initialized st); reflexivity. Qed.

Lemma initialized_step st c :
  is_reset c = false ->
  initialized (fst (step H st c)) = initialized st || is_startup c.
Proof using. clear H_length.
  destruct c as [l|p a d|p a d ty data| |]; intros Hr; try discriminate.
  - rewrite step_startup. destruct (initialized st) eqn:Hi; cbn [fst]; [exact Hi|reflexivity].
  - destruct (step H st (Extend p a d)) as [st' r] eqn:Hs. cbn [fst is_startup]. rewrite orb_false_r.
    destruct r as [[]|e| |].
    + apply step_extend_ok in Hs. destruct Hs as (old & _ & _ & _ & ->).
      unfold initialized. cbn [set_pcrs pcrs].
      destruct (pcrs st) eqn:Ep.
      * assert (set_bank [] p a (H a (old ++ d)) = []) as -> by (apply set_bank_nil_iff; reflexivity). reflexivity.
      * destruct (set_bank (l :: l0) p a (H a (old ++ d))) eqn:Es; [|reflexivity].
        apply set_bank_nil_iff in Es. discriminate.
    + apply step_not_ok in Hs; [|discriminate]. destruct Hs as [_ ->]. reflexivity.
    + apply step_not_ok in Hs; [|discriminate]. destruct Hs as [_ ->]. reflexivity.
    + apply step_not_ok in Hs; [|discriminate]. destruct Hs as [_ ->]. reflexivity.
  - rewrite step_logadd. cbn [fst is_startup]. rewrite orb_false_r. reflexivity.
Qed.

Lemma initialized_run st h :
  no_reset h = true ->
  initialized (run H st h) = initialized st || existsb is_startup h.
Proof using. clear H_length.
  revert st. induction h as [|c t IH]; intros st Hn; cbn [run existsb].
  - rewrite orb_false_r. reflexivity.
  - cbn [no_reset forallb] in Hn. apply andb_true_iff in Hn. destruct Hn as [Hc Ht].
    rewrite IH by exact Ht. rewrite initialized_step by (destruct (is_reset c); [discriminate|reflexivity]).
    rewrite orb_assoc. reflexivity.
Qed.

(** startup succeeds exactly once: in a history without resets run on a new
    TPM, a startup command succeeds iff no startup was executed before it *)
Lemma startup_once h l :
  no_reset h = true ->
  (snd (step H (run H fresh h) (Startup l)) = Ok tt <-> forall l', ~ In (Startup l') h).
Proof using. clear H_length.
  intros Hn. rewrite startup_outcome, (initialized_run fresh h Hn). cbn [initialized fresh pcrs orb].
  destruct (existsb is_startup h) eqn:He.
  - split; [discriminate|]. intros Hno. apply existsb_exists in He. destruct He as ([l'| | | |] & Hin & Hs); try discriminate.
    exfalso. eapply Hno. exact Hin.
  - split; [|reflexivity]. intros _ l' Hin.
    assert (existsb is_startup h = true) by (apply existsb_exists; exists (Startup l'); auto). congruence.
Qed.

Lemma startup_values st l st' :
  step H st (Startup l) = (st', Ok tt) ->
  (forall a, is_supported a = true ->
     get (pcrs st') 0 a = Ok (repeat 0 (hsize a - 1) ++ [l]) /\
     get (pcrs st') 1 a = Ok (repeat 0 (hsize a))) /\
  (forall p a, p = 0 \/ p = 1 -> 0 <= a < 12 -> is_supported a = false -> get (pcrs st') p a = Ok []) /\
  (forall p a, p < 0 \/ 2 <= p \/ a < 0 \/ 12 <= a -> exists e, get (pcrs st') p a = Err e).
Proof using. clear H_length.
  rewrite step_startup. destruct (initialized st); intros Hs; inversion Hs; subst; clear Hs.
  cbn [set_pcrs pcrs]. split; [|split].
  - intros a Ha. unfold is_supported, ALG_SHA1, ALG_SHA256 in Ha.
    assert (a = 4 \/ a = 11) as [-> | ->] by lia; split; reflexivity.
  - intros p a Hp Ha Hs.
    assert (a = 0 \/ a = 1 \/ a = 2 \/ a = 3 \/ a = 4 \/ a = 5 \/ a = 6 \/ a = 7 \/ a = 8 \/ a = 9 \/ a = 10 \/ a = 11)
      as Hc by lia.
    destruct Hp as [-> | ->];
      repeat (destruct Hc as [-> | Hc]); try subst a; try reflexivity; cbv in Hs; discriminate.
  - intros p a Hr. unfold get.
    destruct (nthZ (init_pcrs l) p) as [banks|] eqn:Ep; [|eauto].
    pose proof (nthZ_Some_range _ _ _ Ep) as Hpr. rewrite init_pcrs_eq in Hpr, Ep. cbn [length] in Hpr.
    assert (banks = init_banks 0 l \/ banks = init_banks 1 l) as Hb.
    { assert (p = 0 \/ p = 1) as [-> | ->] by lia; cbn in Ep; inversion Ep; auto. }
    destruct (nthZ banks a) as [v|] eqn:Ea; [|eauto].
    apply nthZ_Some_range in Ea. destruct Hb as [-> | ->]; rewrite init_banks_eq in Ea; cbn [length] in Ea; lia.
Qed.

(** ** Extend *)

Lemma extend_frame st p a d st' :
  step H st (Extend p a d) = (st', Ok tt) ->
  exists old,
    get (pcrs st) p a = Ok old /\
    get (pcrs st') p a = Ok (H a (old ++ d)) /\
    (forall p' a', (p', a') <> (p, a) -> get (pcrs st') p' a' = get (pcrs st) p' a') /\
    algos st' = algos st /\ evlog st' = evlog st.
Proof using. clear H_length.
  intros Hs. apply step_extend_ok in Hs. destruct Hs as (old & Hg & _ & _ & ->).
  exists old. cbn [set_pcrs log_cmd pcrs algos evlog]. repeat split.
  - exact Hg.
  - eapply get_set_same. exact Hg.
  - intros p' a' Hne. apply get_set_other. exact Hne.
Qed.

(** ** Well-formedness is an invariant *)

Lemma wf_fresh : wf fresh.
Proof using. clear H_length. left. reflexivity. Qed.

Lemma wf_step st c : wf st -> wf (fst (step H st c)).
Proof using H_length.
  intros Hw. destruct (step H st c) as [st' r] eqn:Hs. cbn [fst].
  assert (r = Ok tt \/ r <> Ok tt) as [-> | Hr].
  { destruct r as [[]|e| |]; [left; reflexivity|right; discriminate ..]. }
  - destruct c as [l|p a d|p a d ty data| |].
    + rewrite step_startup in Hs. destruct (initialized st); inversion Hs; subst.
      right. cbn [set_pcrs pcrs]. split; [reflexivity|]. rewrite init_pcrs_eq.
      repeat constructor; apply banks_ok_init.
    + apply step_extend_ok in Hs. destruct Hs as (old & Hg & Hl & Hh & ->).
      unfold wf. cbn [set_pcrs pcrs].
      unfold get in Hg. destruct (nthZ (pcrs st) p) as [banks|] eqn:Ep; [|discriminate].
      destruct (nthZ banks a) as [w|] eqn:Ea; [|discriminate].
      destruct Hw as [Hw | [Hlen Hall]]; [rewrite Hw in Ep; discriminate|].
      right. unfold set_bank. rewrite Ep. split; [rewrite length_updZ; exact Hlen|].
      apply Forall_updZ; [exact Hall|].
      pose proof (Forall_nthZ _ _ _ _ Hall Ep) as Hb.
      apply banks_ok_updZ; [exact Hb|].
      destruct Hb as [Hbl _]. apply nthZ_Some_range in Ea. rewrite Hbl in Ea. unfold BANKS in Ea.
      rewrite (is_hash_small a Hh) by lia. apply H_length.
    + rewrite step_logadd in Hs. inversion Hs; subst. exact Hw.
    + cbn in Hs. inversion Hs; subst. apply wf_fresh.
    + cbn in Hs. inversion Hs; subst. left. reflexivity.
  - apply step_not_ok in Hs; [|exact Hr]. destruct Hs as [_ ->]. exact Hw.
Qed.

Lemma wf_run st h : wf st -> wf (run H st h).
Proof using H_length.
  revert st. induction h as [|c t IH]; intros st Hw; cbn [run]; [exact Hw|].
  apply IH. apply wf_step. exact Hw.
Qed.

(** On a well-formed state an in-range Extend succeeds iff the TPM is started,
    the PCR exists and the algorithm has a bank; otherwise it is an error
    (never a panic). *)
Lemma extend_outcome st p a d :
  wf st -> 0 <= a < 65536 ->
  if initialized st && (0 <=? p) && (p <? 2) && is_supported a
  then snd (step H st (Extend p a d)) = Ok tt
  else exists e, snd (step H st (Extend p a d)) = Err e.
Proof using. clear H_length.
  intros Hw Ha. cbn [step apply log_cmd pcrs].
  replace ((a <? 0) || (POOL_SIZE <=? a)) with false by (unfold POOL_SIZE; lia).
  destruct Hw as [Hnil | [Hlen Hall]].
  - unfold initialized. rewrite Hnil. cbn [andb].
    destruct (negb (is_hash a)); cbn [snd]; [eauto|]. cbn. eauto.
  - assert (initialized st = true) as -> by (unfold initialized; destruct (pcrs st); [discriminate|reflexivity]).
    cbn [andb].
    destruct ((0 <=? p) && (p <? 2)) eqn:Hp; cbn [andb].
    + destruct (nthZ_lt (pcrs st) p) as [banks Ep]; [rewrite Hlen; unfold PCR_AMOUNT; lia|].
      pose proof (Forall_nthZ _ _ _ _ Hall Ep) as [Hbl Hbv].
      destruct (is_supported a) eqn:Hs.
      * rewrite (is_supported_hash a Hs). cbn [negb].
        destruct (nthZ_lt banks a) as [v Ev].
        { rewrite Hbl. unfold BANKS, is_supported, ALG_SHA1, ALG_SHA256 in *. lia. }
        unfold get. rewrite Ep, Ev. pose proof (Hbv a v Ev) as Hv. rewrite Hs in Hv.
        rewrite Hv, Nat.eqb_refl. reflexivity.
      * destruct (is_hash a) eqn:Hh; cbn [negb snd]; [|eauto].
        assert (12 <= a) as Hge.
        { destruct (Z_lt_dec a 12); [|lia]. rewrite (is_hash_small a Hh) in Hs by lia. discriminate. }
        unfold get. rewrite Ep, (nthZ_ge banks a) by (rewrite Hbl; unfold BANKS; lia). cbn [snd]. eauto.
    + destruct (negb (is_hash a)); cbn [snd]; [eauto|].
      assert (nthZ (pcrs st) p = None) as Ep.
      { destruct (Z_lt_dec p 0); [apply nthZ_neg; assumption|apply nthZ_ge; rewrite Hlen; unfold PCR_AMOUNT; lia]. }
      unfold get. rewrite Ep. cbn [snd]. eauto.
Qed.

(** ** Failing commands *)

Lemma fail_unchanged st c st' e :
  step H st c = (st', Err e) ->
  pcrs st' = pcrs st /\ evlog st' = evlog st /\ algos st' = algos st /\ cmdlog st' = cmdlog st ++ [c].
Proof using. clear H_length.
  intros Hs. apply step_not_ok in Hs; [|discriminate]. destruct Hs as [_ ->]. auto.
Qed.

Lemma no_panic st c :
  cmd_in_range c -> snd (step H st c) <> Panic /\ snd (step H st c) <> OutOfFuel.
Proof using. clear H_length.
  destruct c as [l|p a d|p a d ty data| |]; intros Hr.
  - rewrite startup_outcome. destruct (initialized st); split; discriminate.
  - cbn [cmd_in_range] in Hr. cbn [step apply log_cmd pcrs].
    replace ((a <? 0) || (POOL_SIZE <=? a)) with false by (unfold POOL_SIZE; lia).
    destruct (negb (is_hash a)); cbn [snd]; [split; discriminate|].
    unfold get. destruct (nthZ (pcrs st) p) as [banks|]; cbn [snd]; [|split; discriminate].
    destruct (nthZ banks a) as [v|]; cbn [snd]; [|split; discriminate].
    destruct (Nat.eqb (length v) (hsize a)); cbn [snd]; split; discriminate.
  - rewrite step_logadd. split; discriminate.
  - cbn. split; discriminate.
  - cbn. split; discriminate.
Qed.

(** ** Logs *)

Lemma cmdlog_step st c :
  is_reset c = false -> cmdlog (fst (step H st c)) = cmdlog st ++ [c].
Proof using. clear H_length.
  intros Hr. destruct (step H st c) as [st' r] eqn:Hs. cbn [fst].
  assert (r = Ok tt \/ r <> Ok tt) as [-> | Hne].
  { destruct r as [[]|e| |]; [left; reflexivity|right; discriminate ..]. }
  - destruct c as [l|p a d|p a d ty data| |]; try discriminate.
    + rewrite step_startup in Hs. destruct (initialized st); inversion Hs; subst. reflexivity.
    + apply step_extend_ok in Hs. destruct Hs as (old & _ & _ & _ & ->). reflexivity.
    + rewrite step_logadd in Hs. inversion Hs; subst. reflexivity.
  - apply step_not_ok in Hs; [|exact Hne]. destruct Hs as [_ ->]. reflexivity.
Qed.

Lemma evlog_step st c :
  is_reset c = false -> evlog (fst (step H st c)) = evlog st ++ events_of [c].
Proof using. clear H_length.
  intros Hr. destruct (step H st c) as [st' r] eqn:Hs. cbn [fst].
  assert (r = Ok tt \/ r <> Ok tt) as [-> | Hne].
  { destruct r as [[]|e| |]; [left; reflexivity|right; discriminate ..]. }
  - destruct c as [l|p a d|p a d ty data| |]; try discriminate.
    + rewrite step_startup in Hs. destruct (initialized st); inversion Hs; subst.
      cbn [events_of set_pcrs log_cmd evlog]. rewrite app_nil_r. reflexivity.
    + apply step_extend_ok in Hs. destruct Hs as (old & _ & _ & _ & ->).
      cbn [events_of set_pcrs log_cmd evlog]. rewrite app_nil_r. reflexivity.
    + rewrite step_logadd in Hs. inversion Hs; subst. reflexivity.
  - pose proof Hs as Hs'. apply step_not_ok in Hs; [|exact Hne]. destruct Hs as [_ ->].
    destruct c as [l|p a d|p a d ty data| |]; try discriminate;
      cbn [events_of log_cmd evlog]; rewrite ?app_nil_r; try reflexivity.
    exfalso. apply Hne. rewrite step_logadd in Hs'. inversion Hs'. reflexivity.
Qed.

Lemma events_of_cons c t : events_of (c :: t) = events_of [c] ++ events_of t.
Proof using. clear H_length. destruct c; reflexivity. Qed.

Lemma log_exact st h :
  no_reset h = true ->
  cmdlog (run H st h) = cmdlog st ++ h /\ evlog (run H st h) = evlog st ++ events_of h.
Proof using. clear H_length.
  revert st. induction h as [|c t IH]; intros st Hn; cbn [run].
  - cbn [events_of]. rewrite !app_nil_r. auto.
  - cbn [no_reset forallb] in Hn. apply andb_true_iff in Hn. destruct Hn as [Hc Ht].
    assert (is_reset c = false) as Hr by (destruct (is_reset c); [discriminate|reflexivity]).
    destruct (IH (fst (step H st c)) Ht) as [IH1 IH2].
    rewrite IH1, IH2, cmdlog_step, evlog_step by exact Hr.
    rewrite <- !app_assoc. rewrite (events_of_cons c t). auto.
Qed.

Lemma run_app st h1 h2 : run H st (h1 ++ h2) = run H (run H st h1) h2.
Proof using. clear H_length.
  revert st. induction h1 as [|c t IH]; intros st; cbn [run app]; [reflexivity|]. apply IH.
Qed.

Lemma results_app st h1 h2 :
  results H st (h1 ++ h2) = results H st h1 ++ results H (run H st h1) h2.
Proof using. clear H_length.
  revert st. induction h1 as [|c t IH]; intros st; cbn [run results app]; [reflexivity|].
  rewrite IH. reflexivity.
Qed.

(** after a reset in the middle, the logs hold exactly what was executed since *)
Lemma log_after_reset st h1 c h2 :
  is_reset c = true -> no_reset h2 = true ->
  cmdlog (run H st (h1 ++ c :: h2)) = h2 /\ evlog (run H st (h1 ++ c :: h2)) = events_of h2.
Proof using. clear H_length.
  intros Hc Hn. rewrite run_app. cbn [run].
  destruct (log_exact (fst (step H (run H st h1) c)) h2 Hn) as [E1 E2]. rewrite E1, E2.
  destruct c; try discriminate; cbn; auto.
Qed.

(** ** Reset *)

Lemma reset_fresh st : step H st Reset = (fresh, Ok tt).
Proof using. clear H_length. reflexivity. Qed.

Lemma reset_run st h :
  run H st (Reset :: h) = run H fresh h /\ results H st (Reset :: h) = Ok tt :: results H fresh h.
Proof using. clear H_length. split; reflexivity. Qed.

(** [step] never reads SupportedAlgos: states that agree on PCRs and logs
    behave the same and keep agreeing *)
Lemma step_obs_eq s1 s2 c :
  obs_eq s1 s2 ->
  obs_eq (fst (step H s1 c)) (fst (step H s2 c)) /\ snd (step H s1 c) = snd (step H s2 c).
Proof using. clear H_length.
  intros (Hp & Hc & He). unfold obs_eq.
  destruct c as [l|p a d|p a d ty data| |].
  - rewrite !step_startup. unfold initialized. rewrite Hp.
    destruct (pcrs s2) eqn:E2; cbn [fst snd set_pcrs log_cmd pcrs cmdlog evlog]; repeat split; congruence.
  - cbn [step apply log_cmd pcrs]. rewrite Hp.
    destruct ((a <? 0) || (POOL_SIZE <=? a));
      [cbn [fst snd log_cmd pcrs cmdlog evlog]; repeat split; congruence|].
    destruct (negb (is_hash a));
      [cbn [fst snd log_cmd pcrs cmdlog evlog]; repeat split; congruence|].
    destruct (get (pcrs s2) p a) as [old|e| |];
      try (cbn [fst snd log_cmd pcrs cmdlog evlog]; repeat split; congruence).
    destruct (Nat.eqb (length old) (hsize a));
      cbn [fst snd set_pcrs log_cmd pcrs cmdlog evlog]; repeat split; congruence.
  - rewrite !step_logadd. cbn [fst snd log_event log_cmd pcrs cmdlog evlog]. repeat split; congruence.
  - cbn. auto.
  - cbn. auto.
Qed.

Lemma run_obs_eq h : forall s1 s2,
  obs_eq s1 s2 ->
  obs_eq (run H s1 h) (run H s2 h) /\ results H s1 h = results H s2 h.
Proof using. clear H_length.
  induction h as [|c t IH]; intros s1 s2 Ho; cbn [run results]; [auto|].
  destruct (step_obs_eq s1 s2 c Ho) as [Ho' Hr]. destruct (IH _ _ Ho') as [Hf Hres].
  rewrite Hr, Hres. auto.
Qed.

(** DoNotUse_ResetNoInit followed by a startup is indistinguishable, on PCR
    values, logs and outcomes, from a startup on a new TPM -- for every
    continuation [h] *)
Lemma reset_noinit_startup st l h :
  obs_eq (run H st (ResetNoInit :: Startup l :: h)) (run H fresh (Startup l :: h)) /\
  results H st (ResetNoInit :: Startup l :: h) = Ok tt :: results H fresh (Startup l :: h).
Proof using. clear H_length.
  change (run H st (ResetNoInit :: Startup l :: h)) with (run H blank (Startup l :: h)).
  change (results H st (ResetNoInit :: Startup l :: h)) with (Ok tt :: results H blank (Startup l :: h)).
  assert (obs_eq blank fresh) as Ho by (repeat split).
  destruct (run_obs_eq (Startup l :: h) blank fresh Ho) as [Hf Hr]. rewrite Hr. auto.
Qed.

End WithHash.

(** SupportedAlgos is NOT restored by DoNotUse_ResetNoInit + TPMInit: on that
    field the reused object differs from a new one (the function is documented
    as "does not set the state to a correct one"). *)
Lemma reset_noinit_algos_differ :
  exists H st l,
    algos (run H st [ResetNoInit; Startup l]) <> algos (run H fresh [Startup l]).
Proof.
  exists (fun _ _ => []), fresh, 3. cbn. discriminate.
Qed.
