(** Proofs for C04 — [ReadTXTRegisters] on configuration-space images of ANY length
    (model [read_regs]/[read_txt] in Model/Registers.v).

    - [read_regs_fitting]: every register of the table whose extent lies inside the image is in
      the collection, exactly once, with the little-endian value of the bytes of ITS extent —
      whatever happens to the other entries of the table (no hypothesis on their order);
    - [read_regs_sound]: nothing else is in the collection;
    - [read_regs_errors]: the error lists exactly the registers whose extent does not fit, with
      [io.EOF] when the image ends at or before the offset and [io.ErrUnexpectedEOF] inside;
    - [read_regs_ids], [read_regs_err_ids]: both lists are in table order, they partition the table;
    - [read_regs_extend]: appending bytes to an image keeps every register that was read;
    - [read_txt_register], [read_txt_errors], [read_txt_error_nil]: the same for the 16 registers
      of [txt_layout] (IDs pairwise distinct, extents pairwise disjoint, register area = 1056 bytes);
    - [read_regs_sparse_expand]: the sparse evaluation used by the correspondence cases is
      [read_regs] on the image the case denotes. *)
From Coq Require Import NArith Arith String List Lia Bool ZifyN ZifyNat ZifyBool.
From CSS Require Import Model.Registers Proofs.Registers.
Import ListNotations.
Open Scope N_scope.

(** * Vocabulary *)

Definition entry := (string * nat * nat)%type.
Definition e_id (e : entry) : string := fst (fst e).
Definition e_off (e : entry) : nat := snd (fst e).
Definition e_len (e : entry) : nat := snd e.
Definition ids (layout : list entry) : list string := map e_id layout.
(** the extent [off, off+n) of the entry lies inside the image *)
Definition fits (img : list N) (e : entry) : bool := Nat.leb (e_off e + e_len e) (length img).
(** the bytes of the extent, and their little-endian value *)
Definition extent_bytes (img : list N) (off n : nat) : list N := firstn n (skipn off img).
Definition le_at (img : list N) (off n : nat) : N := le_value (extent_bytes img off n).

Lemma read_le_fits img off n : (off + n <= length img)%nat -> read_le img off n = Some (le_at img off n).
Proof.
  intros H. unfold read_le. destruct (Nat.leb_spec (off + n) (length img)); [reflexivity|lia].
Qed.

Lemma read_le_Some_inv img off n v : read_le img off n = Some v ->
  (off + n <= length img)%nat /\ v = le_at img off n.
Proof.
  unfold read_le. destruct (Nat.leb_spec (off + n) (length img)) as [Hle|Hgt]; [|discriminate].
  intros Hv. injection Hv as <-. split; [assumption|reflexivity].
Qed.

(** * 1. The generic loop *)

Theorem read_regs_sound : forall layout img id v,
  In (id, v) (fst (read_regs layout img)) ->
  exists off n, In (id, off, n) layout /\ (off + n <= length img)%nat /\ v = le_at img off n.
Proof.
  induction layout as [|[[i o] n] t IH]; intros img id v H; cbn [read_regs fst] in H; [contradiction|].
  destruct (read_le img o n) as [w|] eqn:E; cbn [fst] in H.
  - destruct H as [H|H].
    + injection H as -> ->. apply read_le_Some_inv in E. destruct E as [E1 E2].
      exists o, n. split; [left; reflexivity|]. split; assumption.
    + destruct (IH img id v H) as (off & m & Hin & Hf & Hv).
      exists off, m. split; [right; exact Hin|]. split; assumption.
  - destruct (IH img id v H) as (off & m & Hin & Hf & Hv).
    exists off, m. split; [right; exact Hin|]. split; assumption.
Qed.

Lemma read_regs_complete : forall layout img id off n,
  In (id, off, n) layout -> (off + n <= length img)%nat ->
  In (id, le_at img off n) (fst (read_regs layout img)).
Proof.
  induction layout as [|[[i o] m] t IH]; intros img id off n Hin Hf; [contradiction|].
  cbn [read_regs]. destruct Hin as [Hin|Hin].
  - injection Hin as -> -> ->. rewrite (read_le_fits _ _ _ Hf). left. reflexivity.
  - specialize (IH img id off n Hin Hf).
    destruct (read_le img o m); cbn [fst]; [right|]; exact IH.
Qed.

Lemma nodup_ids_functional : forall layout id off n off' n',
  NoDup (ids layout) -> In (id, off, n) layout -> In (id, off', n') layout -> off = off' /\ n = n'.
Proof.
  induction layout as [|[[i o] m] t IH]; intros id off n off' n' Hnd H1 H2; [contradiction|].
  cbn [ids map] in Hnd. inversion Hnd as [|x l Hni Hnd']; subst.
  assert (Hid : forall o1 n1, In (id, o1, n1) t -> In id (ids t)).
  { intros o1 n1 H. unfold ids. change id with (e_id (id, o1, n1)). apply in_map. exact H. }
  destruct H1 as [H1|H1]; destruct H2 as [H2|H2].
  - injection H1 as <- <- <-. injection H2 as <- <-. split; reflexivity.
  - injection H1 as <- <- <-. exfalso. apply Hni. cbn [e_id fst]. eapply Hid, H2.
  - injection H2 as <- <- <-. exfalso. apply Hni. cbn [e_id fst]. eapply Hid, H1.
  - eapply IH; eassumption.
Qed.

(** The register is there, once, with the value of its own bytes — no hypothesis on any other
    entry of the table, on the order of the table, or on how long the image is beyond [off+n]. *)
Theorem read_regs_fitting : forall layout img id off n,
  NoDup (ids layout) -> In (id, off, n) layout -> (off + n <= length img)%nat ->
  In (id, le_at img off n) (fst (read_regs layout img)) /\
  forall w, In (id, w) (fst (read_regs layout img)) -> w = le_at img off n.
Proof.
  intros layout img id off n Hnd Hin Hf. split; [apply read_regs_complete; assumption|].
  intros w Hw. destruct (read_regs_sound _ _ _ _ Hw) as (o & m & Hin' & _ & ->).
  destruct (nodup_ids_functional _ _ _ _ _ _ Hnd Hin Hin') as [-> ->]. reflexivity.
Qed.

Theorem read_regs_errors : forall layout img id k,
  In (id, k) (snd (read_regs layout img)) <->
  exists off n, In (id, off, n) layout /\ (length img < off + n)%nat /\ k = read_err_of img off.
Proof.
  induction layout as [|[[i o] m] t IH]; intros img id k; cbn [read_regs].
  - cbn [snd]. split; [contradiction|]. intros (off & n & H & _). contradiction.
  - destruct (read_le img o m) as [w|] eqn:E; cbn [snd].
    + apply read_le_Some_inv in E. destruct E as [E _]. rewrite IH. split.
      * intros (off & n & H & Hf & Hk). exists off, n. split; [right; exact H|]. split; assumption.
      * intros (off & n & [H|H] & Hf & Hk).
        -- injection H as -> -> ->. lia.
        -- exists off, n. split; [exact H|]. split; assumption.
    + apply read_le_none in E. split.
      * intros [H|H].
        -- injection H as -> <-. exists o, m. split; [left; reflexivity|]. split; [exact E|reflexivity].
        -- apply IH in H. destruct H as (off & n & H & Hf & Hk).
           exists off, n. split; [right; exact H|]. split; assumption.
      * intros (off & n & [H|H] & Hf & Hk).
        -- injection H as -> -> ->. left. rewrite Hk. reflexivity.
        -- right. apply IH. exists off, n. split; [exact H|]. split; assumption.
Qed.

(** Both lists are in table order and together they are the table. *)
Theorem read_regs_ids : forall layout img,
  map fst (fst (read_regs layout img)) = ids (filter (fits img) layout).
Proof.
  induction layout as [|[[i o] m] t IH]; intros img; [reflexivity|].
  cbn [read_regs filter]. unfold fits at 1, read_le. cbn [e_off e_len fst snd].
  destruct (Nat.leb (o + m) (length img)); cbn [fst map ids]; [f_equal|]; apply IH.
Qed.

Theorem read_regs_err_ids : forall layout img,
  map fst (snd (read_regs layout img)) = ids (filter (fun e => negb (fits img e)) layout).
Proof.
  induction layout as [|[[i o] m] t IH]; intros img; [reflexivity|].
  cbn [read_regs filter]. unfold fits at 1, read_le. cbn [e_off e_len fst snd].
  destruct (Nat.leb (o + m) (length img)); cbn [negb snd map ids]; [|f_equal]; apply IH.
Qed.

Corollary read_regs_partition : forall layout img,
  (length (fst (read_regs layout img)) + length (snd (read_regs layout img)) = length layout)%nat.
Proof.
  induction layout as [|[[i o] m] t IH]; intros img; [reflexivity|].
  cbn [read_regs]. specialize (IH img).
  destruct (read_le img o m); cbn [fst snd length]; lia.
Qed.

Theorem read_regs_all_fit : forall layout img,
  (forall e, In e layout -> fits img e = true) ->
  snd (read_regs layout img) = [] /\ map fst (fst (read_regs layout img)) = ids layout.
Proof.
  intros layout img H. split.
  - destruct (snd (read_regs layout img)) as [|[id k] l] eqn:E; [reflexivity|].
    assert (Hin : In (id, k) (snd (read_regs layout img))) by (rewrite E; left; reflexivity).
    apply read_regs_errors in Hin. destruct Hin as (off & n & Hin & Hf & _).
    specialize (H _ Hin). unfold fits in H. cbn [e_off e_len fst snd] in H.
    apply Nat.leb_le in H. lia.
  - rewrite read_regs_ids. f_equal. clear - H.
    induction layout as [|e t IH]; [reflexivity|]. cbn [filter].
    rewrite (H e (or_introl eq_refl)). f_equal. apply IH. intros e' He'. apply H. right. exact He'.
Qed.

(** A longer image of which [img] is a prefix yields every register that [img] yields, with the
    same value. *)
Lemma extent_bytes_app img ext off n : (off + n <= length img)%nat ->
  extent_bytes (img ++ ext) off n = extent_bytes img off n.
Proof.
  intros H. unfold extent_bytes. rewrite skipn_app, firstn_app.
  replace (n - length (skipn off img))%nat with 0%nat by (rewrite skipn_length; lia).
  cbn [firstn]. apply app_nil_r.
Qed.

Theorem read_regs_extend : forall layout img ext id v,
  In (id, v) (fst (read_regs layout img)) -> In (id, v) (fst (read_regs layout (img ++ ext))).
Proof.
  intros layout img ext id v H. destruct (read_regs_sound _ _ _ _ H) as (off & n & Hin & Hf & ->).
  unfold le_at. rewrite <- (extent_bytes_app img ext off n Hf).
  apply read_regs_complete; [exact Hin|]. rewrite app_length. lia.
Qed.

(** * 2. The TXT table *)

Fixpoint nodupb (l : list string) : bool :=
  match l with
  | [] => true
  | x :: t => negb (existsb (String.eqb x) t) && nodupb t
  end.
Lemma nodupb_sound l : nodupb l = true -> NoDup l.
Proof.
  induction l as [|x t IH]; intros H; [constructor|].
  cbn [nodupb] in H. apply andb_true_iff in H. destruct H as [H1 H2]. constructor; [|apply IH, H2].
  intros Hin. apply negb_true_iff in H1.
  assert (existsb (String.eqb x) t = true); [|congruence].
  apply existsb_exists. exists x. split; [exact Hin|apply String.eqb_refl].
Qed.

Lemma txt_ids_nodup : NoDup (ids txt_layout).
Proof. apply nodupb_sound. vm_compute. reflexivity. Qed.

(** The extents of two different registers share no byte. *)
Definition disjoint_entries (a b : entry) : Prop :=
  (e_off a + e_len a <= e_off b \/ e_off b + e_len b <= e_off a)%nat.
Lemma txt_extents_disjoint : ForallOrdPairs disjoint_entries txt_layout.
Proof.
  unfold txt_layout.
  repeat (constructor; [repeat (constructor; [unfold disjoint_entries; cbn; lia|]); constructor|]).
  constructor.
Qed.

(** 1056 = 0x420 is the end of the last register (TXT.PUBLIC.KEY at 0x400, 32 bytes). *)
Lemma txt_all_fit img : (1056 <= length img)%nat -> forall e, In e txt_layout -> fits img e = true.
Proof.
  intros H e He. unfold fits. apply Nat.leb_le.
  assert (Hb : forallb (fun e => Nat.leb (e_off e + e_len e) 1056) txt_layout = true) by (vm_compute; reflexivity).
  rewrite forallb_forall in Hb. specialize (Hb e He). apply Nat.leb_le in Hb. lia.
Qed.

Theorem read_txt_register : forall img id off n,
  (forall b, In b img -> b < 256) ->
  In (id, off, n) txt_layout -> (off + n <= length img)%nat ->
  exists v, In (id, v) (fst (read_txt img)) /\
            (forall w, In (id, w) (fst (read_txt img)) -> w = v) /\
            v < 256 ^ N.of_nat n /\
            forall i, (i < n)%nat -> (v / 256 ^ N.of_nat i) mod 256 = nth (off + i) img 0.
Proof.
  intros img id off n Hb Hin Hf. exists (le_at img off n).
  destruct (read_regs_fitting txt_layout img id off n txt_ids_nodup Hin Hf) as [H1 H2].
  split; [exact H1|]. split; [exact H2|].
  pose proof (read_le_some img off n _ Hb (read_le_fits _ _ _ Hf)) as (_ & Hv & Hd).
  split; assumption.
Qed.

Theorem read_txt_errors : forall img id k,
  In (id, k) (snd (read_txt img)) <->
  exists off n, In (id, off, n) txt_layout /\ (length img < off + n)%nat /\ k = read_err_of img off.
Proof. intros. apply read_regs_errors. Qed.

(** [ReadTXTRegisters] returns a nil error exactly for images that hold the whole register area. *)
Theorem read_txt_error_nil : forall img, snd (read_txt img) = [] <-> (1056 <= length img)%nat.
Proof.
  intros img. split.
  - intros H. destruct (Nat.le_gt_cases 1056 (length img)) as [Hl|Hl]; [exact Hl|]. exfalso.
    assert (Hin : In ("TXT.PUBLIC.KEY"%string, read_err_of img 1024) (snd (read_txt img))).
    { apply read_txt_errors. exists 1024%nat, 32%nat. split; [|split; [lia|reflexivity]].
      unfold txt_layout. do 4 right. left. reflexivity. }
    rewrite H in Hin. contradiction.
  - intros H. apply (read_regs_all_fit txt_layout img (txt_all_fit img H)).
Qed.

Theorem read_txt_complete : forall img, (1056 <= length img)%nat ->
  snd (read_txt img) = [] /\ map fst (fst (read_txt img)) = ids txt_layout.
Proof. intros img H. apply (read_regs_all_fit txt_layout img (txt_all_fit img H)). Qed.

(** * 3. Examples: the table is NOT ordered by offset *)

(** An image that stops right in front of TXT.PUBLIC.KEY (0x400 bytes): the fifth entry of the
    table fails with io.EOF, the eleven entries after it are read all the same. *)
Example ex_read_txt_0x400 :
  map fst (fst (read_txt (repeat 7 1024))) =
    ["ACM_POLICY_STATUS"; "ACM_STATUS"; "TXT.DPR"; "TXT.ERRORCODE"; "TXT.STS"; "TXT.ESTS"; "TXT.SPAD";
     "TXT.VER.FSBIF"; "TXT.VER.EMIF"; "TXT.DIDVID"; "TXT.SINIT.BASE"; "TXT.SINIT.SIZE"; "TXT.MLE.JOIN";
     "TXT.HEAP.BASE"; "TXT.HEAP.SIZE"]%string /\
  snd (read_txt (repeat 7 1024)) = [("TXT.PUBLIC.KEY"%string, ErrEOF)].
Proof. vm_compute. split; reflexivity. Qed.

(** 0x37a bytes: ACM_POLICY_STATUS (first entry, 0x378..0x380) is cut in the middle, everything
    below 0x378 is read: TXT.ESTS is the byte at 8, TXT.ERRORCODE the four bytes at 0x30. *)
Example ex_read_txt_0x37a :
  snd (read_txt (repeat 7 890)) =
    [("ACM_POLICY_STATUS"%string, ErrUnexpectedEOF); ("TXT.PUBLIC.KEY"%string, ErrEOF)] /\
  In ("TXT.ESTS"%string, 7) (fst (read_txt (repeat 7 890))) /\
  In ("TXT.ERRORCODE"%string, 117901063) (fst (read_txt (repeat 7 890))) /\
  length (fst (read_txt (repeat 7 890))) = 14%nat.
Proof. vm_compute. intuition. Qed.

(** the empty image: sixteen failures, all io.EOF, in table order *)
Example ex_read_txt_empty :
  fst (read_txt []) = [] /\ map fst (snd (read_txt [])) = ids txt_layout /\
  forallb (fun p => match snd p with ErrEOF => true | _ => false end) (snd (read_txt [])) = true.
Proof. vm_compute. intuition. Qed.

(** * 4. The sparse evaluation of the correspondence cases is the model *)

From CSS Require Model.RegistersCases.
Module RC := CSS.Model.RegistersCases.

Lemma skipn_seq_reg : forall k s len, skipn k (seq s len) = seq (s + k) (len - k).
Proof.
  induction k as [|k IH]; intros s len.
  - rewrite Nat.add_0_r, Nat.sub_0_r. reflexivity.
  - destruct len as [|len]; [reflexivity|]. cbn [seq skipn]. rewrite IH.
    replace (S s + k)%nat with (s + S k)%nat by lia. reflexivity.
Qed.

Lemma firstn_seq_reg : forall k s len, (k <= len)%nat -> firstn k (seq s len) = seq s k.
Proof.
  induction k as [|k IH]; intros s len H; [reflexivity|].
  destruct len as [|len]; [lia|]. cbn [seq firstn]. f_equal. apply IH. lia.
Qed.

Lemma extent_bytes_expand len bytes off n : (off + n <= len)%nat ->
  extent_bytes (RC.expand len bytes) off n = map (fun i => RC.byte_at bytes (N.of_nat i)) (seq off n).
Proof.
  intros H. unfold extent_bytes, RC.expand. rewrite skipn_map, firstn_map, skipn_seq_reg.
  rewrite firstn_seq_reg by lia. reflexivity.
Qed.

Lemma le_sparse_seq bytes : forall n off,
  RC.le_sparse bytes (N.of_nat off) n = le_value (map (fun i => RC.byte_at bytes (N.of_nat i)) (seq off n)).
Proof.
  induction n as [|n IH]; intros off; [reflexivity|].
  cbn [RC.le_sparse seq map le_value]. rewrite <- IH.
  replace (N.of_nat off + 1) with (N.of_nat (S off)) by lia. reflexivity.
Qed.

Lemma expand_length len bytes : length (RC.expand len bytes) = len.
Proof. unfold RC.expand. rewrite map_length, seq_length. reflexivity. Qed.

Lemma read_sparse_expand len bytes off n :
  RC.read_sparse len bytes off n = read_le (RC.expand (N.to_nat len) bytes) off n.
Proof.
  unfold RC.read_sparse, read_le. rewrite expand_length.
  destruct (N.leb_spec (N.of_nat (off + n)) len) as [H|H];
    destruct (Nat.leb_spec (off + n) (N.to_nat len)) as [H'|H']; try lia; [|reflexivity].
  f_equal. rewrite le_sparse_seq. fold (extent_bytes (RC.expand (N.to_nat len) bytes) off n).
  rewrite extent_bytes_expand by exact H'. reflexivity.
Qed.

(** What a [CRead] case is checked against IS the model [read_regs] run on the image of
    [len] bytes that the case describes. *)
Theorem read_regs_sparse_expand : forall layout len bytes,
  RC.read_regs_sparse layout len bytes = read_regs layout (RC.expand (N.to_nat len) bytes).
Proof.
  induction layout as [|[[i o] m] t IH]; intros len bytes; [reflexivity|].
  cbn [RC.read_regs_sparse read_regs]. rewrite IH, read_sparse_expand.
  destruct (read_le (RC.expand (N.to_nat len) bytes) o m); [reflexivity|].
  f_equal. f_equal. f_equal. unfold RC.err_sparse, read_err_of. rewrite expand_length.
  destruct (N.leb_spec len (N.of_nat o)); destruct (Nat.leb_spec (N.to_nat len) o); try lia; reflexivity.
Qed.
