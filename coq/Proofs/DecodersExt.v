(** C15 — second part of the proofs: exact "value iff the bytes are there"
    characterisations of the fixed-layout decoders (ValueFromBytes after the
    repair 4a8d65e, the sixteen registers.Read* functions, ReadTXTRegisters,
    LookupACMSize, ParseTXTRegs), and the models of Model/DecodersExt.v (PEM
    block loops over observed pem.Decode calls, GetRegion / CalcImageOffset
    arithmetic, the file decisions of tpmdetection.local).  The statements used
    by Props/C15.v are the [Q_*] lemmas. *)
From CSS Require Import Lib.Base Model.Decoders Model.DecodersExt.
From CSS Require Import Proofs.Decoders.
From Coq Require Import Lia ZArith List Bool.

(** * exact behaviour of a fixed-size read *)

Lemma takeZ_none : forall l n, takeZ l n = None -> lenZ l < n.
Proof.
  intros l n H. destruct (has_len l n) eqn:E.
  - destruct (has_len_takeZ l n E) as (a & r & T). congruence.
  - destruct (Z_lt_le_dec (lenZ l) n) as [L|L]; [exact L|]. apply has_len_true in L. congruence.
Qed.

Lemma read_n_fits n s : 0 < n -> n <= lenZ (s_rest s) ->
  exists a r, s_rest s = a ++ r /\ lenZ a = n /\ read_n n s = ROk a (set_rest (tick s) r).
Proof.
  intros Hn Hl. unfold read_n. destruct (n <=? 0) eqn:E; [apply Z.leb_le in E; lia|].
  destruct (takeZ (s_rest s) n) as [[a r]|] eqn:T.
  - destruct (takeZ_some _ _ _ _ T) as (E1 & _ & _ & E4).
    exists a, r. split; [exact E1|]. split; [lia|].
    destruct (s_rest s) eqn:R; [|reflexivity]. unfold lenZ in Hl. cbn in Hl. lia.
  - apply takeZ_none in T. lia.
Qed.

Lemma read_n_short n s : 0 < n -> lenZ (s_rest s) < n ->
  exists s', read_n n s = RErr (if lenZ (s_rest s) =? 0 then E_EOF else E_UEOF) s'.
Proof.
  intros Hn Hl. unfold read_n. destruct (n <=? 0) eqn:E; [apply Z.leb_le in E; lia|].
  destruct (s_rest s) as [|x t] eqn:R.
  - cbn. eauto.
  - destruct (takeZ (x :: t) n) as [[a r]|] eqn:T.
    + destruct (takeZ_some _ _ _ _ T) as (E1 & _ & _ & E4).
      assert (lenZ (x :: t) = lenZ a + lenZ r) by (rewrite E1 at 1; unfold lenZ; rewrite app_length; lia).
      pose proof (lenZ_nonneg r). lia.
    + assert (Hz : lenZ (x :: t) =? 0 = false) by (apply Z.eqb_neq; unfold lenZ; cbn [length]; lia).
      rewrite Hz. eauto.
Qed.

(** [Seek(off); binary.Read(w bytes)] on a reader over [d] *)
Lemma seek_read_fits d off w s : 0 <= off -> 0 < w -> off + w <= lenZ d ->
  exists a r, dropZ d off = a ++ r /\ lenZ a = w /\
    bind (seek d off) (fun _ => read_n w) s = ROk a (set_rest (tick s) r).
Proof.
  intros Ho Hw Hl. unfold bind at 1, seek.
  destruct (read_n_fits w (set_rest s (dropZ d off)) Hw) as (a & r & E1 & E2 & E3).
  { cbn [set_rest s_rest]. rewrite dropZ_lenZ by lia. lia. }
  exists a, r. cbn [set_rest s_rest] in E1. repeat split; auto.
Qed.
Lemma seek_read_short d off w s : 0 <= off -> 0 < w -> lenZ d < off + w ->
  exists s', bind (seek d off) (fun _ => read_n w) s = RErr (if lenZ d <=? off then E_EOF else E_UEOF) s'.
Proof.
  intros Ho Hw Hl. unfold bind at 1, seek.
  destruct (read_n_short w (set_rest s (dropZ d off)) Hw) as (s' & E).
  { cbn [set_rest s_rest]. rewrite dropZ_lenZ by lia. lia. }
  exists s'. rewrite E. cbn [set_rest s_rest]. rewrite dropZ_lenZ by lia.
  destruct (lenZ d <=? off) eqn:C; [apply Z.leb_le in C | apply Z.leb_gt in C].
  - replace (Z.max 0 (lenZ d - off)) with 0 by lia. reflexivity.
  - destruct (Z.max 0 (lenZ d - off) =? 0) eqn:C2; [apply Z.eqb_eq in C2; lia | reflexivity].
Qed.

(** * registers.ValueFromBytes: a value iff the byte count is the register's width *)

Lemma lookup_width : forall id w, lookup_id id reg_width_table = Some w -> w = 8 \/ w = 4 \/ w = 1.
Proof.
  intros id w. unfold reg_width_table. cbn [lookup_id].
  repeat match goal with
  | |- (if ?c then _ else _) = _ -> _ => destruct c; [intros H; inversion H; lia|]
  end. discriminate.
Qed.

(** the value the call returns *)
Definition vfb_value (id b : list Z) : list Z :=
  if zlist_eqb id ID_PUBKEY then b
  else [if zlist_eqb id ID_ACM_STATUS then le_val b mod 4294967296 else le_val b].

Lemma vfb_g_exact_at strict id b s : s_rest s = b ->
  outcome_of (value_from_bytes_g strict id b s) =
    match reg_width id with
    | None => Err E_OTHER
    | Some w =>
        if lenZ b =? w then Ok (vfb_value id b)
        else if lenZ b <? w then Err (if zlist_eqb id ID_PUBKEY then E_OTHER else if lenZ b =? 0 then E_EOF else E_UEOF)
        else if strict || zlist_eqb id ID_PUBKEY then Err E_OTHER
        else Ok [let v := le_val (firstn (Z.to_nat w) b) in if zlist_eqb id ID_ACM_STATUS then v mod 4294967296 else v]
    end.
Proof.
  intros Hs. unfold value_from_bytes_g, reg_width, vfb_value. destruct (zlist_eqb id ID_PUBKEY) eqn:EP.
  - destruct (lenZ b =? 32) eqn:E32; [reflexivity|]. cbn. rewrite orb_true_r. destruct (lenZ b <? 32); reflexivity.
  - destruct (lookup_id id reg_width_table) as [w|] eqn:EL; [|reflexivity].
    pose proof (lookup_width _ _ EL) as HW. assert (Hw : 0 < w) by lia.
    rewrite orb_false_r.
    destruct (Z_lt_le_dec (lenZ b) w) as [L|L].
    + destruct (read_n_short w s Hw) as (s' & E); [rewrite Hs; exact L|]. rewrite Hs in E.
      unfold read_le, bind at 1. unfold bind at 1. rewrite E. cbn [outcome_of].
      destruct (lenZ b =? w) eqn:C; [apply Z.eqb_eq in C; lia|].
      destruct (lenZ b <? w) eqn:C2; [reflexivity | apply Z.ltb_ge in C2; lia].
    + destruct (read_n_fits w s Hw) as (a & r & E1 & E2 & E3); [rewrite Hs; exact L|]. rewrite Hs in E1.
      unfold read_le, bind at 1. unfold bind at 1. rewrite E3. unfold ret at 1.
      assert (HL : lenZ b = w + lenZ r) by (rewrite E1; unfold lenZ in *; rewrite app_length; lia).
      destruct (lenZ b =? w) eqn:C; [apply Z.eqb_eq in C | apply Z.eqb_neq in C].
      * assert (r = []) by (destruct r; [reflexivity | unfold lenZ in *; cbn [length] in *; lia]). subst r.
        rewrite app_nil_r in E1. subst a.
        assert (Hlt : w <? lenZ b = false) by (apply Z.ltb_ge; lia). rewrite Hlt, andb_false_r. reflexivity.
      * assert (Hlt : w <? lenZ b = true) by (apply Z.ltb_lt; pose proof (lenZ_nonneg r); lia). rewrite Hlt, andb_true_r.
        destruct (lenZ b <? w) eqn:C2; [apply Z.ltb_lt in C2; lia|].
        destruct strict; [reflexivity|]. cbn [outcome_of ret].
        assert (Ha : firstn (Z.to_nat w) b = a).
        { rewrite E1. unfold lenZ in E2. replace (Z.to_nat w) with (length a + 0)%nat by lia.
          rewrite firstn_app_2. cbn. now rewrite app_nil_r. }
        now rewrite Ha.
Qed.

Lemma vfb_g_exact strict id b :
  outcome_of (run (value_from_bytes_g strict id b) b) =
    match reg_width id with
    | None => Err E_OTHER
    | Some w =>
        if lenZ b =? w then Ok (vfb_value id b)
        else if lenZ b <? w then Err (if zlist_eqb id ID_PUBKEY then E_OTHER else if lenZ b =? 0 then E_EOF else E_UEOF)
        else if strict || zlist_eqb id ID_PUBKEY then Err E_OTHER
        else Ok [let v := le_val (firstn (Z.to_nat w) b) in if zlist_eqb id ID_ACM_STATUS then v mod 4294967296 else v]
    end.
Proof. unfold run. now apply vfb_g_exact_at. Qed.

(** the statement asked for: after 4a8d65e the call returns a value iff the
    number of bytes is exactly the register's width (and then it is the
    little-endian value of all of them, ACM_STATUS keeping the low 32 bits) *)
Lemma Q_vfb_value_iff_width : forall id b,
  ((exists v, outcome_of (run (value_from_bytes id b) b) = Ok v) <-> reg_width id = Some (lenZ b)) /\
  (reg_width id = Some (lenZ b) -> outcome_of (run (value_from_bytes id b) b) = Ok (vfb_value id b)).
Proof.
  intros id b. unfold value_from_bytes. rewrite (vfb_g_exact true id b). cbn [orb].
  destruct (reg_width id) as [w|]; [|split; [split; [intros [v H]; discriminate | discriminate] | discriminate]].
  destruct (lenZ b =? w) eqn:C; [apply Z.eqb_eq in C | apply Z.eqb_neq in C].
  - subst w. split; [split; eauto | reflexivity].
  - split; [split|]; try (intros H; inversion H; congruence).
    intros [v H]. destruct (lenZ b <? w); discriminate.
Qed.

(** ... what the repair changed: the strict check alters the result only for a
    value longer than the width, which used to be accepted (its tail ignored) *)
Lemma Q_vfb_fix_conservative : forall id b,
  outcome_of (run (value_from_bytes_g false id b) b) = outcome_of (run (value_from_bytes id b) b) \/
  (exists w v, reg_width id = Some w /\ w < lenZ b /\
     outcome_of (run (value_from_bytes_g false id b) b) = Ok v /\ outcome_of (run (value_from_bytes id b) b) = Err E_OTHER).
Proof.
  intros id b. unfold value_from_bytes. rewrite (vfb_g_exact true id b), (vfb_g_exact false id b). cbn [orb].
  destruct (reg_width id) as [w|]; [|now left].
  destruct (lenZ b =? w) eqn:C; [now left|]. destruct (lenZ b <? w) eqn:C2; [now left|].
  destruct (zlist_eqb id ID_PUBKEY); [now left|]. right.
  apply Z.eqb_neq in C. apply Z.ltb_ge in C2. exists w. eexists. split; [reflexivity|]. split; [lia|]. split; reflexivity.
Qed.

Definition ID_ESTS : list Z := [84; 88; 84; 46; 69; 83; 84; 83].
Lemma Q_vfb_needs_length_check :
  reg_width ID_ESTS = Some 1 /\
  outcome_of (run (value_from_bytes_g false ID_ESTS [1; 255]) [1; 255]) = Ok [1] /\
  outcome_of (run (value_from_bytes ID_ESTS [1; 255]) [1; 255]) = Err E_OTHER /\
  outcome_of (run (value_from_bytes ID_ESTS [1]) [1]) = Ok [1].
Proof. vm_compute. repeat split. Qed.

Lemma ex_vfb : reg_width ID_PUBKEY = Some 32 /\ reg_width ID_ACM_STATUS = Some 8 /\ reg_width [66; 79; 71; 85; 83] = None /\
  outcome_of (run (value_from_bytes ID_ACM_STATUS [1; 2; 3; 4; 5; 6; 7; 8]) [1; 2; 3; 4; 5; 6; 7; 8]) = Ok [67305985] /\
  outcome_of (run (value_from_bytes ID_ACM_STATUS [1; 2; 3; 4; 5; 6; 7]) [1; 2; 3; 4; 5; 6; 7]) = Err E_UEOF /\
  outcome_of (run (value_from_bytes ID_ACM_STATUS []) []) = Err E_EOF.
Proof. vm_compute. repeat split. Qed.

(** ** the legacy JSON document (Registers.UnmarshalJSON after encoding/json):
    accepted iff every entry carries exactly its register's width *)

(** the (id, value) entries of the framing the harness writes *)
Fixpoint json_entries (fuel : nat) (enc : list Z) : option (list (list Z * list Z)) :=
  match fuel with
  | O => None
  | S f =>
      match enc with
      | [] => Some []
      | il :: t =>
          match takeZ t il with
          | None => None
          | Some (id, t1) =>
              match t1 with
              | [] => None
              | vl :: t2 =>
                  match takeZ t2 vl with
                  | None => None
                  | Some (v, t3) =>
                      match json_entries f t3 with Some r => Some ((id, v) :: r) | None => None end
                  end
              end
          end
      end
  end.
Definition entry_width_ok (e : list Z * list Z) : Prop := reg_width (fst e) = Some (lenZ (snd e)).

Lemma vfb_at_ok_iff id v s : s_rest s = v ->
  ((exists r s', value_from_bytes id v s = ROk r s') <-> reg_width id = Some (lenZ v)).
Proof.
  intros Hs. pose proof (vfb_g_exact_at true id v s Hs) as H. fold (value_from_bytes id v) in H. cbn [orb] in H. split.
  - intros (r & s' & E). rewrite E in H. cbn [outcome_of] in H.
    destruct (reg_width id) as [w|]; [|discriminate].
    destruct (lenZ v =? w) eqn:C; [apply Z.eqb_eq in C; now subst|]. destruct (lenZ v <? w); discriminate.
  - intros E. rewrite E, Z.eqb_refl in H. destruct (value_from_bytes id v s) as [r s'| | |]; try discriminate. eauto.
Qed.

Lemma parse_registers_ok_iff : forall fuel enc acc s,
  ((exists v s', parse_registers fuel enc acc s = ROk v s') <->
   (exists es, json_entries fuel enc = Some es /\ Forall entry_width_ok es)).
Proof.
  induction fuel as [|f IH]; intros enc acc s; cbn [parse_registers json_entries].
  - split; [intros (v & s' & H); discriminate | intros (es & H & _); discriminate].
  - destruct enc as [|il t]. { split; [intros _; exists []; split; [reflexivity | constructor] | intros _; eauto]. }
    destruct (takeZ t il) as [[id t1]|]; [|split; [intros (v & s' & H); discriminate | intros (es & H & _); discriminate]].
    destruct t1 as [|vl t2]; [split; [intros (v & s' & H); discriminate | intros (es & H & _); discriminate]|].
    destruct (takeZ t2 vl) as [[v t3]|]; [|split; [intros (x & s' & H); discriminate | intros (es & H & _); discriminate]].
    pose proof (vfb_at_ok_iff id v (set_rest s v) eq_refl) as HV.
    destruct (value_from_bytes id v (set_rest s v)) as [r s1| | |] eqn:EV.
    + assert (HW : reg_width id = Some (lenZ v)) by (apply HV; eauto).
      rewrite (IH t3 _ s1). split.
      * intros (es & E & F). rewrite E. exists ((id, v) :: es). split; [reflexivity|]. constructor; [exact HW | exact F].
      * intros (es & E & F). destruct (json_entries f t3) as [r0|]; [|discriminate]. inversion E; subst.
        inversion F; subst. eauto.
    + split; [intros (x & s' & H); discriminate|]. intros (es & E & F).
      destruct (json_entries f t3) as [r0|]; [|discriminate]. inversion E; subst. inversion F as [|? ? HW _]; subst.
      unfold entry_width_ok in HW. cbn [fst snd] in HW. destruct HV as [_ HV]. destruct (HV HW) as (r & s' & X). discriminate.
    + split; [intros (x & s' & H); discriminate|]. intros (es & E & F).
      destruct (json_entries f t3) as [r0|]; [|discriminate]. inversion E; subst. inversion F as [|? ? HW _]; subst.
      unfold entry_width_ok in HW. cbn [fst snd] in HW. destruct HV as [_ HV]. destruct (HV HW) as (r & s' & X). discriminate.
    + split; [intros (x & s' & H); discriminate|]. intros (es & E & F).
      destruct (json_entries f t3) as [r0|]; [|discriminate]. inversion E; subst. inversion F as [|? ? HW _]; subst.
      unfold entry_width_ok in HW. cbn [fst snd] in HW. destruct HV as [_ HV]. destruct (HV HW) as (r & s' & X). discriminate.
Qed.

Lemma Q_json_value_iff_widths : forall enc,
  (exists v, outcome_of (run (parse_registers (S (length enc)) enc []) []) = Ok v) <->
  (exists es, json_entries (S (length enc)) enc = Some es /\ Forall entry_width_ok es).
Proof.
  intros enc. rewrite <- (parse_registers_ok_iff (S (length enc)) enc [] (mkSt [] 0 0)). unfold run. split.
  - intros [v H]. destruct (parse_registers (S (length enc)) enc [] (mkSt [] 0 0)) as [a s'| | |]; try discriminate. eauto.
  - intros (v & s' & E). rewrite E. exists v. reflexivity.
Qed.

(** two entries: TXT.ESTS = [1] and TXT.ESTS = [1; 255] (one byte too many) *)
Lemma ex_json : let e1 := [8] ++ ID_ESTS ++ [1; 1] in let e2 := [8] ++ ID_ESTS ++ [2; 1; 255] in
  json_entries (S (length (e1 ++ e1))) (e1 ++ e1) = Some [(ID_ESTS, [1]); (ID_ESTS, [1])] /\
  outcome_of (run (parse_registers (S (length (e1 ++ e1))) (e1 ++ e1) []) []) = Ok [1; 1; 1; 1] /\
  outcome_of (run (parse_registers (S (length (e1 ++ e2))) (e1 ++ e2) []) []) = Err E_OTHER.
Proof. vm_compute. repeat split. Qed.

(** * registers.Read*: a value iff the register lies inside the image *)

Lemma table_entry_pos : forall k off w sl,
  nth_error txt_reg_table k = Some (off, w, sl) -> 0 <= off /\ 0 < w.
Proof.
  intros k off w sl Hk. apply nth_error_In in Hk. unfold txt_reg_table in Hk. cbn [In] in Hk.
  repeat (destruct Hk as [Hk|Hk]; [inversion Hk; subst; lia|]). contradiction.
Qed.

(** (no extensionality: the two sides are compared applied to a state) *)
Lemma read_reg_faithful d off w sl s :
  read_reg faithful d (off, w, sl) s = bind (bind (seek d off) (fun _ => read_n w)) (fun v => ret (reg_summary v)) s.
Proof.
  unfold read_reg, slice_at. cbn [fx_bounds faithful]. destruct sl; unfold bind, seek; reflexivity.
Qed.

Lemma read_reg_fits d off w sl s : 0 <= off -> 0 < w -> off + w <= lenZ d ->
  exists a r, dropZ d off = a ++ r /\ lenZ a = w /\ read_reg faithful d (off, w, sl) s = ROk (reg_summary a) (set_rest (tick s) r).
Proof.
  intros Ho Hw Hl. destruct (seek_read_fits d off w s Ho Hw Hl) as (a & r & E1 & E2 & E3).
  exists a, r. repeat split; auto. rewrite read_reg_faithful. unfold bind at 1. rewrite E3. reflexivity.
Qed.
Lemma read_reg_short d off w sl s : 0 <= off -> 0 < w -> lenZ d < off + w ->
  exists s', read_reg faithful d (off, w, sl) s = RErr (if lenZ d <=? off then E_EOF else E_UEOF) s'.
Proof.
  intros Ho Hw Hl. destruct (seek_read_short d off w s Ho Hw Hl) as (s' & E).
  exists s'. rewrite read_reg_faithful. unfold bind at 1. now rewrite E.
Qed.

(** every Read* function, exactly: the bytes [off, off+w) of the image when they
    are there, io.EOF when the image ends at or before the register,
    io.ErrUnexpectedEOF when it ends inside it *)
Lemma Q_readreg_exact : forall d k off w sl,
  nth_error txt_reg_table (Z.to_nat k) = Some (off, w, sl) ->
  (off + w <= lenZ d ->
     exists a r, dropZ d off = a ++ r /\ lenZ a = w /\ outcome_of (run (read_reg_k faithful d k) d) = Ok (reg_summary a)) /\
  (lenZ d <= off -> outcome_of (run (read_reg_k faithful d k) d) = Err E_EOF) /\
  (off < lenZ d < off + w -> outcome_of (run (read_reg_k faithful d k) d) = Err E_UEOF).
Proof.
  intros d k off w sl Hk. destruct (table_entry_pos _ _ _ _ Hk) as [Ho Hw].
  unfold run, read_reg_k. rewrite Hk. split; [|split]; intros H.
  - destruct (read_reg_fits d off w sl (mkSt d 0 0) Ho Hw H) as (a & r & E1 & E2 & E3).
    exists a, r. repeat split; auto. now rewrite E3.
  - destruct (read_reg_short d off w sl (mkSt d 0 0) Ho Hw) as (s' & E); [lia|]. rewrite E.
    assert (C : lenZ d <=? off = true) by (apply Z.leb_le; lia). now rewrite C.
  - destruct (read_reg_short d off w sl (mkSt d 0 0) Ho Hw) as (s' & E); [lia|]. rewrite E.
    assert (C : lenZ d <=? off = false) by (apply Z.leb_gt; lia). now rewrite C.
Qed.

Lemma Q_readreg_value_iff_fits : forall d k off w sl,
  nth_error txt_reg_table (Z.to_nat k) = Some (off, w, sl) ->
  ((exists v, outcome_of (run (read_reg_k faithful d k) d) = Ok v) <-> off + w <= lenZ d).
Proof.
  intros d k off w sl Hk. destruct (Q_readreg_exact d k off w sl Hk) as (H1 & H2 & H3). split.
  - intros [v Hv]. destruct (Z_le_gt_dec (off + w) (lenZ d)) as [L|L]; [exact L|].
    destruct (Z_le_gt_dec (lenZ d) off) as [L2|L2].
    + rewrite (H2 L2) in Hv. discriminate.
    + rewrite H3 in Hv by lia. discriminate.
  - intros L. destruct (H1 L) as (a & r & _ & _ & E). eauto.
Qed.

(** * registers.ReadTXTRegisters: all sixteen registers iff the image holds 0x420 bytes *)

Definition entry_fits (d : list Z) (e : Z * Z * bool) : Prop := fst (fst e) + snd (fst e) <= lenZ d.
Definition entry_pos (e : Z * Z * bool) : Prop := 0 <= fst (fst e) /\ 0 < snd (fst e).

Lemma read_txt_loop_ok_iff d : forall tbl nerr acc s, Forall entry_pos tbl -> 0 <= nerr ->
  ((exists v s', read_txt_loop faithful d tbl nerr acc s = ROk v s') <-> (nerr = 0 /\ Forall (entry_fits d) tbl)).
Proof.
  induction tbl as [|[[off w] sl] t IH]; intros nerr acc s HP Hn; cbn [read_txt_loop].
  - destruct (0 <? nerr) eqn:C; [apply Z.ltb_lt in C | apply Z.ltb_ge in C].
    + split; [intros (v & s' & H); discriminate | intros [H _]; lia].
    + split; [intros _; split; [lia | constructor] | intros _; eauto].
  - inversion HP as [|? ? [Ho Hw] HP']; subst. cbn [fst snd] in Ho, Hw.
    destruct (Z_le_gt_dec (off + w) (lenZ d)) as [L|L].
    + destruct (read_reg_fits d off w sl s Ho Hw L) as (a & r & _ & _ & E). rewrite E.
      rewrite (IH nerr _ _ HP' Hn). split.
      * intros [H1 H2]. split; [exact H1|]. constructor; [exact L | exact H2].
      * intros [H1 H2]. inversion H2; subst. auto.
    + destruct (read_reg_short d off w sl s Ho Hw) as (s' & E); [lia|]. rewrite E.
      rewrite (IH (nerr + 1) _ _ HP') by lia. split.
      * intros [H1 _]. lia.
      * intros [_ H2]. inversion H2 as [|? ? Hf _]; subst. unfold entry_fits in Hf. cbn [fst snd] in Hf. lia.
Qed.

Lemma table_pos : Forall entry_pos txt_reg_table.
Proof. unfold txt_reg_table, entry_pos. repeat constructor; cbn [fst snd]; lia. Qed.

Lemma table_fits_iff d : Forall (entry_fits d) txt_reg_table <-> 1056 <= lenZ d.
Proof.
  unfold txt_reg_table, entry_fits. split.
  - intros H. repeat match goal with H : Forall _ (_ :: _) |- _ => inversion H; clear H; subst end.
    cbn [fst snd] in *. lia.
  - intros H. repeat constructor; cbn [fst snd]; lia.
Qed.

Lemma Q_readtxt_value_iff : forall d,
  (exists v, outcome_of (run (read_txt_registers faithful d) d) = Ok v) <-> 1056 <= lenZ d.
Proof.
  intros d. rewrite <- table_fits_iff. unfold run, read_txt_registers.
  pose proof (read_txt_loop_ok_iff d txt_reg_table 0 [] (mkSt d 0 0) table_pos (Z.le_refl 0)) as H.
  split.
  - intros [v Hv]. destruct H as [H _]. apply H.
    destruct (read_txt_loop faithful d txt_reg_table 0 [] (mkSt d 0 0)) as [a s'| | |] eqn:E; try discriminate.
    exists a, s'. reflexivity.
  - intros Hf. destruct H as [_ H]. destruct (H (conj eq_refl Hf)) as (v & s' & E). rewrite E. exists v. reflexivity.
Qed.

(** * tools.LookupACMSize: exactly *)

Lemma firstn_lenZ (l : list Z) n : Z.of_nat n <= lenZ l -> lenZ (firstn n l) = Z.of_nat n.
Proof. unfold lenZ. intros H. rewrite firstn_length. lia. Qed.

Lemma Q_lookup_exact : forall h,
  (32 <= lenZ h -> exists a r, dropZ (firstn 32 h) 24 = a ++ r /\ lenZ a = 4 /\
      outcome_of (run (lookup_acm_size faithful h) h) = Ok [wrap32 (le_val a * 4)]) /\
  (lenZ h < 32 -> outcome_of (run (lookup_acm_size faithful h) h) = Err E_FIX).
Proof.
  intros h. split; [|apply P_lookup_short_error].
  intros H. unfold run, lookup_acm_size, ACMSizeOffset. assert (E : has_len h 32 = true) by (now apply has_len_true). rewrite E.
  destruct (seek_read_fits (firstn 32 h) 24 4 (mkSt h 0 0)) as (a & r & E1 & E2 & E3); try lia.
  { rewrite (firstn_lenZ h 32); lia. }
  exists a, r. repeat split; auto.
  unfold read_le. unfold bind at 1, seek at 1. unfold bind at 1, seek in E3. cbn beta iota in E3 |- *.
  unfold bind at 1. unfold bind at 1. rewrite E3. reflexivity.
Qed.

Lemma Q_lookup_value_iff : forall h,
  (exists v, outcome_of (run (lookup_acm_size faithful h) h) = Ok v) <-> 32 <= lenZ h.
Proof.
  intros h. destruct (Q_lookup_exact h) as [H1 H2]. split.
  - intros [v Hv]. destruct (Z_le_gt_dec 32 (lenZ h)) as [L|L]; [exact L|]. rewrite H2 in Hv by lia. discriminate.
  - intros L. destruct (H1 L) as (a & r & _ & _ & E). eauto.
Qed.

(** * tools.ParseTXTRegs, ReadACMStatus, Read*Raw: a value iff the last register read lies inside the image *)

(** [okimp P r]: when [r] returns a value, [P] holds *)
Definition okimp (P : Prop) {A} (r : rd A) : Prop := forall s v s', r s = ROk v s' -> P.
Lemma okimp_bind_r P {A B} (r : rd A) (f : A -> rd B) : (forall a, okimp P (f a)) -> okimp P (bind r f).
Proof.
  intros H s v s' E. unfold bind in E. destruct (r s) as [a s1| | |] eqn:R; try discriminate. exact (H a s1 v s' E).
Qed.
Lemma okimp_seek_read d off w {B} (k : Z -> rd B) : 0 <= off -> 0 < w ->
  okimp (off + w <= lenZ d) (bind (seek d off) (fun _ => bind (read_le w) k)).
Proof.
  intros Ho Hw s v s' E. destruct (Z_le_gt_dec (off + w) (lenZ d)) as [L|L]; [exact L|]. exfalso.
  unfold bind at 1, seek in E. unfold read_le in E. unfold bind at 1 in E. unfold bind at 1 in E.
  destruct (read_n_short w (set_rest s (dropZ d off)) Hw) as (s1 & R).
  { cbn [set_rest s_rest]. rewrite dropZ_lenZ by lia. lia. }
  rewrite R in E. discriminate.
Qed.

Lemma read_le_fits n s {B} (k : Z -> rd B) : 0 < n -> n <= lenZ (s_rest s) ->
  exists x s1, bind (read_le n) k s = k x s1 /\ lenZ (s_rest s1) = lenZ (s_rest s) - n.
Proof.
  intros Hn Hl. destruct (read_n_fits n s Hn Hl) as (a & r & E1 & E2 & E3).
  exists (le_val a), (set_rest (tick s) r). split.
  - unfold read_le. unfold bind at 1. unfold bind at 1. rewrite E3. reflexivity.
  - cbn [set_rest s_rest]. rewrite E1. unfold lenZ in *. rewrite app_length. lia.
Qed.
Lemma seek_read_le_fits d off w s {B} (k : Z -> rd B) : 0 <= off -> 0 < w -> off + w <= lenZ d ->
  exists x s1, bind (seek d off) (fun _ => bind (read_le w) k) s = k x s1 /\ lenZ (s_rest s1) = lenZ d - off - w.
Proof.
  intros Ho Hw Hl. unfold bind at 1, seek.
  destruct (read_le_fits w (set_rest s (dropZ d off)) k Hw) as (x & s1 & E1 & E2).
  { cbn [set_rest s_rest]. rewrite dropZ_lenZ by lia. lia. }
  exists x, s1. split; [exact E1|]. rewrite E2. cbn [set_rest s_rest]. rewrite dropZ_lenZ by lia. lia.
Qed.

Ltac txt_offsets := unfold txtSts, txtEsts, txtErrorCode, txtBootStatus, txtVerFSBIF, txtDIDVID, txtVerQPIFF, txtsInitBase,
  txtsInitSize, txtMLEJoin, txtHeapBase, txtHeapSize, txtACMStatus, txtDMAProtectedRange, txtACMPolicyStatus, txtPublicKey, txtE2STS in *.

(** one successful step of a chain of seeks and reads *)
Ltac chain_step :=
  match goal with
  | |- exists v s', bind (seek ?d ?o) (fun _ => bind (read_le ?w) ?k) ?s = ROk v s' =>
      let x := fresh "x" in let s1 := fresh "s" in let E := fresh "E" in let L := fresh "L" in
      destruct (seek_read_le_fits d o w s k) as (x & s1 & E & L); [lia | lia | lia |]; rewrite E; clear E; cbn beta
  | |- exists v s', bind (read_le ?w) ?k ?s = ROk v s' =>
      let x := fresh "x" in let s1 := fresh "s" in let E := fresh "E" in let L := fresh "L" in
      destruct (read_le_fits w s k) as (x & s1 & E & L); [lia | (cbn [s_rest]; lia) |]; rewrite E; clear E; cbn beta
  end.

Lemma Q_txt_regs_value_iff : forall d,
  (exists v, outcome_of (run (parse_txt_regs faithful d) d) = Ok v) <-> 2296 <= lenZ d.
Proof.
  intros d. split.
  - intros [v Hv]. unfold run in Hv.
    destruct (parse_txt_regs faithful d (mkSt d 0 0)) as [a s'| | |] eqn:E; try discriminate.
    revert E. generalize (mkSt d 0 0). intros s E.
    assert (H : okimp (txtE2STS + 8 <= lenZ d) (parse_txt_regs faithful d)).
    { unfold parse_txt_regs.
      repeat lazymatch goal with
      | |- okimp _ (bind (seek _ txtE2STS) _) => fail
      | |- okimp _ (bind _ _) => apply okimp_bind_r; intros ?
      end.
      apply okimp_seek_read; unfold txtE2STS; lia. }
    specialize (H s a s' E). unfold txtE2STS in H. lia.
  - intros L.
    assert (H : exists v s', parse_txt_regs faithful d (mkSt d 0 0) = ROk v s').
    { unfold parse_txt_regs, slice_at. cbn [fx_bounds faithful]. txt_offsets.
      repeat chain_step. eexists. eexists. reflexivity. }
    destruct H as (v & s' & E). unfold run. rewrite E. exists v. reflexivity.
Qed.

Lemma Q_acm_status_value_iff : forall d,
  (exists v, outcome_of (run (read_acm_status faithful d) d) = Ok v) <-> 816 <= lenZ d.
Proof.
  intros d. split.
  - intros [v Hv]. unfold run in Hv.
    destruct (read_acm_status faithful d (mkSt d 0 0)) as [a s'| | |] eqn:E; try discriminate.
    assert (H : okimp (txtACMStatus + 8 <= lenZ d) (read_acm_status faithful d)).
    { unfold read_acm_status, slice_at. cbn [fx_bounds faithful]. apply okimp_seek_read; unfold txtACMStatus; lia. }
    specialize (H _ a s' E). unfold txtACMStatus in H. lia.
  - intros L.
    assert (H : exists v s', read_acm_status faithful d (mkSt d 0 0) = ROk v s').
    { unfold read_acm_status, slice_at. cbn [fx_bounds faithful]. txt_offsets. repeat chain_step. eexists. eexists. reflexivity. }
    destruct H as (v & s' & E). unfold run. rewrite E. exists v. reflexivity.
Qed.

Lemma Q_raw64_value_iff : forall d off, 0 <= off ->
  ((exists v, outcome_of (run (read_raw64_at d off) d) = Ok v) <-> off + 8 <= lenZ d).
Proof.
  intros d off Ho. split.
  - intros [v Hv]. unfold run in Hv.
    destruct (read_raw64_at d off (mkSt d 0 0)) as [a s'| | |] eqn:E; try discriminate.
    assert (H : okimp (off + 8 <= lenZ d) (read_raw64_at d off)).
    { unfold read_raw64_at. apply okimp_seek_read; lia. }
    exact (H _ a s' E).
  - intros L.
    assert (H : exists v s', read_raw64_at d off (mkSt d 0 0) = ROk v s').
    { unfold read_raw64_at. repeat chain_step. eexists. eexists. reflexivity. }
    destruct H as (v & s' & E). unfold run. rewrite E. exists v. reflexivity.
Qed.

(** * tools.ParseBIOSDataRegion: a value iff the fixed part (36 bytes) and, from version 3 on, the flags word are there *)

(** [needs n r]: [r] returns a value only from a reader that holds at least [n] bytes *)
Definition needs (n : Z) {A} (r : rd A) : Prop := forall s v s', r s = ROk v s' -> n <= lenZ (s_rest s).
Lemma needs_0 {A} (r : rd A) : needs 0 r.
Proof. intros s v s' _. apply lenZ_nonneg. Qed.
Lemma needs_read_le_bind k m {B} (f : Z -> rd B) : 0 < k -> (forall x, needs m (f x)) -> needs (k + m) (bind (read_le k) f).
Proof.
  intros Hk Hf s v s' E. destruct (Z_le_gt_dec k (lenZ (s_rest s))) as [L|L].
  - destruct (read_le_fits k s f Hk L) as (x & s1 & E1 & E2). rewrite E1 in E. specialize (Hf x s1 v s' E). lia.
  - exfalso. destruct (read_n_short k s Hk) as (s1 & R); [lia|].
    unfold read_le in E. unfold bind at 1 in E. unfold bind at 1 in E. rewrite R in E. discriminate.
Qed.

(** a read that fits, with the value it delivers *)
Lemma read_le_fits_v n s {B} (k : Z -> rd B) : 0 < n -> n <= lenZ (s_rest s) ->
  exists a r s1, s_rest s = a ++ r /\ lenZ a = n /\ s_rest s1 = r /\ bind (read_le n) k s = k (le_val a) s1.
Proof.
  intros Hn Hl. destruct (read_n_fits n s Hn Hl) as (a & r & E1 & E2 & E3).
  exists a, r, (set_rest (tick s) r). repeat split; auto.
  unfold read_le. unfold bind at 1. unfold bind at 1. rewrite E3. reflexivity.
Qed.

Definition bios_ver (d : list Z) : Z := le_val (firstn 4 (skipn 8 d)).

Lemma lenZ_app (a b : list Z) : lenZ (a ++ b) = lenZ a + lenZ b.
Proof. unfold lenZ. rewrite app_length. lia. Qed.

Lemma Q_bios_data_value_iff : forall d,
  (exists v, outcome_of (run parse_bios_data d) = Ok v) <-> (36 <= lenZ d /\ (3 <= bios_ver d -> 40 <= lenZ d)).
Proof.
  intros d. destruct (Z_le_gt_dec 36 (lenZ d)) as [L|L].
  2:{ split; [|intros [H _]; lia]. intros [v Hv]. exfalso. unfold run in Hv.
      destruct (parse_bios_data (mkSt d 0 0)) as [a s'| | |] eqn:E; try discriminate.
      assert (N : needs 36 parse_bios_data).
      { unfold parse_bios_data.
        change 36 with (8 + (4 + (4 + (8 + (8 + (4 + 0)))))).
        repeat (apply needs_read_le_bind; [lia | intros ?]). apply needs_0. }
      specialize (N _ _ _ E). cbn [s_rest] in N. lia. }
  (* the fixed part is there: run it *)
  unfold run, parse_bios_data.
  destruct (read_le_fits_v 8 (mkSt d 0 0) (fun _sz => ver <- read_le 4 ;; ssz <- read_le 4 ;; r1 <- read_le 8 ;; r2 <- read_le 8 ;;
      nl <- read_le 4 ;;
      sf <- (if (3 <=? ver) && (ver <? 5) then read_le 4 else ret 0) ;;
      mf <- (if 5 <=? ver then (m <- read_le 4 ;;
                                ret [1; bit m 0; 0; (if Z.land m 6 =? 4 then 1 else 0); (if Z.land m 6 =? 2 then 1 else 0)])
             else ret [0; 0; 0; 0; 0]) ;;
      ret ([ver; ssz; r1; r2; nl; sf] ++ mf))) as (a1 & r1 & s1 & D1 & A1 & R1 & E1); [lia | cbn [s_rest]; lia |].
  cbn [s_rest] in D1. rewrite E1. clear E1. cbn beta.
  assert (L1 : lenZ r1 = lenZ d - 8) by (rewrite D1, lenZ_app; lia).
  match goal with |- context [bind (read_le 4) ?k s1] =>
    destruct (read_le_fits_v 4 s1 k) as (a2 & r2 & s2 & D2 & A2 & R2 & E2); [lia | rewrite R1; lia |] end.
  rewrite E2. clear E2. cbn beta. rewrite R1 in D2.
  assert (HV : bios_ver d = le_val a2).
  { unfold bios_ver. rewrite D1, D2. f_equal.
    unfold lenZ in A1, A2. replace 8%nat with (length a1 + 0)%nat by lia. rewrite skipn_app, skipn_all2 by lia.
    replace (length a1 + 0 - length a1)%nat with 0%nat by lia. cbn [skipn app].
    replace 4%nat with (length a2 + 0)%nat by lia. rewrite firstn_app_2. cbn. now rewrite app_nil_r. }
  assert (L2 : lenZ (s_rest s2) = lenZ d - 12) by (rewrite R2; rewrite D2, lenZ_app in L1; lia).
  set (ver := le_val a2) in *.
  (* four more fixed reads *)
  do 4 match goal with
  | |- context [bind (read_le ?w) ?k ?s] =>
      let x := fresh "x" in let s' := fresh "s" in let E := fresh "E" in let LL := fresh "LL" in
      destruct (read_le_fits w s k) as (x & s' & E & LL); [lia | lia |]; rewrite E; clear E; cbn beta
  end.
  rewrite HV.
  (* the version-dependent tail *)
  match goal with |- context [bind _ _ ?s] => assert (LR : lenZ (s_rest s) = lenZ d - 36) by lia end.
  destruct ((3 <=? ver) && (ver <? 5)) eqn:C1.
  - apply andb_true_iff in C1. destruct C1 as [C1 C2]. apply Z.leb_le in C1. apply Z.ltb_lt in C2.
    assert (C3 : 5 <=? ver = false) by (apply Z.leb_gt; lia). rewrite C3.
    destruct (Z_le_gt_dec 40 (lenZ d)) as [L40|L40].
    + match goal with |- context [bind (read_le 4) ?k ?s] =>
        destruct (read_le_fits 4 s k) as (xx & ss & EE & LLL); [lia | lia |]; rewrite EE end.
      split; [intros _; split; [lia | intros; lia] | intros _; eexists; reflexivity].
    + split; [|intros [_ H]; lia]. intros [v Hv]. exfalso.
      match type of Hv with context [bind (read_le 4) ?k ?s] =>
        destruct (read_n_short 4 s) as (s' & R); [lia | lia |] end.
      unfold read_le in Hv. unfold bind at 1 in Hv. unfold bind at 1 in Hv. rewrite R in Hv. discriminate.
  - destruct (5 <=? ver) eqn:C3.
    + apply Z.leb_le in C3.
      destruct (Z_le_gt_dec 40 (lenZ d)) as [L40|L40].
      * unfold ret at 1. unfold bind at 1.
        match goal with |- context [bind (bind (read_le 4) ?k1) ?k2 ?s] =>
          destruct (read_le_fits 4 s k1) as (xx & ss & EE & LLL); [lia | lia |] end.
        unfold bind at 1. rewrite EE.
        split; [intros _; split; [lia | intros; lia] | intros _; eexists; reflexivity].
      * split; [|intros [_ H]; lia]. intros [v Hv]. exfalso.
        unfold ret at 1 in Hv. unfold bind at 1 in Hv.
        match type of Hv with context [bind (bind (read_le 4) ?k1) ?k2 ?s] =>
          destruct (read_n_short 4 s) as (s' & R); [lia | lia |] end.
        unfold bind at 1 in Hv. unfold read_le in Hv. unfold bind at 1 in Hv. unfold bind at 1 in Hv. rewrite R in Hv. discriminate.
    + apply Z.leb_gt in C3. apply andb_false_iff in C1.
      split; [intros _; split; [lia|] | intros _; eexists; reflexivity].
      intros H3. destruct C1 as [C1|C1]; [apply Z.leb_gt in C1 | apply Z.ltb_ge in C1]; lia.
Qed.

(** * PEM block loops over the observed pem.Decode calls *)

Lemma trace_lookup_ok : forall t n ty r, trace_ok t = true -> trace_lookup t n = Some (ty, r) -> 0 <= r < n.
Proof.
  induction t as [|[[m ty0] r0] t IH]; intros n ty r Hok H; cbn [trace_lookup] in H; [discriminate|].
  unfold trace_ok in Hok. cbn [forallb call_ok] in Hok. apply andb_true_iff in Hok. destruct Hok as [H1 H2].
  destruct (m =? n) eqn:E.
  - apply Z.eqb_eq in E. inversion H; subst. apply andb_true_iff in H1. destruct H1 as [A B].
    apply Z.leb_le in A. apply Z.ltb_lt in B. lia.
  - exact (IH n ty r H2 H).
Qed.

(** a trace that passes [trace_ok] defines a block decoder that meets the
    contract of [C15_pem_loop_terminates_partial] *)
Lemma decode_of_progress who t : trace_ok t = true ->
  forall raw c rest, decode_of who t raw = Some (c, rest) -> (length rest < length raw)%nat.
Proof.
  intros Hok raw c rest H. unfold decode_of in H.
  destruct (trace_lookup t (lenZ raw)) as [[ty r]|] eqn:E; [|discriminate]. inversion H; subst.
  pose proof (trace_lookup_ok _ _ _ _ Hok E) as Hr.
  pose proof (dropZ_lenZ raw (lenZ raw - r)) as HL. unfold lenZ in *. lia.
Qed.

Lemma Q_pem_run_total : forall who t n, trace_ok t = true ->
  pem_run who t n <> OutOfFuel /\ pem_run who t n <> Panic.
Proof.
  intros who t n Hok. unfold pem_run. apply P_pem_loop. now apply decode_of_progress.
Qed.

(** the result of the loop, exactly: it follows the chain of rests while the
    blocks are skipped; [Ok true] = a block that is not skipped was handed to the
    x509 parsers, [Err] = the blocks ran out ("failed to parse ... key") *)
Fixpoint pem_chain (who : Z) (t : pem_trace) (fuel : nat) (n : Z) : outcome bool :=
  match fuel with
  | O => OutOfFuel
  | S f =>
      match trace_lookup t n with
      | None => Err E_OTHER
      | Some (ty, r) => if skips_block who ty then pem_chain who t f r else Ok true
      end
  end.

Lemma pem_loop_chain who t : trace_ok t = true -> forall fuel raw,
  pem_loop (decode_of who t) fuel raw = pem_chain who t fuel (lenZ raw).
Proof.
  intros Hok. induction fuel as [|f IH]; intros raw; [reflexivity|]. cbn [pem_loop pem_chain]. unfold decode_of.
  destruct (trace_lookup t (lenZ raw)) as [[ty r]|] eqn:E; [|reflexivity].
  destruct (skips_block who ty); [|reflexivity]. rewrite IH. f_equal.
  pose proof (trace_lookup_ok _ _ _ _ Hok E) as Hr. rewrite dropZ_lenZ by lia. lia.
Qed.

Lemma Q_pem_run_chain : forall who t n, trace_ok t = true -> 0 <= n ->
  pem_run who t n = pem_chain who t (S (Z.to_nat n)) n.
Proof.
  intros who t n Hok Hn. unfold pem_run. rewrite (pem_loop_chain who t Hok). rewrite repeat_length.
  f_equal. unfold lenZ. rewrite repeat_length. lia.
Qed.

(** the exit position and the result of the loop say the same thing *)
Lemma pem_exit_chain who t : forall fuel n,
  match pem_chain who t fuel n with
  | Ok _ => exists m ty r, pem_exit who t fuel n = Some m /\ trace_lookup t m = Some (ty, r) /\ skips_block who ty = false
  | Err _ => pem_exit who t fuel n = None
  | OutOfFuel => pem_exit who t fuel n = None
  | Panic => False
  end.
Proof.
  induction fuel as [|f IH]; intros n; cbn [pem_chain pem_exit]; [reflexivity|].
  destruct (trace_lookup t n) as [[ty r]|] eqn:E; [|reflexivity].
  destruct (skips_block who ty) eqn:K; [apply IH|]. exists n, ty, r. auto.
Qed.

Lemma pem_chain_ok_true who t : forall fuel n b, pem_chain who t fuel n = Ok b -> b = true.
Proof.
  induction fuel as [|f IH]; intros n b E; cbn [pem_chain] in E; [discriminate|].
  destruct (trace_lookup t n) as [[ty r]|]; [|discriminate]. destruct (skips_block who ty); [eauto | now inversion E].
Qed.

Lemma Q_pem_code : forall who t keys n, trace_ok t = true -> 0 <= n ->
  (pem_run who t n = Ok true <-> pem_code who t keys n <> 1) /\
  ((exists c, pem_run who t n = Err c) <-> pem_code who t keys n = 1) /\
  (pem_code who t keys n = 0 -> exists m ty r, trace_lookup t m = Some (ty, r) /\ skips_block who ty = false /\ In m keys).
Proof.
  intros who t keys n Hok Hn. rewrite (Q_pem_run_chain who t n Hok Hn). unfold pem_code.
  pose proof (pem_exit_chain who t (S (Z.to_nat n)) n) as H.
  destruct (Q_pem_run_total who t n Hok) as [NF NP]. rewrite (Q_pem_run_chain who t n Hok Hn) in NF, NP.
  destruct (pem_chain who t (S (Z.to_nat n)) n) as [b|c| |] eqn:E; try congruence.
  - destruct H as (m & ty & r & H1 & H2 & H3). rewrite H1.
    assert (Hb : b = true) by (exact (pem_chain_ok_true who t _ _ _ E)). subst b. destruct (existsb (Z.eqb m) keys) eqn:K.
    + split; [split; [intros _; discriminate | reflexivity]|]. split; [split; [intros [c X]; discriminate | discriminate]|].
      intros _. exists m, ty, r. repeat split; auto. apply existsb_exists in K. destruct K as (x & Hx & Ex).
      apply Z.eqb_eq in Ex. now subst.
    + split; [split; [intros _; discriminate | reflexivity]|]. split; [split; [intros [c X]; discriminate | discriminate]|].
      discriminate.
  - rewrite H. split; [split; [discriminate | congruence]|]. split; [split; eauto|]. discriminate.
Qed.

(** "CERTIFICATE", "TRUSTED CERTIFICATE", "RSA PRIVATE KEY" *)
Definition ty_cert : list Z := PEM_CERTIFICATE.
Definition ty_trusted : list Z := [84; 82; 85; 83; 84; 69; 68; 32] ++ PEM_CERTIFICATE.
Definition ty_key : list Z := [82; 83; 65; 32; 80; 82; 73; 86; 65; 84; 69; 32; 75; 69; 89].
(** a 300-byte file: CERTIFICATE, TRUSTED CERTIFICATE, a key block, 10 bytes of trailing text *)
Definition ex_trace : pem_trace := [(300, ty_cert, 200); (200, ty_trusted, 100); (100, ty_key, 10)].
Lemma ex_pem_trace : trace_ok ex_trace = true /\
  skips_block WHO_PRIVATE ty_trusted = false /\ skips_block WHO_PUBLIC ty_trusted = true /\
  pem_run WHO_PRIVATE ex_trace 300 = Ok true /\ pem_run WHO_PUBLIC ex_trace 300 = Ok true /\
  pem_run WHO_PUBLIC [(300, ty_cert, 200); (200, ty_trusted, 100)] 300 = Err E_OTHER /\
  pem_run WHO_PRIVATE [(300, ty_cert, 200)] 300 = Err E_OTHER /\
  pem_code WHO_PRIVATE ex_trace [100] 300 = 2 /\ pem_code WHO_PUBLIC ex_trace [100] 300 = 0 /\
  pem_code WHO_PRIVATE [(300, ty_cert, 200)] [100] 300 = 1.
Proof. vm_compute. repeat split. Qed.

(** * pkg/tools/ifd.go *)

Lemma wrap32_range z : 0 <= wrap32 z < 4294967296.
Proof. rewrite wrap32_mod. unfold W32. apply Z.mod_pos_bound. lia. Qed.
Lemma wrap64_range z : 0 <= wrap64 z < 18446744073709551616.
Proof. rewrite wrap64_mod. unfold W64. apply Z.mod_pos_bound. lia. Qed.

Lemma Q_get_region : forall found valid base limit,
  get_region found valid base limit <> Panic /\ get_region found valid base limit <> OutOfFuel /\
  ((exists v, get_region found valid base limit = Ok v) <-> found = true /\ valid = true) /\
  (forall off size, get_region found valid base limit = Ok [off; size] ->
     0 <= off < 4294967296 /\ 0 <= size < 4294967296 /\
     (0 <= base -> base <= limit -> limit < 65535 -> off = base * 4096 /\ size = (limit + 1 - base) * 4096)).
Proof.
  intros found valid base limit. unfold get_region.
  destruct found; cbn [negb]; [destruct valid|]; (split; [discriminate|]); (split; [discriminate|]).
  - split; [split; [auto | eauto]|]. intros off size H. inversion H; subst. clear H.
    split; [apply wrap32_range|]. split; [apply wrap32_range|]. intros Hb Hl Hm.
    unfold RegionBlockSize. rewrite !wrap32_mod. unfold W32.
    rewrite (Z.mod_small (base * 4096)) by lia. rewrite (Z.mod_small ((limit + 1) * 4096)) by lia.
    split; [reflexivity|]. rewrite Z.mod_small by lia. lia.
  - split; [split; [intros [v H]; discriminate | intros [_ H]; discriminate]|]. intros off size H. discriminate.
  - split; [split; [intros [v H]; discriminate | intros [H _]; discriminate]|]. intros off size H. discriminate.
Qed.

Lemma Q_calc_image_offset : forall ifd cb bios_ok len addr,
  calc_image_offset ifd cb bios_ok len addr <> Panic /\ calc_image_offset ifd cb bios_ok len addr <> OutOfFuel /\
  ((exists c, calc_image_offset ifd cb bios_ok len addr = Err c) <-> ifd = None /\ cb = None /\ bios_ok = false) /\
  (forall v, calc_image_offset ifd cb bios_ok len addr = Ok v -> 0 <= v < 18446744073709551616).
Proof.
  intros ifd cb bios_ok len addr. unfold calc_image_offset, image_offset.
  destruct ifd as [[o s]|]; [|destruct cb as [[o s]|]; [|destruct bios_ok]];
    (split; [discriminate|]); (split; [discriminate|]); split;
    try (split; [intros [c H]; discriminate | intros (H1 & H2 & H3); discriminate]);
    try (intros v H; inversion H; subst; apply wrap64_range).
  split; [auto | eauto].
Qed.

(** an image whose BIOS region ends at 16 MiB: physical addresses just below
    4 GiB map to the last bytes of the region; a coreboot area whose offset +
    size wraps in uint32; the region-only layout *)
Lemma ex_calc_image_offset :
  get_region true true 1024 4095 = Ok [4194304; 12582912] /\
  calc_image_offset (Some (4194304, 12582912)) None false 16777216 4294967280 = Ok 16777200 /\
  calc_image_offset None (Some (4294967295, 2)) false 100 4294967296 = Ok 1 /\
  calc_image_offset None None true 65536 4294901760 = Ok 0 /\
  calc_image_offset None None true 65536 0 = Ok 18446744069414649856 /\
  calc_image_offset None None false 65536 0 = Err E_OTHER.
Proof. vm_compute. repeat split. Qed.

(** * tools.ParseACM after fiano *)
Lemma Q_parse_acm_after : forall subtype total user,
  value_or_error (run (parse_acm_after subtype faithful total) user) /\
  res_alloc (run (parse_acm_after subtype faithful total) user) <= 5 * Z.max (lenZ user) (lenZ total) + 262140 /\
  (0 < Z.land subtype ACMModuleSubtypeAncModule -> outcome_of (run (parse_acm_after subtype faithful total) user) = Ok ANC_MARK).
Proof.
  intros subtype total user. unfold parse_acm_after. destruct (0 <? Z.land subtype ACMModuleSubtypeAncModule) eqn:E.
  - unfold run, ret, value_or_error. cbn [res_alloc outcome_of s_alloc].
    pose proof (lenZ_nonneg user). pose proof (lenZ_nonneg total).
    split; [split; discriminate|]. split; [lia | reflexivity].
  - split; [apply P_acm_info_total|]. split; [apply P_acm_info_alloc|]. apply Z.ltb_ge in E. lia.
Qed.

(** * tpmdetection.local *)
Lemma Q_local_files : forall dm cm d,
  value_or_error (run (local_files dm cm d) d) /\ res_steps (run (local_files dm cm d) d) <= lenZ d + 1 /\
  res_alloc (run (local_files dm cm d) d) = 0 /\
  (dm = true -> outcome_of (run (local_files dm cm d) d) = Ok [TypeNoTPM]) /\
  (dm = false -> cm = true -> outcome_of (run (local_files dm cm d) d) = Ok [TypeTPM20]).
Proof.
  intros dm cm d. pose proof (lenZ_nonneg d). unfold local_files. destruct dm; [|destruct cm].
  - unfold run, ret, value_or_error. cbn.
    split; [split; discriminate|]. split; [lia|]. split; [reflexivity|]. split; [reflexivity | discriminate].
  - unfold run, ret, value_or_error. cbn.
    split; [split; discriminate|]. split; [lia|]. split; [reflexivity|]. split; [discriminate | reflexivity].
  - destruct (P_local_caps d) as (A & B & C).
    split; [exact A|]. split; [exact B|]. split; [exact C|]. split; discriminate.
Qed.

(** * tpmeventlog.Replay and its optional log writer *)
From CSS Require Model.EventLog Proofs.EventLog.

Lemma fprintf_at_ok : forall ns w k, (w <> W_NIL \/ forall j, ns j = true) -> fprintf_at ns w k = Ok tt.
Proof.
  intros ns w k [Hw|Hs]; destruct w; cbn [fprintf_at]; try reflexivity; try congruence.
  rewrite Hs. reflexivity.
Qed.

Lemma replay_loop_w_eq : forall ns H w, (w <> W_NIL \/ forall j, ns j = true) ->
  forall size p a evs res,
  replay_loop_w ns H w size p a evs res = EventLog.replay_loop H size p a evs res.
Proof.
  intros ns H w Hw size p a. induction evs as [|e t IH]; intro res; cbn [replay_loop_w EventLog.replay_loop]; [reflexivity|].
  rewrite !(fprintf_at_ok ns w _ Hw).
  destruct (EventLog.ev_type e =? EventLog.EV_NO_ACTION).
  - destruct (negb (EventLog.is_nil res)); [reflexivity|]. destruct (p =? 0); [|reflexivity].
    destruct (EventLog.parse_locality (EventLog.ev_data e)); cbn [Base.bind]; try reflexivity.
    destruct (EventLog.zeros_loc size a0); cbn [Base.bind]; try reflexivity. apply IH.
  - destruct (EventLog.is_nil res).
    + destruct (p =? 0); cbn [Base.bind]; [|reflexivity].
      destruct (EventLog.ev_digest e); [|reflexivity]. apply IH.
    + cbn [Base.bind]. destruct (EventLog.ev_digest e); [|reflexivity]. apply IH.
Qed.

Lemma Q_replay_w_eq : forall ns H w, (w <> W_NIL \/ forall j, ns j = true) ->
  forall l p a, replay_w ns H w l p a = EventLog.replay H l p a.
Proof.
  intros ns H w Hw l p a. unfold replay_w, EventLog.replay.
  destruct (EventLog.hash_size a) as [size|]; [|reflexivity].
  destruct (EventLog.filter_events size p a l) as [evs| | |]; cbn [Base.bind]; try reflexivity.
  rewrite (fprintf_at_ok ns w _ Hw). cbn [Base.bind].
  destruct (p =? 0); cbn [Base.bind].
  - rewrite (replay_loop_w_eq ns H w Hw). reflexivity.
  - destruct (p =? 1); cbn [Base.bind]; [|reflexivity]. rewrite (replay_loop_w_eq ns H w Hw). reflexivity.
Qed.

(** the result does not depend on the writer, nil included *)
Lemma Q_replay_out_writer : forall H w l p a, replay_out H w l p a = EventLog.replay H l p a.
Proof. intros. unfold replay_out. apply Q_replay_w_eq. right. reflexivity. Qed.

Lemma Q_replay_out_total : forall H w l p a,
  replay_out H w l p a <> Panic /\ replay_out H w l p a <> OutOfFuel.
Proof. intros. rewrite Q_replay_out_writer. apply Proofs.EventLog.replay_total. Qed.

(** a site that does not cope with a nil writer matters for the nil writer only *)
Lemma Q_replay_w_writer_given : forall ns H w l p a, w <> W_NIL ->
  replay_w ns H w l p a = replay_out H W_NIL l p a.
Proof. intros. rewrite Q_replay_out_writer. apply Q_replay_w_eq. left. assumption. Qed.

(** "StartupLocality\x00\x03" *)
Definition ex_startup3 : list Z := EventLog.STARTUP_LOCALITY ++ [0; 3].
Definition ex_dg : option EventLog.digest := Some (EventLog.mkDg 4 (repeat 17 20)).
(** per write site the shortest log that reaches it *)
Definition ex_site_log (k : Z) : list EventLog.event * Z :=
  if k =? 0 then ([], 1)
  else if k =? 1 then ([EventLog.mkEv 0 EventLog.EV_NO_ACTION ex_startup3 ex_dg], 0)
  else ([EventLog.mkEv 0 EventLog.EV_POST_CODE [] ex_dg], 0).

(** every one of the five write sites is reached with a nil writer by some log on which Replay
    returns a value: a single site that does not cope with nil is a panic *)
Lemma Q_replay_needs_nil_safe : forall H k, 0 <= k < 5 ->
  let '(l, p) := ex_site_log k in
  replay_w (all_safe_but k) H W_NIL l p 4 = Panic /\
  (exists v, replay_out H W_NIL l p 4 = Ok v) /\
  replay_w (all_safe_but k) H W_SINK l p 4 = replay_out H W_NIL l p 4.
Proof.
  intros H k Hk. assert (E : k = 0 \/ k = 1 \/ k = 2 \/ k = 3 \/ k = 4) by lia.
  destruct E as [E|[E|[E|[E|E]]]]; subst k; cbn [ex_site_log Z.eqb Pos.eqb];
    (split; [vm_compute; reflexivity|split; [vm_compute; try (eexists; reflexivity); destruct (H 4 _); eexists; reflexivity|vm_compute; reflexivity]]).
Qed.

(** the case of the "no init event seen" site: without nil-safety there, a nil writer panics exactly on
    the PCR0 logs (supported algorithm, digests of the right length) whose first selected event is a measurement *)
Lemma Q_replay_site_zeros_panics : forall H l a size e t,
  EventLog.hash_size a = Some size -> EventLog.filter_events size 0 a l = Ok (e :: t) ->
  (EventLog.ev_type e =? EventLog.EV_NO_ACTION) = false ->
  replay_w (all_safe_but W_SITE_SET_ZEROS) H W_NIL l 0 a = Panic.
Proof.
  intros H l a size e t Hs Hf Ht. unfold replay_w. rewrite Hs, Hf. cbn [Base.bind Z.eqb replay_loop_w].
  rewrite Ht. cbn [EventLog.is_nil Z.eqb]. reflexivity.
Qed.

(** the hypotheses of [Q_replay_site_zeros_panics] hold for a one-event SHA1 log of PCR0; the three writers of a case *)
Lemma ex_replay_first_measurement :
  let e := EventLog.mkEv 0 EventLog.EV_POST_CODE [] (Some (EventLog.mkDg 4 (repeat 17 20))) in
  EventLog.hash_size 4 = Some 20 /\ EventLog.filter_events 20 0 4 [e] = Ok [e] /\
  (EventLog.ev_type e =? EventLog.EV_NO_ACTION) = false /\
  writer_of 0 = W_NIL /\ writer_of 1 = W_SINK /\ writer_of 2 = W_FAILING.
Proof. vm_compute. repeat split. Qed.
