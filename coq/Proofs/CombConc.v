(** Proofs about Model/CombConc.v:
    - hints never change what is computed ([seek_h_eq], [lrun_h_eq], [run_h_eq]);
    - the owner of a private iterator observes [lrun] under every schedule
      ([sched_independent]). *)
From CSS Require Import Lib.Base Lib.Cases Model.Comb Proofs.Comb Model.CombHeap Model.CombConc
  Model.CombCases Proofs.CombHeap.
From Coq Require Import Lia.

(** * 1. Hints *)

Lemma incb_Inc : forall s lo m, incb lo m s = true -> Inc lo m s.
Proof.
  induction s as [|x t IH]; intros lo m H; cbn [incb Inc] in *; [exact I|].
  apply andb_prop in H as (H & Ht). apply andb_prop in H as (H1 & H2).
  apply Z.ltb_lt in H1. apply Z.leb_le in H2. split; [lia|]. apply IH. exact Ht.
Qed.

(** the hint is accepted only if it is what [seek] computes *)
Lemma seek_fast_ok_sound m k id s : seek_fast_ok m k id s = true -> seek m k id = Ok s.
Proof.
  unfold seek_fast_ok. intros H.
  apply andb_prop in H as (H & Hid). apply andb_prop in H as (H & HB).
  apply andb_prop in H as (H & Hm). apply andb_prop in H as (H & Hk).
  apply andb_prop in H as (HV & HL).
  apply incb_Inc in HV. apply Nat.eqb_eq in HL. apply Z.leb_le in Hk.
  apply Z.ltb_lt in Hm. apply Z.ltb_lt in HB. apply Z.eqb_eq in Hid.
  fold (Valid m s) in HV.
  assert (Hm' : m + 1 < I63) by exact Hm.
  assert (Hm0 : 0 <= m + 1) by lia.
  rewrite (binom_fast_Z (m + 1) k Hm0) in HB. fold (bz (m + 1) k) in HB.
  assert (HBs : bz (m + 1) (length s) < W64) by (rewrite HL; exact HB).
  pose proof (rank64_exact m s HV Hm' HBs) as Er.
  pose proof (rank_bounds m s HV) as Hb. rewrite HL in Hb.
  assert (Hidr : 0 <= id < bz (m + 1) k) by lia.
  destruct (seek_total m k id Hk Hm' HB Hidr) as (t & Es & Vt & Lt & Rt).
  rewrite Es. f_equal. apply (rank_inj m); try assumption; lia.
Qed.

Theorem seek_h_eq m k id hint : seek_h m k id hint = seek m k id.
Proof.
  unfold seek_h. destruct (seek_fast_ok m k id hint) eqn:E; [|reflexivity].
  symmetry. apply seek_fast_ok_sound. exact E.
Qed.

Lemma lstep_h_eq m o hint s : lstep_h m o hint s = lstep m o s.
Proof. destruct o; cbn [lstep lstep_h]; try reflexivity. now rewrite seek_h_eq. Qed.

Theorem lrun_h_eq m : forall ops hints s, lrun_h m ops hints s = lrun m ops s.
Proof.
  induction ops as [|o t IH]; intros hints s; cbn [lrun lrun_h]; [reflexivity|].
  rewrite lstep_h_eq. destruct (lstep m o s) as [[[s1 e] g]| | |]; cbn [bind]; try reflexivity.
  now rewrite IH.
Qed.

Lemma step_h_eq o hint st : step_h o hint st = step o st.
Proof.
  destruct o; cbn [step_h step]; try reflexivity.
  unfold with_iter. destruct (nth_error (h_iters st) i); [|reflexivity]. now rewrite seek_h_eq.
Qed.

Theorem run_h_eq : forall ops hints st, run_h ops hints st = run ops st.
Proof.
  induction ops as [|o t IH]; intros hints st; cbn [run run_h]; [reflexivity|].
  rewrite step_h_eq. destruct (step o st) as [[st1 e]| | |]; cbn [bind]; try reflexivity.
  now rewrite IH.
Qed.

Lemma prog_obs_h_eq ops hints : prog_obs_h ops hints = prog_obs ops.
Proof. unfold prog_obs_h, prog_obs. now rewrite run_h_eq. Qed.

(** what the correspondence check evaluates is the un-hinted model *)
Theorem check_hints_sound :
  (forall m k id r, check (CSeek m k id r) = obs_match zlist_eqb r (seek m k id)) /\
  (forall ops hints r, check (CProg ops hints r) = obs_match prog_eqb r (prog_obs ops)) /\
  (forall ths, check (CConc ths) =
     forallb (fun '(k, m, ops, _, r) => obs_match lobs_eqb r (lrun m ops (first_comb k))) ths).
Proof.
  split; [|split].
  - intros. cbn [check]. now rewrite seek_h_eq.
  - intros. cbn [check]. now rewrite prog_obs_h_eq.
  - intros. cbn [check]. induction ths as [|[[[[k m] ops] hints] r] t IH]; [reflexivity|].
    cbn [forallb]. rewrite IH. f_equal. unfold thread_ok. now rewrite lrun_h_eq.
Qed.

(** * 2. The owner of a private iterator under an arbitrary schedule *)

(** iterator [i] is the object (array [a], maxValue [m]) and nobody else can reach [a] *)
Definition Owns (st : hstate) (i a : nat) (m : Z) : Prop :=
  Private st i a /\ nth_error (h_iters st) i = Some (mkIter a m).

Lemma owns_current st i a m : Owns st i a m -> current st i = rd (h_mem st) a.
Proof. intros (HP & _). apply current_private. exact HP. Qed.

(** a call that is not made on [i] leaves the owner's iterator alone *)
Lemma owns_other st i a m o st' e :
  Owns st i a m -> step o st = Ok (st', e) -> own i o = None -> o <> OGetUnsafe i ->
  Owns st' i a m /\ current st' i = current st i.
Proof.
  intros (HP & Hit) Hs Ho Hu.
  assert (Hna : ~ addresses o i).
  { destruct o; cbn [addresses own] in *; try tauto.
    - intros ->. rewrite Nat.eqb_refl in Ho. discriminate.
    - intros ->. rewrite Nat.eqb_refl in Ho. discriminate.
    - intros ->. apply Hu. reflexivity. }
  destruct (private_step _ _ _ _ _ _ HP Hs Hna) as (HP1 & E1).
  destruct (step_frame _ _ _ _ Hs) as (_ & _ & (li & Eli & _) & _).
  assert (Hit1 : nth_error (h_iters st') i = Some (mkIter a m))
    by (rewrite Eli; apply nth_error_app_keep; exact Hit).
  split; [split; assumption|].
  rewrite (current_private _ _ _ HP1), (current_private _ _ _ HP). exact E1.
Qed.

(** writing the owner's own array keeps it private *)
Lemma private_wr st i a s' :
  Private st i a -> Private (mkH (wr (h_mem st) a s') (h_iters st) (h_res st)) i a.
Proof.
  intros (H1 & H2 & H3 & H4). unfold Private; cbn [h_mem h_iters h_res]. rewrite length_wr.
  repeat split; assumption.
Qed.

(** a call of the owner computes [lstep] on the current value *)
Lemma owns_own st i a m o lo st' e :
  Owns st i a m -> step o st = Ok (st', e) -> own i o = Some lo ->
  Owns st' i a m /\
  exists g, lstep m lo (current st i) = Ok (current st' i, e, g).
Proof.
  intros HO Hs Ho. pose proof HO as (HP & Hit).
  pose proof (owns_current _ _ _ _ HO) as Ec.
  pose proof HP as (_ & Ha & _).
  destruct o; cbn [own] in Ho; try discriminate;
    (destruct (Nat.eqb i0 i) eqn:Ei; [apply Nat.eqb_eq in Ei; subst i0|discriminate]);
    inversion Ho; subst lo; clear Ho; cbn [step] in Hs; unfold with_iter in Hs; rewrite Hit in Hs;
    cbn [it_arr it_max] in Hs.
  - (* Next *)
    rewrite <- Ec in Hs. destruct (next m (current st i)) as [more s'] eqn:En.
    inversion Hs; subst st' e; clear Hs.
    assert (HO1 : Owns (mkH (wr (h_mem st) a s') (h_iters st) (h_res st)) i a m)
      by (split; [apply private_wr; exact HP|exact Hit]).
    split; [exact HO1|]. exists []. cbn [lstep lstep_h]. rewrite En.
    rewrite (owns_current _ _ _ _ HO1). cbn [h_mem]. rewrite rd_wr_same by exact Ha. reflexivity.
  - (* Seek *)
    rewrite <- Ec in Hs. destruct (seek m (length (current st i)) id) as [s'| | |] eqn:En;
      cbn [bind] in Hs; try discriminate.
    inversion Hs; subst st' e; clear Hs.
    assert (HO1 : Owns (mkH (wr (h_mem st) a s') (h_iters st) (h_res st)) i a m)
      by (split; [apply private_wr; exact HP|exact Hit]).
    split; [exact HO1|]. exists []. cbn [lstep]. rewrite En. cbn [bind].
    rewrite (owns_current _ _ _ _ HO1). cbn [h_mem]. rewrite rd_wr_same by exact Ha. reflexivity.
  - (* Get *)
    inversion Hs; subst st' e; clear Hs.
    assert (HO1 : Owns (mkH (h_mem st ++ [rd (h_mem st) a]) (h_iters st) (h_res st ++ [length (h_mem st)])) i a m).
    { split; [|exact Hit]. destruct HP as (H1 & H2 & H3 & H4). unfold Private; cbn [h_mem h_iters h_res].
      rewrite app_length. cbn [length]. repeat split; try assumption; try lia.
      rewrite in_app_iff. intros [Hin|[E|[]]]; [contradiction|lia]. }
    split; [exact HO1|]. exists [current st i]. cbn [lstep lstep_h].
    rewrite (owns_current _ _ _ _ HO1). cbn [h_mem]. rewrite rd_app_old by exact Ha. rewrite <- Ec. reflexivity.
  - (* ID *)
    inversion Hs; subst st' e; clear Hs. split; [exact HO|]. exists []. cbn [lstep lstep_h].
    rewrite Ec. reflexivity.
  - (* Amount *)
    inversion Hs; subst st' e; clear Hs. split; [exact HO|]. exists []. cbn [lstep lstep_h].
    rewrite Ec. reflexivity.
Qed.

(** EVERY schedule: whatever calls are made in between - on other iterators, on
    their copies, on combinations handed out, creating new iterators - the calls
    made on a private iterator return, in order, exactly what [lrun] computes
    from its position alone, and leave it where [lrun] leaves it.  (The only
    proviso: the iterator's array is not given away through
    GetCombinationUnsafe.) *)
Theorem sched_independent : forall ops st i a m st' es,
  Owns st i a m -> run ops st = Ok (st', es) ->
  (forall o, In o ops -> o <> OGetUnsafe i) ->
  Owns st' i a m /\
  exists gets, lrun m (map fst (view i ops es)) (current st i)
               = Ok (current st' i, map snd (view i ops es), gets).
Proof.
  induction ops as [|o ops IH]; intros st i a m st' es HO H Hno; cbn [run] in H.
  - inversion H; subst. split; [exact HO|]. exists []. reflexivity.
  - destruct (step o st) as [[st1 e]| | |] eqn:Hs; cbn [bind] in H; try discriminate.
    destruct (run ops st1) as [[st2 es2]| | |] eqn:Hr; cbn [bind] in H; try discriminate.
    inversion H; subst st' es; clear H.
    assert (Hno' : forall o', In o' ops -> o' <> OGetUnsafe i)
      by (intros o' Hin; apply Hno; right; exact Hin).
    cbn [view]. destruct (own i o) as [lo|] eqn:Eo.
    + destruct (owns_own _ _ _ _ _ _ _ _ HO Hs Eo) as (HO1 & g & El).
      destruct (IH _ _ _ _ _ _ HO1 Hr Hno') as (HO2 & gs & Er).
      split; [exact HO2|]. exists (g ++ gs). cbn [map fst snd lrun]. rewrite El. cbn [bind].
      rewrite Er. reflexivity.
    + destruct (owns_other _ _ _ _ _ _ _ HO Hs Eo) as (HO1 & Ec).
      { apply Hno. left. reflexivity. }
      destruct (IH _ _ _ _ _ _ HO1 Hr Hno') as (HO2 & gs & Er).
      split; [exact HO2|]. exists gs. rewrite <- Ec. exact Er.
Qed.

(** a new iterator is owned by whoever created it *)
Lemma new_owns st k m st1 e : WF st -> step (ONew k m) st = Ok (st1, e) ->
  Owns st1 (length (h_iters st)) (length (h_mem st)) m /\
  current st1 (length (h_iters st)) = first_comb k.
Proof.
  intros HW Hs. destruct (new_spec _ _ _ _ _ HW Hs) as (HP & Ec & _).
  split; [|exact Ec]. split; [exact HP|].
  cbn [step] in Hs. inversion Hs; subst; clear Hs. cbn [h_iters].
  rewrite nth_error_app2 by lia. rewrite Nat.sub_diag. reflexivity.
Qed.

(** Each goroutine creates its iterator and then calls it while the others do
    the same with theirs, in any order: it observes [lrun] from the first
    combination - which is what the correspondence check compares the real
    goroutines with ([thread_ok]). *)
Theorem new_then_any_schedule : forall st k m st1 e ops st' es,
  WF st -> step (ONew k m) st = Ok (st1, e) -> run ops st1 = Ok (st', es) ->
  (forall o, In o ops -> o <> OGetUnsafe (length (h_iters st))) ->
  exists gets, lrun m (map fst (view (length (h_iters st)) ops es)) (first_comb k)
               = Ok (current st' (length (h_iters st)), map snd (view (length (h_iters st)) ops es), gets).
Proof.
  intros st k m st1 e ops st' es HW Hs Hr Hno.
  destruct (new_owns _ _ _ _ _ HW Hs) as (HO & Ec).
  destruct (sched_independent _ _ _ _ _ _ _ HO Hr Hno) as (_ & gets & E).
  exists gets. rewrite <- Ec. exact E.
Qed.

(** two goroutines, two iterators, calls interleaved: each sees its own sequential run *)
Example ex_two_goroutines :
  let sched := [ONew 2 1500; ONew 3 6; ONext 0; OSeek 1 20; OID 0; ONext 1; OSeek 0 1125749; OID 1; OID 0; OAmount 1] in
  exists st es, run sched hinit = Ok (st, es) /\
    map snd (view 0 (skipn 2 sched) (skipn 2 es)) = [EBool true; EZ 1; ENone; EZ 1125749] /\
    lrun 1500 [LNext; LID; LSeek 1125749; LID] (first_comb 2)
      = Ok ([1499; 1500], [EBool true; EZ 1; ENone; EZ 1125749], []) /\
    map snd (view 1 (skipn 2 sched) (skipn 2 es)) = [ENone; EBool true; EZ 21; EZ 35] /\
    lrun 6 [LSeek 20; LNext; LID; LAmount] (first_comb 3)
      = Ok ([1; 3; 6], [ENone; EBool true; EZ 21; EZ 35], []).
Proof.
  cbv zeta. eexists. eexists. split; [vm_compute; reflexivity|]. vm_compute. repeat split; reflexivity.
Qed.

(** IDs with the top bit set (the upper half of uint64) are sought and reported
    exactly like any other: nothing in the search may read an ID as signed *)
Theorem seek_upper_half m k id : Z.of_nat k <= m + 1 -> m + 1 < 2 ^ 63 ->
  binom (Z.to_nat (m + 1)) k < 2 ^ 64 -> 2 ^ 63 <= id < binom (Z.to_nat (m + 1)) k ->
  exists s, seek m k id = Ok s /\ Valid m s /\ length s = k /\ rank m s = id /\ rank64 m s = id.
Proof.
  intros Hk Hm HB Hid.
  assert (Hid0 : 0 <= id < bz (m + 1) k).
  { unfold bz. change (2 ^ 63) with 9223372036854775808 in Hid. lia. }
  destruct (seek_total m k id Hk Hm HB Hid0) as (s & Es & Vs & Ls & Rs).
  exists s. repeat split; try assumption.
  rewrite rank64_exact; try assumption. rewrite Ls. exact HB.
Qed.

(** a hint that is wrong is simply not used *)
Example ex_wrong_hint :
  seek_h 4 3 5 [0; 1; 2] = Ok [0; 3; 4] /\ seek_h 4 3 5 [0; 3; 4] = Ok [0; 3; 4] /\
  seek_fast_ok 4 3 5 [0; 1; 2] = false /\ seek_fast_ok 4 3 5 [0; 3; 4] = true.
Proof. vm_compute. repeat split; reflexivity. Qed.

(** the upper half of the uint64 ID range is ordinary: C(967,8) lies in
    [2^63, 2^64), ID 2^63 is sought and reported exactly *)
Example ex_seek_top_bit :
  2 ^ 63 <= binom_fast 967 8 < 2 ^ 64 /\
  seek 966 8 (2 ^ 63) = Ok [80; 98; 130; 138; 149; 591; 682; 822] /\
  rank64 966 [80; 98; 130; 138; 149; 591; 682; 822] = 2 ^ 63 /\
  amount64 966 8 = binom_fast 967 8.
Proof. vm_compute. repeat split; try reflexivity; discriminate. Qed.
