(** Further proofs for C14:
    - the walker gives every NAMED node that is not below a processed section its own
      range, also when the same name occurred below processed sections before (the
      per-name visit counter advances for every named node, processed or not);
    - MeasurePCR0DATA: the reference to the IBB digest of an algorithm addresses exactly the
      hash buffer of the first list entry with that algorithm, whatever the list looks like;
    - a NodeVisitor object that is used for several Runs behaves in each of them like a fresh
      one (whatever its maps hold from before);
    - the PhysMemMapper entry points never change an array of their caller, and every answer
      of a session is a function of that call's own arguments. *)
From Coq Require Import ZArith List Bool Lia.
From CSS Require Import Lib.Base Model.AddrMap Proofs.AddrMap.
Import ListNotations.
Open Scope Z_scope.

(** * Walker: named nodes outside processed sections are located *)

(** nodes the callback is invoked for, each with "below a processed section" *)
Fixpoint visp (t : tree) (sk proc : bool) : list (tree * bool) :=
  match t with
  | T _ ps stop _ _ kids =>
      (if sk then [] else [(t, proc)]) ++ flat_map (fun k => visp k (sk || stop) (proc || ps)) kids
  end.

Definition located (p : tree * bool) : Prop := t_name (fst p) <> 0 /\ snd p = false.

Lemma spec_located fb t :
  forall sk proc cont,
    Forall2 (fun p r => located p -> r = true_range (fst p)) (visp t sk proc) (spec fb t sk proc cont).
Proof.
  induction t as [name ps stop off len kids IH] using tree_ind'.
  intros sk proc cont. cbn [visp spec].
  apply Forall2_app.
  - destruct sk; [constructor|]. constructor; [|constructor].
    intros [Hn Hp]. cbn [fst snd t_name] in Hn, Hp. subst proc.
    unfold known. apply Z.eqb_neq in Hn. rewrite Hn. reflexivity.
  - apply Forall2_flat_map. rewrite Forall_forall in IH |- *. intros k Hk. apply (IH k Hk).
Qed.

Lemma visp_vis t : forall sk proc ancs, map fst (visp t sk proc) = map fst (vis t sk ancs).
Proof.
  induction t as [name ps stop off len kids IH] using tree_ind'.
  intros sk proc ancs. cbn [visp vis]. rewrite !map_app. f_equal.
  - destruct sk; reflexivity.
  - rewrite !map_flat_map. apply flat_map_ext_Forall.
    rewrite Forall_forall in IH |- *. intros k Hk. apply (IH k Hk).
Qed.

Lemma walker_located rm fb t :
  rows_ok rm (pre t false) -> offs_ok (pre t false) ->
  exists rs, walk rm fb t = Ok rs /\
    Forall2 (fun p r => located p -> r = true_range (fst p)) (visp t false false) rs /\
    map fst (visp t false false) = map fst (vis t false []).
Proof.
  intros Hr Ho. exists (spec fb t false false None).
  split; [apply walker_computes_spec; assumption|].
  split; [apply spec_located | apply visp_vis].
Qed.

(** the counter of every name ends at the number of nodes of that name -- processed or not *)
Lemma walker_counts rm fb t :
  rows_ok rm (pre t false) -> offs_ok (pre t false) ->
  exists rs cm, visit rm fb t false false None [] = Ok (rs, cm) /\
    forall n, n <> 0 -> cm_get cm n = length (filter (has_name n) (pre t false)).
Proof.
  intros Hr Ho.
  destruct (visit_ok_all rm fb _ Hr Ho t false false None [] [] []) as (cm' & E & Hc).
  - rewrite app_nil_r. reflexivity.
  - intros n _. reflexivity.
  - intros c Hc. discriminate.
  - exists (spec fb t false false None), cm'. split; [exact E | exact Hc].
Qed.

(** a name first seen below a processed section, then outside: the later node gets its own
    range (the row consumed for it is the second one of that name) *)
Definition rep_tree : tree :=
  T 1 false false 0 4096
    [T 2 false false 96 300
       [T 0 true false 120 276
          [T 3 false false 4 200 [T 2 false false 100 40 []; T 2 false false 144 40 []]]];
     T 2 false false 400 64 [];
     T 3 false false 464 512 [T 2 false false 560 40 []]].
Definition rep_rows : rangemap :=
  [(1, [(0, 4096)]); (2, [(96, 300); (96, 40); (140, 40); (400, 64); (560, 40)]); (3, [(0, 200); (464, 512)])].

Lemma rep_rows_ok : rows_ok rep_rows (pre rep_tree false) /\ offs_ok (pre rep_tree false) /\ no_stop rep_tree = true.
Proof.
  split; [|split; [|reflexivity]].
  - intros n Hn. unfold rep_rows, rep_tree. cbn [pre flat_map app orb].
    destruct (Z.eq_dec n 1) as [->|N1]; [vm_compute; repeat constructor|].
    destruct (Z.eq_dec n 2) as [->|N2];
      [vm_compute; repeat constructor; intros; try discriminate; reflexivity|].
    destruct (Z.eq_dec n 3) as [->|N3];
      [vm_compute; repeat constructor; intros; try discriminate; reflexivity|].
    assert (E1 : (1 =? n) = false) by (apply Z.eqb_neq; lia).
    assert (E2 : (2 =? n) = false) by (apply Z.eqb_neq; lia).
    assert (E3 : (3 =? n) = false) by (apply Z.eqb_neq; lia).
    assert (E0 : (0 =? n) = false) by (apply Z.eqb_neq; lia).
    unfold has_name. cbn [rm_get filter t_name fst]. rewrite ?E1, ?E2, ?E3, ?E0. constructor.
  - intros p Hp. unfold rep_tree in Hp. cbn [pre flat_map app orb] in Hp.
    repeat (destruct Hp as [<-|Hp]; [cbn; unfold MAXU64; lia|]). destruct Hp.
Qed.

Lemma rep_walk :
  walk rep_rows false rep_tree
  = Ok [(0, 4096); (96, 300); (MAXU64, 276); (MAXU64, 200); (MAXU64, 40); (MAXU64, 40);
        (400, 64); (464, 512); (560, 40)].
Proof. vm_compute; reflexivity. Qed.

(** * PCR0_DATA: the IBB digest reference *)

Definition le16 (v : Z) : list Z := [v mod 256; v / 256].

(** an entry of the digest list with its bytes; on flash: HashAlg(2) Size(2) HashBuffer *)
Definition dentry : Type := (Z * list Z)%type.
Definition ser_entry (e : dentry) : list Z := le16 (fst e) ++ le16 (Z.of_nat (length (snd e))) ++ snd e.
Definition ser_list (es : list dentry) : list Z := flat_map ser_entry es.
Definition shape_of (es : list dentry) : digest_shape := map (fun e => (fst e, Z.of_nat (length (snd e)))) es.

Definition slice (off len : Z) (l : list Z) : list Z := firstn (Z.to_nat len) (skipn (Z.to_nat off) l).

Lemma ser_entry_length e : Z.of_nat (length (ser_entry e)) = 4 + Z.of_nat (length (snd e)).
Proof. unfold ser_entry, le16. rewrite !app_length. cbn [length]. lia. Qed.

Lemma slice_app_skip (pre rest : list Z) off len :
  0 <= off -> slice (Z.of_nat (length pre) + off) len (pre ++ rest) = slice off len rest.
Proof.
  intros H. unfold slice. f_equal.
  rewrite Z2Nat.inj_add by lia. rewrite Nat2Z.id.
  rewrite skipn_app. rewrite skipn_all2 by lia. cbn [app].
  f_equal. lia.
Qed.

Lemma slice_entry e rest :
  slice 4 (Z.of_nat (length (snd e))) (ser_entry e ++ rest) = snd e.
Proof.
  unfold slice, ser_entry, le16. rewrite Nat2Z.id. cbn [app]. change (Z.to_nat 4) with 4%nat.
  cbn [skipn]. rewrite firstn_app, firstn_all, Nat.sub_diag.
  cbn [firstn]. apply app_nil_r.
Qed.

(** soundness, generalised over the distance already walked *)
Lemma digest_find_sound es :
  forall acc alg off len, 0 <= acc ->
    digest_find (shape_of es) acc alg = Some (off, len) ->
    exists before e after,
      es = before ++ e :: after /\ fst e = alg /\ Forall (fun x => fst x <> alg) before /\
      off = acc + Z.of_nat (length (ser_list before)) + 4 /\
      len = Z.of_nat (length (snd e)) /\
      slice (off - acc) len (ser_list es) = snd e.
Proof.
  induction es as [|e es IH]; intros acc alg off len Hacc H; cbn [shape_of map digest_find] in H.
  - discriminate.
  - destruct (fst e =? alg) eqn:E.
    + apply Z.eqb_eq in E. injection H as <- <-.
      exists [], e, es. cbn [app ser_list flat_map length].
      repeat split; try assumption; try constructor; try lia.
      replace (acc + 4 - acc) with 4 by lia. apply slice_entry.
    + apply Z.eqb_neq in E.
      destruct (IH (acc + 4 + Z.of_nat (length (snd e))) alg off len ltac:(lia) H)
        as (before & e' & after & -> & Ha & Hb & Hoff & Hlen & Hs).
      exists (e :: before), e', after. cbn [app ser_list flat_map].
      fold (ser_list before). fold (ser_list (before ++ e' :: after)) in *.
      rewrite app_length. pose proof (ser_entry_length e) as L.
      repeat split; try assumption; try (constructor; assumption); try lia.
      replace (off - acc) with (Z.of_nat (length (ser_entry e)) + (off - (acc + 4 + Z.of_nat (length (snd e))))) by lia.
      rewrite slice_app_skip by lia. exact Hs.
Qed.

Lemma digest_find_none es :
  forall acc alg, digest_find (shape_of es) acc alg = None <-> Forall (fun x => fst x <> alg) es.
Proof.
  induction es as [|e es IH]; intros acc alg; cbn [shape_of map digest_find].
  - split; [constructor | reflexivity].
  - destruct (fst e =? alg) eqn:E.
    + apply Z.eqb_eq in E. split; [discriminate|]. intros H. inversion H. contradiction.
    + apply Z.eqb_neq in E. fold (shape_of es). rewrite IH. split.
      * intros H. constructor; assumption.
      * intros H. inversion H. assumption.
Qed.

(** The statement for the reference itself: [first] is the address of the first list entry,
    [mem a] the byte at address [a]; the list's bytes lie at [first ..]. *)
Lemma pcr0_digest_exact first es alg addr len :
  0 <= first -> first + Z.of_nat (length (ser_list es)) < W64 ->
  pcr0_digest_ref first (shape_of es) alg = Some (addr, len) ->
  exists before e after,
    es = before ++ e :: after /\ fst e = alg /\ Forall (fun x => fst x <> alg) before /\
    addr = first + Z.of_nat (length (ser_list before)) + 4 /\
    len = Z.of_nat (length (snd e)) /\
    slice (addr - first) len (ser_list es) = snd e.
Proof.
  intros Hf Hfit H. unfold pcr0_digest_ref in H.
  destruct (digest_find (shape_of es) 0 alg) as [[rel l]|] eqn:E; [|discriminate].
  injection H as <- <-.
  destruct (digest_find_sound es 0 alg rel l ltac:(lia) E)
    as (before & e & after & Hes & Ha & Hb & Hoff & Hlen & Hs).
  exists before, e, after.
  assert (Hin : first + rel < W64).
  { subst es rel. unfold ser_list in Hfit. rewrite flat_map_app, app_length in Hfit.
    cbn [flat_map] in Hfit. rewrite app_length in Hfit. pose proof (ser_entry_length e).
    fold (ser_list before) in Hfit. lia. }
  assert (Hw : wrap64 (first + rel) = first + rel).
  { rewrite wrap64_mod. apply Z.mod_small. unfold W64 in *. lia. }
  rewrite Hw. repeat split; try assumption; try lia.
  replace (first + rel - first) with (rel - 0) by lia. exact Hs.
Qed.

Lemma pcr0_digest_none first es alg :
  pcr0_digest_ref first (shape_of es) alg = None <-> Forall (fun x => fst x <> alg) es.
Proof.
  unfold pcr0_digest_ref. rewrite <- (digest_find_none es 0 alg).
  destruct (digest_find (shape_of es) 0 alg) as [[rel l]|]; split; intros H; try discriminate; reflexivity.
Qed.

(** what is referenced for one algorithm does not depend on which algorithms were looked up
    before it: the list of references is the per-algorithm reference, algorithm by algorithm *)
Lemma pcr0_digest_refs_pointwise first ds :
  pcr0_digest_refs first ds = [pcr0_digest_ref first ds ALG_SHA1; pcr0_digest_ref first ds ALG_SHA256].
Proof. reflexivity. Qed.

(** the hypotheses are satisfiable: SHA256 first, then SM3, then SHA1 *)
Definition ex_digests : list dentry :=
  [(11, [1;2;3;4;5;6;7;8]); (18, [9;9]); (4, [20;21;22;23;24])].

Lemma ex_digest_refs :
  pcr0_digest_refs 4294924000 (shape_of ex_digests) = [Some (4294924022, 5); Some (4294924004, 8)] /\
  slice (4294924022 - 4294924000) 5 (ser_list ex_digests) = [20;21;22;23;24] /\
  slice (4294924004 - 4294924000) 8 (ser_list ex_digests) = [1;2;3;4;5;6;7;8].
Proof. repeat split; vm_compute; reflexivity. Qed.

(** * A reused NodeVisitor: every Run is the walk of a fresh visitor *)

Definition walk_of (r : vrun) : outcome (list range) :=
  match r with (t, rows, fb) => walk rows fb t end.

Lemma run_v_walk st rows fb t : fst (run_v st rows fb t) = walk rows fb t.
Proof.
  unfold run_v, walk. cbn [vs_rm vs_cm].
  destruct (visit rows fb t false false None []) as [[rs cm]| | |]; reflexivity.
Qed.

Lemma walker_session_stateless st runs : vsession st runs = map walk_of runs.
Proof.
  revert st. induction runs as [|[[t rows] fb] tl IH]; intros st; [reflexivity|].
  cbn [vsession map walk_of].
  pose proof (run_v_walk st rows fb t) as H.
  destruct (run_v st rows fb t) as [o st']. cbn [fst] in H. subst o.
  rewrite IH. reflexivity.
Qed.

Definition run_rows_ok (r : vrun) : Prop :=
  match r with (t, rows, fb) => rows_ok rows (pre t false) /\ offs_ok (pre t false) end.

Definition run_denotes (r : vrun) (o : outcome (list range)) : Prop :=
  match r with (t, rows, fb) =>
    exists rs, o = Ok rs /\
      Forall2 (denotes fb) (vis t false []) rs /\
      Forall2 (fun p r => located p -> r = true_range (fst p)) (visp t false false) rs /\
      (no_stop t = true -> map fst (vis t false []) = map fst (pre t false))
  end.

Lemma walker_session_partial st runs :
  Forall run_rows_ok runs -> Forall2 run_denotes runs (vsession st runs).
Proof.
  rewrite walker_session_stateless.
  induction 1 as [|[[t rows] fb] tl [Hr Ho] _ IH]; [constructor|].
  cbn [map]. constructor; [|exact IH].
  cbn [run_denotes walk_of].
  destruct (walker_partial rows fb t Hr Ho) as (rs & E & Hd & _ & Hn).
  destruct (walker_located rows fb t Hr Ho) as (rs' & E' & Hl & _).
  rewrite E in E'. injection E' as <-.
  exists rs. repeat split; assumption.
Qed.

(** The statement has teeth: a visitor that harvests the rows only on its first Run
    ("build the map once per visitor") is NOT stateless -- second Run on the same image
    behind a 4 KiB flash descriptor: the volume is reported where it was in the first image. *)
Definition run_v_keep (st : vstate) (rows : rangemap) (fb : bool) (t : tree) : outcome (list range) * vstate :=
  let rm := match vs_rm st with [] => rows | _ => vs_rm st end in
  match visit rm fb t false false None [] with
  | Ok (rs, cm) => (Ok rs, mkV rm cm)
  | Err c => (Err c, mkV rm []) | Panic => (Panic, mkV rm []) | OutOfFuel => (OutOfFuel, mkV rm [])
  end.

Definition stale_t1 : tree := T 1 false false 0 8192 [T 2 false false 0 4096 []].
Definition stale_t2 : tree := T 1 false false 0 12288 [T 2 false false 4096 4096 []].
Definition stale_rows1 : rangemap := [(1, [(0, 8192)]); (2, [(0, 4096)])].
Definition stale_rows2 : rangemap := [(1, [(0, 12288)]); (2, [(4096, 4096)])].

Lemma stale_rows_ok t rows :
  (t = stale_t1 /\ rows = stale_rows1) \/ (t = stale_t2 /\ rows = stale_rows2) ->
  run_rows_ok (t, rows, false).
Proof.
  intros H. split.
  - intros n Hn.
    assert (E0 : (0 =? n) = false) by (apply Z.eqb_neq; lia).
    destruct (Z.eq_dec n 1) as [->|N1];
      [destruct H as [[-> ->]|[-> ->]]; vm_compute; repeat constructor|].
    destruct (Z.eq_dec n 2) as [->|N2];
      [destruct H as [[-> ->]|[-> ->]]; vm_compute; repeat constructor|].
    assert (E1 : (1 =? n) = false) by (apply Z.eqb_neq; lia).
    assert (E2 : (2 =? n) = false) by (apply Z.eqb_neq; lia).
    destruct H as [[-> ->]|[-> ->]]; unfold has_name, stale_rows1, stale_rows2, stale_t1, stale_t2;
      cbn [pre flat_map app orb rm_get filter t_name fst]; rewrite ?E1, ?E2, ?E0; constructor.
  - intros p Hp.
    destruct H as [[-> _]|[-> _]]; unfold stale_t1, stale_t2 in Hp; cbn [pre flat_map app orb] in Hp;
      repeat (destruct Hp as [<-|Hp]; [cbn; unfold MAXU64; lia|]); destruct Hp.
Qed.

Lemma walker_stale_rows_witness :
  run_rows_ok (stale_t1, stale_rows1, false) /\ run_rows_ok (stale_t2, stale_rows2, false) /\
  let (o1, st1) := run_v_keep v_fresh stale_rows1 false stale_t1 in
  let (o2, _) := run_v_keep st1 stale_rows2 false stale_t2 in
  o1 = walk stale_rows1 false stale_t1 /\
  o2 = Ok [(0, 12288); (0, 4096)] /\
  walk stale_rows2 false stale_t2 = Ok [(0, 12288); (4096, 4096)].
Proof.
  split; [apply stale_rows_ok; left; split; reflexivity|].
  split; [apply stale_rows_ok; right; split; reflexivity|].
  vm_compute. repeat split.
Qed.

(** * Mapper sessions: arguments are never modified, answers depend on the arguments only *)

Definition is_call (o : mop) : bool := match o with MCall _ _ _ _ _ _ => true | MWrite _ _ _ => false end.

Lemma firstn_app_exact {A} (l m : list A) : firstn (length l) (l ++ m) = l.
Proof. rewrite firstn_app, Nat.sub_diag, firstn_all. cbn. apply app_nil_r. Qed.

(** one call: every array that existed before is exactly as it was (the one the argument is a
    slice of included, all of it -- also the elements before, behind and beyond the slice),
    and the answer is one new array *)
Lemma mapper_call_preserves h which size bios a lo n :
  let (res, h') := mop_step h (MCall which size bios a lo n) in
  res = Some (pmm_apply which size bios (heap_slice h a lo n)) /\
  firstn (length h) h' = h /\ length h' = S (length h) /\
  nth (length h) h' [] = answer_array (pmm_apply which size bios (heap_slice h a lo n)).
Proof.
  cbn [mop_step]. split; [reflexivity|]. split; [apply firstn_app_exact|].
  split; [rewrite app_length; cbn; lia|].
  rewrite app_nth2, Nat.sub_diag; [reflexivity|lia].
Qed.

Lemma msession_calls_extend h ops :
  forallb is_call ops = true ->
  exists added, snd (msession h ops) = h ++ added /\ length added = length ops.
Proof.
  revert h. induction ops as [|o tl IH]; intros h Hc.
  - exists []. cbn. rewrite app_nil_r. split; reflexivity.
  - cbn [forallb] in Hc. apply andb_true_iff in Hc as [Ho Ht].
    destruct o as [which size bios a lo n|]; [|discriminate].
    cbn [msession mop_step].
    destruct (IH (h ++ [answer_array (pmm_apply which size bios (heap_slice h a lo n))]) Ht) as (added & E & L).
    destruct (msession _ tl) as [rs h2]. cbn [snd] in E |- *.
    exists (answer_array (pmm_apply which size bios (heap_slice h a lo n)) :: added).
    rewrite E, <- app_assoc. split; [reflexivity|cbn; lia].
Qed.

(** a whole session of calls: the caller's arrays at the end are what they were at the start *)
Lemma mapper_session_frame h ops :
  forallb is_call ops = true -> firstn (length h) (snd (msession h ops)) = h.
Proof.
  intros Hc. destruct (msession_calls_extend h ops Hc) as (added & E & _).
  rewrite E. apply firstn_app_exact.
Qed.

Lemma heap_slice_app h added a lo n : (a < length h)%nat -> heap_slice (h ++ added) a lo n = heap_slice h a lo n.
Proof. intros H. unfold heap_slice. rewrite app_nth1 by exact H. reflexivity. Qed.

(** ... and the answer of EVERY call on one of the caller's arrays is the function of that
    call's own arguments as they were when the session began -- whatever was converted before
    (the same list, an overlapping slice, another direction, another artifact) *)
Lemma mapper_session_independent h ops :
  forallb is_call ops = true ->
  forall k which size bios a lo n,
    nth_error ops k = Some (MCall which size bios a lo n) -> (a < length h)%nat ->
    nth_error (fst (msession h ops)) k = Some (Some (pmm_apply which size bios (heap_slice h a lo n))).
Proof.
  revert h. induction ops as [|o tl IH]; intros h Hc k which size bios a lo n Hk Ha.
  - destruct k; discriminate.
  - cbn [forallb] in Hc. apply andb_true_iff in Hc as [Ho Ht].
    destruct o as [w0 s0 b0 a0 lo0 n0|]; [|discriminate].
    cbn [msession mop_step].
    specialize (IH (h ++ [answer_array (pmm_apply w0 s0 b0 (heap_slice h a0 lo0 n0))]) Ht).
    destruct (msession _ tl) as [rs h2]. cbn [fst] in IH |- *.
    destruct k as [|k].
    + cbn in Hk. injection Hk as -> -> -> -> -> ->. reflexivity.
    + cbn [nth_error] in Hk |- *.
      rewrite (IH k which size bios a lo n Hk).
      * rewrite heap_slice_app by exact Ha. reflexivity.
      * rewrite app_length. cbn. lia.
Qed.

(** converting the same list twice gives the same answer twice *)
Lemma mapper_session_twice h ops i j which size bios a lo n :
  forallb is_call ops = true ->
  nth_error ops i = Some (MCall which size bios a lo n) ->
  nth_error ops j = Some (MCall which size bios a lo n) -> (a < length h)%nat ->
  nth_error (fst (msession h ops)) i = nth_error (fst (msession h ops)) j /\
  nth_error (fst (msession h ops)) i = Some (Some (pmm_apply which size bios (heap_slice h a lo n))).
Proof.
  intros Hc Hi Hj Ha.
  rewrite (mapper_session_independent h ops Hc i _ _ _ _ _ _ Hi Ha).
  rewrite (mapper_session_independent h ops Hc j _ _ _ _ _ _ Hj Ha). split; reflexivity.
Qed.

(** list -> addresses -> back (and the other way round), the second call being given the
    ANSWER of the first: the original list, which is itself still in place *)
Lemma mapper_session_roundtrip h size a lo n :
  (a < length h)%nat -> Forall (fun r => u64 (fst r)) (heap_slice h a lo n) ->
  let l := heap_slice h a lo n in
  fst (msession h [MCall 3 size None a lo n; MCall 1 size None (length h) 0 (length l)])
    = [Some (Ok (map_ranges (pmm_unresolve size) l)); Some (Ok l)] /\
  fst (msession h [MCall 0 size None a lo n; MCall 2 size None (length h) 0 (length l)])
    = [Some (Ok (map_ranges (pmm_resolve size) l)); Some (Ok l)] /\
  firstn (length h) (snd (msession h [MCall 3 size None a lo n; MCall 1 size None (length h) 0 (length l)])) = h.
Proof.
  intros Ha Hu l.
  assert (Hs : forall f, heap_slice (h ++ [map_ranges f l]) (length h) 0 (length l) = map_ranges f l).
  { intros f. unfold heap_slice. rewrite app_nth2, Nat.sub_diag by lia. cbn [nth skipn].
    rewrite <- (map_ranges_length f l). apply firstn_all. }
  destruct (resolve_unresolve_ranges size l Hu) as [R1 R2].
  cbn [bind pmm_unresolve_ranges pmm_resolve_ranges] in R1, R2.
  split; [|split].
  - cbn [msession mop_step fst]. fold l.
    change (pmm_apply 3 size None l) with (Ok (map_ranges (pmm_unresolve size) l)).
    cbn [answer_array]. rewrite Hs.
    change (pmm_apply 1 size None (map_ranges (pmm_unresolve size) l)) with (pmm_resolve_ranges size (map_ranges (pmm_unresolve size) l)).
    unfold pmm_resolve_ranges. injection R1 as R1. rewrite R1. reflexivity.
  - cbn [msession mop_step fst]. fold l.
    change (pmm_apply 0 size None l) with (Ok (map_ranges (pmm_resolve size) l)).
    cbn [answer_array]. rewrite Hs.
    change (pmm_apply 2 size None (map_ranges (pmm_resolve size) l)) with (pmm_unresolve_ranges size (map_ranges (pmm_resolve size) l)).
    unfold pmm_unresolve_ranges. injection R2 as R2. rewrite R2. reflexivity.
  - apply mapper_session_frame. reflexivity.
Qed.

Lemma set_nth_other {A} (l : list A) i j x d : i <> j -> nth j (set_nth l i x) d = nth j l d.
Proof.
  revert i j. induction l as [|y t IH]; intros i j H; [destruct i; reflexivity|].
  destruct i, j; cbn; try reflexivity; [congruence|]. apply IH. congruence.
Qed.

(** an answer is memory of its own: what the caller does to its list afterwards does not
    reach the answer it was given (and a write into the answer does not reach the list) *)
Lemma mapper_answer_private h a i r b :
  a <> b -> nth b (heap_write h a i r) [] = nth b h [].
Proof.
  intros H. unfold heap_write. destruct (nth_error h a); [|reflexivity].
  apply set_nth_other. exact H.
Qed.

Example mapper_session_example :
  msession [[(4294901760, 16); (4294905856, 32); (7, 7)]]
           [MCall 1 65536 None 0 0 2; MCall 1 65536 None 0 0 2; MCall 3 65536 None 1 0 2; MWrite 0 0 (1, 1)]
  = ([Some (Ok [(0, 16); (4096, 32)]); Some (Ok [(0, 16); (4096, 32)]);
      Some (Ok [(4294901760, 16); (4294905856, 32)]); None],
     [[(1, 1); (4294905856, 32); (7, 7)]; [(0, 16); (4096, 32)]; [(0, 16); (4096, 32)];
      [(4294901760, 16); (4294905856, 32)]]).
Proof. reflexivity. Qed.
