(** Further proofs for C14:
    - the walker gives every NAMED node that is not below a processed section its own
      range, also when the same name occurred below processed sections before (the
      per-name visit counter advances for every named node, processed or not);
    - MeasurePCR0DATA: the reference to the IBB digest of an algorithm addresses exactly the
      hash buffer of the first list entry with that algorithm, whatever the list looks like. *)
From Coq Require Import ZArith List Bool Lia.
From CSS Require Import Lib.Base Model.AddrMap Proofs.AddrMap.
Import ListNotations.
Open Scope Z_scope.

(** * Walker: named nodes outside processed sections are located *)

(** nodes the callback is invoked for, each with "below a processed section" *)
Fixpoint visp (t : tree) (sk proc : bool) : list (tree * bool) :=
  match t with
  | T _ ps stop _ _ kids =>
      (if sk then [] else [(t, proc)]) ++ flat_map (fun k => visp k (sk || stop) (proc || ps)) kids
  end.

Definition located (p : tree * bool) : Prop := t_name (fst p) <> 0 /\ snd p = false.

Lemma spec_located fb t :
  forall sk proc cont,
    Forall2 (fun p r => located p -> r = true_range (fst p)) (visp t sk proc) (spec fb t sk proc cont).
Proof.
  induction t as [name ps stop off len kids IH] using tree_ind'.
  intros sk proc cont. cbn [visp spec].
  apply Forall2_app.
  - destruct sk; [constructor|]. constructor; [|constructor].
    intros [Hn Hp]. cbn [fst snd t_name] in Hn, Hp. subst proc.
    unfold known. apply Z.eqb_neq in Hn. rewrite Hn. reflexivity.
  - apply Forall2_flat_map. rewrite Forall_forall in IH |- *. intros k Hk. apply (IH k Hk).
Qed.

Lemma visp_vis t : forall sk proc ancs, map fst (visp t sk proc) = map fst (vis t sk ancs).
Proof.
  induction t as [name ps stop off len kids IH] using tree_ind'.
  intros sk proc ancs. cbn [visp vis]. rewrite !map_app. f_equal.
  - destruct sk; reflexivity.
  - rewrite !map_flat_map. apply flat_map_ext_Forall.
    rewrite Forall_forall in IH |- *. intros k Hk. apply (IH k Hk).
Qed.

Lemma walker_located rm fb t :
  rows_ok rm (pre t false) -> offs_ok (pre t false) ->
  exists rs, walk rm fb t = Ok rs /\
    Forall2 (fun p r => located p -> r = true_range (fst p)) (visp t false false) rs /\
    map fst (visp t false false) = map fst (vis t false []).
Proof.
  intros Hr Ho. exists (spec fb t false false None).
  split; [apply walker_computes_spec; assumption|].
  split; [apply spec_located | apply visp_vis].
Qed.

(** the counter of every name ends at the number of nodes of that name -- processed or not *)
Lemma walker_counts rm fb t :
  rows_ok rm (pre t false) -> offs_ok (pre t false) ->
  exists rs cm, visit rm fb t false false None [] = Ok (rs, cm) /\
    forall n, n <> 0 -> cm_get cm n = length (filter (has_name n) (pre t false)).
Proof.
  intros Hr Ho.
  destruct (visit_ok_all rm fb _ Hr Ho t false false None [] [] []) as (cm' & E & Hc).
  - rewrite app_nil_r. reflexivity.
  - intros n _. reflexivity.
  - intros c Hc. discriminate.
  - exists (spec fb t false false None), cm'. split; [exact E | exact Hc].
Qed.

(** a name first seen below a processed section, then outside: the later node gets its own
    range (the row consumed for it is the second one of that name) *)
Definition rep_tree : tree :=
  T 1 false false 0 4096
    [T 2 false false 96 300
       [T 0 true false 120 276
          [T 3 false false 4 200 [T 2 false false 100 40 []; T 2 false false 144 40 []]]];
     T 2 false false 400 64 [];
     T 3 false false 464 512 [T 2 false false 560 40 []]].
Definition rep_rows : rangemap :=
  [(1, [(0, 4096)]); (2, [(96, 300); (96, 40); (140, 40); (400, 64); (560, 40)]); (3, [(0, 200); (464, 512)])].

Lemma rep_rows_ok : rows_ok rep_rows (pre rep_tree false) /\ offs_ok (pre rep_tree false) /\ no_stop rep_tree = true.
Proof.
  split; [|split; [|reflexivity]].
  - intros n Hn. unfold rep_rows, rep_tree. cbn [pre flat_map app orb].
    destruct (Z.eq_dec n 1) as [->|N1]; [vm_compute; repeat constructor|].
    destruct (Z.eq_dec n 2) as [->|N2];
      [vm_compute; repeat constructor; intros; try discriminate; reflexivity|].
    destruct (Z.eq_dec n 3) as [->|N3];
      [vm_compute; repeat constructor; intros; try discriminate; reflexivity|].
    assert (E1 : (1 =? n) = false) by (apply Z.eqb_neq; lia).
    assert (E2 : (2 =? n) = false) by (apply Z.eqb_neq; lia).
    assert (E3 : (3 =? n) = false) by (apply Z.eqb_neq; lia).
    assert (E0 : (0 =? n) = false) by (apply Z.eqb_neq; lia).
    unfold has_name. cbn [rm_get filter t_name fst]. rewrite ?E1, ?E2, ?E3, ?E0. constructor.
  - intros p Hp. unfold rep_tree in Hp. cbn [pre flat_map app orb] in Hp.
    repeat (destruct Hp as [<-|Hp]; [cbn; unfold MAXU64; lia|]). destruct Hp.
Qed.

Lemma rep_walk :
  walk rep_rows false rep_tree
  = Ok [(0, 4096); (96, 300); (MAXU64, 276); (MAXU64, 200); (MAXU64, 40); (MAXU64, 40);
        (400, 64); (464, 512); (560, 40)].
Proof. vm_compute; reflexivity. Qed.

(** * PCR0_DATA: the IBB digest reference *)

Definition le16 (v : Z) : list Z := [v mod 256; v / 256].

(** an entry of the digest list with its bytes; on flash: HashAlg(2) Size(2) HashBuffer *)
Definition dentry : Type := (Z * list Z)%type.
Definition ser_entry (e : dentry) : list Z := le16 (fst e) ++ le16 (Z.of_nat (length (snd e))) ++ snd e.
Definition ser_list (es : list dentry) : list Z := flat_map ser_entry es.
Definition shape_of (es : list dentry) : digest_shape := map (fun e => (fst e, Z.of_nat (length (snd e)))) es.

Definition slice (off len : Z) (l : list Z) : list Z := firstn (Z.to_nat len) (skipn (Z.to_nat off) l).

Lemma ser_entry_length e : Z.of_nat (length (ser_entry e)) = 4 + Z.of_nat (length (snd e)).
Proof. unfold ser_entry, le16. rewrite !app_length. cbn [length]. lia. Qed.

Lemma slice_app_skip (pre rest : list Z) off len :
  0 <= off -> slice (Z.of_nat (length pre) + off) len (pre ++ rest) = slice off len rest.
Proof.
  intros H. unfold slice. f_equal.
  rewrite Z2Nat.inj_add by lia. rewrite Nat2Z.id.
  rewrite skipn_app. rewrite skipn_all2 by lia. cbn [app].
  f_equal. lia.
Qed.

Lemma slice_entry e rest :
  slice 4 (Z.of_nat (length (snd e))) (ser_entry e ++ rest) = snd e.
Proof.
  unfold slice, ser_entry, le16. rewrite Nat2Z.id. cbn [app]. change (Z.to_nat 4) with 4%nat.
  cbn [skipn]. rewrite firstn_app, firstn_all, Nat.sub_diag.
  cbn [firstn]. apply app_nil_r.
Qed.

(** soundness, generalised over the distance already walked *)
Lemma digest_find_sound es :
  forall acc alg off len, 0 <= acc ->
    digest_find (shape_of es) acc alg = Some (off, len) ->
    exists before e after,
      es = before ++ e :: after /\ fst e = alg /\ Forall (fun x => fst x <> alg) before /\
      off = acc + Z.of_nat (length (ser_list before)) + 4 /\
      len = Z.of_nat (length (snd e)) /\
      slice (off - acc) len (ser_list es) = snd e.
Proof.
  induction es as [|e es IH]; intros acc alg off len Hacc H; cbn [shape_of map digest_find] in H.
  - discriminate.
  - destruct (fst e =? alg) eqn:E.
    + apply Z.eqb_eq in E. injection H as <- <-.
      exists [], e, es. cbn [app ser_list flat_map length].
      repeat split; try assumption; try constructor; try lia.
      replace (acc + 4 - acc) with 4 by lia. apply slice_entry.
    + apply Z.eqb_neq in E.
      destruct (IH (acc + 4 + Z.of_nat (length (snd e))) alg off len ltac:(lia) H)
        as (before & e' & after & -> & Ha & Hb & Hoff & Hlen & Hs).
      exists (e :: before), e', after. cbn [app ser_list flat_map].
      fold (ser_list before). fold (ser_list (before ++ e' :: after)) in *.
      rewrite app_length. pose proof (ser_entry_length e) as L.
      repeat split; try assumption; try (constructor; assumption); try lia.
      replace (off - acc) with (Z.of_nat (length (ser_entry e)) + (off - (acc + 4 + Z.of_nat (length (snd e))))) by lia.
      rewrite slice_app_skip by lia. exact Hs.
Qed.

Lemma digest_find_none es :
  forall acc alg, digest_find (shape_of es) acc alg = None <-> Forall (fun x => fst x <> alg) es.
Proof.
  induction es as [|e es IH]; intros acc alg; cbn [shape_of map digest_find].
  - split; [constructor | reflexivity].
  - destruct (fst e =? alg) eqn:E.
    + apply Z.eqb_eq in E. split; [discriminate|]. intros H. inversion H. contradiction.
    + apply Z.eqb_neq in E. fold (shape_of es). rewrite IH. split.
      * intros H. constructor; assumption.
      * intros H. inversion H. assumption.
Qed.

(** The statement for the reference itself: [first] is the address of the first list entry,
    [mem a] the byte at address [a]; the list's bytes lie at [first ..]. *)
Lemma pcr0_digest_exact first es alg addr len :
  0 <= first -> first + Z.of_nat (length (ser_list es)) < W64 ->
  pcr0_digest_ref first (shape_of es) alg = Some (addr, len) ->
  exists before e after,
    es = before ++ e :: after /\ fst e = alg /\ Forall (fun x => fst x <> alg) before /\
    addr = first + Z.of_nat (length (ser_list before)) + 4 /\
    len = Z.of_nat (length (snd e)) /\
    slice (addr - first) len (ser_list es) = snd e.
Proof.
  intros Hf Hfit H. unfold pcr0_digest_ref in H.
  destruct (digest_find (shape_of es) 0 alg) as [[rel l]|] eqn:E; [|discriminate].
  injection H as <- <-.
  destruct (digest_find_sound es 0 alg rel l ltac:(lia) E)
    as (before & e & after & Hes & Ha & Hb & Hoff & Hlen & Hs).
  exists before, e, after.
  assert (Hin : first + rel < W64).
  { subst es rel. unfold ser_list in Hfit. rewrite flat_map_app, app_length in Hfit.
    cbn [flat_map] in Hfit. rewrite app_length in Hfit. pose proof (ser_entry_length e).
    fold (ser_list before) in Hfit. lia. }
  assert (Hw : wrap64 (first + rel) = first + rel).
  { rewrite wrap64_mod. apply Z.mod_small. unfold W64 in *. lia. }
  rewrite Hw. repeat split; try assumption; try lia.
  replace (first + rel - first) with (rel - 0) by lia. exact Hs.
Qed.

Lemma pcr0_digest_none first es alg :
  pcr0_digest_ref first (shape_of es) alg = None <-> Forall (fun x => fst x <> alg) es.
Proof.
  unfold pcr0_digest_ref. rewrite <- (digest_find_none es 0 alg).
  destruct (digest_find (shape_of es) 0 alg) as [[rel l]|]; split; intros H; try discriminate; reflexivity.
Qed.

(** what is referenced for one algorithm does not depend on which algorithms were looked up
    before it: the list of references is the per-algorithm reference, algorithm by algorithm *)
Lemma pcr0_digest_refs_pointwise first ds :
  pcr0_digest_refs first ds = [pcr0_digest_ref first ds ALG_SHA1; pcr0_digest_ref first ds ALG_SHA256].
Proof. reflexivity. Qed.

(** the hypotheses are satisfiable: SHA256 first, then SM3, then SHA1 *)
Definition ex_digests : list dentry :=
  [(11, [1;2;3;4;5;6;7;8]); (18, [9;9]); (4, [20;21;22;23;24])].

Lemma ex_digest_refs :
  pcr0_digest_refs 4294924000 (shape_of ex_digests) = [Some (4294924022, 5); Some (4294924004, 8)] /\
  slice (4294924022 - 4294924000) 5 (ser_list ex_digests) = [20;21;22;23;24] /\
  slice (4294924004 - 4294924000) 8 (ser_list ex_digests) = [1;2;3;4;5;6;7;8].
Proof. repeat split; vm_compute; reflexivity. Qed.
