(** Proofs about the slice-level model of the validators (Model/ValidatorsHeap.v):
    what validating a log does to the memory behind the log.

    Main result ([vap_keeps], [vfc_keeps]): if the range slices of the log lie
    inside their arrays and two of them are either the same window or disjoint
    ([WFheap]) -- whatever their capacities are --, then
    ValidatorActorsAreProtected and ValidatorFinalCoverageIsComplete change the
    backing arrays only by sorting windows in place: afterwards every slice of
    the log holds a permutation of the ranges it held before ([kept]), hence
    every reference of the log denotes the same bytes ([kept_den]) and any later
    pass is given the same flow.  (References.SortAndMerge re-allocates before it
    appends; the log with a one-range slice with spare capacity that the former
    finding C10-shared-backing-append was about is [bad_log] below.) *)
From Coq Require Import Permutation.
From CSS Require Import Lib.Base Model.Ranges Model.Refs Model.Validators Model.ValidatorsHeap
  Proofs.Ranges Proofs.Refs.

(** ** Vocabulary *)

(** the window lies inside its array *)
Definition inb (h : heap) (w : sl) : Prop := (sl_off w + sl_len w <= length (nth (sl_arr w) h []))%nat.
Definition same_win (w w' : sl) : Prop :=
  sl_arr w = sl_arr w' /\ sl_off w = sl_off w' /\ sl_len w = sl_len w'.
Definition sep (w w' : sl) : Prop :=
  sl_arr w <> sl_arr w' \/ (sl_off w + sl_len w <= sl_off w')%nat \/ (sl_off w' + sl_len w' <= sl_off w)%nat.

Definition WFheap (h : heap) (W : list sl) : Prop :=
  Forall (inb h) W /\ forall w w', In w W -> In w' W -> same_win w w' \/ sep w w'.

(** [h] is [h0] up to the order of the ranges inside each window of [W] *)
Definition kept (h0 : heap) (W : list sl) (h : heap) : Prop :=
  (forall a, length (nth a h []) = length (nth a h0 [])) /\
  forall w, In w W -> Permutation (rd h0 w) (rd h w).

Lemma kept_refl h W : kept h W h.
Proof. split; intros; reflexivity. Qed.

(** ** Reading and writing windows *)

Lemma upd_nth_length {A} (f : A -> A) : forall n l, length (upd_nth n f l) = length l.
Proof. induction n; destruct l; cbn; auto. Qed.

Lemma nth_upd_nth_same {A} (f : A -> A) d : forall n l, (n < length l)%nat -> nth n (upd_nth n f l) d = f (nth n l d).
Proof. induction n; destruct l; cbn; intros; try lia; auto. apply IHn. lia. Qed.

Lemma nth_upd_nth_other {A} (f : A -> A) d : forall n m l, n <> m -> nth m (upd_nth n f l) d = nth m l d.
Proof. induction n; destruct l, m; cbn; intros; try congruence; auto. Qed.

Lemma upd_nth_beyond {A} (f : A -> A) : forall n l, (length l <= n)%nat -> upd_nth n f l = l.
Proof. induction n; destruct l; cbn; intros; try lia; auto. f_equal. apply IHn. lia. Qed.

Lemma splice_length off vals arr :
  (off + length vals <= length arr)%nat -> length (splice off vals arr) = length arr.
Proof. intros H. unfold splice. rewrite !app_length, firstn_length, skipn_length. lia. Qed.

(** reading the window just written *)
Lemma rd_splice_same off vals arr :
  (off + length vals <= length arr)%nat ->
  firstn (length vals) (skipn off (splice off vals arr)) = vals.
Proof.
  intros H. unfold splice.
  rewrite skipn_app, skipn_firstn_comm, Nat.sub_diag. cbn [firstn app].
  rewrite firstn_length, Nat.min_l by lia. rewrite Nat.sub_diag. cbn [skipn].
  rewrite firstn_app, Nat.sub_diag, firstn_all. cbn [firstn]. apply app_nil_r.
Qed.

Lemma skipn_skipn' {A} (l : list A) : forall y x, skipn x (skipn y l) = skipn (y + x) l.
Proof.
  revert l. induction l as [|a l IH]; intros y x.
  - rewrite !skipn_nil. reflexivity.
  - destruct y; [reflexivity|]. cbn [skipn plus]. apply IH.
Qed.

Lemma firstn_skipn_app_l {A} (l1 l2 : list A) o n :
  (o + n <= length l1)%nat -> firstn n (skipn o (l1 ++ l2)) = firstn n (skipn o l1).
Proof.
  intros H. rewrite skipn_app, firstn_app, skipn_length.
  replace (n - (length l1 - o))%nat with 0%nat by lia. cbn [firstn]. apply app_nil_r.
Qed.

(** reading a window that does not meet the one just written *)
Lemma rd_splice_other off (vals arr : list range) o n :
  (off + length vals <= length arr)%nat -> (o + n <= off \/ off + length vals <= o)%nat ->
  firstn n (skipn o (splice off vals arr)) = firstn n (skipn o arr).
Proof.
  intros H O. unfold splice. destruct O as [O | O].
  - rewrite firstn_skipn_app_l by (rewrite firstn_length; lia).
    transitivity (firstn n (skipn o (firstn off arr ++ skipn off arr))); [|rewrite firstn_skipn; reflexivity].
    rewrite firstn_skipn_app_l by (rewrite firstn_length; lia). reflexivity.
  - rewrite app_assoc, skipn_app.
    rewrite (skipn_all2 (firstn off arr ++ vals)) by (rewrite app_length, firstn_length; lia).
    cbn [app]. rewrite skipn_skipn'. f_equal. f_equal.
    rewrite app_length, firstn_length. lia.
Qed.

Lemma wr_lengths h a off vals :
  (off + length vals <= length (nth a h []))%nat ->
  forall b, length (nth b (wr h a off vals) []) = length (nth b h []).
Proof.
  intros H b. unfold wr. destruct (Nat.eq_dec a b) as [<- | N].
  - destruct (lt_dec a (length h)) as [L | L].
    + rewrite nth_upd_nth_same by exact L. apply splice_length. exact H.
    + rewrite upd_nth_beyond by lia. reflexivity.
  - rewrite nth_upd_nth_other by exact N. reflexivity.
Qed.

Lemma rd_length h w : inb h w -> length (rd h w) = sl_len w.
Proof. unfold inb, rd. intros H. rewrite firstn_length, skipn_length. lia. Qed.

Lemma rd_same_win h w w' : same_win w w' -> rd h w = rd h w'.
Proof. intros (A & O & N). unfold rd. rewrite A, O, N. reflexivity. Qed.

Lemma rd_wr_same h s vals w :
  inb h s -> length vals = sl_len s -> same_win w s -> rd (wr h (sl_arr s) (sl_off s) vals) w = vals.
Proof.
  intros I Lv (A & O & N). unfold rd, wr. rewrite A, O, N. unfold inb in I.
  destruct (lt_dec (sl_arr s) (length h)) as [L | L].
  - rewrite nth_upd_nth_same by exact L. rewrite <- Lv. apply rd_splice_same. lia.
  - rewrite upd_nth_beyond by lia. rewrite nth_overflow in * by lia. cbn [length] in I.
    assert (sl_len s = 0%nat) by lia. destruct vals; [|cbn in Lv; lia].
    rewrite H. reflexivity.
Qed.

Lemma rd_wr_sep h s vals w :
  inb h s -> length vals = sl_len s -> sep w s -> rd (wr h (sl_arr s) (sl_off s) vals) w = rd h w.
Proof.
  intros I Lv S. unfold rd, wr. unfold inb in I.
  destruct (Nat.eq_dec (sl_arr s) (sl_arr w)) as [E | N].
  - destruct S as [S | S]; [congruence|]. rewrite <- E.
    destruct (lt_dec (sl_arr s) (length h)) as [L | L].
    + rewrite nth_upd_nth_same by exact L. apply rd_splice_other; lia.
    + rewrite upd_nth_beyond by lia. reflexivity.
  - rewrite nth_upd_nth_other by exact N. reflexivity.
Qed.

(** ** Sorting a window of the log in place keeps the log *)

Section Keep.
  Variable h0 : heap.
  Variable W : list sl.
  Hypothesis WF : WFheap h0 W.

  Lemma kept_inb h w : kept h0 W h -> In w W -> inb h w.
  Proof.
    intros (Len & _) I. destruct WF as (B & _). rewrite Forall_forall in B. specialize (B w I).
    unfold inb in *. rewrite Len. exact B.
  Qed.

  Lemma sort_keeps h s : kept h0 W h -> In s W -> kept h0 W (wr h (sl_arr s) (sl_off s) (sort_off (rd h s))).
  Proof.
    intros K I. pose proof (kept_inb h s K I) as B.
    assert (Lv : length (sort_off (rd h s)) = sl_len s).
    { rewrite (Permutation_length (sort_off_perm (rd h s))). apply rd_length. exact B. }
    destruct K as (Len & P). split.
    - intros a. rewrite wr_lengths; [apply Len|]. rewrite Lv. exact B.
    - intros w Iw. destruct WF as (_ & D). destruct (D w s Iw I) as [S | S].
      + rewrite (rd_wr_same h s _ w B Lv S). eapply perm_trans; [apply (P w Iw)|].
        rewrite (rd_same_win h w s S). apply Permutation_sym, sort_off_perm.
      + rewrite (rd_wr_sep h s _ w B Lv S). apply P. exact Iw.
  Qed.

  (** holders: still a slice of the log / additionally too short to be sorted *)
  Definition rok (x : rs) : Prop := match x with Alias s => In s W | Own _ => True end.
  Definition rok2 (x : rs) : Prop := match x with Alias s => In s W /\ (sl_len s < 2)%nat | Own _ => True end.
  Definition hok (r : href) : Prop := rok (h_rs r).
  Definition hok2 (r : href) : Prop := rok2 (h_rs r).

  Lemma rok2_rok x : rok2 x -> rok x.
  Proof. destruct x; cbn; tauto. Qed.
  Lemma hok2_hok l : Forall hok2 l -> Forall hok l.
  Proof. apply Forall_impl. intros r. apply rok2_rok. Qed.

  Lemma rsm_keeps h x h' x' : kept h0 W h -> rok x -> rsm h x = (h', x') -> kept h0 W h' /\ rok2 x'.
  Proof.
    intros K R E. destruct x as [s | l]; cbn [rsm] in E.
    - destruct (sl_len s <? 2)%nat eqn:T.
      + inversion E; subst. apply Nat.ltb_lt in T. split; [exact K | cbn; auto].
      + inversion E; subst. split; [apply sort_keeps; assumption | exact I].
    - inversion E; subst. split; [exact K | exact I].
  Qed.

  Lemma rsm_small h x : rok2 x -> exists x', rsm h x = (h, x') /\ rok2 x'.
  Proof.
    intros R. destruct x as [s | l]; cbn [rsm].
    - destruct R as (I & T). apply Nat.ltb_lt in T. rewrite T. eexists. split; [reflexivity|].
      apply Nat.ltb_lt in T. cbn. auto.
    - eexists. split; [reflexivity | exact I].
  Qed.

  (** the append of the grouping loop never writes: the holder stays what it was
      or becomes an array of the validator's own *)
  Lemma app_small h x vals : rok2 x -> rok2 (app_rs h x vals).
  Proof.
    intros R. unfold app_rs. destruct vals as [|v vs]; [exact R | exact I].
  Qed.

  Lemma rsm_all_keeps : forall l h h' l', kept h0 W h -> Forall hok l -> rsm_all h l = (h', l') ->
    kept h0 W h' /\ Forall hok2 l'.
  Proof.
    induction l as [|r t IH]; intros h h' l' K F E; cbn [rsm_all] in E.
    - inversion E; subst. split; [exact K | constructor].
    - inversion F as [|? ? Hr Ht]; subst.
      destruct (rsm h (h_rs r)) as (h1, x) eqn:E1.
      destruct (rsm_all h1 t) as (h2, t') eqn:E2. inversion E; subst.
      destruct (rsm_keeps _ _ _ _ K Hr E1) as (K1 & R1).
      destruct (IH _ _ _ K1 Ht E2) as (K2 & F2).
      split; [exact K2 | constructor; [exact R1 | exact F2]].
  Qed.

  (** the grouping loop does not write at all: nothing that can still grow in place is left *)
  Lemma hloop_pure : forall l h cur, hok2 cur -> Forall hok2 l ->
    exists out, hloop h cur l = (h, out) /\ Forall hok2 out.
  Proof.
    induction l as [|r t IH]; intros h cur C F; cbn [hloop].
    - destruct (rsm_small h (h_rs cur) C) as (x & -> & R). eexists. split; [reflexivity|].
      constructor; [exact R | constructor].
    - inversion F as [|? ? Hr Ht]; subst.
      destruct (art_eqb (h_art r) (h_art cur) && mapper_eqb (h_map r) (h_map cur)).
      + apply IH; [exact (app_small h (h_rs cur) (val h (h_rs r)) C) | exact Ht].
      + destruct (rs_len (h_rs cur)).
        * apply IH; assumption.
        * destruct (rsm_small h (h_rs cur) C) as (x & -> & R).
          destruct (IH h r Hr Ht) as (out & -> & Fo). eexists. split; [reflexivity|].
          constructor; [exact R | exact Fo].
  Qed.

  Lemma hins_forall (P : href -> Prop) x : forall l, P x -> Forall P l -> Forall P (hins x l).
  Proof.
    induction l as [|y t IH]; intros Px F; cbn [hins]; [constructor; [exact Px | constructor]|].
    inversion F; subst. destruct (is_lt (hcmp y x)).
    - constructor; [assumption | apply IH; assumption].
    - constructor; [exact Px | exact F].
  Qed.
  Lemma hsort_forall (P : href -> Prop) l : Forall P l -> Forall P (hsort l).
  Proof.
    induction 1; cbn; [constructor|]. apply hins_forall; assumption.
  Qed.

  Lemma hsm_keeps h s h' o : kept h0 W h -> Forall hok s -> hsm h s = (h', o) ->
    kept h0 W h' /\ forall out, o = Ok out -> Forall hok out.
  Proof.
    intros K F E. unfold hsm in E.
    destruct s as [|a t]; [inversion E; subst; split; [exact K | intros out [= <-]; constructor]|].
    destruct (hconflict (a :: t)); [inversion E; subst; split; [exact K | discriminate]|].
    destruct (hsorted (hsort (a :: t))); [|inversion E; subst; split; [exact K | discriminate]].
    destruct (rsm_all h (hsort (a :: t))) as (h1, s1) eqn:E1.
    destruct (rsm_all_keeps _ _ _ _ K (hsort_forall _ _ F) E1) as (K1 & F1).
    destruct s1 as [|r t1]; [inversion E; subst; split; [exact K1 | intros out [= <-]; constructor]|].
    inversion F1; subst.
    destruct (hloop_pure t1 h1 r ltac:(assumption) ltac:(assumption)) as (out & Eo & Fo).
    rewrite Eo in E. inversion E; subst. split; [exact K1|]. intros out' [= <-]. apply hok2_hok. exact Fo.
  Qed.

  Lemma hresolve_ok h : forall s, Forall hok s -> Forall hok (fst (hresolve h s)).
  Proof.
    induction s as [|r t IH]; intros F; cbn [hresolve]; [constructor|].
    inversion F; subst. specialize (IH ltac:(assumption)).
    destruct (is_nil (h_map r)).
    - destruct (hresolve h t). cbn [fst] in *. constructor; assumption.
    - destruct (resolve (h_map r) (h_size r) (val h (h_rs r))); cbn [fst]; try exact F.
      destruct (hresolve h t). cbn [fst] in *. constructor; [exact I | assumption].
  Qed.

  Lemma alias_ok l : incl (map l_sl l) W -> Forall hok (map alias l).
  Proof.
    intros I. apply Forall_forall. intros r Hr. apply in_map_iff in Hr. destruct Hr as (x & <- & Hx).
    cbn. apply I. apply in_map. exact Hx.
  Qed.

  Lemma own_ok h l : Forall hok (map (own_copy h) l).
  Proof. apply Forall_forall. intros r Hr. apply in_map_iff in Hr. destruct Hr as (x & <- & _). exact I. Qed.

  (** ** ValidatorActorsAreProtected *)

  Lemma hvap_actor_keeps h idx prev cur pa st :
    kept h0 W h -> incl (step_windows st) W -> Forall hok prev ->
    kept h0 W (fst (hvap_actor h idx prev cur pa st)).
  Proof.
    intros K I Fp. unfold hvap_actor.
    destruct (hs_actor st); [|exact K].
    destruct (opt_eqb (Some z) pa); [exact K|].
    destruct (hs_code st) as [code|] eqn:Ec; [|exact K].
    assert (Fc : Forall hok (map alias code)).
    { apply alias_ok. intros w Hw. apply I. unfold step_windows. rewrite Ec. apply in_or_app. right. exact Hw. }
    assert (X : exists h1 o1, (match code with [] => (h, Ok []) | _ :: _ => hsm h (map alias code) end) = (h1, o1) /\
                kept h0 W h1 /\ forall out, o1 = Ok out -> Forall hok out).
    { destruct code as [|c ct].
      - exists h, (Ok []). split; [reflexivity|]. split; [exact K|]. intros out [= <-]. constructor.
      - destruct (hsm h (map alias (c :: ct))) as (h1, o1) eqn:E1. exists h1, o1. split; [reflexivity|].
        apply (hsm_keeps _ _ _ _ K Fc E1). }
    destruct X as (h1 & o1 & -> & K1 & F1).
    destruct o1 as [arefs0| | |]; try exact K1.
    specialize (F1 arefs0 eq_refl). pose proof (hresolve_ok h1 arefs0 F1) as F2.
    destruct (hresolve h1 arefs0) as (arefs1, e2). cbn [fst] in F2.
    destruct arefs1 as [|a1 at1]; [exact K1|].
    destruct (hsm h1 (a1 :: at1)) as (h2, o2) eqn:E2.
    destruct (hsm_keeps _ _ _ _ K1 F2 E2) as (K2 & _).
    destruct o2 as [s0| | |]; try exact K2.
    destruct (hsm h2 prev) as (h3, o3) eqn:E3.
    destruct (hsm_keeps _ _ _ _ K2 Fp E3) as (K3 & _).
    destruct o3 as [s1| | |]; try exact K3.
    destruct (excl_walk (map (hval h3) s0) (map (hval h3) s1)) as [nm| | |]; try exact K3.
    destruct (has_bytes nm); exact K3.
  Qed.

  Lemma hvap_go_keeps : forall l h idx measured pa,
    kept h0 W h -> incl (windows l) W -> Forall hok measured ->
    kept h0 W (fst (hvap_go h idx measured pa l)).
  Proof.
    induction l as [|st t IH]; intros h idx measured pa K I Fm; cbn [hvap_go]; [exact K|].
    assert (Is : incl (step_windows st) W).
    { intros w Hw. apply I. cbn [windows flat_map]. apply in_or_app. left. exact Hw. }
    assert (It : incl (windows t) W).
    { intros w Hw. apply I. cbn [windows flat_map]. apply in_or_app. right. exact Hw. }
    assert (Fn : Forall hok (fst (hresolve h (map alias (hs_meas st))))).
    { apply hresolve_ok, alias_ok. intros w Hw. apply Is. unfold step_windows. apply in_or_app. left. exact Hw. }
    destruct (hsm h (measured ++ fst (hresolve h (map alias (hs_meas st))))) as (h1, o1) eqn:E1.
    destruct (hsm_keeps _ _ _ _ K (proj2 (Forall_app _ _ _) (conj Fm Fn)) E1) as (K1 & F1).
    destruct o1 as [cur| | |]; try exact K1.
    specialize (F1 cur eq_refl).
    pose proof (hvap_actor_keeps h1 idx (map (own_copy h) measured) cur pa st K1 Is (own_ok h measured)) as K2.
    destruct (hvap_actor h1 idx (map (own_copy h) measured) cur pa st) as (h2, o2). cbn [fst] in K2.
    destruct o2 as [[iss pa']| | |]; try exact K2.
    specialize (IH h2 (idx + 1) cur pa' K2 It F1).
    destruct (hvap_go h2 (idx + 1) cur pa' t) as (h3, o3). cbn [fst] in *.
    destruct o3; exact IH.
  Qed.

  Theorem vap_keeps h l : kept h0 W h -> incl (windows l) W -> kept h0 W (fst (hvap h l)).
  Proof. intros K I. unfold hvap. apply hvap_go_keeps; [exact K | exact I | constructor]. Qed.

  (** ** ValidatorFinalCoverageIsComplete *)

  Lemma hvfc_measured_keeps : forall l h measured h' o,
    kept h0 W h -> incl (windows l) W -> Forall hok measured -> hvfc_measured h measured l = (h', o) ->
    kept h0 W h' /\ forall m, o = Ok m -> Forall hok m.
  Proof.
    induction l as [|st t IH]; intros h measured h' o K I Fm E; cbn [hvfc_measured] in E.
    - inversion E; subst. split; [exact K|]. intros m [= <-]. exact Fm.
    - assert (Fn : Forall hok (fst (hresolve h (map alias (hs_meas st))))).
      { apply hresolve_ok, alias_ok. intros w Hw. apply I. cbn [windows flat_map]. apply in_or_app. left.
        unfold step_windows. apply in_or_app. left. exact Hw. }
      assert (It : incl (windows t) W).
      { intros w Hw. apply I. cbn [windows flat_map]. apply in_or_app. right. exact Hw. }
      destruct (hsm h (measured ++ fst (hresolve h (map alias (hs_meas st))))) as (h1, o1) eqn:E1.
      destruct (hsm_keeps _ _ _ _ K (proj2 (Forall_app _ _ _) (conj Fm Fn)) E1) as (K1 & F1).
      destruct o1 as [m| | |]; try (inversion E; subst; split; [exact K1 | discriminate]).
      apply (IH h1 m h' o K1 It (F1 m eq_refl) E).
  Qed.

  Lemma sort_inplace_keeps h x : kept h0 W h -> rok x -> kept h0 W (sort_inplace h x).
  Proof.
    intros K R. destruct x as [s | l]; cbn [sort_inplace]; [|exact K].
    destruct (sl_len s <? 2)%nat; [exact K|]. apply sort_keeps; assumption.
  Qed.

  Lemma excl_fx_keeps : forall s0 s1 h, kept h0 W h -> Forall hok s1 -> kept h0 W (excl_fx h s0 s1).
  Proof.
    induction s0 as [|r0 t0 IH0]; intros s1 h K F; [exact K|].
    induction s1 as [|r1 t1 IH1]; [exact K|].
    inversion F as [|? ? H1 Ht]; subst. cbn [excl_fx].
    destruct (cmp_ref r0 (hkey r1)).
    - apply IH0; assumption.
    - apply IH0; [|exact Ht]. destruct (rranges r0); [exact K|]. apply sort_inplace_keeps; assumption.
    - apply IH1. exact Ht.
    - exact K.
  Qed.

  Theorem vfc_keeps h files l : kept h0 W h -> incl (windows l) W -> kept h0 W (fst (hvfc h files l)).
  Proof.
    intros K I. unfold hvfc. destruct l as [|st0 t0]; [exact K|].
    set (l := st0 :: t0) in *. clearbody l.
    destruct (hvfc_measured h [] l) as (h1, o) eqn:E.
    destruct (hvfc_measured_keeps _ _ _ _ _ K I ltac:(constructor) E) as (K1 & F1).
    destruct o as [measured| | |]; try exact K1.
    specialize (F1 measured eq_refl).
    destruct files as [[|f ft]| | |]; try exact K1.
    destruct (sm (resolved (f :: ft))) as [s0| | |]; try exact K1.
    destruct (hsm h1 measured) as (h2, o2) eqn:E2.
    destruct (hsm_keeps _ _ _ _ K1 F1 E2) as (K2 & F2).
    destruct o2 as [s1| | |]; try exact K2.
    specialize (F2 s1 eq_refl).
    destruct (excl_walk s0 (map (hval h2) s1)) as [[|n nt]| | |]; cbn [fst]; try exact K2;
      apply excl_fx_keeps; assumption.
  Qed.
End Keep.

(** ** What [kept] means for a reader of the log *)

Lemma kept_in_ranges h0 W h w k : kept h0 W h -> In w W -> in_ranges (rd h w) k <-> in_ranges (rd h0 w) k.
Proof. intros (_ & P) I. symmetry. apply in_ranges_perm_iff. apply P. exact I. Qed.

(** every reference of the log denotes the same (artifact, address space, address) triples *)
Lemma kept_den h0 W h (refs : list lref) a m k :
  kept h0 W h -> incl (map l_sl refs) W ->
  den (map (val_lref h) refs) a m k <-> den (map (val_lref h0) refs) a m k.
Proof.
  intros K. induction refs as [|r t IH]; intros I; cbn [map]; [reflexivity|].
  rewrite !den_cons. rewrite IH by (intros w Hw; apply I; right; exact Hw).
  unfold hit, val_lref, ai. cbn [rart rmap rranges].
  rewrite (kept_in_ranges h0 W h (l_sl r) k K) by (apply I; left; reflexivity). reflexivity.
Qed.

(** the window lists of a later pass are the same: [kept] composes *)
Lemma kept_wf h0 W h : WFheap h0 W -> kept h0 W h -> WFheap h W.
Proof.
  intros (B & D) (Len & _). split; [|exact D]. rewrite Forall_forall in *. intros w I.
  unfold inb. rewrite Len. apply B. exact I.
Qed.

(** ** Closed witnesses *)

Definition wimg : art := mkArt 1 1 false (repeat 0 64%nat).
Definition wl (m : mapper) (a o n c : nat) : lref := mkL wimg 64 m (mkSl a o n c).

Ltac wf_closed :=
  split;
  [ repeat constructor; unfold inb; cbn; lia
  | intros w w' Hw Hw'; cbn in Hw, Hw';
    repeat (destruct Hw as [<- | Hw]; [|]); try contradiction;
    repeat (destruct Hw' as [<- | Hw']; [|]); try contradiction;
    first [ left; repeat split; reflexivity | right; unfold sep; cbn; lia ] ].

(** The log of the former finding C10-shared-backing-append.  Step 0 measures the
    one range [32,40) through a slice with len 1 and cap 2, step 1 measures
    [16,24), step 2 hands control to an actor living in [32,40).  (The code used
    to append [16,24) into the spare element of the slice of step 0, so that a
    second validation of the same log reported the actor.)  Now: the memory is
    left as it was and both passes report nothing. *)
Definition bad_heap : heap := [[]; [mkR 32 8; mkR 0 0]; [mkR 16 8]; [mkR 32 8]].
Definition bad_log : list hstep :=
  [mkHS None None [wl MNil 1 0 1 2] [];
   mkHS None None [wl MNil 2 0 1 1] [];
   mkHS (Some 1) (Some [wl MNil 3 0 1 1]) [] []].

Lemma bad_log_wf : WFheap bad_heap (windows bad_log).
Proof. wf_closed. Qed.

Lemma bad_log_kept :
  hvap bad_heap bad_log = (bad_heap, Ok []) /\ hvfc bad_heap (Err 1) bad_log = (bad_heap, Ok [mkVI 2 5 [] []]).
Proof. split; vm_compute; reflexivity. Qed.

(** The hypotheses of [vap_keeps] / [vfc_keeps] are satisfiable by a log whose
    validation does write to memory: step 0 measures three ranges out of order
    through a slice with one spare element, step 1 a lower range; the validator
    sorts the first array in place and nothing else. *)
Definition ok_heap : heap := [[]; [mkR 48 4; mkR 16 4; mkR 32 4; mkR 0 0]; [mkR 8 4]].
Definition ok_log : list hstep :=
  [mkHS None None [wl MNil 1 0 3 4] [];
   mkHS (Some 1) (Some [wl MNil 1 0 3 4]) [wl MNil 2 0 1 1] []].

Lemma ok_log_hyps : WFheap ok_heap (windows ok_log).
Proof. wf_closed. Qed.

Lemma ok_log_sorted :
  fst (hvap ok_heap ok_log) = [[]; [mkR 16 4; mkR 32 4; mkR 48 4; mkR 0 0]; [mkR 8 4]].
Proof. vm_compute. reflexivity. Qed.
